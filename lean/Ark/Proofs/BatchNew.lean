/-
  Ark.Proofs.BatchNew — C06 at world level, part 1: `NewBatch` / `NewEntities` create exactly the
  entities that the same number of single `NewEntity` calls create.
-/
import Ark.Proofs.Refine

set_option autoImplicit false

namespace Ark

open World Ark.Props.C01World

/-! ## 0. `capPow2`: growing in one step or in several gives the same capacity -/

theorem capPow2_go_stable (m n : Nat) (hmn : m ≤ n) : ∀ (fuel p : Nat),
    n ≤ capPow2.go m p fuel → capPow2.go n p fuel = capPow2.go m p fuel
  | 0, p, _ => by simp only [capPow2.go]
  | fuel + 1, p, h => by
    simp only [capPow2.go] at h ⊢
    by_cases hp : p ≥ m
    · rw [if_pos hp] at h ⊢
      rw [if_pos h]
    · rw [if_neg hp] at h ⊢
      rw [if_neg (by omega)]
      exact capPow2_go_stable m n hmn fuel (2 * p) h

/-- a requirement between `m` and the capacity chosen for `m` gets the same capacity -/
theorem capPow2_stable {m n : Nat} (hmn : m ≤ n) (h : n ≤ capPow2 m) : capPow2 n = capPow2 m := by
  by_cases hm : m = 0
  · subst hm
    rw [capPow2_zero] at h
    rcases Nat.eq_zero_or_pos n with rfl | hn
    · rfl
    · have : n = 1 := by omega
      subst this; decide
  · have hn : n ≠ 0 := by omega
    unfold capPow2 at h ⊢
    rw [if_neg hm] at h ⊢
    rw [if_neg hn]
    exact capPow2_go_stable m n hmn 33 1 h

/-! ## 1. table level: `alloc (n+1)` and writing the first handle = `add`, then `alloc n` -/

theorem list_set_take_replicate {α : Type} (l : List α) (n C : Nat) (z e : α) (hn : n < l.length)
    (hC : n + 1 ≤ C) :
    (l.take n ++ List.replicate (C - n) z).set n e =
      (l.set n e).take (n + 1) ++ List.replicate (C - (n + 1)) z := by
  apply List.ext_getElem?
  intro i
  grind

theorem list_take_succ_zero (col : List Nat) (n C : Nat) (hn : n < col.length) (hC : n + 1 ≤ C)
    (h0 : col.getD n 0 = 0) :
    col.take n ++ List.replicate (C - n) 0 = col.take (n + 1) ++ List.replicate (C - (n + 1)) 0 := by
  apply List.ext_getElem?
  intro i
  grind

theorem list_regrow_set {α : Type} (X : List α) (n C C1 : Nat) (z e : α) (hn : X.length = n)
    (hC1 : n + 1 ≤ C1) (hC : n + 1 ≤ C) :
    ((X ++ List.replicate (C1 - n) z).set n e).take (n + 1) ++ List.replicate (C - (n + 1)) z =
      (X ++ List.replicate (C - n) z).set n e := by
  apply List.ext_getElem?
  intro i
  simp only [List.getElem?_append, List.getElem?_take, List.getElem?_set, List.getElem?_replicate,
    List.length_append, List.length_replicate, hn]
  grind

theorem list_regrow (col : List Nat) (n C C1 : Nat) (hn : n ≤ col.length) (hC1 : n + 1 ≤ C1)
    (hC : n + 1 ≤ C) :
    (col.take n ++ List.replicate (C1 - n) 0).take (n + 1) ++ List.replicate (C - (n + 1)) 0 =
      col.take n ++ List.replicate (C - n) 0 := by
  apply List.ext_getElem?
  intro i
  simp only [List.getElem?_append, List.getElem?_take, List.getElem?_replicate,
    List.length_take, List.length_append, List.length_replicate]
  have : min n col.length = n := by omega
  simp only [this]
  grind

namespace Table

/-- **the batch allocation is the iterated single one** (table level): reserving `n+1` rows at once
    and writing the first handle gives the same table — capacity, entity column, component
    columns — as `Add` of that handle followed by reserving `n` rows. -/
theorem alloc_succ_eq {T : Table} (hS : T.Shape) (e : Ent) (n : Nat) (hb : T.len + (n + 1) < 2 ^ 32) :
    { T.alloc (n + 1) with ents := (T.alloc (n + 1)).ents.set T.len e } = ((T.add e).1).alloc n := by
  obtain ⟨id, arch, ids, isRel, zst, ents, cols, targets, relIDs, len, cap, isFree⟩ := T
  have hlen := hS.len_le
  have hel := hS.ents_len
  have hcl := hS.col_len
  have hzt := hS.zero_tail
  simp only at hlen hel hcl hzt hb
  have hcp := capPow2_ge' (len + (n + 1)) hb
  have hcp1 := capPow2_ge' (len + 1) (by omega)
  by_cases hA : cap ≥ len + (n + 1)
  · -- no growth at all
    have h1 : cap ≥ len + 1 := by omega
    have h2 : cap ≥ len + 1 + n := by omega
    simp only [Table.alloc, Table.extend, Table.add, hA, h1, h2, if_true, Table.mk.injEq, true_and,
      and_true]
    omega
  · by_cases hB : cap ≥ len + 1
    · -- the single `add` fits, the rest grows
      have h2 : ¬ cap ≥ len + 1 + n := by omega
      have hceq : capPow2 (len + 1 + n) = capPow2 (len + (n + 1)) := by
        rw [Nat.add_assoc, Nat.add_comm 1 n]
      simp only [Table.alloc, Table.extend, Table.add, Table.adjustCapacity, hA, hB, h2, if_true,
        if_false, Table.mk.injEq, true_and, and_true, hceq]
      refine ⟨?_, ?_, by omega⟩
      · exact list_set_take_replicate ents len _ Ent.zero e (by omega) (by omega)
      · apply List.map_congr_left
        intro col hcol
        exact list_take_succ_zero col len _ (by rw [hcl col hcol]; omega) (by omega)
          (hzt col hcol len (Nat.le_refl _))
    · -- the single `add` grows already
      by_cases hC : capPow2 (len + 1) ≥ len + 1 + n
      · have hceq : capPow2 (len + (n + 1)) = capPow2 (len + 1) :=
          capPow2_stable (by omega) (by omega)
        simp only [Table.alloc, Table.extend, Table.add, Table.adjustCapacity, hA, hB, hC, if_true,
          if_false, Table.mk.injEq, true_and, and_true, hceq]
        omega
      · have hceq : capPow2 (len + 1 + n) = capPow2 (len + (n + 1)) := by
          rw [Nat.add_assoc, Nat.add_comm 1 n]
        simp only [Table.alloc, Table.extend, Table.add, Table.adjustCapacity, hA, hB, hC,
          if_false, Table.mk.injEq, true_and, and_true, hceq, List.map_map]
        refine ⟨?_, ?_, by omega⟩
        · exact (list_regrow_set (ents.take len) len _ _ Ent.zero e (by rw [List.length_take]; omega)
            (by omega) (by omega)).symm
        · apply List.map_congr_left
          intro col hcol
          exact (list_regrow col len _ _ (by rw [hcl col hcol]; omega) (by omega) (by omega)).symm

end Table

/-! ## 2. world level: `createEntities t n` is `n` times `placeNew t` -/

namespace World

theorem set_false_of_allFalse {l : List Bool} (h : ∀ i : Nat, l.getD i false = false) (k : Nat) :
    l.set k false = l := by
  apply List.ext_getElem?
  intro i
  rw [List.getElem?_set]
  by_cases hk : k = i
  · subst hk
    rw [if_pos rfl]
    split
    · rename_i hlt
      have := h k
      rw [List.getD_eq_getElem?_getD, List.getElem?_eq_getElem hlt] at this
      rw [List.getElem?_eq_getElem hlt]; simpa using this.symm
    · rename_i hlt
      rw [List.getElem?_eq_none (by omega)]
  · rw [if_neg hk]

/-- the four fields the creation of an entity touches -/
def upd (w : World) (tables : List Table) (pool : Pool) (entities : List (Nat × Nat))
    (isTarget : List Bool) : World := { w with tables, pool, entities, isTarget }

theorem createStep_upd (t start : Nat) (w : World) (k : Nat) :
    createStep t start w k =
      upd w (w.tables.set t { w.tbl t with ents := (w.tbl t).ents.set (start + k) (w.pool.get).2 })
        (w.pool.get).1
        (if (w.pool.get).2.id = w.entities.length then w.entities ++ [(t, start + k)]
          else w.entities.set (w.pool.get).2.id (t, start + k))
        (if (w.pool.get).2.id = w.entities.length then w.isTarget ++ [false]
          else w.isTarget.set (w.pool.get).2.id false) := by
  simp only [createStep]
  by_cases hb : (w.pool.get).2.id = w.entities.length
  · have hb' : ((w.pool.get).2.id == w.entities.length) = true := by simpa using hb
    rw [if_pos hb, if_pos hb]
    split
    · rfl
    · rename_i hc; exact absurd hb' hc
  · have hb' : ((w.pool.get).2.id == w.entities.length) = false := by simpa using hb
    rw [if_neg hb, if_neg hb]
    split
    · rename_i hc
      have hc' : ((w.pool.get).2.id == w.entities.length) = true := hc
      rw [hb'] at hc'; cases hc'
    · rfl

theorem placedW_upd (w : World) (t : Nat) (rt : Bool) :
    placedW w t rt =
      upd w (w.tables.set t ((w.tbl t).add (w.pool.get).2).1) (w.pool.get).1
        (if (w.pool.get).2.id = w.entities.length then w.entities ++ [(t, (w.tbl t).len)]
          else w.entities.set (w.pool.get).2.id (t, (w.tbl t).len))
        (if (w.pool.get).2.id = w.entities.length then w.isTarget ++ [false]
          else if rt = true then w.isTarget.set (w.pool.get).2.id false else w.isTarget) := by
  simp only [placedW]
  by_cases hb : (w.pool.get).2.id = w.entities.length
  · have hb' : ((w.pool.get).2.id == w.entities.length) = true := by simpa using hb
    rw [if_pos hb, if_pos hb]
    split
    · rfl
    · rename_i hc; exact absurd hb' hc
  · have hb' : ((w.pool.get).2.id == w.entities.length) = false := by simpa using hb
    rw [if_neg hb, if_neg hb]
    split
    · rename_i hc
      have hc' : ((w.pool.get).2.id == w.entities.length) = true := hc
      rw [hb'] at hc'; cases hc'
    · rfl

theorem upd_modTbl (w : World) (ts : List Table) (p : Pool) (es : List (Nat × Nat)) (it : List Bool)
    (t : Nat) (f : Table → Table) :
    (upd w ts p es it).modTbl t f = upd w (ts.set t (f (ts.getD t default))) p es it := rfl

/-- the first iteration of `createEntities t (n+1)` is `placeNew t`, up to the rows still to be
    reserved -/
theorem createStep_zero {w : World} {t : Nat} (hlt : t < w.tables.length) (hS : (w.tbl t).Shape)
    (hT : ∀ i : Nat, w.isTarget.getD i false = false) (n : Nat)
    (hb : (w.tbl t).len + (n + 1) < 2 ^ 32) :
    createStep t (w.tbl t).len (w.modTbl t fun T => T.alloc (n + 1)) 0 =
      (placedW w t false).modTbl t fun T => T.alloc n := by
  have hA := Table.alloc_succ_eq hS (w.pool.get).2 n hb
  have h1 : (w.modTbl t fun T => T.alloc (n + 1)).tbl t = (w.tbl t).alloc (n + 1) :=
    modTbl_tbl_self _ hlt
  have e1 : (w.modTbl t fun T => T.alloc (n + 1)).pool = w.pool := rfl
  have e2 : (w.modTbl t fun T => T.alloc (n + 1)).entities = w.entities := rfl
  have e3 : (w.modTbl t fun T => T.alloc (n + 1)).isTarget = w.isTarget := rfl
  have e4 : (w.modTbl t fun T => T.alloc (n + 1)).tables =
      w.tables.set t ((w.tbl t).alloc (n + 1)) := rfl
  have e5 : ∀ ts p es it, upd (w.modTbl t fun T => T.alloc (n + 1)) ts p es it = upd w ts p es it :=
    fun _ _ _ _ => rfl
  rw [createStep_upd, placedW_upd, upd_modTbl, h1, e1, e2, e3, e4, e5, List.set_set, List.set_set]
  simp only [Nat.add_zero]
  rw [hA]
  have h2 : (w.tables.set t ((w.tbl t).add (w.pool.get).2).1).getD t default =
      ((w.tbl t).add (w.pool.get).2).1 := by
    rw [List.getD_eq_getElem?_getD, List.getElem?_set_self hlt]; rfl
  rw [h2]
  simp only [Bool.false_eq_true, if_false, set_false_of_allFalse hT]

theorem createStep_shift (t start : Nat) (w : World) (i : Nat) :
    createStep t start w (i + 1) = createStep t (start + 1) w i := by
  have : start + (i + 1) = start + 1 + i := by omega
  simp only [createStep, this]

theorem placedW_tbl_self {w : World} {t : Nat} (hlt : t < w.tables.length) (rt : Bool) :
    (placedW w t rt).tbl t = ((w.tbl t).add (w.pool.get).2).1 := by
  apply tbl_of_get
  rw [(placedW_place w t rt).2, place_tables]
  exact List.getElem?_set_self hlt

theorem placedW_tbl_ne (w : World) {t t' : Nat} (hne : t ≠ t') (rt : Bool) :
    (placedW w t rt).tbl t' = w.tbl t' := by
  simp only [tbl, (placedW_place w t rt).2, place_tables, List.getD_eq_getElem?_getD,
    List.getElem?_set_ne hne]

theorem placedW_tables_len (w : World) (t : Nat) (rt : Bool) :
    (placedW w t rt).tables.length = w.tables.length := by
  rw [(placedW_place w t rt).2, place_tables, List.length_set]

/-- `createEntities t (n+1)` = `placeNew t`, then `createEntities t n` -/
theorem createEntitiesW_succ {w : World} {t : Nat} (hlt : t < w.tables.length) (hS : (w.tbl t).Shape)
    (hT : ∀ i : Nat, w.isTarget.getD i false = false) (n : Nat)
    (hb : (w.tbl t).len + (n + 1) < 2 ^ 32) :
    createEntitiesW w t (n + 1) = createEntitiesW (placedW w t false) t n := by
  simp only [createEntitiesW, createPrefix]
  rw [List.range_succ_eq_map, List.foldl_cons, List.foldl_map, createStep_zero hlt hS hT n hb,
    placedW_tbl_self hlt, Table.add_fst_len]
  simp only [createStep_shift]

/-- `createEntities t 0` changes nothing -/
theorem createEntitiesW_zero {w : World} {t : Nat} (hS : (w.tbl t).Shape) :
    createEntitiesW w t 0 = w := by
  have h1 : (w.tbl t).alloc 0 = w.tbl t := by
    have := hS.len_le
    simp only [Table.alloc, Table.extend, Nat.add_zero, ge_iff_le, this, if_true]
  show w.setTbl t ((w.tbl t).alloc 0) = w
  rw [h1]
  show { w with tables := w.tables.set t (w.tbl t) } = w
  rw [set_tbl_self]

/-- `n` successive `placeNew t false` -/
def placeN (w : World) (t : Nat) : Nat → World
  | 0 => w
  | n + 1 => placeN (placedW w t false) t n

/-- the handles `n` successive `placeNew t` take from the pool, in order -/
def handlesN (w : World) (t : Nat) : Nat → List Ent
  | 0 => []
  | n + 1 => (w.pool.get).2 :: handlesN (placedW w t false) t n

theorem placedW_allFalse {w : World} (hT : ∀ i : Nat, w.isTarget.getD i false = false) (t : Nat)
    (rt : Bool) : ∀ i : Nat, (placedW w t rt).isTarget.getD i false = false := by
  intro i
  rw [placedW_isTarget']
  split
  · exact getD_false_append hT i
  · split
    · exact getD_false_set hT _ i
    · exact hT i

/-- **`createEntities t n` is `n` times `placeNew t`** — as worlds: same table (capacity, entity
    column, component columns), same pool, same index, same target flags. -/
theorem createEntitiesW_eq_placeN : ∀ (n : Nat) {w : World} {t : Nat}, t < w.tables.length →
    (w.tbl t).Shape → (∀ i : Nat, w.isTarget.getD i false = false) →
    (w.tbl t).len + n < 2 ^ 32 → createEntitiesW w t n = placeN w t n
  | 0, w, t, _, hS, _, _ => createEntitiesW_zero hS
  | n + 1, w, t, hlt, hS, hT, hb => by
    rw [createEntitiesW_succ hlt hS hT n hb]
    show _ = placeN (placedW w t false) t n
    apply createEntitiesW_eq_placeN n
    · rw [placedW_tables_len]; exact hlt
    · rw [placedW_tbl_self hlt]; exact Table.add_shape hS _ (by omega)
    · exact placedW_allFalse hT t false
    · rw [placedW_tbl_self hlt, Table.add_fst_len]; omega

/-! ## 3. the single calls, the batch, and their equality -/


/-- table `t` is the (only) table of archetype `a`, the archetype of the components `ids` -/
structure BatchTarget (w : World) (ids : List Comp) (t a : Nat) : Prop where
  altA : a < w.archetypes.length
  mask : (w.arch a).mask = Mask.ofList ids
  tables : (w.arch a).tables.tables = [t]
  tlt : t < w.tables.length

theorem BatchTarget.congr {w w' : World} {ids : List Comp} {t a : Nat} (h : BatchTarget w ids t a)
    (ha : w'.archetypes = w.archetypes) (hl : w'.tables.length = w.tables.length) :
    BatchTarget w' ids t a :=
  ⟨by rw [ha]; exact h.altA, by simp only [arch, ha]; exact h.mask,
    by simp only [arch, ha]; exact h.tables, by rw [hl]; exact h.tlt⟩

/-- the table lookup of `newEntity` when the table exists: it is returned, nothing changes -/
theorem findOrCreateTableAdd_found {w : World} (h : SInvMid w) {ids : List Comp} {t a : Nat}
    (bt : BatchTarget w ids t a) (hnd : ids.Nodup) (hnr : (w.arch a).hasRelations = false)
    (h0 : (w.tbl 0).relIDs = []) :
    findOrCreateTableAdd 0 Mask.empty ids [] w = .ok (t, a, Mask.ofList ids) w := by
  have hg := graphFindAdd_ok Mask.empty ids w (fun c _ => Mask.get_empty c) hnd
  have hfa : w.findArch (Mask.ofList ids) = some a := by
    rw [← bt.mask]; exact findArch_of_get h (aget_of_lt bt.altA)
  have ha : findOrCreateArch (Mask.ofList ids) w = .ok a w := by
    simp only [findOrCreateArch, hfa]
  have hall : relsForAdd (w.tbl 0) [] = [] := by simp [relsForAdd, h0]
  have hgt := getTable_noRel (a := a) [] hnr
  rw [bt.tables] at hgt
  have ha' : findOrCreateArch (List.foldl Mask.set Mask.empty ids) w = .ok a w := ha
  simp only [findOrCreateTableAdd, bind, M.bind, hg, M.get, ha', hall, hgt]
  rfl

/-- `n` successive `NewEntity(ids…)` calls with the values `vals`; the handles in order -/
def newEntitiesSeq (run : ProbeRunner) (p : Path) (ids : List Comp) (vals : List (Comp × Val)) :
    Nat → W (List Ent)
  | 0 => pure []
  | n + 1 => do
    let e ← opNewEntity run p ids vals []
    let es ← newEntitiesSeq run p ids vals n
    pure (e :: es)

/-- the world after `n` single creations in table `t` with values `vals` -/
def newN (w : World) (t : Nat) (vals : List (Comp × Val)) : Nat → World
  | 0 => w
  | n + 1 => newN (writeValsW (placedW w t false) (w.pool.get).2 vals) t vals n

/-- the handles they return -/
def newHandles (w : World) (t : Nat) (vals : List (Comp × Val)) : Nat → List Ent
  | 0 => []
  | n + 1 => (w.pool.get).2 :: newHandles (writeValsW (placedW w t false) (w.pool.get).2 vals) t vals n

theorem writeValsW_nil (w : World) (e : Ent) : writeValsW w e [] = w := by
  show { w with tables := w.tables.set (w.index e.id).1 (w.tbl (w.index e.id).1) } = w
  rw [set_tbl_self]

theorem newN_nil (w : World) (t : Nat) : ∀ n : Nat, newN w t [] n = placeN w t n
  | 0 => rfl
  | n + 1 => by
    show newN (writeValsW (placedW w t false) (w.pool.get).2 []) t [] n = placeN (placedW w t false) t n
    rw [writeValsW_nil]; exact newN_nil _ t n

theorem newHandles_nil (w : World) (t : Nat) : ∀ n : Nat, newHandles w t [] n = handlesN w t n
  | 0 => rfl
  | n + 1 => by
    show _ :: newHandles (writeValsW (placedW w t false) (w.pool.get).2 []) t [] n =
      _ :: handlesN (placedW w t false) t n
    rw [writeValsW_nil, newHandles_nil _ t n]

/-- the state after one single creation when the table exists -/
theorem newStep_facts {w : World} {fl : List Nat} (h : CInv w fl) {ids : List Comp} {t a : Nat}
    (bt : BatchTarget w ids t a) (vals : List (Comp × Val)) (hb : (w.tbl t).len + 1 < 2 ^ 32) :
    CInv (writeValsW (placedW w t false) (w.pool.get).2 vals) fl.tail ∧
    (writeValsW (placedW w t false) (w.pool.get).2 vals).isLocked = w.isLocked ∧
    BatchTarget (writeValsW (placedW w t false) (w.pool.get).2 vals) ids t a ∧
    ((writeValsW (placedW w t false) (w.pool.get).2 vals).tbl t).len = (w.tbl t).len + 1 := by
  have pp := h.placed bt.tlt false hb
  have wp := pp.cinv.writeVals pp.ge2 pp.notin pp.alive (List.getElem?_eq_some_iff.mp pp.inPool).1 vals
  refine ⟨wp.cinv, ?_, ?_, ?_⟩
  · rw [wp.unlocked, pp.unlocked]
  · exact (bt.congr (placedW_fields w t false).2.1 pp.tablesLen).congr rfl wp.tablesLen
  · rw [wp.rowsLen, placedW_tbl_self bt.tlt, Table.add_fst_len]

/-- one single creation when the table exists -/
theorem opNewEntity_found (run : ProbeRunner) (p : Path) {w : World} {fl : List Nat} (h : CInv w fl)
    (hl : w.isLocked = false) {ids : List Comp} (hnd : ids.Nodup) {t a : Nat}
    (bt : BatchTarget w ids t a) (vals : List (Comp × Val)) (hb : (w.tbl t).len + 1 < 2 ^ 32) :
    opNewEntity run p ids vals [] w =
      .ok (w.pool.get).2 (writeValsW (placedW w t false) (w.pool.get).2 vals) ∧
    CInv (writeValsW (placedW w t false) (w.pool.get).2 vals) fl.tail ∧
    (writeValsW (placedW w t false) (w.pool.get).2 vals).isLocked = false ∧
    BatchTarget (writeValsW (placedW w t false) (w.pool.get).2 vals) ids t a ∧
    ((writeValsW (placedW w t false) (w.pool.get).2 vals).tbl t).len = (w.tbl t).len + 1 := by
  have hfoc := findOrCreateTableAdd_found h.sinv.toSInvMid bt hnd (h.noRelArch' bt.altA)
    (h.relIDs_nil h.sinv.root.1)
  obtain ⟨f1, f2, f3, f4⟩ := newStep_facts h bt vals hb
  exact ⟨opNewEntity_eq run p ids vals w hl hfoc h.noObs, f1, by rw [f2]; exact hl, f3, f4⟩

/-- **the singles as a pure function**: `n` successive `NewEntity(ids…)` calls in a world where
    the table of `ids` exists return `newHandles` and leave `newN` -/
theorem newEntitiesSeq_eq (run : ProbeRunner) (p : Path) {ids : List Comp} (hnd : ids.Nodup)
    (vals : List (Comp × Val)) {t a : Nat} : ∀ (n : Nat) {w : World} {fl : List Nat}, CInv w fl →
    w.isLocked = false → BatchTarget w ids t a → (w.tbl t).len + n < 2 ^ 32 →
    newEntitiesSeq run p ids vals n w = .ok (newHandles w t vals n) (newN w t vals n) ∧
    CInv (newN w t vals n) (fl.drop n) ∧ (newN w t vals n).isLocked = false
  | 0, w, fl, h, hl, _, _ => ⟨rfl, h, hl⟩
  | n + 1, w, fl, h, hl, bt, hb => by
    obtain ⟨h1, h2, h3, h4, h5⟩ := opNewEntity_found run p h hl hnd bt vals (by omega)
    obtain ⟨i1, i2, i3⟩ := newEntitiesSeq_eq run p hnd vals n h2 h3 h4 (by rw [h5]; omega)
    refine ⟨?_, ?_, i3⟩
    · simp only [newEntitiesSeq, bind, M.bind, h1, i1, pure, M.pure]
      rfl
    · have : fl.drop (n + 1) = fl.tail.drop n := by cases fl <;> simp
      rw [this]; exact i2

/-! ### the batch as a pure function -/

theorem createStep_obs (t start : Nat) (w : World) (k : Nat) : (createStep t start w k).obs = w.obs := by
  rw [createStep_upd]; rfl

theorem createStep_locks (t start : Nat) (w : World) (k : Nat) :
    (createStep t start w k).locks = w.locks := by
  rw [createStep_upd]; rfl

theorem foldl_createStep_keep {β : Type} (f : World → β) (t start : Nat)
    (hf : ∀ (w : World) (k : Nat), f (createStep t start w k) = f w) :
    ∀ (l : List Nat) (w : World), f (l.foldl (createStep t start) w) = f w
  | [], _ => rfl
  | k :: l, w => by rw [List.foldl_cons, foldl_createStep_keep f t start hf l, hf]

theorem createEntitiesW_obs (w : World) (t n : Nat) : (createEntitiesW w t n).obs = w.obs :=
  foldl_createStep_keep (·.obs) t _ (createStep_obs t _) _ _

theorem createEntitiesW_locks (w : World) (t n : Nat) : (createEntitiesW w t n).locks = w.locks :=
  foldl_createStep_keep (·.locks) t _ (createStep_locks t _) _ _

/-- without observers and without callback, `NewBatch` is: table lookup, `createEntities` -/
theorem opNewBatch_eq (run : ProbeRunner) (p : Path) (count : Nat) (ids : List Comp)
    (vals : List (Comp × Val)) (w : World) (hl : w.isLocked = false) {t a : Nat} {m : Mask}
    {w1 : World} (hfoc : findOrCreateTableAdd 0 Mask.empty ids [] w = .ok (t, a, m) w1)
    (hno : ∀ evt : Nat, w1.obs.hasObservers evt = false) :
    opNewBatch run p count ids vals [] false w =
      .ok (t, (w1.tbl t).len) (createEntitiesW w1 t count) := by
  have hno1 : ∀ evt : Nat, (createEntitiesW w1 t count).obs.hasObservers evt = false := by
    intro evt; rw [createEntitiesW_obs]; exact hno evt
  cases p <;>
  simp [opNewBatch, preCheck, preCheckMap, preCheckTyped, M.forM', bind, M.bind,
    M.get, checkLocked_unlocked w hl, hfoc, createEntities_eq, registerTargets, M.modify,
    hno1, pure, M.pure]

/-! ### rows of the batch = handles of the singles -/

theorem placeN_tables_len (t : Nat) : ∀ (n : Nat) (w : World),
    (placeN w t n).tables.length = w.tables.length
  | 0, _ => rfl
  | n + 1, w => by
    show (placeN (placedW w t false) t n).tables.length = _
    rw [placeN_tables_len t n, placedW_tables_len]

theorem placeN_len {t : Nat} : ∀ (n : Nat) {w : World}, t < w.tables.length →
    ((placeN w t n).tbl t).len = (w.tbl t).len + n
  | 0, _, _ => rfl
  | n + 1, w, hlt => by
    show ((placeN (placedW w t false) t n).tbl t).len = _
    rw [placeN_len n (by rw [placedW_tables_len]; exact hlt), placedW_tbl_self hlt,
      Table.add_fst_len]
    omega

theorem placeN_getEntity_lt {t : Nat} : ∀ (n : Nat) {w : World}, t < w.tables.length →
    ∀ r : Nat, r < (w.tbl t).len → ((placeN w t n).tbl t).getEntity r = (w.tbl t).getEntity r
  | 0, _, _, _, _ => rfl
  | n + 1, w, hlt, r, hr => by
    show ((placeN (placedW w t false) t n).tbl t).getEntity r = _
    rw [placeN_getEntity_lt n (by rw [placedW_tables_len]; exact hlt) r
      (by rw [placedW_tbl_self hlt, Table.add_fst_len]; omega), placedW_tbl_self hlt,
      Table.add_getEntity_lt _ _ _ hr]

/-- the rows `[len, len+n)` of table `t` after `n` placements hold the handles handed out, in
    order -/
theorem placeN_rows {t : Nat} : ∀ (n : Nat) {w : World}, t < w.tables.length → (w.tbl t).Shape →
    (w.tbl t).len + n < 2 ^ 32 →
    (List.range n).map (fun i => ((placeN w t n).tbl t).getEntity ((w.tbl t).len + i)) =
      handlesN w t n
  | 0, _, _, _, _ => rfl
  | n + 1, w, hlt, hS, hb => by
    have hlt' : t < (placedW w t false).tables.length := by rw [placedW_tables_len]; exact hlt
    have hlen' : ((placedW w t false).tbl t).len = (w.tbl t).len + 1 := by
      rw [placedW_tbl_self hlt, Table.add_fst_len]
    have ih := placeN_rows n hlt' (by rw [placedW_tbl_self hlt]; exact Table.add_shape hS _ (by omega))
      (by rw [hlen']; omega)
    rw [List.range_succ_eq_map, List.map_cons, List.map_map]
    show _ :: _ = (w.pool.get).2 :: handlesN (placedW w t false) t n
    congr 1
    · show ((placeN (placedW w t false) t n).tbl t).getEntity ((w.tbl t).len + 0) = _
      rw [placeN_getEntity_lt n hlt' _ (by rw [hlen']; omega), placedW_tbl_self hlt, Nat.add_zero]
      have := Table.add_getEntity_new hS (w.pool.get).2 (by omega)
      rw [Table.add_snd] at this; exact this
    · rw [← ih]
      apply List.map_congr_left
      intro i _
      show ((placeN (placedW w t false) t n).tbl t).getEntity ((w.tbl t).len + (i + 1)) = _
      rw [hlen']
      congr 1; omega

/-! ### the batch equals the singles -/

/-- the joint invariant and the batch target after the table lookup of `newEntity` -/
theorem cinv_afterLookup {w : World} {fl : List Nat} (h : CInv w fl) {ids : List Comp}
    (hnd : ids.Nodup) (hreg : ∀ (c : Comp), c ∈ ids → c < w.kinds.length)
    (hfew : w.tables.length < maxU32) :
    ∃ (t a : Nat) (w1 : World),
      findOrCreateTableAdd 0 Mask.empty ids [] w = .ok (t, a, Mask.ofList ids) w1 ∧
      CInv w1 fl ∧ w1.isLocked = w.isLocked ∧ BatchTarget w1 ids t a ∧
      (∀ t' : Nat, t' < w.tables.length → w1.tbl t' = w.tbl t') ∧
      (w.tables.length ≤ t → (w1.tbl t).len = 0) ∧ w1.pool = w.pool ∧
      w1.entities = w.entities ∧ (∀ j : Nat, SameEnt w w1 j) := by
  obtain ⟨t, a, w1, hok, fc, hI1, hsame, _⟩ :=
    h.sinv.findOrCreateTableAdd_spec_new h.idx hnd hreg (fun c _ => h.noRelKinds c)
  have hu := findOrCreateTableAdd_untouched hok
  have hlen1 := findOrCreateTableAdd_tables_len hok
  have hfew1 : w1.tables.length ≤ maxU32 := by omega
  have h1 : CInv w1 fl := h.transfer hI1 fc.sinv fc.pool
    ⟨by rw [fc.entities], fun i => Or.inl (by rw [fc.entities])⟩ fc.kinds hu hfew1
  have hnr := h1.noRelArch' fc.archLt
  have hle := (fc.sinv.nonRelLe a _ (aget_of_lt fc.archLt) hnr).1
  have htab : (w1.arch a).tables.tables = [t] := by
    have hm := fc.active
    cases hts : (w1.arch a).tables.tables with
    | nil => rw [hts] at hm; cases hm
    | cons x rest =>
      rw [hts] at hm hle
      cases rest with
      | nil => simp at hm; rw [hm]
      | cons y r => simp at hle
  refine ⟨t, a, w1, hok, h1, ?_, ⟨fc.archLt, fc.archMask, htab, fc.tblLt⟩, ?_, fc.newEmpty, fc.pool,
    fc.entities, same_of_prefix h.idx fc.entities hsame⟩
  · show w1.locks.isLocked = w.locks.isLocked
    rw [hu.locks]
  · intro t' ht'
    simp only [tbl, List.getD_eq_getElem?_getD, hsame t' ht']

/-- **C06, creation (no callback)**: `NewBatch(count, ids…)` without callback on an unlocked world
    of the fragment returns `(t, start)` and leaves EXACTLY the world (`w'`, equality of worlds)
    that `count` successive `NewEntity(ids…)` calls leave; the handles those calls return are, in
    order, the entities in rows `start … start+count-1` of table `t`.  (`count > 0`: see
    `opNewBatch_zero` for the empty batch.) -/
theorem opNewBatch_eq_singles (run : ProbeRunner) (p : Path) {w : World} {fl : List Nat}
    (h : CInv w fl) (hl : w.isLocked = false) {ids : List Comp} (hnd : ids.Nodup)
    (hreg : ∀ (c : Comp), c ∈ ids → c < w.kinds.length) (vals : List (Comp × Val)) {count : Nat}
    (hpos : 0 < count) (hfew : w.tables.length < maxU32)
    (hrows : ∀ t : Nat, (w.tbl t).len + count < 2 ^ 32) :
    ∃ (t start : Nat) (es : List Ent) (w' : World),
      opNewBatch run p count ids vals [] false w = .ok (t, start) w' ∧
      newEntitiesSeq run p ids [] count w = .ok es w' ∧
      es = (List.range count).map (fun i => (w'.tbl t).getEntity (start + i)) ∧
      es.length = count ∧ CInv w' (fl.drop count) ∧ w'.isLocked = false := by
  obtain ⟨t, a, w1, hfoc, h1, hl1, bt, hsame, hnew, _, _, _⟩ := cinv_afterLookup h hnd hreg hfew
  rw [hl] at hl1
  have hb : (w1.tbl t).len + count < 2 ^ 32 := by
    rcases Nat.lt_or_ge t w.tables.length with hh | hh
    · rw [hsame t hh]; exact hrows t
    · rw [hnew hh]; have := hrows 0; omega
  have hS := h1.idx.shape t _ (get_of_lt bt.tlt)
  have hbatch := opNewBatch_eq run p count ids vals w hl hfoc h1.noObs
  rw [createEntitiesW_eq_placeN count bt.tlt hS h1.noTargets hb] at hbatch
  obtain ⟨s1, s2, s3⟩ := newEntitiesSeq_eq run p hnd [] count h1 hl1 bt hb
  rw [newN_nil, newHandles_nil] at s1
  rw [newN_nil] at s2 s3
  have hseq : newEntitiesSeq run p ids [] count w = newEntitiesSeq run p ids [] count w1 := by
    obtain ⟨n, rfl⟩ : ∃ n, count = n + 1 := ⟨count - 1, by omega⟩
    have e1 := opNewEntity_eq run p ids [] w hl hfoc h1.noObs
    have e2 := (opNewEntity_found run p h1 hl1 hnd bt [] (by omega)).1
    simp only [newEntitiesSeq, bind, M.bind, e1, e2]
  refine ⟨t, (w1.tbl t).len, handlesN w1 t count, placeN w1 t count, hbatch, hseq.trans s1,
    (placeN_rows count bt.tlt hS hb).symm, ?_, s2, s3⟩
  rw [← placeN_rows count bt.tlt hS hb, List.length_map, List.length_range]

/-- the empty batch: `NewBatch(0, ids…)` creates no entity but still looks the table up — and
    creates archetype and table if they did not exist (zero single calls would not) -/
theorem opNewBatch_zero (run : ProbeRunner) (p : Path) {w : World} {fl : List Nat}
    (h : CInv w fl) (hl : w.isLocked = false) {ids : List Comp} (hnd : ids.Nodup)
    (hreg : ∀ (c : Comp), c ∈ ids → c < w.kinds.length) (vals : List (Comp × Val))
    (hfew : w.tables.length < maxU32) :
    ∃ (t a : Nat) (w1 : World),
      findOrCreateTableAdd 0 Mask.empty ids [] w = .ok (t, a, Mask.ofList ids) w1 ∧
      opNewBatch run p 0 ids vals [] false w = .ok (t, (w1.tbl t).len) w1 ∧
      CInv w1 fl ∧ w1.pool = w.pool ∧ w1.entities = w.entities ∧ (∀ j : Nat, SameEnt w w1 j) := by
  obtain ⟨t, a, w1, hfoc, h1, _, bt, _, _, hp, he, hs⟩ := cinv_afterLookup h hnd hreg hfew
  have hbatch := opNewBatch_eq run p 0 ids vals w hl hfoc h1.noObs
  rw [createEntitiesW_zero (h1.idx.shape t _ (get_of_lt bt.tlt))] at hbatch
  exact ⟨t, a, w1, hfoc, hbatch, h1, hp, he, hs⟩

end World

end Ark
