/-
  Ark.Proofs.RelRefine2Keep — the filter cache along the storage steps of a world WITH relation
  components (property C05 with relations, part 1).

  `CKeep w w'` — the cache invariant `CacheInv` carries over from `w` to `w'`, the cache keeps its
  keys (ID, filter, fixed relations of every entry), its ID map and its ID pool, and the filter
  heap is untouched.  It is shown for every storage step an entity operation of the relation
  fragment is made of:

  * `CKeep.of_metaStep`      — steps that touch rows only (`placedW`, `addMove`, `removeRowOf`,
                               `writeValsW`, `registerW`, `moveEntitiesW`): `Selected` reads the
                               archetypes and the table METADATA only;
  * `findOrCreateArch_ckeep` — a new archetype has no table yet;
  * `createTable_ckeep`      — the storage part makes table `t` active (`TableAdded`, also in the
                               RECYCLED branch), `cache.addTable` follows;
  * `foc_ckeep`              — `findOrCreateTableAdd` (hence `findOrCreateTableRemove`, which is
                               the same lookup from the root table);
  * `freeW_ckeep`            — the freeing block of `cleanupArchetypes` (`FreeTable`, `isFree`,
                               `cache.removeTable`): `TableRemoved`;
  * `removeTarget_ckeep`     — `RemoveTarget` edits the relation lookups only.

  Kernel-only proofs, core Lean only.
-/
import Ark.Proofs.QueryRelReach
import Ark.Proofs.RelRefineHist

set_option autoImplicit false

namespace Ark
namespace RelRefine2

open World Ark.Props.C01World QueryRel

/-! ## 1. the relation carried through the operations -/

/-- **the cache invariant carries over** from `w` to `w'`; the keys of the cache (ID, filter and
    fixed relations of every entry, in order), its ID map, its ID pool and the filter heap are
    the same -/
structure CKeep (w w' : World) : Prop where
  cache : CacheInv w → CacheInv w'
  keys : w'.cacheKeys = w.cacheKeys
  indices : w'.cache.indices = w.cache.indices
  pool : w'.cache.pool = w.cache.pool
  filters : w'.filters = w.filters

theorem CKeep.refl (w : World) : CKeep w w := ⟨id, rfl, rfl, rfl, rfl⟩

theorem CKeep.trans {a b c : World} (h1 : CKeep a b) (h2 : CKeep b c) : CKeep a c :=
  ⟨fun h => h2.cache (h1.cache h), h2.keys.trans h1.keys, h2.indices.trans h1.indices,
    h2.pool.trans h1.pool, h2.filters.trans h1.filters⟩

/-- a step that leaves the cache alone and does not change what is selected -/
theorem CKeep.of_selected {w w' : World} (hc : w'.cache = w.cache) (hf : w'.filters = w.filters)
    (hs : ∀ (f : Filter) (rels : List RelID) (t : Nat), Selected w' f rels t ↔ Selected w f rels t) :
    CKeep w w' :=
  ⟨fun h => cacheInv_congr h hc hs, by simp only [cacheKeys, hc], by rw [hc], by rw [hc], hf⟩

/-! ## 2. steps that touch rows only -/

theorem tbl_matchesRels_of_metaStep {w w' : World} (ms : MetaStep w w') (rels : List RelID)
    (t : Nat) : (w'.tbl t).matchesRels rels = (w.tbl t).matchesRels rels := by
  rcases Nat.lt_or_ge t w.tables.length with h | h
  · have sm := ms.tmeta t h
    exact matchesRels_core sm.ids sm.targets sm.relIDs rels
  · rw [tbl_of_ge h, tbl_of_ge (by rw [ms.len]; exact h)]

theorem selected_of_metaStep {w w' : World} (ms : MetaStep w w') (f : Filter) (rels : List RelID)
    (t : Nat) : Selected w' f rels t ↔ Selected w f rels t := by
  unfold Selected
  rw [tbl_matchesRels_of_metaStep ms, ms.archetypes]

/-- **row-level steps keep the cache** -/
theorem CKeep.of_metaStep {w w' : World} (ms : MetaStep w w') (hf : w'.filters = w.filters) :
    CKeep w w' :=
  CKeep.of_selected ms.cache hf (selected_of_metaStep ms)

theorem placedW_filters (w : World) (t : Nat) (rt : Bool) : (placedW w t rt).filters = w.filters := by
  simp only [placedW]; split <;> rfl

theorem addMove_filters (w : World) (e : Ent) (oldT row newT : Nat) (keep : Mask) :
    (addMove w e oldT row newT keep).filters = w.filters := by
  simp only [addMove, moveRowW]; split <;> rfl

theorem removeRowOf_filters (w : World) (e : Ent) (t row : Nat) :
    (removeRowOf w e t row).filters = w.filters := by
  simp only [removeRowOf]; split <;> rfl

theorem placedW_ckeep (w : World) (t : Nat) (rt : Bool) : CKeep w (placedW w t rt) :=
  CKeep.of_metaStep (placedW_metaStep w t rt) (placedW_filters w t rt)

theorem registerW_ckeep (w : World) (rels : List RelID) : CKeep w (registerW w rels) :=
  CKeep.of_metaStep (registerW_metaStep w rels) rfl

theorem writeValsW_ckeep (w : World) (e : Ent) (vals : List (Comp × Val)) :
    CKeep w (writeValsW w e vals) :=
  CKeep.of_metaStep (writeValsW_metaStep w e vals) rfl

theorem removeRowOf_tables (w : World) (e : Ent) (t row : Nat) :
    (removeRowOf w e t row).tables = w.tables.set t ((w.tbl t).remove row).1 := by
  simp only [removeRowOf]; split <;> rfl

theorem removeRowOf_metaStep (w : World) (e : Ent) (t row : Nat) :
    MetaStep w (removeRowOf w e t row) := by
  obtain ⟨fk, fa, _⟩ := removeRowOf_fields w e t row
  obtain ⟨fra, fc⟩ := removeRowOf_more w e t row
  exact MetaStep.of_set fa fk fra fc (removeRowOf_tables w e t row)
    (fun _ => Table.remove_sameMeta _ _)

theorem removeRowOf_ckeep (w : World) (e : Ent) (t row : Nat) : CKeep w (removeRowOf w e t row) :=
  CKeep.of_metaStep (removeRowOf_metaStep w e t row) (removeRowOf_filters w e t row)

theorem addMove_metaStep (w : World) (e : Ent) {oldT row newT : Nat} (keep : Mask)
    (hne : oldT ≠ newT) (hnl : newT < w.tables.length) (hol : oldT < w.tables.length)
    (hel : e.id < w.entities.length) : MetaStep w (addMove w e oldT row newT keep) := by
  obtain ⟨_, fk, fa, _⟩ := addMove_fields w e oldT row newT keep
  obtain ⟨fra, fc⟩ := addMove_more w e oldT row newT keep
  obtain ⟨tl, t1, t2, t3⟩ := addMove_tbl w e oldT row newT keep hne hnl hol hel
  refine ⟨fa, fk, fra, fc, tl, fun t _ => ?_⟩
  by_cases e1 : t = oldT
  · subst e1; rw [t1]; exact Table.remove_sameMeta _ _
  · by_cases e2 : t = newT
    · subst e2; rw [t2]
      exact (Table.add_sameMeta _ _).trans (copyRow_sameMeta _ _ _ _ _)
    · rw [t3 t e1 e2]; exact Table.SameMeta.refl _

theorem addMove_ckeep (w : World) (e : Ent) {oldT row newT : Nat} (keep : Mask)
    (hne : oldT ≠ newT) (hnl : newT < w.tables.length) (hol : oldT < w.tables.length)
    (hel : e.id < w.entities.length) : CKeep w (addMove w e oldT row newT keep) :=
  CKeep.of_metaStep (addMove_metaStep w e keep hne hnl hol hel) (addMove_filters w e oldT row newT keep)

theorem unflagW_ckeep (w : World) (e : Ent) : CKeep w (unflagW w e) :=
  CKeep.of_metaStep (MetaStep.of_tables_eq rfl rfl rfl rfl rfl) rfl

/-! ## 3. a new archetype -/

/-- a new archetype has no table: selection is unchanged -/
theorem selected_append_arch {w w' : World} (mask : Mask)
    (ha : w'.archetypes = w.archetypes ++ [newArch w mask]) (ht : w'.tables = w.tables)
    (f : Filter) (rels : List RelID) (t : Nat) :
    Selected w' f rels t ↔ Selected w f rels t := by
  unfold Selected tbl
  rw [ha, ht]
  constructor
  · rintro ⟨a, A, hA, h1, h2, h3⟩
    rcases getElem?_concat_cases hA with ⟨_, hA'⟩ | ⟨_, rfl⟩
    · exact ⟨a, A, hA', h1, h2, h3⟩
    · simp [newArch, Archetype.new, TableIDs.ofList] at h1
  · rintro ⟨a, A, hA, h1, h2, h3⟩
    exact ⟨a, A, by rw [List.getElem?_append_left (alt_of_get hA)]; exact hA, h1, h2, h3⟩

theorem createArchetypeW_ckeep (w : World) (mask : Mask) : CKeep w (createArchetypeW w mask) :=
  CKeep.of_selected
    (createArchetypeW_proj (·.cache) (fun _ _ _ => rfl) (fun _ _ => rfl) w mask)
    (createArchetypeW_proj (·.filters) (fun _ _ _ => rfl) (fun _ _ => rfl) w mask)
    (selected_append_arch mask
      (createArchetypeW_proj (·.archetypes) (fun _ _ _ => rfl) (fun _ _ => rfl) w mask)
      (createArchetypeW_proj (·.tables) (fun _ _ _ => rfl) (fun _ _ => rfl) w mask))

/-- **`findOrCreateArch` keeps the cache** -/
theorem findOrCreateArch_ckeep {mask : Mask} {w w' : World} {a : Nat}
    (h : findOrCreateArch mask w = .ok a w') : CKeep w w' := by
  unfold findOrCreateArch at h
  split at h
  · injection h with _ h2; subst h2; exact CKeep.refl _
  · rw [createArchetype_eq] at h
    injection h with _ h2; subst h2
    exact createArchetypeW_ckeep w mask

/-! ## 4. `createTable` -/

/-- the storage part of `createTable` in the vocabulary of the cache: table `tid` becomes active
    in archetype `a` -/
theorem tableAdded_toCache {w w' : World} {a tid : Nat} {A A2 : Archetype} {Tn : Table}
    (ta : Ark.TableAdded w w' a tid A A2 Tn) (hc : w'.cache = w.cache) :
    World.TableAdded w w' a tid where
  other := fun a' hne => ta.aget_ne hne
  here := ⟨A, A2, ta.hA, ta.aget_self, ta.mask, fun t' ht' => by
    rw [ta.memT]
    constructor
    · rintro (h | h)
      · exact h
      · exact absurd h ht'
    · exact Or.inl⟩
  tbl := fun t' ht' => by simp only [tbl, List.getD_eq_getElem?_getD, ta.tget_ne ht']
  cache := hc
  inactive := by
    intro a' B hB hm
    by_cases ha : a' = a
    · subst ha
      rw [ta.hA] at hB
      have hBA : A = B := Option.some.inj hB
      subst hBA
      have hnd := ta.struct.tablesWF.nodup
      rw [ta.tabsEq] at hnd
      have := (List.nodup_append.mp hnd).2.2 tid hm tid (List.mem_singleton.mpr rfl)
      exact this rfl
    · exact (ta.others a' B ha hB).1 hm
  active := by
    intro A' hA'
    rw [ta.aget_self] at hA'
    rw [← Option.some.inj hA']
    exact (ta.memT tid).2 (Or.inr rfl)
  back := by rw [tbl_of_get ta.tget_self]; exact ta.tArch

theorem createTableS_filters (w : World) (a : Nat) (rels : List RelID) :
    (createTableS w a rels).1.filters = w.filters := by
  unfold createTableS
  split <;> rfl

theorem cacheAddTable_heap {w w' : World} {T : Table} (h : w.cacheAddTable T = some w') :
    w'.filters = w.filters ∧ w'.cache.indices = w.cache.indices ∧ w'.cache.pool = w.cache.pool := by
  unfold cacheAddTable at h
  simp only at h
  split at h
  · cases h
  · injection h with h; subst h; exact ⟨rfl, rfl, rfl⟩

/-- **`createTable` keeps the cache** (relations allowed, fresh or recycled table): for an
    existing archetype `a` which — if it has no relation column — has no table yet -/
theorem createTable_ckeep {w w' : World} (h : SInvMid w) {a : Nat} {rels : List RelID} {t : Nat}
    (ha : a < w.archetypes.length)
    (hnr : (w.arch a).hasRelations = false → (w.arch a).tables.tables = [])
    (hok : World.createTable a rels w = .ok t w') : CKeep w w' := by
  obtain ⟨_, h2, h3, h4, h5⟩ := createTable_ok hok
  have hA := aget_of_lt ha
  obtain ⟨A2, Tn, ta, _, _, _, _, _, e3, _⟩ := h.createTableS_added hA h2 h3 hnr
  rw [← h4] at ta
  have hd := tableAdded_toCache ta e3
  have hid : ((createTableS w a rels).1.tbl t).id = t := by
    rw [tbl_of_get ta.tget_self]; exact ta.tId
  obtain ⟨f1, f2, f3⟩ := cacheAddTable_heap h5
  have heq := cacheAddTable_eq h5
  refine ⟨fun hc => (cacheAddTable_inv hc hd hid h5).1, ?_, by rw [f2, e3], by rw [f3, e3],
    f1.trans (createTableS_filters w a rels)⟩
  rw [heq]
  simp only [cacheKeys, e3, List.map_map]
  apply List.map_congr_left
  intro e _
  simp only [Function.comp, addTableEntry_id, addTableEntry_filter, addTableEntry_rels]

/-- `GetTable`, else `createTable`, in an archetype WITH relation columns (the lookup of
    `cleanupArchetypes` and of `SetRelations`) -/
theorem getOrCreate_ckeep {w w1 : World} (h : SInvMid w) {a : Nat} {rels : List RelID} {nt : Nat}
    (ha : a < w.archetypes.length) (hrel : (w.arch a).hasRelations = true)
    (hgo : getOrCreate a rels w = .ok nt w1) : CKeep w w1 := by
  simp only [getOrCreate, bind, M.bind] at hgo
  have hst := getTable_state a rels w
  cases hg : getTable a rels w with
  | panic k s => rw [hg] at hgo; cases hgo
  | ok r s =>
    rw [hg] at hgo hst
    have hs : s = w := hst
    subst hs
    cases r with
    | some t =>
      simp only [pure, M.pure] at hgo
      injection hgo with _ h2
      subst h2
      exact CKeep.refl _
    | none =>
      simp only at hgo
      exact createTable_ckeep h ha (fun hno => by rw [hrel] at hno; cases hno) hgo

/-- **`findOrCreateTableAdd` keeps the cache**: find the archetype or append it, then find its
    table or create one -/
theorem foc_ckeep {w w' : World} (h : SInv w) {oldT : Nat} {startMask : Mask}
    {add : List Comp} {rels : List RelID} {r : Nat × Nat × Mask}
    (hstart : ∀ (c : Nat), startMask.get c = true → c < w.kinds.length)
    (hreg : ∀ (c : Comp), c ∈ add → c < w.kinds.length)
    (hok : World.findOrCreateTableAdd oldT startMask add rels w = .ok r w') : CKeep w w' := by
  obtain ⟨t, a, mask⟩ := r
  have hg : graphFindAdd startMask add w = .ok (add.foldl Mask.set startMask) w := by
    rcases graphFindAdd_cases startMask add w with hg | ⟨hg, _⟩
    · exact hg
    · simp only [World.findOrCreateTableAdd, bind, M.bind, hg] at hok; cases hok
  have hmreg := Mask.get_foldl_set_reg hstart hreg
  obtain ⟨a1, w1, ha, hmid, _, halt, _, _, _, _, _, _, _, _, _⟩ :=
    h.findOrCreateArch (add.foldl Mask.set startMask) hmreg
  obtain ⟨_, _, hbr⟩ := findOrCreateTableAdd_ok_inv hg ha hok
  subst_vars
  have k1 := findOrCreateArch_ckeep ha
  rcases hbr with ⟨_, rfl⟩ | ⟨hgt, hct⟩
  · exact k1
  · refine k1.trans (createTable_ckeep hmid halt ?_ hct)
    intro hr
    rw [getTable_noRel _ hr] at hgt
    injection hgt with hgt _
    split at hgt
    · rename_i he
      exact List.isEmpty_iff.1 he
    · cases hgt

/-! ## 5. the freeing block of `cleanupArchetypes` and `RemoveTarget` -/

/-- **the freeing block keeps the cache**: `FreeTable` on the archetype and `isFree := true` on
    the table make the active table `tid` of archetype `a` inactive (`TableRemoved`),
    `cache.removeTable` follows -/
theorem freeW_ckeep {w : World} (h : SInvMid w) {a tid : Nat} (ha : a < w.archetypes.length)
    (hact : tid ∈ (w.arch a).tables.tables) : CKeep w (freeW w a tid) := by
  have hA := aget_of_lt ha
  have hstruct := h.astruct a _ hA
  -- the world before `cache.removeTable`
  have harch : ((w.modArch a fun A => A.freeTable tid).modTbl tid
      fun T => { T with isFree := true }).archetypes = w.archetypes.set a ((w.arch a).freeTable tid) := rfl
  have htab : ((w.modArch a fun A => A.freeTable tid).modTbl tid
      fun T => { T with isFree := true }).tables = w.tables.set tid { w.tbl tid with isFree := true } := rfl
  have hd : TableRemoved w ((w.modArch a fun A => A.freeTable tid).modTbl tid
      fun T => { T with isFree := true }) a tid := by
    refine { other := ?_, here := ?_, tbl := ?_, cache := rfl, inactive := ?_ }
    · intro a' e
      rw [harch, List.getElem?_set_ne (fun x => e x.symm)]
    · refine ⟨_, _, hA, by rw [harch, List.getElem?_set_self ha], Archetype.freeTable_mask _ _,
        fun t' e => ?_⟩
      rw [Archetype.freeTable_tables, hstruct.tablesWF.mem_remove]
      exact ⟨fun hin => hin.1, fun hin => ⟨hin, e⟩⟩
    · intro t' e
      simp only [tbl, htab, List.getD_eq_getElem?_getD, List.getElem?_set_ne (fun x => e x.symm)]
    · intro a' B hB hin
      rw [harch] at hB
      by_cases e : a' = a
      · subst e
        rw [List.getElem?_set_self ha] at hB
        obtain rfl := Option.some.inj hB
        rw [Archetype.freeTable_tables, hstruct.tablesWF.mem_remove] at hin
        exact hin.2 rfl
      · rw [List.getElem?_set_ne (fun x => e x.symm)] at hB
        obtain ⟨T1, hT1, hTa1⟩ := h.owned a' B tid hB (Or.inl hin)
        obtain ⟨T2, hT2, hTa2⟩ := h.owned a _ tid hA (Or.inl hact)
        rw [hT1] at hT2
        obtain rfl := Option.some.inj hT2
        exact e (hTa1.symm.trans hTa2)
  refine ⟨fun hc => (cacheRemoveTable_inv hc hd).1, ?_, rfl, rfl, rfl⟩
  simp only [cacheKeys, freeW, cacheRemoveTable, List.map_map]
  rfl

/-- selection only reads the mask and the active tables of the archetypes -/
theorem selected_modArch {w : World} {a : Nat} (g : Archetype → Archetype)
    (hm : (g (w.arch a)).mask = (w.arch a).mask)
    (ht : (g (w.arch a)).tables = (w.arch a).tables) (f : Filter) (rels : List RelID) (t : Nat) :
    Selected (w.modArch a g) f rels t ↔ Selected w f rels t := by
  have harch : (w.modArch a g).archetypes = w.archetypes.set a (g (w.arch a)) := rfl
  have htbl : (w.modArch a g).tbl t = w.tbl t := rfl
  unfold Selected
  rw [htbl, harch]
  constructor
  · rintro ⟨b, B, hB, h1, h2, h3⟩
    by_cases e : b = a
    · subst e
      have hlt : b < w.archetypes.length := by
        have := (List.getElem?_eq_some_iff.1 hB).1
        rw [List.length_set] at this; exact this
      rw [List.getElem?_set_self hlt] at hB
      obtain rfl := Option.some.inj hB
      exact ⟨b, w.arch b, aget_of_lt hlt, by rw [← ht]; exact h1, by rw [← hm]; exact h2, h3⟩
    · rw [List.getElem?_set_ne (fun x => e x.symm)] at hB
      exact ⟨b, B, hB, h1, h2, h3⟩
  · rintro ⟨b, B, hB, h1, h2, h3⟩
    by_cases e : b = a
    · subst e
      have hlt := alt_of_get hB
      have hBe := arch_of_get hB
      subst hBe
      exact ⟨b, g (w.arch b), by rw [List.getElem?_set_self hlt], by rw [ht]; exact h1,
        by rw [hm]; exact h2, h3⟩
    · exact ⟨b, B, by rw [List.getElem?_set_ne (fun x => e x.symm)]; exact hB, h1, h2, h3⟩

/-- **`RemoveTarget` keeps the cache** -/
theorem removeTarget_ckeep (w : World) (a : Nat) (g : Ent) :
    CKeep w (w.modArch a fun A => A.removeTarget g) :=
  CKeep.of_selected rfl rfl (selected_modArch _ rfl rfl)

/-- `moveEntities src dst (len src)` keeps the cache -/
theorem moved_ckeep {w : World} {src dst : Nat} (hne : src ≠ dst)
    (hs : src < w.tables.length) (hd : dst < w.tables.length) :
    CKeep w (moveEntitiesW w src dst (w.tbl src).len) ∧
    MetaStep w (moveEntitiesW w src dst (w.tbl src).len) := by
  obtain ⟨hTS, _⟩ := moveEntitiesW_spec w src dst (w.tbl src).len hne hd
  obtain ⟨fa, fk, fra, fc, _⟩ := moveEntitiesW_fields w src dst (w.tbl src).len
  have ff : (moveEntitiesW w src dst (w.tbl src).len).filters = w.filters :=
    moveEntitiesW_keep (·.filters) (fun _ _ _ => rfl) (fun _ _ _ _ => rfl) w src dst _
  have hlen : (moveEntitiesW w src dst (w.tbl src).len).tables.length = w.tables.length := by
    rw [hTS]; simp only [List.length_set]
  have ms : MetaStep w (moveEntitiesW w src dst (w.tbl src).len) := by
    refine ⟨fa, fk, fra, fc, hlen, fun t ht => ?_⟩
    have hget : (moveEntitiesW w src dst (w.tbl src).len).tables[t]? =
        ((w.tables.set dst ((w.tbl dst).addAll (w.tbl src) (w.tbl src).len)).set src
          (w.tbl src).reset)[t]? := by rw [hTS]
    by_cases e1 : t = src
    · subst e1
      rw [List.getElem?_set_self (by rw [List.length_set]; exact hs)] at hget
      rw [tbl_of_get hget]; exact Table.reset_sameMeta _
    · rw [List.getElem?_set_ne (fun x => e1 x.symm)] at hget
      by_cases e2 : t = dst
      · subst e2
        rw [List.getElem?_set_self hd] at hget
        rw [tbl_of_get hget]; exact Table.addAll_sameMeta _ _ _
      · rw [List.getElem?_set_ne (fun x => e2 x.symm)] at hget
        rw [tbl_eq_of_get hget]; exact Table.SameMeta.refl _
  exact ⟨CKeep.of_metaStep ms ff, ms⟩

end RelRefine2
end Ark
