/-
  Ark.Proofs.QueryRelHist — property C03 with RELATION TARGETS, part 3: queries along a chain of
  `Good` steps.

  * `TInv.withLocks`, `CIdx.withLocks`, `RowsAlive.withLocks` — the invariants do not read the lock;
  * `cidxB` / `rowsAliveB` — Boolean checkers for `CIdx` / `RowsAlive` on a concrete world
    (`cidx_of_check`, `rowsAlive_of_check`);
  * `QGood w` — `Good w` (the invariant `TInv` for some free list, unlocked, no observers) together
    with `CIdx`, `RowsAlive` and the lock invariant: the states in which the C03 theorems apply;
    `QGood.query` / `QGood.query_cached`: a complete iteration succeeds, yields exactly the alive
    matching entities and leaves a `QGood` world (so queries can be interleaved freely).
  Kernel-only proofs, core Lean only.
-/
import Ark.Proofs.QueryRelDrain

set_option autoImplicit false

namespace Ark
namespace QueryRel

open World Drain Ark.Props.C01World QueryExact

/-! ## 11. the invariants do not read the lock -/

theorem _root_.Ark.TInv.withLocks {w : World} {fl : List Nat} (h : TInv w fl) (l : Lock) :
    TInv (w.withLocks l) fl where
  rel := h.rel.of_sameMeta rfl rfl rfl rfl rfl (fun _ _ => Table.SameMeta.refl _) (fun _ ha => ha)
  flags := h.flags
  freeEmpty := h.freeEmpty
  link := h.link.congr (h.link.idx.congr rfl rfl) rfl rfl rfl rfl
  kindsLe := h.kindsLe

theorem _root_.Ark.CIdx.withLocks {w : World} (h : CIdx w) (l : Lock) : CIdx (w.withLocks l) :=
  h.of_frame ⟨rfl, rfl, rfl, fun _ => rfl⟩

theorem _root_.Ark.RowsAlive.withLocks {w : World} (h : RowsAlive w) (l : Lock) :
    RowsAlive (w.withLocks l) := h

/-! ## 12. checkers for concrete worlds -/

/-- Boolean form of `CIdx` -/
def cidxB (w : World) : Bool :=
  (w.componentIndex.length == w.kinds.length) &&
  (List.range w.kinds.length).all fun c =>
    let l := w.componentIndex.getD c []
    decide l.Nodup &&
    l.all (fun a => decide (a < w.archetypes.length) && (w.arch a).mask.get c) &&
    (List.range w.archetypes.length).all fun a => !(w.arch a).mask.get c || l.contains a

theorem cidx_of_check {w : World} (h : cidxB w = true) : CIdx w := by
  simp only [cidxB, Bool.and_eq_true, beq_iff_eq, List.all_eq_true, List.mem_range,
    decide_eq_true_eq, Bool.or_eq_true, Bool.not_eq_true', List.contains_iff_mem] at h
  obtain ⟨hlen, hall⟩ := h
  refine ⟨hlen, ?_, ?_⟩
  · intro c
    rcases Nat.lt_or_ge c w.kinds.length with hc | hc
    · exact (hall c hc).1.1
    · have : w.componentIndex.getD c [] = [] := by
        rw [List.getD_eq_getElem?_getD, List.getElem?_eq_none (by rw [hlen]; exact hc)]; rfl
      rw [this]; exact List.nodup_nil
  · intro c a hc
    obtain ⟨⟨_, h2⟩, h3⟩ := hall c hc
    constructor
    · intro ha; exact h2 a ha
    · rintro ⟨ha, hg⟩
      rcases h3 a ha with h | h
      · rw [hg] at h; cases h
      · exact h

/-- Boolean form of `RowsAlive` -/
def rowsAliveB (w : World) : Bool :=
  w.tables.all fun T => (List.range T.len).all fun r => w.alive (T.getEntity r)

theorem rowsAlive_of_check {w : World} (h : rowsAliveB w = true) : RowsAlive w := by
  simp only [rowsAliveB, List.all_eq_true, List.mem_range] at h
  intro t T r hT hr
  exact h T (List.mem_of_getElem? hT) r hr

/-! ## 13. the states in which the C03 theorems apply -/

/-- **QGood** — `Good` (the invariant `TInv` for some free list, unlocked, no observers), the
    component index is exact, rows hold alive handles, and the lock's bit pool is consistent with
    no query open -/
structure QGood (w : World) : Prop where
  good : Good w
  cidx : CIdx w
  rows : RowsAlive w
  lock : ∃ (lf : List Nat), Lock.LInv ⟨w.locks, []⟩ lf

/-- the initial world -/
theorem qgood_init (cap rel : Nat) : QGood (World.init cap rel) :=
  ⟨good_init cap rel, CIdx.init cap rel, RowsAlive.init cap rel, [], Lock.linv_init⟩

/-- from `Good` and the checkers, on a world whose lock is in its initial state -/
theorem QGood.of_checks {w : World} (g : Good w) (h1 : cidxB w = true) (h2 : rowsAliveB w = true)
    (h3 : w.locks = {}) : QGood w :=
  ⟨g, cidx_of_check h1, rowsAlive_of_check h2, [], by rw [h3]; exact Lock.linv_init⟩

/-- a query's lock cycle on a `QGood` world, and the world afterwards -/
theorem QGood.lockCycle {w : World} (g : QGood w) :
    ∃ (l1 l2 : Lock) (b : Nat), LockCycle w.locks l1 b l2 ∧ QGood (w.withLocks l2) := by
  obtain ⟨lf, hl⟩ := g.lock
  obtain ⟨l1, b, l2, lf2, hc, heq, hl2⟩ := LockCycle.of_linv hl (by simp)
  obtain ⟨fl, ht, hul, hno⟩ := g.good
  refine ⟨l1, l2, b, hc, ⟨fl, ht.withLocks l2, ?_, hno⟩, g.cidx.withLocks l2, g.rows.withLocks l2,
    lf2, hl2⟩
  show l2.isLocked = false
  have : w.locks.isLocked = false := hul
  simp only [Lock.isLocked] at this ⊢
  rw [heq]; exact this

/-- what a client learns from one complete iteration on a world `w` (`rels` = the relations in
    force, `fo.rels ++ extra`): the handles visited are pairwise distinct and are exactly the alive
    entities matching the filter and the relations; every visit sits at the row the entity index
    records, and the component values and relation targets read there are what random access
    (`valOf`, `targetOf`) returns for the entity; yielded targets are zero or alive; `Count` is
    the number of visits and `EntityAt(i)` the `i`-th visit (on the locked world `w1`, with the
    opened query `q`). -/
structure Observed (w : World) (fo : FilterObj) (extra : List RelID) (w1 : World) (q : QueryObj)
    (visits : List Visit) : Prop where
  opened : qOpen fo extra w = .ok q w1
  nodup : (visits.map (·.e)).Nodup
  exact : ∀ (e : Ent), e ∈ visits.map (·.e) ↔
    w.alive e = true ∧ EntMatches w fo.filter (fo.rels ++ extra) e.id
  index : ∀ (v : Visit), v ∈ visits → w.entities[v.e.id]? = some (v.table, v.row) ∧
    v.table ≠ maxU32 ∧ v.e = (w.tbl v.table).getEntity v.row
  data : ∀ (v : Visit), v ∈ visits → ∀ (c : Comp),
    valOf w v.e.id c = (w.tbl v.table).getComp c v.row
  targets : ∀ (v : Visit), v ∈ visits → ∀ (c : Comp),
    targetOf w v.e.id c = (w.tbl v.table).targetAt c ∧
    ∀ (g : Ent), targetOf w v.e.id c = some g → g.isZero = true ∨ w.alive g = true
  count : qCount w1 q = some visits.length
  entityAt : ∀ (i : Nat) (hi : i < visits.length), qEntityAt w1 q i = some (some visits[i].e)
  entityAtOut : ∀ (i : Nat), visits.length ≤ i → qEntityAt w1 q i = some none

theorem Observed.of_exact {w : World} {fl : List Nat} (h : TInv w fl) (hra : RowsAlive w)
    {fo : FilterObj} {extra : List RelID} {w1 w2 : World} {q : QueryObj} {visits : List Visit}
    (Q : RelQueryExactOn w fl fo extra w1 q visits w2) : Observed w fo extra w1 q visits := by
  obtain ⟨hnd, hiff⟩ := Q.exact.visited_iff h hra
  refine ⟨Q.opened, hnd, hiff, ?_, Q.exact.data, ?_, Q.count, Q.entityAt, Q.entityAtOut⟩
  · intro v hv
    obtain ⟨_, _, s3, s4, _, _, s7, _⟩ := Q.exact.sound v hv
    exact ⟨s3, s4, s7⟩
  · intro v hv c
    refine ⟨Q.exact.targets v hv c, fun g hg => ?_⟩
    rw [Q.exact.targets v hv c] at hg
    exact Q.exact.target_ok h.rel.aux.targets h.freeEmpty hv hg

/-- **C03 with relation targets along a chain of `Good` steps — unregistered filters.**  On a
    `QGood` world, for a filter object whose mask requires its type parameters and whose relations
    (fixed and per-call) name relation components required by the mask, with per-call targets zero
    or alive when the filter is typed: `drain` succeeds, changes nothing but the lock's bit pool,
    the world afterwards is `QGood` again, and the visits are as `Observed` says. -/
theorem QGood.query {w : World} (g : QGood w) (fo : FilterObj) (extra : List RelID)
    (hc : fo.cache = none) (hokf : FilterOK fo)
    (hpre : fo.typed = true → ExtraOK w fo.filter.mask extra)
    (hr : RelsTyped w fo.filter (fo.rels ++ extra)) :
    ∃ (l1 l2 : Lock) (q : QueryObj) (visits : List Visit),
      drain fo extra w = .ok visits (w.withLocks l2) ∧ QGood (w.withLocks l2) ∧
      Observed w fo extra (w.withLocks l1) q visits := by
  obtain ⟨l1, l2, b, hL, g2⟩ := g.lockCycle
  obtain ⟨fl, ht, _, _⟩ := g.good
  obtain ⟨q, visits, Q⟩ := drain_rel ht g.cidx fo extra hc hokf hpre hr hL
  exact ⟨l1, l2, q, visits, Q.drained, g2, Observed.of_exact ht g.rows Q⟩

/-- **the same through the filter cache** -/
theorem QGood.query_cached {w : World} (g : QGood w) (hC : CacheInv w) (fo : FilterObj)
    (extra : List RelID) {id : Nat} {ce : CacheEntry} (hc : fo.cache = some id)
    (he : w.cacheEntry? id = some ce) (hf : ce.filter = fo.filter) (hrl : ce.rels = fo.rels)
    (hpre : fo.typed = true → ExtraOK w fo.filter.mask extra)
    (hr : RelsTyped w fo.filter (fo.rels ++ extra)) :
    ∃ (l1 l2 : Lock) (q : QueryObj) (visits : List Visit),
      drain fo extra w = .ok visits (w.withLocks l2) ∧ QGood (w.withLocks l2) ∧
      CacheInv (w.withLocks l2) ∧ Observed w fo extra (w.withLocks l1) q visits := by
  obtain ⟨l1, l2, b, hL, g2⟩ := g.lockCycle
  obtain ⟨fl, ht, _, _⟩ := g.good
  obtain ⟨q, visits, Q⟩ := drain_rel_cached ht hC fo extra hc he hf hrl hpre hr hL
  refine ⟨l1, l2, q, visits, Q.drained, g2, ?_, Observed.of_exact ht g.rows Q⟩
  exact ⟨hC.uniq, hC.index, fun e hm => ⟨(hC.entries e hm).1, fun t =>
    ((hC.entries e hm).2 t).trans
      (Selected_congr (w := w) (w' := w.withLocks l2) rfl rfl e.filter e.rels t).symm⟩⟩

/-! ## 14. registering a filter with relations -/

/-- **registering a filter** on a `QGood` world with a consistent cache whose ID pool hands out
    an unused ID: `cache.register` succeeds, changes only the cache, keeps the invariants, and the
    new entry is found under the returned ID with the given filter and relations -/
theorem QGood.cacheRegister {w : World} (g : QGood w) (hC : CacheInv w) (f : Filter)
    (rels : List RelID) (hr : RelsTyped w f rels)
    (hfresh : AL.find? w.cache.indices (w.cache.pool.get).2 = none) :
    ∃ (w' : World) (ce : CacheEntry),
      cacheRegister f rels w = .ok (w.cache.pool.get).2 w' ∧ QGood w' ∧ CacheInv w' ∧
      w'.cacheEntry? (w.cache.pool.get).2 = some ce ∧ ce.filter = f ∧ ce.rels = rels ∧
      w'.entities = w.entities ∧ w'.tables = w.tables ∧ w'.archetypes = w.archetypes ∧
      w'.kinds = w.kinds ∧ w'.pool = w.pool := by
  obtain ⟨fl, ht, hul, hno⟩ := g.good
  have H := tablesInv_of_rel ht.rel
  have hok := relsOK_of_typed ht.rel.sinv.toSInvMid hr
  obtain ⟨ts, hts, _, _⟩ := getCacheTables_spec H hok
  obtain ⟨w', ce, hreg, hC', _, _, hce, _, hcf, hcr, _⟩ := cacheRegister_inv hC H hok hfresh
  have heq := cacheRegister_eq w f rels ts hts
  rw [heq] at hreg
  injection hreg with _ hw
  subst hw
  have ht' : TInv (registered w f rels ts) fl :=
    { rel :=
        { sinv := ht.rel.sinv.congr rfl rfl rfl
          rinv := ht.rel.rinv.congr rfl rfl
          aux :=
            { targets := ht.rel.aux.targets
              rels := ht.rel.aux.rels
              relArchs := ht.rel.aux.relArchs
              cacheRels := by
                intro e he
                replace he : e ∈ w.cache.filters ++ [newEntry w f rels ts] := he
                rcases List.mem_append.mp he with he | he
                · exact ht.rel.aux.cacheRels e he
                · rw [List.mem_singleton.mp he]
                  intro r hrm; exact (hr r hrm).2 } }
      flags := ht.flags
      freeEmpty := ht.freeEmpty
      link := ht.link.congr (ht.link.idx.congr rfl rfl) rfl rfl rfl rfl
      kindsLe := ht.kindsLe }
  refine ⟨_, ce, heq, ⟨⟨fl, ht', hul, hno⟩, g.cidx.of_frame ⟨rfl, rfl, rfl, fun _ => rfl⟩, g.rows,
    g.lock⟩, hC', hce, hcf, hcr, rfl, rfl, rfl, rfl, rfl⟩

end QueryRel
end Ark
