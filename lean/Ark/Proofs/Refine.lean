/-
  Ark.Proofs.Refine — the abstract specification and the history machine for the non-relation,
  observer-free fragment WITH components.

  * the world-level specifications of the operations (`CInv`, `CInv.move_spec`, `addCore_spec`,
    `removeCore_spec`, `opAdd_spec`, `opRemove_spec`, `opNewEntity_spec`, `opNewEntity0_spec`,
    `opRemoveEntity_spec`, `opSet_spec_c`, …) are in Ark/Proofs/RefineCore.lean, those of
    `Exchange`, `CopyEntity`, `Shrink`, `Reset` and the agreement of the access paths in
    Ark/Proofs/RefineOps.lean;
  * `Ark.Refine`: the abstract specification (`Spec`, `specStep`, `pre`, `XchgOK`), the history
    machine (`Op` = `reg | new p | new0 | add p | rem p | xchg p | set | del | copy | shrink |
    reset`, `exec`, `guard`, `issuedAfter`, `step`, `reach`), the inductive invariant `HInv`, one
    step lemma per operation (`step_reg`, …, `step_reset`, each proving `StepGoal`), `step_goal`,
    `run_inv`, `reach_hinv`, `reach_bounds`;
  * `exec_path_indep` / `step_path_indep` (`Op.withPath`): the access path does not matter;
  * `PoolStep`, `GenBound`, `reach_genBound`: generations are bounded by the length of the
    history (no issued handle carries the sentinel generation `maxU32`);
  * `specStep_of_not_pre`, `target`, `specStep_frame`.
    The property theorems are in Ark/Props/C01Refine.lean.

  Kernel-only proofs, core Lean only.
-/
import Ark.Proofs.RefineCore
import Ark.Proofs.RefineOps

set_option autoImplicit false

namespace Ark

open World Ark.Props.C01World

/-! ## 10. the abstract specification and the history machine -/

namespace Refine

/-- component ↦ value, as an association list -/
abbrev Comps := List (Comp × Val)

/-- **the abstract specification state**: alive handle ↦ component ↦ value -/
abbrev Spec := List (Ent × Comps)

def keys (cs : Comps) : List Comp := cs.map (·.1)

/-- the ascending list of the IDs below `n` that occur in `ks` -/
def sortedIds (n : Nat) (ks : List Comp) : List Comp := (List.range n).filter fun c => decide (c ∈ ks)

/-- spec-level write: the last pair for a component wins; zero-size components are not written -/
def writeComps (z : List Bool) (vals : Comps) (cs : Comps) : Comps :=
  cs.map fun cv => (cv.1, if z.getD cv.1 false = true then cv.2 else applyVals cv.2 vals cv.1)

/-- fresh components read zero -/
def zeros (ids : List Comp) : Comps := ids.map fun c => (c, 0)

def find : Spec → Ent → Option Comps
  | [], _ => none
  | x :: rest, e => if x.1 = e then some x.2 else find rest e

/-- change the entry of `e` -/
def upd (s : Spec) (e : Ent) (f : Comps → Comps) : Spec :=
  s.map fun x => if x.1 = e then (x.1, f x.2) else x

/-- drop the entry of `e` -/
def del : Spec → Ent → Spec
  | [], _ => []
  | x :: rest, e => if x.1 = e then rest else x :: del rest e

/-- the operations of the fragment -/
inductive Op
  /-- register a (non-relation) component type of the given size -/
  | reg (size : Nat) (zst : Bool)
  /-- `NewEntity` with the components `ids` through the access path `p` (`Unsafe.NewEntity` +
      writes, `Map.NewEntity`, `MapN.NewEntity`), writing `vals` -/
  | new (p : Path) (ids : List Comp) (vals : Comps)
  /-- `World.NewEntity()`: an entity without components -/
  | new0
  /-- `Add(e, ids…)` through the access path `p`, writing `vals` -/
  | add (p : Path) (e : Ent) (ids : List Comp) (vals : Comps)
  /-- `Remove(e, ids…)` through the access path `p` -/
  | rem (p : Path) (e : Ent) (ids : List Comp)
  /-- `Exchange(e, add, rem)` through the access path `p` (`Unsafe.Exchange` + writes,
      `ExchangeN.Exchange`): remove `rem`, add `add`, writing `vals` -/
  | xchg (p : Path) (e : Ent) (add rem : List Comp) (vals : Comps)
  /-- `Set(e, …)` for the components mentioned in `vals` -/
  | set (e : Ent) (vals : Comps)
  /-- `RemoveEntity(e)` -/
  | del (e : Ent)
  /-- `CopyEntity(e)`: a new entity with the components and values of `e` -/
  | copy (e : Ent)
  /-- `World.Shrink` (`bounded`: stop after the first table with work) -/
  | shrink (bounded : Bool)
  /-- `World.Reset`: removes all entities; registry, archetypes and tables are kept -/
  | reset
  deriving Repr

/-- the precondition of `Exchange(e, add, rem)` on an entity with the components `cs` (`n`
    registered component types), as `graph.Find` enforces it: not both lists empty; `rem` distinct
    and all present; `add` distinct, registered and all absent — absent from the entity as it is
    BEFORE the removal, so a component that is both removed and added is refused -/
def XchgOK (n : Nat) (cs : Comps) (add rem : List Comp) : Prop :=
  ¬ (add = [] ∧ rem = []) ∧ rem.Nodup ∧ (∀ c ∈ rem, c ∈ keys cs) ∧ add.Nodup ∧
    ∀ c ∈ add, c < n ∧ c ∉ keys cs

instance (n : Nat) (cs : Comps) (add rem : List Comp) : Decidable (XchgOK n cs add rem) :=
  inferInstanceAs (Decidable (¬ (add = [] ∧ rem = []) ∧ rem.Nodup ∧ (∀ c ∈ rem, c ∈ keys cs) ∧
    add.Nodup ∧ ∀ c ∈ add, c < n ∧ c ∉ keys cs))

/-- the specification state: entities, and the registry (zero-size flag per component ID) -/
structure SS where
  ents : Spec
  zst : List Bool

/-- **the specification step.**  `fresh` is the handle a successful `new`/`new0`/`copy` returns.
    An operation whose precondition fails (unknown/dead handle, component present/absent, a
    component both removed and added, empty or duplicate list, unregistered component, registry
    full) leaves the specification unchanged.  `shrink` is invisible; `reset` removes every entity
    and keeps the registry. -/
def specStep (ss : SS) (fresh : Ent) : Op → SS
  | .reg _ z => if ss.zst.length < 256 then { ss with zst := ss.zst ++ [z] } else ss
  | .new _ ids vals =>
    if ids.Nodup ∧ ∀ c ∈ ids, c < ss.zst.length then
      { ss with ents := (fresh, writeComps ss.zst vals (zeros ids)) :: ss.ents }
    else ss
  | .new0 => { ss with ents := (fresh, []) :: ss.ents }
  | .add _ e ids vals =>
    match find ss.ents e with
    | none => ss
    | some cs =>
      if ids ≠ [] ∧ ids.Nodup ∧ ∀ c ∈ ids, c < ss.zst.length ∧ c ∉ keys cs then
        { ss with ents := upd ss.ents e fun cs => writeComps ss.zst vals (cs ++ zeros ids) }
      else ss
  | .rem _ e ids =>
    match find ss.ents e with
    | none => ss
    | some cs =>
      if ids ≠ [] ∧ ids.Nodup ∧ ∀ c ∈ ids, c ∈ keys cs then
        { ss with ents := upd ss.ents e fun cs => cs.filter fun cv => decide (cv.1 ∉ ids) }
      else ss
  | .xchg _ e add rem vals =>
    match find ss.ents e with
    | none => ss
    | some cs =>
      if XchgOK ss.zst.length cs add rem then
        { ss with ents := upd ss.ents e fun cs =>
            writeComps ss.zst vals ((cs.filter fun cv => decide (cv.1 ∉ rem)) ++ zeros add) }
      else ss
  | .set e vals =>
    match find ss.ents e with
    | none => ss
    | some cs =>
      if ∀ cv ∈ vals, cv.1 ∈ keys cs then { ss with ents := upd ss.ents e (writeComps ss.zst vals) }
      else ss
  | .del e =>
    match find ss.ents e with
    | none => ss
    | some _ => { ss with ents := del ss.ents e }
  | .copy e =>
    match find ss.ents e with
    | none => ss
    | some cs => { ss with ents := (fresh, cs) :: ss.ents }
  | .shrink _ => ss
  | .reset => { ss with ents := [] }

/-- run one model operation (through the access path the operation names, without relations);
    the result carries the returned handle -/
def exec (run : ProbeRunner) (w : World) : Op → Res World (Option Ent)
  | .reg size z =>
    match registerComponent { isRel := false, zst := z, size := size } w with
    | .ok _ w' => .ok none w'
    | .panic k w' => .panic k w'
  | .new p ids vals =>
    match opNewEntity run p ids vals [] w with
    | .ok e w' => .ok (some e) w'
    | .panic k w' => .panic k w'
  | .new0 =>
    match opNewEntity0 run w with
    | .ok e w' => .ok (some e) w'
    | .panic k w' => .panic k w'
  | .add p e ids vals =>
    match opAdd run p e ids vals [] w with
    | .ok _ w' => .ok none w'
    | .panic k w' => .panic k w'
  | .rem p e ids =>
    match opRemove run p e ids w with
    | .ok _ w' => .ok none w'
    | .panic k w' => .panic k w'
  | .xchg p e add rem vals =>
    match opExchange run p e add vals rem [] w with
    | .ok _ w' => .ok none w'
    | .panic k w' => .panic k w'
  | .set e vals =>
    match opSet run e (keys vals) vals w with
    | .ok _ w' => .ok none w'
    | .panic k w' => .panic k w'
  | .del e =>
    match opRemoveEntity run e w with
    | .ok _ w' => .ok none w'
    | .panic k w' => .panic k w'
  | .copy e =>
    match opCopyEntity run e w with
    | .ok e' w' => .ok (some e') w'
    | .panic k w' => .panic k w'
  | .shrink bounded =>
    match opShrink bounded w with
    | .ok _ w' => .ok none w'
    | .panic k w' => .panic k w'
  | .reset =>
    match opReset w with
    | .ok _ w' => .ok none w'
    | .panic k w' => .panic k w'

/-- world + ghost history + specification -/
structure St where
  w : World
  /-- handles returned so far, newest first -/
  issued : List Ent
  ss : SS

/-- what a client of the API can express: handles it was given (`Entity` is opaque) and
    component IDs it obtained by registration.  Other calls are not steps of the machine. -/
def guard (s : St) : Op → Bool
  | .reg _ _ => true
  | .new _ ids _ => ids.all fun c => decide (c < s.ss.zst.length)
  | .new0 => true
  | .add _ e ids _ => decide (e ∈ s.issued) && ids.all fun c => decide (c < s.ss.zst.length)
  | .rem _ e _ => decide (e ∈ s.issued)
  | .xchg _ e add _ _ => decide (e ∈ s.issued) && add.all fun c => decide (c < s.ss.zst.length)
  | .set e _ => decide (e ∈ s.issued)
  | .del e => decide (e ∈ s.issued)
  | .copy e => decide (e ∈ s.issued)
  | .shrink _ => true
  | .reset => true

/-- the handle returned, if any -/
def retOf : Res World (Option Ent) → Option Ent
  | .ok r _ => r
  | .panic _ _ => none

/-- `Reset` is the one operation that is about the whole world -/
def Op.isReset : Op → Bool
  | .reset => true
  | _ => false

/-- the handles the client holds after a call: a creating call adds the returned handle; a
    successful `Reset` ends the epoch — every handle issued so far is dead, and `NewEntity` will
    issue the very same handles (ID and generation) again, so the ghost history starts afresh -/
def issuedAfter (issued : List Ent) (op : Op) : Res World (Option Ent) → List Ent
  | .panic _ _ => issued
  | .ok ret _ =>
    if op.isReset = true then [] else
    match ret with
    | some e => e :: issued
    | none => issued

/-- one step in lock step: the model operation and the specification step.  A panic keeps the
    state the model reached (Go `recover`); that a rejected call leaves the world unchanged is
    a theorem (`exec_rejected`), not part of the definition. -/
def step (run : ProbeRunner) (s : St) (op : Op) : St :=
  if guard s op = true then
    let r := exec run s.w op
    ⟨r.state, issuedAfter s.issued op r, specStep s.ss ((retOf r).getD default) op⟩
  else s

def runOps (run : ProbeRunner) (s : St) (ops : List Op) : St := ops.foldl (step run) s

def St.init (cap rel : Nat) : St := ⟨World.init cap rel, [], ⟨[], []⟩⟩

/-- the state reached from `NewWorld(cap, rel)` by the history `ops` -/
def reach (run : ProbeRunner) (cap rel : Nat) (ops : List Op) : St := runOps run (St.init cap rel) ops

/-! ### association-list facts -/

theorem find_some_mem {s : Spec} {e : Ent} {cs : Comps} (h : find s e = some cs) : (e, cs) ∈ s := by
  induction s with
  | nil => cases h
  | cons x rest ih =>
    simp only [find] at h
    split at h
    · rename_i hx
      injection h with h
      obtain ⟨a, b⟩ := x
      simp only at hx h
      subst hx; subst h
      exact List.mem_cons_self
    · exact List.mem_cons_of_mem _ (ih h)

theorem find_none_iff {s : Spec} {e : Ent} : find s e = none ↔ e ∉ s.map (·.1) := by
  induction s with
  | nil => simp [find]
  | cons x rest ih =>
    simp only [find, List.map_cons, List.mem_cons, not_or]
    split
    · rename_i hx
      simp only [reduceCtorEq, false_iff, not_and]
      intro hne; exact absurd hx.symm hne
    · rename_i hx
      rw [ih]
      exact ⟨fun hh => ⟨fun he => hx he.symm, hh⟩, fun hh => hh.2⟩

theorem find_of_mem {s : Spec} (hnd : (s.map (·.1)).Nodup) {e : Ent} {cs : Comps}
    (h : (e, cs) ∈ s) : find s e = some cs := by
  induction s with
  | nil => cases h
  | cons x rest ih =>
    simp only [List.map_cons, List.nodup_cons] at hnd
    simp only [find]
    rcases List.mem_cons.mp h with rfl | hm
    · simp
    · have hne : x.1 ≠ e := by
        intro hx
        apply hnd.1
        rw [hx]
        exact List.mem_map.mpr ⟨(e, cs), hm, rfl⟩
      rw [if_neg hne]
      exact ih hnd.2 hm

theorem upd_keys (s : Spec) (e : Ent) (f : Comps → Comps) : (upd s e f).map (·.1) = s.map (·.1) := by
  simp only [upd, List.map_map]
  apply List.map_congr_left
  intro x _
  simp only [Function.comp]
  split <;> rfl

theorem mem_upd {s : Spec} {e : Ent} {f : Comps → Comps} {x : Ent} {cs : Comps}
    (h : (x, cs) ∈ upd s e f) :
    (x = e ∧ ∃ cs0, (e, cs0) ∈ s ∧ cs = f cs0) ∨ (x ≠ e ∧ (x, cs) ∈ s) := by
  simp only [upd, List.mem_map] at h
  obtain ⟨y, hy, heq⟩ := h
  split at heq
  · rename_i hye
    injection heq with h1 h2
    obtain ⟨a, b⟩ := y
    simp only at hye h1 h2
    subst hye
    exact Or.inl ⟨h1.symm, b, hy, h2.symm⟩
  · rename_i hye
    subst heq
    exact Or.inr ⟨hye, hy⟩

theorem find_upd_self {s : Spec} {e : Ent} {cs : Comps} (f : Comps → Comps)
    (h : find s e = some cs) : find (upd s e f) e = some (f cs) := by
  induction s with
  | nil => cases h
  | cons x rest ih =>
    simp only [find] at h
    simp only [upd, List.map_cons]
    by_cases hx : x.1 = e
    · rw [if_pos hx] at h
      injection h with h
      simp only [hx, if_true, find, h]
    · rw [if_neg hx] at h
      simp only [hx, if_false, find]
      exact ih h

theorem find_upd_ne (s : Spec) {e x : Ent} (f : Comps → Comps) (hne : x ≠ e) :
    find (upd s e f) x = find s x := by
  induction s with
  | nil => rfl
  | cons y rest ih =>
    simp only [upd, List.map_cons]
    by_cases hy : y.1 = e
    · simp only [hy, if_true, find]
      rw [if_neg (fun hh => hne hh.symm), if_neg (fun hh => hne hh.symm)]
      exact ih
    · simp only [hy, if_false, find]
      split
      · rfl
      · exact ih

theorem del_keys (s : Spec) (e : Ent) : (del s e).map (·.1) = (s.map (·.1)).erase e := by
  induction s with
  | nil => rfl
  | cons x rest ih =>
    simp only [del, List.map_cons, List.erase_cons]
    by_cases hx : x.1 = e
    · simp [hx]
    · have : (x.1 == e) = false := by simpa using hx
      simp [hx, this, ih]

theorem mem_del {s : Spec} {e : Ent} {x : Ent × Comps} (h : x ∈ del s e) : x ∈ s := by
  induction s with
  | nil => cases h
  | cons y rest ih =>
    simp only [del] at h
    split at h
    · exact List.mem_cons_of_mem _ h
    · rcases List.mem_cons.mp h with rfl | hm
      · exact List.mem_cons_self
      · exact List.mem_cons_of_mem _ (ih hm)

theorem find_del_ne (s : Spec) {e x : Ent} (hne : x ≠ e) : find (del s e) x = find s x := by
  induction s with
  | nil => rfl
  | cons y rest ih =>
    simp only [del]
    by_cases hy : y.1 = e
    · simp only [hy, if_true, find]
      rw [if_neg (fun hh => hne hh.symm)]
    · simp only [hy, if_false, find]
      split
      · rfl
      · exact ih

theorem mem_sortedIds {n : Nat} {ks : List Comp} {c : Comp} :
    c ∈ sortedIds n ks ↔ c < n ∧ c ∈ ks := by
  simp [sortedIds, List.mem_filter, List.mem_range]

theorem toList_eq_sortedIds (m : Mask) (n : Nat) (ks : List Comp)
    (h : ∀ c : Nat, c < n → (m.get c = true ↔ c ∈ ks)) : m.toList n = sortedIds n ks := by
  simp only [Mask.toList, sortedIds]
  apply List.filter_congr
  intro c hc
  have hlt := List.mem_range.mp hc
  cases hg : m.get c with
  | true => exact (decide_eq_true ((h c hlt).mp hg)).symm
  | false =>
    have : c ∉ ks := fun hm => by rw [(h c hlt).mpr hm] at hg; cases hg
    exact (decide_eq_false this).symm

theorem sortedIds_succ {n : Nat} {ks : List Comp} (h : ∀ c ∈ ks, c < n) :
    sortedIds (n + 1) ks = sortedIds n ks := by
  simp only [sortedIds, List.range_succ, List.filter_append, List.filter_cons, List.filter_nil]
  have : n ∉ ks := fun hm => Nat.lt_irrefl _ (h n hm)
  simp [this]

theorem keys_writeComps (z : List Bool) (vals cs : Comps) : keys (writeComps z vals cs) = keys cs := by
  simp only [keys, writeComps, List.map_map]
  rfl

theorem keys_zeros (ids : List Comp) : keys (zeros ids) = ids := by
  simp only [keys, zeros, List.map_map]
  exact List.map_id' ids

theorem mem_writeComps {z : List Bool} {vals cs : Comps} {cv : Comp × Val}
    (h : cv ∈ writeComps z vals cs) :
    ∃ v, (cv.1, v) ∈ cs ∧ cv.2 = if z.getD cv.1 false = true then v else applyVals v vals cv.1 := by
  simp only [writeComps, List.mem_map] at h
  obtain ⟨x, hx, rfl⟩ := h
  exact ⟨x.2, hx, rfl⟩

end Refine

/-! ## 11. the inductive invariant of the history machine -/

/-- no table has more rows than there are index slots -/
theorem IdxInv.rows_le {w : World} (h : IdxInv w) (t : Nat) : (w.tbl t).len ≤ w.entities.length := by
  rcases Nat.lt_or_ge t w.tables.length with hlt | hge
  · have hT := get_of_lt hlt
    have hnd : ((List.range (w.tbl t).len).map fun r => ((w.tbl t).getEntity r).id).Nodup := by
      rw [List.Nodup, List.pairwise_map]
      refine List.Pairwise.imp_of_mem ?_ (List.nodup_range (n := (w.tbl t).len))
      intro a b ha hb hab heq
      exact hab (h.row_inj hT hT (List.mem_range.mp ha) (List.mem_range.mp hb) heq).2
    have hsub : ((List.range (w.tbl t).len).map fun r => ((w.tbl t).getEntity r).id) ⊆
        List.range w.entities.length := by
      intro i hi
      obtain ⟨r, hr, rfl⟩ := List.mem_map.mp hi
      have := h.rowIdx t _ r hT (List.mem_range.mp hr)
      exact List.mem_range.mpr (List.getElem?_eq_some_iff.mp this).1
    have := List.Nodup.length_le_of_subset hnd hsub
    simpa using this
  · have : w.tbl t = default := by
      simp [tbl, List.getD_eq_getElem?_getD, List.getElem?_eq_none hge]
    rw [this]; exact Nat.zero_le _

namespace World

theorem registerComponent_ok_of (k : CompKind) (w : World) (hlt : w.kinds.length < w.maxComps)
    (hl : w.isLocked = false) : ∃ w', registerComponent k w = .ok w.kinds.length w' := by
  unfold registerComponent
  simp only
  rw [if_neg (by omega), if_neg (by rw [hl]; simp)]
  exact ⟨_, rfl⟩

theorem registerComponent_full (k : CompKind) (w : World) (h : w.maxComps ≤ w.kinds.length) :
    registerComponent k w = .panic .registryFull w := by
  unfold registerComponent
  simp only
  rw [if_pos h]

end World

namespace Refine

/-- what the specification says about one entity agrees with the world (`n` = number of
    registered component types) -/
structure EntOK (w : World) (n : Nat) (e : Ent) (cs : Comps) : Prop where
  nodup : (keys cs).Nodup
  reg : ∀ c ∈ keys cs, c < n
  /-- the component set of the entity is the (sorted) key set of the specification -/
  comps : compsOf w e.id = some (sortedIds n (keys cs))
  /-- every component holds the value the specification records -/
  vals : ∀ cv ∈ cs, valOf w e.id cv.1 = some cv.2

theorem EntOK.frame {w w' : World} {n : Nat} {e : Ent} {cs : Comps} (ok : EntOK w n e cs)
    (hs : SameEnt w w' e.id) : EntOK w' n e cs :=
  ⟨ok.nodup, ok.reg, by rw [hs.2]; exact ok.comps, fun cv hcv => by rw [hs.1]; exact ok.vals cv hcv⟩

/-- the pool with the ghost history, as in `Ark.Proofs.PoolHistory` -/
def St.ps (s : St) : Pool.PS := ⟨s.w.pool, s.issued, s.ss.ents.map (·.1)⟩

/-- the precondition of an operation, in terms of the specification only -/
def pre (ss : SS) : Op → Prop
  | .reg _ _ => ss.zst.length < 256
  | .new _ ids _ => ids.Nodup ∧ ∀ c ∈ ids, c < ss.zst.length
  | .new0 => True
  | .add _ e ids _ => ∃ cs, find ss.ents e = some cs ∧
      (ids ≠ [] ∧ ids.Nodup ∧ ∀ c ∈ ids, c < ss.zst.length ∧ c ∉ keys cs)
  | .rem _ e ids => ∃ cs, find ss.ents e = some cs ∧ (ids ≠ [] ∧ ids.Nodup ∧ ∀ c ∈ ids, c ∈ keys cs)
  | .xchg _ e add rem _ => ∃ cs, find ss.ents e = some cs ∧ XchgOK ss.zst.length cs add rem
  | .set e vals => ∃ cs, find ss.ents e = some cs ∧ ∀ cv ∈ vals, cv.1 ∈ keys cs
  | .del e => ∃ cs, find ss.ents e = some cs
  | .copy e => ∃ cs, find ss.ents e = some cs
  | .shrink _ => True
  | .reset => True

/-- the inductive invariant of the history machine -/
structure HInv (s : St) (fl : List Nat) : Prop where
  cinv : CInv s.w fl
  ginv : Pool.GInv s.ps fl
  unlocked : s.w.isLocked = false
  nodup : s.issued.Nodup
  /-- the specification's registry is the model's -/
  zstEq : s.ss.zst = s.w.kinds.map (·.zst)
  maxc : s.w.maxComps = 256
  /-- **refinement**: every entry of the specification is realised by the world -/
  ok : ∀ (e : Ent) (cs : Comps), (e, cs) ∈ s.ss.ents → EntOK s.w s.w.kinds.length e cs

theorem hinv_init (cap rel : Nat) : HInv (St.init cap rel) [] where
  cinv := cinv_init cap rel
  ginv := Pool.ginv_init
  unlocked := rfl
  nodup := List.nodup_nil
  zstEq := rfl
  maxc := rfl
  ok := by intro e cs h; cases h

namespace HInv

variable {s : St} {fl : List Nat}

theorem zlen (H : HInv s fl) : s.ss.zst.length = s.w.kinds.length := by
  rw [H.zstEq, List.length_map]

theorem zget (H : HInv s fl) (c : Comp) : s.ss.zst.getD c false = (s.w.kinds.getD c {}).zst := by
  rw [H.zstEq]
  simp only [List.getD_eq_getElem?_getD, List.getElem?_map]
  cases s.w.kinds[c]? <;> rfl

theorem live_facts (H : HInv s fl) {e : Ent} {cs : Comps} (hm : (e, cs) ∈ s.ss.ents) :
    e ∈ s.issued ∧ s.w.alive e = true ∧ 2 ≤ e.id ∧ e.id ∉ fl ∧ find s.ss.ents e = some cs ∧
    s.w.pool.ents[e.id]? = some e := by
  have hl : e ∈ s.ps.live := List.mem_map.mpr ⟨(e, cs), hm, rfl⟩
  have hi := H.ginv.live_issued e hl
  obtain ⟨a, b, c⟩ := (H.ginv.live_iff e).mp hl
  exact ⟨hi, (Pool.alive_iff_live s.ps fl H.ginv e hi).mpr hl, a, b,
    find_of_mem H.ginv.live_nodup hm, c⟩

theorem find_of_alive (H : HInv s fl) {e : Ent} (hi : e ∈ s.issued) (ha : s.w.alive e = true) :
    ∃ cs, find s.ss.ents e = some cs ∧ (e, cs) ∈ s.ss.ents := by
  have hl : e ∈ s.ps.live := (Pool.alive_iff_live s.ps fl H.ginv e hi).mp ha
  cases hf : find s.ss.ents e with
  | none => exact absurd hl (find_none_iff.mp hf)
  | some cs => exact ⟨cs, rfl, find_some_mem hf⟩

theorem find_of_dead (H : HInv s fl) {e : Ent} (hi : e ∈ s.issued) (hd : s.w.alive e = false) :
    find s.ss.ents e = none := by
  apply find_none_iff.mpr
  intro hl
  have : s.w.alive e = true := (Pool.alive_iff_live s.ps fl H.ginv e hi).mpr hl
  rw [hd] at this; cases this

theorem find_not_issued (H : HInv s fl) {e : Ent} (hi : e ∉ s.issued) : find s.ss.ents e = none :=
  find_none_iff.mpr (fun hl => hi (H.ginv.live_issued e hl))

/-- two entries of the specification have different IDs -/
theorem id_inj (H : HInv s fl) {x y : Ent} {cs cs' : Comps} (hx : (x, cs) ∈ s.ss.ents)
    (hy : (y, cs') ∈ s.ss.ents) (hid : x.id = y.id) : x = y := by
  obtain ⟨_, _, _, _, _, h1⟩ := H.live_facts hx
  obtain ⟨_, _, _, _, _, h2⟩ := H.live_facts hy
  rw [hid, h2] at h1
  exact (Option.some.inj h1).symm

/-- the mask of a specified entity is the key set of its entry -/
theorem mask_iff (H : HInv s fl) {e : Ent} {cs : Comps} (hm : (e, cs) ∈ s.ss.ents) (c : Comp) :
    (s.w.maskOf e).get c = true ↔ c ∈ keys cs := by
  obtain ⟨_, ha, h2, hnf, _, hsl⟩ := H.live_facts hm
  obtain ⟨hc, hreg⟩ := H.cinv.comps_of_live h2 hnf ha (List.getElem?_eq_some_iff.mp hsl).1
  have ok := H.ok e cs hm
  have heq : (s.w.maskOf e).toList s.w.kinds.length = sortedIds s.w.kinds.length (keys cs) :=
    Option.some.inj (hc.symm.trans ok.comps)
  constructor
  · intro hg
    have : c ∈ (s.w.maskOf e).toList s.w.kinds.length :=
      (Mask.mem_toList _ _ _).mpr ⟨hreg c hg, hg⟩
    rw [heq] at this
    exact (mem_sortedIds.mp this).2
  · intro hk
    have : c ∈ sortedIds s.w.kinds.length (keys cs) := mem_sortedIds.mpr ⟨ok.reg c hk, hk⟩
    rw [← heq] at this
    exact ((Mask.mem_toList _ _ _).mp this).2

theorem hrows (H : HInv s fl) (hent : s.w.entities.length + 1 < 2 ^ 32) (t : Nat) :
    (s.w.tbl t).len + 1 < 2 ^ 32 := by
  have := H.cinv.idx.rows_le t
  omega

/-- **single-entity update**: the world changes only entity `e` (pool, registry, locks kept),
    the specification changes only `e`'s entry, and the new entry is realised -/
theorem update (H : HInv s fl) {e : Ent} {cs : Comps} (hm : (e, cs) ∈ s.ss.ents) {w' : World}
    (f : Comps → Comps) (hc : CInv w' fl) (hpool : w'.pool = s.w.pool)
    (hl : w'.isLocked = s.w.isLocked) (hk : w'.kinds = s.w.kinds)
    (hmax : w'.maxComps = s.w.maxComps) (hfr : ∀ j : Nat, j ≠ e.id → SameEnt s.w w' j)
    (hok : EntOK w' s.w.kinds.length e (f cs)) :
    HInv ⟨w', s.issued, ⟨upd s.ss.ents e f, s.ss.zst⟩⟩ fl where
  cinv := hc
  ginv := by
    have : (⟨w', s.issued, ⟨upd s.ss.ents e f, s.ss.zst⟩⟩ : St).ps = s.ps := by
      simp only [St.ps, hpool, upd_keys]
    rw [this]; exact H.ginv
  unlocked := hl.trans H.unlocked
  nodup := H.nodup
  zstEq := by show s.ss.zst = w'.kinds.map (·.zst); rw [hk]; exact H.zstEq
  maxc := hmax.trans H.maxc
  ok := by
    intro x cs' hx
    show EntOK w' w'.kinds.length x cs'
    rw [hk]
    rcases mem_upd hx with ⟨rfl, cs0, h0, rfl⟩ | ⟨hne, hx'⟩
    · have h1 := find_of_mem H.ginv.live_nodup h0
      have h2 := find_of_mem H.ginv.live_nodup hm
      rw [h1] at h2
      rw [Option.some.inj h2]; exact hok
    · have hid : x.id ≠ e.id := fun hh => hne (H.id_inj hx' hm hh)
      exact (H.ok x cs' hx').frame (hfr x.id hid)

end HInv

/-- what one operation does to the entity pool: nothing, one `Get`, one `Recycle` of a handle that
    sits in its slot, or `Reset` -/
def PoolStep (p p' : Pool) : Prop :=
  p' = p ∨ p' = (p.get).1 ∨ (∃ e : Ent, p.ents[e.id]? = some e ∧ p' = p.recycle e) ∨ p' = p.reset

/-- the conclusion of every step lemma: the invariant is kept, at most one table and one index
    slot are created, a call whose precondition fails is rejected with the world unchanged, a
    call whose precondition holds succeeds, and the pool makes at most one move -/
def StepGoal (run : ProbeRunner) (s : St) (op : Op) : Prop :=
  (∃ fl', HInv (step run s op) fl') ∧
  (step run s op).w.tables.length ≤ s.w.tables.length + 1 ∧
  (step run s op).w.entities.length ≤ s.w.entities.length + 1 ∧
  (guard s op = true → ¬ pre s.ss op → ∃ k, exec run s.w op = .panic k s.w) ∧
  (guard s op = true → pre s.ss op → ∃ r w', exec run s.w op = .ok r w') ∧
  PoolStep s.w.pool (step run s op).w.pool

theorem step_of_guard {run : ProbeRunner} {s : St} {op : Op} (hg : guard s op = true) :
    step run s op = ⟨(exec run s.w op).state, issuedAfter s.issued op (exec run s.w op),
      specStep s.ss ((retOf (exec run s.w op)).getD default) op⟩ := by
  rw [step, if_pos hg]

/-- for every operation but `Reset` the returned handle (if any) is added to the issued ones -/
theorem issuedAfter_nr (issued : List Ent) {op : Op} (hr : op.isReset = false)
    (r : Res World (Option Ent)) :
    issuedAfter issued op r = match retOf r with | some e => e :: issued | none => issued := by
  cases r with
  | panic k w => rfl
  | ok ret w => simp only [issuedAfter, hr, Bool.false_eq_true, if_false, retOf]

theorem step_of_guard_nr {run : ProbeRunner} {s : St} {op : Op} (hg : guard s op = true)
    (hr : op.isReset = false) :
    step run s op = ⟨(exec run s.w op).state,
      (match retOf (exec run s.w op) with | some e => e :: s.issued | none => s.issued),
      specStep s.ss ((retOf (exec run s.w op)).getD default) op⟩ := by
  rw [step_of_guard hg, issuedAfter_nr _ hr]

theorem stepGoal_no_guard {run : ProbeRunner} {s : St} {fl : List Nat} (H : HInv s fl) {op : Op}
    (hg : ¬ guard s op = true) : StepGoal run s op := by
  have : step run s op = s := by rw [step, if_neg hg]
  refine ⟨⟨fl, by rw [this]; exact H⟩, by rw [this]; exact Nat.le_succ _,
    by rw [this]; exact Nat.le_succ _, fun h => absurd h hg, fun h => absurd h hg,
    by rw [this]; exact Or.inl rfl⟩

/-- a rejected call: the world and the specification are unchanged -/
theorem stepGoal_rejected {run : ProbeRunner} {s : St} {fl : List Nat} (H : HInv s fl) {op : Op}
    (hg : guard s op = true) {k : PanicKind} (hex : exec run s.w op = .panic k s.w)
    (hnp : ¬ pre s.ss op) (hspec : ∀ fresh, specStep s.ss fresh op = s.ss) :
    StepGoal run s op := by
  have : step run s op = s := by
    rw [step_of_guard hg, hex]
    simp only [Res.state, retOf, issuedAfter, hspec]
  refine ⟨⟨fl, by rw [this]; exact H⟩, by rw [this]; exact Nat.le_succ _,
    by rw [this]; exact Nat.le_succ _, fun _ _ => ⟨k, hex⟩, fun _ hp => absurd hp hnp,
    by rw [this]; exact Or.inl rfl⟩

/-! ### `reg` -/

theorem step_reg (run : ProbeRunner) {s : St} {fl : List Nat} (H : HInv s fl) (size : Nat)
    (z : Bool) : StepGoal run s (.reg size z) := by
  have hg : guard s (.reg size z) = true := rfl
  by_cases hlt : s.ss.zst.length < 256
  · have hlt' : s.w.kinds.length < s.w.maxComps := by rw [H.maxc, ← H.zlen]; exact hlt
    obtain ⟨w', hr⟩ := registerComponent_ok_of { isRel := false, zst := z, size := size } s.w hlt'
      H.unlocked
    obtain ⟨hc, _, hks, hl, hal, hsame, htab, hent, hpool, hmax⟩ :=
      H.cinv.registerComponent (k := { isRel := false, zst := z, size := size }) rfl hr
    have hex : exec run s.w (.reg size z) = .ok none w' := by simp only [exec, hr]
    have hstep : step run s (.reg size z) = ⟨w', s.issued, ⟨s.ss.ents, s.ss.zst ++ [z]⟩⟩ := by
      rw [step_of_guard_nr hg rfl, hex]
      simp only [Res.state, retOf, specStep, if_pos hlt]
    have hklen : w'.kinds.length = s.w.kinds.length + 1 := by
      rw [hks]; simp only [List.length_append, List.length_singleton]
    refine ⟨⟨fl, ?_⟩, by rw [hstep]; show w'.tables.length ≤ _; rw [htab]; exact Nat.le_succ _,
      by rw [hstep]; show w'.entities.length ≤ _; rw [hent]; exact Nat.le_succ _,
      fun _ hnp => absurd hlt hnp, fun _ _ => ⟨_, _, hex⟩,
      by rw [hstep]; exact Or.inl hpool⟩
    rw [hstep]
    exact
      { cinv := hc
        ginv := by
          have : (⟨w', s.issued, ⟨s.ss.ents, s.ss.zst ++ [z]⟩⟩ : St).ps = s.ps := by
            simp only [St.ps, hpool]
          rw [this]; exact H.ginv
        unlocked := hl.trans H.unlocked
        nodup := H.nodup
        zstEq := by
          show s.ss.zst ++ [z] = w'.kinds.map (·.zst)
          rw [hks, List.map_append, H.zstEq]; rfl
        maxc := hmax.trans H.maxc
        ok := by
          intro e cs hm
          show EntOK w' w'.kinds.length e cs
          have ok := H.ok e cs hm
          rw [hklen]
          exact
            { nodup := ok.nodup
              reg := fun c hc => Nat.lt_succ_of_lt (ok.reg c hc)
              comps := by rw [(hsame e.id).2, sortedIds_succ ok.reg]; exact ok.comps
              vals := fun cv hcv => by rw [(hsame e.id).1]; exact ok.vals cv hcv } }
  · have hfull : s.w.maxComps ≤ s.w.kinds.length := by rw [H.maxc, ← H.zlen]; omega
    have hr := registerComponent_full { isRel := false, zst := z, size := size } s.w hfull
    exact stepGoal_rejected H hg (k := .registryFull) (by simp only [exec, hr]) hlt
      (fun _ => by simp only [specStep, if_neg hlt])

/-! ### `new` -/

theorem mask_ofList_iff {ids : List Comp} {n : Nat} (hn : n ≤ 256) (c : Nat) (hc : c < n) :
    (Mask.ofList ids).get c = true ↔ c ∈ ids := by
  rw [Mask.get_ofList]
  have : c < 256 := by omega
  simp [this]

theorem step_new (run : ProbeRunner) {s : St} {fl : List Nat} (H : HInv s fl)
    (hfew : s.w.tables.length < maxU32) (hent : s.w.entities.length + 1 < 2 ^ 32)
    (p : Path) (ids : List Comp) (vals : Comps) : StepGoal run s (.new p ids vals) := by
  by_cases hg : guard s (.new p ids vals) = true
  case neg => exact stepGoal_no_guard H hg
  have hreg : ∀ c ∈ ids, c < s.ss.zst.length := by
    simpa only [guard, List.all_eq_true, decide_eq_true_eq] using hg
  have hreg' : ∀ (c : Comp), c ∈ ids → c < s.w.kinds.length := by rw [← H.zlen]; exact hreg
  have hb256 : ∀ (c : Comp), c ∈ ids → c < 256 := fun c hc => H.cinv.reg_lt_256 (hreg' c hc)
  by_cases hnd : ids.Nodup
  · obtain ⟨w', hop, post⟩ := opNewEntity_spec run p H.cinv H.unlocked hnd hreg' vals hfew
      (H.hrows hent)
    have hex : exec run s.w (.new p ids vals) = .ok (some (s.w.pool.get).2) w' := by
      simp only [exec, hop]
    have hstep : step run s (.new p ids vals) =
        ⟨w', (s.w.pool.get).2 :: s.issued,
          ⟨((s.w.pool.get).2, writeComps s.ss.zst vals (zeros ids)) :: s.ss.ents, s.ss.zst⟩⟩ := by
      rw [step_of_guard_nr hg rfl, hex]
      simp only [Res.state, retOf, specStep, if_pos (And.intro hnd hreg), Option.getD_some]
    refine ⟨⟨fl.tail, ?_⟩, by rw [hstep]; exact post.tablesLen, by rw [hstep]; exact post.entitiesLen,
      fun _ hnp => absurd (And.intro hnd hreg) hnp, fun _ _ => ⟨_, _, hex⟩,
      by rw [hstep]; exact Or.inr (Or.inl post.pool)⟩
    rw [hstep]
    have g := Pool.get_spec s.w.pool fl H.cinv.pool
    have hfresh : (s.w.pool.get).2 ∉ s.issued := by
      intro hm
      obtain ⟨_, sl, hsl, hle, hlt⟩ := H.ginv.issued_bound _ hm
      have hsl' : s.w.pool.ents[(s.w.pool.get).2.id]? = some sl := hsl
      rcases g.cases with ⟨a, _, _⟩ | ⟨_, b, sl', hsl'', hgen⟩
      · rw [a, List.getElem?_eq_none (Nat.le_refl _)] at hsl'; cases hsl'
      · have hmem : (s.w.pool.get).2.id ∈ fl := by rw [b]; exact List.mem_cons_self
        have := hlt hmem
        rw [hsl''] at hsl'
        have : sl' = sl := Option.some.inj hsl'
        subst this
        omega
    obtain ⟨fl1, g1⟩ := Pool.step_inv s.ps fl H.ginv .get
    have hps : s.ps.step .get =
        (⟨w', (s.w.pool.get).2 :: s.issued,
          ⟨((s.w.pool.get).2, writeComps s.ss.zst vals (zeros ids)) :: s.ss.ents, s.ss.zst⟩⟩ : St).ps := by
      show (⟨s.w.pool.get.1, _, _⟩ : Pool.PS) = ⟨w'.pool, _, _⟩
      rw [post.pool]; rfl
    rw [hps] at g1
    have hfl : fl1 = fl.tail := g1.pinv.unique post.cinv.pool
    subst hfl
    exact
      { cinv := post.cinv
        ginv := g1
        unlocked := post.unlocked.trans H.unlocked
        nodup := List.nodup_cons.mpr ⟨hfresh, H.nodup⟩
        zstEq := by show s.ss.zst = w'.kinds.map (·.zst); rw [post.kinds]; exact H.zstEq
        maxc := post.maxComps.trans H.maxc
        ok := by
          intro x cs hx
          show EntOK w' w'.kinds.length x cs
          rw [post.kinds]
          rcases List.mem_cons.mp hx with heq | hx'
          · injection heq with h1 h2
            subst h1; subst h2
            have hk : keys (writeComps s.ss.zst vals (zeros ids)) = ids := by
              rw [keys_writeComps, keys_zeros]
            exact
              { nodup := by rw [hk]; exact hnd
                reg := by rw [hk]; exact hreg'
                comps := by
                  rw [post.comps, hk]
                  congr 1
                  exact toList_eq_sortedIds _ _ _
                    (fun c hc => mask_ofList_iff (by have := H.cinv.kindsLe; omega) c hc)
                vals := by
                  intro cv hcv
                  obtain ⟨v, hv, hval⟩ := mem_writeComps hcv
                  simp only [zeros, List.mem_map] at hv
                  obtain ⟨c, hc, hcv'⟩ := hv
                  injection hcv' with h1 h2
                  rw [← h1] at hval ⊢
                  rw [post.vals c hc, hval, ← h2, H.zget] }
          · obtain ⟨_, ha, _, hnf, _, hsl⟩ := H.live_facts hx'
            obtain ⟨_, _, _, hs⟩ := post.live x hnf ha (List.getElem?_eq_some_iff.mp hsl).1
            exact (H.ok x cs hx').frame hs }
  · have hop := opNewEntity_dup run p ids vals s.w H.unlocked hb256 hnd
    exact stepGoal_rejected H hg (k := .alreadyHas) (by simp only [exec, hop])
      (fun hp => hnd hp.1)
      (fun _ => by
        have hn : ¬ (ids.Nodup ∧ ∀ c ∈ ids, c < s.ss.zst.length) := fun hp => hnd hp.1
        simp only [specStep, if_neg hn])

/-! ### `new0` -/

theorem sortedIds_nil (n : Nat) : sortedIds n [] = [] := by
  simp [sortedIds]

/-- the ghost pool history after a successful creation: the returned handle is fresh, the pool
    invariant continues with the tail of the free list -/
theorem HInv.fresh_get {s : St} {fl : List Nat} (H : HInv s fl) : (s.w.pool.get).2 ∉ s.issued := by
  have g := Pool.get_spec s.w.pool fl H.cinv.pool
  intro hm
  obtain ⟨_, sl, hsl, hle, hlt⟩ := H.ginv.issued_bound _ hm
  have hsl' : s.w.pool.ents[(s.w.pool.get).2.id]? = some sl := hsl
  rcases g.cases with ⟨a, _, _⟩ | ⟨_, b, sl', hsl'', hgen⟩
  · rw [a, List.getElem?_eq_none (Nat.le_refl _)] at hsl'; cases hsl'
  · have hmem : (s.w.pool.get).2.id ∈ fl := by rw [b]; exact List.mem_cons_self
    have := hlt hmem
    rw [hsl''] at hsl'
    have : sl' = sl := Option.some.inj hsl'
    subst this
    omega

/-- **creation step**: the world `w'` results from taking the handle `(s.w.pool.get).2` from the
    pool (`PlacedPost`-style facts), and the specification gets the new entry `cs` -/
theorem HInv.created {s : St} {fl : List Nat} (H : HInv s fl) {w' : World} {cs : Comps}
    (hc : CInv w' fl.tail) (hpool : w'.pool = (s.w.pool.get).1)
    (hl : w'.isLocked = s.w.isLocked) (hk : w'.kinds = s.w.kinds)
    (hmax : w'.maxComps = s.w.maxComps)
    (hlive : ∀ h : Ent, h.id ∉ fl → s.w.alive h = true → h.id < s.w.pool.ents.length →
      SameEnt s.w w' h.id)
    (hok : EntOK w' s.w.kinds.length (s.w.pool.get).2 cs) :
    HInv ⟨w', (s.w.pool.get).2 :: s.issued, ⟨((s.w.pool.get).2, cs) :: s.ss.ents, s.ss.zst⟩⟩
      fl.tail := by
  obtain ⟨fl1, g1⟩ := Pool.step_inv s.ps fl H.ginv .get
  have hps : s.ps.step .get =
      (⟨w', (s.w.pool.get).2 :: s.issued, ⟨((s.w.pool.get).2, cs) :: s.ss.ents, s.ss.zst⟩⟩ : St).ps := by
    show (⟨s.w.pool.get.1, _, _⟩ : Pool.PS) = ⟨w'.pool, _, _⟩
    rw [hpool]; rfl
  rw [hps] at g1
  have hfl : fl1 = fl.tail := g1.pinv.unique hc.pool
  subst hfl
  exact
    { cinv := hc
      ginv := g1
      unlocked := hl.trans H.unlocked
      nodup := List.nodup_cons.mpr ⟨H.fresh_get, H.nodup⟩
      zstEq := by show s.ss.zst = w'.kinds.map (·.zst); rw [hk]; exact H.zstEq
      maxc := hmax.trans H.maxc
      ok := by
        intro x cs' hx
        show EntOK w' w'.kinds.length x cs'
        rw [hk]
        rcases List.mem_cons.mp hx with heq | hx'
        · injection heq with h1 h2
          subst h1; subst h2
          exact hok
        · obtain ⟨_, ha, _, hnf, _, hsl⟩ := H.live_facts hx'
          exact (H.ok x cs' hx').frame (hlive x hnf ha (List.getElem?_eq_some_iff.mp hsl).1) }

theorem step_new0 (run : ProbeRunner) {s : St} {fl : List Nat} (H : HInv s fl)
    (hent : s.w.entities.length + 1 < 2 ^ 32) : StepGoal run s .new0 := by
  have hg : guard s .new0 = true := rfl
  obtain ⟨w', hop, post, hcomps⟩ := opNewEntity0_spec run H.cinv H.unlocked (H.hrows hent 0)
  have hex : exec run s.w .new0 = .ok (some (s.w.pool.get).2) w' := by
    simp only [exec, hop]
  have hstep : step run s .new0 =
      ⟨w', (s.w.pool.get).2 :: s.issued, ⟨((s.w.pool.get).2, []) :: s.ss.ents, s.ss.zst⟩⟩ := by
    rw [step_of_guard_nr hg rfl, hex]
    simp only [Res.state, retOf, specStep, Option.getD_some]
  refine ⟨⟨fl.tail, ?_⟩,
    by rw [hstep]; exact Nat.le_trans (Nat.le_of_eq post.tablesLen) (Nat.le_succ _),
    by rw [hstep]; exact post.entitiesLen,
    fun _ hnp => absurd trivial hnp, fun _ _ => ⟨_, _, hex⟩,
    by rw [hstep]; exact Or.inr (Or.inl post.pool)⟩
  rw [hstep]
  refine H.created post.cinv post.pool post.unlocked post.kinds post.maxComps
    (fun x hnf ha hxin => (post.live x hnf ha hxin).2.2.2) ?_
  exact
    { nodup := List.nodup_nil
      reg := by intro c hc; cases hc
      comps := by rw [hcomps]; show some [] = some (sortedIds _ []); rw [sortedIds_nil]
      vals := by intro cv hcv; cases hcv }

/-! ### `del` -/

theorem step_del (run : ProbeRunner) {s : St} {fl : List Nat} (H : HInv s fl) (e : Ent) :
    StepGoal run s (.del e) := by
  by_cases hg : guard s (.del e) = true
  case neg => exact stepGoal_no_guard H hg
  have hi : e ∈ s.issued := by simpa only [guard, decide_eq_true_eq] using hg
  cases ha : s.w.alive e with
  | false =>
    have hop := opRemoveEntity_dead run s.w H.unlocked e ha
    have hf := H.find_of_dead hi ha
    exact stepGoal_rejected H hg (k := .deadEntity) (by simp only [exec, hop])
      (by rintro ⟨cs, hcs⟩; rw [hf] at hcs; cases hcs) (fun _ => by simp only [specStep, hf])
  | true =>
    obtain ⟨cs, hf, hm⟩ := H.find_of_alive hi ha
    obtain ⟨_, _, h2, hnf, _, hsl⟩ := H.live_facts hm
    have hin := (List.getElem?_eq_some_iff.mp hsl).1
    obtain ⟨w', hop, post⟩ := opRemoveEntity_spec run H.cinv H.unlocked h2 hnf ha hin
    have hex : exec run s.w (.del e) = .ok none w' := by simp only [exec, hop]
    have hstep : step run s (.del e) = ⟨w', s.issued, ⟨del s.ss.ents e, s.ss.zst⟩⟩ := by
      rw [step_of_guard_nr hg rfl, hex]
      simp only [Res.state, retOf, specStep, hf]
    refine ⟨⟨e.id :: fl, ?_⟩, by rw [hstep]; exact Nat.le_trans (Nat.le_of_eq post.tablesLen) (Nat.le_succ _),
      by rw [hstep]; exact Nat.le_trans (Nat.le_of_eq post.entitiesLen) (Nat.le_succ _),
      fun _ hnp => absurd ⟨cs, hf⟩ hnp, fun _ _ => ⟨_, _, hex⟩,
      by rw [hstep]; exact Or.inr (Or.inr (Or.inl ⟨e, hsl, post.pool⟩))⟩
    rw [hstep]
    obtain ⟨fl1, g1⟩ := Pool.step_inv s.ps fl H.ginv (.recycle e)
    have hps : s.ps.step (.recycle e) = (⟨w', s.issued, ⟨del s.ss.ents e, s.ss.zst⟩⟩ : St).ps := by
      have hc : e ∈ s.ps.issued ∧ s.ps.p.alive e = true := ⟨hi, ha⟩
      simp only [Pool.PS.step, hc, and_self, if_true]
      show (⟨s.w.pool.recycle e, _, _⟩ : Pool.PS) = ⟨w'.pool, _, _⟩
      rw [post.pool, del_keys]; rfl
    rw [hps] at g1
    have hfl : fl1 = e.id :: fl := g1.pinv.unique post.cinv.pool
    subst hfl
    exact
      { cinv := post.cinv
        ginv := g1
        unlocked := post.unlocked.trans H.unlocked
        nodup := H.nodup
        zstEq := by show s.ss.zst = w'.kinds.map (·.zst); rw [post.kinds]; exact H.zstEq
        maxc := post.maxComps.trans H.maxc
        ok := by
          intro x cs' hx
          show EntOK w' w'.kinds.length x cs'
          rw [post.kinds]
          have hx' := mem_del hx
          have hne : x ≠ e := by
            rintro rfl
            have hk : x ∈ (del s.ss.ents x).map (·.1) := List.mem_map.mpr ⟨(x, cs'), hx, rfl⟩
            rw [del_keys] at hk
            exact List.Nodup.not_mem_erase H.ginv.live_nodup hk
          obtain ⟨_, hxa, _, hxnf, _, hxsl⟩ := H.live_facts hx'
          obtain ⟨_, _, hs⟩ := post.live x hxnf hxa (List.getElem?_eq_some_iff.mp hxsl).1 hne
          exact (H.ok x cs' hx').frame hs }

/-! ### `copy` -/

theorem step_copy (run : ProbeRunner) {s : St} {fl : List Nat} (H : HInv s fl)
    (hent : s.w.entities.length + 1 < 2 ^ 32) (e : Ent) : StepGoal run s (.copy e) := by
  by_cases hg : guard s (.copy e) = true
  case neg => exact stepGoal_no_guard H hg
  have hi : e ∈ s.issued := by simpa only [guard, decide_eq_true_eq] using hg
  cases ha : s.w.alive e with
  | false =>
    have hop := opCopyEntity_dead run s.w H.unlocked e ha
    have hf := H.find_of_dead hi ha
    exact stepGoal_rejected H hg (k := .deadEntity) (by simp only [exec, hop])
      (by rintro ⟨cs, hcs⟩; rw [hf] at hcs; cases hcs) (fun _ => by simp only [specStep, hf])
  | true =>
    obtain ⟨cs, hf, hm⟩ := H.find_of_alive hi ha
    obtain ⟨_, _, h2, hnf, _, hsl⟩ := H.live_facts hm
    have hin := (List.getElem?_eq_some_iff.mp hsl).1
    have ok := H.ok e cs hm
    obtain ⟨w', hop, post⟩ := opCopyEntity_spec run H.cinv H.unlocked h2 hnf ha hin (H.hrows hent)
    have hex : exec run s.w (.copy e) = .ok (some (s.w.pool.get).2) w' := by
      simp only [exec, hop]
    have hstep : step run s (.copy e) =
        ⟨w', (s.w.pool.get).2 :: s.issued, ⟨((s.w.pool.get).2, cs) :: s.ss.ents, s.ss.zst⟩⟩ := by
      rw [step_of_guard_nr hg rfl, hex]
      simp only [Res.state, retOf, specStep, hf, Option.getD_some]
    refine ⟨⟨fl.tail, ?_⟩,
      by rw [hstep]; exact Nat.le_trans (Nat.le_of_eq post.tablesLen) (Nat.le_succ _),
      by rw [hstep]; exact post.entitiesLen,
      fun _ hnp => absurd ⟨cs, hf⟩ hnp, fun _ _ => ⟨_, _, hex⟩,
      by rw [hstep]; exact Or.inr (Or.inl post.pool)⟩
    rw [hstep]
    refine H.created post.cinv post.pool post.unlocked post.kinds post.maxComps
      (fun x hxf hxa hxin => (post.live x hxf hxa hxin).2.2.2) ?_
    exact
      { nodup := ok.nodup
        reg := ok.reg
        comps := by rw [post.comps]; exact ok.comps
        vals := fun cv hcv => by rw [post.vals]; exact ok.vals cv hcv }

/-! ### `shrink` -/

theorem step_shrink (run : ProbeRunner) {s : St} {fl : List Nat} (H : HInv s fl)
    (hent : s.w.entities.length + 1 < 2 ^ 32) (bounded : Bool) :
    StepGoal run s (.shrink bounded) := by
  have hg : guard s (.shrink bounded) = true := rfl
  obtain ⟨b, w', hop, post⟩ := opShrink_spec H.cinv H.unlocked (H.hrows hent) bounded
  have hex : exec run s.w (.shrink bounded) = .ok none w' := by simp only [exec, hop]
  have hstep : step run s (.shrink bounded) = ⟨w', s.issued, s.ss⟩ := by
    rw [step_of_guard_nr hg rfl, hex]
    simp only [Res.state, retOf, specStep]
  refine ⟨⟨fl, ?_⟩,
    by rw [hstep]; exact Nat.le_trans (Nat.le_of_eq post.tablesLen) (Nat.le_succ _),
    by rw [hstep]; show w'.entities.length ≤ _; rw [post.entities]; exact Nat.le_succ _,
    fun _ hnp => absurd trivial hnp, fun _ _ => ⟨_, _, hex⟩,
    by rw [hstep]; exact Or.inl post.pool⟩
  rw [hstep]
  exact
    { cinv := post.cinv
      ginv := by
        have : (⟨w', s.issued, s.ss⟩ : St).ps = s.ps := by simp only [St.ps, post.pool]
        rw [this]; exact H.ginv
      unlocked := post.unlocked.trans H.unlocked
      nodup := H.nodup
      zstEq := by show s.ss.zst = w'.kinds.map (·.zst); rw [post.kinds]; exact H.zstEq
      maxc := post.maxComps.trans H.maxc
      ok := by
        intro x cs hx
        show EntOK w' w'.kinds.length x cs
        rw [post.kinds]
        exact (H.ok x cs hx).frame (post.same x.id) }

/-! ### `reset` -/

/-- the ghost pool history of a new epoch: nothing issued, nothing live -/
theorem ginv_reset {p : Pool} {fl : List Nat} (h : Pool.PInv p fl) :
    Pool.GInv ⟨p.reset, [], []⟩ [] := by
  have hl : (p.ents.take Pool.reserved).length = 2 := by
    rw [List.length_take]; have := h.len2; show min 2 _ = 2; omega
  refine ⟨h.reset, ?_, List.nodup_nil, (fun x hx => by cases hx), (fun x hx => by cases hx), ?_⟩
  · intro x
    constructor
    · intro hx; cases hx
    · rintro ⟨h2, _, hs⟩
      have hs' : (p.ents.take Pool.reserved)[x.id]? = some x := hs
      have := (List.getElem?_eq_some_iff.mp hs').1
      omega
  · show (p.ents.take Pool.reserved).length = 2 + 0 + 0
    omega

theorem step_reset (run : ProbeRunner) {s : St} {fl : List Nat} (H : HInv s fl) :
    StepGoal run s .reset := by
  have hg : guard s .reset = true := rfl
  obtain ⟨w', hop, post⟩ := opReset_spec H.cinv H.unlocked
  have hex : exec run s.w .reset = .ok none w' := by simp only [exec, hop]
  have hstep : step run s .reset = ⟨w', [], ⟨[], s.ss.zst⟩⟩ := by
    rw [step_of_guard hg, hex]
    simp only [Res.state, issuedAfter, Op.isReset, if_true, specStep]
  have h2 : 2 ≤ s.w.entities.length := by rw [H.cinv.lenEq]; exact H.cinv.pool.len2
  refine ⟨⟨[], ?_⟩,
    by rw [hstep]; exact Nat.le_trans (Nat.le_of_eq post.tablesLen) (Nat.le_succ _),
    by rw [hstep]; show w'.entities.length ≤ _; rw [post.entitiesLen]; omega,
    fun _ hnp => absurd trivial hnp, fun _ _ => ⟨_, _, hex⟩,
    by rw [hstep]; exact Or.inr (Or.inr (Or.inr post.pool))⟩
  rw [hstep]
  exact
    { cinv := post.cinv
      ginv := by
        show Pool.GInv ⟨w'.pool, [], []⟩ []
        rw [post.pool]; exact ginv_reset H.cinv.pool
      unlocked := post.unlocked
      nodup := List.nodup_nil
      zstEq := by show s.ss.zst = w'.kinds.map (·.zst); rw [post.kinds]; exact H.zstEq
      maxc := post.maxComps.trans H.maxc
      ok := by intro x cs hx; cases hx }

/-! ### `add` -/

theorem keys_append (a b : Comps) : keys (a ++ b) = keys a ++ keys b := by
  simp only [keys, List.map_append]

theorem step_add (run : ProbeRunner) {s : St} {fl : List Nat} (H : HInv s fl)
    (hfew : s.w.tables.length < maxU32) (hent : s.w.entities.length + 1 < 2 ^ 32)
    (p : Path) (e : Ent) (ids : List Comp) (vals : Comps) : StepGoal run s (.add p e ids vals) := by
  by_cases hg : guard s (.add p e ids vals) = true
  case neg => exact stepGoal_no_guard H hg
  have hg' : e ∈ s.issued ∧ ∀ c ∈ ids, c < s.ss.zst.length := by
    simpa only [guard, Bool.and_eq_true, List.all_eq_true, decide_eq_true_eq] using hg
  obtain ⟨hi, hreg⟩ := hg'
  have hreg' : ∀ (c : Comp), c ∈ ids → c < s.w.kinds.length := by rw [← H.zlen]; exact hreg
  have hb256 : ∀ (c : Comp), c ∈ ids → c < 256 := fun c hc => H.cinv.reg_lt_256 (hreg' c hc)
  cases ha : s.w.alive e with
  | false =>
    have hop := opAdd_dead_any run p e ids vals s.w H.unlocked ha
    have hf := H.find_of_dead hi ha
    exact stepGoal_rejected H hg (k := .deadEntity) (by simp only [exec, hop])
      (by rintro ⟨cs, hcs, _⟩; rw [hf] at hcs; cases hcs) (fun _ => by simp only [specStep, hf])
  | true =>
    obtain ⟨cs, hf, hm⟩ := H.find_of_alive hi ha
    obtain ⟨_, _, h2, hnf, _, hsl⟩ := H.live_facts hm
    have hin := (List.getElem?_eq_some_iff.mp hsl).1
    have ok := H.ok e cs hm
    by_cases hv : ids ≠ [] ∧ ids.Nodup ∧ ∀ c ∈ ids, c < s.ss.zst.length ∧ c ∉ keys cs
    · obtain ⟨hne, hnd, hall⟩ := hv
      have hnew : ∀ (c : Comp), c ∈ ids → (s.w.maskOf e).get c = false := by
        intro c hc
        cases hgc : (s.w.maskOf e).get c with
        | false => rfl
        | true => exact absurd ((H.mask_iff hm c).mp hgc) (hall c hc).2
      obtain ⟨w', hop, post⟩ := opAdd_spec run p H.cinv H.unlocked h2 hnf ha hin hne hnd hreg'
        hnew vals hfew (H.hrows hent)
      have hex : exec run s.w (.add p e ids vals) = .ok none w' := by simp only [exec, hop]
      have hstep : step run s (.add p e ids vals) =
          ⟨w', s.issued, ⟨upd s.ss.ents e fun cs => writeComps s.ss.zst vals (cs ++ zeros ids),
            s.ss.zst⟩⟩ := by
        rw [step_of_guard_nr hg rfl, hex]
        simp only [Res.state, retOf, specStep, hf, if_pos (And.intro hne (And.intro hnd hall))]
      refine ⟨⟨fl, ?_⟩, by rw [hstep]; exact post.tablesLen,
        by rw [hstep]; exact Nat.le_trans (Nat.le_of_eq post.entitiesLen) (Nat.le_succ _),
        fun _ hnp => absurd ⟨cs, hf, hne, hnd, hall⟩ hnp, fun _ _ => ⟨_, _, hex⟩,
        by rw [hstep]; exact Or.inl post.pool⟩
      rw [hstep]
      have hk : keys (writeComps s.ss.zst vals (cs ++ zeros ids)) = keys cs ++ ids := by
        rw [keys_writeComps, keys_append, keys_zeros]
      refine H.update hm _ post.cinv post.pool post.unlocked post.kinds post.maxComps post.frame ?_
      exact
        { nodup := by
            rw [hk]
            exact List.nodup_append.mpr ⟨ok.nodup, hnd, fun a ha b hb hab => (hall b hb).2 (hab ▸ ha)⟩
          reg := by
            rw [hk]
            intro c hc
            rcases List.mem_append.mp hc with h1 | h1
            · exact ok.reg c h1
            · exact hreg' c h1
          comps := by
            rw [post.comps, hk]
            congr 1
            apply toList_eq_sortedIds
            intro c hc
            have hc256 : c < 256 := by have := H.cinv.kindsLe; omega
            rw [Mask.get_ofList_foldl, List.mem_append, Bool.or_eq_true, H.mask_iff hm c]
            simp [hc256]
          vals := by
            intro cv hcv
            obtain ⟨v, hv, hval⟩ := mem_writeComps hcv
            rcases List.mem_append.mp hv with h1 | h1
            · have hkey : cv.1 ∈ keys cs := List.mem_map.mpr ⟨(cv.1, v), h1, rfl⟩
              rw [post.kept cv.1 v ((H.mask_iff hm cv.1).mpr hkey) (ok.vals (cv.1, v) h1), hval, H.zget]
            · simp only [zeros, List.mem_map] at h1
              obtain ⟨c, hc, hcv'⟩ := h1
              injection hcv' with h3 h4
              rw [← h3] at hval ⊢
              rw [post.added c hc, hval, ← h4, H.zget] }
    · have hpanic : ∃ k, opAdd run p e ids vals [] s.w = .panic k s.w := by
        by_cases hne : ids = []
        · subst hne
          exact ⟨_, opAdd_panic run _ e [] vals s.w ha (addCore_noComponents s.w H.unlocked e ha [])⟩
        · refine ⟨_, opAdd_panic run _ e ids vals s.w ha
            (addCore_alreadyHas e ids [] s.w H.unlocked ha hne hb256 ?_)⟩
          rintro ⟨hnd, hnew⟩
          refine hv ⟨hne, hnd, fun c hc => ⟨hreg c hc, fun hk => ?_⟩⟩
          have := (H.mask_iff hm c).mpr hk
          rw [hnew c hc] at this; cases this
      obtain ⟨k, hop⟩ := hpanic
      exact stepGoal_rejected H hg (k := k) (by simp only [exec, hop])
        (by
          rintro ⟨cs', hcs', hp⟩
          rw [hf] at hcs'
          rw [← Option.some.inj hcs'] at hp
          exact hv hp)
        (fun _ => by simp only [specStep, hf, if_neg hv])

/-! ### `rem` -/

theorem mem_keys_filter {cs : Comps} {ids : List Comp} {c : Comp} :
    c ∈ keys (cs.filter fun cv => decide (cv.1 ∉ ids)) ↔ c ∈ keys cs ∧ c ∉ ids := by
  simp only [keys, List.mem_map, List.mem_filter, decide_eq_true_eq]
  constructor
  · rintro ⟨cv, ⟨h1, h2⟩, rfl⟩
    exact ⟨⟨cv, h1, rfl⟩, h2⟩
  · rintro ⟨⟨cv, h1, rfl⟩, h2⟩
    exact ⟨cv, ⟨h1, h2⟩, rfl⟩

theorem step_rem (run : ProbeRunner) {s : St} {fl : List Nat} (H : HInv s fl)
    (hfew : s.w.tables.length < maxU32) (hent : s.w.entities.length + 1 < 2 ^ 32)
    (p : Path) (e : Ent) (ids : List Comp) : StepGoal run s (.rem p e ids) := by
  by_cases hg : guard s (.rem p e ids) = true
  case neg => exact stepGoal_no_guard H hg
  have hi : e ∈ s.issued := by simpa only [guard, decide_eq_true_eq] using hg
  cases ha : s.w.alive e with
  | false =>
    have hop := opRemove_dead_any run p e ids s.w H.unlocked ha
    have hf := H.find_of_dead hi ha
    exact stepGoal_rejected H hg (k := .deadEntity) (by simp only [exec, hop])
      (by rintro ⟨cs, hcs, _⟩; rw [hf] at hcs; cases hcs) (fun _ => by simp only [specStep, hf])
  | true =>
    obtain ⟨cs, hf, hm⟩ := H.find_of_alive hi ha
    obtain ⟨_, _, h2, hnf, _, hsl⟩ := H.live_facts hm
    have hin := (List.getElem?_eq_some_iff.mp hsl).1
    have ok := H.ok e cs hm
    by_cases hv : ids ≠ [] ∧ ids.Nodup ∧ ∀ c ∈ ids, c ∈ keys cs
    · obtain ⟨hne, hnd, hall⟩ := hv
      have hpres : ∀ (c : Comp), c ∈ ids → (s.w.maskOf e).get c = true :=
        fun c hc => (H.mask_iff hm c).mpr (hall c hc)
      obtain ⟨w', hop, post⟩ := opRemove_spec run p H.cinv H.unlocked h2 hnf ha hin hne hnd
        hpres hfew (H.hrows hent)
      have hex : exec run s.w (.rem p e ids) = .ok none w' := by simp only [exec, hop]
      have hstep : step run s (.rem p e ids) =
          ⟨w', s.issued, ⟨upd s.ss.ents e fun cs => cs.filter fun cv => decide (cv.1 ∉ ids),
            s.ss.zst⟩⟩ := by
        rw [step_of_guard_nr hg rfl, hex]
        simp only [Res.state, retOf, specStep, hf, if_pos (And.intro hne (And.intro hnd hall))]
      refine ⟨⟨fl, ?_⟩, by rw [hstep]; exact post.tablesLen,
        by rw [hstep]; exact Nat.le_trans (Nat.le_of_eq post.entitiesLen) (Nat.le_succ _),
        fun _ hnp => absurd ⟨cs, hf, hne, hnd, hall⟩ hnp, fun _ _ => ⟨_, _, hex⟩,
        by rw [hstep]; exact Or.inl post.pool⟩
      rw [hstep]
      refine H.update hm _ post.cinv post.pool post.unlocked post.kinds post.maxComps post.frame ?_
      exact
        { nodup := List.Nodup.sublist (List.Sublist.map _ List.filter_sublist) ok.nodup
          reg := fun c hc => ok.reg c (mem_keys_filter.mp hc).1
          comps := by
            rw [post.comps]
            congr 1
            apply toList_eq_sortedIds
            intro c _
            rw [Mask.get_foldl_clear, mem_keys_filter, Bool.and_eq_true, H.mask_iff hm c]
            simp
          vals := by
            intro cv hcv
            obtain ⟨h1, h3⟩ := List.mem_filter.mp hcv
            have hnot : cv.1 ∉ ids := by simpa using h3
            have hkey : cv.1 ∈ keys cs := List.mem_map.mpr ⟨cv, h1, rfl⟩
            rw [post.kept cv.1 ((H.mask_iff hm cv.1).mpr hkey) hnot]
            exact ok.vals cv h1 }
    · have hpanic : ∃ k, opRemove run p e ids s.w = .panic k s.w := by
        rw [opRemove_eq run _ e ids s.w ha]
        by_cases hne : ids = []
        · subst hne
          exact ⟨_, removeCore_noComponents run s.w H.unlocked e ha⟩
        · refine ⟨_, removeCore_missing run e ids s.w H.unlocked ha hne ?_⟩
          rintro ⟨hnd, hp⟩
          exact hv ⟨hne, hnd, fun c hc => (H.mask_iff hm c).mp (hp c hc)⟩
      obtain ⟨k, hop⟩ := hpanic
      exact stepGoal_rejected H hg (k := k) (by simp only [exec, hop])
        (by
          rintro ⟨cs', hcs', hp⟩
          rw [hf] at hcs'
          rw [← Option.some.inj hcs'] at hp
          exact hv hp)
        (fun _ => by simp only [specStep, hf, if_neg hv])

/-! ### `xchg` -/

theorem step_xchg (run : ProbeRunner) {s : St} {fl : List Nat} (H : HInv s fl)
    (hfew : s.w.tables.length < maxU32) (hent : s.w.entities.length + 1 < 2 ^ 32)
    (p : Path) (e : Ent) (add rem : List Comp) (vals : Comps) :
    StepGoal run s (.xchg p e add rem vals) := by
  by_cases hg : guard s (.xchg p e add rem vals) = true
  case neg => exact stepGoal_no_guard H hg
  have hg' : e ∈ s.issued ∧ ∀ c ∈ add, c < s.ss.zst.length := by
    simpa only [guard, Bool.and_eq_true, List.all_eq_true, decide_eq_true_eq] using hg
  obtain ⟨hi, hreg⟩ := hg'
  have hreg' : ∀ (c : Comp), c ∈ add → c < s.w.kinds.length := by rw [← H.zlen]; exact hreg
  have hb256 : ∀ (c : Comp), c ∈ add → c < 256 := fun c hc => H.cinv.reg_lt_256 (hreg' c hc)
  cases ha : s.w.alive e with
  | false =>
    have hop := opExchange_dead_any run p e add vals rem s.w H.unlocked ha
    have hf := H.find_of_dead hi ha
    exact stepGoal_rejected H hg (k := .deadEntity) (by simp only [exec, hop])
      (by rintro ⟨cs, hcs, _⟩; rw [hf] at hcs; cases hcs) (fun _ => by simp only [specStep, hf])
  | true =>
    obtain ⟨cs, hf, hm⟩ := H.find_of_alive hi ha
    obtain ⟨_, _, h2, hnf, _, hsl⟩ := H.live_facts hm
    have hin := (List.getElem?_eq_some_iff.mp hsl).1
    have ok := H.ok e cs hm
    by_cases hv : XchgOK s.ss.zst.length cs add rem
    · obtain ⟨hne, hrnd, hrall, hand, hall⟩ := hv
      have hpres : ∀ (c : Comp), c ∈ rem → (s.w.maskOf e).get c = true :=
        fun c hc => (H.mask_iff hm c).mpr (hrall c hc)
      have hnew : ∀ (c : Comp), c ∈ add → (s.w.maskOf e).get c = false := by
        intro c hc
        cases hgc : (s.w.maskOf e).get c with
        | false => rfl
        | true => exact absurd ((H.mask_iff hm c).mp hgc) (hall c hc).2
      obtain ⟨w', hop, post⟩ := opExchange_spec run p H.cinv H.unlocked h2 hnf ha hin hne hrnd hpres
        hand hreg' hnew vals hfew (H.hrows hent)
      have hex : exec run s.w (.xchg p e add rem vals) = .ok none w' := by simp only [exec, hop]
      have hv' : XchgOK s.ss.zst.length cs add rem := ⟨hne, hrnd, hrall, hand, hall⟩
      have hstep : step run s (.xchg p e add rem vals) =
          ⟨w', s.issued, ⟨upd s.ss.ents e fun cs =>
            writeComps s.ss.zst vals ((cs.filter fun cv => decide (cv.1 ∉ rem)) ++ zeros add),
            s.ss.zst⟩⟩ := by
        rw [step_of_guard_nr hg rfl, hex]
        simp only [Res.state, retOf, specStep, hf, if_pos hv']
      refine ⟨⟨fl, ?_⟩, by rw [hstep]; exact post.tablesLen,
        by rw [hstep]; exact Nat.le_trans (Nat.le_of_eq post.entitiesLen) (Nat.le_succ _),
        fun _ hnp => absurd ⟨cs, hf, hv'⟩ hnp, fun _ _ => ⟨_, _, hex⟩,
        by rw [hstep]; exact Or.inl post.pool⟩
      rw [hstep]
      have hk : keys (writeComps s.ss.zst vals
          ((cs.filter fun cv => decide (cv.1 ∉ rem)) ++ zeros add)) =
          keys (cs.filter fun cv => decide (cv.1 ∉ rem)) ++ add := by
        rw [keys_writeComps, keys_append, keys_zeros]
      refine H.update hm _ post.cinv post.pool post.unlocked post.kinds post.maxComps post.frame ?_
      exact
        { nodup := by
            rw [hk]
            exact List.nodup_append.mpr
              ⟨List.Nodup.sublist (List.Sublist.map _ List.filter_sublist) ok.nodup, hand,
                fun a ha b hb hab => (hall b hb).2 (hab ▸ (mem_keys_filter.mp ha).1)⟩
          reg := by
            rw [hk]
            intro c hc
            rcases List.mem_append.mp hc with h1 | h1
            · exact ok.reg c (mem_keys_filter.mp h1).1
            · exact hreg' c h1
          comps := by
            rw [post.comps, hk]
            congr 1
            apply toList_eq_sortedIds
            intro c hc
            have hc256 : c < 256 := by have := H.cinv.kindsLe; omega
            rw [Mask.get_ofList_foldl, Mask.get_foldl_clear, List.mem_append, mem_keys_filter,
              Bool.or_eq_true, Bool.and_eq_true, H.mask_iff hm c]
            simp [hc256]
          vals := by
            intro cv hcv
            obtain ⟨v, hv, hval⟩ := mem_writeComps hcv
            rcases List.mem_append.mp hv with h1 | h1
            · obtain ⟨h1, h3⟩ := List.mem_filter.mp h1
              have hnot : cv.1 ∉ rem := by simpa using h3
              have hkey : cv.1 ∈ keys cs := List.mem_map.mpr ⟨(cv.1, v), h1, rfl⟩
              rw [post.kept cv.1 v ((H.mask_iff hm cv.1).mpr hkey) hnot (ok.vals (cv.1, v) h1),
                hval, H.zget]
            · simp only [zeros, List.mem_map] at h1
              obtain ⟨c, hc, hcv'⟩ := h1
              injection hcv' with h3 h4
              rw [← h3] at hval ⊢
              rw [post.added c hc, hval, ← h4, H.zget] }
    · have hpanic : ∃ k, opExchange run p e add vals rem [] s.w = .panic k s.w := by
        by_cases hne : add = [] ∧ rem = []
        · obtain ⟨rfl, rfl⟩ := hne
          exact ⟨_, opExchange_panic run _ e [] vals [] s.w ha
            (exchangeCore_noComponents run s.w H.unlocked e ha [])⟩
        · obtain ⟨k, _, hk⟩ := exchangeCore_reject run e add rem [] s.w H.unlocked ha hne hb256 (by
            rintro ⟨hrnd, hpres, hand, hnew⟩
            refine hv ⟨hne, hrnd, fun c hc => (H.mask_iff hm c).mp (hpres c hc), hand,
              fun c hc => ⟨hreg c hc, fun hk => ?_⟩⟩
            have := (H.mask_iff hm c).mpr hk
            rw [hnew c hc] at this; cases this)
          exact ⟨k, opExchange_panic run _ e add vals rem s.w ha hk⟩
      obtain ⟨k, hop⟩ := hpanic
      exact stepGoal_rejected H hg (k := k) (by simp only [exec, hop])
        (by
          rintro ⟨cs', hcs', hp⟩
          rw [hf] at hcs'
          rw [← Option.some.inj hcs'] at hp
          exact hv hp)
        (fun _ => by simp only [specStep, hf, if_neg hv])

/-! ### `set` -/

theorem step_set (run : ProbeRunner) {s : St} {fl : List Nat} (H : HInv s fl)
    (e : Ent) (vals : Comps) : StepGoal run s (.set e vals) := by
  by_cases hg : guard s (.set e vals) = true
  case neg => exact stepGoal_no_guard H hg
  have hi : e ∈ s.issued := by simpa only [guard, decide_eq_true_eq] using hg
  cases ha : s.w.alive e with
  | false =>
    have hop := World.opSet_dead run s.w e ha (keys vals) vals
    have hf := H.find_of_dead hi ha
    exact stepGoal_rejected H hg (k := .deadEntity) (by simp only [exec, hop])
      (by rintro ⟨cs, hcs, _⟩; rw [hf] at hcs; cases hcs) (fun _ => by simp only [specStep, hf])
  | true =>
    obtain ⟨cs, hf, hm⟩ := H.find_of_alive hi ha
    obtain ⟨_, _, h2, hnf, _, hsl⟩ := H.live_facts hm
    have hin := (List.getElem?_eq_some_iff.mp hsl).1
    have ok := H.ok e cs hm
    have hiff : (∀ (c : Comp), c ∈ keys vals → (s.w.maskOf e).get c = true) ↔
        ∀ cv ∈ vals, cv.1 ∈ keys cs := by
      constructor
      · intro hh cv hcv
        exact (H.mask_iff hm cv.1).mp (hh cv.1 (List.mem_map.mpr ⟨cv, hcv, rfl⟩))
      · intro hh c hc
        obtain ⟨cv, hcv, rfl⟩ := List.mem_map.mp hc
        exact (H.mask_iff hm cv.1).mpr (hh cv hcv)
    by_cases hv : ∀ cv ∈ vals, cv.1 ∈ keys cs
    · obtain ⟨w', hop, post⟩ := opSet_spec_c run H.cinv h2 hnf ha hin (hiff.mpr hv) vals
      have hex : exec run s.w (.set e vals) = .ok none w' := by simp only [exec, hop]
      have hstep : step run s (.set e vals) =
          ⟨w', s.issued, ⟨upd s.ss.ents e (writeComps s.ss.zst vals), s.ss.zst⟩⟩ := by
        rw [step_of_guard_nr hg rfl, hex]
        simp only [Res.state, retOf, specStep, hf, if_pos hv]
      refine ⟨⟨fl, ?_⟩,
        by rw [hstep]; exact Nat.le_trans (Nat.le_of_eq post.tablesLen) (Nat.le_succ _),
        by rw [hstep]; exact Nat.le_trans (Nat.le_of_eq post.entitiesLen) (Nat.le_succ _),
        fun _ hnp => absurd ⟨cs, hf, hv⟩ hnp, fun _ _ => ⟨_, _, hex⟩,
        by rw [hstep]; exact Or.inl post.pool⟩
      rw [hstep]
      refine H.update hm _ post.cinv post.pool post.unlocked post.kinds post.maxComps post.frame ?_
      exact
        { nodup := by rw [keys_writeComps]; exact ok.nodup
          reg := by rw [keys_writeComps]; exact ok.reg
          comps := by rw [post.comps, keys_writeComps]; exact ok.comps
          vals := by
            intro cv hcv
            obtain ⟨v, hv', hval⟩ := mem_writeComps hcv
            rw [post.vals cv.1 v (ok.vals (cv.1, v) hv'), hval, H.zget] }
    · have hop := opSet_missing_c run H.cinv h2 hnf ha hin (ids := keys vals)
        (fun hh => hv (hiff.mp hh)) vals
      exact stepGoal_rejected H hg (k := .missing) (by simp only [exec, hop])
        (by
          rintro ⟨cs', hcs', hp⟩
          rw [hf] at hcs'
          rw [← Option.some.inj hcs'] at hp
          exact hv hp)
        (fun _ => by simp only [specStep, hf, if_neg hv])

/-! ### all steps, all histories -/

theorem step_goal (run : ProbeRunner) {s : St} {fl : List Nat} (H : HInv s fl)
    (hfew : s.w.tables.length < maxU32) (hent : s.w.entities.length + 1 < 2 ^ 32) (op : Op) :
    StepGoal run s op := by
  cases op with
  | reg size z => exact step_reg run H size z
  | new p ids vals => exact step_new run H hfew hent p ids vals
  | new0 => exact step_new0 run H hent
  | add p e ids vals => exact step_add run H hfew hent p e ids vals
  | rem p e ids => exact step_rem run H hfew hent p e ids
  | xchg p e add rem vals => exact step_xchg run H hfew hent p e add rem vals
  | set e vals => exact step_set run H e vals
  | del e => exact step_del run H e
  | copy e => exact step_copy run H hent e
  | shrink bounded => exact step_shrink run H hent bounded
  | reset => exact step_reset run H

/-- the invariant holds after every history that stays within the size bounds; every operation
    creates at most one table and one index slot -/
theorem run_inv (run : ProbeRunner) (ops : List Op) : ∀ (s : St) (fl : List Nat), HInv s fl →
    s.w.tables.length + ops.length ≤ maxU32 → s.w.entities.length + ops.length < 2 ^ 32 →
    ∃ fl', HInv (runOps run s ops) fl' ∧
      (runOps run s ops).w.tables.length ≤ s.w.tables.length + ops.length ∧
      (runOps run s ops).w.entities.length ≤ s.w.entities.length + ops.length := by
  induction ops with
  | nil => intro s fl h _ _; exact ⟨fl, h, Nat.le_refl _, Nat.le_refl _⟩
  | cons op ops ih =>
    intro s fl h hb1 hb2
    simp only [List.length_cons] at hb1 hb2 ⊢
    obtain ⟨⟨fl1, h1⟩, g1, g2, _, _⟩ := step_goal run h (by omega) (by omega) op
    obtain ⟨fl2, h2, b1, b2⟩ := ih _ fl1 h1 (by omega) (by omega)
    refine ⟨fl2, h2, ?_, ?_⟩
    · show (runOps run (step run s op) ops).w.tables.length ≤ _; omega
    · show (runOps run (step run s op) ops).w.entities.length ≤ _; omega

theorem reach_hinv (run : ProbeRunner) (cap rel : Nat) (ops : List Op)
    (hlen : ops.length < 2 ^ 32 - 2) : ∃ fl, HInv (reach run cap rel ops) fl := by
  obtain ⟨fl, h, _⟩ := run_inv run ops _ [] (hinv_init cap rel)
    (by show 1 + ops.length ≤ maxU32; simp only [maxU32]; omega)
    (by show 2 + ops.length < 2 ^ 32; omega)
  exact ⟨fl, h⟩

/-- at most one table and one index slot per operation -/
theorem reach_bounds (run : ProbeRunner) (cap rel : Nat) (ops : List Op)
    (hlen : ops.length < 2 ^ 32 - 2) :
    (reach run cap rel ops).w.tables.length ≤ 1 + ops.length ∧
    (reach run cap rel ops).w.entities.length ≤ 2 + ops.length := by
  obtain ⟨fl, _, b1, b2⟩ := run_inv run ops _ [] (hinv_init cap rel)
    (by show 1 + ops.length ≤ maxU32; simp only [maxU32]; omega)
    (by show 2 + ops.length < 2 ^ 32; omega)
  exact ⟨b1, b2⟩

theorem reach_snoc (run : ProbeRunner) (cap rel : Nat) (ops : List Op) (op : Op) :
    reach run cap rel (ops ++ [op]) = step run (reach run cap rel ops) op := by
  simp only [reach, runOps, List.foldl_append, List.foldl_cons, List.foldl_nil]

/-! ### the access path does not matter -/

/-- the same operation through the access path `p` (operations without a path are unchanged) -/
def Op.withPath (p : Path) : Op → Op
  | .new _ ids vals => .new p ids vals
  | .add _ e ids vals => .add p e ids vals
  | .rem _ e ids => .rem p e ids
  | .xchg _ e adds rems vals => .xchg p e adds rems vals
  | op => op

/-- **any access path** — on an unlocked world without observers the model gives the same result
    (world, returned handle, or panic) whichever access path the operation takes -/
theorem exec_path_indep (run : ProbeRunner) (w : World) (hl : w.isLocked = false)
    (hno : ∀ evt : Nat, w.obs.hasObservers evt = false) (p : Path) (op : Op) :
    exec run w (op.withPath p) = exec run w op := by
  cases op with
  | new q ids vals => simp only [Op.withPath, exec, opNewEntity_path_indep run p q ids vals w hno]
  | add q e ids vals => simp only [Op.withPath, exec, opAdd_path_indep run p q e ids vals w hl hno]
  | rem q e ids => simp only [Op.withPath, exec, opRemove_path_indep run p q e ids w hl]
  | xchg q e add rem vals =>
    simp only [Op.withPath, exec, opExchange_path_indep run p q e add vals rem w hl hno]
  | reg _ _ => rfl
  | new0 => rfl
  | set _ _ => rfl
  | del _ => rfl
  | copy _ => rfl
  | shrink _ => rfl
  | reset => rfl

/-- … and so does the machine: specification step and guard do not look at the path -/
theorem step_path_indep (run : ProbeRunner) {s : St} {fl : List Nat} (H : HInv s fl) (p : Path)
    (op : Op) : step run s (op.withPath p) = step run s op := by
  have hex := exec_path_indep run s.w H.unlocked H.cinv.noObs p op
  have hgd : guard s (op.withPath p) = guard s op := by cases op <;> rfl
  have hsp : ∀ fresh, specStep s.ss fresh (op.withPath p) = specStep s.ss fresh op := by
    intro fresh; cases op <;> rfl
  have hir : (op.withPath p).isReset = op.isReset := by cases op <;> rfl
  have hia : ∀ r, issuedAfter s.issued (op.withPath p) r = issuedAfter s.issued op r := by
    intro r; cases r <;> simp only [issuedAfter, hir]
  simp only [step, hgd, hex, hsp, hia]

/-! ### generations are bounded by the length of the history -/

/-- no generation of a non-reserved pool slot exceeds `n` -/
def GenBound (n : Nat) (p : Pool) : Prop :=
  ∀ (i : Nat) (e : Ent), p.ents[i]? = some e → 2 ≤ i → e.gen ≤ n

theorem GenBound.step {n : Nat} {p p' : Pool} (h : GenBound n p) (hs : PoolStep p p') :
    GenBound (n + 1) p' := by
  rcases hs with rfl | rfl | ⟨x, hx, rfl⟩ | rfl
  · intro i e he h2; exact Nat.le_succ_of_le (h i e he h2)
  · intro i e he h2
    by_cases hav : p.available = 0
    · have hget : p.get = p.getNew := by simp [Pool.get, hav]
      rw [hget] at he
      simp only [Pool.getNew] at he
      rcases Nat.lt_or_ge i p.ents.length with h1 | h1
      · rw [List.getElem?_append_left h1] at he
        exact Nat.le_succ_of_le (h i e he h2)
      · rw [List.getElem?_append_right h1] at he
        cases hk : i - p.ents.length with
        | zero =>
          rw [hk] at he
          simp only [List.getElem?_cons_zero, Option.some.injEq] at he
          rw [← he]; exact Nat.zero_le _
        | succ k => rw [hk] at he; simp at he
    · have hget : p.get = p.getRecycled := by simp [Pool.get, hav]
      rw [hget] at he
      simp only [Pool.getRecycled] at he
      by_cases hi : p.next = i
      · have hlt : i < p.ents.length := by
          have := (List.getElem?_eq_some_iff.mp he).1
          simpa using this
        rw [hi, List.getElem?_set_self hlt] at he
        have hsl : p.ents[i]? = some (p.ents.getD i default) := by
          rw [List.getD_eq_getElem?_getD, List.getElem?_eq_getElem hlt]; rfl
        have := h i _ hsl h2
        rw [← Option.some.inj he]
        exact Nat.le_succ_of_le this
      · rw [List.getElem?_set_ne hi] at he
        exact Nat.le_succ_of_le (h i e he h2)
  · intro i e he h2
    simp only [Pool.recycle] at he
    by_cases hi : x.id = i
    · have hlt : i < p.ents.length := by
        have := (List.getElem?_eq_some_iff.mp he).1
        simpa using this
      rw [hi, List.getElem?_set_self hlt] at he
      have hgd : p.ents.getD i default = x := by
        rw [List.getD_eq_getElem?_getD, ← hi, hx]; rfl
      rw [← Option.some.inj he]
      show (p.ents.getD i default).gen + 1 ≤ n + 1
      rw [hgd]
      exact Nat.succ_le_succ (h x.id x hx (by rw [hi]; exact h2))
    · rw [List.getElem?_set_ne hi] at he
      exact Nat.le_succ_of_le (h i e he h2)
  · intro i e he h2
    have he' : (p.ents.take Pool.reserved)[i]? = some e := he
    have := (List.getElem?_eq_some_iff.mp he').1
    rw [List.length_take] at this
    have : i < 2 := Nat.lt_of_lt_of_le this (Nat.min_le_left _ _)
    omega

theorem run_genBound (run : ProbeRunner) (ops : List Op) : ∀ (s : St) (fl : List Nat) (n : Nat),
    HInv s fl → s.w.tables.length + ops.length ≤ maxU32 → s.w.entities.length + ops.length < 2 ^ 32 →
    GenBound n s.w.pool → GenBound (n + ops.length) (runOps run s ops).w.pool := by
  induction ops with
  | nil => intro s fl n _ _ _ hb; exact hb
  | cons op ops ih =>
    intro s fl n h hb1 hb2 hb
    simp only [List.length_cons] at hb1 hb2 ⊢
    obtain ⟨⟨fl1, h1⟩, g1, g2, _, _, hp⟩ := step_goal run h (by omega) (by omega) op
    have := ih _ fl1 (n + 1) h1 (by omega) (by omega) (hb.step hp)
    rw [show n + (ops.length + 1) = n + 1 + ops.length by omega]
    exact this

/-- after a history of `n` operations no generation exceeds `n`; in particular (the history bound)
    no handle that was issued carries the sentinel generation `maxU32` -/
theorem reach_genBound (run : ProbeRunner) (cap rel : Nat) (ops : List Op)
    (hlen : ops.length < 2 ^ 32 - 2) :
    GenBound ops.length (reach run cap rel ops).w.pool ∧
    ∀ h ∈ (reach run cap rel ops).issued, h.gen ≤ ops.length ∧ h.gen ≠ maxU32 := by
  have hb : GenBound ops.length (reach run cap rel ops).w.pool := by
    have := run_genBound run ops _ [] 0 (hinv_init cap rel)
      (by show 1 + ops.length ≤ maxU32; simp only [maxU32]; omega)
      (by show 2 + ops.length < 2 ^ 32; omega)
      (by
        intro i e he h2
        have he' : ([⟨0, maxU32⟩, ⟨1, maxU32⟩] : List Ent)[i]? = some e := he
        have := (List.getElem?_eq_some_iff.mp he').1
        simp only [List.length_cons, List.length_nil] at this
        omega)
    rw [Nat.zero_add] at this
    exact this
  refine ⟨hb, fun h hi => ?_⟩
  obtain ⟨fl, hinv⟩ := reach_hinv run cap rel ops hlen
  obtain ⟨h2, sl, hsl, hle, _⟩ := hinv.ginv.issued_bound h hi
  have := hb h.id sl hsl h2
  have hle' : h.gen ≤ ops.length := Nat.le_trans hle this
  refine ⟨hle', ?_⟩
  simp only [maxU32]
  omega

/-! ### specification-level facts: rejected steps, frame -/

/-- an operation whose precondition fails leaves the specification unchanged -/
theorem specStep_of_not_pre (ss : SS) (fresh : Ent) (op : Op) (h : ¬ pre ss op) :
    specStep ss fresh op = ss := by
  cases op with
  | reg size z => simp only [specStep]; exact if_neg h
  | new p ids vals => simp only [specStep]; exact if_neg h
  | new0 => exact absurd trivial h
  | add p e ids vals =>
    simp only [specStep]
    cases hf : find ss.ents e with
    | none => rfl
    | some cs => exact if_neg (fun hv => h ⟨cs, hf, hv⟩)
  | rem p e ids =>
    simp only [specStep]
    cases hf : find ss.ents e with
    | none => rfl
    | some cs => exact if_neg (fun hv => h ⟨cs, hf, hv⟩)
  | xchg p e add rem vals =>
    simp only [specStep]
    cases hf : find ss.ents e with
    | none => rfl
    | some cs => exact if_neg (fun hv => h ⟨cs, hf, hv⟩)
  | set e vals =>
    simp only [specStep]
    cases hf : find ss.ents e with
    | none => rfl
    | some cs => exact if_neg (fun hv => h ⟨cs, hf, hv⟩)
  | del e =>
    simp only [specStep]
    cases hf : find ss.ents e with
    | none => rfl
    | some cs => exact absurd ⟨cs, hf⟩ h
  | copy e =>
    simp only [specStep]
    cases hf : find ss.ents e with
    | none => rfl
    | some cs => exact absurd ⟨cs, hf⟩ h
  | shrink bounded => rfl
  | reset => exact absurd trivial h

/-- the entity an operation is about (`fresh` = the handle a successful `new` returns) -/
def target (fresh : Ent) : Op → Option Ent
  | .reg _ _ => none
  | .new _ _ _ => some fresh
  | .new0 => some fresh
  | .add _ e _ _ => some e
  | .rem _ e _ => some e
  | .xchg _ e _ _ _ => some e
  | .set e _ => some e
  | .del e => some e
  | .copy _ => some fresh
  | .shrink _ => none
  | .reset => none

/-- **frame** (specification): the step for an operation on `e` changes only `e`'s entry
    (`Reset`, the one operation about the whole world, is excluded) -/
theorem specStep_frame (ss : SS) (fresh : Ent) (op : Op) (x : Ent) (hr : op.isReset = false)
    (hx : target fresh op ≠ some x) : find (specStep ss fresh op).ents x = find ss.ents x := by
  cases op with
  | reg size z => simp only [specStep]; split <;> rfl
  | new p ids vals =>
    have hne : fresh ≠ x := fun hh => hx (by rw [hh]; rfl)
    simp only [specStep]
    split
    · simp only [find, if_neg hne]
    · rfl
  | new0 =>
    have hne : fresh ≠ x := fun hh => hx (by rw [hh]; rfl)
    simp only [specStep, find, if_neg hne]
  | add p e ids vals =>
    have hne : x ≠ e := fun hh => hx (by rw [hh]; rfl)
    simp only [specStep]
    cases find ss.ents e with
    | none => rfl
    | some cs =>
      simp only
      split
      · dsimp only
        exact find_upd_ne ss.ents _ hne
      · rfl
  | rem p e ids =>
    have hne : x ≠ e := fun hh => hx (by rw [hh]; rfl)
    simp only [specStep]
    cases find ss.ents e with
    | none => rfl
    | some cs =>
      simp only
      split
      · dsimp only
        exact find_upd_ne ss.ents _ hne
      · rfl
  | xchg p e add rem vals =>
    have hne : x ≠ e := fun hh => hx (by rw [hh]; rfl)
    simp only [specStep]
    cases find ss.ents e with
    | none => rfl
    | some cs =>
      simp only
      split
      · dsimp only
        exact find_upd_ne ss.ents _ hne
      · rfl
  | set e vals =>
    have hne : x ≠ e := fun hh => hx (by rw [hh]; rfl)
    simp only [specStep]
    cases find ss.ents e with
    | none => rfl
    | some cs =>
      simp only
      split
      · dsimp only
        exact find_upd_ne ss.ents _ hne
      · rfl
  | del e =>
    have hne : x ≠ e := fun hh => hx (by rw [hh]; rfl)
    simp only [specStep]
    cases find ss.ents e with
    | none => rfl
    | some cs => exact find_del_ne _ hne
  | copy e =>
    have hne : fresh ≠ x := fun hh => hx (by rw [hh]; rfl)
    simp only [specStep]
    cases find ss.ents e with
    | none => rfl
    | some cs => simp only [find, if_neg hne]
  | shrink bounded => rfl
  | reset => cases hr

theorem sortedIds_add {n : Nat} {ks : List Comp} (h : ∀ c ∈ ks, c < n) (k : Nat) :
    sortedIds (n + k) ks = sortedIds n ks := by
  induction k with
  | zero => rfl
  | succ k ih =>
    rw [← Nat.add_assoc, sortedIds_succ (fun c hc => Nat.lt_of_lt_of_le (h c hc) (Nat.le_add_right _ _)), ih]

/-- the sorted key list does not depend on the bound, as long as it covers the keys -/
theorem sortedIds_eq_of_bound {n n' : Nat} {ks : List Comp} (h1 : ∀ c ∈ ks, c < n)
    (h2 : ∀ c ∈ ks, c < n') : sortedIds n' ks = sortedIds n ks := by
  rcases Nat.le_total n n' with hle | hle
  · obtain ⟨k, rfl⟩ := Nat.le.dest hle
    exact sortedIds_add h1 k
  · obtain ⟨k, rfl⟩ := Nat.le.dest hle
    exact (sortedIds_add h2 k).symm

end Refine

end Ark
