/-
  Ark.Proofs.ResetEquivRelKind — the PANIC CLASS of every REJECTED operation of the relation
  machine `Ark.RelRefine` is a function of the specification state: what
  `Ark/Proofs/ResetEquivOut.lean` is for the relation-free machine, second half.

  `RelRefine.StepGoal` says that an expressible operation whose precondition fails panics with
  SOME class and leaves the world unchanged.  Here the class is computed from the specification:

  * `deadTgt`, `preKind`, `preKindP` — the pre-validation of the access paths (every path
    since the repair of the `Unsafe` API, D24: `Unsafe` validates like `MapN`)
    (`preCheckMap` / `preCheckTyped`): the first relation, in the order given, whose target is
    dead (`deadTarget`), whose component is no relation component (`notRelation`) or is not
    among the mapper's components (`relNotInMask`); `preCheck_kind`;
  * `scanKind` — the scan of `getExchangeTargets`: the first relation whose component was named
    before (`relTwice`), which the entity lacks (`noRelComponent`) or which is no relation
    component (`notRelation`); `scan_kind`;
  * `rejKind ss op` — the panic class of a rejected call;
  * `exec_rej` — under the invariant `HInv`, for an expressible operation (`guard`) whose
    precondition fails: `exec = .panic (rejKind s.ss op) s.w`;
  * `exec_outcome` — `outcome (exec run s.w op) = specOutcome s.ss (s.w.pool.get).2 op`.

  Kernel-only proofs, core Lean only.
-/
import Ark.Proofs.ResetEquivRelOut

set_option autoImplicit false

namespace Ark

open World Ark.Props.C01World

namespace RelRefine

open Refine (Comps keys sortedIds writeComps zeros Outcome outcome)

/-! ## 1. the pre-validation of the access paths -/

/-- the result of a check that does not change the world -/
def ofKind (w : World) : Option PanicKind → Res World Unit
  | none => .ok () w
  | some k => .panic k w

/-- the target of `r` is neither the zero entity nor a handle of the specification -/
def deadTgt (ents : Spec) (r : RelID) : Bool := !r.target.isZero && !(find ents r.target).isSome

/-- the pre-validation loop (`m` = the mapper's component mask for `MapN`, `none` for `Map`):
    the class of the first failing check, `none` if all pass -/
def preKind (ss : SS) (m : Option Mask) : Rels → Option PanicKind
  | [] => none
  | r :: rest =>
    if deadTgt ss.ents r = true then some .deadTarget
    else if ss.isRel.getD r.comp false = true then
      (if (match m with | some m => m.get r.comp | none => true) = true then preKind ss m rest
       else some .relNotInMask)
    else some .notRelation

/-- the pre-validation of the access path `p` (`ids` = the mapper's components) -/
def preKindP (ss : SS) (p : Path) (ids : List Comp) (rels : Rels) : Option PanicKind :=
  match p with
  | .unsafe_ => preKind ss (some (Mask.ofList ids)) rels
  | .map1 => preKind ss none rels
  | .typed => preKind ss (some (Mask.ofList ids)) rels

theorem preCheckMap_cons (r : RelID) (rest : List RelID) (w : World) :
    preCheckMap (r :: rest) w =
      if (!r.target.isZero && !w.alive r.target) = true then .panic .deadTarget w
      else if w.isRelComp r.comp = true then preCheckMap rest w
      else .panic .notRelation w := by
  simp only [preCheckMap, M.forM', bind, M.bind, checkRelationTarget, checkRelationComponent]
  by_cases h1 : (!r.target.isZero && !w.alive r.target) = true
  · simp only [h1, if_true]
  · simp only [h1, Bool.false_eq_true, if_false]
    by_cases h2 : w.isRelComp r.comp = true
    · simp only [h2, if_true]
    · simp only [h2, Bool.false_eq_true, if_false]

theorem preCheckTyped_cons (m : Mask) (r : RelID) (rest : List RelID) (w : World) :
    preCheckTyped m (r :: rest) w =
      if (!r.target.isZero && !w.alive r.target) = true then .panic .deadTarget w
      else if w.isRelComp r.comp = true then
        (if m.get r.comp = true then preCheckTyped m rest w else .panic .relNotInMask w)
      else .panic .notRelation w := by
  simp only [preCheckTyped, M.forM', bind, M.bind, checkRelationTarget, checkRelationComponent,
    M.assert]
  by_cases h1 : (!r.target.isZero && !w.alive r.target) = true
  · simp only [h1, if_true]
  · simp only [h1, Bool.false_eq_true, if_false]
    by_cases h2 : w.isRelComp r.comp = true
    · simp only [h2, if_true]
      by_cases h3 : m.get r.comp = true
      · simp only [h3, if_true]
      · simp only [h3, Bool.false_eq_true, if_false]
    · simp only [h2, Bool.false_eq_true, if_false]

namespace HInv

variable {s : St} {fl : List Nat}

/-- a handle the client holds is alive iff the specification has it -/
theorem alive_eq_find (H : HInv s fl) {e : Ent} (hi : e ∈ s.issued) :
    s.w.alive e = (find s.ss.ents e).isSome := by
  cases ha : s.w.alive e with
  | true =>
    obtain ⟨en, hf, _⟩ := H.find_of_alive hi ha
    rw [hf]; rfl
  | false => rw [H.find_of_dead hi ha]; rfl

/-- the target check of the model, from the specification -/
theorem deadTgt_eq (H : HInv s fl) {r : RelID}
    (hx : r.target.isZero = true ∨ r.target ∈ s.issued) :
    (!r.target.isZero && !s.w.alive r.target) = deadTgt s.ss.ents r := by
  rcases hx with hz | hi
  · simp only [deadTgt, hz, Bool.not_true, Bool.false_and]
  · simp only [deadTgt, H.alive_eq_find hi]

theorem preCheckMap_kind (H : HInv s fl) : ∀ (rels : Rels), tgtsExpr s rels = true →
    preCheckMap rels s.w = ofKind s.w (preKind s.ss none rels)
  | [], _ => rfl
  | r :: rest, hx => by
    have hx' := tgtsExpr_iff.mp hx
    have hrest : tgtsExpr s rest = true :=
      tgtsExpr_iff.mpr fun r' hr' => hx' r' (List.mem_cons_of_mem _ hr')
    rw [preCheckMap_cons, H.deadTgt_eq (hx' r List.mem_cons_self), ← H.rget,
      preCheckMap_kind H rest hrest]
    simp only [preKind]
    by_cases h1 : deadTgt s.ss.ents r = true
    · simp only [h1, if_true, ofKind]
    · simp only [h1, Bool.false_eq_true, if_false]
      by_cases h2 : s.ss.isRel.getD r.comp false = true
      · simp only [h2, if_true]
      · simp only [h2, Bool.false_eq_true, if_false, ofKind]

theorem preCheckTyped_kind (H : HInv s fl) (m : Mask) : ∀ (rels : Rels), tgtsExpr s rels = true →
    preCheckTyped m rels s.w = ofKind s.w (preKind s.ss (some m) rels)
  | [], _ => rfl
  | r :: rest, hx => by
    have hx' := tgtsExpr_iff.mp hx
    have hrest : tgtsExpr s rest = true :=
      tgtsExpr_iff.mpr fun r' hr' => hx' r' (List.mem_cons_of_mem _ hr')
    rw [preCheckTyped_cons, H.deadTgt_eq (hx' r List.mem_cons_self), ← H.rget,
      preCheckTyped_kind H m rest hrest]
    simp only [preKind]
    by_cases h1 : deadTgt s.ss.ents r = true
    · simp only [h1, if_true, ofKind]
    · simp only [h1, Bool.false_eq_true, if_false]
      by_cases h2 : s.ss.isRel.getD r.comp false = true
      · simp only [h2, if_true]
        by_cases h3 : m.get r.comp = true
        · simp only [h3, if_true]
        · simp only [h3, Bool.false_eq_true, if_false, ofKind]
      · simp only [h2, Bool.false_eq_true, if_false, ofKind]

/-- **the pre-validation of an access path, from the specification**: for targets the
    client can name, `preCheck` passes or panics as `preKindP` says -/
theorem preCheck_kind (H : HInv s fl) (p : Path) (ids : List Comp) {rels : Rels}
    (hx : tgtsExpr s rels = true) :
    preCheck p ids rels s.w = ofKind s.w (preKindP s.ss p ids rels) := by
  cases p with
  | unsafe_ => exact H.preCheckTyped_kind (Mask.ofList ids) rels hx
  | map1 => exact H.preCheckMap_kind rels hx
  | typed => exact H.preCheckTyped_kind (Mask.ofList ids) rels hx

end HInv

/-! ## 2. the scan of `getExchangeTargets` -/

/-- the scan of `getExchangeTargets` over the relations named, on the table of an entity with the
    entry `en` (`seen` = the components named so far): the class of the first failing check -/
def scanKind (en : Entry) : List Comp → Rels → Option PanicKind
  | _, [] => none
  | seen, r :: rest =>
    if seen.contains r.comp = true then some .relTwice
    else if decide (r.comp ∈ keys en.comps) = false then some .noRelComponent
    else if decide (r.comp ∈ en.rels.map (·.comp)) = false then some .notRelation
    else scanKind en (r.comp :: seen) rest

/-- the scan panics as `scanKind` says, on a table whose columns are the components of `en` and
    whose relation columns are the relation components of `en` -/
theorem scan_go_kind (T : Table) (w : World) (en : Entry)
    (hcol : ∀ (c : Comp), (T.colIdx c).isSome = true ↔ c ∈ keys en.comps)
    (hrel : ∀ (c : Comp) (i : Nat), T.colIdx c = some i →
      (T.isRel.getD i false = true ↔ c ∈ en.rels.map (·.comp))) {k : PanicKind} :
    ∀ (rels : Rels) (ts : List Ent) (ch : Bool) (cm : Mask) (seen : List Comp),
      scanKind en seen rels = some k →
      getExchangeTargets.go T w ts ch cm seen rels = .panic k w
  | [], _, _, _, _, h => by cases h
  | r :: rest, ts, ch, cm, seen, h => by
    simp only [scanKind] at h
    simp only [getExchangeTargets.go]
    cases hs : seen.contains r.comp with
    | true =>
      simp only [hs, if_true, Option.some.injEq] at h
      subst h; rfl
    | false =>
      simp only [hs, Bool.false_eq_true, if_false] at h ⊢
      cases hc : T.colIdx r.comp with
      | none =>
        have hk : r.comp ∉ keys en.comps := fun hm => by
          have := (hcol r.comp).mpr hm
          rw [hc] at this; cases this
        simp only [hk, decide_false, if_true, Option.some.injEq] at h
        subst h; rfl
      | some i =>
        have hk : r.comp ∈ keys en.comps := (hcol r.comp).mp (by rw [hc]; rfl)
        simp only [hk, decide_true, Bool.true_eq_false, if_false] at h
        simp only
        cases hi : T.isRel.getD i false with
        | false =>
          have hr : r.comp ∉ en.rels.map (·.comp) := fun hm => by
            have := (hrel r.comp i hc).mpr hm
            rw [hi] at this; cases this
          simp only [hr, decide_false, if_true, Option.some.injEq] at h
          subst h; rfl
        | true =>
          have hr : r.comp ∈ en.rels.map (·.comp) := (hrel r.comp i hc).mp hi
          simp only [hr, decide_true, Bool.true_eq_false, if_false] at h
          simp only [Bool.not_true, Bool.false_eq_true, if_false]
          split
          · exact scan_go_kind T w en hcol hrel rest _ _ _ _ h
          · exact scan_go_kind T w en hcol hrel rest _ _ _ _ h

theorem scan_kind (T : Table) (w : World) (en : Entry)
    (hcol : ∀ (c : Comp), (T.colIdx c).isSome = true ↔ c ∈ keys en.comps)
    (hrel : ∀ (c : Comp) (i : Nat), T.colIdx c = some i →
      (T.isRel.getD i false = true ↔ c ∈ en.rels.map (·.comp))) {k : PanicKind} {rels : Rels}
    (h : scanKind en [] rels = some k) : getExchangeTargets T rels w = .panic k w := by
  unfold getExchangeTargets
  rw [scan_go_kind T w en hcol hrel rels T.targets false Mask.empty [] h]

/-- a scan that passes: no component named twice (nor seen before), all are relation components
    of the entry -/
theorem scanKind_none (en : Entry) : ∀ (rels : Rels) (seen : List Comp),
    scanKind en seen rels = none →
    (rels.map (·.comp)).Nodup ∧ (∀ r ∈ rels, r.comp ∉ seen) ∧
      ∀ r ∈ rels, r.comp ∈ en.rels.map (·.comp)
  | [], _, _ => ⟨List.nodup_nil, fun _ h => absurd h List.not_mem_nil,
    fun _ h => absurd h List.not_mem_nil⟩
  | r :: rest, seen, h => by
    simp only [scanKind] at h
    cases hs : seen.contains r.comp with
    | true => simp only [hs, if_true] at h; cases h
    | false =>
      simp only [hs, Bool.false_eq_true, if_false] at h
      by_cases hk : r.comp ∈ keys en.comps
      · simp only [hk, decide_true, Bool.true_eq_false, if_false] at h
        by_cases hr : r.comp ∈ en.rels.map (·.comp)
        · simp only [hr, decide_true, Bool.true_eq_false, if_false] at h
          obtain ⟨h1, h2, h3⟩ := scanKind_none en rest (r.comp :: seen) h
          have hns : r.comp ∉ seen := fun hm => by
            rw [List.contains_iff_mem.2 hm] at hs; cases hs
          refine ⟨?_, ?_, ?_⟩
          · rw [List.map_cons, List.nodup_cons]
            refine ⟨fun hm => ?_, h1⟩
            obtain ⟨r', hr', he⟩ := List.mem_map.1 hm
            exact h2 r' hr' (by rw [he]; exact List.mem_cons_self)
          · intro r' hr'
            rcases List.mem_cons.1 hr' with rfl | hm
            · exact hns
            · exact fun hin => h2 r' hm (List.mem_cons_of_mem _ hin)
          · intro r' hr'
            rcases List.mem_cons.1 hr' with rfl | hm
            · exact hr
            · exact h3 r' hm
        · simp only [hr, decide_false, if_true] at h; cases h
      · simp only [hk, decide_false, if_true] at h; cases h

/-! ## 3. `World.setRelations` naming a dead target

(Reached through `Unsafe` before the repair of the `Unsafe` API; now every path refuses a dead
target in the pre-validation, and `exec_rej` no longer uses this section.  Kept: it is a fact
about `setRelationsCore` as such.) -/

/-- the check loop of `createTable` on relation components ends with `deadTarget` when it fails -/
theorem relPanic_deadTarget (w : World) : ∀ (rels : List RelID),
    (∀ (r : RelID), r ∈ rels → w.isRelComp r.comp = true) → ¬ RelsValid w rels →
    relPanic w rels = .deadTarget
  | [], _, hnv => absurd (fun r hr => absurd hr List.not_mem_nil) hnv
  | r :: rest, hrc, hnv => by
    have h1 := hrc r List.mem_cons_self
    by_cases hd : r.target.isZero = true ∨ w.alive r.target = true
    · have hok : relCheck r w = .ok () w := by
        rcases relCheck_cases r w with ⟨_, _, h3⟩ | ⟨hbad, _⟩
        · exact h3
        · exact absurd ⟨h1, hd⟩ hbad
      have hrest : ¬ RelsValid w rest := fun hv => hnv fun r' hr' => by
        rcases List.mem_cons.1 hr' with rfl | hm
        · exact ⟨h1, hd⟩
        · exact hv r' hm
      have ih := relPanic_deadTarget w rest (fun r' hr' => hrc r' (List.mem_cons_of_mem _ hr')) hrest
      simp only [relPanic, M.forM', bind, M.bind, hok] at ih ⊢
      exact ih
    · have hz : r.target.isZero = false := by
        cases hzz : r.target.isZero with
        | false => rfl
        | true => exact absurd (Or.inl hzz) hd
      have hal : w.alive r.target = false := by
        cases haa : w.alive r.target with
        | false => rfl
        | true => exact absurd (Or.inr haa) hd
      have hp : relCheck r w = .panic .deadTarget w := by
        simp [relCheck, checkRelationComponent, checkRelationTarget, M.bind, h1, hz, hal]
      simp only [relPanic, M.forM', bind, M.bind, hp]

/-- `getOrCreate` on the relation list read off edited targets of a table with relation columns,
    one of them dead: the panic class is `deadTarget` -/
theorem relGet_panic_kind {w : World} {a tid : Nat} {ts' : List Ent} (hR : RelInv w)
    (hlt : tid < w.tables.length) (hTa : (w.tbl tid).arch = a)
    (hrelA : (w.arch a).hasRelations = true) (hl : ts'.length = (w.tbl tid).ids.length)
    (hnv : ¬ RelsValid w (colRels (w.tbl tid).ids ts' (w.tbl tid).isRel))
    {k : PanicKind} {s : World}
    (hgo : getOrCreate a (colRels (w.tbl tid).ids ts' (w.tbl tid).isRel) w = .panic k s) :
    k = .deadTarget := by
  have hS := hR.sinv.toSInvMid
  have hT := get_of_lt hlt
  obtain ⟨A, hA, i1, i2, i3, _⟩ := hS.tblArch tid _ hT
  rw [hTa] at hA
  have hAe : w.arch a = A := arch_of_get hA
  have hnd := hS.ids_nodup hT
  have hrl := hS.isRel_len hT
  obtain ⟨f1, f2, f3, f4⟩ := colRels_facts (ts := ts') hnd hl hrl
  have hnum : A.numRel = (colRels (w.tbl tid).ids ts' (w.tbl tid).isRel).length := by
    rw [f2, (hS.astruct a A hA).numRelEq, i2]
  have hrc : ∀ (r : RelID), r ∈ colRels (w.tbl tid).ids ts' (w.tbl tid).isRel →
      w.isRelComp r.comp = true := by
    intro r hr
    obtain ⟨i, a1, a2, _⟩ := f3 r hr
    exact hS.isRelComp_of_col hT a1 a2
  cases hall : colRels (w.tbl tid).ids ts' (w.tbl tid).isRel with
  | nil =>
    rw [hall] at hnum
    rw [hAe] at hrelA
    simp [Archetype.hasRelations, hnum] at hrelA
  | cons r0 rest =>
    have hr0 : r0 ∈ colRels (w.tbl tid).ids ts' (w.tbl tid).isRel := by
      rw [hall]; exact List.mem_cons_self
    obtain ⟨ic, c1, c2, _⟩ := f3 r0 hr0
    have hcolA : (w.arch a).colIdx r0.comp = some ic := by
      rw [hAe, ← colIdx_fun_eq i1]; exact Table.colIdx_of_get hnd c1
    have hlenA : (w.arch a).numRel ≤ (r0 :: rest).length := by
      rw [hAe, hnum, hall]; exact Nat.le_refl _
    have htotal : ∃ (r : Option Nat), getTable a (r0 :: rest) w = .ok r w := by
      apply getTable_rel_total hrelA hlenA hcolA (by rw [← hall]; exact colRels_comps_nodup hnd _ _)
      intro ts hf t ht
      rw [hAe] at hf
      have hact := ((hR.rinv a A hA).listed (by rw [← i2]; exact c2) hf ht).1
      obtain ⟨Tt, hTt, hTta⟩ := hS.owned a A t hA (Or.inl hact)
      obtain ⟨A', hA', j1, j2, _, _⟩ := hS.tblArch t Tt hTt
      rw [hTta, hA] at hA'
      obtain rfl := Option.some.inj hA'
      have hfree := (hS.member t Tt hTt).1
      rw [hTta, hAe] at hfree
      rw [tbl_of_get hTt]
      apply Table.matchesExact_total
      · have := (hR.aux.rels t Tt hTt (hfree.2 hact)).length_le (hS.isRel_len hTt)
        rw [j2, ← i2] at this
        rw [← hall, f2]; exact this
      · intro r hr j hj
        rw [← hall] at hr
        obtain ⟨i, a1, a2, _⟩ := f3 r hr
        have hj' := Table.colIdx_get hj
        rw [j1, ← i1] at hj'
        have := Table.colIdx_of_get hnd a1
        rw [Table.colIdx_of_get hnd hj'] at this
        obtain rfl := Option.some.inj this
        rw [j2, ← i2]; exact a2
    rw [hall] at hgo hnv hrc f1
    obtain ⟨res, hres⟩ := htotal
    cases res with
    | some nt => rw [getOrCreate_found hres] at hgo; cases hgo
    | none =>
      have hcols : ∀ (r : RelID), r ∈ r0 :: rest → ((w.arch a).colIdx r.comp).isSome = true := by
        intro r hr
        rw [← hall] at hr
        obtain ⟨i, a1, _, _⟩ := f3 r hr
        rw [hAe, ← colIdx_fun_eq i1, Table.colIdx_of_get hnd a1]; rfl
      simp only [getOrCreate, bind, M.bind, hres] at hgo
      rw [createTable_eq, if_neg (by omega),
        (checkRelList_nil_eq_none_iff (w.arch a) (r0 :: rest)).mpr ⟨f1, hcols⟩] at hgo
      simp only [if_neg hnv] at hgo
      injection hgo with hk _
      rw [← hk]
      exact relPanic_deadTarget w _ hrc hnv

/-- **rejection with its class**: `setRelations` naming a dead target — on relation components the
    live entity has, none twice — is refused with `deadTarget` and the world unchanged (so also
    when the pre-validation is bypassed) -/
theorem setRelationsCore_deadTarget_kind (run : ProbeRunner) {w : World} {fl : List Nat}
    (h : TInv w fl)
    (hl : w.isLocked = false) {e : Ent} (h2 : 2 ≤ e.id) (hnf : e.id ∉ fl) (ha : w.alive e = true)
    (hsl : e.id < w.pool.ents.length)
    {rels : List RelID} (hne : rels.isEmpty = false) (hnd : (rels.map (·.comp)).Nodup)
    (hhas : ∀ (r : RelID), r ∈ rels → (targetOf w e.id r.comp).isSome = true)
    (hd : ∃ (r : RelID), r ∈ rels ∧ r.target.isZero = false ∧ w.alive r.target = false) :
    setRelationsCore run e rels w = .panic .deadTarget w := by
  obtain ⟨oldT, row, he, htm, _⟩ := h.link.live_entry h2 hnf ha hsl
  have hix := index_of_get he
  have hI := h.link.idx
  obtain ⟨hT, hrow, hid⟩ := hI.indexed he htm
  have hlt := lt_of_get hT
  have hS := h.rel.sinv.toSInvMid
  have hTf : (w.tbl oldT).isFree = false := by
    cases hf : (w.tbl oldT).isFree with
    | false => rfl
    | true => have := h.freeEmpty oldT _ hT hf; omega
  have hTex := h.rel.aux.rels oldT _ hT hTf
  have hcols : ∀ (r : RelID), r ∈ rels → ∃ (i : Nat), (w.tbl oldT).colIdx r.comp = some i ∧
      (w.tbl oldT).isRel.getD i false = true := by
    intro r hr
    obtain ⟨t, r', k, T, h1, _, h3, h4, h5⟩ := targetOf_isSome (hhas r hr)
    rw [he] at h1
    obtain ⟨rfl, rfl⟩ := Prod.mk.inj (Option.some.inj h1)
    rw [hT] at h3
    obtain rfl := Option.some.inj h3
    exact ⟨k, h4, h5⟩
  have hts : ∀ (r : RelID), r ∈ rels → ∀ (i : Nat), (w.tbl oldT).colIdx r.comp = some i →
      (setTargets (w.tbl oldT).colIdx rels (w.tbl oldT).targets).getD i Ent.zero = r.target := by
    intro r hr i hi
    apply setTargets_getD_eq
    · rw [hTex.tlen]; exact Table.colIdx_lt hi
    · intro r' hr' hc'
      have : r'.comp = r.comp := colIdx_inj hc' hi
      rw [eq_of_nodup_map (·.comp) rels hnd r' r hr' hr this]
    · exact Or.inl ⟨r, hr, hi⟩
  have hlen' : (setTargets (w.tbl oldT).colIdx rels (w.tbl oldT).targets).length =
      (w.tbl oldT).ids.length := by rw [setTargets_length, hTex.tlen]
  obtain ⟨rd, hrd, hdz, hda⟩ := hd
  obtain ⟨id, hid', hidr⟩ := hcols rd hrd
  obtain ⟨ch, cm, hx, hfalse, htrue⟩ := getExchangeTargets_spec (w.tbl oldT) rels w hcols hnd
  cases ch with
  | false =>
    exfalso
    have heq := hfalse rfl
    have := h.rel.aux.targets oldT _ hT hTf id hidr
    rw [← heq, hts rd hrd id hid'] at this
    rcases this with k | k
    · rw [hdz] at k; cases k
    · rw [hda] at k; cases k
  | true =>
    simp only [if_true] at hx
    obtain ⟨r1, hr1, i1, hi1, hne1⟩ := htrue rfl
    have hi1r : (w.tbl oldT).isRel.getD i1 false = true := by
      obtain ⟨i, hi, hir⟩ := hcols r1 hr1
      rw [hi1] at hi
      obtain rfl := Option.some.inj hi
      exact hir
    have hrelA : (w.arch (w.tbl oldT).arch).hasRelations = true := by
      obtain ⟨A, hA, _, e2, _⟩ := hS.tblArch oldT _ hT
      rw [arch_of_get hA]
      exact (hS.astruct _ A hA).hasRelations_of_rel (by rw [← e2]; exact hi1r)
    have hnv : ¬ RelsValid w (colRels (w.tbl oldT).ids
        (setTargets (w.tbl oldT).colIdx rels (w.tbl oldT).targets) (w.tbl oldT).isRel) := by
      intro hv
      obtain ⟨_, _, _, f4⟩ := colRels_facts
        (ts := setTargets (w.tbl oldT).colIdx rels (w.tbl oldT).targets) (hS.ids_nodup hT) hlen'
        (hS.isRel_len hT)
      have hmem := f4 id rd.comp (Table.colIdx_get hid') hidr
      rw [hts rd hrd id hid'] at hmem
      rcases (hv _ hmem).2 with k' | k'
      · rw [hdz] at k'; cases k'
      · rw [hda] at k'; cases k'
    cases hgo : getOrCreate (w.tbl oldT).arch
        (colRels (w.tbl oldT).ids (setTargets (w.tbl oldT).colIdx rels (w.tbl oldT).targets)
          (w.tbl oldT).isRel) w with
    | panic k s =>
      have hs := getOrCreate_panic_state hgo hnv
      subst hs
      have hk := relGet_panic_kind h.rel hlt rfl hrelA hlen' hnv hgo
      subst hk
      exact setRelationsCore_panic_get run e rels s hl ha hne hix hx hgo
    | ok nt w1 =>
      exfalso
      obtain ⟨_, _, _, _, _, hvalid⟩ := relGet_of_ok (rels0 := rels) h.rel hI
        (h.flags.upTo rels) h.freeEmpty hlt rfl hTf hrelA hlen'
        ⟨i1, hi1r, by rw [hts r1 hr1 i1 hi1]; exact hne1⟩
        (by
          intro i hi hz
          rcases setTargets_getD_cases (w.tbl oldT).colIdx i Ent.zero rels (w.tbl oldT).targets with k | ⟨r, hr, k⟩
          · rw [k] at hz ⊢
            exact Or.inl (h.flags oldT _ hT hTf i hi hz)
          · exact Or.inr ⟨r, hr, k.symm⟩) hgo
      have := hvalid id hidr
      rw [hts rd hrd id hid'] at this
      rcases this with k | k
      · rw [hdz] at k; cases k
      · rw [hda] at k; cases k

/-! ## 4. the panic class of a rejected call -/

/-- **the panic class of a rejected call**, from the specification alone.  Every access path
    pre-validates the relations first (`preKindP`: a dead target, a non-relation component, a
    component not among the added ones; `Add` through `Path.addCheck`, `SetRelations` through
    `Path.setRelCheck`) — `Add` through `Unsafe` / `Map` on a dead handle says `deadEntity` before
    that —; then: a full registry; a duplicate in the list of a `new`; an unknown or dead handle;
    an empty list; a component already present (or listed twice) / absent (or listed twice); for
    `SetRelations` the class the scan reports (`scanKind`; its default `deadTarget` is never
    reached since the `Unsafe` path validates targets too). -/
def rejKind (ss : SS) : Op → PanicKind
  | .reg _ _ _ => .registryFull
  | .new p ids _ rels => (preKindP ss p ids rels).getD .alreadyHas
  | .add p e ids _ rels =>
    match find ss.ents e with
    | none =>
      if p = .typed then (preKindP ss (p.addCheck ids) ids rels).getD .deadEntity else .deadEntity
    | some _ =>
      (preKindP ss (p.addCheck ids) ids rels).getD
        (if ids = [] then .noComponents else .alreadyHas)
  | .rem _ e ids =>
    match find ss.ents e with
    | none => .deadEntity
    | some _ => if ids = [] then .noComponents else .missing
  | .setrel p e rels =>
    (preKindP ss p.setRelCheck (rels.map (·.comp)) rels).getD
      (match find ss.ents e with
       | none => .deadEntity
       | some en => if rels = [] then .noRelations else (scanKind en [] rels).getD .deadTarget)
  | .set e _ =>
    match find ss.ents e with
    | none => .deadEntity
    | some _ => .missing
  | .del _ => .deadEntity

section Rej

variable (run : ProbeRunner) {s : St} {fl : List Nat}

theorem ofKind_none {w : World} {o : Option PanicKind} {r : Res World Unit} (h : r = ofKind w o)
    (ho : o = none) : r = .ok () w := by rw [h, ho]; rfl

theorem ofKind_some {w : World} {o : Option PanicKind} {r : Res World Unit} {k : PanicKind}
    (h : r = ofKind w o) (ho : o = some k) : r = .panic k w := by rw [h, ho]; rfl


/-- a relation list the pre-validation loop lets pass: no dead target, relation components only,
    all among the mapper's components -/
theorem preKind_none (ss : SS) (m : Option Mask) : ∀ (rels : Rels), preKind ss m rels = none →
    ∀ r ∈ rels, deadTgt ss.ents r = false ∧ ss.isRel.getD r.comp false = true ∧
      ∀ (mm : Mask), m = some mm → mm.get r.comp = true
  | [], _ => fun _ hr => absurd hr List.not_mem_nil
  | x :: rest, h => by
    simp only [preKind] at h
    by_cases h1 : deadTgt ss.ents x = true
    · simp only [h1, if_true] at h; cases h
    · simp only [h1, Bool.false_eq_true, if_false] at h
      by_cases h2 : ss.isRel.getD x.comp false = true
      · simp only [h2, if_true] at h
        cases m with
        | none =>
          simp only [if_true] at h
          have ih := preKind_none ss none rest h
          intro r hr
          rcases List.mem_cons.1 hr with rfl | hm
          · exact ⟨by simpa using h1, h2, fun mm hmm => by cases hmm⟩
          · exact ih r hm
        | some m0 =>
          simp only at h
          by_cases h3 : m0.get x.comp = true
          · simp only [h3, if_true] at h
            have ih := preKind_none ss (some m0) rest h
            intro r hr
            rcases List.mem_cons.1 hr with rfl | hm
            · refine ⟨by simpa using h1, h2, fun mm hmm => ?_⟩
              cases hmm; exact h3
            · exact ih r hm
          · simp only [h3, Bool.false_eq_true, if_false] at h; cases h
      · simp only [h2, Bool.false_eq_true, if_false] at h; cases h

/-- **a relation list the pre-validation of path `p` lets pass** names valid targets and relation
    components only, and — except through `Map`, which has no membership check — components
    among `ids` -/
theorem preKindP_none {ss : SS} {p : Path} {ids : List Comp} {rels : Rels}
    (h : preKindP ss p ids rels = none) :
    TargetsValid ss.ents rels ∧ (∀ r ∈ rels, ss.isRel.getD r.comp false = true) ∧
      (p ≠ .map1 → ∀ r ∈ rels, r.comp ∈ ids) := by
  have key : ∀ (m : Option Mask), preKind ss m rels = none →
      TargetsValid ss.ents rels ∧ (∀ r ∈ rels, ss.isRel.getD r.comp false = true) ∧
        ∀ (mm : Mask), m = some mm → ∀ r ∈ rels, mm.get r.comp = true := by
    intro m hm
    have a := preKind_none ss m rels hm
    refine ⟨fun r hr => ?_, fun r hr => (a r hr).2.1, fun mm hmm r hr => (a r hr).2.2 mm hmm⟩
    have hd := (a r hr).1
    simp only [deadTgt] at hd
    cases hz : r.target.isZero with
    | true => exact Or.inl rfl
    | false =>
      cases hs : (find ss.ents r.target).isSome with
      | true => exact Or.inr rfl
      | false => simp [hz, hs] at hd
  have inIds : ∀ r ∈ rels, (Mask.ofList ids).get r.comp = true → r.comp ∈ ids := by
    intro r _ hg
    rw [Mask.get_ofList] at hg
    simp only [Bool.and_eq_true, decide_eq_true_eq] at hg
    exact hg.2
  cases p with
  | map1 =>
    obtain ⟨a, b, _⟩ := key none h
    exact ⟨a, b, fun hp => absurd rfl hp⟩
  | unsafe_ =>
    obtain ⟨a, b, c⟩ := key (some (Mask.ofList ids)) h
    exact ⟨a, b, fun _ r hr => inIds r hr (c _ rfl r hr)⟩
  | typed =>
    obtain ⟨a, b, c⟩ := key (some (Mask.ofList ids)) h
    exact ⟨a, b, fun _ r hr => inIds r hr (c _ rfl r hr)⟩

/-- … so a list the machine admits (`RelsStep`) that passes is well-formed (`RelsWF`) -/
theorem wf_of_pre_ok {ss : SS} {p : Path} {ids : List Comp} {rels : Rels}
    (hst : RelsStep ss.isRel p ids rels) (h : preKindP ss p ids rels = none) :
    RelsWF ss.isRel ids rels ∧ TargetsValid ss.ents rels := by
  obtain ⟨hv, hrel, hin⟩ := preKindP_none h
  obtain ⟨hrnd, hmap, hrall⟩ := hst
  refine ⟨⟨hrnd, fun r hr => ⟨?_, hrel r hr⟩, hrall⟩, hv⟩
  by_cases hp : p = .map1
  · exact hmap hp r hr
  · exact hin hp r hr

theorem rej_reg (H : HInv s fl) (size : Nat) (z ir : Bool) (hnp : ¬ pre s.ss (.reg size z ir)) :
    exec run s.w (.reg size z ir) = .panic (rejKind s.ss (.reg size z ir)) s.w := by
  have hlt : ¬ s.ss.zst.length < 256 := hnp
  have hfull : s.w.maxComps ≤ s.w.kinds.length := by rw [H.maxc, ← H.zlen]; omega
  have hr := registerComponent_full { isRel := ir, zst := z, size := size } s.w hfull
  simp only [exec, hr, rejKind]

theorem rej_new (H : HInv s fl) (p : Path) (ids : List Comp) (vals : Comps) (rels : Rels)
    (hg : guard s (.new p ids vals rels) = true) (hnp : ¬ pre s.ss (.new p ids vals rels)) :
    exec run s.w (.new p ids vals rels) = .panic (rejKind s.ss (.new p ids vals rels)) s.w := by
  have hg' : ((∀ c ∈ ids, c < s.ss.zst.length) ∧ RelsStep s.ss.isRel p ids rels) ∧
      tgtsExpr s rels = true := by
    simpa only [guard, Bool.and_eq_true, List.all_eq_true, decide_eq_true_eq] using hg
  obtain ⟨⟨hreg, hst⟩, hx⟩ := hg'
  have hreg' : ∀ (c : Comp), c ∈ ids → c < s.w.kinds.length := by rw [← H.zlen]; exact hreg
  have hb256 : ∀ (c : Comp), c ∈ ids → c < 256 := fun c hc => H.reg256 (hreg' c hc)
  have hpk := H.preCheck_kind p ids hx
  cases hk : preKindP s.ss p ids rels with
  | some k =>
    have h1 := ofKind_some hpk hk
    simp only [exec, opNewEntity, bind, M.bind, h1, rejKind, hk, Option.getD_some]
  | none =>
    have h1 := ofKind_none hpk hk
    obtain ⟨hwf, hv⟩ := wf_of_pre_ok hst hk
    have hnd : ¬ ids.Nodup := fun hnd => hnp ⟨hnd, hreg, hwf, hv⟩
    have hrej := findOrCreateTableAdd_reject' 0 Mask.empty ids rels s.w hb256 (fun hh => hnd hh.1)
    simp only [exec, opNewEntity, newEntityCore, h1, bind, M.bind, checkLocked_unlocked s.w H.unlocked,
      hrej, rejKind, hk, Option.getD_none]

theorem rej_add (H : HInv s fl) (p : Path) (e : Ent) (ids : List Comp) (vals : Comps) (rels : Rels)
    (hg : guard s (.add p e ids vals rels) = true) (hnp : ¬ pre s.ss (.add p e ids vals rels)) :
    exec run s.w (.add p e ids vals rels) = .panic (rejKind s.ss (.add p e ids vals rels)) s.w := by
  have hg' : ((e ∈ s.issued ∧ ∀ c ∈ ids, c < s.ss.zst.length) ∧ RelsStep s.ss.isRel p ids rels) ∧
      tgtsExpr s rels = true := by
    simpa only [guard, Bool.and_eq_true, List.all_eq_true, decide_eq_true_eq] using hg
  obtain ⟨⟨⟨hi, hreg⟩, hst⟩, hx⟩ := hg'
  have hreg' : ∀ (c : Comp), c ∈ ids → c < s.w.kinds.length := by rw [← H.zlen]; exact hreg
  have hb256 : ∀ (c : Comp), c ∈ ids → c < 256 := fun c hc => H.reg256 (hreg' c hc)
  have hpk := H.preCheck_kind (p.addCheck ids) ids hx
  have hal := H.alive_eq_find hi
  cases hf : find s.ss.ents e with
  | none =>
    have ha : s.w.alive e = false := by rw [hal, hf]; rfl
    have hcore := addCore_dead s.w H.unlocked e ha ids rels
    by_cases hp : p = .typed
    · subst hp
      cases hk : preKindP s.ss (Path.typed.addCheck ids) ids rels with
      | some k =>
        have h1 := ofKind_some hpk hk
        simp [exec, opAdd, bind, M.bind, h1, rejKind, hf, hk]
      | none =>
        have h1 := ofKind_none hpk hk
        simp [exec, opAdd, bind, M.bind, h1, hcore, rejKind, hf, hk]
    · have hop := opAdd_dead_first run p hp e ids vals rels s.w ha
      simp only [exec, hop, rejKind, hf, if_neg hp]
  | some en =>
    have ha : s.w.alive e = true := by rw [hal, hf]; rfl
    cases hk : preKindP s.ss (p.addCheck ids) ids rels with
    | some k =>
      have h1 := ofKind_some hpk hk
      have hop : opAdd run p e ids vals rels s.w = .panic k s.w := by
        cases p <;> simp [opAdd, bind, M.bind, M.get, M.assert, ha, h1]
      simp only [exec, hop, rejKind, hf, hk, Option.getD_some]
    | none =>
      have h1 := ofKind_none hpk hk
      have hm := find_some_mem hf
      obtain ⟨_, _, h2, hnf, _, hsl⟩ := H.live_facts hm
      have ok := H.ok e en hm
      have hmask : ∀ (c : Comp), (s.w.maskOf e).get c = true ↔ c ∈ keys en.comps := fun c => by
        rw [H.tinv.mask_iff_comps h2 hnf ha (Pool.lt_of_slot hsl) ok.comps c, H.comps_iff hm c]
      have hcore : addCore e ids rels s.w =
          .panic (if ids = [] then .noComponents else .alreadyHas) s.w := by
        by_cases hne : ids = []
        · subst hne
          rw [if_pos rfl]
          exact addCore_noComponents s.w H.unlocked e ha rels
        · rw [if_neg hne]
          rw [Path.addCheck_of_ne_nil p hne] at hk
          obtain ⟨hwf, hv⟩ := wf_of_pre_ok hst hk
          refine addCore_alreadyHas e ids rels s.w H.unlocked ha hne hb256 ?_
          rintro ⟨hnd, hnew⟩
          refine hnp ⟨en, hf, ⟨hne, hnd, fun c hc => ⟨hreg c hc, fun hk' => ?_⟩⟩, hwf, hv⟩
          have := (hmask c).mpr hk'
          rw [hnew c hc] at this; cases this
      have hop : opAdd run p e ids vals rels s.w =
          .panic (if ids = [] then .noComponents else .alreadyHas) s.w := by
        cases p <;> simp [opAdd, bind, M.bind, M.get, M.assert, ha, h1, hcore]
      simp only [exec, hop, rejKind, hf, hk, Option.getD_none]

theorem rej_rem (H : HInv s fl) (p : Path) (e : Ent) (ids : List Comp)
    (hg : guard s (.rem p e ids) = true) (hnp : ¬ pre s.ss (.rem p e ids)) :
    exec run s.w (.rem p e ids) = .panic (rejKind s.ss (.rem p e ids)) s.w := by
  have hi : e ∈ s.issued := by simpa only [guard, decide_eq_true_eq] using hg
  have hal := H.alive_eq_find hi
  cases hf : find s.ss.ents e with
  | none =>
    have ha : s.w.alive e = false := by rw [hal, hf]; rfl
    have hop := opRemove_dead_any run p e ids s.w H.unlocked ha
    simp only [exec, hop, rejKind, hf]
  | some en =>
    have ha : s.w.alive e = true := by rw [hal, hf]; rfl
    have hm := find_some_mem hf
    obtain ⟨_, _, h2, hnf, _, hsl⟩ := H.live_facts hm
    have ok := H.ok e en hm
    have hmask : ∀ (c : Comp), (s.w.maskOf e).get c = true ↔ c ∈ keys en.comps := fun c => by
      rw [H.tinv.mask_iff_comps h2 hnf ha (Pool.lt_of_slot hsl) ok.comps c, H.comps_iff hm c]
    by_cases hne : ids = []
    · subst hne
      have hop : opRemove run p e [] s.w = .panic .noComponents s.w := by
        rw [opRemove_eq run _ e [] s.w ha]
        exact removeCore_noComponents run s.w H.unlocked e ha
      simp only [exec, hop, rejKind, hf, if_true]
    · have hop : opRemove run p e ids s.w = .panic .missing s.w := by
        rw [opRemove_eq run _ e ids s.w ha]
        refine removeCore_missing run e ids s.w H.unlocked ha hne ?_
        rintro ⟨hnd, hp⟩
        exact hnp ⟨en, hf, hne, hnd, fun c hc => (hmask c).mp (hp c hc)⟩
      simp only [exec, hop, rejKind, hf, if_neg hne]

theorem rej_set (H : HInv s fl) (e : Ent) (vals : Comps)
    (hg : guard s (.set e vals) = true) (hnp : ¬ pre s.ss (.set e vals)) :
    exec run s.w (.set e vals) = .panic (rejKind s.ss (.set e vals)) s.w := by
  have hi : e ∈ s.issued := by simpa only [guard, decide_eq_true_eq] using hg
  have hal := H.alive_eq_find hi
  cases hf : find s.ss.ents e with
  | none =>
    have ha : s.w.alive e = false := by rw [hal, hf]; rfl
    have hop := World.opSet_dead run s.w e ha (keys vals) vals
    simp only [exec, hop, rejKind, hf]
  | some en =>
    have ha : s.w.alive e = true := by rw [hal, hf]; rfl
    have hm := find_some_mem hf
    obtain ⟨_, _, h2, hnf, _, hsl⟩ := H.live_facts hm
    have ok := H.ok e en hm
    have hop := opSet_rel_missing run H.tinv h2 hnf ha (Pool.lt_of_slot hsl) ok.comps
      (ids := keys vals) (fun hh => hnp ⟨en, hf, fun cv hcv =>
        (H.comps_iff hm cv.1).mp (hh cv.1 (List.mem_map.mpr ⟨cv, hcv, rfl⟩))⟩) vals
    simp only [exec, hop, rejKind, hf]

theorem rej_del (H : HInv s fl) (e : Ent)
    (hg : guard s (.del e) = true) (hnp : ¬ pre s.ss (.del e)) :
    exec run s.w (.del e) = .panic (rejKind s.ss (.del e)) s.w := by
  have hi : e ∈ s.issued := by simpa only [guard, decide_eq_true_eq] using hg
  have hal := H.alive_eq_find hi
  cases hf : find s.ss.ents e with
  | none =>
    have ha : s.w.alive e = false := by rw [hal, hf]; rfl
    have hop := opRemoveEntity_dead run s.w H.unlocked e ha
    simp only [exec, hop, rejKind]
  | some en => exact absurd ⟨en, hf⟩ hnp

theorem rej_setrel (H : HInv s fl) (p : Path) (e : Ent) (rels : Rels)
    (hg : guard s (.setrel p e rels) = true) (hnp : ¬ pre s.ss (.setrel p e rels)) :
    exec run s.w (.setrel p e rels) = .panic (rejKind s.ss (.setrel p e rels)) s.w := by
  have hg' : e ∈ s.issued ∧ tgtsExpr s rels = true := by
    simpa only [guard, Bool.and_eq_true, decide_eq_true_eq] using hg
  obtain ⟨hi, hx⟩ := hg'
  have hpk := H.preCheck_kind p.setRelCheck (rels.map (·.comp)) hx
  have hal := H.alive_eq_find hi
  cases hk : preKindP s.ss p.setRelCheck (rels.map (·.comp)) rels with
  | some k =>
    have h1 := ofKind_some hpk hk
    simp only [exec, opSetRelations, bind, M.bind, h1, rejKind, hk, Option.getD_some]
  | none =>
    have h1 := ofKind_none hpk hk
    have hv : TargetsValid s.ss.ents rels := (preKindP_none hk).1
    have hcore : ∀ {k : PanicKind}, setRelationsCore run e rels s.w = .panic k s.w →
        exec run s.w (.setrel p e rels) = .panic k s.w := by
      intro k hc
      simp only [exec, opSetRelations, bind, M.bind, h1, hc]
    cases hf : find s.ss.ents e with
    | none =>
      have ha : s.w.alive e = false := by rw [hal, hf]; rfl
      rw [hcore (setRelationsCore_dead run s.w H.unlocked e ha rels)]
      simp only [rejKind, hk, hf, Option.getD_none]
    | some en =>
      have ha : s.w.alive e = true := by rw [hal, hf]; rfl
      have hm := find_some_mem hf
      obtain ⟨_, _, h2, hnf, _, hsl0⟩ := H.live_facts hm
      have hsl := Pool.lt_of_slot hsl0
      have ok := H.ok e en hm
      by_cases hne : rels = []
      · subst hne
        rw [hcore (setRelationsCore_noRelations run s.w H.unlocked e ha)]
        simp only [rejKind, hk, hf, Option.getD_none, if_true]
      · have hemp : rels.isEmpty = false := by
          cases rels with
          | nil => exact absurd rfl hne
          | cons _ _ => rfl
        obtain ⟨oldT, row, he, htm, _⟩ := H.tinv.link.live_entry h2 hnf ha hsl
        have hix := index_of_get he
        obtain ⟨hT, _, _⟩ := H.tinv.link.idx.indexed he htm
        have hcol : ∀ (c : Comp), ((s.w.tbl oldT).colIdx c).isSome = true ↔ c ∈ keys en.comps := by
          intro c
          have := H.tinv.has_iff_comps h2 hnf ha hsl ok.comps c
          rw [hix] at this
          rw [← H.comps_iff hm c]
          exact this
        have hrel : ∀ (c : Comp) (i : Nat), (s.w.tbl oldT).colIdx c = some i →
            ((s.w.tbl oldT).isRel.getD i false = true ↔ c ∈ en.rels.map (·.comp)) := by
          intro c i hc
          rw [← H.target_isSome_iff hm c, targetOf_of_entry he htm hT c]
          simp only [Table.targetAt, hc, Option.bind_some]
          cases (s.w.tbl oldT).isRel.getD i false <;> simp
        cases hsk : scanKind en [] rels with
        | some k =>
          have hx' := scan_kind (s.w.tbl oldT) s.w en hcol hrel hsk
          rw [hcore (setRelationsCore_panic_x run e rels s.w H.unlocked ha hemp hix hx')]
          simp only [rejKind, hk, hf, Option.getD_none, if_neg hne, hsk, Option.getD_some]
        | none =>
          obtain ⟨hrnd, _, hhas⟩ := scanKind_none en rels [] hsk
          exact absurd ⟨en, hf, hne, hrnd, hhas, hv⟩ hnp

end Rej

/-- **exec_rej** — under the invariant, an expressible operation whose precondition fails is
    rejected with the class `rejKind` computes from the specification, the world unchanged -/
theorem exec_rej (run : ProbeRunner) {s : St} {fl : List Nat} (H : HInv s fl) {op : Op}
    (hg : guard s op = true) (hnp : ¬ pre s.ss op) :
    exec run s.w op = .panic (rejKind s.ss op) s.w := by
  cases op with
  | reg size z ir => exact rej_reg run H size z ir hnp
  | new p ids vals rels => exact rej_new run H p ids vals rels hg hnp
  | add p e ids vals rels => exact rej_add run H p e ids vals rels hg hnp
  | rem p e ids => exact rej_rem run H p e ids hg hnp
  | setrel p e rels => exact rej_setrel run H p e rels hg hnp
  | set e vals => exact rej_set run H e vals hg hnp
  | del e => exact rej_del run H e hg hnp

/-! ## 5. the outcome of a call -/

/-- `∃ en, o = some en ∧ P en` is decidable -/
def decSome (o : Option Entry) (P : Entry → Prop) [∀ en, Decidable (P en)] :
    Decidable (∃ en, o = some en ∧ P en) :=
  match o with
  | none => isFalse (by rintro ⟨_, h, _⟩; cases h)
  | some en =>
    if h : P en then isTrue ⟨en, rfl, h⟩
    else isFalse (by rintro ⟨en', h', hp⟩; cases h'; exact h hp)

def decSome' (o : Option Entry) : Decidable (∃ en, o = some en) :=
  match o with
  | none => isFalse (by rintro ⟨_, h⟩; cases h)
  | some en => isTrue ⟨en, rfl⟩

/-- the precondition of an operation is decidable -/
instance instDecidablePre (ss : SS) : (op : Op) → Decidable (pre ss op)
  | .reg _ _ _ => inferInstanceAs (Decidable (ss.zst.length < 256))
  | .new _ ids _ rels => inferInstanceAs (Decidable (NewOK ss ids rels))
  | .add _ e ids _ rels => decSome (find ss.ents e) (fun en => AddOK ss en ids rels)
  | .rem _ e ids => decSome (find ss.ents e)
      (fun en => ids ≠ [] ∧ ids.Nodup ∧ ∀ c ∈ ids, c ∈ keys en.comps)
  | .setrel _ e rels => decSome (find ss.ents e) (fun en => SetRelOK ss en rels)
  | .set e vals => decSome (find ss.ents e) (fun en => ∀ cv ∈ vals, cv.1 ∈ keys en.comps)
  | .del e => decSome' (find ss.ents e)

/-- **the outcome of a call according to the specification**: accepted (with the handle `fresh`
    for a creation) iff the precondition holds, otherwise rejected with `rejKind` -/
def specOutcome (ss : SS) (fresh : Ent) (op : Op) : Outcome :=
  if pre ss op then .ok (retSpec fresh op) else .panic (rejKind ss op)

/-- **the outcome of a call is a function of the specification** (and of the pool's next
    handle): returned handle, accept/reject decision and panic class -/
theorem exec_outcome (run : ProbeRunner) {s : St} {fl : List Nat} (H : HInv s fl)
    (hfew : s.w.tables.length + s.w.relationArchetypes.length + 1 ≤ maxU32)
    (hent : 2 * s.w.entities.length < 2 ^ 32) (op : Op) (hg : guard s op = true) :
    outcome (exec run s.w op) = specOutcome s.ss (s.w.pool.get).2 op := by
  by_cases hp : pre s.ss op
  · obtain ⟨w', hex, _⟩ := exec_acc run H hfew hent hg hp
    rw [hex, specOutcome, if_pos hp]; rfl
  · rw [exec_rej run H hg hp, specOutcome, if_neg hp]; rfl

end RelRefine

end Ark
