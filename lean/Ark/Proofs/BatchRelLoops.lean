/-
  Ark.Proofs.BatchRelLoops — C06 + C04 with relations, part 3: the two loops of
  `cleanupArchetypes g` while the dead targets `D ∋ g` are pending (multi-target forms of
  `cleanArch_spec` / `cleanupArchetypes_spec` of `Ark.Proofs.TargetsLoops`, with `QKeep`).
  Kernel-only proofs, core Lean only.
-/
import Ark.Proofs.BatchRelStep

set_option autoImplicit false

namespace Ark

open World Ark.Props.C01World QueryRel

/-- the invariant of the inner loop over the tables `rest` still to be processed -/
structure InnerInvD (D : List Ent) (g : Ent) (a N : Nat) (w0 : World) (rest : List Nat) (w : World) : Prop where
  base : CleanBaseD D w
  qk : QKeep w0 w
  exc : RInvExcept w a g.id
  frame : CleanFrameD w0 w
  alt : a < w.archetypes.length
  nodup : rest.Nodup
  sound : ∀ (t : Nat), t ∈ rest → t ∈ (w.arch a).tables.tables ∧
    ∃ (i0 : Nat), (w.arch a).isRel.getD i0 false = true ∧
      ((w.tbl t).targets.getD i0 Ent.zero).id = g.id
  complete : ∀ (t : Nat), t ∈ (w.arch a).tables.tables →
    (∃ (i : Nat), (w.arch a).isRel.getD i false = true ∧
      ((w.tbl t).targets.getD i Ent.zero).id = g.id) → t ∈ rest
  others : ∀ (b : Nat), b ≠ a → w.archetypes[b]? = w0.archetypes[b]?
  len1 : w.tables.length ≤ N + 1
  len0 : (w.arch a).freeTables = [] → w.tables.length ≤ N

theorem innerLoop_specD {D : List Ent} {g : Ent} {a N : Nat} {w0 : World} (hD : DeadSet w0.pool D)
    (hg : g ∈ D) (hN : N + 2 ≤ maxU32)
    (hrows : 2 * w0.entities.length < 2 ^ 32) :
    ∀ (rest : List Nat) (w : World), InnerInvD D g a N w0 rest w →
      ∃ (w' : World), M.forM' rest (cleanTable g a) w = .ok () w' ∧ InnerInvD D g a N w0 [] w' := by
  apply forM'_hoare
  intro tid rest w hI
  obtain ⟨hs1, hs2⟩ := hI.sound tid List.mem_cons_self
  obtain ⟨w', hok, st, hq⟩ := cleanTable_stepD hI.base (by rw [hI.frame.pool]; exact hD) hg hI.exc hI.alt hs1 hs2
    (by have := hI.len1; omega) (by rw [hI.frame.idxSame.len]; exact hrows)
  refine ⟨w', hok, ?_⟩
  have hnd := List.nodup_cons.1 hI.nodup
  refine
    { base := st.base, exc := st.exc, qk := hI.qk.trans hq
      frame := hI.frame.trans st.frame
      alt := by rw [st.frame.archLen]; exact hI.alt
      nodup := hnd.2
      sound := ?_, complete := ?_
      others := fun b hb => by rw [st.otherArchs b hb]; exact hI.others b hb
      len1 := ?_
      len0 := fun h => absurd h st.hasFree }
  · intro t ht
    have hne : t ≠ tid := fun e => hnd.1 (e ▸ ht)
    obtain ⟨k1, i0, k2, k3⟩ := hI.sound t (List.mem_cons_of_mem _ ht)
    obtain ⟨m1, m2⟩ := st.keep t k1 hne
    exact ⟨m1, i0, by rw [st.isRel]; exact k2, by rw [m2]; exact k3⟩
  · intro t ht ⟨i, hi, hid⟩
    rw [st.isRel] at hi
    rcases st.act t ht with ⟨k1, k2, k3⟩ | k
    · have := hI.complete t k1 ⟨i, hi, by rw [← k3]; exact hid⟩
      rcases List.mem_cons.1 this with e | e
      · exact absurd e k2
      · exact e
    · exact absurd hid (k i hi)
  · by_cases hf : w'.tables.length = w.tables.length + 1
    · have := hI.len0 (st.lenFresh hf); omega
    · have := st.lenB; have := hI.len1; omega

/-- what processing one archetype in `cleanupArchetypes g` guarantees -/
structure CleanedArchD (D : List Ent) (g : Ent) (a : Nat) (w w' : World) : Prop where
  base : CleanBaseD D w'
  qk : QKeep w w'
  rinv : RInv w'
  frame : CleanFrameD w w'
  lenB : w'.tables.length ≤ w.tables.length + 1
  /-- the archetype no longer lists any table for `g` -/
  noKey : AL.find? (w'.arch a).targetTables g.id = none
  others : ∀ (b : Nat), b ≠ a → w'.archetypes[b]? = w.archetypes[b]?

theorem cleanArch_specD {D : List Ent} {g : Ent} {a : Nat} {w : World} (hB : CleanBaseD D w)
    (hD : DeadSet w.pool D) (hg : g ∈ D) (hR : RInv w) (hfew : w.tables.length + 2 ≤ maxU32)
    (hrows : 2 * w.entities.length < 2 ^ 32) :
    ∃ (w' : World), cleanArch g a w = .ok () w' ∧ CleanedArchD D g a w w' := by
  rw [cleanArch_eq]
  cases hf : AL.find? (w.arch a).targetTables g.id with
  | none =>
    exact ⟨w, rfl, hB, QKeep.refl w, hR, CleanFrameD.refl w, Nat.le_succ _, hf, fun _ _ => rfl⟩
  | some ts =>
    have ha : a < w.archetypes.length := by
      rcases Nat.lt_or_ge a w.archetypes.length with h1 | h1
      · exact h1
      · have : w.arch a = default := by
          simp [arch, List.getD_eq_getElem?_getD, List.getElem?_eq_none h1]
        rw [this, default_arch_targetTables] at hf
        cases hf
    have hA := aget_of_lt ha
    have hI := hR a _ hA
    have hlisted := hI.targetListed hf
    have hinit : InnerInvD D g a w.tables.length w ts.tables.reverse w := by
      refine
        { base := hB, qk := QKeep.refl w, exc := hR.toExcept a g.id, frame := CleanFrameD.refl w, alt := ha
          nodup := (List.reverse_perm ts.tables).nodup_iff.2 (hI.target.wf g.id ts hf).nodup
          sound := ?_, complete := ?_
          others := fun _ _ => rfl
          len1 := Nat.le_succ _
          len0 := fun _ => Nat.le_refl _ }
      · intro t ht
        exact (hlisted t).1 (List.mem_reverse.1 ht)
      · intro t ht hex
        exact List.mem_reverse.2 ((hlisted t).2 ⟨ht, hex⟩)
    obtain ⟨w1, hok, hI1⟩ := innerLoop_specD hD hg hfew hrows _ _ hinit
    simp only [hok]
    refine ⟨_, rfl, ?_⟩
    have hA1 := aget_of_lt hI1.alt
    have hS1 := hI1.base.sinv
    have hstruct := hS1.astruct a _ hA1
    have hlenR : (w1.arch a).relationTables.length = (w1.arch a).isRel.length :=
      hstruct.lenRel.trans hstruct.lenIsRel.symm
    have hno : ∀ (t : Nat), t ∈ (w1.arch a).tables.tables → ∀ (i : Nat),
        (w1.arch a).isRel.getD i false = true →
          (((fun t => (w1.tbl t).targets) t).getD i Ent.zero).id ≠ g.id := by
      intro t ht i hi hid
      have := hI1.complete t ht ⟨i, hi, hid⟩
      cases this
    have hInew := (hI1.exc.1 _ hA1).removeTarget hno
    have harch : (w1.modArch a fun A => A.removeTarget g).archetypes =
        w1.archetypes.set a ((w1.arch a).removeTarget g) := rfl
    have hsinv : SInv (w1.modArch a fun A => A.removeTarget g) :=
      hS1.of_archUpdate hI1.alt harch rfl rfl ⟨rfl, rfl, rfl, rfl, rfl, rfl⟩ rfl rfl
        (hstruct.of_sameShape (Archetype.removeTarget_sameShape _ g hlenR))
    have harchA : (w1.modArch a fun A => A.removeTarget g).arch a = (w1.arch a).removeTarget g :=
      modArch_arch_self _ _ hI1.alt
    refine
      { qk := hI1.qk.trans (removeTarget_qkeep w1 a g)
        base :=
          { idx := hI1.base.idx.congr rfl rfl
            sinv := hsinv
            tgts := hI1.base.tgts
            rels := hI1.base.rels
            cacheRels := hI1.base.cacheRels
            flags := hI1.base.flags
            freeEmpty := hI1.base.freeEmpty
            relArchs := by
              intro b B hB' hrel
              show b ∈ w1.relationArchetypes
              rw [harch] at hB'
              by_cases e : b = a
              · subst e
                rw [List.getElem?_set_self hI1.alt] at hB'
                obtain rfl := Option.some.inj hB'
                exact hI1.base.relArchs b _ hA1 hrel
              · rw [List.getElem?_set_ne (fun x => e x.symm)] at hB'
                exact hI1.base.relArchs b B hB' hrel }
        rinv := ?_
        frame :=
          { pool := hI1.frame.pool, isTarget := hI1.frame.isTarget, kinds := hI1.frame.kinds,
            maxComps := hI1.frame.maxComps, relationArchetypes := hI1.frame.relationArchetypes,
            obs := hI1.frame.obs, locks := hI1.frame.locks
            archLen := by rw [harch, List.length_set]; exact hI1.frame.archLen
            idxSame := hI1.frame.idxSame.trans (IdxSame.of_eq rfl)
            same := hI1.frame.same
            tgt := hI1.frame.tgt
            tablesLe := hI1.frame.tablesLe }
        lenB := hI1.len1
        noKey := by
          rw [harchA, Archetype.removeTarget_eq]
          exact AL.find?_erase_self _ _
        others := fun b hb => by
          rw [harch, List.getElem?_set_ne (fun x => hb x.symm)]; exact hI1.others b hb }
    intro b B hB'
    rw [harch] at hB'
    by_cases e : b = a
    · subst e
      rw [List.getElem?_set_self hI1.alt] at hB'
      obtain rfl := Option.some.inj hB'
      exact hInew
    · rw [List.getElem?_set_ne (fun x => e x.symm)] at hB'
      exact hI1.exc.2 b B e hB'

/-! ## 3. the outer loop -/

/-- the invariant of the outer loop over the relation archetypes `rest` still to be processed -/
structure OuterInvD (D : List Ent) (g : Ent) (N : Nat) (w0 : World) (rest : List Nat) (w : World) : Prop where
  base : CleanBaseD D w
  qk : QKeep w0 w
  rinv : RInv w
  frame : CleanFrameD w0 w
  len : w.tables.length + rest.length ≤ N
  done : ∀ (b : Nat) (B : Archetype), w.archetypes[b]? = some B → B.hasRelations = true →
    b ∈ rest ∨ AL.find? B.targetTables g.id = none

/-- what `cleanupArchetypes g` guarantees -/
structure CleanedD (D : List Ent) (g : Ent) (w w' : World) : Prop where
  base : CleanBaseD D w'
  qk : QKeep w w'
  rinv : RInv w'
  frame : CleanFrameD w w'
  noTarget : NoTarget w' g.id
  len : w'.tables.length ≤ w.tables.length + w.relationArchetypes.length

/-- **`cleanupArchetypes g` never panics**, keeps the cleanup invariants, restores the full
    relation-index invariant, and afterwards no non-free table targets `g`. -/
theorem cleanupArchetypes_specD {D : List Ent} {g : Ent} {w : World} (hB : CleanBaseD D w)
    (hD : DeadSet w.pool D) (hg : g ∈ D) (hR : RInv w) (hfew : w.tables.length + w.relationArchetypes.length + 1 ≤ maxU32)
    (hrows : 2 * w.entities.length < 2 ^ 32) :
    ∃ (w' : World), cleanupArchetypes g w = .ok () w' ∧ CleanedD D g w w' := by
  rw [cleanupArchetypes_eq]
  have hloop : ∀ (rest : List Nat) (w1 : World),
      OuterInvD D g (w.tables.length + w.relationArchetypes.length) w rest w1 →
      ∃ (w' : World), M.forM' rest (cleanArch g) w1 = .ok () w' ∧
        OuterInvD D g (w.tables.length + w.relationArchetypes.length) w [] w' := by
    apply forM'_hoare
    intro a rest w1 hI
    have hlen := hI.len
    simp only [List.length_cons] at hlen
    obtain ⟨w', hok, ca⟩ := cleanArch_specD (a := a) hI.base (by rw [hI.frame.pool]; exact hD) hg hI.rinv (by omega)
      (by rw [hI.frame.idxSame.len]; exact hrows)
    refine ⟨w', hok, ?_⟩
    refine
      { base := ca.base, rinv := ca.rinv, qk := hI.qk.trans ca.qk
        frame := hI.frame.trans ca.frame
        len := by have := ca.lenB; omega
        done := ?_ }
    intro b B hB' hrel
    by_cases e : b = a
    · subst e
      right
      rw [← arch_of_get hB']; exact ca.noKey
    · rw [ca.others b e] at hB'
      rcases hI.done b B hB' hrel with h1 | h1
      · rcases List.mem_cons.1 h1 with h2 | h2
        · exact absurd h2 e
        · exact Or.inl h2
      · exact Or.inr h1
  obtain ⟨w', hok, hO⟩ := hloop w.relationArchetypes w
    { base := hB, qk := QKeep.refl w, rinv := hR, frame := CleanFrameD.refl w, len := Nat.le_refl _
      done := fun b B hB' hrel => Or.inl (hB.relArchs b B hB' hrel) }
  refine ⟨w', hok, hO.base, hO.qk, hO.rinv, hO.frame, ?_, by have := hO.len; simpa using this⟩
  intro t T hT hf i hi hid
  have hS := hO.base.sinv.toSInvMid
  obtain ⟨A, hA, _, e2, _⟩ := hS.tblArch t T hT
  have hact : t ∈ A.tables.tables := by
    have := (hS.member t T hT).1
    rw [arch_of_get hA] at this
    exact this.1 hf
  have hiA : A.isRel.getD i false = true := by rw [← e2]; exact hi
  have hrel : A.hasRelations = true := (hS.astruct _ A hA).hasRelations_of_rel hiA
  rcases hO.done _ A hA hrel with h1 | h1
  · cases h1
  · refine (hO.rinv _ A hA).target_none h1 t ⟨hact, i, hiA, ?_⟩
    show (((w'.tbl t).targets).getD i Ent.zero).id = g.id
    rw [tbl_of_get hT]; exact hid

end Ark
