/-
  Ark.Proofs.ResetEquivOut — the OUTCOME of every operation of the history machine `Ark.Refine`
  is a function of the specification state (and of the next handle of the entity pool).

  `Refine.StepGoal` says that an operation whose precondition holds succeeds and one whose
  precondition fails panics; it does not say WHICH handle a creation returns, WHICH panic class a
  rejected call has, or what the pool and the registry look like afterwards.  This file adds
  exactly that (`exec_facts`):

  * `Outcome` (`ok ret | panic k`), `outcome`, `Op.creates`, `retSpec`;
  * `rejKind ss op` — the panic class of a rejected call, computed from the specification alone
    (`findKind`: the mask walk of `graph.Find` on the mask of the key set of the entry);
  * `specOutcome ss fresh op` — accepted with the handle `fresh` / without a handle, or rejected
    with `rejKind`; `pre ss op` is decidable;
  * `poolAfter`, `kindsAfter` — what an accepted operation does to the pool and the registry;
  * `ExecFacts`, `exec_facts` — under the invariant `HInv`, within the size bounds, for an
    expressible operation (`guard`): accepted ⇒ `exec = .ok (retSpec (pool.get).2 op) w'` with
    `w'.pool = poolAfter …`, `w'.kinds = kindsAfter …`; rejected ⇒ `exec = .panic (rejKind …) s.w`;
  * `exec_outcome` — `outcome (exec run s.w op) = specOutcome s.ss (s.w.pool.get).2 op`.

  Kernel-only proofs, core Lean only.
-/
import Ark.Proofs.Refine

set_option autoImplicit false

namespace Ark

open World Ark.Props.C01World

/-! ## 1. `graph.Find` does not look at the world -/

namespace World

/-- replace the state a result carries -/
def setSt {α : Type} (r : Res World α) (w : World) : Res World α :=
  match r with
  | .ok a _ => .ok a w
  | .panic k _ => .panic k w

theorem graphFindRemove_go_indep (w w' : World) : ∀ (rem : List Comp) (m : Mask),
    graphFindRemove.go w m rem = setSt (graphFindRemove.go w' m rem) w
  | [], _ => rfl
  | c :: rest, m => by
    simp only [graphFindRemove.go]
    split
    · rfl
    · exact graphFindRemove_go_indep w w' rest _

theorem graphFind_go_indep (start : Mask) (w w' : World) : ∀ (add : List Comp) (m : Mask),
    graphFind.go start w m add = setSt (graphFind.go start w' m add) w
  | [], _ => rfl
  | c :: rest, m => by
    simp only [graphFind.go]
    split
    · rfl
    · split
      · rfl
      · exact graphFind_go_indep start w w' rest _

/-- the mask walk of `graph.Find` is a function of the masks and the lists: the world is only
    handed through -/
theorem graphFind_indep (start m : Mask) (add rem : List Comp) (w w' : World) :
    graphFind start m add rem w = setSt (graphFind start m add rem w') w := by
  simp only [graphFind, graphFindRemove]
  rw [graphFindRemove_go_indep w w' rem m]
  have hst := graphFindRemove_go_state w' rem m
  cases hr : graphFindRemove.go w' m rem with
  | panic k s => rfl
  | ok m1 s =>
    have : s = w' := hst m1 s hr
    subst this
    simp only [setSt]
    exact graphFind_go_indep start w s add m1

/-- **rejection with its class**: an `exchange` on an alive entity, not both lists empty, whose
    mask walk panics with `k`, panics with `k` and the state unchanged -/
theorem exchangeCore_reject_kind (run : ProbeRunner) (e : Ent) (add rem : List Comp)
    (rels : List RelID) (w : World) (hl : w.isLocked = false) (ha : w.alive e = true)
    (hne : ¬ (add = [] ∧ rem = [])) {k : PanicKind}
    (hg : graphFind (w.maskOf e) (w.maskOf e) add rem w = .panic k w) :
    exchangeCore run e add rem rels w = .panic k w := by
  have hemp : (add.isEmpty && rem.isEmpty) = false := by
    cases add with
    | nil =>
      cases rem with
      | nil => exact absurd ⟨rfl, rfl⟩ hne
      | cons _ _ => rfl
    | cons _ _ => rfl
  cases hix : w.index e.id with
  | mk oldT row =>
    have hm : w.maskOf e = (w.arch (w.tbl oldT).arch).mask := by simp only [maskOf, hix]
    rw [hm] at hg
    simp only [exchangeCore, bind, M.bind, checkLocked_unlocked w hl, M.get, M.assert, ha, if_true,
      hemp, Bool.not_false, hix, findOrCreateTable, hg]

end World

namespace Refine

/-! ## 2. outcomes -/

/-- what a client sees of one call: the returned handle (if any), or the panic class -/
inductive Outcome
  | ok (ret : Option Ent)
  | panic (k : PanicKind)
  deriving DecidableEq, Repr

def outcome : Res World (Option Ent) → Outcome
  | .ok r _ => .ok r
  | .panic k _ => .panic k

/-- the operations that return a new handle -/
def Op.creates : Op → Bool
  | .new _ _ _ => true
  | .new0 => true
  | .copy _ => true
  | _ => false

/-- the value an accepted operation returns (`fresh` = the next handle of the pool) -/
def retSpec (fresh : Ent) (op : Op) : Option Ent := if op.creates = true then some fresh else none

/-- the panic class of the mask walk of `graph.Find` from the mask `m` (meaningful when the walk
    fails) -/
def findKind (m : Mask) (add rem : List Comp) : PanicKind :=
  match graphFind m m add rem default with
  | .panic k _ => k
  | .ok _ _ => .other

theorem findKind_of_panic {m : Mask} {add rem : List Comp} {w w1 : World} {k : PanicKind}
    (h : graphFind m m add rem w = .panic k w1) : findKind m add rem = k := by
  have := graphFind_indep m m add rem default w
  rw [h] at this
  simp only [findKind, this, setSt]

/-- **the panic class of a rejected call**, from the specification alone: a full registry; a
    duplicate in the list of a `new`; an unknown or dead handle; an empty list; a component
    already present (or listed twice) / absent (or listed twice); for `Exchange` the class the mask
    walk reports (`missing`, `alreadyHas`, `addedAndRemoved` — in the order `graph.Find` checks) -/
def rejKind (ss : SS) : Op → PanicKind
  | .reg _ _ => .registryFull
  | .new _ _ _ => .alreadyHas
  | .new0 => .other
  | .add _ e ids _ =>
    match find ss.ents e with
    | none => .deadEntity
    | some _ => if ids = [] then .noComponents else .alreadyHas
  | .rem _ e ids =>
    match find ss.ents e with
    | none => .deadEntity
    | some _ => if ids = [] then .noComponents else .missing
  | .xchg _ e add rem _ =>
    match find ss.ents e with
    | none => .deadEntity
    | some cs =>
      if add = [] ∧ rem = [] then .noComponents else findKind (Mask.ofList (keys cs)) add rem
  | .set e _ =>
    match find ss.ents e with
    | none => .deadEntity
    | some _ => .missing
  | .del _ => .deadEntity
  | .copy _ => .deadEntity
  | .shrink _ => .other
  | .reset => .other

/-- `∃ cs, o = some cs ∧ P cs` is decidable -/
def decSome (o : Option Comps) (P : Comps → Prop) [∀ cs, Decidable (P cs)] :
    Decidable (∃ cs, o = some cs ∧ P cs) :=
  match o with
  | none => isFalse (by rintro ⟨_, h, _⟩; cases h)
  | some cs =>
    if h : P cs then isTrue ⟨cs, rfl, h⟩
    else isFalse (by rintro ⟨cs', h', hp⟩; cases h'; exact h hp)

def decSome' (o : Option Comps) : Decidable (∃ cs, o = some cs) :=
  match o with
  | none => isFalse (by rintro ⟨_, h⟩; cases h)
  | some cs => isTrue ⟨cs, rfl⟩

/-- the precondition of an operation is decidable -/
instance instDecidablePre (ss : SS) : (op : Op) → Decidable (pre ss op)
  | .reg _ _ => inferInstanceAs (Decidable (ss.zst.length < 256))
  | .new _ ids _ => inferInstanceAs (Decidable (ids.Nodup ∧ ∀ c ∈ ids, c < ss.zst.length))
  | .new0 => isTrue trivial
  | .add _ e ids _ => decSome (find ss.ents e)
      (fun cs => ids ≠ [] ∧ ids.Nodup ∧ ∀ c ∈ ids, c < ss.zst.length ∧ c ∉ keys cs)
  | .rem _ e ids => decSome (find ss.ents e) (fun cs => ids ≠ [] ∧ ids.Nodup ∧ ∀ c ∈ ids, c ∈ keys cs)
  | .xchg _ e add rem _ => decSome (find ss.ents e) (fun cs => XchgOK ss.zst.length cs add rem)
  | .set e vals => decSome (find ss.ents e) (fun cs => ∀ cv ∈ vals, cv.1 ∈ keys cs)
  | .del e => decSome' (find ss.ents e)
  | .copy e => decSome' (find ss.ents e)
  | .shrink _ => isTrue trivial
  | .reset => isTrue trivial

/-- **the outcome of a call according to the specification**: accepted (with the handle `fresh`
    for a creation) iff the precondition holds, otherwise rejected with `rejKind` -/
def specOutcome (ss : SS) (fresh : Ent) (op : Op) : Outcome :=
  if pre ss op then .ok (retSpec fresh op) else .panic (rejKind ss op)

/-- the pool after an accepted operation: a creation takes a handle, `RemoveEntity` recycles
    one, `Reset` resets, everything else leaves the pool alone -/
def poolAfter (p : Pool) : Op → Pool
  | .new _ _ _ => (p.get).1
  | .new0 => (p.get).1
  | .copy _ => (p.get).1
  | .del e => p.recycle e
  | .reset => p.reset
  | _ => p

/-- the registry after an accepted operation: `reg` appends one component type -/
def kindsAfter (ks : List CompKind) : Op → List CompKind
  | .reg size z => ks ++ [{ isRel := false, zst := z, size := size }]
  | _ => ks

/-- everything the simulation needs to know about one call -/
structure ExecFacts (run : ProbeRunner) (s : St) (op : Op) : Prop where
  /-- accepted: the returned handle is the pool's next handle (creations) or nothing; the pool
      and the registry change as `poolAfter` / `kindsAfter` say -/
  acc : pre s.ss op → ∃ w', exec run s.w op = .ok (retSpec (s.w.pool.get).2 op) w' ∧
    w'.pool = poolAfter s.w.pool op ∧ w'.kinds = kindsAfter s.w.kinds op
  /-- rejected: the panic class is `rejKind`, the world is unchanged -/
  rej : ¬ pre s.ss op → exec run s.w op = .panic (rejKind s.ss op) s.w

namespace HInv

variable {s : St} {fl : List Nat}

theorem dead_of_find_none (H : HInv s fl) {e : Ent} (hi : e ∈ s.issued)
    (hf : find s.ss.ents e = none) : s.w.alive e = false := by
  cases ha : s.w.alive e with
  | false => rfl
  | true =>
    obtain ⟨cs, hcs, _⟩ := H.find_of_alive hi ha
    rw [hf] at hcs; cases hcs

/-- the archetype mask of a specified entity is the mask of the key set of its entry -/
theorem maskOf_eq' (H : HInv s fl) {e : Ent} {cs : Comps} (hm : (e, cs) ∈ s.ss.ents) :
    s.w.maskOf e = Mask.ofList (keys cs) := by
  apply Mask.ext_get
  intro c hc
  rw [Mask.get_ofList, Bool.eq_iff_iff, H.mask_iff hm c]
  simp [hc]

end HInv

/-! ## 3. one lemma per operation -/

section Ops

variable (run : ProbeRunner) {s : St} {fl : List Nat}

theorem facts_reg (H : HInv s fl) (size : Nat) (z : Bool) : ExecFacts run s (.reg size z) := by
  constructor
  · intro hlt
    have hlt : s.ss.zst.length < 256 := hlt
    have hlt' : s.w.kinds.length < s.w.maxComps := by rw [H.maxc, ← H.zlen]; exact hlt
    obtain ⟨w', hr⟩ := registerComponent_ok_of { isRel := false, zst := z, size := size } s.w hlt'
      H.unlocked
    obtain ⟨_, _, hks, _, _, _, _, _, hpool, _⟩ :=
      H.cinv.registerComponent (k := { isRel := false, zst := z, size := size }) rfl hr
    exact ⟨w', by simp only [exec, hr]; rfl, hpool, hks⟩
  · intro hnp
    have hlt : ¬ s.ss.zst.length < 256 := hnp
    have hfull : s.w.maxComps ≤ s.w.kinds.length := by rw [H.maxc, ← H.zlen]; omega
    have hr := registerComponent_full { isRel := false, zst := z, size := size } s.w hfull
    simp only [exec, hr, rejKind]

theorem facts_new (H : HInv s fl) (hfew : s.w.tables.length < maxU32)
    (hent : s.w.entities.length + 1 < 2 ^ 32) (p : Path) (ids : List Comp) (vals : Comps)
    (hg : guard s (.new p ids vals) = true) : ExecFacts run s (.new p ids vals) := by
  have hreg : ∀ c ∈ ids, c < s.ss.zst.length := by
    simpa only [guard, List.all_eq_true, decide_eq_true_eq] using hg
  have hreg' : ∀ (c : Comp), c ∈ ids → c < s.w.kinds.length := by rw [← H.zlen]; exact hreg
  have hb256 : ∀ (c : Comp), c ∈ ids → c < 256 := fun c hc => H.cinv.reg_lt_256 (hreg' c hc)
  constructor
  · intro hp
    have hnd : ids.Nodup := hp.1
    obtain ⟨w', hop, post⟩ := opNewEntity_spec run p H.cinv H.unlocked hnd hreg' vals hfew
      (H.hrows hent)
    exact ⟨w', by simp only [exec, hop]; rfl, post.pool, post.kinds⟩
  · intro hnp
    have hnd : ¬ ids.Nodup := fun h => hnp ⟨h, hreg⟩
    have hop := opNewEntity_dup run p ids vals s.w H.unlocked hb256 hnd
    simp only [exec, hop, rejKind]

theorem facts_new0 (H : HInv s fl) (hent : s.w.entities.length + 1 < 2 ^ 32) :
    ExecFacts run s .new0 := by
  constructor
  · intro _
    obtain ⟨w', hop, post, _⟩ := opNewEntity0_spec run H.cinv H.unlocked (H.hrows hent 0)
    exact ⟨w', by simp only [exec, hop]; rfl, post.pool, post.kinds⟩
  · intro hnp; exact absurd trivial hnp

theorem facts_del (H : HInv s fl) (e : Ent) (hg : guard s (.del e) = true) :
    ExecFacts run s (.del e) := by
  have hi : e ∈ s.issued := by simpa only [guard, decide_eq_true_eq] using hg
  constructor
  · rintro ⟨cs, hf⟩
    have hm := find_some_mem hf
    obtain ⟨_, ha, h2, hnf, _, hsl⟩ := H.live_facts hm
    have hin := (List.getElem?_eq_some_iff.mp hsl).1
    obtain ⟨w', hop, post⟩ := opRemoveEntity_spec run H.cinv H.unlocked h2 hnf ha hin
    exact ⟨w', by simp only [exec, hop]; rfl, post.pool, post.kinds⟩
  · intro hnp
    have hf : find s.ss.ents e = none := by
      cases hf : find s.ss.ents e with
      | none => rfl
      | some cs => exact absurd ⟨cs, hf⟩ hnp
    have hop := opRemoveEntity_dead run s.w H.unlocked e (H.dead_of_find_none hi hf)
    simp only [exec, hop, rejKind]

theorem facts_copy (H : HInv s fl) (hent : s.w.entities.length + 1 < 2 ^ 32) (e : Ent)
    (hg : guard s (.copy e) = true) : ExecFacts run s (.copy e) := by
  have hi : e ∈ s.issued := by simpa only [guard, decide_eq_true_eq] using hg
  constructor
  · rintro ⟨cs, hf⟩
    have hm := find_some_mem hf
    obtain ⟨_, ha, h2, hnf, _, hsl⟩ := H.live_facts hm
    have hin := (List.getElem?_eq_some_iff.mp hsl).1
    obtain ⟨w', hop, post⟩ := opCopyEntity_spec run H.cinv H.unlocked h2 hnf ha hin (H.hrows hent)
    exact ⟨w', by simp only [exec, hop]; rfl, post.pool, post.kinds⟩
  · intro hnp
    have hf : find s.ss.ents e = none := by
      cases hf : find s.ss.ents e with
      | none => rfl
      | some cs => exact absurd ⟨cs, hf⟩ hnp
    have hop := opCopyEntity_dead run s.w H.unlocked e (H.dead_of_find_none hi hf)
    simp only [exec, hop, rejKind]

theorem facts_shrink (H : HInv s fl) (hent : s.w.entities.length + 1 < 2 ^ 32) (bounded : Bool) :
    ExecFacts run s (.shrink bounded) := by
  constructor
  · intro _
    obtain ⟨b, w', hop, post⟩ := opShrink_spec H.cinv H.unlocked (H.hrows hent) bounded
    exact ⟨w', by simp only [exec, hop]; rfl, post.pool, post.kinds⟩
  · intro hnp; exact absurd trivial hnp

theorem facts_reset (H : HInv s fl) : ExecFacts run s .reset := by
  constructor
  · intro _
    obtain ⟨w', hop, post⟩ := opReset_spec H.cinv H.unlocked
    exact ⟨w', by simp only [exec, hop]; rfl, post.pool, post.kinds⟩
  · intro hnp; exact absurd trivial hnp

theorem facts_add (H : HInv s fl) (hfew : s.w.tables.length < maxU32)
    (hent : s.w.entities.length + 1 < 2 ^ 32) (p : Path) (e : Ent) (ids : List Comp) (vals : Comps)
    (hg : guard s (.add p e ids vals) = true) : ExecFacts run s (.add p e ids vals) := by
  have hg' : e ∈ s.issued ∧ ∀ c ∈ ids, c < s.ss.zst.length := by
    simpa only [guard, Bool.and_eq_true, List.all_eq_true, decide_eq_true_eq] using hg
  obtain ⟨hi, hreg⟩ := hg'
  have hreg' : ∀ (c : Comp), c ∈ ids → c < s.w.kinds.length := by rw [← H.zlen]; exact hreg
  have hb256 : ∀ (c : Comp), c ∈ ids → c < 256 := fun c hc => H.cinv.reg_lt_256 (hreg' c hc)
  constructor
  · rintro ⟨cs, hf, hne, hnd, hall⟩
    have hm := find_some_mem hf
    obtain ⟨_, ha, h2, hnf, _, hsl⟩ := H.live_facts hm
    have hin := (List.getElem?_eq_some_iff.mp hsl).1
    have hnew : ∀ (c : Comp), c ∈ ids → (s.w.maskOf e).get c = false := by
      intro c hc
      cases hgc : (s.w.maskOf e).get c with
      | false => rfl
      | true => exact absurd ((H.mask_iff hm c).mp hgc) (hall c hc).2
    obtain ⟨w', hop, post⟩ := opAdd_spec run p H.cinv H.unlocked h2 hnf ha hin hne hnd hreg'
      hnew vals hfew (H.hrows hent)
    exact ⟨w', by simp only [exec, hop]; rfl, post.pool, post.kinds⟩
  · intro hnp
    cases hf : find s.ss.ents e with
    | none =>
      have hop := opAdd_dead_any run p e ids vals s.w H.unlocked (H.dead_of_find_none hi hf)
      simp only [exec, hop, rejKind, hf]
    | some cs =>
      have hm := find_some_mem hf
      obtain ⟨_, ha, _⟩ := H.live_facts hm
      by_cases hne : ids = []
      · subst hne
        have hop := opAdd_panic run p e [] vals s.w ha (addCore_noComponents s.w H.unlocked e ha [])
        simp only [exec, hop, rejKind, hf, if_true]
      · have hop := opAdd_panic run p e ids vals s.w ha
          (addCore_alreadyHas e ids [] s.w H.unlocked ha hne hb256 (by
            rintro ⟨hnd, hnew⟩
            refine hnp ⟨cs, hf, hne, hnd, fun c hc => ⟨hreg c hc, fun hk => ?_⟩⟩
            have := (H.mask_iff hm c).mpr hk
            rw [hnew c hc] at this; cases this))
        simp only [exec, hop, rejKind, hf, if_neg hne]

theorem facts_rem (H : HInv s fl) (hfew : s.w.tables.length < maxU32)
    (hent : s.w.entities.length + 1 < 2 ^ 32) (p : Path) (e : Ent) (ids : List Comp)
    (hg : guard s (.rem p e ids) = true) : ExecFacts run s (.rem p e ids) := by
  have hi : e ∈ s.issued := by simpa only [guard, decide_eq_true_eq] using hg
  constructor
  · rintro ⟨cs, hf, hne, hnd, hall⟩
    have hm := find_some_mem hf
    obtain ⟨_, ha, h2, hnf, _, hsl⟩ := H.live_facts hm
    have hin := (List.getElem?_eq_some_iff.mp hsl).1
    have hpres : ∀ (c : Comp), c ∈ ids → (s.w.maskOf e).get c = true :=
      fun c hc => (H.mask_iff hm c).mpr (hall c hc)
    obtain ⟨w', hop, post⟩ := opRemove_spec run p H.cinv H.unlocked h2 hnf ha hin hne hnd
      hpres hfew (H.hrows hent)
    exact ⟨w', by simp only [exec, hop]; rfl, post.pool, post.kinds⟩
  · intro hnp
    cases hf : find s.ss.ents e with
    | none =>
      have hop := opRemove_dead_any run p e ids s.w H.unlocked (H.dead_of_find_none hi hf)
      simp only [exec, hop, rejKind, hf]
    | some cs =>
      have hm := find_some_mem hf
      obtain ⟨_, ha, _⟩ := H.live_facts hm
      by_cases hne : ids = []
      · subst hne
        have hop : opRemove run p e [] s.w = .panic .noComponents s.w := by
          rw [opRemove_eq run _ e [] s.w ha]
          exact removeCore_noComponents run s.w H.unlocked e ha
        simp only [exec, hop, rejKind, hf, if_true]
      · have hop : opRemove run p e ids s.w = .panic .missing s.w := by
          rw [opRemove_eq run _ e ids s.w ha]
          refine removeCore_missing run e ids s.w H.unlocked ha hne ?_
          rintro ⟨hnd, hp⟩
          exact hnp ⟨cs, hf, hne, hnd, fun c hc => (H.mask_iff hm c).mp (hp c hc)⟩
        simp only [exec, hop, rejKind, hf, if_neg hne]

theorem facts_xchg (H : HInv s fl) (hfew : s.w.tables.length < maxU32)
    (hent : s.w.entities.length + 1 < 2 ^ 32) (p : Path) (e : Ent) (add rem : List Comp)
    (vals : Comps) (hg : guard s (.xchg p e add rem vals) = true) :
    ExecFacts run s (.xchg p e add rem vals) := by
  have hg' : e ∈ s.issued ∧ ∀ c ∈ add, c < s.ss.zst.length := by
    simpa only [guard, Bool.and_eq_true, List.all_eq_true, decide_eq_true_eq] using hg
  obtain ⟨hi, hreg⟩ := hg'
  have hreg' : ∀ (c : Comp), c ∈ add → c < s.w.kinds.length := by rw [← H.zlen]; exact hreg
  have hb256 : ∀ (c : Comp), c ∈ add → c < 256 := fun c hc => H.cinv.reg_lt_256 (hreg' c hc)
  constructor
  · rintro ⟨cs, hf, hne, hrnd, hrall, hand, hall⟩
    have hm := find_some_mem hf
    obtain ⟨_, ha, h2, hnf, _, hsl⟩ := H.live_facts hm
    have hin := (List.getElem?_eq_some_iff.mp hsl).1
    have hpres : ∀ (c : Comp), c ∈ rem → (s.w.maskOf e).get c = true :=
      fun c hc => (H.mask_iff hm c).mpr (hrall c hc)
    have hnew : ∀ (c : Comp), c ∈ add → (s.w.maskOf e).get c = false := by
      intro c hc
      cases hgc : (s.w.maskOf e).get c with
      | false => rfl
      | true => exact absurd ((H.mask_iff hm c).mp hgc) (hall c hc).2
    obtain ⟨w', hop, post⟩ := opExchange_spec run p H.cinv H.unlocked h2 hnf ha hin hne hrnd hpres
      hand hreg' hnew vals hfew (H.hrows hent)
    exact ⟨w', by simp only [exec, hop]; rfl, post.pool, post.kinds⟩
  · intro hnp
    cases hf : find s.ss.ents e with
    | none =>
      have hop := opExchange_dead_any run p e add vals rem s.w H.unlocked
        (H.dead_of_find_none hi hf)
      simp only [exec, hop, rejKind, hf]
    | some cs =>
      have hm := find_some_mem hf
      obtain ⟨_, ha, _⟩ := H.live_facts hm
      by_cases hne : add = [] ∧ rem = []
      · obtain ⟨rfl, rfl⟩ := hne
        have hop := opExchange_panic run p e [] vals [] s.w ha
          (exchangeCore_noComponents run s.w H.unlocked e ha [])
        simp only [exec, hop, rejKind, hf, and_self, if_true]
      · obtain ⟨k, _, hk⟩ := graphFind_bad (s.w.maskOf e) add rem s.w hb256 (by
          rintro ⟨hrnd, hpres, hand, hnew⟩
          refine hnp ⟨cs, hf, hne, hrnd, fun c hc => (H.mask_iff hm c).mp (hpres c hc), hand,
            fun c hc => ⟨hreg c hc, fun hk => ?_⟩⟩
          have := (H.mask_iff hm c).mpr hk
          rw [hnew c hc] at this; cases this)
        have hop := opExchange_panic run p e add vals rem s.w ha
          (exchangeCore_reject_kind run e add rem [] s.w H.unlocked ha hne hk)
        have hkind : findKind (Mask.ofList (keys cs)) add rem = k := by
          rw [← H.maskOf_eq' hm]; exact findKind_of_panic hk
        simp only [exec, hop, rejKind, hf, if_neg hne, hkind]

theorem facts_set (H : HInv s fl) (e : Ent) (vals : Comps) (hg : guard s (.set e vals) = true) :
    ExecFacts run s (.set e vals) := by
  have hi : e ∈ s.issued := by simpa only [guard, decide_eq_true_eq] using hg
  constructor
  · rintro ⟨cs, hf, hv⟩
    have hm := find_some_mem hf
    obtain ⟨_, ha, h2, hnf, _, hsl⟩ := H.live_facts hm
    have hin := (List.getElem?_eq_some_iff.mp hsl).1
    have hmask : ∀ (c : Comp), c ∈ keys vals → (s.w.maskOf e).get c = true := by
      intro c hc
      obtain ⟨cv, hcv, rfl⟩ := List.mem_map.mp hc
      exact (H.mask_iff hm cv.1).mpr (hv cv hcv)
    obtain ⟨w', hop, post⟩ := opSet_spec_c run H.cinv h2 hnf ha hin hmask vals
    exact ⟨w', by simp only [exec, hop]; rfl, post.pool, post.kinds⟩
  · intro hnp
    cases hf : find s.ss.ents e with
    | none =>
      have hop := World.opSet_dead run s.w e (H.dead_of_find_none hi hf) (keys vals) vals
      simp only [exec, hop, rejKind, hf]
    | some cs =>
      have hm := find_some_mem hf
      obtain ⟨_, ha, h2, hnf, _, hsl⟩ := H.live_facts hm
      have hin := (List.getElem?_eq_some_iff.mp hsl).1
      have hop := opSet_missing_c run H.cinv h2 hnf ha hin (ids := keys vals)
        (fun hh => hnp ⟨cs, hf, fun cv hcv =>
          (H.mask_iff hm cv.1).mp (hh cv.1 (List.mem_map.mpr ⟨cv, hcv, rfl⟩))⟩) vals
      simp only [exec, hop, rejKind, hf]

end Ops

/-! ## 4. all operations -/

/-- **exec_facts** — under the invariant, within the size bounds, every expressible operation
    behaves as the specification says: see `ExecFacts` -/
theorem exec_facts (run : ProbeRunner) {s : St} {fl : List Nat} (H : HInv s fl)
    (hfew : s.w.tables.length < maxU32) (hent : s.w.entities.length + 1 < 2 ^ 32) (op : Op)
    (hg : guard s op = true) : ExecFacts run s op := by
  cases op with
  | reg size z => exact facts_reg run H size z
  | new p ids vals => exact facts_new run H hfew hent p ids vals hg
  | new0 => exact facts_new0 run H hent
  | add p e ids vals => exact facts_add run H hfew hent p e ids vals hg
  | rem p e ids => exact facts_rem run H hfew hent p e ids hg
  | xchg p e add rem vals => exact facts_xchg run H hfew hent p e add rem vals hg
  | set e vals => exact facts_set run H e vals hg
  | del e => exact facts_del run H e hg
  | copy e => exact facts_copy run H hent e hg
  | shrink bounded => exact facts_shrink run H hent bounded
  | reset => exact facts_reset run H

/-- **the outcome of a call is a function of the specification** (and of the pool's next
    handle): returned handle, accept/reject decision and panic class -/
theorem exec_outcome (run : ProbeRunner) {s : St} {fl : List Nat} (H : HInv s fl)
    (hfew : s.w.tables.length < maxU32) (hent : s.w.entities.length + 1 < 2 ^ 32) (op : Op)
    (hg : guard s op = true) :
    outcome (exec run s.w op) = specOutcome s.ss (s.w.pool.get).2 op := by
  have F := exec_facts run H hfew hent op hg
  by_cases hp : pre s.ss op
  · obtain ⟨w', hex, _⟩ := F.acc hp
    rw [hex, specOutcome, if_pos hp]; rfl
  · rw [F.rej hp, specOutcome, if_neg hp]; rfl

end Refine

end Ark
