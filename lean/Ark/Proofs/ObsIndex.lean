/-
  Ark.Proofs.ObsIndex — the bookkeeping invariant of the observer manager (observer objects ↔
  per-event lists ↔ id index), established by the empty manager and kept by `Observer.Register`
  and `Observer.Unregister`.

  `MInv m`:
  * the id pool never recycles (`RemoveObserver` does not return the id; only `Reset` clears the
    pool), and every id in use is below the pool's length — so `Get()` hands out a fresh id;
  * two observer objects never share an id;
  * the index maps the id of a registered object to its position in the list of its event type;
  * an object listed under an event type is an object for that event type and has an id.

  Consequences: the side conditions of Ark/Proofs/CallbacksSetting.lean / CallbacksCbs.lean hold
  in every state reached by registrations and unregistrations: `Register` only succeeds for an
  object that is listed nowhere (`MInv.fresh_of_unregistered`), and the index of every registered
  object points at it (`MInv.indexOK`).

  Kernel-only proofs, core Lean only.
-/
import Ark.Proofs.CallbacksCbs

set_option autoImplicit false

namespace Ark

open World Spec

/-- the bookkeeping invariant of the observer manager -/
structure MInv (m : ObsMgr) : Prop where
  /-- the observer-id pool never recycles -/
  noRecycle : m.pool.available = 0
  /-- ids in use are below the next fresh id -/
  bounded : ∀ (l oid : Nat), (m.obj l).oid = some oid → oid < m.pool.pool.length
  /-- ids are unique -/
  unique : ∀ (l1 l2 oid : Nat), (m.obj l1).oid = some oid → (m.obj l2).oid = some oid → l1 = l2
  /-- the index of a registered object points at it -/
  index : ∀ (l oid : Nat), (m.obj l).oid = some oid →
    ∃ idx, AL.find? m.indices oid = some idx ∧
      (m.evt (m.obj l).spec.event).observers[idx]? = some l
  /-- a listed object belongs to the event type and is registered -/
  listed : ∀ (evt l : Nat), l ∈ (m.evt evt).observers →
    (m.obj l).spec.event = evt ∧ (m.obj l).oid.isSome = true

theorem minv_init : MInv {} where
  noRecycle := rfl
  bounded := fun l oid h => by simp [ObsMgr.obj, AL.find?] at h
  unique := fun l1 l2 oid h => by simp [ObsMgr.obj, AL.find?] at h
  index := fun l oid h => by simp [ObsMgr.obj, AL.find?] at h
  listed := fun evt l h => by simp [ObsMgr.evt, AL.find?] at h

/-- an object without an id is listed nowhere: the freshness condition of `Register` -/
theorem MInv.fresh_of_unregistered {m : ObsMgr} (h : MInv m) {l : Nat} (hl : (m.obj l).oid = none)
    (evt : Nat) : l ∉ (m.evt evt).observers := by
  intro hm
  have := (h.listed evt l hm).2
  rw [hl] at this
  cases this

/-- the index condition of `unregister_other` -/
theorem MInv.indexOK {m : ObsMgr} (h : MInv m) (l : Nat) : IndexOK m l := by
  intro oid idx ho hi
  obtain ⟨idx', h1, h2⟩ := h.index l oid ho
  rw [hi] at h1
  rw [Option.some.inj h1]
  exact h2

namespace ObsMgr

/-! ### `AddObserver` -/

theorem registered_obj (m : ObsMgr) (l : Nat) (d : ObsData) (x : Nat) :
    (m.registered l d).obj x
      = if x = l then { (m.obj l) with data := d, oid := some (m.pool.get).2 } else m.obj x := by
  unfold registered
  simp only []
  rw [addComputed_obj']
  split
  · rfl
  · rename_i hx
    exact obj_setObj_ne _ _ _ _ hx

theorem registered_pool (m : ObsMgr) (l : Nat) (d : ObsData) :
    (m.registered l d).pool = (m.pool.get).1 := by
  unfold registered addComputed
  simp only []
  rfl

theorem registered_indices (m : ObsMgr) (l : Nat) (d : ObsData) :
    (m.registered l d).indices
      = AL.insert m.indices (m.pool.get).2 (m.evt (m.obj l).spec.event).observers.length := by
  unfold registered addComputed
  simp only []
  rfl

theorem registered_evt_self (m : ObsMgr) (l : Nat) (d : ObsData) :
    ((m.registered l d).evt (m.obj l).spec.event).observers
      = (m.evt (m.obj l).spec.event).observers ++ [l] := by
  unfold registered
  simp only []
  rw [addComputed_evt_self, added_observers]
  rfl

theorem registered_evt_ne (m : ObsMgr) (l : Nat) (d : ObsData) (e : Nat)
    (h : e ≠ (m.obj l).spec.event) : (m.registered l d).evt e = m.evt e := by
  unfold registered
  simp only []
  rw [addComputed_evt_ne _ _ _ _ _ _ h]
  rfl

end ObsMgr

theorem IntPool.get_of_noRecycle {p : IntPool} (h : p.available = 0) :
    (p.get).2 = p.pool.length ∧ (p.get).1.available = 0 ∧
      (p.get).1.pool.length = p.pool.length + 1 := by
  simp [IntPool.get, h, IntPool.getNew]

/-- **`AddObserver` keeps the bookkeeping invariant** (for an object that has no id yet: the
    check `Register` performs) -/
theorem MInv.registered {m : ObsMgr} (h : MInv m) {l : Nat} (hl : (m.obj l).oid = none)
    (d : ObsData) : MInv (m.registered l d) := by
  obtain ⟨hid, hav, hlen⟩ := IntPool.get_of_noRecycle h.noRecycle
  have hfresh := h.fresh_of_unregistered hl
  have hobj := ObsMgr.registered_obj m l d
  have hoid : ∀ x oid, ((m.registered l d).obj x).oid = some oid →
      (x = l ∧ oid = m.pool.pool.length) ∨ (x ≠ l ∧ (m.obj x).oid = some oid) := by
    intro x oid hx
    rw [hobj] at hx
    split at hx
    · rename_i hxl
      left
      refine ⟨hxl, ?_⟩
      simp only [Option.some.injEq] at hx
      rw [← hx, hid]
    · rename_i hxl
      exact Or.inr ⟨hxl, hx⟩
  have hspec : ∀ x, ((m.registered l d).obj x).spec = (m.obj x).spec := by
    intro x; rw [hobj]; split
    · rename_i hx; subst hx; rfl
    · rfl
  refine ⟨?_, ?_, ?_, ?_, ?_⟩
  · rw [ObsMgr.registered_pool]; exact hav
  · intro x oid hx
    rw [ObsMgr.registered_pool, hlen]
    rcases hoid x oid hx with ⟨_, rfl⟩ | ⟨_, h2⟩
    · omega
    · have := h.bounded x oid h2; omega
  · intro x1 x2 oid h1 h2
    rcases hoid x1 oid h1 with ⟨e1, o1⟩ | ⟨n1, g1⟩ <;> rcases hoid x2 oid h2 with ⟨e2, o2⟩ | ⟨n2, g2⟩
    · rw [e1, e2]
    · have := h.bounded x2 oid g2; omega
    · have := h.bounded x1 oid g1; omega
    · exact h.unique x1 x2 oid g1 g2
  · intro x oid hx
    rw [ObsMgr.registered_indices, hspec]
    rcases hoid x oid hx with ⟨rfl, rfl⟩ | ⟨hxl, g⟩
    · refine ⟨_, by rw [hid]; exact AL.find?_insert_self _ _ _, ?_⟩
      rw [ObsMgr.registered_evt_self]
      simp
    · obtain ⟨idx, i1, i2⟩ := h.index x oid g
      have hne : oid ≠ (m.pool.get).2 := by
        rw [hid]; have := h.bounded x oid g; omega
      refine ⟨idx, by rw [AL.find?_insert_ne _ _ _ _ hne]; exact i1, ?_⟩
      by_cases hev : (m.obj x).spec.event = (m.obj l).spec.event
      · rw [hev, ObsMgr.registered_evt_self]
        rw [hev] at i2
        rw [List.getElem?_append_left (List.getElem?_eq_some_iff.mp i2).1]
        exact i2
      · rw [ObsMgr.registered_evt_ne _ _ _ _ hev]; exact i2
  · intro evt x hx
    rw [hspec]
    by_cases hev : evt = (m.obj l).spec.event
    · subst hev
      rw [ObsMgr.registered_evt_self] at hx
      rcases List.mem_append.mp hx with hx | hx
      · have hxl : x ≠ l := fun hh => hfresh _ (hh ▸ hx)
        rw [hobj, if_neg hxl]
        exact h.listed _ x hx
      · have hxl : x = l := by simpa using hx
        subst hxl
        rw [hobj, if_pos rfl]
        exact ⟨rfl, rfl⟩
    · rw [ObsMgr.registered_evt_ne _ _ _ _ hev] at hx
      have hxl : x ≠ l := fun hh => hfresh _ (hh ▸ hx)
      rw [hobj, if_neg hxl]
      exact h.listed evt x hx

/-! ### `RemoveObserver` -/

namespace ObsMgr

theorem removeAt_obj (m : ObsMgr) (l oid idx x : Nat) :
    (m.removeAt l oid idx).obj x = if x = l then { (m.obj l) with oid := none } else m.obj x := by
  have key : ∀ (M1 : ObsMgr), M1.objs = AL.insert m.objs l { m.obj l with oid := none } →
      M1.obj x = if x = l then { (m.obj l) with oid := none } else m.obj x := by
    intro M1 h
    have : M1.obj x = (m.setObj l { m.obj l with oid := none }).obj x := by
      simp only [obj, setObj, h]
    rw [this]
    by_cases hx : x = l
    · subst hx; rw [obj_setObj_self, if_pos rfl]
    · rw [obj_setObj_ne _ _ _ _ hx, if_neg hx]
  unfold removeAt
  simp only []
  split <;> split <;> simp only [obj_setEvt] <;> exact key _ rfl

theorem removeAt_pool (m : ObsMgr) (l oid idx : Nat) : (m.removeAt l oid idx).pool = m.pool := by
  unfold removeAt
  simp only []
  split <;> split <;> rfl

/-- the id of the element that the swap-remove moves into the hole -/
def movedId (m : ObsMgr) (l : Nat) : Nat :=
  (((m.setObj l { m.obj l with oid := none }).obj
    ((m.evt (m.obj l).spec.event).observers.getD
      ((m.evt (m.obj l).spec.event).observers.length - 1) 0)).oid).getD 0

theorem removeAt_indices (m : ObsMgr) (l oid idx : Nat) :
    (m.removeAt l oid idx).indices =
      if idx = (m.evt (m.obj l).spec.event).observers.length - 1 then AL.erase m.indices oid
      else AL.insert (AL.erase m.indices oid) (movedId m l) idx := by
  unfold removeAt movedId
  simp only []
  by_cases hc : idx = (m.evt (m.obj l).spec.event).observers.length - 1
  · have hc' : ¬ ((idx != ((({ m with indices := AL.erase m.indices oid } : ObsMgr).evt
        (m.obj l).spec.event).observers.length - 1)) = true) := by
      simp only [bne_iff_ne, ne_eq, Decidable.not_not]; exact hc
    rw [if_neg hc', if_pos hc]
    split <;> rfl
  · have hc' : (idx != ((({ m with indices := AL.erase m.indices oid } : ObsMgr).evt
        (m.obj l).spec.event).observers.length - 1)) = true := by
      simp only [bne_iff_ne, ne_eq]; exact hc
    rw [if_pos hc', if_neg hc]
    split <;> rfl

end ObsMgr

/-- **`RemoveObserver` keeps the bookkeeping invariant** (for a registered object, with the index
    the manager recorded for it; the lists duplicate-free) -/
theorem MInv.removeAt {m : ObsMgr} (h : MInv m) (hnd : ∀ evt, (m.evt evt).observers.Nodup)
    {l oid idx : Nat} (ho : (m.obj l).oid = some oid) (hi : AL.find? m.indices oid = some idx) :
    MInv (m.removeAt l oid idx) := by
  -- the situation before
  obtain ⟨idx', h1, hat⟩ := h.index l oid ho
  rw [hi] at h1
  have hidx : idx' = idx := (Option.some.inj h1).symm
  subst hidx
  generalize hev : (m.obj l).spec.event = ev at hat
  have hlt : idx' < (m.evt ev).observers.length := (List.getElem?_eq_some_iff.mp hat).1
  have hndE := hnd ev
  have hobj := ObsMgr.removeAt_obj m l oid idx'
  have hspec : ∀ x, ((m.removeAt l oid idx').obj x).spec = (m.obj x).spec :=
    ObsMgr.removeAt_spec m l oid idx'
  have hoid : ∀ x o, ((m.removeAt l oid idx').obj x).oid = some o → x ≠ l ∧ (m.obj x).oid = some o := by
    intro x o hx
    rw [hobj] at hx
    split at hx
    · cases hx
    · rename_i hxl; exact ⟨hxl, hx⟩
  have hevtSelf : ((m.removeAt l oid idx').evt ev).observers
      = ObsMgr.removedObs (m.evt ev).observers idx' := by
    rw [← hev, ObsMgr.removeAt_evt_self, ObsMgr.removedES_observers]
  have hevtNe : ∀ e, e ≠ ev → (m.removeAt l oid idx').evt e = m.evt e := by
    intro e he; rw [ObsMgr.removeAt_evt_ne _ _ _ _ _ (by rw [hev]; exact he)]
  have hmem : ∀ x, x ∈ ((m.removeAt l oid idx').evt ev).observers ↔
      x ∈ (m.evt ev).observers ∧ x ≠ l := by
    intro x
    rw [hevtSelf, mem_removedObs hndE hlt, hat]
    constructor
    · rintro ⟨a, b⟩; exact ⟨a, fun hh => b (by rw [hh])⟩
    · rintro ⟨a, b⟩; exact ⟨a, fun hh => b (Option.some.inj hh).symm⟩
  -- the last element and its id
  have hlast : (m.evt ev).observers.length - 1 < (m.evt ev).observers.length := by omega
  refine ⟨?_, ?_, ?_, ?_, ?_⟩
  · rw [ObsMgr.removeAt_pool]; exact h.noRecycle
  · intro x o hx
    rw [ObsMgr.removeAt_pool]
    exact h.bounded x o (hoid x o hx).2
  · intro x1 x2 o g1 g2
    exact h.unique x1 x2 o (hoid x1 o g1).2 (hoid x2 o g2).2
  · intro x o hx
    obtain ⟨hxl, gx⟩ := hoid x o hx
    obtain ⟨ix, j1, j2⟩ := h.index x o gx
    have hone : o ≠ oid := fun hh => hxl (h.unique x l oid (hh ▸ gx) ho)
    rw [hspec, ObsMgr.removeAt_indices, hev]
    by_cases hxe : (m.obj x).spec.event = ev
    · rw [hxe] at j2 ⊢
      have hix : ix < (m.evt ev).observers.length := (List.getElem?_eq_some_iff.mp j2).1
      have hixne : ix ≠ idx' := by
        intro hh; rw [hh, hat] at j2; exact hxl (Option.some.inj j2).symm
      rw [hevtSelf, removedObs_eq]
      by_cases hc : idx' = (m.evt ev).observers.length - 1
      · rw [if_pos hc, if_pos hc]
        refine ⟨ix, by rw [AL.find?_erase_ne _ _ _ hone]; exact j1, ?_⟩
        rw [List.getElem?_take_of_lt (by omega)]
        exact j2
      · rw [if_neg hc, if_neg hc]
        -- is `x` the last element (which moves to `idx'`)?
        by_cases hxlast : ix = (m.evt ev).observers.length - 1
        · -- x is the moved element: its id is `movedId`
          have hb : (m.evt ev).observers.getD ((m.evt ev).observers.length - 1) 0 = x := by
            rw [List.getD_eq_getElem?_getD, ← hxlast, j2]; rfl
          have hmid : ObsMgr.movedId m l = o := by
            unfold ObsMgr.movedId
            rw [hev, hb, ObsMgr.obj_setObj_ne _ _ _ _ hxl, gx]
            rfl
          refine ⟨idx', by rw [hmid]; exact AL.find?_insert_self _ _ _, ?_⟩
          rw [List.getElem?_set_self (by simp [List.length_take]; omega), hb]
        · have hmid : ObsMgr.movedId m l ≠ o := by
            intro hh
            -- the moved element has id `o`, so it is `x`; but `x` is not last
            have hbl : (m.evt ev).observers[(m.evt ev).observers.length - 1]? =
                some ((m.evt ev).observers.getD ((m.evt ev).observers.length - 1) 0) := by
              rw [List.getD_eq_getElem?_getD, List.getElem?_eq_getElem hlast]; rfl
            have hbmem : (m.evt ev).observers.getD ((m.evt ev).observers.length - 1) 0
                ∈ (m.evt ev).observers := List.mem_of_getElem? hbl
            have hbne : (m.evt ev).observers.getD ((m.evt ev).observers.length - 1) 0 ≠ l := by
              intro hbl'
              rw [hbl'] at hbl
              have := (List.getElem?_inj hlt hndE).mp (hat.trans hbl.symm)
              exact hc this
            obtain ⟨_, hsome⟩ := h.listed ev _ hbmem
            unfold ObsMgr.movedId at hh
            rw [hev, ObsMgr.obj_setObj_ne _ _ _ _ hbne] at hh
            cases hob : (m.obj ((m.evt ev).observers.getD ((m.evt ev).observers.length - 1) 0)).oid with
            | none => rw [hob] at hsome; cases hsome
            | some ob =>
              rw [hob] at hh
              have hobo : ob = o := hh
              subst hobo
              have hxb := h.unique x _ ob gx hob
              rw [← hxb] at hbl
              exact hxlast ((List.getElem?_inj hix hndE).mp (j2.trans hbl.symm))
          refine ⟨ix, by rw [AL.find?_insert_ne _ _ _ _ (Ne.symm hmid),
            AL.find?_erase_ne _ _ _ hone]; exact j1, ?_⟩
          rw [List.getElem?_set_ne (Ne.symm hixne), List.getElem?_take_of_lt (by omega)]
          exact j2
    · -- another event type: its list is unchanged; the index entry survives
      rw [hevtNe _ hxe]
      have hmid : ObsMgr.movedId m l ≠ o ∨ idx' = (m.evt ev).observers.length - 1 := by
        by_cases hc : idx' = (m.evt ev).observers.length - 1
        · exact Or.inr hc
        · left
          intro hh
          have hbl : (m.evt ev).observers[(m.evt ev).observers.length - 1]? =
              some ((m.evt ev).observers.getD ((m.evt ev).observers.length - 1) 0) := by
            rw [List.getD_eq_getElem?_getD, List.getElem?_eq_getElem hlast]; rfl
          have hbmem := List.mem_of_getElem? hbl
          have hbne : (m.evt ev).observers.getD ((m.evt ev).observers.length - 1) 0 ≠ l := by
            intro hbl'
            rw [hbl'] at hbl
            exact hc ((List.getElem?_inj hlt hndE).mp (hat.trans hbl.symm))
          obtain ⟨hbev, hsome⟩ := h.listed ev _ hbmem
          unfold ObsMgr.movedId at hh
          rw [hev, ObsMgr.obj_setObj_ne _ _ _ _ hbne] at hh
          cases hob : (m.obj ((m.evt ev).observers.getD ((m.evt ev).observers.length - 1) 0)).oid with
          | none => rw [hob] at hsome; cases hsome
          | some ob =>
            rw [hob] at hh
            have hobo : ob = o := hh
            subst hobo
            have hxb := h.unique x _ ob gx hob
            rw [← hxb] at hbev
            exact hxe hbev
      split
      · exact ⟨ix, by rw [AL.find?_erase_ne _ _ _ hone]; exact j1, j2⟩
      · rename_i hc
        rcases hmid with hm | hm
        · exact ⟨ix, by rw [AL.find?_insert_ne _ _ _ _ (Ne.symm hm),
            AL.find?_erase_ne _ _ _ hone]; exact j1, j2⟩
        · exact absurd hm hc
  · intro e x hx
    rw [hspec]
    have hx' : x ∈ (m.evt e).observers ∧ x ≠ l := by
      by_cases he : e = ev
      · subst he; exact (hmem x).mp hx
      · rw [hevtNe e he] at hx
        refine ⟨hx, fun hxl => ?_⟩
        subst hxl
        exact he ((h.listed e x hx).1.symm.trans hev)
    rw [hobj, if_neg hx'.2]
    exact h.listed e x hx'.1

/-! ### at world level -/

/-- **`Register` and `Unregister` keep the bookkeeping invariant** -/
theorem opObsRegister_minv {w w' : World} {l : Nat} (h : MInv w.obs)
    (hok : opObsRegister l w = .ok () w') : MInv w'.obs := by
  have hnone : (w.obs.obj l).oid = none := by
    simp only [opObsRegister, bind, M.bind, M.get, M.assert] at hok
    split at hok
    · rename_i hc
      cases hx : (w.obs.obj l).oid with
      | none => rfl
      | some _ => rw [hx] at hc; cases hc
    · cases hok
  obtain ⟨d, _, hw'⟩ := opObsRegister_ok hok
  rw [hw']
  exact h.registered hnone d

theorem opObsUnregister_minv {w w' : World} {l : Nat} (h : MInv w.obs) (hok' : ObsOK w.obs)
    (hok : opObsUnregister l w = .ok () w') : MInv w'.obs := by
  obtain ⟨oid, idx, ho, hi, hw'⟩ := opObsUnregister_ok hok
  rw [hw']
  exact h.removeAt hok'.nodup ho hi

/-- `Register` succeeds only for an object that is listed nowhere -/
theorem opObsRegister_fresh {w w' : World} {l : Nat} (h : MInv w.obs)
    (hok : opObsRegister l w = .ok () w') : ∀ evt : Nat, l ∉ (w.obs.evt evt).observers := by
  have hnone : (w.obs.obj l).oid = none := by
    simp only [opObsRegister, bind, M.bind, M.get, M.assert] at hok
    split at hok
    · rename_i hc
      cases hx : (w.obs.obj l).oid with
      | none => rfl
      | some _ => rw [hx] at hc; cases hc
    · cases hok
  exact h.fresh_of_unregistered hnone

/-- a manager in which no object has an id and nothing is listed (the observer objects exist on
    the heap, none is registered yet) satisfies the invariant -/
theorem minv_of_unregistered {m : ObsMgr} (hobjs : ∀ q ∈ m.objs, q.2.oid = none)
    (hev : m.events = []) (hav : m.pool.available = 0) : MInv m := by
  have hnone : ∀ l, (m.obj l).oid = none := by
    intro l
    unfold ObsMgr.obj
    have key : ∀ (os : AL ObsObj), (∀ q ∈ os, q.2.oid = none) →
        ((AL.find? os l).getD { spec := { event := 0 } }).oid = none := by
      intro os
      induction os with
      | nil => intro _; rfl
      | cons q rest ih =>
        intro hh
        obtain ⟨k, v⟩ := q
        simp only [AL.find?]
        split
        · exact hh (k, v) List.mem_cons_self
        · exact ih (fun q hq => hh q (List.mem_cons_of_mem _ hq))
    exact key _ hobjs
  have hevt : ∀ evt, m.evt evt = {} := by
    intro evt; simp [ObsMgr.evt, hev]
  refine ⟨hav, ?_, ?_, ?_, ?_⟩
  · intro l oid h; rw [hnone] at h; cases h
  · intro l1 _ oid h; rw [hnone] at h; cases h
  · intro l oid h; rw [hnone] at h; cases h
  · intro evt l h; rw [hevt] at h; cases h

/-- registrations keep the bookkeeping invariant -/
theorem regAll_minv : ∀ (ls : List Nat) (w : World), MInv w.obs → RegAllOK ls w →
    MInv (regAll ls w).obs
  | [], _, h, _ => h
  | l :: ls, w, h, hr => by
    obtain ⟨⟨h1, _, _⟩, hrest⟩ := hr
    cases hop : opObsRegister l w with
    | panic k s => rw [hop] at h1; cases h1
    | ok u w1 =>
      cases u
      have hst : (opObsRegister l w).state = w1 := by rw [hop]; rfl
      rw [hst] at hrest
      simp only [regAll]
      rw [hst]
      exact regAll_minv ls w1 (opObsRegister_minv h hop) hrest

end Ark
