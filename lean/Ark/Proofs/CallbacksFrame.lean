/-
  Ark.Proofs.CallbacksFrame — C08/C09 at world level, part 2: the observers, the log and the lock
  are a FRAME of the structural part of every operation.

  `World.reframe w o lg lk` is `w` with the observer manager, the log and the lock replaced.
  `Frames m` says that the monadic function `m` neither reads nor writes these three fields:
  running it on a reframed world gives the reframed result.  This is proved, without any
  hypothesis on the world, for the table lookups `findOrCreateTableAdd`, `findOrCreateTableRemove`,
  `findOrCreateTable` (with `graphFind*`, `findOrCreateArch`, `getTable`, `createTable`) and for
  `addCore`; the pure row primitives `addMove`, `placedW`, `removeRowOf`, `writeValsW`, `copiedW`
  commute with `reframe` as well.

  `World.noObs w` is `w` without observers.  `CInvObs w fl := CInv w.noObs fl` is the joint
  invariant `CInv` of the non-relation fragment WITHOUT its `noObs` field (`cinvObs_iff`), so that
  every specification of Ark/Proofs/RefineCore.lean / RefineOps.lean applies to the erased world
  and transfers back (`CInv.reframe`, `valOf_reframe`, `compsOf_reframe`, …).

  Kernel-only proofs, core Lean only.
-/
import Ark.Proofs.RefineOps

set_option autoImplicit false

namespace Ark

open World Ark.Props.C01World

/-- apply `f` to the state carried by a result -/
def Res.mapS {σ α : Type} (f : σ → σ) : Res σ α → Res σ α
  | .ok a s => .ok a (f s)
  | .panic k s => .panic k (f s)

@[simp] theorem Res.mapS_ok {σ α : Type} (f : σ → σ) (a : α) (s : σ) :
    (Res.ok a s : Res σ α).mapS f = .ok a (f s) := rfl
@[simp] theorem Res.mapS_panic {σ α : Type} (f : σ → σ) (k : PanicKind) (s : σ) :
    (Res.panic k s : Res σ α).mapS f = .panic k (f s) := rfl

namespace World

/-- `w` with the observer manager, the log and the lock replaced -/
def reframe (w : World) (o : ObsMgr) (lg : List LogEv) (lk : Lock) : World :=
  { w with obs := o, log := lg, locks := lk }

/-- `w` without observers -/
def noObs (w : World) : World := { w with obs := {} }

theorem noObs_eq_reframe (w : World) : w.noObs = w.reframe {} w.log w.locks := rfl

theorem reframe_self (w : World) : w.reframe w.obs w.log w.locks = w := rfl

@[simp] theorem reframe_reframe (w : World) (o o' : ObsMgr) (lg lg' : List LogEv) (lk lk' : Lock) :
    (w.reframe o lg lk).reframe o' lg' lk' = w.reframe o' lg' lk' := rfl

/-- the monadic function neither reads nor writes observers, log and lock -/
def Frames {α : Type} (m : W α) : Prop :=
  ∀ (w : World) (o : ObsMgr) (lg : List LogEv) (lk : Lock),
    m (w.reframe o lg lk) = (m w).mapS fun s => s.reframe o lg lk

theorem Frames.pure {α : Type} (a : α) : Frames (Pure.pure a : W α) := fun _ _ _ _ => rfl

theorem Frames.bind {α β : Type} {m : W α} {f : α → W β} (hm : Frames m) (hf : ∀ a, Frames (f a)) :
    Frames (m >>= f) := by
  intro w o lg lk
  simp only [M.bind_apply, hm w o lg lk]
  cases m w with
  | ok a s => exact hf a s o lg lk
  | panic k s => rfl

/-- a result that does not depend on the state and leaves it alone -/
theorem Frames.of_const {α : Type} {m : W α} (r : World → Res World α)
    (h : ∀ w, m w = r w) (hr : ∀ (w : World) o lg lk,
      r (w.reframe o lg lk) = (r w).mapS fun s => s.reframe o lg lk) : Frames m := by
  intro w o lg lk
  rw [h, h, hr]

/-! ### the mask walks -/

theorem graphFindAdd_go_any (w w' : World) : ∀ (add : List Comp) (m : Mask),
    graphFindAdd.go w' m add = (graphFindAdd.go w m add).mapS fun _ => w'
  | [], _ => rfl
  | c :: rest, m => by
    simp only [graphFindAdd.go]
    split
    · rfl
    · exact graphFindAdd_go_any w w' rest _

theorem graphFindRemove_go_any (w w' : World) : ∀ (rem : List Comp) (m : Mask),
    graphFindRemove.go w' m rem = (graphFindRemove.go w m rem).mapS fun _ => w'
  | [], _ => rfl
  | c :: rest, m => by
    simp only [graphFindRemove.go]
    split
    · rfl
    · exact graphFindRemove_go_any w w' rest _

theorem graphFind_go_any (start : Mask) (w w' : World) : ∀ (add : List Comp) (m : Mask),
    graphFind.go start w' m add = (graphFind.go start w m add).mapS fun _ => w'
  | [], _ => rfl
  | c :: rest, m => by
    simp only [graphFind.go]
    split
    · rfl
    · split
      · rfl
      · exact graphFind_go_any start w w' rest _

theorem mapS_const_state {α : Type} {r : Res World α} {w : World} (h : r.state = w)
    (f : World → World) : (r.mapS fun _ => f w) = r.mapS f := by
  cases r with
  | ok a s => simp only [Res.state] at h; subst h; rfl
  | panic k s => simp only [Res.state] at h; subst h; rfl

theorem graphFindAdd_go_state (w : World) : ∀ (add : List Comp) (m : Mask),
    (graphFindAdd.go w m add).state = w
  | [], _ => rfl
  | c :: rest, m => by
    simp only [graphFindAdd.go]
    split
    · rfl
    · exact graphFindAdd_go_state w rest _

theorem graphFindRemove_go_state' (w : World) : ∀ (rem : List Comp) (m : Mask),
    (graphFindRemove.go w m rem).state = w
  | [], _ => rfl
  | c :: rest, m => by
    simp only [graphFindRemove.go]
    split
    · rfl
    · exact graphFindRemove_go_state' w rest _

theorem graphFind_go_state' (start : Mask) (w : World) : ∀ (add : List Comp) (m : Mask),
    (graphFind.go start w m add).state = w
  | [], _ => rfl
  | c :: rest, m => by
    simp only [graphFind.go]
    split
    · rfl
    · split
      · rfl
      · exact graphFind_go_state' start w rest _

theorem frames_graphFindAdd (m : Mask) (add : List Comp) : Frames (graphFindAdd m add) := by
  intro w o lg lk
  show graphFindAdd.go _ m add = _
  rw [graphFindAdd_go_any w]
  exact mapS_const_state (graphFindAdd_go_state w add m) fun s => s.reframe o lg lk

theorem frames_graphFindRemove (m : Mask) (rem : List Comp) : Frames (graphFindRemove m rem) := by
  intro w o lg lk
  show graphFindRemove.go _ m rem = _
  rw [graphFindRemove_go_any w]
  exact mapS_const_state (graphFindRemove_go_state' w rem m) fun s => s.reframe o lg lk

theorem frames_graphFind (start m : Mask) (add rem : List Comp) :
    Frames (graphFind start m add rem) := by
  intro w o lg lk
  simp only [graphFind]
  rw [frames_graphFindRemove m rem w o lg lk]
  have hst := graphFindRemove_go_state' w rem m
  cases hr : graphFindRemove m rem w with
  | panic k s => rfl
  | ok m' s =>
    have hs : s = w := by
      have : (graphFindRemove m rem w).state = w := hst
      rw [hr] at this; exact this
    subst hs
    simp only [Res.mapS_ok]
    rw [graphFind_go_any start s]
    exact mapS_const_state (graphFind_go_state' start s add m') fun s => s.reframe o lg lk

/-! ### archetypes -/

theorem caStep_reframe (id : Nat) (w : World) (c : Comp) (o : ObsMgr) (lg : List LogEv) (lk : Lock) :
    caStep id (w.reframe o lg lk) c = (caStep id w c).reframe o lg lk := rfl

theorem foldl_caStep_reframe (id : Nat) (o : ObsMgr) (lg : List LogEv) (lk : Lock) :
    ∀ (cs : List Comp) (w : World),
      cs.foldl (caStep id) (w.reframe o lg lk) = (cs.foldl (caStep id) w).reframe o lg lk
  | [], _ => rfl
  | c :: cs, w => by
    simp only [List.foldl_cons, caStep_reframe]
    exact foldl_caStep_reframe id o lg lk cs _

theorem createArchetypeW_reframe (w : World) (mask : Mask) (o : ObsMgr) (lg : List LogEv) (lk : Lock) :
    createArchetypeW (w.reframe o lg lk) mask = (createArchetypeW w mask).reframe o lg lk := by
  have h := foldl_caStep_reframe w.archetypes.length o lg lk (mask.toList w.kinds.length)
    { w with archetypes := w.archetypes ++ [newArch w mask] }
  have e1 : createArchetypeW (w.reframe o lg lk) mask =
      (if (newArch w mask).hasRelations then
        ({ ((mask.toList w.kinds.length).foldl (caStep w.archetypes.length)
              (({ w with archetypes := w.archetypes ++ [newArch w mask] } : World).reframe o lg lk)) with
            relationArchetypes := ((mask.toList w.kinds.length).foldl (caStep w.archetypes.length)
              (({ w with archetypes := w.archetypes ++ [newArch w mask] } : World).reframe o lg lk)).relationArchetypes
                ++ [w.archetypes.length] } : World)
       else (mask.toList w.kinds.length).foldl (caStep w.archetypes.length)
              (({ w with archetypes := w.archetypes ++ [newArch w mask] } : World).reframe o lg lk)) := rfl
  have e2 : createArchetypeW w mask =
      (if (newArch w mask).hasRelations then
        ({ ((mask.toList w.kinds.length).foldl (caStep w.archetypes.length)
              ({ w with archetypes := w.archetypes ++ [newArch w mask] } : World)) with
            relationArchetypes := ((mask.toList w.kinds.length).foldl (caStep w.archetypes.length)
              ({ w with archetypes := w.archetypes ++ [newArch w mask] } : World)).relationArchetypes
                ++ [w.archetypes.length] } : World)
       else (mask.toList w.kinds.length).foldl (caStep w.archetypes.length)
              ({ w with archetypes := w.archetypes ++ [newArch w mask] } : World)) := rfl
  rw [e1, e2, h]
  split <;> rfl

theorem frames_findOrCreateArch (mask : Mask) : Frames (findOrCreateArch mask) := by
  intro w o lg lk
  simp only [findOrCreateArch]
  have hf : (w.reframe o lg lk).findArch mask = w.findArch mask := rfl
  rw [hf]
  cases w.findArch mask with
  | some a => rfl
  | none =>
    simp only [createArchetype_eq, Res.mapS_ok, createArchetypeW_reframe]
    rfl

/-! ### tables -/

theorem getTable_go_any (rels : List RelID) (w w' : World) (ht : w'.tables = w.tables) :
    ∀ (ts : List Nat), getTable.go rels w' ts = (getTable.go rels w ts).mapS fun _ => w'
  | [] => rfl
  | t :: rest => by
    simp only [getTable.go]
    have : w'.tbl t = w.tbl t := by simp only [tbl, ht]
    rw [this]
    split
    · rfl
    · exact getTable_go_any rels w w' ht rest
    · rfl
    · rfl

theorem frames_getTable (a : Nat) (rels : List RelID) : Frames (getTable a rels) := by
  intro w o lg lk
  have hst := getTable_state a rels w
  have key : getTable a rels (w.reframe o lg lk)
      = (getTable a rels w).mapS fun _ => w.reframe o lg lk := by
    simp only [getTable]
    have ha : (w.reframe o lg lk).arch a = w.arch a := rfl
    rw [ha]
    split
    · rfl
    · split
      · rfl
      · split
        · rfl
        · split
          · rfl
          · split
            · rfl
            · split
              · rfl
              · split
                · rfl
                · exact getTable_go_any _ w (w.reframe o lg lk) rfl _
  rw [key]
  exact mapS_const_state hst fun s => s.reframe o lg lk

theorem cacheAddTable_reframe (w : World) (T : Table) (o : ObsMgr) (lg : List LogEv) (lk : Lock) :
    (w.reframe o lg lk).cacheAddTable T = (w.cacheAddTable T).map fun s => s.reframe o lg lk := by
  unfold cacheAddTable
  simp only []
  have ha : (w.reframe o lg lk).arch T.arch = w.arch T.arch := rfl
  have hc : (w.reframe o lg lk).cache = w.cache := rfl
  rw [ha, hc]
  split <;> rfl

theorem createTableS_reframe (w : World) (a : Nat) (rels : List RelID) (o : ObsMgr)
    (lg : List LogEv) (lk : Lock) :
    createTableS (w.reframe o lg lk) a rels
      = ((createTableS w a rels).1.reframe o lg lk, (createTableS w a rels).2) := by
  unfold createTableS
  have ha : (w.reframe o lg lk).arch a = w.arch a := rfl
  rw [ha]
  split <;> rfl

theorem ctFinish_reframe (w : World) (n : Nat) (o : ObsMgr) (lg : List LogEv) (lk : Lock) :
    ctFinish (w.reframe o lg lk, n) = (ctFinish (w, n)).mapS fun s => s.reframe o lg lk := by
  unfold ctFinish
  simp only []
  have ht : (w.reframe o lg lk).tbl n = w.tbl n := rfl
  rw [ht, cacheAddTable_reframe]
  cases w.cacheAddTable (w.tbl n) <;> rfl

theorem relCheck_any (r : RelID) (w w' : World) (hk : w'.kinds = w.kinds) (hp : w'.pool = w.pool) :
    relCheck r w' = (relCheck r w).mapS fun _ => w' := by
  have h1 : w'.isRelComp r.comp = w.isRelComp r.comp := by simp only [isRelComp, hk]
  have h2 : w'.alive r.target = w.alive r.target := by simp only [World.alive, hp]
  simp only [relCheck, checkRelationComponent, checkRelationTarget, M.bind, h1]
  cases w.isRelComp r.comp
  · rfl
  · simp only [if_true, h2]
    split <;> rfl

theorem relChecks_any (w w' : World) (hk : w'.kinds = w.kinds) (hp : w'.pool = w.pool) :
    ∀ (rels : List RelID), M.forM' rels relCheck w' = (M.forM' rels relCheck w).mapS fun _ => w'
  | [] => rfl
  | r :: rest => by
    simp only [M.forM', M.bind_apply]
    rw [relCheck_any r w w' hk hp]
    rcases relCheck_cases r w with ⟨_, _, h3⟩ | ⟨_, k, h3⟩
    · rw [h3]
      exact relChecks_any w w' hk hp rest
    · rw [h3]; rfl

theorem relPanic_reframe (w : World) (rels : List RelID) (o : ObsMgr) (lg : List LogEv) (lk : Lock) :
    relPanic (w.reframe o lg lk) rels = relPanic w rels := by
  unfold relPanic
  rw [relChecks_any w (w.reframe o lg lk) rfl rfl rels]
  cases M.forM' rels relCheck w <;> rfl

theorem frames_createTable (a : Nat) (rels : List RelID) : Frames (createTable a rels) := by
  intro w o lg lk
  rw [createTable_eq, createTable_eq]
  have ha : (w.reframe o lg lk).arch a = w.arch a := rfl
  have hv : RelsValid (w.reframe o lg lk) rels ↔ RelsValid w rels := Iff.rfl
  rw [ha]
  split
  · rfl
  · split
    · rfl
    · by_cases h3 : RelsValid w rels
      · rw [if_pos h3, if_pos (hv.mpr h3), createTableS_reframe]
        exact ctFinish_reframe _ _ o lg lk
      · rw [if_neg h3, if_neg (fun h => h3 (hv.mp h)), relPanic_reframe]
        rfl

/-- a continuation that reads the world only through fields outside the frame -/
theorem Frames.get_bind {β : Type} {f : World → W β} (hf : ∀ w, Frames (f w))
    (hc : ∀ (w : World) o lg lk, f (w.reframe o lg lk) = f w) : Frames (M.get >>= f) := by
  intro w o lg lk
  simp only [M.bind_apply, M.get_apply, hc]
  exact hf w w o lg lk

theorem frames_findOrCreateTableAdd (oldT : Nat) (startMask : Mask) (add : List Comp)
    (rels : List RelID) : Frames (findOrCreateTableAdd oldT startMask add rels) := by
  unfold findOrCreateTableAdd
  refine Frames.bind (frames_graphFindAdd _ _) fun mask => ?_
  refine Frames.bind (frames_findOrCreateArch _) fun a => ?_
  refine Frames.get_bind (fun w => ?_) (fun w o lg lk => rfl)
  refine Frames.bind (frames_getTable _ _) fun r => ?_
  cases r with
  | some t => exact Frames.pure _
  | none => exact Frames.bind (frames_createTable _ _) fun t => Frames.pure _

theorem frames_findOrCreateTableRemove (oldT : Nat) (startMask : Mask) (rem : List Comp) :
    Frames (findOrCreateTableRemove oldT startMask rem) := by
  unfold findOrCreateTableRemove
  refine Frames.bind (frames_graphFindRemove _ _) fun mask => ?_
  refine Frames.bind (frames_findOrCreateArch _) fun a => ?_
  refine Frames.get_bind (fun w => ?_) (fun w o lg lk => rfl)
  refine Frames.bind (frames_getTable _ _) fun r => ?_
  cases r with
  | some t => exact Frames.pure _
  | none => exact Frames.bind (frames_createTable _ _) fun t => Frames.pure _

theorem frames_findOrCreateTable (oldT : Nat) (startMask : Mask) (add rem : List Comp)
    (rels : List RelID) : Frames (findOrCreateTable oldT startMask add rem rels) := by
  unfold findOrCreateTable
  refine Frames.bind (frames_graphFind _ _ _ _) fun mask => ?_
  refine Frames.bind (frames_findOrCreateArch _) fun a => ?_
  refine Frames.get_bind (fun w => ?_) (fun w o lg lk => rfl)
  simp only []
  split <;>
  · refine Frames.bind (frames_getTable _ _) fun r => ?_
    cases r with
    | some t => exact Frames.pure _
    | none => exact Frames.bind (frames_createTable _ _) fun t => Frames.pure _

/-! ### the pure row primitives -/

/-- `moveRowW` with the `if` pushed to the entity index -/
theorem moveRowW_flat (w : World) (e : Ent) (oldT row newT ni : Nat) (keep : Mask) :
    moveRowW w e oldT row newT ni keep =
      { ((w.modTbl newT (copyRow (w.tbl oldT) row ni keep)).setTbl oldT
          (((w.modTbl newT (copyRow (w.tbl oldT) row ni keep)).tbl oldT).remove row).1) with
        entities :=
          (if (((w.modTbl newT (copyRow (w.tbl oldT) row ni keep)).tbl oldT).remove row).2 then
            w.entities.modify
              ((((w.modTbl newT (copyRow (w.tbl oldT) row ni keep)).tbl oldT).remove row).1.getEntity row).id
              fun (t, _) => (t, row)
           else w.entities).set e.id (newT, ni) } := by
  unfold moveRowW
  simp only []
  split <;> rfl

theorem moveRowW_reframe (w : World) (e : Ent) (oldT row newT ni : Nat) (keep : Mask) (o : ObsMgr)
    (lg : List LogEv) (lk : Lock) :
    moveRowW (w.reframe o lg lk) e oldT row newT ni keep
      = (moveRowW w e oldT row newT ni keep).reframe o lg lk := by
  rw [moveRowW_flat, moveRowW_flat]
  rfl

theorem addMove_reframe (w : World) (e : Ent) (oldT row newT : Nat) (keep : Mask) (o : ObsMgr)
    (lg : List LogEv) (lk : Lock) :
    addMove (w.reframe o lg lk) e oldT row newT keep
      = (addMove w e oldT row newT keep).reframe o lg lk := by
  show moveRowW ((w.setTbl newT ((w.tbl newT).add e).1).reframe o lg lk) e oldT row newT
    ((w.tbl newT).add e).2 keep = _
  rw [moveRowW_reframe]
  rfl

theorem placedW_flat (w : World) (t : Nat) (rt : Bool) :
    placedW w t rt =
      { (w.setTbl t ((w.tbl t).add (w.pool.get).2).1) with
        pool := (w.pool.get).1
        entities := if (w.pool.get).2.id == w.entities.length then
            w.entities ++ [(t, ((w.tbl t).add (w.pool.get).2).2)]
          else w.entities.set (w.pool.get).2.id (t, ((w.tbl t).add (w.pool.get).2).2)
        isTarget := if (w.pool.get).2.id == w.entities.length then w.isTarget ++ [false]
          else if rt then w.isTarget.set (w.pool.get).2.id false else w.isTarget } := by
  unfold placedW
  simp only []
  split
  · rename_i h
    have h' : ((w.pool.get).2.id == w.entities.length) = true := h
    simp only [h', if_true]
    rfl
  · rename_i h
    have h' : ¬ ((w.pool.get).2.id == w.entities.length) = true := h
    simp only [h']
    rfl

theorem placedW_reframe (w : World) (t : Nat) (rt : Bool) (o : ObsMgr) (lg : List LogEv) (lk : Lock) :
    placedW (w.reframe o lg lk) t rt = (placedW w t rt).reframe o lg lk := by
  rw [placedW_flat, placedW_flat]
  rfl

theorem removeRowOf_flat (w : World) (e : Ent) (t row : Nat) :
    removeRowOf w e t row =
      { (w.setTbl t ((w.tbl t).remove row).1) with
        pool := w.pool.recycle e
        entities := (if ((w.tbl t).remove row).2 then
            w.entities.modify (((w.tbl t).remove row).1.getEntity row).id fun (tt, _) => (tt, row)
          else w.entities).modify e.id fun (_, r) => (maxU32, r) } := by
  unfold removeRowOf
  simp only []
  split <;> rfl

theorem removeRowOf_reframe (w : World) (e : Ent) (t row : Nat) (o : ObsMgr) (lg : List LogEv)
    (lk : Lock) :
    removeRowOf (w.reframe o lg lk) e t row = (removeRowOf w e t row).reframe o lg lk := by
  rw [removeRowOf_flat, removeRowOf_flat]
  rfl

theorem writeValsW_reframe (w : World) (e : Ent) (vals : List (Comp × Val)) (o : ObsMgr)
    (lg : List LogEv) (lk : Lock) :
    writeValsW (w.reframe o lg lk) e vals = (writeValsW w e vals).reframe o lg lk := rfl

theorem copiedW_reframe (w : World) (t row idx : Nat) (o : ObsMgr) (lg : List LogEv) (lk : Lock) :
    copiedW (w.reframe o lg lk) t row idx = (copiedW w t row idx).reframe o lg lk := rfl

/-! ### functions that read the lock: a frame of observers and log only -/

/-- `w` with the observer manager and the log replaced -/
def relog (w : World) (o : ObsMgr) (lg : List LogEv) : World := { w with obs := o, log := lg }

theorem relog_eq_reframe (w : World) (o : ObsMgr) (lg : List LogEv) :
    w.relog o lg = w.reframe o lg w.locks := rfl

theorem noObs_eq_relog (w : World) : w.noObs = w.relog {} w.log := rfl

theorem relog_self (w : World) : w.relog w.obs w.log = w := rfl

@[simp] theorem relog_relog (w : World) (o o' : ObsMgr) (lg lg' : List LogEv) :
    (w.relog o lg).relog o' lg' = w.relog o' lg' := rfl

/-- the monadic function neither reads nor writes observers and log (it may read the lock) -/
def FramesOL {α : Type} (m : W α) : Prop :=
  ∀ (w : World) (o : ObsMgr) (lg : List LogEv), m (w.relog o lg) = (m w).mapS fun s => s.relog o lg

/-- a function with the full frame property leaves the three fields alone -/
theorem Frames.state_frame {α : Type} {m : W α} (h : Frames m) (w : World) :
    (m w).state.obs = w.obs ∧ (m w).state.log = w.log ∧ (m w).state.locks = w.locks := by
  have := h w w.obs w.log w.locks
  rw [reframe_self] at this
  cases hr : m w with
  | ok a s =>
    rw [hr] at this
    simp only [Res.mapS_ok] at this
    injection this with _ hs
    simp only [Res.state]
    rw [hs]
    exact ⟨rfl, rfl, rfl⟩
  | panic k s =>
    rw [hr] at this
    simp only [Res.mapS_panic] at this
    injection this with _ hs
    simp only [Res.state]
    rw [hs]
    exact ⟨rfl, rfl, rfl⟩

theorem Frames.toOL {α : Type} {m : W α} (h : Frames m) : FramesOL m := by
  intro w o lg
  rw [relog_eq_reframe, h w o lg w.locks]
  have hl := (h.state_frame w).2.2
  cases hr : m w with
  | ok a s =>
    rw [hr] at hl
    simp only [Res.state] at hl
    simp only [Res.mapS_ok, relog_eq_reframe, hl]
  | panic k s =>
    rw [hr] at hl
    simp only [Res.state] at hl
    simp only [Res.mapS_panic, relog_eq_reframe, hl]

theorem FramesOL.state_frame {α : Type} {m : W α} (h : FramesOL m) (w : World) :
    (m w).state.obs = w.obs ∧ (m w).state.log = w.log := by
  have := h w w.obs w.log
  rw [relog_self] at this
  cases hr : m w with
  | ok a s =>
    rw [hr] at this
    simp only [Res.mapS_ok] at this
    injection this with _ hs
    simp only [Res.state]
    rw [hs]
    exact ⟨rfl, rfl⟩
  | panic k s =>
    rw [hr] at this
    simp only [Res.mapS_panic] at this
    injection this with _ hs
    simp only [Res.state]
    rw [hs]
    exact ⟨rfl, rfl⟩

theorem FramesOL.pure {α : Type} (a : α) : FramesOL (Pure.pure a : W α) := fun _ _ _ => rfl

theorem FramesOL.bind {α β : Type} {m : W α} {f : α → W β} (hm : FramesOL m)
    (hf : ∀ a, FramesOL (f a)) : FramesOL (m >>= f) := by
  intro w o lg
  simp only [M.bind_apply, hm w o lg]
  cases m w with
  | ok a s => exact hf a s o lg
  | panic k s => rfl

theorem FramesOL.get_bind {β : Type} {f : World → W β} (hf : ∀ w, FramesOL (f w))
    (hc : ∀ (w : World) o lg, f (w.relog o lg) = f w) : FramesOL (M.get >>= f) := by
  intro w o lg
  simp only [M.bind_apply, M.get_apply, hc]
  exact hf w w o lg

theorem FramesOL.assert (c : Bool) (k : PanicKind) : FramesOL (M.assert c k : W Unit) := by
  intro w o lg
  simp only [M.assert_apply]
  split <;> rfl

theorem FramesOL.modify {f : World → World}
    (hf : ∀ (w : World) o lg, f (w.relog o lg) = (f w).relog o lg) : FramesOL (M.modify f) := by
  intro w o lg
  simp only [M.modify_apply, hf, Res.mapS_ok]

theorem framesOL_checkLocked : FramesOL checkLocked := by
  intro w o lg
  have : (w.relog o lg).isLocked = w.isLocked := rfl
  simp only [checkLocked, this]
  split <;> rfl

theorem framesOL_placeNew (t : Nat) (rt : Bool) : FramesOL (placeNew t rt) := by
  intro w o lg
  rw [placeNew_eq, placeNew_eq, relog_eq_reframe, placedW_reframe]
  simp only [Res.mapS_ok, relog_eq_reframe, placedW_locks]
  rfl

theorem framesOL_registerTargets (rels : List RelID) : FramesOL (registerTargets rels) :=
  FramesOL.modify fun _ _ _ => rfl

theorem framesOL_moveRow (e : Ent) (oldT row newT ni : Nat) (keep : Mask) :
    FramesOL (moveRow e oldT row newT ni keep) := by
  intro w o lg
  rw [moveRow_eq, moveRow_eq, relog_eq_reframe, moveRowW_reframe]
  have hl : (moveRowW w e oldT row newT ni keep).locks = w.locks := by rw [moveRowW_flat]; rfl
  simp only [Res.mapS_ok, relog_eq_reframe, hl]

theorem framesOL_writeVals (e : Ent) (vals : List (Comp × Val)) : FramesOL (writeVals e vals) :=
  fun _ _ _ => rfl

theorem framesOL_tableAdd (newT : Nat) (e : Ent) :
    FramesOL (fun w => let (N, i) := (w.tbl newT).add e; Res.ok i (w.setTbl newT N) : W Nat) :=
  fun _ _ _ => rfl

/-- `World.add` neither reads nor writes observers and log -/
theorem framesOL_addCore (e : Ent) (add : List Comp) (rels : List RelID) :
    FramesOL (addCore e add rels) := by
  unfold addCore
  refine FramesOL.bind framesOL_checkLocked fun _ => ?_
  refine FramesOL.get_bind (fun w => ?_) (fun w o lg => rfl)
  refine FramesOL.bind (FramesOL.assert _ _) fun _ => ?_
  refine FramesOL.bind (FramesOL.assert _ _) fun _ => ?_
  split
  rename_i oldT row _
  simp only []
  refine FramesOL.bind (frames_findOrCreateTableAdd _ _ _ _).toOL fun x => ?_
  obtain ⟨newT, newA, mask⟩ := x
  simp only []
  refine FramesOL.bind (framesOL_tableAdd newT e) fun ni => ?_
  refine FramesOL.bind (framesOL_moveRow _ _ _ _ _ _) fun _ => ?_
  refine FramesOL.bind (framesOL_registerTargets _) fun _ => ?_
  exact FramesOL.get_bind (fun w => FramesOL.pure _) (fun w o lg => rfl)

/-- `World.newEntity` neither reads nor writes observers and log -/
theorem framesOL_newEntityCore (ids : List Comp) (rels : List RelID) :
    FramesOL (newEntityCore ids rels) := by
  unfold newEntityCore
  refine FramesOL.bind framesOL_checkLocked fun _ => ?_
  refine FramesOL.bind (frames_findOrCreateTableAdd _ _ _ _).toOL fun x => ?_
  obtain ⟨t, a, m⟩ := x
  simp only []
  refine FramesOL.bind (framesOL_placeNew _ _) fun y => ?_
  obtain ⟨e, i⟩ := y
  simp only []
  refine FramesOL.bind (framesOL_registerTargets _) fun _ => ?_
  exact FramesOL.get_bind (fun w => FramesOL.pure _) (fun w o lg => rfl)

end World

/-! ## the joint invariant without its `noObs` field -/

/-- `CInv` does not read the log or the lock, and of the observers only "none registered" -/
theorem CInv.reframe {w : World} {fl : List Nat} (h : CInv w fl) (o : ObsMgr)
    (ho : ∀ evt : Nat, o.hasObservers evt = false) (lg : List LogEv) (lk : Lock) :
    CInv (w.reframe o lg lk) fl where
  idx := h.idx.congr rfl rfl
  sinv := h.sinv.congr rfl rfl rfl
  pool := h.pool
  stale := h.stale
  lenEq := h.lenEq
  tgtLen := h.tgtLen
  freeUnindexed := h.freeUnindexed
  reservedUnindexed := h.reservedUnindexed
  liveIndexed := h.liveIndexed
  fewTables := h.fewTables
  noRelKinds := h.noRelKinds
  kindsLe := h.kindsLe
  noTargets := h.noTargets
  noObs := ho

/-- **the joint invariant of the non-relation fragment WITH observers**: `CInv` of the world
    without its observers, i.e. `CInv` minus the field `noObs` (`cinvObs_iff`) -/
def CInvObs (w : World) (fl : List Nat) : Prop := CInv w.noObs fl

theorem CInv.toObs {w : World} {fl : List Nat} (h : CInv w fl) : CInvObs w fl :=
  h.reframe {} (fun _ => rfl) w.log w.locks

/-- `CInvObs` is `CInv` without `noObs`, field by field -/
theorem cinvObs_iff (w : World) (fl : List Nat) :
    CInvObs w fl ↔
      (IdxInv w ∧ SInv w ∧ Pool.PInv w.pool fl ∧ (∀ e ∈ w.pool.stale, e.gen = maxU32) ∧
       w.entities.length = w.pool.ents.length ∧ w.isTarget.length = w.entities.length ∧
       (∀ i ∈ fl, ∃ r, w.entities[i]? = some (maxU32, r)) ∧
       (∀ i : Nat, i < 2 → ∃ r, w.entities[i]? = some (maxU32, r)) ∧
       (∀ i : Nat, 2 ≤ i → i < w.entities.length → i ∉ fl →
          ∃ t r, w.entities[i]? = some (t, r) ∧ t ≠ maxU32) ∧
       w.tables.length ≤ maxU32 ∧ (∀ c : Comp, (w.kinds.getD c {}).isRel = false) ∧
       (w.kinds.length ≤ w.maxComps ∧ w.maxComps ≤ 256) ∧
       (∀ i : Nat, w.isTarget.getD i false = false)) := by
  constructor
  · intro h
    exact ⟨h.idx.congr rfl rfl, h.sinv.congr rfl rfl rfl, h.pool, h.stale, h.lenEq, h.tgtLen,
      h.freeUnindexed, h.reservedUnindexed, h.liveIndexed, h.fewTables, h.noRelKinds, h.kindsLe,
      h.noTargets⟩
  · rintro ⟨a1, a2, a3, a4, a5, a6, a7, a8, a9, a10, a11, a12, a13⟩
    exact { idx := a1.congr rfl rfl, sinv := a2.congr rfl rfl rfl, pool := a3, stale := a4,
            lenEq := a5, tgtLen := a6, freeUnindexed := a7, reservedUnindexed := a8,
            liveIndexed := a9, fewTables := a10, noRelKinds := a11, kindsLe := a12,
            noTargets := a13, noObs := fun _ => rfl }

/-- `CInvObs` reads neither observers, log nor lock -/
theorem CInvObs.reframe {w : World} {fl : List Nat} (h : CInvObs w fl) (o : ObsMgr)
    (lg : List LogEv) (lk : Lock) : CInvObs (w.reframe o lg lk) fl :=
  CInv.reframe (w := w.noObs) h {} (fun _ => rfl) lg lk

theorem CInvObs.of_reframe {w : World} {fl : List Nat} {o : ObsMgr} {lg : List LogEv} {lk : Lock}
    (h : CInvObs (w.reframe o lg lk) fl) : CInvObs w fl :=
  CInv.reframe (w := (w.reframe o lg lk).noObs) h {} (fun _ => rfl) w.log w.locks

theorem cinvObs_init (cap rel : Nat) : CInvObs (World.init cap rel) [] := (cinv_init cap rel).toObs

/-! ### the observable content of a world does not depend on the frame -/

theorem valOf_reframe (w : World) (o : ObsMgr) (lg : List LogEv) (lk : Lock) (i : Nat) (c : Comp) :
    valOf (w.reframe o lg lk) i c = valOf w i c := rfl

theorem compsOf_reframe (w : World) (o : ObsMgr) (lg : List LogEv) (lk : Lock) (i : Nat) :
    compsOf (w.reframe o lg lk) i = compsOf w i := rfl

theorem sameEnt_reframe_right {w w' : World} {j : Nat} (h : SameEnt w w' j) (o : ObsMgr)
    (lg : List LogEv) (lk : Lock) : SameEnt w (w'.reframe o lg lk) j := h

theorem sameEnt_reframe_left {w w' : World} {j : Nat} (o : ObsMgr) (lg : List LogEv) (lk : Lock)
    (h : SameEnt (w.reframe o lg lk) w' j) : SameEnt w w' j := h

/-! ### running a framed function on a world with another frame -/

namespace World

/-- `getBatchTables` neither reads nor writes observers, log and lock -/
theorem frames_getBatchTables (fo : FilterObj) (extra : List RelID) :
    Frames (getBatchTables fo extra) := by
  intro w o lg lk
  unfold getBatchTables
  simp only []
  have h1 : ∀ id, (w.reframe o lg lk).cacheEntry? id = w.cacheEntry? id := fun _ => rfl
  have h2 : ∀ f r, (w.reframe o lg lk).getCacheTables f r = w.getCacheTables f r := fun _ _ => rfl
  have h3 : ∀ t, (w.reframe o lg lk).tbl t = w.tbl t := fun _ => rfl
  cases fo.cache with
  | none =>
    simp only [h2]
    cases w.getCacheTables fo.filter (effRels fo extra) <;> rfl
  | some id =>
    simp only [h1]
    cases w.cacheEntry? id with
    | none => rfl
    | some ce =>
      simp only [h3]
      split <;> rfl

/-- a framed function that succeeds on a reframed world succeeds on the world itself, with the
    same result; the final state is the reframed one with the original frame put back -/
theorem Frames.of_reframe_ok {α : Type} {m : W α} (h : Frames m) {w : World} {o : ObsMgr}
    {lg : List LogEv} {lk : Lock} {a : α} {w1 : World} (hm : m (w.reframe o lg lk) = .ok a w1) :
    m w = .ok a (w1.reframe w.obs w.log w.locks) ∧ w1 = (w1.reframe w.obs w.log w.locks).reframe o lg lk := by
  have hf := h w o lg lk
  have hs := h.state_frame w
  rw [hm] at hf
  cases hr : m w with
  | ok a' s =>
    rw [hr] at hf hs
    simp only [Res.mapS_ok] at hf
    simp only [Res.state] at hs
    injection hf with h1 h2
    subst h1 h2
    obtain ⟨e1, e2, e3⟩ := hs
    have : (s.reframe o lg lk).reframe w.obs w.log w.locks = s := by
      rw [reframe_reframe, ← e1, ← e2, ← e3]; rfl
    rw [this]
    exact ⟨rfl, rfl⟩
  | panic k s =>
    rw [hr] at hf
    simp only [Res.mapS_panic] at hf
    cases hf

/-- a framed function that panics on a reframed world panics on the world itself, with the same
    class -/
theorem Frames.of_reframe_panic {α : Type} {m : W α} (h : Frames m) {w : World} {o : ObsMgr}
    {lg : List LogEv} {lk : Lock} {k : PanicKind} {w1 : World}
    (hm : m (w.reframe o lg lk) = .panic k w1) :
    m w = .panic k (w1.reframe w.obs w.log w.locks) ∧ w1 = (w1.reframe w.obs w.log w.locks).reframe o lg lk := by
  have hf := h w o lg lk
  have hs := h.state_frame w
  rw [hm] at hf
  cases hr : m w with
  | panic k' s =>
    rw [hr] at hf hs
    simp only [Res.mapS_panic] at hf
    simp only [Res.state] at hs
    injection hf with h1 h2
    subst h1 h2
    obtain ⟨e1, e2, e3⟩ := hs
    have : (s.reframe o lg lk).reframe w.obs w.log w.locks = s := by
      rw [reframe_reframe, ← e1, ← e2, ← e3]; rfl
    rw [this]
    exact ⟨rfl, rfl⟩
  | ok a s =>
    rw [hr] at hf
    simp only [Res.mapS_ok] at hf
    cases hf

end World

end Ark
