/-
  Ark.Proofs.StatsRelAgree — property C19 for worlds WITH relation tables, part 2: the figures
  `Stats()` reports agree with the contents of a state of the relation machine.

  * `AgreeRel s st` — every clause of C19, for a state `s = ⟨w, issued, ss⟩` of the relation
    machine (`Ark.RelRefine`; `ss.ents : alive handle ↦ ⟨component ↦ value, relation ↦ target⟩`).
    New against `StatsHist.Agree` (the relation-free machine, one table per archetype for ever):
    `arch_entry` — the entry at position `i` describes archetype `i`: its component list, its
    relation count, the number of its FREE tables, one table entry per ACTIVE table (in the
    archetype's order) with that table's length and capacity, where the length is the number of
    specification entries indexed to the table; `size` = Σ over the active tables, `capacity` =
    Σ over active and free tables; `num_rel` — the relation count is the number of relation
    components among the component IDs; `nonrel_shape` — an archetype without relation
    component has exactly one table and no free one.
  * `agreeRel_fresh` — the fresh statistics of a state satisfying `RelRefine.HInv` agree;
  * `stats_exact` — **state level, item 1**: for ANY stored object satisfying `AgreesOn`,
    `Stats()` returns (and stores) statistics that agree with the contents.

  Kernel-only proofs, core Lean only.
-/
import Ark.Proofs.StatsRel

set_option autoImplicit false

namespace Ark

open World Ark.Props.C01World

/-! ## 0. list facts -/

/-- a flag list that is pointwise the image of a key list -/
theorem eq_map_of_getD {α : Type} (f : α → Bool) :
    ∀ (bs : List Bool) (cs : List α), bs.length = cs.length →
      (∀ (i : Nat) (c : α), cs[i]? = some c → bs.getD i false = f c) → bs = cs.map f := by
  intro bs
  induction bs with
  | nil =>
    intro cs hl _
    cases cs with
    | nil => rfl
    | cons c cs => simp at hl
  | cons b bs ih =>
    intro cs hl h
    cases cs with
    | nil => simp at hl
    | cons c cs =>
      have h0 := h 0 c rfl
      simp only [List.getD_cons_zero] at h0
      rw [List.map_cons, h0, ih cs (by simpa using hl)
        (fun i c' hc => by simpa using h (i + 1) c' (by simpa using hc))]

theorem length_filter_map_id {α : Type} (f : α → Bool) (cs : List α) :
    ((cs.map f).filter fun b => b).length = (cs.filter f).length := by
  induction cs with
  | nil => rfl
  | cons c cs ih =>
    simp only [List.map_cons, List.filter_cons]
    cases f c <;> simp [ih]

/-- Σ over all table entries = Σ archetype sizes, when every archetype's size is the sum of its
    table entries -/
theorem sum_flatMap_tables (l : List ArchStats)
    (h : ∀ (a : ArchStats), a ∈ l → a.size = (a.tables.map (·.size)).sum) :
    ((l.flatMap (·.tables)).map (·.size)).sum = (l.map (·.size)).sum := by
  induction l with
  | nil => rfl
  | cons a l ih =>
    have h1 := h a (by simp)
    have ih' := ih (fun b hb => h b (by simp [hb]))
    simp only [List.flatMap_cons, List.map_append, List.sum_append, List.map_cons,
      List.sum_cons, ih', h1]

namespace RelRefine

open Refine (Comps keys sortedIds)

/-- **what C19 demands of the statistics `st` reported at the state `s`** of the relation
    machine. -/
structure AgreeRel (s : St) (st : WorldStats) : Prop where
  /-- `used` = number of specification entries … -/
  used_spec : st.used = s.ss.ents.length
  /-- … = number of issued handles that are alive … -/
  used_alive : st.used = (s.issued.filter fun e => s.w.alive e).length
  /-- … = Σ archetype sizes … -/
  used_archs : st.used = (st.archetypes.map (·.size)).sum
  /-- … = Σ table sizes (over the entries of all ACTIVE tables) -/
  used_tables : st.used = ((st.archetypes.flatMap (·.tables)).map (·.size)).sum
  /-- `total = used + recycled` -/
  total : st.total = st.used + st.recycled
  /-- one archetype entry per archetype of the world -/
  arch_len : st.archetypes.length = s.w.archetypes.length
  /-- per archetype: `size` = number of specification entries with exactly its component set -/
  arch_size : ∀ (a : ArchStats), a ∈ st.archetypes →
    a.size = (s.ss.ents.filter fun x => decide (specComps s x = a.componentIDs)).length
  /-- no two archetype entries have the same component list -/
  arch_unique : ∀ (i j : Nat) (a b : ArchStats), st.archetypes[i]? = some a →
    st.archetypes[j]? = some b → a.componentIDs = b.componentIDs → i = j
  /-- the component set of every entity is the component list of an archetype entry -/
  arch_complete : ∀ (x : Ent × Entry), x ∈ s.ss.ents →
    ∃ (a : ArchStats), a ∈ st.archetypes ∧ a.componentIDs = specComps s x
  /-- the component lists name registered components -/
  arch_reg : ∀ (a : ArchStats), a ∈ st.archetypes → ∀ (c : Comp), c ∈ a.componentIDs →
    c < s.ss.zst.length
  /-- **the entry at position `i` describes archetype `i`**: component list, relation count,
      number of free tables; ONE TABLE ENTRY PER ACTIVE TABLE, in the archetype's order, with
      the table's length (= the number of specification entries indexed to it) and capacity;
      `size` = Σ table entries, `capacity` = Σ table entries + Σ capacities of the free tables -/
  arch_entry : ∀ (i : Nat) (A : Archetype), s.w.archetypes[i]? = some A →
    ∃ (a : ArchStats), st.archetypes[i]? = some a ∧
      a.componentIDs = A.comps ∧ a.numRelations = A.numRel ∧
      a.freeTables = A.freeTables.length ∧
      a.tables.length = A.tables.tables.length ∧
      (∀ (j t : Nat), A.tables.tables[j]? = some t → ∃ (ts : TableStats),
        a.tables[j]? = some ts ∧ ts.size = (s.w.tbl t).len ∧ ts.capacity = (s.w.tbl t).cap ∧
        ts.size = (s.ss.ents.filter fun x => decide ((s.w.index x.1.id).1 = t)).length) ∧
      a.size = (a.tables.map (·.size)).sum ∧
      a.capacity = (a.tables.map (·.capacity)).sum +
        (A.freeTables.map fun t => (s.w.tbl t).cap).sum
  /-- the relation count is the number of relation components among the component IDs -/
  num_rel : ∀ (a : ArchStats), a ∈ st.archetypes →
    a.numRelations = (a.componentIDs.filter fun c => s.ss.isRel.getD c false).length
  /-- an archetype without relation component has exactly one table, no free one -/
  nonrel_shape : ∀ (a : ArchStats), a ∈ st.archetypes → a.numRelations = 0 →
    ∃ (t : TableStats), a.tables = [t] ∧ t.size = a.size ∧ t.capacity = a.capacity ∧
      a.freeTables = 0
  /-- every table: `size ≤ capacity` -/
  table_le : ∀ (a : ArchStats), a ∈ st.archetypes → ∀ (t : TableStats), t ∈ a.tables →
    t.size ≤ t.capacity
  /-- memory per entity: 8 bytes for the handle plus the registered sizes of the components -/
  mpe : ∀ (a : ArchStats), a ∈ st.archetypes →
    a.memoryPerEntity = 8 + (a.componentIDs.map fun c => (s.w.kinds.getD c {}).size).sum
  arch_memory : ∀ (a : ArchStats), a ∈ st.archetypes →
    a.memory = a.memoryPerEntity * a.capacity ∧ a.memoryUsed = a.memoryPerEntity * a.size
  table_memory : ∀ (a : ArchStats), a ∈ st.archetypes → ∀ (t : TableStats), t ∈ a.tables →
    t.memory = t.capacity * a.memoryPerEntity ∧ t.memoryUsed = t.size * a.memoryPerEntity
  memory : st.memory = (st.archetypes.map (·.memory)).sum ∧
    st.memoryUsed = (st.archetypes.map (·.memoryUsed)).sum ∧ st.memoryUsed ≤ st.memory
  /-- filter, observer, lock and registry figures -/
  cachedFilters : st.cachedFilters = s.w.cache.filters.length
  observers : st.observers = s.w.obs.totalCount
  locked : st.locked = false
  numComponents : st.numComponents = s.ss.zst.length

/-- every table satisfies `len ≤ cap` -/
theorem tables_le {s : St} {fl : List Nat} (H : HInv s fl) (A : Archetype)
    (_hA : A ∈ s.w.archetypes) (t : Nat) (_ht : t ∈ A.tables.tables) :
    (s.w.tbl t).len ≤ (s.w.tbl t).cap :=
  (IdxInv_tbl_shape H.tinv.link.idx t).len_le

/-- the relation count of an archetype, from the registry -/
theorem HInv.numRel_spec {s : St} {fl : List Nat} (H : HInv s fl) {i : Nat} {A : Archetype}
    (hA : s.w.archetypes[i]? = some A) :
    A.numRel = (A.comps.filter fun c => s.ss.isRel.getD c false).length := by
  have hS := H.tinv.rel.sinv.toSInvMid
  have hisRel : A.isRel = A.comps.map fun c => s.ss.isRel.getD c false := by
    apply eq_map_of_getD _ _ _ (hS.comps i A hA).2.1
    intro j c hc
    rw [(hS.kindsOf i A j c hA hc).1, H.rget]; rfl
  rw [(hS.astruct i A hA).numRelEq, hisRel, length_filter_map_id]

/-- **the fresh statistics of a state satisfying the invariant agree with its contents** -/
theorem agreeRel_fresh {s : St} {fl : List Nat} (H : HInv s fl) : AgreeRel s (statsFresh s.w) := by
  have hS := H.tinv.rel.sinv
  have hM := hS.toSInvMid
  -- an archetype entry is the fresh statistics of the archetype at its position
  have entry : ∀ (a : ArchStats), a ∈ (statsFresh s.w).archetypes →
      ∃ (i : Nat), i < s.w.archetypes.length ∧ a = s.w.archStatsFresh (s.w.arch i) := by
    intro a ha
    rw [world_archetypes] at ha
    obtain ⟨A, hA, rfl⟩ := List.mem_map.mp ha
    obtain ⟨i, hi⟩ := List.getElem?_of_mem hA
    exact ⟨i, (List.getElem?_eq_some_iff.mp hi).1, by rw [arch_of_get hi]⟩
  have hused : (statsFresh s.w).used = s.ss.ents.length := H.used_eq
  have hsum : ((statsFresh s.w).archetypes.map (·.size)).sum = s.ss.ents.length := by
    rw [world_archetypes]; exact H.sum_arch_sizes
  refine
    { used_spec := hused
      used_alive := hused.trans H.alive_count.symm
      used_archs := hused.trans hsum.symm
      used_tables := ?_
      total := ?_
      arch_len := by rw [world_archetypes, List.length_map]
      arch_size := ?_
      arch_unique := ?_
      arch_complete := ?_
      arch_reg := ?_
      arch_entry := ?_
      num_rel := ?_
      nonrel_shape := ?_
      table_le := ?_
      mpe := ?_
      arch_memory := ?_
      table_memory := ?_
      memory := ⟨World.world_memory s.w, World.world_memoryUsed s.w,
        World.world_memoryUsed_le s.w (tables_le H)⟩
      cachedFilters := rfl
      observers := rfl
      locked := H.unlocked
      numComponents := H.zlen.symm }
  · rw [hused, ← hsum]
    refine (sum_flatMap_tables _ ?_).symm
    intro a ha
    obtain ⟨i, _, rfl⟩ := entry a ha
    exact fresh_size_tables s.w _
  · show s.w.pool.cap = s.w.pool.len + s.w.pool.available
    exact H.total_eq.symm
  · intro a ha
    obtain ⟨i, hi, rfl⟩ := entry a ha
    exact H.arch_count hi
  · intro i j a b hi hj hab
    rw [world_archetypes, List.getElem?_map] at hi hj
    cases hAi : s.w.archetypes[i]? with
    | none => rw [hAi] at hi; cases hi
    | some Ai =>
      cases hAj : s.w.archetypes[j]? with
      | none => rw [hAj] at hj; cases hj
      | some Aj =>
        rw [hAi] at hi; rw [hAj] at hj
        cases hi; cases hj
        exact hM.archetype_comps_unique (w := s.w)
          (List.getElem?_eq_some_iff.mp hAi).1 (List.getElem?_eq_some_iff.mp hAj).1
          (by rw [arch_of_get hAi, arch_of_get hAj]; exact hab)
  · intro x hx
    obtain ⟨A, hA, hAc⟩ := List.mem_map.mp (H.specComps_mem hx)
    refine ⟨s.w.archStatsFresh A, ?_, hAc⟩
    rw [world_archetypes]; exact List.mem_map.mpr ⟨A, hA, rfl⟩
  · intro a ha c hcm
    obtain ⟨i, hi, rfl⟩ := entry a ha
    rw [H.zlen]
    exact hM.comps_lt (List.mem_of_getElem? (aget_of_lt hi)) hcm
  · intro i A hA
    have hi : i < s.w.archetypes.length := alt_of_get hA
    have hAi : s.w.arch i = A := arch_of_get hA
    refine ⟨s.w.archStatsFresh A, ?_, rfl, rfl, rfl, fresh_tables_length s.w A, ?_,
      fresh_size_tables s.w A, fresh_capacity_tables s.w A⟩
    · rw [world_archetypes, List.getElem?_map, hA]; rfl
    · intro j t hj
      refine ⟨_, fresh_table_entry_get s.w A j t hj, rfl, rfl, ?_⟩
      have ht : t ∈ (s.w.arch i).tables.tables := by rw [hAi]; exact List.mem_of_getElem? hj
      exact H.table_count (H.active_lt hi ht)
  · intro a ha
    obtain ⟨i, hi, rfl⟩ := entry a ha
    exact H.numRel_spec (aget_of_lt hi)
  · intro a ha hnr
    obtain ⟨i, hi, rfl⟩ := entry a ha
    have hnr' : (s.w.arch i).hasRelations = false := by
      have : (s.w.arch i).numRel = 0 := hnr
      simp [Archetype.hasRelations, this]
    obtain ⟨h1, hfree⟩ := hS.nonRel i _ (aget_of_lt hi) hnr'
    obtain ⟨t, hts⟩ : ∃ (t : Nat), (s.w.arch i).tables.tables = [t] := by
      cases hl : (s.w.arch i).tables.tables with
      | nil => rw [hl] at h1; simp at h1
      | cons t rest =>
        cases rest with
        | nil => exact ⟨t, rfl⟩
        | cons u rest => rw [hl] at h1; simp at h1
    refine ⟨tableStats (s.w.tbl t) (s.w.memPerEntity (s.w.arch i)), ?_, ?_, ?_, ?_⟩
    · rw [fresh_tables, hts]; rfl
    · rw [fresh_size, hts]; simp [tableStats]
    · rw [fresh_capacity, hts, hfree]; simp [tableStats]
    · show (s.w.arch i).freeTables.length = 0
      rw [hfree]; rfl
  · intro a ha t ht
    obtain ⟨i, hi, rfl⟩ := entry a ha
    exact fresh_table_size_le s.w _
      (tables_le H _ (List.mem_of_getElem? (aget_of_lt hi))) t ht
  · intro a ha
    obtain ⟨i, hi, rfl⟩ := entry a ha
    exact World.memPerEntity_eq s.w _
  · intro a ha
    obtain ⟨i, hi, rfl⟩ := entry a ha
    exact ⟨fresh_memory s.w _, fresh_memoryUsed s.w _⟩
  · intro a ha t ht
    obtain ⟨i, hi, rfl⟩ := entry a ha
    exact fresh_table_entry s.w _ t ht

/-- the invariant of the relation machine does not read the statistics object -/
theorem AgreeRel.setStats {s : St} {st : WorldStats} (A : AgreeRel s st) (st' : WorldStats) :
    AgreeRel ⟨{ s.w with stats := st' }, s.issued, s.ss⟩ st :=
  ⟨A.used_spec, A.used_alive, A.used_archs, A.used_tables, A.total, A.arch_len, A.arch_size,
    A.arch_unique, A.arch_complete, A.arch_reg, A.arch_entry, A.num_rel, A.nonrel_shape,
    A.table_le, A.mpe, A.arch_memory, A.table_memory, A.memory, A.cachedFilters, A.observers,
    A.locked, A.numComponents⟩

/-- **C19 with relations, state level.**  At a state of the relation machine satisfying its
    invariant (`HInv` ⊇ `TInv`), for ANY stored statistics object satisfying `AgreesOn` (e.g.
    the result of `Stats()` on an earlier world of the same history, whatever the numbers of
    active tables were then): `Stats()` returns and stores the fresh statistics, and they agree
    with the contents. -/
theorem stats_exact {s : St} {fl : List Nat} (H : HInv s fl) (hst : AgreesOn s.w.stats s.w) :
    ∃ (st : WorldStats), opStats s.w = .ok st { s.w with stats := st } ∧
      st = statsFresh s.w ∧ AgreeRel s st ∧
      AgreeRel ⟨{ s.w with stats := st }, s.issued, s.ss⟩ st :=
  ⟨_, opStats_of_agreesOn s.w hst, rfl, agreeRel_fresh H, (agreeRel_fresh H).setStats _⟩

/-- the same with the stored object as a parameter -/
theorem stats_exact' {s : St} {fl : List Nat} (H : HInv s fl) (old : WorldStats)
    (hst : AgreesOn old s.w) :
    statsUpdate s.w old = statsFresh s.w ∧ AgreeRel s (statsUpdate s.w old) := by
  have := (statsUpdate_eq_fresh_iff s.w old).mpr hst
  rw [this]
  exact ⟨rfl, agreeRel_fresh H⟩

end RelRefine

end Ark
