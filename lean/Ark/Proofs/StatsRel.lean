/-
  Ark.Proofs.StatsRel — property C19 for worlds WITH relation tables, part 1: the state level.

  A relation archetype has any number of ACTIVE tables (one per combination of relation
  targets); the number shrinks (a target dies → `cleanupArchetypes` frees the table; `Shrink`
  frees empty relation tables; `Reset` frees all) and grows again (a freed table is recycled, a
  new one appended).  `archetype.UpdateStats` re-uses the per-table list of the stored object.

  * §1 — **the weakest condition on the stored object**: `archStatsUpdate w A s =
    archStatsFresh w A ↔ StatAgrees w s A` and `statsUpdate w st = statsFresh w ↔ AgreesOn st w`
    (`AgreesOn`: every stored archetype entry that has an archetype at its position carries that
    archetype's three immutable figures).  Nothing is demanded of the stored per-table lists,
    of the stored counters, or of the NUMBER of stored archetype entries.
    `archStatsUpdate_tables` & co.: whatever the stored entry is, the updated entry lists
    exactly the active tables (fewer / more / as many as the stored list had).
  * §2 — counting at a state of the relation machine (`RelRefine.HInv s fl` ⊇ `TInv`):
    `used_eq`, `total_eq`, `alive_count`, `table_count` (length of a table = number of
    specification entries indexed to it), `arch_count` (Σ over the ACTIVE tables of an archetype
    = number of entries with its component set), `sum_arch_sizes`.
  * §3 — `AgreeRel s st`: what C19 demands of the statistics reported at a state of the
    relation machine; `agreeRel_fresh`: the fresh statistics satisfy it; `stats_exact`: so does
    the result of `Stats()` for ANY stored object satisfying `AgreesOn`.

  Kernel-only proofs, core Lean only.
-/
import Ark.Proofs.StatsCount
import Ark.Proofs.RelRefine2Machine

set_option autoImplicit false

namespace Ark

open World Ark.Props.C01World

namespace World

/-! ## 1. the weakest condition on the stored object -/

/-- **whatever the stored entry looks like** — more table entries than the archetype has active
    tables now (tables were freed), fewer (tables were created or recycled), or as many — the
    updated entry lists exactly the active tables, in the archetype's order, each with its
    current length and capacity -/
theorem archStatsUpdate_tables (w : World) (A : Archetype) (s : ArchStats) :
    (w.archStatsUpdate A s).tables =
      A.tables.tables.map fun t => tableStats (w.tbl t) s.memoryPerEntity := by
  simp only [archStatsUpdate, map_take_append_map_drop]

theorem archStatsUpdate_tables_length (w : World) (A : Archetype) (s : ArchStats) :
    (w.archStatsUpdate A s).tables.length = A.tables.tables.length := by
  rw [archStatsUpdate_tables, List.length_map]

/-- the entry of the `j`-th active table after the update -/
theorem archStatsUpdate_table_entry (w : World) (A : Archetype) (s : ArchStats) (j t : Nat)
    (h : A.tables.tables[j]? = some t) :
    (w.archStatsUpdate A s).tables[j]? = some
      { size := (w.tbl t).len, capacity := (w.tbl t).cap
        memory := (w.tbl t).cap * s.memoryPerEntity
        memoryUsed := (w.tbl t).len * s.memoryPerEntity } := by
  simp [archStatsUpdate_tables, h, tableStats]

/-- the aggregated figures after the update, for any stored entry -/
theorem archStatsUpdate_figures (w : World) (A : Archetype) (s : ArchStats) :
    (w.archStatsUpdate A s).size = (A.tables.tables.map fun t => (w.tbl t).len).sum ∧
    (w.archStatsUpdate A s).capacity =
      (A.tables.tables.map fun t => (w.tbl t).cap).sum +
        (A.freeTables.map fun t => (w.tbl t).cap).sum ∧
    (w.archStatsUpdate A s).freeTables = A.freeTables.length ∧
    (w.archStatsUpdate A s).memoryPerEntity = s.memoryPerEntity ∧
    (w.archStatsUpdate A s).componentIDs = s.componentIDs ∧
    (w.archStatsUpdate A s).numRelations = s.numRelations := by
  refine ⟨?_, ?_, rfl, rfl, rfl, rfl⟩
  · simp [archStatsUpdate, foldl_add_zero, tableStats, Function.comp_def]
  · simp [archStatsUpdate, foldl_add_zero, tableStats, Function.comp_def]

/-- **`UpdateStats` = `Stats` exactly when the three immutable figures of the stored entry are
    those of the archetype** -/
theorem archStatsUpdate_eq_fresh_iff (w : World) (A : Archetype) (s : ArchStats) :
    w.archStatsUpdate A s = w.archStatsFresh A ↔ StatAgrees w s A := by
  constructor
  · intro h
    exact ⟨congrArg ArchStats.memoryPerEntity h, congrArg ArchStats.componentIDs h,
      congrArg ArchStats.numRelations h⟩
  · exact archStatsUpdate_eq_fresh w A s

/-- **the weakest condition** on a stored statistics object: every stored archetype entry that
    has an archetype at its position carries that archetype's `memoryPerEntity`, `componentIDs`
    and `numRelations`.  (`Compatible` of `Ark.Proofs.Stats` is this plus "no more entries than
    archetypes", which the Go code needs not to index out of range but the result does not.) -/
def AgreesOn (st : WorldStats) (w : World) : Prop :=
  ∀ (i : Nat) (s : ArchStats) (A : Archetype),
    st.archetypes[i]? = some s → w.archetypes[i]? = some A → StatAgrees w s A

theorem Compatible.agreesOn {st : WorldStats} {w : World} (h : Compatible st w) : AgreesOn st w :=
  h.2

theorem zip_update_eq_fresh_iff (w : World) :
    ∀ (ss : List ArchStats) (as : List Archetype),
      ((((as.take ss.length).zip ss).map fun (A, s) => w.archStatsUpdate A s) ++
          (as.drop ss.length).map w.archStatsFresh
        = as.map w.archStatsFresh) ↔
      (∀ (i : Nat) (s : ArchStats) (A : Archetype),
        ss[i]? = some s → as[i]? = some A → StatAgrees w s A) := by
  intro ss
  induction ss with
  | nil =>
    intro as
    constructor
    · intro _ i s A hs _; simp at hs
    · intro _; simp
  | cons s ss ih =>
    intro as
    cases as with
    | nil =>
      constructor
      · intro _ i s' A _ hA; simp at hA
      · intro _; simp
    | cons A as =>
      simp only [List.length_cons, List.take_succ_cons, List.zip_cons_cons, List.map_cons,
        List.drop_succ_cons, List.cons_append, List.cons.injEq]
      rw [ih as, archStatsUpdate_eq_fresh_iff]
      constructor
      · rintro ⟨h0, hr⟩ i s' A' hs hA
        cases i with
        | zero =>
          simp only [List.getElem?_cons_zero, Option.some.injEq] at hs hA
          subst hs; subst hA; exact h0
        | succ i =>
          exact hr i s' A' (by simpa using hs) (by simpa using hA)
      · intro h
        exact ⟨h 0 s A rfl rfl, fun i s' A' hs hA => h (i + 1) s' A' (by simpa using hs)
          (by simpa using hA)⟩

/-- **C19 with relations, state level, incremental = fresh: an equivalence.**  For ANY world and
    ANY stored statistics object: `World.Stats()` computes the fresh statistics iff the stored
    object satisfies `AgreesOn`. -/
theorem statsUpdate_eq_fresh_iff (w : World) (st : WorldStats) :
    w.statsUpdate st = w.statsFresh ↔ AgreesOn st w := by
  constructor
  · intro h
    have ha : (w.statsUpdate st).archetypes = w.statsFresh.archetypes := by rw [h]
    exact (zip_update_eq_fresh_iff w st.archetypes w.archetypes).mp ha
  · intro h
    have hz := (zip_update_eq_fresh_iff w st.archetypes w.archetypes).mpr h
    simp only [statsUpdate, statsFresh, hz]

theorem opStats_of_agreesOn (w : World) (h : AgreesOn w.stats w) :
    opStats w = .ok w.statsFresh { w with stats := w.statsFresh } := by
  simp only [opStats, (statsUpdate_eq_fresh_iff w w.stats).mpr h]

/-- a stored object with more archetype entries than the world has archetypes (not producible by
    `Stats()` on an earlier state, archetypes are never removed) is still repaired -/
theorem agreesOn_fresh_self (w : World) : AgreesOn w.statsFresh w := (compatible_fresh_self w).2

end World

/-! ## 2. counting at a state of the relation machine -/

namespace RelRefine

open Refine (Comps keys sortedIds)

variable {s : St} {fl : List Nat}

/-- `entityPool.Len()` is the number of specification entries -/
theorem HInv.used_eq (H : HInv s fl) : s.w.pool.len = s.ss.ents.length := by
  have hcount := H.ginv.count
  have havail := H.tinv.link.pool.avail
  simp only [St.ps, List.length_map] at hcount
  simp only [Pool.len, Pool.reserved]
  omega

/-- `used + recycled = total` -/
theorem HInv.total_eq (H : HInv s fl) : s.w.pool.len + s.w.pool.available = s.w.pool.cap := by
  have hcount := H.ginv.count
  have havail := H.tinv.link.pool.avail
  simp only [St.ps, List.length_map] at hcount
  simp only [Pool.len, Pool.cap, Pool.reserved]
  omega

/-- the alive issued handles are exactly the handles of the specification -/
theorem HInv.alive_count (H : HInv s fl) :
    (s.issued.filter fun e => s.w.alive e).length = s.ss.ents.length := by
  have h1 : (s.issued.filter fun e => s.w.alive e).Nodup := List.Pairwise.filter _ H.nodup
  have h2 : (s.ss.ents.map (·.1)).Nodup := H.ginv.live_nodup
  rw [length_eq_of_nodup_ext h1 h2, List.length_map]
  intro e
  rw [List.mem_filter]
  constructor
  · rintro ⟨hi, ha⟩
    exact (Pool.alive_iff_live s.ps fl H.ginv e hi).mp ha
  · intro hl
    have hi := H.ginv.live_issued e hl
    exact ⟨hi, (Pool.alive_iff_live s.ps fl H.ginv e hi).mpr hl⟩

/-- the IDs of the specification entries are pairwise different -/
theorem HInv.ids_nodup (H : HInv s fl) : (s.ss.ents.map fun x => x.1.id).Nodup := by
  refine QueryExact.nodup_map_of_nodup_map s.ss.ents (·.1) (fun x => x.1.id) H.ginv.live_nodup ?_
  intro a ha b hb hid
  exact H.id_inj (en := a.2) (en' := b.2) ha hb hid

/-- where a specification entry lives: an ACTIVE table of the archetype with its component set -/
theorem HInv.entry_row (H : HInv s fl) {e : Ent} {en : Entry} (hm : (e, en) ∈ s.ss.ents) :
    ∃ (t r : Nat), s.w.entities[e.id]? = some (t, r) ∧ t ≠ maxU32 ∧ t < s.w.tables.length ∧
      r < (s.w.tbl t).len ∧ ((s.w.tbl t).getEntity r).id = e.id ∧
      (s.w.tbl t).arch < s.w.archetypes.length ∧
      sortedIds s.w.kinds.length (keys en.comps) = (s.w.arch (s.w.tbl t).arch).comps ∧
      t ∈ (s.w.arch (s.w.tbl t).arch).tables.tables := by
  obtain ⟨hiss, ha, h2, hnf, _, _⟩ := H.live_facts hm
  obtain ⟨t, r, hentry, htm, _⟩ := H.tinv.link.live_entry h2 hnf ha (H.issued_in hiss)
  obtain ⟨hTlt, hr, hid⟩ := H.tinv.link.table_of_entry hentry htm
  have hT := get_of_lt hTlt
  have hS := H.tinv.rel.sinv.toSInvMid
  obtain ⟨A, hA, e1, _⟩ := hS.tblArch t _ hT
  have hco := (H.ok e en hm).comps
  simp only [compsOf, hentry, htm, if_false, hT, Option.map_some, Option.some.injEq] at hco
  have hfree : (s.w.tbl t).isFree = false := by
    cases hf : (s.w.tbl t).isFree with
    | false => rfl
    | true => have := H.tinv.freeEmpty t _ hT hf; omega
  refine ⟨t, r, hentry, htm, hTlt, hr, hid, alt_of_get hA, ?_, ((hS.member t _ hT).1).mp hfree⟩
  rw [← hco, e1, arch_of_get hA]

/-- **the length of table `t` is the number of specification entries indexed to `t`** -/
theorem HInv.table_count (H : HInv s fl) {t : Nat} (ht : t < s.w.tables.length) :
    (s.w.tbl t).len = (s.ss.ents.filter fun x => decide ((s.w.index x.1.id).1 = t)).length := by
  have L := H.tinv.link
  have hrow := fun (r : Nat) (hr : r < (s.w.tbl t).len) => L.row_live_id ht hr
  have h1 : ((List.range (s.w.tbl t).len).map fun r => ((s.w.tbl t).getEntity r).id).Nodup := by
    rw [List.Nodup, List.pairwise_map]
    refine List.Pairwise.imp_of_mem ?_ (List.nodup_range (n := (s.w.tbl t).len))
    intro a b ha hb hab heq
    obtain ⟨_, _, ea⟩ := hrow a (List.mem_range.mp ha)
    obtain ⟨_, _, eb⟩ := hrow b (List.mem_range.mp hb)
    rw [heq, eb] at ea
    exact hab (Prod.mk.inj (Option.some.inj ea)).2.symm
  have h2 : ((s.ss.ents.filter fun x => decide ((s.w.index x.1.id).1 = t)).map
      fun x => x.1.id).Nodup :=
    List.Nodup.sublist (List.Sublist.map _ List.filter_sublist) H.ids_nodup
  have := length_eq_of_nodup_ext h1 h2 (by
    intro i
    simp only [List.mem_map, List.mem_range, List.mem_filter, decide_eq_true_eq]
    constructor
    · rintro ⟨r, hr, rfl⟩
      obtain ⟨r2, rnf, rix⟩ := hrow r hr
      have rlt : ((s.w.tbl t).getEntity r).id < s.w.entities.length :=
        (List.getElem?_eq_some_iff.mp rix).1
      have hplt : ((s.w.tbl t).getEntity r).id < s.w.pool.ents.length := by
        rw [← L.lenEq]; exact rlt
      have hslot := List.getElem?_eq_getElem hplt
      have hself := L.pool.self _ _ hslot rnf
      have hlive : s.w.pool.ents[((s.w.tbl t).getEntity r).id] ∈ s.ps.live :=
        (H.ginv.live_iff _).mpr ⟨by rw [hself]; exact r2, by rw [hself]; exact rnf,
          by rw [hself]; exact hslot⟩
      obtain ⟨x, hx, hx1⟩ := List.mem_map.mp hlive
      refine ⟨x, ⟨hx, ?_⟩, ?_⟩
      · rw [hx1, hself, index_of_get rix]
      · rw [hx1, hself]
    · rintro ⟨x, ⟨hx, hxt⟩, rfl⟩
      obtain ⟨t', r, hentry, _, _, hr, hid, _⟩ := H.entry_row (e := x.1) (en := x.2) hx
      rw [index_of_get hentry] at hxt
      simp only at hxt
      subst hxt
      exact ⟨r, hr, hid⟩)
  simpa only [List.length_map, List.length_range] using this

/-- the component set the specification records for an entry, as the world lists it -/
def specComps (s : St) (x : Ent × Entry) : List Comp := sortedIds s.ss.zst.length (keys x.2.comps)

/-- an entry with the component set of archetype `a` is indexed to one of `a`'s active tables -/
theorem HInv.entry_arch (H : HInv s fl) {a : Nat} (ha : a < s.w.archetypes.length)
    {x : Ent × Entry} (hx : x ∈ s.ss.ents) (hc : specComps s x = (s.w.arch a).comps) :
    (s.w.index x.1.id).1 ∈ (s.w.arch a).tables.tables := by
  obtain ⟨t, r, hentry, _, _, _, _, halt, hco, hmem⟩ := H.entry_row (e := x.1) (en := x.2) hx
  rw [index_of_get hentry]
  rw [specComps, H.zlen, hco] at hc
  have : (s.w.tbl t).arch = a :=
    H.tinv.rel.sinv.toSInvMid.archetype_comps_unique halt ha hc
  rw [this] at hmem
  exact hmem

/-- an entry indexed to an active table of archetype `a` has `a`'s component set -/
theorem HInv.comps_of_table (H : HInv s fl) {a t : Nat} (ha : a < s.w.archetypes.length)
    (ht : t ∈ (s.w.arch a).tables.tables) {x : Ent × Entry} (hx : x ∈ s.ss.ents)
    (hi : (s.w.index x.1.id).1 = t) : specComps s x = (s.w.arch a).comps := by
  obtain ⟨t', r, hentry, _, _, _, _, _, hco, _⟩ := H.entry_row (e := x.1) (en := x.2) hx
  rw [index_of_get hentry] at hi
  simp only at hi
  subst hi
  obtain ⟨T, hT, hTa⟩ := H.tinv.rel.sinv.toSInvMid.owned a _ t' (aget_of_lt ha) (Or.inl ht)
  rw [specComps, H.zlen, hco, tbl_of_get hT, hTa]

/-- the active tables of an archetype exist -/
theorem HInv.active_lt (H : HInv s fl) {a t : Nat} (ha : a < s.w.archetypes.length)
    (ht : t ∈ (s.w.arch a).tables.tables) : t < s.w.tables.length := by
  obtain ⟨T, hT, _⟩ := H.tinv.rel.sinv.toSInvMid.owned a _ t (aget_of_lt ha) (Or.inl ht)
  exact lt_of_get hT

/-- **the `size` of archetype `a`** (as `archetype.Stats` reports it: the sum over its ACTIVE
    tables) is the number of specification entries whose component set is the component list of
    `a` -/
theorem HInv.arch_count (H : HInv s fl) {a : Nat} (ha : a < s.w.archetypes.length) :
    (s.w.archStatsFresh (s.w.arch a)).size =
      (s.ss.ents.filter fun x => decide (specComps s x = (s.w.arch a).comps)).length := by
  have hnd : (s.w.arch a).tables.tables.Nodup :=
    (H.tinv.rel.sinv.toSInvMid.astruct a _ (aget_of_lt ha)).tablesWF.nodup
  have hp := sum_filter_partition (fun (x : Ent × Entry) => (s.w.index x.1.id).1)
    (s.w.arch a).tables.tables hnd
    (s.ss.ents.filter fun x => decide (specComps s x = (s.w.arch a).comps))
    (by
      intro x hx
      obtain ⟨hx1, hx2⟩ := List.mem_filter.mp hx
      exact H.entry_arch ha hx1 (of_decide_eq_true hx2))
  rw [fresh_size, ← hp]
  congr 1
  apply List.map_congr_left
  intro t ht
  rw [H.table_count (H.active_lt ha ht), List.filter_filter]
  congr 1
  apply List.filter_congr
  intro x hx
  by_cases hi : (s.w.index x.1.id).1 = t
  · simp only [hi, decide_true, Bool.true_and]
    exact (decide_eq_true (H.comps_of_table ha ht hx hi)).symm
  · simp only [hi, decide_false, Bool.false_and]

/-- **what a table entry counts**: an entity indexed to table `t` has exactly the relation
    targets the table lists (and, `comps_of_table`, the component set of the table's archetype) -/
theorem HInv.table_rels (H : HInv s fl) {x : Ent × Entry} (hx : x ∈ s.ss.ents) (r : RelID) :
    r ∈ (s.w.tbl (s.w.index x.1.id).1).relIDs ↔ r ∈ x.2.rels := by
  obtain ⟨e, en⟩ := x
  obtain ⟨hiss, ha, h2, hnf, _, _⟩ := H.live_facts hx
  obtain ⟨t, row, hentry, htm, _⟩ := H.tinv.link.live_entry h2 hnf ha (H.issued_in hiss)
  obtain ⟨hTlt, _, _⟩ := H.tinv.link.table_of_entry hentry htm
  have hT := get_of_lt hTlt
  have hS := H.tinv.rel.sinv.toSInvMid
  have hnd : (s.w.tbl t).ids.Nodup := hS.ids_nodup hT
  have hfree : (s.w.tbl t).isFree = false := by
    cases hf : (s.w.tbl t).isFree with
    | false => rfl
    | true => have := H.tinv.freeEmpty t _ hT hf; have := (H.tinv.link.table_of_entry hentry htm).2.1; omega
  have hex := H.tinv.rel.aux.rels t _ hT hfree
  have ok := H.ok e en hx
  have htgt : ∀ (c : Comp), targetOf s.w e.id c = (s.w.tbl t).targetAt c :=
    fun c => targetOf_of_entry hentry htm hT c
  show r ∈ (s.w.tbl (s.w.index e.id).1).relIDs ↔ r ∈ en.rels
  rw [index_of_get hentry]
  simp only
  constructor
  · intro hr
    obtain ⟨i, h1, h2, h3⟩ := hex.sound r hr
    have hat : (s.w.tbl t).targetAt r.comp = some r.target := by
      simp only [Table.targetAt, Table.colIdx_of_get hnd h1, Option.bind_some, h2, if_true, h3]
    have hsome : (targetOf s.w e.id r.comp).isSome = true := by rw [htgt, hat]; rfl
    have hmem := (H.target_isSome_iff hx r.comp).mp hsome
    obtain ⟨r', hr', hc⟩ := List.mem_map.mp hmem
    have h4 := ok.tgts r' hr'
    rw [hc, htgt, hat] at h4
    have : r' = r := by
      cases r; cases r'
      simp only at hc
      subst hc
      simp only at h4
      rw [Option.some.inj h4]
    rw [← this]; exact hr'
  · intro hr
    have h4 := ok.tgts r hr
    rw [htgt] at h4
    simp only [Table.targetAt] at h4
    cases hc : (s.w.tbl t).colIdx r.comp with
    | none => rw [hc] at h4; cases h4
    | some k =>
      rw [hc, Option.bind_some] at h4
      cases hk : (s.w.tbl t).isRel.getD k false with
      | false => rw [hk] at h4; cases h4
      | true =>
        rw [hk, if_pos rfl] at h4
        have hid := (Table.colIdx_iff hnd).mp hc
        have := hex.complete k r.comp hid hk
        rw [Option.some.inj h4] at this
        exact this

/-- the component lists of the archetypes: no two are equal -/
theorem HInv.comps_nodup (H : HInv s fl) : (s.w.archetypes.map (·.comps)).Nodup := by
  rw [List.Nodup, List.pairwise_map, List.pairwise_iff_getElem]
  intro i j hi hj hij heq
  have := H.tinv.rel.sinv.toSInvMid.archetype_comps_unique (w := s.w) hi hj (by
    rw [arch_of_get (List.getElem?_eq_getElem hi), arch_of_get (List.getElem?_eq_getElem hj)]
    exact heq)
  omega

/-- the component set of every specification entry is the component list of an archetype -/
theorem HInv.specComps_mem (H : HInv s fl) {x : Ent × Entry} (hx : x ∈ s.ss.ents) :
    specComps s x ∈ s.w.archetypes.map (·.comps) := by
  obtain ⟨t', r, _, _, _, _, _, halt, hco, _⟩ := H.entry_row (e := x.1) (en := x.2) hx
  rw [specComps, H.zlen, hco]
  exact List.mem_map.mpr ⟨_, List.mem_of_getElem? (aget_of_lt halt), rfl⟩

/-- **Σ archetype sizes = number of specification entries** -/
theorem HInv.sum_arch_sizes (H : HInv s fl) :
    ((s.w.archetypes.map s.w.archStatsFresh).map (·.size)).sum = s.ss.ents.length := by
  have hp := sum_filter_partition (specComps s) (s.w.archetypes.map (·.comps)) H.comps_nodup
    s.ss.ents (fun x hx => H.specComps_mem hx)
  rw [← hp, List.map_map, List.map_map]
  congr 1
  apply List.map_congr_left
  intro A hA
  obtain ⟨a, haA⟩ := List.getElem?_of_mem hA
  have ha : a < s.w.archetypes.length := (List.getElem?_eq_some_iff.mp haA).1
  have := H.arch_count ha
  rw [arch_of_get haA] at this
  simpa only [Function.comp] using this

end RelRefine

end Ark
