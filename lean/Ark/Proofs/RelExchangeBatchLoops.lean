/-
  Ark.Proofs.RelExchangeBatchLoops — the exchange batch over relation tables (C06 + C04), part 3:
  the two loops of `exchangeBatch`.

  * `LExt` — what the lookups do to the world (non-free tables and archetype masks are kept, tables
    and archetypes are appended or recycled, no entity changes); `XchgLooked.lext`, `.moveSt`;
  * `DestX` / `findLoopX_spec` — the lookup loop never fails for a valid call and keeps the loop
    invariant `MoveSt`; every non-empty selected table gets a destination: another non-free table
    whose columns are `xmask add rem (mask of the source)` and whose relation columns hold the
    targets of the source on the components that stay and the given targets; several sources may
    share a destination (when the relation components in which they differ are removed);
  * `MovesX`, `movesX_of_dest` — the moves are independent: distinct sources, no destination is a
    source;
  * `MovedAllX` / `moveLoopX_post` — the move loop: every entity of a source table gets the columns
    and the relation targets of its destination, keeps the values of the columns that stay, reads
    zero in the new ones; nobody else changes; afterwards the targets of `rels` are flagged.
  Kernel-only proofs, core Lean only.
-/
import Ark.Proofs.RelExchangeBatch

set_option autoImplicit false

namespace Ark

open World Ark.Props.C01World QueryRel

/-! ## 1. what the lookups do to the world -/

/-- `w'` extends `w` as the table lookups of the batch do -/
structure LExt (w w' : World) : Prop where
  keepT : ∀ (t : Nat), t < w.tables.length → (w.tbl t).isFree = false →
    w'.tables[t]? = w.tables[t]?
  masks : ∀ (b : Nat), b < w.archetypes.length → (w'.arch b).mask = (w.arch b).mask
  tablesLen : w.tables.length ≤ w'.tables.length
  archsLen : w.archetypes.length ≤ w'.archetypes.length
  entities : w'.entities = w.entities
  pool : w'.pool = w.pool
  kinds : w'.kinds = w.kinds
  untouched : Untouched w w'
  frame : ∀ (j : Nat), SameEnt w w' j ∧ ∀ (c : Comp), targetOf w' j c = targetOf w j c

theorem LExt.refl (w : World) : LExt w w :=
  ⟨fun _ _ _ => rfl, fun _ _ => rfl, Nat.le_refl _, Nat.le_refl _, rfl, rfl, rfl, Untouched.refl w,
    fun _ => ⟨⟨fun _ => rfl, rfl⟩, fun _ => rfl⟩⟩

theorem LExt.tbl {w w' : World} (h : LExt w w') {t : Nat} (ht : t < w.tables.length)
    (hf : (w.tbl t).isFree = false) : w'.tbl t = w.tbl t := by
  simp only [World.tbl, List.getD_eq_getElem?_getD, h.keepT t ht hf]

theorem LExt.trans {a b c : World} (h1 : LExt a b) (h2 : LExt b c) : LExt a c where
  keepT := by
    intro t ht hf
    have e1 := h1.tbl ht hf
    rw [h2.keepT t (Nat.lt_of_lt_of_le ht h1.tablesLen) (by rw [e1]; exact hf)]
    exact h1.keepT t ht hf
  masks := fun x hx => (h2.masks x (Nat.lt_of_lt_of_le hx h1.archsLen)).trans (h1.masks x hx)
  tablesLen := Nat.le_trans h1.tablesLen h2.tablesLen
  archsLen := Nat.le_trans h1.archsLen h2.archsLen
  entities := h2.entities.trans h1.entities
  pool := h2.pool.trans h1.pool
  kinds := h2.kinds.trans h1.kinds
  untouched := h1.untouched.trans h2.untouched
  frame := fun j => ⟨(h1.frame j).1.trans (h2.frame j).1,
    fun c => ((h2.frame j).2 c).trans ((h1.frame j).2 c)⟩

theorem LExt.tmask {w w' : World} (h : LExt w w') (hS : SInvMid w) {t : Nat}
    (ht : t < w.tables.length) (hf : (w.tbl t).isFree = false) : tmask w' t = tmask w t := by
  obtain ⟨A, hA, _⟩ := hS.tblArch t _ (get_of_lt ht)
  simp only [World.tmask, h.tbl ht hf]
  exact h.masks _ (alt_of_get hA)

theorem XchgLooked.lext {w w1 : World} {oldT : Nat} {add rem : List Comp} {rels : List RelID}
    {t a : Nat} (lk : XchgLooked w w1 oldT add rem rels t a) (hI : IdxInv w) (hE : FreeEmpty w) :
    LExt w w1 where
  keepT := by
    intro t0 ht0 hf0
    by_cases h0 : t0 = t
    · subst h0
      rcases lk.ar.tkeep ht0 with k | k
      · exact k
      · rw [hf0] at k; cases k
    · exact lk.ar.foc.others t0 ht0 h0
  masks := lk.ar.foc.masks
  tablesLen := lk.ar.foc.tablesLen
  archsLen := lk.ar.foc.archsLen
  entities := lk.ar.foc.entities
  pool := lk.ar.foc.pool
  kinds := lk.ar.foc.kinds
  untouched := lk.ar.untouched
  frame := lk.ar.frame hI hE

theorem XchgLooked.moveSt {w w1 : World} {fl : List Nat} {oldT : Nat} {add rem : List Comp}
    {rels : List RelID} {t a : Nat} (lk : XchgLooked w w1 oldT add rem rels t a)
    (h : MoveSt w fl rels) (hfew : w.tables.length < maxU32) : MoveSt w1 fl rels :=
  ⟨lk.ar.rel, lk.ar.flags, lk.ar.freeEmpty,
    h.link.transfer (lk.ar.foc.idx h.link.idx) lk.ar.foc.pool (IdxSame.of_eq lk.ar.foc.entities)
      (by rw [lk.ar.untouched.isTarget]) (by have := lk.ar.tablesLen; omega)⟩

theorem XchgPreM.congr {w w' : World} {m : Mask} {add rem : List Comp} {rels : List RelID}
    (h : XchgPreM w m add rem rels) (hk : w'.kinds = w.kinds) (hp : w'.pool = w.pool) :
    XchgPreM w' m add rem rels where
  nonempty := h.nonempty
  remNodup := h.remNodup
  remHas := h.remHas
  addNodup := h.addNodup
  addReg := by rw [hk]; exact h.addReg
  addNew := h.addNew
  relsNodup := h.relsNodup
  relsIn := h.relsIn
  relsRel := fun r hr => by simp only [World.isRelComp, hk]; exact h.relsRel r hr
  relsAll := fun c hc hr => h.relsAll c hc (by simp only [World.isRelComp, hk] at hr; exact hr)
  targets := fun r hr => by simp only [World.alive, hp]; exact h.targets r hr

theorem XchgPreM.exchOK {w : World} {m : Mask} {add rem : List Comp} {rels : List RelID}
    (h : XchgPreM w m add rem rels) : ExchOK w.kinds.length add rem m :=
  ⟨h.remNodup, h.remHas, h.addNodup, h.addReg, h.addNew⟩

/-! ## 2. the lookup loop -/

/-- a source table of the original world `w0` and its destination in the world `W` -/
structure DestX (w0 : World) (add rem : List Comp) (rels : List RelID) (W : World)
    (b : BatchTable) : Prop where
  src : b.oldT < w0.tables.length
  srcNF : (w0.tbl b.oldT).isFree = false
  nonempty : (w0.tbl b.oldT).len ≠ 0
  len : b.len = (w0.tbl b.oldT).len
  dlt : b.newT < W.tables.length
  dNF : (W.tbl b.newT).isFree = false
  ne : b.newT ≠ b.oldT
  dmask : tmask W b.newT = xmask add rem (tmask w0 b.oldT)
  idsEq : (W.tbl b.newT).ids = (xmask add rem (tmask w0 b.oldT)).toList w0.kinds.length
  ids : ∀ (c : Comp), c ∈ (W.tbl b.newT).ids ↔
    (((tmask w0 b.oldT).get c = true ∧ c ∉ rem) ∨ c ∈ add)
  tgt : ∀ (c : Comp) (x : Ent), (W.tbl b.newT).targetAt c = some x ↔
    ((c ∉ rem ∧ (w0.tbl b.oldT).targetAt c = some x) ∨ (⟨c, x⟩ : RelID) ∈ rels)

theorem DestX.mono {w0 W W' : World} {add rem : List Comp} {rels : List RelID} {b : BatchTable}
    (d : DestX w0 add rem rels W b) (hS : SInvMid W) (e : LExt W W') :
    DestX w0 add rem rels W' b := by
  have ht := e.tbl d.dlt d.dNF
  exact
    { src := d.src, srcNF := d.srcNF, nonempty := d.nonempty, len := d.len
      dlt := Nat.lt_of_lt_of_le d.dlt e.tablesLen
      dNF := by rw [ht]; exact d.dNF
      ne := d.ne
      dmask := (e.tmask hS d.dlt d.dNF).trans d.dmask
      idsEq := by rw [ht]; exact d.idsEq
      ids := by rw [ht]; exact d.ids
      tgt := by rw [ht]; exact d.tgt }

/-- **the lookup loop**: every non-empty selected table gets its destination; the world is extended
    by the archetypes and tables that did not exist; nothing happens when every table is empty -/
theorem findLoopX_spec {w0 : World} (hS0 : SInvMid w0) {fl : List Nat} {add rem : List Comp}
    {rels : List RelID} (hk256 : w0.kinds.length ≤ 256) :
    ∀ (ts : List Nat) (s : Bool × List BatchTable) (w : World),
    MoveSt w fl rels → LExt w0 w →
    (∀ (t : Nat), t ∈ ts → t < w0.tables.length ∧ (w0.tbl t).isFree = false) →
    (∀ (t : Nat), t ∈ ts → (w0.tbl t).len ≠ 0 → XchgPreM w0 (tmask w0 t) add rem rels) →
    w.tables.length + ts.length < maxU32 →
    ∃ (rr : Bool) (bts : List BatchTable) (w1 : World),
      findLoopX add rem rels ts s w = .ok (rr, s.2 ++ bts) w1 ∧ MoveSt w1 fl rels ∧ LExt w w1 ∧
      bts.map (·.oldT) = ts.filter (fun t => (w0.tbl t).len != 0) ∧
      (∀ (b : BatchTable), b ∈ bts → DestX w0 add rem rels w1 b) ∧
      w1.tables.length ≤ w.tables.length + ts.length ∧
      w1.relationArchetypes.length ≤ w.relationArchetypes.length + ts.length ∧
      (bts = [] → w1 = w)
  | [], s, w, h, _, _, _, _ =>
    ⟨s.1, [], w, (by simp [findLoopX, pure, M.pure]), h, LExt.refl w, rfl,
      (fun b hb => by cases hb), Nat.le_refl _, Nat.le_refl _, fun _ => rfl⟩
  | t :: ts, s, w, h, e0, hlt, hok, hfew => by
    obtain ⟨ht0, hnf0⟩ := hlt t List.mem_cons_self
    have ht : t < w.tables.length := Nat.lt_of_lt_of_le ht0 e0.tablesLen
    have htbl : w.tbl t = w0.tbl t := e0.tbl ht0 hnf0
    have hlt' : ∀ (t' : Nat), t' ∈ ts → t' < w0.tables.length ∧ (w0.tbl t').isFree = false :=
      fun t' h' => hlt t' (List.mem_cons_of_mem _ h')
    have hok' : ∀ (t' : Nat), t' ∈ ts → (w0.tbl t').len ≠ 0 →
        XchgPreM w0 (tmask w0 t') add rem rels :=
      fun t' h' => hok t' (List.mem_cons_of_mem _ h')
    simp only [List.length_cons] at hfew
    cases h0 : ((w0.tbl t).len == 0) with
    | true =>
      obtain ⟨rr, bts, w1, i1, i2, i3, i4, i5, i6, i7, i8⟩ :=
        findLoopX_spec hS0 hk256 ts s w h e0 hlt' hok' (by omega)
      refine ⟨rr, bts, w1, ?_, i2, i3, ?_, i5, by simp only [List.length_cons]; omega,
        by simp only [List.length_cons]; omega, i8⟩
      · simp only [findLoopX, htbl, h0, if_true]; exact i1
      · rw [i4, List.filter_cons]
        have : ((w0.tbl t).len != 0) = false := by simp only [bne, h0, Bool.not_true]
        rw [this]; rfl
    | false =>
      have hnz : (w0.tbl t).len ≠ 0 := by simpa using h0
      have hmask : tmask w t = tmask w0 t := e0.tmask hS0 ht0 hnf0
      have pre : XchgPreM w (tmask w t) add rem rels := by
        rw [hmask]; exact (hok t List.mem_cons_self hnz).congr e0.kinds e0.pool
      obtain ⟨d, a, w', lk⟩ := xchgLookup h.rel h.flags h.freeEmpty (by rw [e0.kinds]; exact hk256)
        ht (by rw [htbl]; exact hnf0) pre
      have e' : LExt w w' := lk.lext h.link.idx h.freeEmpty
      have h' : MoveSt w' fl rels := lk.moveSt h (by omega)
      have hl' : w'.tables.length ≤ w.tables.length + 1 := lk.ar.tablesLen
      obtain ⟨rr, bts, w1, i1, i2, i3, i4, i5, i6, i7, _⟩ :=
        findLoopX_spec hS0 hk256 ts
          (if (xchgRelRemoved (w.tbl t) (xmask add rem (tmask w t)) rem) = true then
              (true, s.2 ++ [{ oldT := t, newT := d, len := (w.tbl t).len }])
            else (s.1, s.2 ++ [{ oldT := t, newT := d, len := (w.tbl t).len }])) w' h'
          (e0.trans e') hlt' hok' (by omega)
      have hs2 : (if (xchgRelRemoved (w.tbl t) (xmask add rem (tmask w t)) rem) = true then
              ((true, s.2 ++ [{ oldT := t, newT := d, len := (w.tbl t).len }]) :
                Bool × List BatchTable)
            else (s.1, s.2 ++ [{ oldT := t, newT := d, len := (w.tbl t).len }])).2 =
          s.2 ++ [{ oldT := t, newT := d, len := (w.tbl t).len }] := by
        split <;> rfl
      refine ⟨rr, { oldT := t, newT := d, len := (w.tbl t).len } :: bts, w1, ?_, i2, e'.trans i3,
        ?_, ?_, by simp only [List.length_cons]; omega, ?_, fun hh => by cases hh⟩
      · have hfoc' : findOrCreateTable t (w.arch (w.tbl t).arch).mask add rem rels w =
            .ok (d, a, xmask add rem (tmask w t),
              xchgRelRemoved (w.tbl t) (xmask add rem (tmask w t)) rem) w' := lk.call
        simp only [findLoopX, htbl, h0, Bool.false_eq_true, if_false]
        rw [← htbl, hfoc']
        simp only
        rw [i1, hs2]
        simp only [List.append_assoc, List.singleton_append]
      · rw [List.map_cons, i4, List.filter_cons]
        have : ((w0.tbl t).len != 0) = true := by simp only [bne, h0, Bool.not_false]
        rw [this]; rfl
      · intro b hb
        rcases List.mem_cons.mp hb with rfl | hb
        · have foc := lk.ar.foc
          have dx : DestX w0 add rem rels w' { oldT := t, newT := d, len := (w.tbl t).len } :=
            { src := ht0, srcNF := hnf0, nonempty := hnz, len := by rw [htbl]
              dlt := foc.tblLt, dNF := foc.tblFree, ne := Ne.symm lk.ne
              dmask := by
                show tmask w' d = xmask add rem (tmask w0 t)
                rw [← hmask]
                simp only [tmask, foc.tblArch, foc.archMask]
              idsEq := by
                show (w'.tbl d).ids = _
                rw [lk.idsEq, hmask, e0.kinds]
              ids := by
                intro c
                show c ∈ (w'.tbl d).ids ↔ _
                rw [lk.ids, hmask]
              tgt := by
                intro c x
                show (w'.tbl d).targetAt c = some x ↔ _
                rw [lk.targetAt_iff, htbl] }
          exact dx.mono h'.rel.sinv.toSInvMid i3
        · exact i5 b hb
      · have := lk.relArchs
        simp only [List.length_cons]; omega

/-! ## 3. the move loop -/

/-- the moves are independent: distinct sources, no destination is a source; all tables exist, the
    destinations are not free -/
structure MovesX (W : World) (bts : List BatchTable) : Prop where
  srcNodup : (bts.map (·.oldT)).Nodup
  src : ∀ (b : BatchTable), b ∈ bts → b.oldT < W.tables.length
  dst : ∀ (b : BatchTable), b ∈ bts → b.newT < W.tables.length
  dstNF : ∀ (b : BatchTable), b ∈ bts → (W.tbl b.newT).isFree = false
  disj : ∀ (b : BatchTable), b ∈ bts → ∀ (b' : BatchTable), b' ∈ bts → b.newT ≠ b'.oldT

/-- the moves found by the lookup loop are independent -/
theorem movesX_of_dest {w0 W : World} (hS0 : SInvMid w0) (e : LExt w0 W)
    (hk256 : w0.kinds.length ≤ 256) {add rem : List Comp} {rels : List RelID}
    {bts : List BatchTable} (hsrc : (bts.map (·.oldT)).Nodup)
    (hd : ∀ (b : BatchTable), b ∈ bts → DestX w0 add rem rels W b)
    (hok : ∀ (b : BatchTable), b ∈ bts → XchgPreM w0 (tmask w0 b.oldT) add rem rels) :
    MovesX W bts := by
  refine ⟨hsrc, fun b hb => Nat.lt_of_lt_of_le (hd b hb).src e.tablesLen, fun b hb => (hd b hb).dlt,
    fun b hb => (hd b hb).dNF, ?_⟩
  intro b hb b' hb' heq
  have m1 := (hd b hb).dmask
  rw [heq, e.tmask hS0 (hd b' hb').src (hd b' hb').srcNF] at m1
  have ok' := (hok b' hb').exchOK
  rw [m1] at ok'
  exact xmask_not_ok (hok b hb).exchOK hk256 (hok b hb).nonempty ok'

/-- what the move loop guarantees -/
structure MovedAllX (W : World) (fl : List Nat) (rels : List RelID) (bts : List BatchTable)
    (W' : World) : Prop where
  st : MoveSt W' fl rels
  flagsOK : bts ≠ [] → FlagsOK W'
  ms : MetaStep W W'
  pool : W'.pool = W.pool
  obs : W'.obs = W.obs
  locks : W'.locks = W.locks
  maxComps : W'.maxComps = W.maxComps
  isTargetLen : W'.isTarget.length = W.isTarget.length
  entitiesLen : W'.entities.length = W.entities.length
  /-- every entity of a source table has the columns and the relation targets of the destination;
      a component the source had keeps its value, the others read zero -/
  moved : ∀ (b : BatchTable), b ∈ bts → ∀ (k : Nat), k < (W.tbl b.oldT).len →
    compsOf W' ((W.tbl b.oldT).getEntity k).id = some (W.tbl b.newT).ids ∧
    (∀ (c : Comp), c ∈ (W.tbl b.newT).ids →
      valOf W' ((W.tbl b.oldT).getEntity k).id c =
        if c ∈ (W.tbl b.oldT).ids then valOf W ((W.tbl b.oldT).getEntity k).id c else some 0) ∧
    ∀ (c : Comp), targetOf W' ((W.tbl b.oldT).getEntity k).id c = (W.tbl b.newT).targetAt c
  /-- every other entity is unchanged -/
  frame : ∀ (j : Nat), j ∉ srcIds W bts →
    SameEnt W W' j ∧ ∀ (c : Comp), targetOf W' j c = targetOf W j c

/-- **the move loop** (no callback): the tables are moved one after the other -/
theorem moveLoopX_post {fl : List Nat} {rels : List RelID} :
    ∀ (bts : List BatchTable) {W : World}, MoveSt W fl rels → MovesX W bts →
    2 * W.entities.length < 2 ^ 32 →
    (bts ≠ [] →
      ∀ (r : RelID), r ∈ rels → r.target.isZero = false → r.target.id < W.isTarget.length) →
    MovedAllX W fl rels bts (bts.foldl (moveStepX rels) W)
  | [], W, h, _, _, _ =>
    { st := h, flagsOK := fun hh => absurd rfl hh, ms := MetaStep.refl W, pool := rfl, obs := rfl
      locks := rfl, maxComps := rfl, isTargetLen := rfl, entitiesLen := rfl
      moved := (fun b hb => by cases hb)
      frame := fun _ _ => ⟨⟨fun _ => rfl, rfl⟩, fun _ => rfl⟩ }
  | b :: bts, W, h, ok, hent, hreg0 => by
    have hreg := hreg0 (List.cons_ne_nil _ _)
    have hI := h.link.idx
    have hsn : b.oldT ∉ bts.map (·.oldT) ∧ (bts.map (·.oldT)).Nodup := by
      have := ok.srcNodup; rw [List.map_cons] at this; exact List.nodup_cons.mp this
    have hbo := ok.src b List.mem_cons_self
    have hbn := ok.dst b List.mem_cons_self
    have hne : b.oldT ≠ b.newT := fun hh => ok.disj b List.mem_cons_self b List.mem_cons_self hh.symm
    have hb : (W.tbl b.newT).len + (W.tbl b.oldT).len < 2 ^ 32 := by
      have h1 := hI.rows_le b.newT
      have h2 := hI.rows_le b.oldT
      omega
    have tp : TableMovedRel W fl rels b.oldT b.newT (moveStepX rels W b) :=
      h.tableMoved hne hbo hbn (ok.dstNF b List.mem_cons_self) hb hreg
    -- the remaining moves do not touch the source; their sources are untouched
    have hother : ∀ (b' : BatchTable), b' ∈ bts → b'.oldT ≠ b.oldT ∧ b'.oldT ≠ b.newT ∧
        b'.newT ≠ b.oldT := by
      intro b' hb'
      refine ⟨?_, ?_, ?_⟩
      · intro hh; exact hsn.1 (List.mem_map.mpr ⟨b', hb', hh⟩)
      · intro hh; exact ok.disj b List.mem_cons_self b' (List.mem_cons_of_mem _ hb') hh.symm
      · exact ok.disj b' (List.mem_cons_of_mem _ hb') b List.mem_cons_self
    have hsrc' : ∀ (b' : BatchTable), b' ∈ bts →
        (moveStepX rels W b).tbl b'.oldT = W.tbl b'.oldT :=
      fun b' hb' => tp.others _ (hother b' hb').1 (hother b' hb').2.1
    have hdstM : ∀ (b' : BatchTable), b' ∈ bts →
        Table.SameMeta (W.tbl b'.newT) ((moveStepX rels W b).tbl b'.newT) :=
      fun b' hb' => tp.ms.tmeta _ (ok.dst b' (List.mem_cons_of_mem _ hb'))
    have ok' : MovesX (moveStepX rels W b) bts :=
      ⟨hsn.2, fun b' hb' => by rw [tp.ms.len]; exact ok.src b' (List.mem_cons_of_mem _ hb'),
        fun b' hb' => by rw [tp.ms.len]; exact ok.dst b' (List.mem_cons_of_mem _ hb'),
        fun b' hb' => by
          rw [(hdstM b' hb').isFree]; exact ok.dstNF b' (List.mem_cons_of_mem _ hb'),
        fun b1 h1 b2 h2 => ok.disj b1 (List.mem_cons_of_mem _ h1) b2 (List.mem_cons_of_mem _ h2)⟩
    have ip := moveLoopX_post bts tp.st ok' (by rw [tp.entitiesLen]; exact hent)
      (fun _ r hr hz => by rw [tp.isTargetLen]; exact hreg r hr hz)
    -- IDs in the rows of the first source are not in the rows of the later sources
    have hsep : ∀ (k : Nat), k < (W.tbl b.oldT).len →
        ((W.tbl b.oldT).getEntity k).id ∉ srcIds (moveStepX rels W b) bts := by
      intro k hk hm
      obtain ⟨b', hb', k', hk', heq⟩ := mem_srcIds.mp hm
      rw [hsrc' b' hb'] at hk' heq
      have := hI.row_inj (get_of_lt (ok.src b' (List.mem_cons_of_mem _ hb'))) (get_of_lt hbo)
        hk' hk heq
      exact (hother b' hb').1 this.1
    have hsep' : ∀ (j : Nat), j ∉ srcIds W (b :: bts) →
        (∀ (k : Nat), k < (W.tbl b.oldT).len → ((W.tbl b.oldT).getEntity k).id ≠ j) ∧
        j ∉ srcIds (moveStepX rels W b) bts := by
      intro j hj
      constructor
      · intro k hk heq
        exact hj (mem_srcIds.mpr ⟨b, List.mem_cons_self, k, hk, heq⟩)
      · intro hm
        obtain ⟨b', hb', k', hk', heq⟩ := mem_srcIds.mp hm
        rw [hsrc' b' hb'] at hk' heq
        exact hj (mem_srcIds.mpr ⟨b', List.mem_cons_of_mem _ hb', k', hk', heq⟩)
    show MovedAllX W fl rels (b :: bts) (bts.foldl (moveStepX rels) (moveStepX rels W b))
    exact
      { st := ip.st
        flagsOK := by
          intro _
          by_cases hbts : bts = []
          · have hfold : bts.foldl (moveStepX rels) (moveStepX rels W b) = moveStepX rels W b := by
              rw [hbts]; rfl
            rw [hfold]; exact tp.flagsOK
          · exact ip.flagsOK hbts
        ms := tp.ms.trans ip.ms
        pool := ip.pool.trans tp.pool
        obs := ip.obs.trans tp.obs
        locks := ip.locks.trans tp.locks
        maxComps := ip.maxComps.trans tp.maxComps
        isTargetLen := ip.isTargetLen.trans tp.isTargetLen
        entitiesLen := ip.entitiesLen.trans tp.entitiesLen
        moved := by
          intro b1 hb1 k hk
          rcases List.mem_cons.mp hb1 with rfl | hb1
          · obtain ⟨_, m2, m3, m4⟩ := tp.moved k hk
            obtain ⟨hs, hst⟩ := ip.frame _ (hsep k hk)
            exact ⟨by rw [hs.2]; exact m2, fun c hc => by rw [hs.1 c]; exact m3 c hc,
              fun c => by rw [hst c]; exact m4 c⟩
          · have hk' : k < ((moveStepX rels W b).tbl b1.oldT).len := by
              rw [hsrc' b1 hb1]; exact hk
            obtain ⟨m2, m3, m4⟩ := ip.moved b1 hb1 k hk'
            rw [hsrc' b1 hb1] at m2 m3 m4
            have hmeta := hdstM b1 hb1
            rw [hmeta.ids] at m2 m3
            have hnot : ∀ (k' : Nat), k' < (W.tbl b.oldT).len →
                ((W.tbl b.oldT).getEntity k').id ≠ ((W.tbl b1.oldT).getEntity k).id := by
              intro k' hk' heq
              have := hI.row_inj (get_of_lt hbo)
                (get_of_lt (ok.src b1 (List.mem_cons_of_mem _ hb1))) hk' hk heq
              exact (hother b1 hb1).1 this.1.symm
            have hfr := (tp.frame _ hnot).1
            exact ⟨m2, fun c hc => by rw [m3 c hc, hfr.1 c],
              fun c => by rw [m4 c]; exact (Table.targetAt_sameMeta hmeta c)⟩
        frame := by
          intro j hj
          obtain ⟨h1, h2⟩ := hsep' j hj
          obtain ⟨s1, _, g1⟩ := tp.frame j h1
          obtain ⟨s2, g2⟩ := ip.frame j h2
          exact ⟨s1.trans s2, fun c => (g2 c).trans (g1 c)⟩ }

end Ark
