/-
  Ark.Proofs.Table — the table shape invariant (column lengths, zero tail, zero-size columns)
  and the value-level facts about `table.go` / `column.go` operations that the properties
  C11 ("component memory is clean") and C01 build on.  Kernel-only proofs, core Lean only.

  Recorded hypothesis: wherever a table grows (`extend`, `alloc`, `add`, `addAll`) or shrinks
  (`shrink`) the row count involved is `< 2^32` (Go's `uint32` row indices); the model's
  `capPow2` doubles at most 33 times, so `capPow2 n ≥ n` holds exactly for `n ≤ 2^33`.
-/
import Ark.Model.Table

namespace Ark

/-! ## `capPow2` -/

theorem capPow2_go_ge (req : Nat) : ∀ (fuel p : Nat), req ≤ p * 2 ^ fuel →
    req ≤ capPow2.go req p fuel
  | 0, p, h => by simpa [capPow2.go] using h
  | fuel + 1, p, h => by
    simp only [capPow2.go]
    split
    · assumption
    · apply capPow2_go_ge req fuel (2 * p)
      rw [Nat.pow_succ] at h
      calc req ≤ p * (2 ^ fuel * 2) := h
        _ = 2 * p * 2 ^ fuel := by
          rw [Nat.mul_comm (2 ^ fuel) 2, ← Nat.mul_assoc, Nat.mul_comm p 2]

theorem capPow2_go_lt (req : Nat) : ∀ (fuel p : Nat), p < 2 * req →
    capPow2.go req p fuel < 2 * req
  | 0, p, h => by simpa [capPow2.go] using h
  | fuel + 1, p, h => by
    simp only [capPow2.go]
    split
    · assumption
    · apply capPow2_go_lt req fuel (2 * p); omega

theorem capPow2_go_pos (req : Nat) : ∀ (fuel p : Nat), 0 < p → 0 < capPow2.go req p fuel
  | 0, p, h => by simpa [capPow2.go] using h
  | fuel + 1, p, h => by
    simp only [capPow2.go]
    split
    · assumption
    · apply capPow2_go_pos req fuel (2 * p); omega

theorem capPow2_zero : capPow2 0 = 1 := by simp [capPow2]

/-- `capPow2 n ≥ n` on the whole range the doubling loop covers. -/
theorem capPow2_ge (n : Nat) (h : n ≤ 2 ^ 33) : n ≤ capPow2 n := by
  unfold capPow2
  split
  · omega
  · exact capPow2_go_ge n 33 1 (by omega)

/-- the bound is sharp: one past `2^33` the doubling loop runs out of fuel -/
theorem capPow2_bound_sharp : capPow2 (2 ^ 33 + 1) = 2 ^ 33 := by decide

/-- the `uint32` form used by the table lemmas -/
theorem capPow2_ge' (n : Nat) (h : n < 2 ^ 32) : n ≤ capPow2 n :=
  capPow2_ge n (by omega)

theorem capPow2_pos (n : Nat) : 0 < capPow2 n := by
  unfold capPow2
  split
  · omega
  · exact capPow2_go_pos n 33 1 (by omega)

/-- `capPow2` never over-allocates by a factor of two or more. -/
theorem capPow2_lt_two_mul (n : Nat) (h : 1 ≤ n) : capPow2 n < 2 * n := by
  unfold capPow2
  split
  · omega
  · exact capPow2_go_lt n 33 1 (by omega)

/-! ## list helpers -/

theorem getD_take_append_replicate {α : Type} (l : List α) (n k r : Nat) (d : α) :
    (l.take n ++ List.replicate k d).getD r d = if r < n then l.getD r d else d := by
  simp only [List.getD_eq_getElem?_getD]
  by_cases h1 : r < (l.take n).length
  · rw [List.getElem?_append_left h1]
    have : r < n := by rw [List.length_take] at h1; omega
    simp [this]
  · rw [List.getElem?_append_right (by omega), List.getElem?_replicate]
    have hd : (if r - (l.take n).length < k then some d else none).getD d = d := by
      split <;> rfl
    rw [hd]
    split
    · rw [List.length_take] at h1
      have : l.length ≤ r := by omega
      simp [List.getElem?_eq_none this]
    · rfl

theorem getD_replicate_append_drop {α : Type} (l : List α) (n r : Nat) (d : α) :
    (List.replicate n d ++ l.drop n).getD r d = if r < n then d else l.getD r d := by
  simp only [List.getD_eq_getElem?_getD]
  by_cases h1 : r < n
  · rw [List.getElem?_append_left (by simpa using h1)]
    simp [h1]
  · rw [List.getElem?_append_right (by simpa using Nat.le_of_not_lt h1)]
    have : n + (r - n) = r := by omega
    simp [List.getElem?_drop, h1, this]

theorem getD_splice {α : Type} (a b : List α) (s k r : Nat) (d : α)
    (ha : s + k ≤ a.length) (hb : k ≤ b.length) :
    (a.take s ++ b.take k ++ a.drop (s + k)).getD r d =
      if r < s then a.getD r d else if r < s + k then b.getD (r - s) d else a.getD r d := by
  have l1 : (a.take s).length = s := by rw [List.length_take]; omega
  have l2 : (b.take k).length = k := by rw [List.length_take]; omega
  simp only [List.getD_eq_getElem?_getD]
  by_cases h1 : r < s
  · rw [List.append_assoc, List.getElem?_append_left (by omega)]
    simp [h1]
  · by_cases h2 : r < s + k
    · rw [List.getElem?_append_left (by rw [List.length_append]; omega),
        List.getElem?_append_right (by omega), l1]
      have : r - s < k := by omega
      simp [h1, h2, this]
    · rw [List.getElem?_append_right (by rw [List.length_append]; omega),
        List.length_append, l1, l2]
      have : s + k + (r - (s + k)) = r := by omega
      simp [List.getElem?_drop, h1, h2, this]

theorem length_splice {α : Type} (a b : List α) (s k : Nat)
    (ha : s + k ≤ a.length) (hb : k ≤ b.length) :
    (a.take s ++ b.take k ++ a.drop (s + k)).length = a.length := by
  simp only [List.length_append, List.length_take, List.length_drop]
  omega

/-- swap-remove on one column: copy `last` over `idx` (unless equal), then zero `last`. -/
theorem getD_swapRemove (c : List Val) (idx last r : Nat) (hi : idx ≤ last)
    (hl : last < c.length) :
    ((if (idx != last) = true then c.set idx (c.getD last 0) else c).set last 0).getD r 0 =
      if r = last then 0 else if r = idx then c.getD last 0 else c.getD r 0 := by
  simp only [List.getD_eq_getElem?_getD]
  by_cases h1 : r = last
  · subst h1
    simp only [List.getElem?_set, ↓reduceIte]
    have : ∀ (p : Prop) [Decidable p], (if p then some (0 : Val) else none).getD 0 = 0 := by
      intro p _; split <;> rfl
    exact this _
  · rw [List.getElem?_set_ne (by omega)]
    by_cases h2 : idx = last
    · subst h2; simp [h1]
    · have : (idx != last) = true := by simpa using h2
      simp only [this, if_true, h1, if_false]
      by_cases h3 : r = idx
      · subst h3
        have : r < c.length := by omega
        simp [this]
      · rw [List.getElem?_set_ne (by omega)]; simp [h3]

namespace Table

/-! ## the shape invariant -/

/-- Shape invariant of a table: the columns are `cap` long, rows `≥ len` of every component
    column hold the zero value ("zero tail"), zero-size columns hold nothing but zeros. -/
structure Shape (t : Table) : Prop where
  len_le : t.len ≤ t.cap
  ents_len : t.ents.length = t.cap
  cols_len : t.cols.length = t.ids.length
  zst_len : t.zst.length = t.ids.length
  col_len : ∀ col ∈ t.cols, col.length = t.cap
  zero_tail : ∀ col ∈ t.cols, ∀ r : Nat, t.len ≤ r → col.getD r 0 = 0
  zst_zero : ∀ i : Nat, t.zst.getD i false = true → ∀ r : Nat, t.cell i r = 0

theorem cell_some {t : Table} {i : Nat} {c : List Val} (h : t.cols[i]? = some c) (r : Nat) :
    t.cell i r = c.getD r 0 := by
  simp [cell, List.getD_eq_getElem?_getD, h]

theorem cell_none {t : Table} {i : Nat} (h : t.cols[i]? = none) (r : Nat) :
    t.cell i r = 0 := by
  simp [cell, List.getD_eq_getElem?_getD, h]

/-- cells of a table whose columns are a per-column image of another table's columns -/
theorem cell_map_some {t t' : Table} {f : List Val → List Val} (hc : t'.cols = t.cols.map f)
    {i : Nat} {c : List Val} (h : t.cols[i]? = some c) (r : Nat) :
    t'.cell i r = (f c).getD r 0 := by
  apply cell_some; rw [hc, List.getElem?_map, h]; rfl

theorem cell_map_none {t t' : Table} {f : List Val → List Val} (hc : t'.cols = t.cols.map f)
    {i : Nat} (h : t.cols[i]? = none) (r : Nat) :
    t'.cell i r = 0 := by
  apply cell_none; rw [hc, List.getElem?_map, h]; rfl

/-- rows at or beyond `len` read zero in every column (also for out-of-range columns) -/
theorem Shape.cell_tail {t : Table} (h : t.Shape) (i r : Nat) (hr : t.len ≤ r) :
    t.cell i r = 0 := by
  cases hc : t.cols[i]? with
  | none => exact cell_none hc r
  | some c => rw [cell_some hc]; exact h.zero_tail c (List.mem_of_getElem? hc) r hr

theorem Shape.col_lt {t : Table} (h : t.Shape) {i : Nat} (hi : i < t.ids.length) :
    ∃ c, t.cols[i]? = some c ∧ c ∈ t.cols ∧ c.length = t.cap := by
  have : i < t.cols.length := by rw [h.cols_len]; exact hi
  exact ⟨t.cols[i], List.getElem?_eq_getElem this, List.getElem_mem this,
    h.col_len _ (List.getElem_mem this)⟩

/-! ## `new`, `recycle` -/

theorem new_shape (id arch : Nat) (ids : List Comp) (isRel zst : List Bool) (cap : Nat)
    (targets : List Ent) (relIDs : List RelID) (hz : zst.length = ids.length) :
    (Table.new id arch ids isRel zst cap targets relIDs).Shape where
  len_le := Nat.zero_le _
  ents_len := by simp [Table.new]
  cols_len := by simp [Table.new]
  zst_len := hz
  col_len := by
    intro col hcol
    simp only [Table.new, List.mem_map] at hcol
    obtain ⟨_, _, rfl⟩ := hcol
    simp [Table.new]
  zero_tail := by
    intro col hcol r _
    simp only [Table.new, List.mem_map] at hcol
    obtain ⟨_, _, rfl⟩ := hcol
    simp only [List.getD_eq_getElem?_getD, List.getElem?_replicate]
    split <;> rfl
  zst_zero := by
    intro i _ r
    simp only [cell, Table.new, List.getD_eq_getElem?_getD, List.getElem?_map]
    cases ids[i]? with
    | none => rfl
    | some _ =>
      simp only [Option.map_some, Option.getD_some, List.getElem?_replicate]
      split <;> rfl

/-- every cell of a fresh table is zero -/
theorem new_cell (id arch : Nat) (ids : List Comp) (isRel zst : List Bool) (cap : Nat)
    (targets : List Ent) (relIDs : List RelID) (i r : Nat) :
    (Table.new id arch ids isRel zst cap targets relIDs).cell i r = 0 := by
  simp only [cell, Table.new, List.getD_eq_getElem?_getD, List.getElem?_map]
  cases ids[i]? with
  | none => rfl
  | some _ =>
    simp only [Option.map_some, Option.getD_some, List.getElem?_replicate]
    split <;> rfl

theorem recycle_shape {t : Table} (h : t.Shape) (targets : List Ent) (relIDs : List RelID) :
    (t.recycle targets relIDs).Shape :=
  { len_le := h.len_le, ents_len := h.ents_len, cols_len := h.cols_len, zst_len := h.zst_len,
    col_len := h.col_len, zero_tail := h.zero_tail, zst_zero := h.zst_zero }

theorem recycle_cell (t : Table) (targets : List Ent) (relIDs : List RelID) (i r : Nat) :
    (t.recycle targets relIDs).cell i r = t.cell i r := rfl

theorem recycle_getEntity (t : Table) (targets : List Ent) (relIDs : List RelID) (r : Nat) :
    (t.recycle targets relIDs).getEntity r = t.getEntity r := rfl

/-! ## `adjustCapacity` -/

theorem adjustCapacity_cell (t : Table) (c i r : Nat) :
    (t.adjustCapacity c).cell i r = if r < t.len then t.cell i r else 0 := by
  have hc : (t.adjustCapacity c).cols =
      t.cols.map fun col => col.take t.len ++ List.replicate (c - t.len) 0 := rfl
  cases hi : t.cols[i]? with
  | none => rw [cell_map_none hc hi, cell_none hi]; split <;> rfl
  | some col => rw [cell_map_some hc hi, cell_some hi, getD_take_append_replicate]

theorem adjustCapacity_getEntity (t : Table) (c r : Nat) :
    (t.adjustCapacity c).getEntity r = if r < t.len then t.getEntity r else Ent.zero := by
  simp only [getEntity, adjustCapacity, getD_take_append_replicate]

theorem adjustCapacity_shape {t : Table} (h : t.Shape) {c : Nat} (hc : t.len ≤ c) :
    (t.adjustCapacity c).Shape where
  len_le := hc
  ents_len := by
    have := h.ents_len; have := h.len_le
    simp only [adjustCapacity, List.length_append, List.length_take, List.length_replicate]
    omega
  cols_len := by simp only [adjustCapacity, List.length_map]; exact h.cols_len
  zst_len := h.zst_len
  col_len := by
    intro col hcol
    simp only [adjustCapacity, List.mem_map] at hcol
    obtain ⟨c0, hc0, rfl⟩ := hcol
    have := h.col_len c0 hc0; have := h.len_le
    simp only [adjustCapacity, List.length_append, List.length_take, List.length_replicate]
    omega
  zero_tail := by
    intro col hcol r hr
    simp only [adjustCapacity, List.mem_map] at hcol
    obtain ⟨c0, _, rfl⟩ := hcol
    have hr' : ¬ r < t.len := Nat.not_lt.mpr hr
    rw [getD_take_append_replicate, if_neg hr']
  zst_zero := by
    intro i hz r
    rw [adjustCapacity_cell, h.zst_zero i hz r]
    split <;> rfl

/-! ## `extend`, `alloc`, `add` -/

theorem extend_len (t : Table) (n : Nat) : (t.extend n).len = t.len := by
  simp only [extend]; split <;> rfl

theorem extend_ids (t : Table) (n : Nat) : (t.extend n).ids = t.ids := by
  simp only [extend]; split <;> rfl

theorem extend_zst (t : Table) (n : Nat) : (t.extend n).zst = t.zst := by
  simp only [extend]; split <;> rfl

theorem extend_cap_ge (t : Table) (n : Nat) (hb : t.len + n < 2 ^ 32) :
    t.len + n ≤ (t.extend n).cap := by
  simp only [extend]
  split
  · assumption
  · exact capPow2_ge' _ hb

theorem extend_shape {t : Table} (h : t.Shape) (n : Nat) (hb : t.len + n < 2 ^ 32) :
    (t.extend n).Shape := by
  simp only [extend]
  split
  · exact h
  · exact adjustCapacity_shape h (Nat.le_trans (Nat.le_add_right _ _) (capPow2_ge' _ hb))

/-- under the shape invariant growing does not change any cell (old rows are copied, all other
    rows were and are zero) -/
theorem extend_cell {t : Table} (h : t.Shape) (n i r : Nat) :
    (t.extend n).cell i r = t.cell i r := by
  simp only [extend]
  split
  · rfl
  · rw [adjustCapacity_cell]
    split
    · rfl
    · exact (h.cell_tail i r (by omega)).symm

/-- rows in use keep their cells across growth, with no assumption on the table -/
theorem extend_cell_lt (t : Table) (n i r : Nat) (hr : r < t.len) :
    (t.extend n).cell i r = t.cell i r := by
  simp only [extend]
  split
  · rfl
  · rw [adjustCapacity_cell, if_pos hr]

theorem extend_getEntity_lt (t : Table) (n r : Nat) (hr : r < t.len) :
    (t.extend n).getEntity r = t.getEntity r := by
  simp only [extend]
  split
  · rfl
  · rw [adjustCapacity_getEntity, if_pos hr]

theorem alloc_len (t : Table) (n : Nat) : (t.alloc n).len = t.len + n := by
  simp only [alloc, extend_len]

theorem alloc_cell_eq (t : Table) (n i r : Nat) :
    (t.alloc n).cell i r = (t.extend n).cell i r := rfl

theorem alloc_getEntity_eq (t : Table) (n r : Nat) :
    (t.alloc n).getEntity r = (t.extend n).getEntity r := rfl

theorem alloc_shape {t : Table} (h : t.Shape) (n : Nat) (hb : t.len + n < 2 ^ 32) :
    (t.alloc n).Shape := by
  have he := extend_shape h n hb
  have hl := extend_len t n
  exact
    { len_le := by
        show (t.extend n).len + n ≤ (t.extend n).cap
        rw [hl]; exact extend_cap_ge t n hb
      ents_len := he.ents_len
      cols_len := he.cols_len
      zst_len := he.zst_len
      col_len := he.col_len
      zero_tail := by
        intro col hcol r hr
        have hr' : (t.extend n).len + n ≤ r := hr
        exact he.zero_tail col hcol r (by omega)
      zst_zero := he.zst_zero }

/-- **fresh rows are zero**: after `alloc n` the rows `[len, len+n)` read zero in every column
    (in fact every row `≥ len` does). -/
theorem alloc_new_rows_zero {t : Table} (h : t.Shape) (n i r : Nat) (hr : t.len ≤ r) :
    (t.alloc n).cell i r = 0 := by
  rw [alloc_cell_eq, extend_cell h, h.cell_tail i r hr]

theorem alloc_new_rows_zero' {t : Table} (h : t.Shape) (n i r : Nat) (hr : t.len ≤ r)
    (_ : r < t.len + n) : (t.alloc n).cell i r = 0 :=
  alloc_new_rows_zero h n i r hr

theorem add_fst_len (t : Table) (e : Ent) : (t.add e).1.len = t.len + 1 := alloc_len t 1

theorem add_snd (t : Table) (e : Ent) : (t.add e).2 = t.len := rfl

theorem add_cell_eq (t : Table) (e : Ent) (i r : Nat) :
    (t.add e).1.cell i r = (t.alloc 1).cell i r := rfl

theorem add_shape {t : Table} (h : t.Shape) (e : Ent) (hb : t.len + 1 < 2 ^ 32) :
    (t.add e).1.Shape := by
  have ha := alloc_shape h 1 hb
  exact
    { len_le := ha.len_le
      ents_len := by
        show ((t.alloc 1).ents.set t.len e).length = (t.alloc 1).cap
        rw [List.length_set]; exact ha.ents_len
      cols_len := ha.cols_len
      zst_len := ha.zst_len
      col_len := ha.col_len
      zero_tail := ha.zero_tail
      zst_zero := ha.zst_zero }

/-- **uninitialised add reads zero**: the row returned by `add` holds the zero value in every
    column, whatever occupied that storage before. -/
theorem add_new_row_zero {t : Table} (h : t.Shape) (e : Ent) (i : Nat) :
    (t.add e).1.cell i (t.add e).2 = 0 :=
  alloc_new_rows_zero h 1 i t.len (Nat.le_refl _)

/-- the new row holds the entity that was added -/
theorem add_getEntity_new {t : Table} (h : t.Shape) (e : Ent) (hb : t.len + 1 < 2 ^ 32) :
    (t.add e).1.getEntity (t.add e).2 = e := by
  have ha := alloc_shape h 1 hb
  have hlt : t.len < (t.alloc 1).ents.length := by
    have h1 := ha.len_le
    rw [alloc_len] at h1
    rw [ha.ents_len]; omega
  show ((t.alloc 1).ents.set t.len e).getD t.len Ent.zero = e
  simp [List.getD_eq_getElem?_getD, hlt]

/-- **rows in use are unchanged** by `adjustCapacity`/`extend`/`alloc`/`add`. -/
theorem add_preserves_rows (t : Table) (i r : Nat) (hr : r < t.len) :
    (∀ c, (t.adjustCapacity c).cell i r = t.cell i r ∧
          (t.adjustCapacity c).getEntity r = t.getEntity r) ∧
    (∀ n, (t.extend n).cell i r = t.cell i r ∧ (t.extend n).getEntity r = t.getEntity r) ∧
    (∀ n, (t.alloc n).cell i r = t.cell i r ∧ (t.alloc n).getEntity r = t.getEntity r) ∧
    (∀ e, (t.add e).1.cell i r = t.cell i r ∧ (t.add e).1.getEntity r = t.getEntity r) := by
  refine ⟨fun c => ⟨?_, ?_⟩, fun n => ⟨extend_cell_lt t n i r hr, extend_getEntity_lt t n r hr⟩,
    fun n => ⟨extend_cell_lt t n i r hr, extend_getEntity_lt t n r hr⟩, fun e => ⟨?_, ?_⟩⟩
  · rw [adjustCapacity_cell, if_pos hr]
  · rw [adjustCapacity_getEntity, if_pos hr]
  · exact extend_cell_lt t 1 i r hr
  · show ((t.alloc 1).ents.set t.len e).getD r Ent.zero = t.getEntity r
    rw [List.getD_eq_getElem?_getD, List.getElem?_set_ne (by omega),
      ← List.getD_eq_getElem?_getD]
    exact extend_getEntity_lt t 1 r hr

theorem add_cell_lt (t : Table) (e : Ent) (i r : Nat) (hr : r < t.len) :
    (t.add e).1.cell i r = t.cell i r := ((add_preserves_rows t i r hr).2.2.2 e).1

theorem add_getEntity_lt (t : Table) (e : Ent) (r : Nat) (hr : r < t.len) :
    (t.add e).1.getEntity r = t.getEntity r := ((add_preserves_rows t 0 r hr).2.2.2 e).2

/-! ## `remove` -/

theorem remove_cols (t : Table) (idx : Nat) :
    (t.remove idx).1.cols = t.cols.map fun col =>
      (if (idx != t.len - 1) = true then col.set idx (col.getD (t.len - 1) 0) else col).set
        (t.len - 1) 0 := rfl

theorem remove_len (t : Table) (idx : Nat) : (t.remove idx).1.len = t.len - 1 := rfl

theorem remove_snd (t : Table) (idx : Nat) : (t.remove idx).2 = (idx != t.len - 1) := rfl

/-- every cell after a swap-remove (all rows, all columns) -/
theorem remove_cell {t : Table} (h : t.Shape) (idx : Nat) (hi : idx < t.len) (i r : Nat) :
    (t.remove idx).1.cell i r =
      if r = t.len - 1 then 0 else if r = idx then t.cell i (t.len - 1) else t.cell i r := by
  cases hc : t.cols[i]? with
  | none =>
    rw [cell_map_none (remove_cols t idx) hc, cell_none hc, cell_none hc]
    split
    · rfl
    · split <;> rfl
  | some col =>
    have hl : t.len - 1 < col.length := by
      have := h.col_len col (List.mem_of_getElem? hc); have := h.len_le; omega
    rw [cell_map_some (remove_cols t idx) hc, cell_some hc, cell_some hc,
      getD_swapRemove col idx (t.len - 1) r (by omega) hl]

theorem remove_getEntity {t : Table} (h : t.Shape) (idx : Nat) (hi : idx < t.len) (r : Nat)
    (hr : r < t.len - 1) :
    (t.remove idx).1.getEntity r =
      if r = idx then t.getEntity (t.len - 1) else t.getEntity r := by
  show (if (idx != t.len - 1) = true then t.ents.set idx (t.ents.getD (t.len - 1) Ent.zero)
      else t.ents).getD r Ent.zero = _
  by_cases h2 : idx = t.len - 1
  · have : ¬ r = idx := by omega
    simp [h2, getEntity]
    intro h3; omega
  · have hs : (idx != t.len - 1) = true := by simpa using h2
    rw [if_pos hs]
    by_cases h3 : r = idx
    · subst h3
      have : r < t.ents.length := by have := h.ents_len; have := h.len_le; omega
      simp [getEntity, List.getD_eq_getElem?_getD, this]
    · rw [if_neg h3, List.getD_eq_getElem?_getD, List.getElem?_set_ne (by omega),
        ← List.getD_eq_getElem?_getD]; rfl

theorem remove_shape {t : Table} (h : t.Shape) (idx : Nat) (hi : idx < t.len) :
    (t.remove idx).1.Shape where
  len_le := by have := h.len_le; show t.len - 1 ≤ t.cap; omega
  ents_len := by
    show (if (idx != t.len - 1) = true then t.ents.set idx (t.ents.getD (t.len - 1) Ent.zero)
      else t.ents).length = t.cap
    split
    · rw [List.length_set]; exact h.ents_len
    · exact h.ents_len
  cols_len := by rw [remove_cols, List.length_map]; exact h.cols_len
  zst_len := h.zst_len
  col_len := by
    intro col hcol
    rw [remove_cols, List.mem_map] at hcol
    obtain ⟨c0, hc0, rfl⟩ := hcol
    rw [List.length_set]
    split
    · rw [List.length_set]; exact h.col_len c0 hc0
    · exact h.col_len c0 hc0
  zero_tail := by
    intro col hcol r hr
    rw [remove_cols, List.mem_map] at hcol
    obtain ⟨c0, hc0, rfl⟩ := hcol
    have hr' : t.len - 1 ≤ r := hr
    have hl : t.len - 1 < c0.length := by
      have := h.col_len c0 hc0; have := h.len_le; omega
    rw [getD_swapRemove c0 idx (t.len - 1) r (by omega) hl]
    split
    · rfl
    · rw [if_neg (by omega)]; exact h.zero_tail c0 hc0 r (by omega)
  zst_zero := by
    intro i hz r
    have hz' : t.zst.getD i false = true := hz
    rw [remove_cell h idx hi, h.zst_zero i hz', h.zst_zero i hz']
    split
    · rfl
    · split <;> rfl

/-- **swap-remove specification**: the last row moves into the vacated slot, every other
    remaining row keeps its cells and its entity; the flag reports whether a row moved. -/
theorem remove_spec {t : Table} (h : t.Shape) (idx : Nat) (hi : idx < t.len) :
    (t.remove idx).1.len = t.len - 1 ∧
    (t.remove idx).2 = (idx != t.len - 1) ∧
    (∀ i r : Nat, r < t.len - 1 →
      (t.remove idx).1.cell i r = if r = idx then t.cell i (t.len - 1) else t.cell i r) ∧
    (∀ r : Nat, r < t.len - 1 →
      (t.remove idx).1.getEntity r =
        if r = idx then t.getEntity (t.len - 1) else t.getEntity r) := by
  refine ⟨rfl, rfl, ?_, fun r hr => remove_getEntity h idx hi r hr⟩
  intro i r hr
  rw [remove_cell h idx hi, if_neg (by omega)]

/-- the vacated last row is zeroed in every column -/
theorem remove_last_zero {t : Table} (h : t.Shape) (idx : Nat) (hi : idx < t.len) (i : Nat) :
    (t.remove idx).1.cell i (t.len - 1) = 0 := by
  rw [remove_cell h idx hi, if_pos rfl]

/-! ## `setCell` -/

theorem setCell_len (t : Table) (col row : Nat) (v : Val) : (t.setCell col row v).len = t.len := by
  simp only [setCell]; split <;> rfl

theorem setCell_getEntity (t : Table) (col row : Nat) (v : Val) (r : Nat) :
    (t.setCell col row v).getEntity r = t.getEntity r := by
  simp only [setCell]; split <;> rfl

theorem setCell_nz (t : Table) (col row : Nat) (v : Val) (hz : t.zst.getD col false = false) :
    t.setCell col row v = { t with cols := t.cols.modify col fun cl => cl.set row v } := by
  simp only [setCell, hz, Bool.false_eq_true, if_false]

/-- every cell other than the written one is unchanged -/
theorem setCell_cell_ne (t : Table) (col row : Nat) (v : Val) (i r : Nat)
    (hne : i ≠ col ∨ r ≠ row) : (t.setCell col row v).cell i r = t.cell i r := by
  cases hz : t.zst.getD col false with
  | true => simp only [setCell, hz, if_true]
  | false =>
    rw [setCell_nz t col row v hz]
    simp only [cell, List.getD_eq_getElem?_getD, List.getElem?_modify]
    cases t.cols[i]? with
    | none => rfl
    | some c =>
      simp only [Option.map_eq_map, Option.map_some, Option.getD_some]
      split
      · rename_i heq
        have hr : r ≠ row := by
          cases hne with
          | inl h => exact absurd heq.symm h
          | inr h => exact h
        rw [List.getElem?_set_ne (by omega)]
      · rfl

/-- a write to a zero-size column changes nothing -/
theorem setCell_zst (t : Table) (col row : Nat) (v : Val) (hz : t.zst.getD col false = true) :
    t.setCell col row v = t := by
  simp only [setCell, hz, if_true]

/-- **read-after-write**: a non-zero-size column returns what was written. -/
theorem setCell_cell_self {t : Table} (h : t.Shape) (col row : Nat) (v : Val)
    (hcol : col < t.ids.length) (hz : t.zst.getD col false = false) (hrow : row < t.cap) :
    (t.setCell col row v).cell col row = v := by
  obtain ⟨c, hc, _, hlen⟩ := h.col_lt hcol
  have : row < c.length := by omega
  rw [setCell_nz t col row v hz]
  simp [cell, List.getD_eq_getElem?_getD, hc, this]

theorem setCell_get {t : Table} (h : t.Shape) (col row : Nat) (v : Val)
    (hcol : col < t.ids.length) (hz : t.zst.getD col false = false) (hrow : row < t.cap) :
    (t.setCell col row v).cell col row = v ∧
    ∀ i r : Nat, (i ≠ col ∨ r ≠ row) → (t.setCell col row v).cell i r = t.cell i r :=
  ⟨setCell_cell_self h col row v hcol hz hrow, fun i r hne => setCell_cell_ne t col row v i r hne⟩

theorem setCell_shape {t : Table} (h : t.Shape) (col row : Nat) (v : Val) (hrow : row < t.len) :
    (t.setCell col row v).Shape := by
  cases hz : t.zst.getD col false with
  | true => rw [setCell_zst t col row v hz]; exact h
  | false =>
    have hcols : (t.setCell col row v).cols = t.cols.modify col fun cl => cl.set row v := by
      rw [setCell_nz t col row v hz]
    have hmem : ∀ c ∈ (t.setCell col row v).cols, c ∈ t.cols ∨ ∃ c0 ∈ t.cols, c = c0.set row v := by
      intro c hcm
      rw [hcols] at hcm
      obtain ⟨j, hj, rfl⟩ := List.getElem_of_mem hcm
      rw [List.getElem_modify]
      rw [List.length_modify] at hj
      split
      · exact Or.inr ⟨_, List.getElem_mem hj, rfl⟩
      · exact Or.inl (List.getElem_mem hj)
    have hrest : (t.setCell col row v).len = t.len ∧ (t.setCell col row v).cap = t.cap ∧
        (t.setCell col row v).ents = t.ents ∧ (t.setCell col row v).ids = t.ids ∧
        (t.setCell col row v).zst = t.zst := by
      rw [setCell_nz t col row v hz]; exact ⟨rfl, rfl, rfl, rfl, rfl⟩
    obtain ⟨e1, e2, e3, e4, e5⟩ := hrest
    exact
      { len_le := by rw [e1, e2]; exact h.len_le
        ents_len := by rw [e3, e2]; exact h.ents_len
        cols_len := by rw [hcols, List.length_modify, e4]; exact h.cols_len
        zst_len := by rw [e5, e4]; exact h.zst_len
        col_len := by
          intro c hcm
          rw [e2]
          rcases hmem c hcm with hc | ⟨c0, hc0, rfl⟩
          · exact h.col_len c hc
          · rw [List.length_set]; exact h.col_len c0 hc0
        zero_tail := by
          intro c hcm r hr
          rw [e1] at hr
          rcases hmem c hcm with hc | ⟨c0, hc0, rfl⟩
          · exact h.zero_tail c hc r hr
          · rw [List.getD_eq_getElem?_getD, List.getElem?_set_ne (by omega),
              ← List.getD_eq_getElem?_getD]
            exact h.zero_tail c0 hc0 r hr
        zst_zero := by
          intro i hzi r
          rw [e5] at hzi
          have hne : i ≠ col := by
            intro heq; rw [heq, hz] at hzi; exact Bool.noConfusion hzi
          rw [setCell_cell_ne t col row v i r (Or.inl hne)]
          exact h.zst_zero i hzi r }

/-! ## `reset` -/

theorem reset_cols (t : Table) :
    t.reset.cols = t.cols.map fun col => List.replicate t.len 0 ++ col.drop t.len := rfl

theorem reset_len (t : Table) : t.reset.len = 0 := rfl

theorem reset_cell_eq (t : Table) (i r : Nat) :
    t.reset.cell i r = if r < t.len then 0 else t.cell i r := by
  cases hc : t.cols[i]? with
  | none => rw [cell_map_none (reset_cols t) hc, cell_none hc]; split <;> rfl
  | some col => rw [cell_map_some (reset_cols t) hc, cell_some hc, getD_replicate_append_drop]

/-- **reset leaves clean memory**: every cell of every column is zero afterwards. -/
theorem reset_zero {t : Table} (h : t.Shape) : t.reset.len = 0 ∧ ∀ i r : Nat, t.reset.cell i r = 0 := by
  refine ⟨rfl, fun i r => ?_⟩
  rw [reset_cell_eq]
  split
  · rfl
  · exact h.cell_tail i r (by omega)

theorem reset_shape {t : Table} (h : t.Shape) : t.reset.Shape where
  len_le := Nat.zero_le _
  ents_len := h.ents_len
  cols_len := by rw [reset_cols, List.length_map]; exact h.cols_len
  zst_len := h.zst_len
  col_len := by
    intro col hcol
    rw [reset_cols, List.mem_map] at hcol
    obtain ⟨c0, hc0, rfl⟩ := hcol
    have := h.col_len c0 hc0; have := h.len_le
    show _ = t.cap
    simp only [List.length_append, List.length_replicate, List.length_drop]
    omega
  zero_tail := by
    intro col hcol r _
    rw [reset_cols, List.mem_map] at hcol
    obtain ⟨c0, hc0, rfl⟩ := hcol
    rw [getD_replicate_append_drop]
    split
    · rfl
    · exact h.zero_tail c0 hc0 r (by omega)
  zst_zero := fun i _ r => (reset_zero h).2 i r

/-! ## `shrink` -/

theorem shrink_cap (t : Table) (m : Nat) :
    (t.shrink m).1.cap =
      if t.cap ≤ max (capPow2 t.len) m then t.cap else max (capPow2 t.len) m := by
  simp only [shrink]; split <;> rfl

theorem shrink_snd (t : Table) (m : Nat) :
    (t.shrink m).2 = t.canShrink m := by
  simp only [shrink, canShrink]
  split
  · simp; omega
  · simp; omega

theorem shrink_len (t : Table) (m : Nat) : (t.shrink m).1.len = t.len := by
  simp only [shrink]; split <;> rfl

theorem shrink_shape {t : Table} (h : t.Shape) (m : Nat) (hb : t.len < 2 ^ 32) :
    (t.shrink m).1.Shape := by
  simp only [shrink]
  split
  · exact h
  · exact adjustCapacity_shape h (Nat.le_trans (capPow2_ge' _ hb) (Nat.le_max_left _ _))

/-- the capacity after `shrink` still holds all rows, never grows, and respects `minCap` when
    it shrinks -/
theorem shrink_len_le_cap {t : Table} (h : t.Shape) (m : Nat) (hb : t.len < 2 ^ 32) :
    (t.shrink m).1.len ≤ (t.shrink m).1.cap := (shrink_shape h m hb).len_le

theorem shrink_cap_le (t : Table) (m : Nat) : (t.shrink m).1.cap ≤ t.cap := by
  rw [shrink_cap]; split <;> omega

/-- **shrinking keeps every value**: rows in use keep cells and entities (no assumption);
    under the shape invariant no cell changes at all. -/
theorem shrink_preserves_rows (t : Table) (m i r : Nat) (hr : r < t.len) :
    (t.shrink m).1.cell i r = t.cell i r ∧ (t.shrink m).1.getEntity r = t.getEntity r := by
  simp only [shrink]
  split
  · exact ⟨rfl, rfl⟩
  · exact ⟨by rw [adjustCapacity_cell, if_pos hr], by rw [adjustCapacity_getEntity, if_pos hr]⟩

theorem shrink_cell {t : Table} (h : t.Shape) (m i r : Nat) :
    (t.shrink m).1.cell i r = t.cell i r := by
  simp only [shrink]
  split
  · rfl
  · rw [adjustCapacity_cell]
    split
    · rfl
    · exact (h.cell_tail i r (by omega)).symm

/-! ## `addAll` -/

theorem alloc_ids (t : Table) (n : Nat) : (t.alloc n).ids = t.ids := extend_ids t n

theorem alloc_zst (t : Table) (n : Nat) : (t.alloc n).zst = t.zst := extend_zst t n

/-- the per-column copy of `addAll` -/
def spliceCol (start count : Nat) (p : List Val × List Val) : List Val :=
  p.1.take start ++ p.2.take count ++ p.1.drop (start + count)

theorem addAll_cols (t src : Table) (count : Nat) :
    (t.addAll src count).cols =
      ((t.alloc count).cols.zip src.cols).map (spliceCol t.len count) := by
  have hs : (t.alloc count).len - count = t.len := by rw [alloc_len]; omega
  simp only [addAll, hs]
  rfl

theorem addAll_ents (t src : Table) (count : Nat) :
    (t.addAll src count).ents =
      (t.alloc count).ents.take t.len ++ src.ents.take count ++
        (t.alloc count).ents.drop (t.len + count) := by
  have hs : (t.alloc count).len - count = t.len := by rw [alloc_len]; omega
  simp only [addAll, hs]

theorem addAll_len (t src : Table) (count : Nat) : (t.addAll src count).len = t.len + count :=
  alloc_len t count

/-- every cell after `addAll`: old rows, then the first `count` rows of `src`, then zeros -/
theorem addAll_cell {t src : Table} (h : t.Shape) (hs : src.Shape) (hids : src.ids = t.ids)
    (count : Nat) (hc : count ≤ src.len) (hb : t.len + count < 2 ^ 32) (i r : Nat) :
    (t.addAll src count).cell i r =
      if r < t.len then t.cell i r
      else if r < t.len + count then src.cell i (r - t.len) else 0 := by
  have ha := alloc_shape h count hb
  by_cases hi : i < t.ids.length
  · obtain ⟨a, ha1, _, ha3⟩ := ha.col_lt (i := i) (by rw [alloc_ids]; exact hi)
    obtain ⟨b, hb1, _, hb3⟩ := hs.col_lt (i := i) (by rw [hids]; exact hi)
    have hz : ((t.alloc count).cols.zip src.cols)[i]? = some (a, b) :=
      List.getElem?_zip_eq_some.mpr ⟨ha1, hb1⟩
    have hcell : (t.addAll src count).cols[i]? = some (spliceCol t.len count (a, b)) := by
      rw [addAll_cols, List.getElem?_map, hz]; rfl
    have hcap : t.len + count ≤ a.length := by
      have := ha.len_le; rw [alloc_len] at this; omega
    have hsrc : count ≤ b.length := by have := hs.len_le; omega
    rw [cell_some hcell, spliceCol, getD_splice a b t.len count r 0 hcap hsrc,
      ← cell_some ha1, ← cell_some hb1, alloc_cell_eq, extend_cell h]
    split
    · rfl
    · split
      · rfl
      · exact h.cell_tail i r (by omega)
  · have h1 : t.cols[i]? = none := by
      rw [List.getElem?_eq_none_iff, h.cols_len]; omega
    have h2 : src.cols[i]? = none := by
      rw [List.getElem?_eq_none_iff, hs.cols_len, hids]; omega
    have h3 : (t.addAll src count).cols[i]? = none := by
      rw [addAll_cols, List.getElem?_eq_none_iff, List.length_map, List.length_zip, ha.cols_len,
        alloc_ids]
      omega
    rw [cell_none h3, cell_none h1, cell_none h2]
    split
    · rfl
    · split <;> rfl

theorem addAll_getEntity {t src : Table} (h : t.Shape) (hs : src.Shape)
    (count : Nat) (hc : count ≤ src.len) (hb : t.len + count < 2 ^ 32) (r : Nat)
    (hr : r < t.len + count) :
    (t.addAll src count).getEntity r =
      if r < t.len then t.getEntity r else src.getEntity (r - t.len) := by
  have ha := alloc_shape h count hb
  have hcap : t.len + count ≤ (t.alloc count).ents.length := by
    have := ha.len_le; rw [alloc_len] at this; rw [ha.ents_len]; exact this
  have hsrc : count ≤ src.ents.length := by have := hs.len_le; rw [hs.ents_len]; omega
  simp only [getEntity]
  rw [addAll_ents, getD_splice _ _ t.len count r Ent.zero hcap hsrc]
  split
  · rename_i hlt
    exact (alloc_getEntity_eq t count r).trans (extend_getEntity_lt t count r hlt)
  · first | rfl | rw [if_pos hr]

theorem addAll_shape {t src : Table} (h : t.Shape) (hs : src.Shape) (hids : src.ids = t.ids)
    (hzst : src.zst = t.zst) (count : Nat) (hc : count ≤ src.len)
    (hb : t.len + count < 2 ^ 32) : (t.addAll src count).Shape := by
  have ha := alloc_shape h count hb
  have hcapa : t.len + count ≤ (t.alloc count).cap := by
    have := ha.len_le; rw [alloc_len] at this; exact this
  have hsplice : ∀ col ∈ (t.addAll src count).cols, ∃ a b, a ∈ (t.alloc count).cols ∧
      b ∈ src.cols ∧ col = a.take t.len ++ b.take count ++ a.drop (t.len + count) := by
    intro col hcol
    rw [addAll_cols, List.mem_map] at hcol
    obtain ⟨⟨a, b⟩, hab, rfl⟩ := hcol
    exact ⟨a, b, (List.of_mem_zip hab).1, (List.of_mem_zip hab).2, rfl⟩
  exact
    { len_le := ha.len_le
      ents_len := by
        rw [addAll_ents, length_splice _ _ _ _ (by rw [ha.ents_len]; exact hcapa)
          (by have := hs.len_le; rw [hs.ents_len]; omega)]
        exact ha.ents_len
      cols_len := by
        have hid : (t.addAll src count).ids = t.ids := alloc_ids t count
        rw [hid, addAll_cols, List.length_map, List.length_zip, ha.cols_len, hs.cols_len, hids,
          alloc_ids, Nat.min_self]
      zst_len := ha.zst_len
      col_len := by
        intro col hcol
        obtain ⟨a, b, ha', hb', rfl⟩ := hsplice col hcol
        rw [length_splice _ _ _ _ (by rw [ha.col_len a ha']; exact hcapa)
          (by have := hs.len_le; rw [hs.col_len b hb']; omega)]
        exact ha.col_len a ha'
      zero_tail := by
        intro col hcol r hr
        have hr' : t.len + count ≤ r := by rw [← addAll_len t src count]; exact hr
        obtain ⟨a, b, ha', hb', rfl⟩ := hsplice col hcol
        rw [getD_splice a b t.len count r 0 (by rw [ha.col_len a ha']; exact hcapa)
          (by have := hs.len_le; rw [hs.col_len b hb']; omega),
          if_neg (by omega), if_neg (by omega)]
        exact ha.zero_tail a ha' r (by rw [alloc_len]; exact hr')
      zst_zero := by
        intro i hz r
        have hz' : t.zst.getD i false = true := by
          have : (t.addAll src count).zst = t.zst := alloc_zst t count
          rw [this] at hz; exact hz
        rw [addAll_cell h hs hids count hc hb, h.zst_zero i hz',
          hs.zst_zero i (by rw [hzst]; exact hz')]
        split
        · rfl
        · split <;> rfl }

/-! ## `addAllEntities`, `copyToEnd` (the two halves of a cross-table move) -/

theorem addAllEntities_len (t src : Table) (count : Nat) :
    (t.addAllEntities src count).len = t.len + count := alloc_len t count

theorem addAllEntities_cell (t src : Table) (count i r : Nat) :
    (t.addAllEntities src count).cell i r = (t.alloc count).cell i r := rfl

theorem addAllEntities_ents (t src : Table) (count : Nat) :
    (t.addAllEntities src count).ents = (t.addAll src count).ents := rfl

theorem addAllEntities_shape {t src : Table} (h : t.Shape) (hs : src.Shape) (count : Nat)
    (hc : count ≤ src.len) (hb : t.len + count < 2 ^ 32) :
    (t.addAllEntities src count).Shape := by
  have ha := alloc_shape h count hb
  have hcapa : t.len + count ≤ (t.alloc count).cap := by
    have := ha.len_le; rw [alloc_len] at this; exact this
  exact
    { len_le := ha.len_le
      ents_len := by
        rw [addAllEntities_ents, addAll_ents, length_splice _ _ _ _
          (by rw [ha.ents_len]; exact hcapa) (by have := hs.len_le; rw [hs.ents_len]; omega)]
        exact ha.ents_len
      cols_len := ha.cols_len
      zst_len := ha.zst_len
      col_len := ha.col_len
      zero_tail := ha.zero_tail
      zst_zero := ha.zst_zero }

/-- the rows appended by `addAllEntities` read zero until `copyToEnd` fills them -/
theorem addAllEntities_new_rows_zero {t : Table} (h : t.Shape) (src : Table) (count i r : Nat)
    (hr : t.len ≤ r) : (t.addAllEntities src count).cell i r = 0 :=
  alloc_new_rows_zero h count i r hr

theorem colIdx_lt {t : Table} {c : Comp} {i : Nat} (h : t.colIdx c = some i) :
    i < t.ids.length := by
  simp only [colIdx] at h
  split at h
  · rename_i hlt; cases h; exact hlt
  · cases h

theorem cell_modify_ne (t : Table) (k : Nat) (f : List Val → List Val) (i r : Nat) (hne : i ≠ k) :
    ({ t with cols := t.cols.modify k f } : Table).cell i r = t.cell i r := by
  simp only [cell, List.getD_eq_getElem?_getD, List.getElem?_modify]
  cases t.cols[i]? with
  | none => rfl
  | some c =>
    simp only [Option.map_eq_map, Option.map_some, Option.getD_some]
    rw [if_neg (fun h => hne h.symm)]

theorem cell_modify_self {t : Table} (k : Nat) (f : List Val → List Val) {c : List Val}
    (hc : t.cols[k]? = some c) (r : Nat) :
    ({ t with cols := t.cols.modify k f } : Table).cell k r = (f c).getD r 0 := by
  simp [cell, List.getD_eq_getElem?_getD, hc]

/-- rewriting one non-zero-size column by a length- and tail-preserving function keeps the
    shape -/
theorem modifyCol_shape {t : Table} (h : t.Shape) (k : Nat) (f : List Val → List Val)
    (hz : t.zst.getD k false = false)
    (hlen : ∀ c ∈ t.cols, (f c).length = c.length)
    (htail : ∀ c ∈ t.cols, ∀ r : Nat, t.len ≤ r → (f c).getD r 0 = c.getD r 0) :
    ({ t with cols := t.cols.modify k f } : Table).Shape := by
  have hmem : ∀ c ∈ t.cols.modify k f, c ∈ t.cols ∨ ∃ c0 ∈ t.cols, c = f c0 := by
    intro c hcm
    obtain ⟨j, hj, rfl⟩ := List.getElem_of_mem hcm
    rw [List.getElem_modify]
    rw [List.length_modify] at hj
    split
    · exact Or.inr ⟨_, List.getElem_mem hj, rfl⟩
    · exact Or.inl (List.getElem_mem hj)
  exact
    { len_le := h.len_le
      ents_len := h.ents_len
      cols_len := by show (t.cols.modify k f).length = _; rw [List.length_modify]; exact h.cols_len
      zst_len := h.zst_len
      col_len := by
        intro c hcm
        rcases hmem c hcm with hc | ⟨c0, hc0, rfl⟩
        · exact h.col_len c hc
        · rw [hlen c0 hc0]; exact h.col_len c0 hc0
      zero_tail := by
        intro c hcm r hr
        rcases hmem c hcm with hc | ⟨c0, hc0, rfl⟩
        · exact h.zero_tail c hc r hr
        · rw [htail c0 hc0 r hr]; exact h.zero_tail c0 hc0 r hr
      zst_zero := by
        intro i hzi r
        have hzi' : t.zst.getD i false = true := hzi
        have hne : i ≠ k := by
          intro heq; rw [heq, hz] at hzi'; exact Bool.noConfusion hzi'
        rw [cell_modify_ne t k f i r hne]
        exact h.zst_zero i hzi' r }

theorem copyToEnd_shape {t src : Table} (h : t.Shape) (hs : src.Shape) (c : Comp) (count : Nat)
    (hct : count ≤ t.len) (hcs : count ≤ src.len) : (t.copyToEnd c src count).Shape := by
  cases hi : t.colIdx c with
  | none => simp only [copyToEnd, hi]; exact h
  | some i =>
    cases hj : src.colIdx c with
    | none => simp only [copyToEnd, hi, hj]; exact h
    | some j =>
      simp only [copyToEnd, hi, hj]
      cases hz : t.zst.getD i false with
      | true => simp only [if_true]; exact h
      | false =>
        simp only [Bool.false_eq_true, if_false]
        obtain ⟨b, hb1, _, hb3⟩ := hs.col_lt (colIdx_lt hj)
        have hb : src.cols.getD j [] = b := by simp [List.getD_eq_getElem?_getD, hb1]
        rw [hb]
        have hbl : count ≤ b.length := by have := hs.len_le; omega
        apply modifyCol_shape h i _ hz
        · intro a ha
          exact length_splice a b _ _ (by have := h.col_len a ha; have := h.len_le; omega) hbl
        · intro a ha r hr
          rw [getD_splice a b _ _ r 0 (by have := h.col_len a ha; have := h.len_le; omega) hbl,
            if_neg (by omega), if_neg (by omega)]

/-- **values survive a cross-table move**: after `copyToEnd`, the last `count` rows of the
    component's column hold the first `count` rows of the source column, every other cell of
    the table is unchanged. -/
theorem copyToEnd_cell {t src : Table} (h : t.Shape) (hs : src.Shape) (c : Comp) (count : Nat)
    (hct : count ≤ t.len) (hcs : count ≤ src.len) {i j : Nat}
    (hi : t.colIdx c = some i) (hj : src.colIdx c = some j)
    (hz : t.zst.getD i false = false) (k r : Nat) :
    (t.copyToEnd c src count).cell k r =
      if k = i ∧ t.len - count ≤ r ∧ r < t.len then src.cell j (r - (t.len - count))
      else t.cell k r := by
  simp only [copyToEnd, hi, hj, hz, Bool.false_eq_true, if_false]
  obtain ⟨b, hb1, _, hb3⟩ := hs.col_lt (colIdx_lt hj)
  obtain ⟨a, ha1, ha2, ha3⟩ := h.col_lt (colIdx_lt hi)
  have hb : src.cols.getD j [] = b := by simp [List.getD_eq_getElem?_getD, hb1]
  rw [hb]
  have hbl : count ≤ b.length := by have := hs.len_le; omega
  by_cases hk : k = i
  · subst hk
    rw [cell_modify_self k _ ha1,
      getD_splice a b _ _ r 0 (by have := h.len_le; omega) hbl, cell_some hb1, cell_some ha1]
    by_cases h1 : r < t.len - count
    · rw [if_pos h1, if_neg (by omega)]
    · rw [if_neg h1]
      by_cases h2 : r < t.len - count + count
      · rw [if_pos h2, if_pos ⟨rfl, by omega, by omega⟩]
      · rw [if_neg h2, if_neg (by omega)]
  · rw [cell_modify_ne t i _ k r hk, if_neg (fun hh => hk hh.1)]

end Table

end Ark
