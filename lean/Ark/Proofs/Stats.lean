/-
  Ark.Proofs.Stats — lemmas behind property C19:

  * the incrementally updated statistics object equals the freshly computed one
    (`archStatsUpdate_eq_fresh`, `statsUpdate_eq_fresh`), for ANY old table-entry list;
  * `Compatible` (what the update relies on) is established by a fresh computation and kept by
    every monotone evolution of the world, hence `opStats` returns `statsFresh` at every call of
    every history (`Hist`);
  * the fresh figures are internally consistent (sums, memory = memoryPerEntity * capacity, …).

  Core Lean only.
-/
import Ark.Model.Stats

namespace Ark
namespace World

/-! ## Sums written as Go loops (`foldl (· + ·) 0`) -/

theorem foldl_add_eq (xs : List Nat) (a : Nat) : xs.foldl (· + ·) a = a + xs.sum := by
  induction xs generalizing a with
  | nil => simp
  | cons x xs ih => simp [List.foldl_cons, ih, Nat.add_assoc]

theorem foldl_add_zero (xs : List Nat) : xs.foldl (· + ·) 0 = xs.sum := by
  simp [foldl_add_eq]

theorem sum_map_mul_right {α : Type} (xs : List α) (f : α → Nat) (k : Nat) :
    (xs.map fun x => f x * k).sum = (xs.map f).sum * k := by
  induction xs with
  | nil => simp
  | cons x xs ih => simp [ih, Nat.add_mul]

theorem sum_map_le_sum_map {α : Type} (xs : List α) (f g : α → Nat)
    (h : ∀ x, x ∈ xs → f x ≤ g x) : (xs.map f).sum ≤ (xs.map g).sum := by
  induction xs with
  | nil => simp
  | cons x xs ih =>
    have h1 : f x ≤ g x := h x (by simp)
    have h2 : (xs.map f).sum ≤ (xs.map g).sum := ih fun y hy => h y (by simp [hy])
    simp only [List.map_cons, List.sum_cons]
    omega

/-! ## Update in place = fresh computation -/

/-- "update the first `k` entries in place, append the rest" is a plain `map`. -/
theorem map_take_append_map_drop {α β : Type} (f : α → β) (xs : List α) (k : Nat) :
    (xs.take k).map f ++ (xs.drop k).map f = xs.map f := by
  rw [← List.map_append, List.take_append_drop]

/-- What `archStatsUpdate` takes over unchanged from the old object must describe the
    archetype: these three figures are immutable per archetype. -/
def StatAgrees (w : World) (s : ArchStats) (A : Archetype) : Prop :=
  s.memoryPerEntity = w.memPerEntity A ∧ s.componentIDs = A.comps ∧ s.numRelations = A.numRel

/-- The heart of C19: whatever the old table-entry list looked like (longer, shorter, equal),
    the in-place update yields exactly the fresh statistics. -/
theorem archStatsUpdate_eq_fresh (w : World) (A : Archetype) (s : ArchStats)
    (h : StatAgrees w s A) : w.archStatsUpdate A s = w.archStatsFresh A := by
  obtain ⟨h1, h2, h3⟩ := h
  cases s
  simp only at h1 h2 h3
  subst h1 h2 h3
  simp only [archStatsUpdate, archStatsFresh, map_take_append_map_drop]

theorem archStatsFresh_agrees (w : World) (A : Archetype) : StatAgrees w (w.archStatsFresh A) A :=
  ⟨rfl, rfl, rfl⟩

/-- The hypothesis "`st` was produced for an earlier state of this world": no more archetype
    entries than archetypes, and the stored immutable figures are those of the archetype at the
    same position. -/
def Compatible (st : WorldStats) (w : World) : Prop :=
  st.archetypes.length ≤ w.archetypes.length ∧
  ∀ (i : Nat) (s : ArchStats) (A : Archetype),
    st.archetypes[i]? = some s → w.archetypes[i]? = some A → StatAgrees w s A

theorem zip_update_eq_fresh (w : World) :
    ∀ (ss : List ArchStats) (as : List Archetype),
      ss.length ≤ as.length →
      (∀ (i : Nat) (s : ArchStats) (A : Archetype),
        ss[i]? = some s → as[i]? = some A → StatAgrees w s A) →
      (((as.take ss.length).zip ss).map fun (A, s) => w.archStatsUpdate A s) ++
          (as.drop ss.length).map w.archStatsFresh
        = as.map w.archStatsFresh := by
  intro ss
  induction ss with
  | nil => intro as _ _; simp
  | cons s ss ih =>
    intro as hl hag
    cases as with
    | nil => simp at hl
    | cons A as =>
      have h0 : StatAgrees w s A := hag 0 s A rfl rfl
      have hl' : ss.length ≤ as.length := by simpa using hl
      have ih' := ih as hl' (fun i s' A' hs hA => hag (i + 1) s' A' (by simpa using hs) (by simpa using hA))
      simp only [List.length_cons, List.take_succ_cons, List.zip_cons_cons, List.map_cons,
        List.drop_succ_cons, List.cons_append]
      rw [ih', archStatsUpdate_eq_fresh w A s h0]

/-- C19, main theorem. -/
theorem statsUpdate_eq_fresh (w : World) (st : WorldStats) (h : Compatible st w) :
    w.statsUpdate st = w.statsFresh := by
  obtain ⟨hl, hag⟩ := h
  have hz := zip_update_eq_fresh w st.archetypes w.archetypes hl hag
  simp only [statsUpdate, statsFresh, hz]

/-- The initial (empty) statistics object is compatible with every world. -/
theorem compatible_empty (w : World) : Compatible {} w := by
  refine ⟨Nat.zero_le _, ?_⟩
  intro i s A hs _
  simp at hs

/-! ## Monotone evolution of the world keeps compatibility -/

/-- `w'` is a later state of `w` as far as statistics are concerned: archetypes were only
    appended, the existing ones kept their component list and relation count, and the registered
    sizes of their components did not change. -/
def Mono (w w' : World) : Prop :=
  w.archetypes.length ≤ w'.archetypes.length ∧
  ∀ (i : Nat) (A A' : Archetype), w.archetypes[i]? = some A → w'.archetypes[i]? = some A' →
    A'.comps = A.comps ∧ A'.numRel = A.numRel ∧
    ∀ (c : Comp), c ∈ A.comps → (w'.kinds.getD c {}).size = (w.kinds.getD c {}).size

theorem memPerEntity_congr (w w' : World) (A A' : Archetype) (hc : A'.comps = A.comps)
    (hk : ∀ (c : Comp), c ∈ A.comps → (w'.kinds.getD c {}).size = (w.kinds.getD c {}).size) :
    w'.memPerEntity A' = w.memPerEntity A := by
  unfold memPerEntity
  rw [hc]
  have : (A.comps.map fun c => (w'.kinds.getD c {}).size)
      = (A.comps.map fun c => (w.kinds.getD c {}).size) :=
    List.map_congr_left hk
  rw [this]

theorem Mono.refl (w : World) : Mono w w :=
  ⟨Nat.le_refl _, fun _ A A' h h' => by
    have : A' = A := by rw [h] at h'; exact (Option.some.inj h').symm
    subst this; exact ⟨rfl, rfl, fun _ _ => rfl⟩⟩

theorem Mono.trans {w₁ w₂ w₃ : World} (h₁ : Mono w₁ w₂) (h₂ : Mono w₂ w₃) : Mono w₁ w₃ := by
  refine ⟨Nat.le_trans h₁.1 h₂.1, ?_⟩
  intro i A A'' hA hA''
  have hi : i < w₁.archetypes.length := (List.getElem?_eq_some_iff.mp hA).1
  have hi2 : i < w₂.archetypes.length := Nat.lt_of_lt_of_le hi h₁.1
  obtain ⟨c1, n1, k1⟩ := h₁.2 i A (w₂.archetypes[i]) hA (List.getElem?_eq_getElem hi2)
  obtain ⟨c2, n2, k2⟩ := h₂.2 i (w₂.archetypes[i]) A'' (List.getElem?_eq_getElem hi2) hA''
  refine ⟨c2.trans c1, n2.trans n1, fun c hc => ?_⟩
  rw [k2 c (by rw [c1]; exact hc), k1 c hc]

/-- Registry growth (components are only ever appended to `kinds`) does not change the sizes of
    the components that were registered already. -/
theorem kinds_append_size (ks extra : List CompKind) (c : Nat) (h : c < ks.length) :
    ((ks ++ extra).getD c {}).size = (ks.getD c {}).size := by
  simp [List.getD_eq_getElem?_getD, List.getElem?_append_left h]

/-! The four primitive ways in which the model changes `archetypes` / `kinds`
    (`setArch` through `modArch`, `createArchetype`'s append, `registerComponent`'s append, and
    "not at all") each satisfy `Mono`. -/

theorem mono_of_eq (w w' : World) (ha : w'.archetypes = w.archetypes) (hk : w'.kinds = w.kinds) :
    Mono w w' := by
  refine ⟨by rw [ha]; exact Nat.le_refl _, ?_⟩
  intro i A A' hA hA'
  rw [ha, hA] at hA'
  cases hA'
  exact ⟨rfl, rfl, fun c _ => by rw [hk]⟩

theorem mono_setArch (w : World) (a : Nat) (A' : Archetype)
    (hc : A'.comps = (w.arch a).comps) (hn : A'.numRel = (w.arch a).numRel) :
    Mono w (w.setArch a A') := by
  refine ⟨by simp [setArch], ?_⟩
  intro i A B hA hB
  have hi : i < w.archetypes.length := (List.getElem?_eq_some_iff.mp hA).1
  simp only [setArch, List.getElem?_set] at hB
  by_cases hai : a = i
  · subst hai
    simp only [if_true, hi] at hB
    cases hB
    have : w.arch a = A := by simp [arch, List.getD_eq_getElem?_getD, hA]
    rw [this] at hc hn
    exact ⟨hc, hn, fun _ _ => rfl⟩
  · simp only [hai, if_false] at hB
    rw [hA] at hB
    cases hB
    exact ⟨rfl, rfl, fun _ _ => rfl⟩

theorem mono_append_archetypes (w w' : World) (extra : List Archetype)
    (ha : w'.archetypes = w.archetypes ++ extra) (hk : w'.kinds = w.kinds) : Mono w w' := by
  refine ⟨by simp [ha], ?_⟩
  intro i A A' hA hA'
  have hi : i < w.archetypes.length := (List.getElem?_eq_some_iff.mp hA).1
  rw [ha, List.getElem?_append_left hi, hA] at hA'
  cases hA'
  exact ⟨rfl, rfl, fun c _ => by rw [hk]⟩

theorem mono_append_kinds (w w' : World) (extra : List CompKind)
    (ha : w'.archetypes = w.archetypes) (hk : w'.kinds = w.kinds ++ extra)
    (hreg : ∀ (A : Archetype), A ∈ w.archetypes → ∀ (c : Comp), c ∈ A.comps → c < w.kinds.length) :
    Mono w w' := by
  refine ⟨by rw [ha]; exact Nat.le_refl _, ?_⟩
  intro i A A' hA hA'
  rw [ha, hA] at hA'
  cases hA'
  refine ⟨rfl, rfl, fun c hc => ?_⟩
  rw [hk]
  exact kinds_append_size _ _ _ (hreg A (List.mem_of_getElem? hA) c hc)

/-- A compatible statistics object stays compatible along a monotone evolution. -/
theorem Compatible.mono {st : WorldStats} {w w' : World} (h : Compatible st w) (m : Mono w w') :
    Compatible st w' := by
  refine ⟨Nat.le_trans h.1 m.1, ?_⟩
  intro i s A' hs hA'
  have hi : i < st.archetypes.length := (List.getElem?_eq_some_iff.mp hs).1
  have hi2 : i < w.archetypes.length := Nat.lt_of_lt_of_le hi h.1
  have hA : w.archetypes[i]? = some w.archetypes[i] := List.getElem?_eq_getElem hi2
  obtain ⟨a1, a2, a3⟩ := h.2 i s _ hs hA
  obtain ⟨c1, n1, k1⟩ := m.2 i _ A' hA hA'
  exact ⟨a1.trans (memPerEntity_congr w w' _ A' c1 k1).symm, a2.trans c1.symm, a3.trans n1.symm⟩

/-- The statistics computed for a world are compatible with that world … -/
theorem compatible_fresh_self (w : World) : Compatible w.statsFresh w := by
  refine ⟨by simp [statsFresh], ?_⟩
  intro i s A hs hA
  simp only [statsFresh, List.getElem?_map, hA, Option.map_some, Option.some.injEq] at hs
  subst hs
  exact archStatsFresh_agrees w A

/-- … and with every later state of it. -/
theorem compatible_fresh_later (w w' : World) (m : Mono w w') : Compatible w.statsFresh w' :=
  (compatible_fresh_self w).mono m

/-! ### Executable checks of `Compatible` and `Mono` (used on concrete worlds) -/

def agreesB (w : World) (s : ArchStats) (A : Archetype) : Bool :=
  s.memoryPerEntity == w.memPerEntity A && s.componentIDs == A.comps && s.numRelations == A.numRel

def compatibleB (st : WorldStats) (w : World) : Bool :=
  decide (st.archetypes.length ≤ w.archetypes.length) &&
  (st.archetypes.zip w.archetypes).all fun p => agreesB w p.1 p.2

theorem compatible_of_check {st : WorldStats} {w : World} (h : compatibleB st w = true) :
    Compatible st w := by
  simp only [compatibleB, Bool.and_eq_true, decide_eq_true_eq, List.all_eq_true] at h
  refine ⟨h.1, ?_⟩
  intro i s A hs hA
  have hz : (st.archetypes.zip w.archetypes)[i]? = some (s, A) :=
    List.getElem?_zip_eq_some.mpr ⟨hs, hA⟩
  have := h.2 (s, A) (List.mem_of_getElem? hz)
  simp only [agreesB, Bool.and_eq_true, beq_iff_eq] at this
  exact ⟨this.1.1, this.1.2, this.2⟩

def monoB (w w' : World) : Bool :=
  decide (w.archetypes.length ≤ w'.archetypes.length) &&
  (w.archetypes.zip w'.archetypes).all fun p =>
    p.2.comps == p.1.comps && p.2.numRel == p.1.numRel &&
    p.1.comps.all fun c => (w'.kinds.getD c {}).size == (w.kinds.getD c {}).size

theorem mono_of_check {w w' : World} (h : monoB w w' = true) : Mono w w' := by
  simp only [monoB, Bool.and_eq_true, decide_eq_true_eq, List.all_eq_true, beq_iff_eq] at h
  refine ⟨h.1, ?_⟩
  intro i A A' hA hA'
  have hz : (w.archetypes.zip w'.archetypes)[i]? = some (A, A') :=
    List.getElem?_zip_eq_some.mpr ⟨hA, hA'⟩
  have := h.2 (A, A') (List.mem_of_getElem? hz)
  exact ⟨this.1.1, this.1.2, this.2⟩

/-! ## `opStats` -/

theorem opStats_eq (w : World) (h : Compatible w.stats w) :
    opStats w = .ok w.statsFresh { w with stats := w.statsFresh } := by
  simp only [opStats, statsUpdate_eq_fresh w w.stats h]

theorem statsFresh_with_stats (w : World) (st : WorldStats) :
    statsFresh { w with stats := st } = statsFresh w := rfl

theorem statsUpdate_with_stats (w : World) (st st' : WorldStats) :
    statsUpdate { w with stats := st } st' = statsUpdate w st' := rfl

theorem compatible_with_stats (w : World) (st st' : WorldStats) :
    Compatible st' { w with stats := st } ↔ Compatible st' w := Iff.rfl

theorem opStats_eq' (w : World) (st : WorldStats) (h : Compatible st w) :
    opStats { w with stats := st } = .ok (statsFresh w) { w with stats := statsFresh w } :=
  opStats_eq { w with stats := st } h

theorem mono_with_stats (w : World) (st : WorldStats) : Mono w { w with stats := st } :=
  Mono.refl w

/-- The worlds reachable by a history that starts with the empty statistics object and
    interleaves `Stats()` calls with arbitrary changes that respect `Mono` and leave the
    statistics object alone. -/
inductive Hist : World → Prop
  | init (w : World) : w.stats = {} → Hist w
  | stats (w : World) : Hist w → Hist (opStats w).state
  | other (w w' : World) : Hist w → Mono w w' → w'.stats = w.stats → Hist w'

theorem Hist.compatible {w : World} (h : Hist w) : Compatible w.stats w := by
  induction h with
  | init w h0 => rw [h0]; exact compatible_empty w
  | stats w _ ih =>
    rw [opStats_eq w ih]
    exact compatible_fresh_self w
  | other w w' _ m hs ih => rw [hs]; exact ih.mono m

/-- At every `Stats()` call of every history the returned (and stored) statistics are those a
    world asked for the first time would report. -/
theorem Hist.opStats_eq {w : World} (h : Hist w) :
    opStats w = .ok w.statsFresh { w with stats := w.statsFresh } :=
  World.opStats_eq w h.compatible

/-! ## Internal consistency of the fresh figures -/

theorem tableStats_memory (T : Table) (mpe : Nat) :
    (tableStats T mpe).memory = (tableStats T mpe).capacity * mpe := rfl

theorem tableStats_memoryUsed (T : Table) (mpe : Nat) :
    (tableStats T mpe).memoryUsed = (tableStats T mpe).size * mpe := rfl

theorem fresh_tables (w : World) (A : Archetype) :
    (w.archStatsFresh A).tables
      = A.tables.tables.map fun t => tableStats (w.tbl t) (w.memPerEntity A) := rfl

theorem fresh_tables_length (w : World) (A : Archetype) :
    (w.archStatsFresh A).tables.length = A.tables.tables.length := by
  simp [fresh_tables]

theorem fresh_table_entry (w : World) (A : Archetype) (ts : TableStats)
    (h : ts ∈ (w.archStatsFresh A).tables) :
    ts.memory = ts.capacity * (w.archStatsFresh A).memoryPerEntity ∧
    ts.memoryUsed = ts.size * (w.archStatsFresh A).memoryPerEntity := by
  rw [fresh_tables] at h
  obtain ⟨t, _, rfl⟩ := List.mem_map.mp h
  exact ⟨rfl, rfl⟩

theorem fresh_table_entry_get (w : World) (A : Archetype) (i : Nat) (t : Nat)
    (h : A.tables.tables[i]? = some t) :
    (w.archStatsFresh A).tables[i]? = some
      { size := (w.tbl t).len, capacity := (w.tbl t).cap
        memory := (w.tbl t).cap * w.memPerEntity A
        memoryUsed := (w.tbl t).len * w.memPerEntity A } := by
  simp [fresh_tables, h, tableStats]

theorem fresh_size (w : World) (A : Archetype) :
    (w.archStatsFresh A).size = (A.tables.tables.map fun t => (w.tbl t).len).sum := by
  simp [archStatsFresh, foldl_add_zero, tableStats, Function.comp_def]

theorem fresh_size_tables (w : World) (A : Archetype) :
    (w.archStatsFresh A).size = ((w.archStatsFresh A).tables.map (·.size)).sum := by
  simp [archStatsFresh, foldl_add_zero]

theorem fresh_capacity (w : World) (A : Archetype) :
    (w.archStatsFresh A).capacity
      = (A.tables.tables.map fun t => (w.tbl t).cap).sum
        + (A.freeTables.map fun t => (w.tbl t).cap).sum := by
  simp [archStatsFresh, foldl_add_zero, tableStats, Function.comp_def]

theorem fresh_capacity_tables (w : World) (A : Archetype) :
    (w.archStatsFresh A).capacity
      = ((w.archStatsFresh A).tables.map (·.capacity)).sum
        + (A.freeTables.map fun t => (w.tbl t).cap).sum := by
  simp [archStatsFresh, foldl_add_zero]

theorem fresh_memoryUsed (w : World) (A : Archetype) :
    (w.archStatsFresh A).memoryUsed
      = (w.archStatsFresh A).memoryPerEntity * (w.archStatsFresh A).size := by
  simp only [archStatsFresh, foldl_add_zero, tableStats, List.map_map, Function.comp_def]
  rw [sum_map_mul_right, Nat.mul_comm]

theorem fresh_memory (w : World) (A : Archetype) :
    (w.archStatsFresh A).memory
      = (w.archStatsFresh A).memoryPerEntity * (w.archStatsFresh A).capacity := by
  simp only [archStatsFresh, foldl_add_zero, tableStats, List.map_map, Function.comp_def]
  rw [sum_map_mul_right, Nat.mul_add, Nat.mul_comm]

theorem fresh_memoryUsed_tables (w : World) (A : Archetype) :
    (w.archStatsFresh A).memoryUsed = ((w.archStatsFresh A).tables.map (·.memoryUsed)).sum := by
  simp [archStatsFresh, foldl_add_zero]

theorem fresh_fixed (w : World) (A : Archetype) :
    (w.archStatsFresh A).componentIDs = A.comps ∧
    (w.archStatsFresh A).numRelations = A.numRel ∧
    (w.archStatsFresh A).memoryPerEntity = w.memPerEntity A ∧
    (w.archStatsFresh A).freeTables = A.freeTables.length := ⟨rfl, rfl, rfl, rfl⟩

theorem memPerEntity_eq (w : World) (A : Archetype) :
    w.memPerEntity A = 8 + (A.comps.map fun c => (w.kinds.getD c {}).size).sum := by
  simp [memPerEntity, foldl_add_zero]

/-- per table: `size ≤ capacity` -/
theorem fresh_table_size_le (w : World) (A : Archetype)
    (hT : ∀ (t : Nat), t ∈ A.tables.tables → (w.tbl t).len ≤ (w.tbl t).cap)
    (ts : TableStats) (h : ts ∈ (w.archStatsFresh A).tables) : ts.size ≤ ts.capacity := by
  rw [fresh_tables] at h
  obtain ⟨t, ht, rfl⟩ := List.mem_map.mp h
  exact hT t ht

/-- per archetype: `size ≤ capacity`, and hence `memoryUsed ≤ memory` -/
theorem fresh_size_le (w : World) (A : Archetype)
    (hT : ∀ (t : Nat), t ∈ A.tables.tables → (w.tbl t).len ≤ (w.tbl t).cap) :
    (w.archStatsFresh A).size ≤ (w.archStatsFresh A).capacity := by
  rw [fresh_size, fresh_capacity]
  have := sum_map_le_sum_map A.tables.tables (fun t => (w.tbl t).len) (fun t => (w.tbl t).cap) hT
  omega

theorem fresh_memoryUsed_le (w : World) (A : Archetype)
    (hT : ∀ (t : Nat), t ∈ A.tables.tables → (w.tbl t).len ≤ (w.tbl t).cap) :
    (w.archStatsFresh A).memoryUsed ≤ (w.archStatsFresh A).memory := by
  rw [fresh_memoryUsed, fresh_memory]
  exact Nat.mul_le_mul_left _ (fresh_size_le w A hT)

/-! ### world level -/

theorem world_archetypes (w : World) :
    w.statsFresh.archetypes = w.archetypes.map w.archStatsFresh := rfl

theorem world_used_recycled_total (w : World)
    (h : w.pool.available ≤ w.pool.ents.length - 2) :
    w.statsFresh.used + w.statsFresh.recycled = w.statsFresh.total := by
  show w.pool.len + w.pool.available = w.pool.cap
  simp only [Pool.len, Pool.cap, Pool.reserved]
  omega

theorem world_used (w : World) :
    w.statsFresh.used = w.pool.ents.length - 2 - w.pool.available ∧
    w.statsFresh.recycled = w.pool.available ∧
    w.statsFresh.total = w.pool.ents.length - 2 := ⟨rfl, rfl, rfl⟩

theorem world_memory (w : World) :
    w.statsFresh.memory = (w.statsFresh.archetypes.map (·.memory)).sum := by
  simp [statsFresh, foldl_add_zero]

theorem world_memoryUsed (w : World) :
    w.statsFresh.memoryUsed = (w.statsFresh.archetypes.map (·.memoryUsed)).sum := by
  simp [statsFresh, foldl_add_zero]

theorem world_memoryUsed_le (w : World)
    (hT : ∀ (A : Archetype), A ∈ w.archetypes →
      ∀ (t : Nat), t ∈ A.tables.tables → (w.tbl t).len ≤ (w.tbl t).cap) :
    w.statsFresh.memoryUsed ≤ w.statsFresh.memory := by
  rw [world_memory, world_memoryUsed, world_archetypes, List.map_map, List.map_map]
  exact sum_map_le_sum_map _ _ _ fun A hA => fresh_memoryUsed_le w A (hT A hA)

theorem world_misc (w : World) :
    w.statsFresh.cachedFilters = w.cache.filters.length ∧
    w.statsFresh.observers = w.obs.totalCount ∧
    w.statsFresh.locked = w.isLocked ∧
    w.statsFresh.numComponents = w.kinds.length := ⟨rfl, rfl, rfl, rfl⟩

end World
end Ark
