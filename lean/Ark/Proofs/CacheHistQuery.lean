/-
  Ark.Proofs.CacheHistQuery — property C05 over whole histories, part 3: what a client observes.

  At every state satisfying the invariant `HInv2` of `Ark.Proofs.CacheHistOps` (hence at every
  reachable state), for every filter object `fo` of the heap that is registered (`fo.cache = some
  id`), compared with the identical unregistered object `{ fo with cache := none }`, and for
  per-call relations `extra`:

  * `HInv2.cached_eq_uncached` — the cache entry exists, carries the object's filter and
    relations, and its table list is duplicate-free with the same members as the uncached walk
    `getCacheTables` (which succeeds);
  * `queryPreCheck fo extra` — the validation `FilterN.Query(rel…)` runs first (typed filters);
    it reads the world only (`queryPreCheck_cases`), passes for `extra = []`
    (`queryPreCheck_nil`) and for unsafe filters; when it rejects, both queries panic with the
    same class and nothing changes (`precheck_panic_agree`); in this fragment a typed filter
    rejects every non-empty `extra` (`queryPreCheck_typed_cons`);
  * `HInv2.open_agree` — otherwise both queries open (on the same locked world); `Count` is the
    same number; the rows `expected` by the two cursors are permutations of each other and are
    exactly the rows of the selected tables; `EntityAt` enumerates the same entities;
  * `HInv2.drain_agree` — both complete iterations (`World.drain`) succeed, leave the world
    unchanged up to the free list of the lock-bit pool (and unlocked), and visit the same rows,
    each exactly once (the visit lists are permutations of each other), reporting the entity
    stored in the row;
  * `HInv2.batch_agree` — `getBatchTables` succeeds for both, without changing the world; the
    cached selection is the uncached one restricted to non-empty tables.

  Kernel-only proofs, core Lean only.
-/
import Ark.Proofs.CacheHistOps
import Ark.Proofs.Drain

set_option autoImplicit false

namespace Ark

open World Drain

/-! ## 1. `Lock` then `Unlock` on an unlocked world -/

theorem Lock.lock_unlock {l : Lock} {lf : List Nat} (g : Lock.LInv ⟨l, []⟩ lf) :
    ∃ (l1 : Lock) (b : Nat) (l2 : Lock) (lf' : List Nat), l.lock = some (l1, b) ∧
      l1.unlock b = some l2 ∧ l2.isLocked = false ∧ Lock.LInv ⟨l2, []⟩ lf' := by
  rcases Lock.lock_spec ⟨l, []⟩ lf g with ⟨_, h0⟩ | ⟨l1, b, hlock, _, _, _, lf1, g1⟩
  · cases h0
  · rcases Lock.unlock_spec ⟨l1, [b]⟩ lf1 g1 b with ⟨_, hnot⟩ | ⟨l2, hun, _, g2⟩
    · exact absurd (List.mem_singleton.mpr rfl) hnot
    · have he : ([b] : List Nat).erase b = [] := by simp
      have g2' : Lock.LInv ⟨l2, []⟩ (b :: lf1) := by
        have := g2
        simp only [he] at this
        exact this
      refine ⟨l1, b, l2, b :: lf1, hlock, hun, ?_, g2'⟩
      have hz : l2.locks = 0#64 := by
        apply BitVec.eq_of_getLsbD_eq
        intro i hi
        have := g2'.locks_iff i
        cases hb : l2.locks.getLsbD i with
        | false => simp
        | true => exact absurd (this.mp hb) (by simp)
      simp [Lock.isLocked, hz]

/-! ## 2. opening a query without per-call relations -/

namespace World

/-- the validation `FilterN.Query(rel…)` runs before anything else (typed filters only) -/
def queryPreCheck (fo : FilterObj) (extra : List RelID) : W Unit :=
  if fo.typed then preCheckTyped fo.filter.mask extra else pure ()

theorem queryPreCheck_nil (fo : FilterObj) (w : World) : queryPreCheck fo [] w = .ok () w := by
  unfold queryPreCheck
  cases fo.typed <;> rfl

theorem queryPreCheck_cases (fo : FilterObj) (extra : List RelID) (w : World) :
    queryPreCheck fo extra w = .ok () w ∨
    ∃ (k : PanicKind), queryPreCheck fo extra w = .panic k w := by
  unfold queryPreCheck
  cases fo.typed with
  | false => exact Or.inl rfl
  | true => exact preCheckTyped_cases fo.filter.mask extra w

theorem qOpen_uncached (fo : FilterObj) (extra : List RelID) (w : World) (hc : fo.cache = none)
    (hpc : queryPreCheck fo extra w = .ok () w) {l1 : Lock} {b : Nat}
    (hl : w.locks.lock = some (l1, b)) :
    qOpen fo extra w = .ok
      { filter := fo.filter, rels := fo.rels ++ extra, cacheTables := none,
        rare := if (fo.typed && !fo.ids.isEmpty) = true then some (w.rareComponent fo.ids) else none,
        lockBit := b }
      { w with locks := l1 } := by
  unfold queryPreCheck at hpc
  unfold qOpen
  cases ht : fo.typed with
  | false =>
    simp [bind, M.bind, M.get, hc, lock, hl, effRels, pure, M.pure]
  | true =>
    rw [ht] at hpc
    simp only [if_true] at hpc
    simp [bind, M.bind, hpc, M.get, hc, lock, hl, effRels, pure, M.pure]

theorem qOpen_cached (fo : FilterObj) (extra : List RelID) (w : World) {id : Nat}
    (hc : fo.cache = some id) (hpc : queryPreCheck fo extra w = .ok () w)
    {e : CacheEntry} (he : w.cacheEntry? id = some e) {l1 : Lock} {b : Nat}
    (hl : w.locks.lock = some (l1, b)) :
    qOpen fo extra w = .ok
      { filter := fo.filter, rels := extra, cacheTables := some e.tables.tables,
        rare := if (fo.typed && !fo.ids.isEmpty) = true then some (w.rareComponent fo.ids) else none,
        lockBit := b }
      { w with locks := l1 } := by
  unfold queryPreCheck at hpc
  unfold qOpen
  cases ht : fo.typed with
  | false =>
    simp [bind, M.bind, M.get, hc, he, lock, hl, effRels, pure, M.pure]
  | true =>
    rw [ht] at hpc
    simp only [if_true] at hpc
    simp [bind, M.bind, hpc, M.get, hc, he, lock, hl, effRels, pure, M.pure]

/-- a rejected validation: the query does not open, nothing changes -/
theorem qOpen_precheck_panic (fo : FilterObj) (extra : List RelID) (w : World) {k : PanicKind}
    (hpc : queryPreCheck fo extra w = .panic k w) :
    qOpen fo extra w = .panic k w ∧ drain fo extra w = .panic k w := by
  unfold queryPreCheck at hpc
  have h1 : qOpen fo extra w = .panic k w := by
    unfold qOpen
    cases ht : fo.typed with
    | false => rw [ht] at hpc; cases hpc
    | true =>
      rw [ht] at hpc
      simp only [if_true] at hpc
      simp [bind, M.bind, hpc]
  exact ⟨h1, by simp [drain, bind, M.bind, h1]⟩

/-- without relation components a typed query rejects every non-empty list of per-call
    relations -/
theorem queryPreCheck_typed_cons (fo : FilterObj) (r : RelID) (rest : List RelID) (w : World)
    (ht : fo.typed = true) (hk : ∀ (c : Comp), (w.kinds.getD c {}).isRel = false) :
    ∃ (k : PanicKind), queryPreCheck fo (r :: rest) w = .panic k w := by
  unfold queryPreCheck preCheckTyped
  have hr : w.isRelComp r.comp = false := hk r.comp
  simp only [ht, if_true, M.forM', bind, M.bind, checkRelationTarget, checkRelationComponent]
  by_cases h1 : (!r.target.isZero && !w.alive r.target) = true
  · simp only [h1, if_true]; exact ⟨_, rfl⟩
  · simp only [h1, Bool.false_eq_true, if_false, hr]; exact ⟨_, rfl⟩

theorem queryPreCheck_unsafe (fo : FilterObj) (extra : List RelID) (w : World)
    (ht : fo.typed = false) : queryPreCheck fo extra w = .ok () w := by
  unfold queryPreCheck
  rw [ht]; rfl

/-- `rareComponent` picks one of the given components -/
theorem rareComponent_go_mem (w : World) : ∀ (l : List Comp) (best : Comp) (bc : Option Nat),
    rareComponent.go w best bc l = best ∨ rareComponent.go w best bc l ∈ l := by
  intro l
  induction l with
  | nil => intro best bc; exact Or.inl rfl
  | cons c rest ih =>
    intro best bc
    unfold rareComponent.go
    cases bc with
    | none =>
      simp only
      rcases ih c (some (w.archCount.getD c 0)) with h | h
      · exact Or.inr (by rw [h]; exact List.mem_cons_self)
      · exact Or.inr (List.mem_cons_of_mem _ h)
    | some m =>
      simp only
      split
      · rcases ih c (some (w.archCount.getD c 0)) with h | h
        · exact Or.inr (by rw [h]; exact List.mem_cons_self)
        · exact Or.inr (List.mem_cons_of_mem _ h)
      · rcases ih best (some m) with h | h
        · exact Or.inl h
        · exact Or.inr (List.mem_cons_of_mem _ h)

theorem rareComponent_mem (w : World) {ids : List Comp} (h : ids ≠ []) :
    w.rareComponent ids ∈ ids := by
  cases ids with
  | nil => exact absurd rfl h
  | cons c rest =>
    unfold rareComponent rareComponent.go
    simp only
    rcases rareComponent_go_mem w rest c (some (w.archCount.getD c 0)) with h1 | h1
    · rw [h1]; exact List.mem_cons_self
    · exact List.mem_cons_of_mem _ h1

end World

/-! ## 3. the counting walks in the relation-free fragment -/

/-- the cached walk over tables without relation columns: the non-empty tables of the list, in
    order (whatever relations are asked for) -/
theorem selC_fold_noRel (w : World) (rels : List RelID) : ∀ (ts acc : List Nat),
    (∀ (t : Nat), t ∈ ts → (w.tbl t).hasRelations = false) →
    ts.foldl (selC w rels) (some acc) = some (acc ++ ts.filter fun t => (w.tbl t).len != 0) := by
  intro ts
  induction ts with
  | nil => intro acc _; simp
  | cons t rest ih =>
    intro acc h
    have ih' := fun acc' => ih acc' (fun t' ht' => h t' (List.mem_cons_of_mem _ ht'))
    rw [List.foldl_cons]
    by_cases hl : (w.tbl t).len = 0
    · have e : selC w rels (some acc) t = some acc := by simp [selC, hl]
      rw [e, ih']; simp [hl]
    · have e : selC w rels (some acc) t = some (acc ++ [t]) := by
        simp [selC, hl, Table.matchesRels_noRel _ (h t List.mem_cons_self)]
      rw [e, ih']; simp [hl]

/-- the uncached walk over archetypes without relation columns: the table of every matching
    archetype, in order -/
theorem selA_fold_noRel (w : World) (f : Filter) (rels : List RelID) : ∀ (as acc : List Nat),
    (∀ (a : Nat), a ∈ as → (w.arch a).hasRelations = false) →
    as.foldl (selA w f rels) (some acc) =
      some (acc ++ (as.filter fun a => f.matchesMask (w.arch a).mask).map
        fun a => (w.arch a).tables.tables.getD 0 0) := by
  intro as
  induction as with
  | nil => intro acc _; simp
  | cons a rest ih =>
    intro acc h
    have hr := h a List.mem_cons_self
    have ih' := fun acc' => ih acc' (fun b hb => h b (List.mem_cons_of_mem _ hb))
    rw [List.foldl_cons]
    by_cases hm : f.matchesMask (w.arch a).mask = true
    · have e : selA w f rels (some acc) a = some (acc ++ [(w.arch a).tables.tables.getD 0 0]) := by
        simp [selA, hm, hr]
      rw [e, ih']; simp [hm]
    · have e : selA w f rels (some acc) a = some acc := by simp [selA, hm]
      rw [e, ih']; simp [hm]

theorem NoRelW.table0 {w : World} (h : NoRelW w) {a : Nat} {A : Archetype}
    (hA : w.archetypes[a]? = some A) : A.tables.tables = [A.tables.tables.getD 0 0] := by
  have hlen := h.sinv.settled a A hA (h.arch hA)
  cases hl : A.tables.tables with
  | nil => rw [hl] at hlen; simp at hlen
  | cons x xs =>
    cases xs with
    | nil => rfl
    | cons y ys => rw [hl] at hlen; simp at hlen

/-- what the archetype list of an uncached query looks like: all archetypes, or (typed filter)
    those of the component index entry of one component of the filter -/
theorem archList_facts {w : World} (hci : CIdxH w) (f : Filter) (rare : Option Comp)
    (hrare : ∀ (c : Comp), rare = some c → c < w.kinds.length ∧ f.mask.get c = true) :
    (∀ (a : Nat), a ∈ w.archList rare → a < w.archetypes.length) ∧ (w.archList rare).Nodup ∧
    (∀ (a : Nat), a < w.archetypes.length → f.matchesMask (w.arch a).mask = true →
      a ∈ w.archList rare) := by
  cases rare with
  | none =>
    refine ⟨fun a ha => List.mem_range.mp ha, List.nodup_range, fun a ha _ => List.mem_range.mpr ha⟩
  | some c =>
    obtain ⟨hc, hm⟩ := hrare c rfl
    have e : w.archList (some c) =
        (List.range w.archetypes.length).filter fun a => (w.arch a).mask.get c := hci.idx c hc
    rw [e]
    refine ⟨fun a ha => List.mem_range.mp (List.mem_filter.mp ha).1,
      List.Pairwise.filter _ List.nodup_range, fun a ha hmm => ?_⟩
    exact List.mem_filter.mpr ⟨List.mem_range.mpr ha,
      ((Filter.matchesMask_iff f _).1 hmm).1 c hm⟩

/-- **the uncached counting walk in the fragment** selects exactly the `Selected` tables, each
    once -/
theorem uncached_selected {w : World} (hn : NoRelW w) (hR : RInv w) (hci : CIdxH w) (q : QueryObj)
    (hq : q.cacheTables = none)
    (hrare : ∀ (c : Comp), q.rare = some c → c < w.kinds.length ∧ q.filter.mask.get c = true) :
    ∃ (ts : List Nat), qSelected w q = some ts ∧ ts.Nodup ∧
      ∀ (t : Nat), t ∈ ts ↔ Selected w q.filter q.rels t := by
  obtain ⟨h1, h2, h3⟩ := archList_facts hci q.filter q.rare hrare
  have H := hn.tablesInv hR
  have hnr : ∀ (a : Nat), a ∈ w.archList q.rare → (w.arch a).hasRelations = false :=
    fun a ha => hn.arch (aget_of_lt (h1 a ha))
  refine ⟨((w.archList q.rare).filter fun a => q.filter.matchesMask (w.arch a).mask).map
    fun a => (w.arch a).tables.tables.getD 0 0, ?_, ?_, ?_⟩
  · rw [qSelected_eq, hq]
    simp only
    rw [selA_fold_noRel w q.filter q.rels _ [] hnr, List.nil_append]
  · -- the archetype of the table identifies the archetype
    have hkey : (((w.archList q.rare).filter fun a => q.filter.matchesMask (w.arch a).mask).map
        fun a => (w.arch a).tables.tables.getD 0 0).map (fun t => (w.tbl t).arch) =
        (w.archList q.rare).filter fun a => q.filter.matchesMask (w.arch a).mask := by
      rw [List.map_map]
      have e : ((w.archList q.rare).filter fun a => q.filter.matchesMask (w.arch a).mask).map
          ((fun t => (w.tbl t).arch) ∘ fun a => (w.arch a).tables.tables.getD 0 0) =
          ((w.archList q.rare).filter fun a => q.filter.matchesMask (w.arch a).mask).map id := by
        apply List.map_congr_left
        intro a ha
        have halt := h1 a (List.mem_filter.mp ha).1
        have hA := aget_of_lt halt
        have ht0 : (w.arch a).tables.tables.getD 0 0 ∈ (w.arch a).tables.tables := by
          rw [hn.table0 hA]; simp
        exact H.arch a _ hA _ ht0
      rw [e, List.map_id]
    have hnd : ((((w.archList q.rare).filter fun a => q.filter.matchesMask (w.arch a).mask).map
        fun a => (w.arch a).tables.tables.getD 0 0).map (fun t => (w.tbl t).arch)).Nodup := by
      rw [hkey]; exact List.Pairwise.filter _ h2
    exact List.Pairwise.of_map (S := fun x y => x ≠ y) (fun t => (w.tbl t).arch)
      (fun a b hab hh => hab (by rw [hh])) hnd
  · intro t
    rw [hn.selected_iff, List.mem_map]
    constructor
    · rintro ⟨a, ha, rfl⟩
      obtain ⟨ha1, ha2⟩ := List.mem_filter.mp ha
      have hA := aget_of_lt (h1 a ha1)
      exact ⟨a, _, hA, by rw [hn.table0 hA]; simp, ha2⟩
    · rintro ⟨a, A, hA, ht, hm⟩
      have hAe := arch_of_get hA
      refine ⟨a, List.mem_filter.mpr ⟨h3 a (alt_of_get hA) (by rw [hAe]; exact hm),
        by rw [hAe]; exact hm⟩, ?_⟩
      rw [hAe]
      rw [hn.table0 hA] at ht
      exact (List.mem_singleton.mp ht).symm

/-- the cached counting walk over tables without relation columns: the non-empty tables of the
    entry -/
theorem cached_selected (w : World) (q : QueryObj) (ts0 : List Nat)
    (hq : q.cacheTables = some ts0)
    (hnr : ∀ (t : Nat), t ∈ ts0 → (w.tbl t).hasRelations = false) :
    qSelected w q = some (ts0.filter fun t => (w.tbl t).len != 0) := by
  rw [qSelected_eq, hq]
  simp only
  rw [selC_fold_noRel w q.rels ts0 [] hnr, List.nil_append]

/-- membership in the rows of a table list -/
theorem mem_rows (w : World) (ts : List Nat) (p : Nat × Nat) :
    p ∈ ts.flatMap (rowsOf w) ↔ p.1 ∈ ts ∧ p.2 < (w.tbl p.1).len := by
  rw [List.mem_flatMap]
  constructor
  · rintro ⟨t, ht, hp⟩
    simp only [rowsOf, List.mem_map, List.mem_range] at hp
    obtain ⟨r, hr, rfl⟩ := hp
    exact ⟨ht, hr⟩
  · rintro ⟨h1, h2⟩
    refine ⟨p.1, h1, ?_⟩
    simp only [rowsOf, List.mem_map, List.mem_range]
    exact ⟨p.2, h2, rfl⟩

/-! ## 4. a registered filter object and its unregistered twin, at a state of the machine -/

namespace CacheHist

open Refine

/-- everything the statements below need about the two queries (per-call relations `extra`
    that pass the typed validation `queryPreCheck`) -/
theorem HInv2.open_core {s : St} {fl : List Nat} (H : HInv2 s fl) {f : Nat} {fo : FilterObj}
    {id : Nat} (hf : AL.find? s.w.filters f = some fo) (hc : fo.cache = some id)
    (extra : List RelID) (hpc : queryPreCheck fo extra s.w = .ok () s.w) :
    ∃ (e : CacheEntry) (l1 : Lock) (b : Nat) (l2 : Lock) (qc qu : QueryObj) (tsC tsU : List Nat),
      s.w.cacheEntry? id = some e ∧ e.filter = fo.filter ∧ e.rels = fo.rels ∧
      qOpen fo extra s.w = .ok qc { s.w with locks := l1 } ∧
      qOpen { fo with cache := none } extra s.w = .ok qu { s.w with locks := l1 } ∧
      qc.lockBit = b ∧ qu.lockBit = b ∧ l1.unlock b = some l2 ∧ l2.isLocked = false ∧
      (∃ (lf' : List Nat), Lock.LInv ⟨l2, []⟩ lf') ∧
      qSelected { s.w with locks := l1 } qc = some tsC ∧
      qSelected { s.w with locks := l1 } qu = some tsU ∧
      tsC.Nodup ∧ tsU.Nodup ∧
      (∀ (t : Nat), t ∈ tsC ↔ Selected s.w fo.filter fo.rels t ∧ (s.w.tbl t).len ≠ 0) ∧
      (∀ (t : Nat), t ∈ tsU ↔ Selected s.w fo.filter fo.rels t) ∧
      tsC = e.tables.tables.filter (fun t => (s.w.tbl t).len != 0) := by
  obtain ⟨e, hmem, heid, hef, her⟩ := H.finv.heap.reg f fo id hf hc
  have he : s.w.cacheEntry? id = some e := by rw [← heid]; exact H.finv.cache.lookup_of_mem hmem
  obtain ⟨hwf, hsel⟩ := H.finv.cache.entries e hmem
  obtain ⟨lf, g⟩ := H.finv.lock
  obtain ⟨l1, b, l2, lf', hlock, hunlock, hunl, g2⟩ := Lock.lock_unlock g
  -- the rare component of a typed filter is one of its components
  have hrare : ∀ (c : Comp),
      (if (fo.typed && !fo.ids.isEmpty) = true then some (s.w.rareComponent fo.ids) else none) =
        some c → c < s.w.kinds.length ∧ fo.filter.mask.get c = true := by
    intro c hcr
    by_cases hcond : (fo.typed && !fo.ids.isEmpty) = true
    · rw [if_pos hcond] at hcr
      have hcc : s.w.rareComponent fo.ids = c := Option.some.inj hcr
      simp only [Bool.and_eq_true, Bool.not_eq_true', List.isEmpty_eq_false_iff] at hcond
      have hm := rareComponent_mem s.w hcond.2
      rw [hcc] at hm
      exact H.finv.heap.typed f fo hf hcond.1 c hm
    · rw [if_neg hcond] at hcr; cases hcr
  -- the tables of the entry have no relation column
  have hnr : ∀ (t : Nat), t ∈ e.tables.tables → (s.w.tbl t).hasRelations = false := by
    intro t ht
    obtain ⟨a, A, hA, htA, _⟩ := (hsel t).1 ht
    exact H.noRelW.tblNoRel hA htA
  have hoc := qOpen_cached fo extra s.w hc hpc he hlock
  have hou := qOpen_uncached { fo with cache := none } extra s.w rfl hpc hlock
  obtain ⟨tsU, hsu, hndu, hmu⟩ := uncached_selected H.noRelW H.finv.rinv H.finv.cidx
    { filter := fo.filter, rels := fo.rels ++ extra, cacheTables := none,
      rare := if (fo.typed && !fo.ids.isEmpty) = true then some (s.w.rareComponent fo.ids) else none,
      lockBit := b } rfl hrare
  refine ⟨e, l1, b, l2, _, _, e.tables.tables.filter (fun t => (s.w.tbl t).len != 0), tsU, he, hef,
    her, hoc, hou, rfl, rfl, hunlock, hunl, ⟨lf', g2⟩, ?_, hsu, ?_, hndu, ?_, ?_, rfl⟩
  · exact cached_selected _ _ e.tables.tables rfl hnr
  · exact List.Pairwise.filter _ hwf.nodup
  · intro t
    rw [List.mem_filter, hsel, hef, her]
    simp
  · intro t
    rw [hmu]
    show Selected s.w fo.filter (fo.rels ++ extra) t ↔ _
    rw [H.noRelW.selected_iff, H.noRelW.selected_iff]

/-- **(1) cached = uncached at every state of the machine.**  The cache entry of a registered
    filter object exists, carries the object's filter and relations, and its table list is
    duplicate-free with the same members as the uncached walk, which succeeds. -/
theorem HInv2.cached_eq_uncached {s : St} {fl : List Nat} (H : HInv2 s fl) {f : Nat}
    {fo : FilterObj} {id : Nat} (hf : AL.find? s.w.filters f = some fo) (hc : fo.cache = some id) :
    ∃ (e : CacheEntry), s.w.cacheEntry? id = some e ∧ e.id = id ∧ e.filter = fo.filter ∧
      e.rels = fo.rels ∧ e.tables.tables.Nodup ∧
      ∃ (ts : List Nat), s.w.getCacheTables fo.filter fo.rels = some ts ∧ ts.Nodup ∧
        ∀ (t : Nat), t ∈ e.tables.tables ↔ t ∈ ts := by
  obtain ⟨e, hmem, heid, hef, her⟩ := H.finv.heap.reg f fo id hf hc
  have he : s.w.cacheEntry? id = some e := by rw [← heid]; exact H.finv.cache.lookup_of_mem hmem
  obtain ⟨h1, h2, ts, h3, h4, h5⟩ := H.finv.cache.cached_eq_uncached H.tablesInv he
    (H.relsOK e.filter e.rels)
  rw [hef, her] at h3
  exact ⟨e, he, h1, hef, her, h2, ts, h3, h4, h5⟩

/-- the rows of the selected tables -/
def SelRow (w : World) (fo : FilterObj) (p : Nat × Nat) : Prop :=
  Selected w fo.filter fo.rels p.1 ∧ p.2 < (w.tbl p.1).len

/-- the two row lists of `open_core` -/
theorem rows_agree {w : World} {fo : FilterObj} {tsC tsU : List Nat} (hndC : tsC.Nodup)
    (hndU : tsU.Nodup)
    (hC : ∀ (t : Nat), t ∈ tsC ↔ Selected w fo.filter fo.rels t ∧ (w.tbl t).len ≠ 0)
    (hU : ∀ (t : Nat), t ∈ tsU ↔ Selected w fo.filter fo.rels t) :
    (tsC.flatMap (rowsOf w)).Nodup ∧ (tsU.flatMap (rowsOf w)).Nodup ∧
    (∀ (p : Nat × Nat), p ∈ tsC.flatMap (rowsOf w) ↔ SelRow w fo p) ∧
    (∀ (p : Nat × Nat), p ∈ tsU.flatMap (rowsOf w) ↔ SelRow w fo p) ∧
    (tsC.flatMap (rowsOf w)).Perm (tsU.flatMap (rowsOf w)) := by
  have h1 : ∀ (p : Nat × Nat), p ∈ tsC.flatMap (rowsOf w) ↔ SelRow w fo p := by
    intro p
    rw [mem_rows, hC]
    unfold SelRow
    constructor
    · rintro ⟨⟨a, _⟩, c⟩; exact ⟨a, c⟩
    · rintro ⟨a, c⟩; exact ⟨⟨a, by omega⟩, c⟩
  have h2 : ∀ (p : Nat × Nat), p ∈ tsU.flatMap (rowsOf w) ↔ SelRow w fo p := by
    intro p
    rw [mem_rows, hU]
    rfl
  have n1 := rows_nodup w tsC hndC
  have n2 := rows_nodup w tsU hndU
  exact ⟨n1, n2, h1, h2, (List.perm_ext_iff_of_nodup n1 n2).2 fun p => (h1 p).trans (h2 p).symm⟩

theorem qCount_of_selected (w : World) (q : QueryObj) (ts : List Nat)
    (h : qSelected w q = some ts) : qCount w q = some (ts.flatMap (rowsOf w)).length := by
  simp only [qCount, h, Option.map_some, flatMap_rowsOf_length, foldl_add_eq_sum]

/-- the entities `EntityAt` enumerates are those stored in the expected rows -/
theorem entityAt_mem (w : World) (q : QueryObj) (rows : List (Nat × Nat))
    (h : expected w q = some rows) (ent : Ent) :
    (∃ (i : Nat), qEntityAt w q i = some (some ent)) ↔
      ent ∈ rows.map fun p => (w.tbl p.1).getEntity p.2 := by
  simp only [entityAt_eq, h, Option.map_some, Option.some.injEq]
  rw [List.mem_iff_getElem?]
  simp only [List.getElem?_map]

/-- a rejected validation of the per-call relations (typed filters): neither query opens, both
    complete iterations panic with the same class, the world is unchanged -/
theorem precheck_panic_agree (fo : FilterObj) (extra : List RelID) (w : World) {k : PanicKind}
    (hpc : queryPreCheck fo extra w = .panic k w) :
    qOpen fo extra w = .panic k w ∧ qOpen { fo with cache := none } extra w = .panic k w ∧
    drain fo extra w = .panic k w ∧ drain { fo with cache := none } extra w = .panic k w := by
  obtain ⟨h1, h2⟩ := qOpen_precheck_panic fo extra w hpc
  obtain ⟨h3, h4⟩ := qOpen_precheck_panic { fo with cache := none } extra w hpc
  exact ⟨h1, h3, h2, h4⟩

/-- **(2a) the open queries agree.**  Both queries open, on the same locked world; `Count` is the
    same number; the rows the two cursors are expected to visit are duplicate-free, are exactly
    the rows of the selected tables, and are permutations of each other; `EntityAt` enumerates
    the same entities. -/
theorem HInv2.open_agree {s : St} {fl : List Nat} (H : HInv2 s fl) {f : Nat} {fo : FilterObj}
    {id : Nat} (hf : AL.find? s.w.filters f = some fo) (hc : fo.cache = some id)
    (extra : List RelID) (hpc : queryPreCheck fo extra s.w = .ok () s.w) :
    ∃ (qc qu : QueryObj) (wl : World) (rowsC rowsU : List (Nat × Nat)),
      qOpen fo extra s.w = .ok qc wl ∧ qOpen { fo with cache := none } extra s.w = .ok qu wl ∧
      wl = { s.w with locks := wl.locks } ∧
      expected wl qc = some rowsC ∧ expected wl qu = some rowsU ∧
      rowsC.Nodup ∧ rowsU.Nodup ∧ rowsC.Perm rowsU ∧
      (∀ (p : Nat × Nat), p ∈ rowsC ↔ SelRow s.w fo p) ∧
      qCount wl qc = some rowsC.length ∧ qCount wl qu = some rowsC.length ∧
      (∀ (ent : Ent), (∃ (i : Nat), qEntityAt wl qc i = some (some ent)) ↔
        ∃ (i : Nat), qEntityAt wl qu i = some (some ent)) := by
  obtain ⟨e, l1, b, l2, qc, qu, tsC, tsU, _, _, _, hoc, hou, _, _, _, _, _, hsc, hsu, hnc, hnu,
    hmc, hmu, _⟩ := H.open_core hf hc extra hpc
  obtain ⟨n1, n2, m1, _, hperm⟩ := rows_agree (w := s.w) hnc hnu hmc hmu
  have hec : expected { s.w with locks := l1 } qc = some (tsC.flatMap (rowsOf s.w)) := by
    simp only [expected, hsc, Option.map_some]; rfl
  have heu : expected { s.w with locks := l1 } qu = some (tsU.flatMap (rowsOf s.w)) := by
    simp only [expected, hsu, Option.map_some]; rfl
  refine ⟨qc, qu, { s.w with locks := l1 }, _, _, hoc, hou, rfl, hec, heu, n1, n2, hperm, m1,
    qCount_of_selected _ _ _ hsc, ?_, ?_⟩
  · rw [qCount_of_selected _ _ _ hsu]
    exact congrArg some hperm.length_eq.symm
  · intro ent
    rw [entityAt_mem _ _ _ hec, entityAt_mem _ _ _ heu]
    exact (hperm.map _).mem_iff

/-- **(2b) the complete iterations agree.**  `World.drain` succeeds for the registered filter
    object and for its unregistered twin; the final worlds are the initial one up to the free
    list of the lock-bit pool, equal to each other, and unlocked; every visit reports the entity
    stored in its row; the visited rows are duplicate-free, exactly the rows of the selected
    tables, and the two visit sequences are permutations of each other (rows and entities). -/
theorem HInv2.drain_agree {s : St} {fl : List Nat} (H : HInv2 s fl) {f : Nat} {fo : FilterObj}
    {id : Nat} (hf : AL.find? s.w.filters f = some fo) (hc : fo.cache = some id)
    (extra : List RelID) (hpc : queryPreCheck fo extra s.w = .ok () s.w) :
    ∃ (vc vu : List Visit) (wf : World),
      drain fo extra s.w = .ok vc wf ∧ drain { fo with cache := none } extra s.w = .ok vu wf ∧
      wf = { s.w with locks := wf.locks } ∧ wf.isLocked = false ∧
      (∃ (lf : List Nat), Lock.LInv ⟨wf.locks, []⟩ lf) ∧
      (∀ (v : Visit), v ∈ vc → v.e = (s.w.tbl v.table).getEntity v.row) ∧
      (∀ (v : Visit), v ∈ vu → v.e = (s.w.tbl v.table).getEntity v.row) ∧
      (vc.map fun v => (v.table, v.row)).Nodup ∧ (vu.map fun v => (v.table, v.row)).Nodup ∧
      (∀ (p : Nat × Nat), p ∈ vc.map (fun v => (v.table, v.row)) ↔ SelRow s.w fo p) ∧
      (vc.map fun v => (v.table, v.row)).Perm (vu.map fun v => (v.table, v.row)) ∧
      (vc.map (·.e)).Perm (vu.map (·.e)) := by
  obtain ⟨e, l1, b, l2, qc, qu, tsC, tsU, _, _, _, hoc, hou, hbc, hbu, hun, hunl, g2, hsc, hsu,
    hnc, hnu, hmc, hmu, _⟩ := H.open_core hf hc extra hpc
  obtain ⟨n1, n2, m1, _, hperm⟩ := rows_agree (w := s.w) hnc hnu hmc hmu
  obtain ⟨vc, hdc, hrc, hentc⟩ := drain_rows_monadic fo extra s.w _ qc tsC l2 hoc hsc hnc
    (by rw [hbc]; exact hun)
  obtain ⟨vu, hdu, hru, hentu⟩ := drain_rows_monadic { fo with cache := none } extra s.w _ qu tsU
    l2 hou hsu hnu (by rw [hbu]; exact hun)
  replace hrc : vc.map (fun v => (v.table, v.row)) = tsC.flatMap (rowsOf s.w) := hrc
  replace hru : vu.map (fun v => (v.table, v.row)) = tsU.flatMap (rowsOf s.w) := hru
  replace hentc : vc.map (·.e) =
      (tsC.flatMap (rowsOf s.w)).map fun p => (s.w.tbl p.1).getEntity p.2 := hentc
  replace hentu : vu.map (·.e) =
      (tsU.flatMap (rowsOf s.w)).map fun p => (s.w.tbl p.1).getEntity p.2 := hentu
  -- each visit reports the entity of its row
  have hvis : ∀ (vs : List Visit) (rows : List (Nat × Nat)),
      vs.map (fun v => (v.table, v.row)) = rows →
      vs.map (·.e) = rows.map (fun p => (s.w.tbl p.1).getEntity p.2) →
      ∀ (v : Visit), v ∈ vs → v.e = (s.w.tbl v.table).getEntity v.row := by
    intro vs rows h1 h2 v hv
    obtain ⟨i, hi⟩ := List.getElem?_of_mem hv
    have a1 : (vs.map fun v => (v.table, v.row))[i]? = some (v.table, v.row) := by
      rw [List.getElem?_map, hi]; rfl
    have a2 : (vs.map (·.e))[i]? = some v.e := by rw [List.getElem?_map, hi]; rfl
    rw [h1] at a1
    rw [h2, List.getElem?_map, a1] at a2
    exact (Option.some.inj a2).symm
  refine ⟨vc, vu, { s.w with locks := l2 }, hdc, hdu, rfl, hunl, g2, hvis vc _ hrc hentc,
    hvis vu _ hru hentu, by rw [hrc]; exact n1, by rw [hru]; exact n2,
    fun p => by rw [hrc]; exact m1 p, by rw [hrc, hru]; exact hperm, ?_⟩
  rw [hentc, hentu]
  exact hperm.map _

/-- **(3) the batch selections agree** (any per-call relations; `getBatchTables` itself does not
    validate them).  `getBatchTables` succeeds for both objects without changing the world; both
    selections are duplicate-free; the cached one is the uncached one restricted to the non-empty
    tables (the cached walk skips empty tables, the uncached walk of `getCacheTables` does not
    — every consumer skips them). -/
theorem HInv2.batch_agree {s : St} {fl : List Nat} (H : HInv2 s fl) {f : Nat} {fo : FilterObj}
    {id : Nat} (hf : AL.find? s.w.filters f = some fo) (hc : fo.cache = some id)
    (extra : List RelID) :
    ∃ (tc tu : List Nat),
      getBatchTables fo extra s.w = .ok tc s.w ∧
      getBatchTables { fo with cache := none } extra s.w = .ok tu s.w ∧
      tc.Nodup ∧ tu.Nodup ∧
      (∀ (t : Nat), t ∈ tu ↔ Selected s.w fo.filter fo.rels t) ∧
      (∀ (t : Nat), t ∈ tc ↔ t ∈ tu ∧ (s.w.tbl t).len ≠ 0) := by
  obtain ⟨e, hmem, heid, hef, her⟩ := H.finv.heap.reg f fo id hf hc
  have he : s.w.cacheEntry? id = some e := by rw [← heid]; exact H.finv.cache.lookup_of_mem hmem
  obtain ⟨hwf, hsel⟩ := H.finv.cache.entries e hmem
  have hnr : ∀ (t : Nat), t ∈ e.tables.tables → (s.w.tbl t).hasRelations = false := by
    intro t ht
    obtain ⟨a, A, hA, htA, _⟩ := (hsel t).1 ht
    exact H.noRelW.tblNoRel hA htA
  obtain ⟨tu, htu, hndu, hmu⟩ :=
    getCacheTables_spec H.tablesInv (H.relsOK fo.filter (fo.rels ++ extra))
  have hcached : getBatchTables fo extra s.w =
      .ok (e.tables.tables.filter fun t => (s.w.tbl t).len != 0) s.w := by
    have key : getBatchTables fo extra s.w =
        match e.tables.tables.foldl (selC s.w (effRels fo extra)) (some []) with
        | none => .panic .runtime s.w
        | some ts => .ok ts s.w := by
      simp only [getBatchTables, hc, he]; rfl
    rw [key, selC_fold_noRel s.w _ _ [] hnr, List.nil_append]
  have huncached : getBatchTables { fo with cache := none } extra s.w = .ok tu s.w := by
    have hr' : effRels { fo with cache := none } extra = fo.rels ++ extra := by simp [effRels]
    simp only [getBatchTables, hr', htu]
  have hmu' : ∀ (t : Nat), t ∈ tu ↔ Selected s.w fo.filter fo.rels t := by
    intro t
    rw [hmu, H.noRelW.selected_iff, H.noRelW.selected_iff]
  refine ⟨_, tu, hcached, huncached, List.Pairwise.filter _ hwf.nodup, hndu, hmu', fun t => ?_⟩
  rw [List.mem_filter, hsel, hef, her, hmu']
  simp

end CacheHist

end Ark
