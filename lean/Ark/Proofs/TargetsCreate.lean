/-
  Ark.Proofs.TargetsCreate — C04 at world level, part 2: creation and assignment of relation
  targets (`findOrCreateTableAdd` with relations, `opNewEntity`, `setRelationsCore`).
  Kernel-only proofs, core Lean only.
-/
import Ark.Proofs.TargetsInv

set_option autoImplicit false

namespace Ark

open World Ark.Props.C01World

/-! ## 1. `findOrCreateTableAdd` with relations -/

namespace World

theorem relsForAdd_eq (old : Table) (rels : List RelID) : relsForAdd old rels = old.relIDs ++ rels := by
  unfold relsForAdd
  cases rels with
  | nil => simp
  | cons r rest => simp

theorem graphFindAdd_go_new (w : World) : ∀ (add : List Comp) (m m' : Mask) (w' : World),
    graphFindAdd.go w m add = .ok m' w' → ∀ (c : Comp), c ∈ add → m.get c = false
  | [], _, _, _, _, c, hc => by cases hc
  | x :: rest, m, m', w', h, c, hc => by
    simp only [graphFindAdd.go] at h
    split at h
    · cases h
    · rename_i hx
      rcases List.mem_cons.1 hc with rfl | hm
      · simpa using hx
      · have := graphFindAdd_go_new w rest (m.set x) m' w' h c hm
        rw [Mask.get_set] at this
        cases hg : m.get c with
        | false => rfl
        | true => rw [hg] at this; simp at this

theorem graphFindAdd_new {m m' : Mask} {add : List Comp} {w w' : World}
    (h : graphFindAdd m add w = .ok m' w') : ∀ (c : Comp), c ∈ add → m.get c = false :=
  graphFindAdd_go_new w add m m' w' h

end World

/-- What `findOrCreateTableAdd oldT startMask add rels` guarantees in the presence of relations
    (`w` before, `w'` after, `t` the table of archetype `a` returned). -/
structure AddedRel (w w' : World) (oldT : Nat) (rels : List RelID) (mask : Mask) (t a : Nat) :
    Prop where
  foc : FoundOrCreated w w' mask t a
  rel : RelInv w'
  flags : FlagsOKUpTo w' rels
  freeEmpty : FreeEmpty w'
  untouched : Untouched w w'
  relArchs : w.relationArchetypes.length ≤ w'.relationArchetypes.length
  /-- every given relation (and every relation of the old table) on a relation component is
      stored in its column of the returned table -/
  tgt : ∀ (r : RelID), r ∈ (w.tbl oldT).relIDs ++ rels → w.isRelComp r.comp = true →
    ∀ (i : Nat), (w'.tbl t).colIdx r.comp = some i →
      (w'.tbl t).isRel.getD i false = true ∧ (w'.tbl t).targets.getD i Ent.zero = r.target
  /-- the returned table is unchanged, or it was a free table -/
  tkeep : t < w.tables.length → w'.tables[t]? = w.tables[t]? ∨ (w.tbl t).isFree = true
  tablesLen : w'.tables.length ≤ w.tables.length + 1

theorem RelInv.findOrCreateTableAdd {w w' : World} (hR : RelInv w) (hF : FlagsOK w)
    (hE : FreeEmpty w) {oldT : Nat} {startMask mask : Mask} {add : List Comp} {rels : List RelID}
    {t a : Nat}
    (hstart : ∀ (c : Nat), startMask.get c = true → c < w.kinds.length)
    (hreg : ∀ (c : Comp), c ∈ add → c < w.kinds.length)
    (hold : oldT < w.tables.length) (hofree : (w.tbl oldT).isFree = false)
    (hom : ∀ (r : RelID), r ∈ (w.tbl oldT).relIDs → startMask.get r.comp = true)
    (hnd : (rels.map (·.comp)).Nodup) (hin : ∀ (r : RelID), r ∈ rels → r.comp ∈ add)
    (hok : World.findOrCreateTableAdd oldT startMask add rels w = .ok (t, a, mask) w') :
    mask = add.foldl Mask.set startMask ∧ AddedRel w w' oldT rels mask t a := by
  obtain ⟨hmask, foc, hrinv'⟩ := hR.sinv.findOrCreateTableAdd_of_ok_rinv hR.rinv hstart hreg hok
  have hu := findOrCreateTableAdd_untouched hok
  have hlen := findOrCreateTableAdd_tables_len hok
  refine ⟨hmask, ?_⟩
  have hg : graphFindAdd startMask add w = .ok (add.foldl Mask.set startMask) w := by
    rcases graphFindAdd_cases startMask add w with hg | ⟨hg, _⟩
    · exact hg
    · simp only [World.findOrCreateTableAdd, bind, M.bind, hg] at hok; cases hok
  have hnew := graphFindAdd_new hg
  obtain ⟨a1, w1, ha, hmid, hset, halt, hmask1, hpre, hlen1, ht, hk, he, hp, hc1, hcase⟩ :=
    hR.sinv.findOrCreateArch (add.foldl Mask.set startMask) (Mask.get_foldl_set_reg hstart hreg)
  obtain ⟨_, rfl, hbr⟩ := findOrCreateTableAdd_ok_inv hg ha hok
  have hu1 := findOrCreateArch_untouched ha
  have aux1 : RelAux w1 := hR.aux.findOrCreateArch ha
  have hold1 : w1.tbl oldT = w.tbl oldT := by simp only [tbl, ht]
  have hflag1 : FlagsOK w1 := by
    intro t0 T0 hT0 hf i hi hz
    rw [ht] at hT0; rw [hu1.isTarget]; exact hF t0 T0 hT0 hf i hi hz
  have hfree1 : FreeEmpty w1 := by
    intro t0 T0 hT0 hf; rw [ht] at hT0; exact hE t0 T0 hT0 hf
  have hrc1 : ∀ (c : Comp), w1.isRelComp c = w.isRelComp c := fun c => by
    simp only [World.isRelComp, hk]
  have hra1 : w.relationArchetypes.length ≤ w1.relationArchetypes.length := by
    rcases hcase with ⟨_, rfl⟩ | ⟨hf, _, _⟩
    · exact Nat.le_refl _
    · have hh := ha
      unfold World.findOrCreateArch at hh
      rw [hf] at hh
      rw [createArchetype_eq] at hh
      injection hh with _ h2
      subst h2
      rw [createArchetypeW_relationArchetypes]
      split
      · simp
      · exact Nat.le_refl _
  rw [hold1] at hbr
  have hOT := get_of_lt hold
  have hOex := hR.aux.rels oldT _ hOT hofree
  rcases hbr with ⟨hgt, rfl⟩ | ⟨hgt, hct⟩
  · -- an existing table
    refine
      { foc := foc, rel := ⟨foc.sinv, hrinv', aux1⟩, flags := hflag1.upTo rels, freeEmpty := hfree1,
        untouched := hu, relArchs := hra1, tgt := ?_, tkeep := fun _ => Or.inl (by rw [ht]),
        tablesLen := hlen }
    intro r hr hrc i hi
    have hTt := get_of_lt foc.tblLt
    have hcg := Table.colIdx_get hi
    have hrel : (w'.tbl t).isRel.getD i false = true := by
      obtain ⟨A, hA, e1, e2, _⟩ := foc.sinv.tblArch t _ hTt
      rw [e1] at hcg
      rw [e2, (foc.sinv.kindsOf _ A i r.comp hA hcg).1]
      rw [← hrc1] at hrc; exact hrc
    have hhas : (w'.arch a).hasRelations = true := by
      obtain ⟨A, hA, _, e2, _⟩ := foc.sinv.tblArch t _ hTt
      rw [foc.tblArch] at hA
      rw [arch_of_get hA]
      rw [e2] at hrel
      exact (foc.sinv.astruct _ A hA).hasRelations_of_rel hrel
    have hm := getTable_found hgt hhas
    rw [relsForAdd_eq] at hm
    exact (Table.matchesExact_yes hm).2 r hr i hi
  · -- a table created (or recycled)
    have hnr : (w1.arch a).hasRelations = false → (w1.arch a).tables.tables = [] := by
      intro hr
      rw [getTable_noRel _ hr] at hgt
      injection hgt with hgt _
      split at hgt
      · rename_i he
        exact List.isEmpty_iff.1 he
      · cases hgt
    have ct := hmid.createTable halt hnr hct
    rw [relsForAdd_eq] at ct hct
    have hndall : (((w.tbl oldT).relIDs ++ rels).map (·.comp)).Nodup := by
      rw [List.map_append, List.nodup_append]
      refine ⟨hOex.nodup, hnd, ?_⟩
      intro c hc1' c' hc2 heq
      obtain ⟨r1, hr1, rfl⟩ := List.mem_map.1 hc1'
      obtain ⟨r2, hr2, rfl⟩ := List.mem_map.1 hc2
      have h1 := hom r1 hr1
      have h2 := hnew r2.comp (hin r2 hr2)
      rw [← heq, h1] at h2; cases h2
    have aux' : RelAux w' := aux1.created halt ct hct hmid hndall
    obtain ⟨hTt, hTa, hTr, hTf, hTg, hTi⟩ := ct.tbl
    have hu2 := createTable_untouched hct
    refine
      { foc := foc, rel := ⟨foc.sinv, hrinv', aux'⟩, flags := ?_, freeEmpty := hfree1.created ct,
        untouched := hu, relArchs := by rw [(createTable_frame hct).1]; exact hra1,
        tgt := ?_, tkeep := ?_, tablesLen := hlen }
    · apply (hflag1.upTo rels).created ct hu2.isTarget
      intro r hr hz
      rcases List.mem_append.1 hr with h1 | h1
      · left
        obtain ⟨i, _, h3, h4⟩ := hOex.sound r h1
        rw [← h4] at hz ⊢
        rw [hu1.isTarget]
        exact hF oldT _ hOT hofree i h3 hz
      · exact Or.inr ⟨r, h1, rfl⟩
    · intro r hr _ i hi
      have hex := aux'.rels t _ hTt hTf
      exact hex.col (ct.sinvMid.ids_nodup hTt) (by rw [hTr]; exact hr) hi
    · intro hlt
      rcases ct.kind with ⟨k1, _⟩ | ⟨_, _, _, k4, _⟩
      · rw [ht] at k1; omega
      · right
        have : w1.tbl t = w.tbl t := by simp only [tbl, ht]
        rw [← this]; exact k4

/-- the lookup frame: every entity reads the same values, components and targets after
    `findOrCreateTableAdd` -/
theorem AddedRel.frame {w w' : World} {oldT : Nat} {rels : List RelID} {mask : Mask} {t a : Nat}
    (ar : AddedRel w w' oldT rels mask t a) (hI : IdxInv w) (hE : FreeEmpty w) (j : Nat) :
    SameEnt w w' j ∧ ∀ (c : Comp), targetOf w' j c = targetOf w j c := by
  have he := ar.foc.entities
  cases hx : w.entities[j]? with
  | none =>
    exact ⟨same_of_entry (by rw [he]) (fun t r hh => by rw [hx] at hh; cases hh),
      fun c => by simp only [targetOf, he, hx]⟩
  | some p =>
    obtain ⟨tj, r⟩ := p
    by_cases ht : tj = maxU32
    · exact ⟨same_of_entry (by rw [he]) (fun t r hh => by rw [hx] at hh; cases hh; exact ht),
        fun c => by simp only [targetOf, he, hx, ht, if_true]⟩
    · obtain ⟨T, hT, hr, _⟩ := hI.idxRow j tj r hx ht
      have hlt := lt_of_get hT
      obtain ⟨r1, r2, r3, r4, r5, r6⟩ := ar.foc.rows tj hlt
      have hlt' : tj < w'.tables.length := Nat.lt_of_lt_of_le hlt ar.foc.tablesLen
      have hT' := get_of_lt hlt'
      have hTe := tbl_of_get hT
      constructor
      · refine same_of_rows hx (by rw [he]; exact hx) ht ht hT hT' (by rw [r5, hTe]) (fun i => ?_)
        simp only [Table.cell, r3, hTe]
      · intro c
        rw [targetOf_of_entry (by rw [he]; exact hx) ht hT', targetOf_of_entry hx ht hT]
        by_cases htt : tj = t
        · subst htt
          rcases ar.tkeep hlt with h1 | h1
          · rw [hT, hT'] at h1
            rw [Option.some.inj h1]
          · have := hE tj T hT (by rw [← hTe]; exact h1)
            omega
        · have := ar.foc.others tj hlt htt
          rw [hT, hT'] at this
          rw [Option.some.inj this]

/-! ## 2. steps that keep the table metadata, as a relation -/

/-- `w'` differs from `w` only in rows, index, pool, flags (archetypes, registry, cache and table
    metadata are the same) -/
structure MetaStep (w w' : World) : Prop where
  archetypes : w'.archetypes = w.archetypes
  kinds : w'.kinds = w.kinds
  relationArchetypes : w'.relationArchetypes = w.relationArchetypes
  cache : w'.cache = w.cache
  len : w'.tables.length = w.tables.length
  tmeta : ∀ (t : Nat), t < w.tables.length → Table.SameMeta (w.tbl t) (w'.tbl t)

theorem MetaStep.refl (w : World) : MetaStep w w :=
  ⟨rfl, rfl, rfl, rfl, rfl, fun _ _ => Table.SameMeta.refl _⟩

theorem MetaStep.trans {a b c : World} (h1 : MetaStep a b) (h2 : MetaStep b c) : MetaStep a c :=
  ⟨h2.archetypes.trans h1.archetypes, h2.kinds.trans h1.kinds,
    h2.relationArchetypes.trans h1.relationArchetypes, h2.cache.trans h1.cache,
    h2.len.trans h1.len,
    fun t ht => (h1.tmeta t ht).trans (h2.tmeta t (by rw [h1.len]; exact ht))⟩

theorem MetaStep.of_tables_eq {w w' : World} (ha : w'.archetypes = w.archetypes)
    (hk : w'.kinds = w.kinds) (hra : w'.relationArchetypes = w.relationArchetypes)
    (hc : w'.cache = w.cache) (ht : w'.tables = w.tables) : MetaStep w w' :=
  ⟨ha, hk, hra, hc, by rw [ht], fun t _ => by
    have : w'.tbl t = w.tbl t := by simp only [tbl, ht]
    rw [this]; exact Table.SameMeta.refl _⟩

theorem MetaStep.of_set {w w' : World} {t : Nat} {T' : Table} (ha : w'.archetypes = w.archetypes)
    (hk : w'.kinds = w.kinds) (hra : w'.relationArchetypes = w.relationArchetypes)
    (hc : w'.cache = w.cache) (ht : w'.tables = w.tables.set t T')
    (sm : t < w.tables.length → Table.SameMeta (w.tbl t) T') : MetaStep w w' := by
  rcases Nat.lt_or_ge t w.tables.length with hlt | hge
  · obtain ⟨h1, h2⟩ := sameMeta_set ht hlt (sm hlt)
    exact ⟨ha, hk, hra, hc, h1, h2⟩
  · refine MetaStep.of_tables_eq ha hk hra hc ?_
    rw [ht]
    apply List.ext_getElem?
    intro i
    rw [List.getElem?_set]
    split
    · rename_i h; subst h
      rw [if_neg (by omega), List.getElem?_eq_none hge]
    · rfl

theorem RelInv.of_metaStep {w w' : World} (h : RelInv w) (ms : MetaStep w w')
    (hal : ∀ (e : Ent), w.alive e = true → w'.alive e = true) : RelInv w' :=
  h.of_sameMeta ms.archetypes ms.kinds ms.relationArchetypes ms.cache ms.len ms.tmeta hal

/-- … when liveness is kept inside the pool slice only (creation of an entity) -/
theorem RelInv.of_metaStep_in {w w' : World} (h : RelInv w) (hin : TargetsIn w) (ms : MetaStep w w')
    (hal : ∀ (e : Ent), e.id < w.pool.ents.length → w.alive e = true → w'.alive e = true) :
    RelInv w' :=
  h.of_sameMeta_in hin ms.archetypes ms.kinds ms.relationArchetypes ms.cache ms.len ms.tmeta hal

theorem FlagsOKUpTo.of_metaStep {w w' : World} {rels : List RelID} (h : FlagsOKUpTo w rels)
    (ms : MetaStep w w')
    (hfl : ∀ (i : Nat), w.isTarget.getD i false = true → w'.isTarget.getD i false = true) :
    FlagsOKUpTo w' rels := h.of_sameMeta ms.len ms.tmeta hfl

theorem FlagsOK.of_metaStep {w w' : World} (h : FlagsOK w) (ms : MetaStep w w')
    (hfl : ∀ (i : Nat), w.isTarget.getD i false = true → w'.isTarget.getD i false = true) :
    FlagsOK w' := h.of_sameMeta ms.len ms.tmeta hfl

theorem MetaStep.targetOf {w w' : World} (ms : MetaStep w w') {i : Nat}
    (he : w'.entities[i]? = w.entities[i]?) (c : Comp) : targetOf w' i c = targetOf w i c :=
  targetOf_congr_meta he ms.len ms.tmeta c

theorem FreeEmpty.of_set {w w' : World} (h : FreeEmpty w) {t : Nat} {T' : Table}
    (ht : w'.tables = w.tables.set t T') (hT' : T'.isFree = true → T'.len = 0) : FreeEmpty w' := by
  intro t0 T0 hT0 hf
  rw [ht, List.getElem?_set] at hT0
  split at hT0
  · split at hT0
    · obtain rfl := Option.some.inj hT0
      exact hT' hf
    · cases hT0
  · exact h t0 T0 hT0 hf

namespace World

theorem placedW_more (w : World) (t : Nat) (rt : Bool) :
    (placedW w t rt).relationArchetypes = w.relationArchetypes ∧ (placedW w t rt).cache = w.cache := by
  constructor <;>
  · simp only [placedW]
    split <;> rfl

theorem placedW_metaStep (w : World) (t : Nat) (rt : Bool) : MetaStep w (placedW w t rt) := by
  obtain ⟨fk, fa, _⟩ := placedW_fields w t rt
  obtain ⟨h1, h2⟩ := placedW_more w t rt
  obtain ⟨_, hT⟩ := placedW_place w t rt
  exact MetaStep.of_set fa fk h1 h2 (by rw [hT, place_tables]) (fun _ => Table.add_sameMeta _ _)

theorem placedW_flags_mono (w : World) (t : Nat) (i : Nat) (h : w.isTarget.getD i false = true) :
    (placedW w t false).isTarget.getD i false = true := by
  rw [placedW_isTarget']
  split
  · have hi : i < w.isTarget.length := by
      rcases Nat.lt_or_ge i w.isTarget.length with h1 | h1
      · exact h1
      · rw [List.getD_eq_getElem?_getD, List.getElem?_eq_none h1] at h; cases h
    rw [List.getD_eq_getElem?_getD, List.getElem?_append_left hi, ← List.getD_eq_getElem?_getD]
    exact h
  · simp only [Bool.false_eq_true, if_false]; exact h

theorem registerW_metaStep (w : World) (rels : List RelID) : MetaStep w (registerW w rels) :=
  MetaStep.of_tables_eq rfl rfl rfl rfl rfl

theorem writeValsW_metaStep (w : World) (e : Ent) (vals : List (Comp × Val)) :
    MetaStep w (writeValsW w e vals) :=
  MetaStep.of_set rfl rfl rfl rfl rfl (fun _ => writeFold_sameMeta _ _ _)

theorem writeValsW_tables_len (w : World) (e : Ent) (vals : List (Comp × Val)) :
    (writeValsW w e vals).tables.length = w.tables.length := (writeValsW_metaStep w e vals).len

end World

/-! ### the three row steps keep `TInv` pieces -/

theorem PLink.congr {w w' : World} {fl : List Nat} (h : PLink w fl) (hidx : IdxInv w')
    (hp : w'.pool = w.pool) (he : w'.entities = w.entities)
    (hit : w'.isTarget.length = w.isTarget.length) (htl : w'.tables.length = w.tables.length) :
    PLink w' fl :=
  h.transfer hidx hp (IdxSame.of_eq he) hit (by rw [htl]; exact h.fewTables)

/-! ## 3. `NewEntity` with relations -/

namespace World

theorem fireCreateEntityRelIfHas_none (run : ProbeRunner) (e : Ent) (mask : Mask) (w : World)
    (h : w.obs.hasObservers Ev.onAddRelations = false) :
    fireCreateEntityRelIfHas run e mask w = .ok () w := by
  simp only [fireCreateEntityRelIfHas, bind, M.bind, M.get, h, Bool.false_eq_true, if_false, pure,
    M.pure]

/-- a loop of state-preserving checks passes with the state unchanged or panics with it -/
theorem forM'_check {σ α : Type} (f : α → M σ Unit) (s : σ)
    (hf : ∀ (x : α), f x s = .ok () s ∨ ∃ (k : PanicKind), f x s = .panic k s) :
    ∀ (xs : List α), M.forM' xs f s = .ok () s ∨ ∃ (k : PanicKind), M.forM' xs f s = .panic k s
  | [] => Or.inl rfl
  | x :: rest => by
    simp only [M.forM', bind, M.bind]
    rcases hf x with h | ⟨k, h⟩
    · rw [h]; exact forM'_check f s hf rest
    · rw [h]; exact Or.inr ⟨k, rfl⟩

theorem checkRelationTarget_cases (t : Ent) (w : World) :
    checkRelationTarget t w = .ok () w ∨ checkRelationTarget t w = .panic .deadTarget w := by
  unfold checkRelationTarget; split
  · exact Or.inr rfl
  · exact Or.inl rfl

theorem checkRelationComponent_cases (c : Comp) (w : World) :
    checkRelationComponent c w = .ok () w ∨ checkRelationComponent c w = .panic .notRelation w := by
  unfold checkRelationComponent; split
  · exact Or.inl rfl
  · exact Or.inr rfl

/-- the pre-validation (of every path, since the repair of the `Unsafe` API) never changes the
    state -/
theorem preCheck_cases (p : Path) (ids : List Comp) (rels : List RelID) (w : World) :
    preCheck p ids rels w = .ok () w ∨ ∃ (k : PanicKind), preCheck p ids rels w = .panic k w := by
  cases p with
  | unsafe_ =>
    apply forM'_check
    intro r
    simp only [bind, M.bind]
    rcases checkRelationTarget_cases r.target w with h | h
    · rcases checkRelationComponent_cases r.comp w with h2 | h2
      · simp only [h, h2, M.assert]
        split
        · exact Or.inl rfl
        · exact Or.inr ⟨_, rfl⟩
      · simp only [h, h2]; exact Or.inr ⟨_, rfl⟩
    · simp only [h]; exact Or.inr ⟨_, rfl⟩
  | map1 =>
    apply forM'_check
    intro r
    simp only [bind, M.bind]
    rcases checkRelationTarget_cases r.target w with h | h
    · rw [h]
      rcases checkRelationComponent_cases r.comp w with h2 | h2
      · exact Or.inl h2
      · exact Or.inr ⟨_, h2⟩
    · rw [h]; exact Or.inr ⟨_, rfl⟩
  | typed =>
    apply forM'_check
    intro r
    simp only [bind, M.bind]
    rcases checkRelationTarget_cases r.target w with h | h
    · rcases checkRelationComponent_cases r.comp w with h2 | h2
      · simp only [h, h2, M.assert]
        split
        · exact Or.inl rfl
        · exact Or.inr ⟨_, rfl⟩
      · simp only [h, h2]; exact Or.inr ⟨_, rfl⟩
    · simp only [h]; exact Or.inr ⟨_, rfl⟩

/-- **rejection** (every path, since the repair of the `Unsafe` API): a relation list whose
    components are valid but which names a dead target is refused with `deadTarget` before
    anything is touched -/
theorem preCheck_deadTarget' (p : Path) (ids : List Comp) (w : World) :
    ∀ (rels : List RelID),
      (∀ (r : RelID), r ∈ rels →
        w.isRelComp r.comp = true ∧ (p ≠ .map1 → (Mask.ofList ids).get r.comp = true)) →
      (∃ (r : RelID), r ∈ rels ∧ r.target.isZero = false ∧ w.alive r.target = false) →
      preCheck p ids rels w = .panic .deadTarget w := by
  intro rels
  induction rels with
  | nil => rintro _ ⟨r, hr, _⟩; cases hr
  | cons r rest ih =>
    intro hv hex
    have hvr' := hv r List.mem_cons_self
    have hvr : w.isRelComp r.comp = true ∧ (p ≠ .map1 → (Mask.ofList ids).get r.comp = true) := hvr'
    by_cases hd : r.target.isZero = false ∧ w.alive r.target = false
    · cases p with
      | unsafe_ => simp [preCheck, preCheckTyped, M.forM', bind, M.bind, checkRelationTarget, hd.1, hd.2]
      | map1 => simp [preCheck, preCheckMap, M.forM', bind, M.bind, checkRelationTarget, hd.1, hd.2]
      | typed => simp [preCheck, preCheckTyped, M.forM', bind, M.bind, checkRelationTarget, hd.1, hd.2]
    · have hok : checkRelationTarget r.target w = .ok () w := by
        unfold checkRelationTarget
        cases hz : r.target.isZero with
        | true => simp
        | false =>
          cases ha : w.alive r.target with
          | true => simp
          | false => exact absurd ⟨hz, ha⟩ hd
      have hex' : ∃ (r' : RelID), r' ∈ rest ∧ r'.target.isZero = false ∧ w.alive r'.target = false := by
        obtain ⟨r', hr', h1, h2⟩ := hex
        rcases List.mem_cons.1 hr' with rfl | hm
        · exact absurd ⟨h1, h2⟩ hd
        · exact ⟨r', hm, h1, h2⟩
      have ih' := ih (fun r' hr' => hv r' (List.mem_cons_of_mem _ hr')) hex'
      cases p with
      | unsafe_ =>
        simp only [preCheck, preCheckTyped] at ih' ⊢
        simp only [M.forM', bind, M.bind, hok, checkRelationComponent, hvr.1, if_true, M.assert,
          hvr.2 (by decide)]
        exact ih'
      | map1 =>
        simp only [preCheck, preCheckMap] at ih' ⊢
        simp only [M.forM', bind, M.bind, hok, checkRelationComponent, hvr.1, if_true]
        exact ih'
      | typed =>
        simp only [preCheck, preCheckTyped] at ih' ⊢
        simp only [M.forM', bind, M.bind, hok, checkRelationComponent, hvr.1, if_true, M.assert,
          hvr.2 (by decide)]
        exact ih'

/-- `preCheck_deadTarget'` with the membership hypothesis stated for every path (it is used by
    `.typed` and `.unsafe_` only) -/
theorem preCheck_deadTarget (p : Path) (ids : List Comp) (w : World) (rels : List RelID)
    (hv : ∀ (r : RelID), r ∈ rels →
      w.isRelComp r.comp = true ∧ (Mask.ofList ids).get r.comp = true)
    (hd : ∃ (r : RelID), r ∈ rels ∧ r.target.isZero = false ∧ w.alive r.target = false) :
    preCheck p ids rels w = .panic .deadTarget w :=
  preCheck_deadTarget' p ids w rels (fun r hr => ⟨(hv r hr).1, fun _ => (hv r hr).2⟩) hd

/-- without observers, `NewEntity(ids…, rels…)` through any path is: pre-validation, table
    lookup, `placeNew`, `registerTargets`, writes -/
theorem opNewEntity_rel_eq (run : ProbeRunner) (p : Path) (ids : List Comp)
    (vals : List (Comp × Val)) (rels : List RelID) (w : World) (hl : w.isLocked = false)
    (hpre : preCheck p ids rels w = .ok () w) {t a : Nat} {m : Mask} {w1 : World}
    (hfoc : findOrCreateTableAdd 0 Mask.empty ids rels w = .ok (t, a, m) w1)
    (hno : ∀ (evt : Nat), w1.obs.hasObservers evt = false) :
    opNewEntity run p ids vals rels w =
      .ok (w1.pool.get).2
        (writeValsW (registerW (placedW w1 t false) rels) (w1.pool.get).2 vals) := by
  have hno1 : ∀ (evt : Nat), (registerW (placedW w1 t false) rels).obs.hasObservers evt = false := by
    intro evt
    show (placedW w1 t false).obs.hasObservers evt = false
    rw [placedW_obs]; exact hno evt
  have hno2 : ∀ (evt : Nat), (writeValsW (registerW (placedW w1 t false) rels)
      (w1.pool.get).2 vals).obs.hasObservers evt = false := hno1
  cases hre : rels.isEmpty <;> cases p <;>
  simp [opNewEntity, newEntityCore, hpre, bind, M.bind,
    M.get, checkLocked_unlocked w hl, hfoc, placeNew_eq, registerTargets_eq, writeVals_eq,
    fireCreateEntityIfHas_none, fireCreateEntityRelIfHas_none, hno1, hno2, hre, pure, M.pure]

end World

/-- the root table (no components) is never free -/
theorem SInvMid.root_notFree {w : World} (h : SInvMid w) : (w.tbl 0).isFree = false := by
  obtain ⟨h0, h1, _⟩ := h.root
  have hT := get_of_lt h0
  obtain ⟨A, hA, _⟩ := h.tblArch 0 _ hT
  have hm := (h.member 0 _ hT).2
  rw [h1] at hA hm
  have hnr := h.root_noRel
  rw [arch_of_get hA] at hnr hm
  have := (h.nonRelLe 0 A hA hnr).2
  cases hf : (w.tbl 0).isFree with
  | false => rfl
  | true => have := hm.1 hf; simp_all

/-- What `NewEntity(ids…, rels…)` guarantees when it is accepted (`w` before, `w'` after). -/
structure NewRelPost (w : World) (fl : List Nat) (rels : List RelID) (e : Ent) (w' : World) :
    Prop where
  /-- all invariants are kept; the free list loses its head (if any) -/
  tinv : TInv w' fl.tail
  ent : e = (w.pool.get).2
  ge2 : 2 ≤ e.id
  notin : e.id ∉ fl.tail
  alive : w'.alive e = true
  /-- (inside the pool slice; `getNew` overwrites the first cell of the memory behind it) -/
  aliveMono : ∀ (h : Ent), h.id < w.pool.ents.length → w.alive h = true → w'.alive h = true
  aliveFrame : ∀ (h : Ent), h.id ≠ e.id → w'.alive h = w.alive h
  /-- an accepted call named only zero or alive targets -/
  valid : ∀ (r : RelID), r ∈ rels → r.target.isZero = true ∨ w.alive r.target = true
  /-- the new entity's target for every assigned component is the target given -/
  targets : ∀ (r : RelID), r ∈ rels → targetOf w' e.id r.comp = some r.target
  /-- every other entity keeps components, values and targets -/
  frame : ∀ (j : Nat), j ≠ e.id → SameEnt w w' j ∧ ∀ (c : Comp), targetOf w' j c = targetOf w j c
  obs : w'.obs = w.obs
  locks : w'.locks = w.locks
  kinds : w'.kinds = w.kinds
  tablesLen : w'.tables.length ≤ w.tables.length + 1
  entitiesLen : w'.entities.length ≤ w.entities.length + 1

/-- the two halves of `opNewEntity_rel_valid` / `opNewEntity_rel_spec` in one proof: an accepted
    call named only zero or alive targets (whatever their IDs), and — if the IDs of the targets lie
    inside the pool slice — `NewRelPost` -/
theorem opNewEntity_rel_core (run : ProbeRunner) (p : Path) {w : World} {fl : List Nat}
    (h : TInv w fl) (hl : w.isLocked = false) (hno : ∀ (evt : Nat), w.obs.hasObservers evt = false)
    {ids : List Comp} {vals : List (Comp × Val)} {rels : List RelID}
    (hreg : ∀ (c : Comp), c ∈ ids → c < w.kinds.length)
    (hnd : (rels.map (·.comp)).Nodup) (hin : ∀ (r : RelID), r ∈ rels → r.comp ∈ ids)
    (hrc : ∀ (r : RelID), r ∈ rels → w.isRelComp r.comp = true)
    (hfew : w.tables.length < maxU32) (hrows : w.entities.length + 1 < 2 ^ 32)
    {e : Ent} {w' : World} (hok : opNewEntity run p ids vals rels w = .ok e w') :
    (∀ (r : RelID), r ∈ rels → r.target.isZero = true ∨ w.alive r.target = true) ∧
    ((∀ (r : RelID), r ∈ rels → r.target.id < w.pool.ents.length) → NewRelPost w fl rels e w') := by
  -- 1. the pre-validation passed
  have hpre : preCheck p ids rels w = .ok () w := by
    rcases preCheck_cases p ids rels w with h1 | ⟨k, h1⟩
    · exact h1
    · simp [opNewEntity, bind, M.bind, h1] at hok
  -- 2. the table lookup succeeded
  cases hf : findOrCreateTableAdd 0 Mask.empty ids rels w with
  | panic k s =>
    simp [opNewEntity, newEntityCore, bind, M.bind, hpre, checkLocked_unlocked w hl, hf] at hok
  | ok res w1 =>
    obtain ⟨t, a, m⟩ := res
    have hS := h.rel.sinv
    have hrel0 : (w.tbl 0).relIDs = [] :=
      hS.toSInvMid.relIDs_nil (get_of_lt hS.root.1) (by rw [hS.root.2.1]; exact hS.toSInvMid.root_noRel)
    obtain ⟨hmask, ar⟩ := h.rel.findOrCreateTableAdd h.flags h.freeEmpty
      (fun c hc => by simp at hc) hreg hS.root.1 hS.toSInvMid.root_notFree
      (fun r hr => by rw [hrel0] at hr; cases hr) hnd hin hf
    have foc := ar.foc
    have hu := ar.untouched
    have hno1 : ∀ (evt : Nat), w1.obs.hasObservers evt = false := by
      intro evt; rw [hu.obs]; exact hno evt
    have heq := opNewEntity_rel_eq run p ids vals rels w hl hpre hf hno1
    rw [heq] at hok
    injection hok with he hw
    subst he; subst hw
    -- the four worlds
    have hI1 : IdxInv w1 := foc.idx h.link.idx
    have hfew1 : w1.tables.length ≤ maxU32 := by have := ar.tablesLen; omega
    have link1 : PLink w1 fl :=
      h.link.transfer hI1 foc.pool (IdxSame.of_eq foc.entities) (by rw [hu.isTarget]) hfew1
    have hb : (w1.tbl t).len + 1 < 2 ^ 32 := by
      have := hI1.rows_le t
      rw [foc.entities] at this; omega
    have pp := link1.placed foc.tblLt false hb
    have ms2 := placedW_metaStep w1 t false
    have ms3 := registerW_metaStep (placedW w1 t false) rels
    have ms4 := writeValsW_metaStep (registerW (placedW w1 t false) rels) (w1.pool.get).2 vals
    have hal1 : ∀ (x : Ent), w1.alive x = w.alive x := fun x => by simp only [World.alive, foc.pool]
    have hal3 : ∀ (x : Ent), (registerW (placedW w1 t false) rels).alive x =
        (placedW w1 t false).alive x := fun _ => rfl
    have hal4 : ∀ (x : Ent), (writeValsW (registerW (placedW w1 t false) rels) (w1.pool.get).2
        vals).alive x = (placedW w1 t false).alive x := fun _ => rfl
    -- the column of an assigned relation in the new entity's table
    have hTt := get_of_lt foc.tblLt
    have hcolOf : ∀ (r : RelID), r ∈ rels → ∃ (i : Nat), (w1.tbl t).colIdx r.comp = some i ∧
        (w1.tbl t).isRel.getD i false = true ∧ (w1.tbl t).targets.getD i Ent.zero = r.target := by
      intro r hr
      have hc : r.comp ∈ (w1.tbl t).ids := by
        rw [foc.tblIds, Mask.mem_toList, hmask, Mask.get_ofList_foldl]
        have h1 := hreg r.comp (hin r hr)
        have h2 : r.comp < 256 := Nat.lt_of_lt_of_le h1 (Nat.le_trans h.kindsLe.1 h.kindsLe.2)
        exact ⟨h1, by simp [h2, hin r hr]⟩
      obtain ⟨i, hi⟩ := colIdx_some_iff_mem.mpr hc
      exact ⟨i, hi, ar.tgt r (List.mem_append_right _ hr) (hrc r hr) i hi⟩
    have hvalid : ∀ (r : RelID), r ∈ rels → r.target.isZero = true ∨ w.alive r.target = true := by
      intro r hr
      obtain ⟨i, _, h2, h3⟩ := hcolOf r hr
      have := ar.rel.aux.targets t _ hTt foc.tblFree i h2
      rw [h3, hal1] at this; exact this
    refine ⟨hvalid, fun htin => ?_⟩
    -- the invariants
    have rel4 : RelInv (writeValsW (registerW (placedW w1 t false) rels) (w1.pool.get).2 vals) :=
      ar.rel.of_metaStep_in
        (ar.flags.targetsIn (link1.tgtLen.trans link1.lenEq) (fun r hr => by rw [foc.pool]; exact htin r hr))
        ((ms2.trans ms3).trans ms4) (fun x hxin hx => by rw [hal4]; exact pp.aliveMono x hxin hx)
    have hflag2 : FlagsOKUpTo (placedW w1 t false) rels :=
      ar.flags.of_metaStep ms2 (placedW_flags_mono w1 t)
    have hit2 : w1.isTarget.length ≤ (placedW w1 t false).isTarget.length := by
      rw [pp.link.tgtLen, link1.tgtLen]
      have := pp.lookup
      have hE := (placedW_place w1 t false).1
      rw [hE, place_entities]
      split
      · simp
      · simp
    have hflag3 : FlagsOK (registerW (placedW w1 t false) rels) := by
      apply hflag2.register
      intro r hr hz
      rcases hvalid r hr with h1 | h1
      · rw [h1] at hz; cases hz
      · have := h.link.lt_of_in (htin r hr)
        rw [← h.link.tgtLen, ← hu.isTarget] at this
        omega
    have hflag4 : FlagsOK (writeValsW (registerW (placedW w1 t false) rels) (w1.pool.get).2 vals) :=
      hflag3.of_metaStep ms4 (fun _ hi => hi)
    have hfree2 : FreeEmpty (placedW w1 t false) :=
      ar.freeEmpty.of_set pp.tables (fun hf => by
        rw [(Table.add_sameMeta _ _).isFree, foc.tblFree] at hf; cases hf)
    have hentE : (placedW w1 t false).entities[(w1.pool.get).2.id]? = some (t, (w1.tbl t).len) := by
      rw [pp.lookup, if_pos rfl]
    have htm : t ≠ maxU32 := by have := foc.tblLt; omega
    have hix3 : (registerW (placedW w1 t false) rels).index (w1.pool.get).2.id = (t, (w1.tbl t).len) :=
      index_of_get hentE
    have hI3 : IdxInv (registerW (placedW w1 t false) rels) := pp.link.idx.congr rfl rfl
    have hI4 : IdxInv (writeValsW (registerW (placedW w1 t false) rels) (w1.pool.get).2 vals) :=
      hI3.writeVals _ vals hentE htm
    have hfree4 : FreeEmpty (writeValsW (registerW (placedW w1 t false) rels) (w1.pool.get).2 vals) := by
      have hlt3 : t < (registerW (placedW w1 t false) rels).tables.length := by
        show t < (placedW w1 t false).tables.length
        rw [ms2.len]; exact foc.tblLt
      have hrow3 : (w1.tbl t).len < ((registerW (placedW w1 t false) rels).tbl t).len := by
        obtain ⟨_, hr, _⟩ := hI3.indexed hentE htm
        exact hr
      have hwr := writeVals_writeRel ((registerW (placedW w1 t false) rels).tbl t) (w1.tbl t).len vals hrow3
      refine FreeEmpty.of_set (w := registerW (placedW w1 t false) rels) hfree2
        (t := t) (T' := _) (by simp only [writeValsW, hix3]; rfl) ?_
      intro hf
      rw [(writeFold_sameMeta _ _ _).isFree] at hf
      rw [hwr.len]
      exact hfree2 t _ (get_of_lt hlt3) hf
    have link4 : PLink (writeValsW (registerW (placedW w1 t false) rels) (w1.pool.get).2 vals)
        fl.tail :=
      pp.link.congr hI4 rfl rfl (flagFold_length rels _) (by rw [ms4.len]; rfl)
    have hE4 : (writeValsW (registerW (placedW w1 t false) rels) (w1.pool.get).2 vals).entities =
        (placedW w1 t false).entities := rfl
    have hpool : (w1.pool.get).2 = (w.pool.get).2 := by rw [foc.pool]
    -- frames
    have hframe3 : ∀ (j : Nat), SameEnt (placedW w1 t false) (registerW (placedW w1 t false) rels) j :=
      fun j => ⟨fun c => valOf_congr rfl rfl j c, compsOf_congr rfl rfl j⟩
    have hwf := write_frame hI3 (w1.pool.get).2 vals hentE htm
    refine
      { tinv := ⟨rel4, hflag4, hfree4, link4, by
          show (placedW w1 t false).kinds.length ≤ (placedW w1 t false).maxComps ∧
            (placedW w1 t false).maxComps ≤ 256
          rw [(placedW_fields w1 t false).2.2, (placedW_fields w1 t false).1, hu.maxComps, foc.kinds]
          exact h.kindsLe⟩
        ent := hpool
        ge2 := pp.ge2
        notin := pp.notin
        alive := by rw [hal4]; exact pp.alive
        aliveMono := fun x hxin hx => by
          rw [hal4]; exact pp.aliveMono x (by rw [foc.pool]; exact hxin) (by rw [hal1]; exact hx)
        aliveFrame := fun x hx => by rw [hal4, pp.aliveFrame x hx, hal1]
        valid := hvalid
        targets := ?_
        frame := ?_
        obs := by
          show (placedW w1 t false).obs = w.obs
          rw [placedW_obs, hu.obs]
        locks := by
          show (placedW w1 t false).locks = w.locks
          rw [placedW_locks, hu.locks]
        kinds := by
          show (placedW w1 t false).kinds = w.kinds
          rw [(placedW_fields w1 t false).1, foc.kinds]
        tablesLen := by
          rw [ms4.len, ms3.len, ms2.len]; exact ar.tablesLen
        entitiesLen := by
          rw [hE4, ← foc.entities]
          have hE := (placedW_place w1 t false).1
          rw [hE, place_entities]
          split
          · simp
          · simp }
    · intro r hr
      obtain ⟨i, h1, h2, h3⟩ := hcolOf r hr
      have hms := (ms2.trans ms3).trans ms4
      have hT4 := get_of_lt (show t < (writeValsW (registerW (placedW w1 t false) rels)
        (w1.pool.get).2 vals).tables.length by rw [hms.len]; exact foc.tblLt)
      rw [targetOf_of_entry (by rw [hE4]; exact hentE) htm hT4,
        Table.targetAt_sameMeta (hms.tmeta t foc.tblLt)]
      simp only [Table.targetAt, h1, Option.bind_some, h2, if_true, h3]
    · intro j hj
      obtain ⟨f1, g1⟩ := ar.frame h.link.idx h.freeEmpty j
      refine ⟨((f1.trans (pp.frame j hj)).trans (hframe3 j)).trans ⟨(hwf.1 j hj).1, (hwf.1 j hj).2⟩, ?_⟩
      intro c
      rw [← g1 c]
      have hms := (ms2.trans ms3).trans ms4
      exact hms.targetOf (by rw [hE4, pp.lookup, if_neg hj]) c

/-- **an accepted `NewEntity(ids…, rels…)` named only zero or alive targets** (no condition on
    the IDs of the targets) -/
theorem opNewEntity_rel_valid (run : ProbeRunner) (p : Path) {w : World} {fl : List Nat}
    (h : TInv w fl) (hl : w.isLocked = false) (hno : ∀ (evt : Nat), w.obs.hasObservers evt = false)
    {ids : List Comp} {vals : List (Comp × Val)} {rels : List RelID}
    (hreg : ∀ (c : Comp), c ∈ ids → c < w.kinds.length)
    (hnd : (rels.map (·.comp)).Nodup) (hin : ∀ (r : RelID), r ∈ rels → r.comp ∈ ids)
    (hrc : ∀ (r : RelID), r ∈ rels → w.isRelComp r.comp = true)
    (hfew : w.tables.length < maxU32) (hrows : w.entities.length + 1 < 2 ^ 32)
    {e : Ent} {w' : World} (hok : opNewEntity run p ids vals rels w = .ok e w') :
    ∀ (r : RelID), r ∈ rels → r.target.isZero = true ∨ w.alive r.target = true :=
  (opNewEntity_rel_core run p h hl hno hreg hnd hin hrc hfew hrows hok).1

/-- **C04, creation**: an accepted `NewEntity(ids…, rels…)` through any path — `rels` names
    relation components among `ids`, none twice, with targets whose IDs lie inside the pool slice
    (`htin`; every handle the world has issued does; see `forged_target_after_reset` in
    `Ark/Props/C05Rel.lean` for what a forged target behind the slice does after a `Reset`) — keeps all invariants, gives the new
    entity the targets named, and changes no other entity (no observers registered). -/
theorem opNewEntity_rel_spec (run : ProbeRunner) (p : Path) {w : World} {fl : List Nat}
    (h : TInv w fl) (hl : w.isLocked = false) (hno : ∀ (evt : Nat), w.obs.hasObservers evt = false)
    {ids : List Comp} {vals : List (Comp × Val)} {rels : List RelID}
    (hreg : ∀ (c : Comp), c ∈ ids → c < w.kinds.length)
    (hnd : (rels.map (·.comp)).Nodup) (hin : ∀ (r : RelID), r ∈ rels → r.comp ∈ ids)
    (hrc : ∀ (r : RelID), r ∈ rels → w.isRelComp r.comp = true)
    (htin : ∀ (r : RelID), r ∈ rels → r.target.id < w.pool.ents.length)
    (hfew : w.tables.length < maxU32) (hrows : w.entities.length + 1 < 2 ^ 32)
    {e : Ent} {w' : World} (hok : opNewEntity run p ids vals rels w = .ok e w') :
    NewRelPost w fl rels e w' :=
  (opNewEntity_rel_core run p h hl hno hreg hnd hin hrc hfew hrows hok).2 htin

end Ark
