/-
  Ark.Proofs.RelExchangeHist — `Exchange` with relation components as a step of the history
  machine, part 2: the theorems over histories of the machine `Ark.RelRefine3`
  (`Op3 = base2 (op : Op2) | xchg …`: entity operations with relations, `CopyEntity`, `Shrink`, filter
  operations, queries, AND `Exchange`).

  * `step3_inv`, `run3_inv`, `reach3_inv`, `reach3_fits` — `HInv2` after every history (`Reset` included)
    with `ops.length < 2^16`;
  * `refines3`, `alive_iff_specified3` — every entry of the specification is realised by the world;
  * `xchg_rejected`, `xchg_accepted`, `xchg_entry`, `xchg_others`, `xchg_effect` — what an `xchg`
    step does: rejected without effect when the precondition fails, accepted otherwise, and then
    the entity has exactly the entry `xchgEntry`, every other entry is unchanged;
  * `base2_step` — a `base2` step is the step of `Ark.RelRefine2`;
  * `reach3_cached_agrees`, `reach3_cacheInv` — C05 (cached = uncached) at every reachable state of
    the extended machine.
  Kernel-only proofs, core Lean only.
-/
import Ark.Proofs.RelExchangeMachine

set_option autoImplicit false

namespace Ark
namespace RelRefine3

open World Ark.Props.C01World QueryRel QueryExact RelRefine RelRefine2
open Refine (Comps keys sortedIds writeComps zeros)

def Op3.isReset : Op3 → Bool
  | .base2 op => op.isReset
  | .xchg _ _ _ _ _ _ => false

/-- **one step keeps the invariant** (every operation, `Reset` included) -/
theorem step3_inv (run : ProbeRunner) {s : St} {fl : List Nat} (H : HInv2 s fl)
    (hfew : s.w.tables.length + s.w.relationArchetypes.length + 1 ≤ maxU32)
    (hent : 2 * s.w.entities.length < 2 ^ 32) (op : Op3) :
    (∃ fl', HInv2 (step3 run s op) fl') ∧ Grows s (step3 run s op) := by
  cases op with
  | base2 op => exact step2_inv run H hfew hent op
  | xchg p e add vals rem rels =>
    obtain ⟨h1, h2, _, _⟩ := step3_xchg run H (by omega) (by omega) p e add vals rem rels
    exact ⟨h1, h2⟩

/-- the invariant holds after every history that stays within the size bounds -/
theorem run3_inv (run : ProbeRunner) (ops : List Op3) : ∀ (s : St) (fl : List Nat), HInv2 s fl →
    s.w.tables.length + ops.length * (s.w.relationArchetypes.length + ops.length) +
      s.w.relationArchetypes.length + ops.length + 1 ≤ maxU32 →
    2 * (s.w.entities.length + ops.length) < 2 ^ 32 →
    ∃ fl', HInv2 (runOps3 run s ops) fl' ∧
      (runOps3 run s ops).w.tables.length ≤
        s.w.tables.length + ops.length * (s.w.relationArchetypes.length + ops.length) ∧
      (runOps3 run s ops).w.relationArchetypes.length ≤ s.w.relationArchetypes.length + ops.length ∧
      (runOps3 run s ops).w.entities.length ≤ s.w.entities.length + ops.length := by
  induction ops with
  | nil =>
    intro s fl h _ _
    exact ⟨fl, h, by simp [runOps3], by simp [runOps3], by simp [runOps3]⟩
  | cons op ops ih =>
    intro s fl h hb1 hb2
    simp only [List.length_cons] at hb1 hb2 ⊢
    have e1 : (ops.length + 1) * (s.w.relationArchetypes.length + (ops.length + 1)) =
        ops.length * (s.w.relationArchetypes.length + 1 + ops.length) +
          (s.w.relationArchetypes.length + 1 + ops.length) := by
      rw [Nat.succ_mul]
      have : s.w.relationArchetypes.length + (ops.length + 1) =
          s.w.relationArchetypes.length + 1 + ops.length := by omega
      rw [this]
    rw [e1] at hb1 ⊢
    obtain ⟨⟨fl1, h1⟩, g⟩ := step3_inv run h (by omega) (by omega) op
    obtain ⟨g1, g2, g3⟩ := g
    have hm : ops.length * ((step3 run s op).w.relationArchetypes.length + ops.length) ≤
        ops.length * (s.w.relationArchetypes.length + 1 + ops.length) :=
      Nat.mul_le_mul_left _ (by omega)
    obtain ⟨fl2, h2, b1, b2, b3⟩ := ih _ fl1 h1 (by omega) (by omega)
    refine ⟨fl2, h2, ?_, ?_, ?_⟩
    · show (runOps3 run (step3 run s op) ops).w.tables.length ≤ _; omega
    · show (runOps3 run (step3 run s op) ops).w.relationArchetypes.length ≤ _; omega
    · show (runOps3 run (step3 run s op) ops).w.entities.length ≤ _; omega

/-- **the invariant holds at every reachable state** (the bound of
    `RelRefine.reach_hinv`) -/
theorem reach3_inv (run : ProbeRunner) (cap rel : Nat) (ops : List Op3)
    (hlen : ops.length < 2 ^ 16) :
    ∃ fl, HInv2 (reach3 run cap rel ops) fl := by
  have hsq : ops.length * ops.length ≤ 65535 * 65535 := Nat.mul_le_mul (by omega) (by omega)
  obtain ⟨fl, h, _⟩ := run3_inv run ops _ [] (hinv2_init cap rel)
    (by
      show 1 + ops.length * (0 + ops.length) + 0 + ops.length + 1 ≤ maxU32
      rw [Nat.zero_add]; simp only [maxU32]; omega)
    (by show 2 * (2 + ops.length) < 2 ^ 32; omega)
  exact ⟨fl, h⟩

/-- the size hypotheses of the step lemmas hold in every reachable state (one more operation
    fits) -/
theorem reach3_fits (run : ProbeRunner) (cap rel : Nat) (ops : List Op3)
    (hlen : ops.length + 1 < 2 ^ 16) :
    (reach3 run cap rel ops).w.tables.length + (reach3 run cap rel ops).w.relationArchetypes.length +
      1 ≤ maxU32 ∧ 2 * (reach3 run cap rel ops).w.entities.length < 2 ^ 32 := by
  have hsq : ops.length * ops.length ≤ 65535 * 65535 := Nat.mul_le_mul (by omega) (by omega)
  obtain ⟨fl, _, b1, b2, b3⟩ := run3_inv run ops _ [] (hinv2_init cap rel)
    (by
      show 1 + ops.length * (0 + ops.length) + 0 + ops.length + 1 ≤ maxU32
      rw [Nat.zero_add]; simp only [maxU32]; omega)
    (by show 2 * (2 + ops.length) < 2 ^ 32; omega)
  have b1' : (reach3 run cap rel ops).w.tables.length ≤ 1 + ops.length * (0 + ops.length) := b1
  have b2' : (reach3 run cap rel ops).w.relationArchetypes.length ≤ 0 + ops.length := b2
  have b3' : (reach3 run cap rel ops).w.entities.length ≤ 2 + ops.length := b3
  rw [Nat.zero_add] at b1' b2'
  simp only [maxU32]
  omega

variable (run : ProbeRunner) (cap rel : Nat)

/-- a `base2` step is the step of `Ark.RelRefine2` -/
theorem base2_step (ops : List Op3) (op : Op2) :
    reach3 run cap rel (ops ++ [.base2 op]) = step2 run (reach3 run cap rel ops) op := by
  rw [reach3_snoc]; rfl

/-- a history without `xchg` is a history of `Ark.RelRefine2` -/
theorem reach3_base2 (ops : List Op2) :
    reach3 run cap rel (ops.map .base2) = reach2 run cap rel ops := by
  simp only [reach3, reach2, runOps3, runOps2, List.foldl_map]
  rfl

/-- **refines** — after every history of the machine with `Exchange` (and `Reset`), for every entry
    `(e, en)` of the specification: `e` is alive, its component set is the sorted list of the keys
    of `en.comps`, every component holds the recorded value, every relation component has the
    recorded target, and the recorded relations are exactly the relation components among the
    keys -/
theorem refines3 (ops : List Op3) (hlen : ops.length < 2 ^ 16)
    (e : Ent) (en : Entry)
    (hm : (e, en) ∈ (reach3 run cap rel ops).ss.ents) :
    (reach3 run cap rel ops).w.alive e = true ∧
    compsOf (reach3 run cap rel ops).w e.id =
      some (sortedIds (reach3 run cap rel ops).w.kinds.length (keys en.comps)) ∧
    (∀ cv ∈ en.comps, valOf (reach3 run cap rel ops).w e.id cv.1 = some cv.2) ∧
    (∀ r ∈ en.rels, targetOf (reach3 run cap rel ops).w e.id r.comp = some r.target) ∧
    (keys en.comps).Nodup ∧ (en.rels.map (·.comp)).Nodup ∧
    (∀ c : Comp, c ∈ en.rels.map (·.comp) ↔
      c ∈ keys en.comps ∧ (reach3 run cap rel ops).w.isRelComp c = true) := by
  obtain ⟨fl, H⟩ := reach3_inv run cap rel ops hlen
  obtain ⟨_, ha, _⟩ := H.base.live_facts hm
  have ok := H.base.ok e en hm
  exact ⟨ha, ok.comps, ok.vals, ok.tgts, ok.nodup, ok.relNodup,
    fun c => by rw [ok.relKeys c, H.base.rget]⟩

/-- a handle the client holds is alive iff the specification has an entry for it -/
theorem alive_iff_specified3 (ops : List Op3) (hlen : ops.length < 2 ^ 16)
    (h : Ent)
    (hi : h ∈ (reach3 run cap rel ops).issued) :
    (reach3 run cap rel ops).w.alive h = true ↔
      (find (reach3 run cap rel ops).ss.ents h).isSome = true := by
  obtain ⟨fl, H⟩ := reach3_inv run cap rel ops hlen
  constructor
  · intro ha
    obtain ⟨en, hf, _⟩ := H.base.find_of_alive hi ha
    rw [hf]; rfl
  · exact H.base.alive_of_find

/-- the joint invariant `TInv` of the C04 theorems holds at every reachable state -/
theorem reach3_tinv (ops : List Op3) (hlen : ops.length < 2 ^ 16)
    : ∃ fl, TInv (reach3 run cap rel ops).w fl := by
  obtain ⟨fl, H⟩ := reach3_inv run cap rel ops hlen
  exact ⟨fl, H.base.tinv⟩

/-! ## what an `xchg` step does -/

/-- **rejected** — an `xchg` step (`guardXchg`) whose precondition (`preXchg`, a statement about
    the specification only) fails: the model panics with the world unchanged, and the whole machine
    state is unchanged.  This includes a dead handle, both lists empty, a component to remove that
    the entity lacks, a component to add that it has, a component named twice, and a dead target
    named through any path (`Unsafe.Exchange` too, since the repair of its relation validation). -/
theorem xchg_rejected (ops : List Op3) (hlen : ops.length + 1 < 2 ^ 16)
    (p : Path) (e : Ent) (add : List Comp) (vals : Comps)
    (rem : List Comp) (rels : Rels)
    (hg : guardXchg (reach3 run cap rel ops) p e add rels = true)
    (hnp : ¬ preXchg (reach3 run cap rel ops).ss e add rem rels) :
    (∃ k, opExchange run p e add vals rem rels (reach3 run cap rel ops).w =
      .panic k (reach3 run cap rel ops).w) ∧
    reach3 run cap rel (ops ++ [.xchg p e add vals rem rels]) = reach3 run cap rel ops := by
  obtain ⟨fl, H⟩ := reach3_inv run cap rel ops (by omega)
  obtain ⟨hfew, hent⟩ := reach3_fits run cap rel ops hlen
  obtain ⟨_, _, hrej, _⟩ := step3_xchg run H (by omega) (by omega) p e add vals rem rels
  obtain ⟨k, hk⟩ := hrej hg hnp
  refine ⟨⟨k, hk⟩, ?_⟩
  rw [reach3_snoc]
  simp only [step3, if_pos hg, hk, Res.state, specXchg_of_not_pre _ _ _ _ _ _ hnp]

/-- **accepted** — an `xchg` step whose precondition holds succeeds, through any access path -/
theorem xchg_accepted (ops : List Op3) (hlen : ops.length + 1 < 2 ^ 16)
    (p : Path) (e : Ent) (add : List Comp) (vals : Comps)
    (rem : List Comp) (rels : Rels)
    (hg : guardXchg (reach3 run cap rel ops) p e add rels = true)
    (hp : preXchg (reach3 run cap rel ops).ss e add rem rels) :
    ∃ w', opExchange run p e add vals rem rels (reach3 run cap rel ops).w = .ok () w' := by
  obtain ⟨fl, H⟩ := reach3_inv run cap rel ops (by omega)
  obtain ⟨hfew, hent⟩ := reach3_fits run cap rel ops hlen
  obtain ⟨_, _, _, hacc⟩ := step3_xchg run H (by omega) (by omega) p e add vals rem rels
  exact hacc hg hp

/-- the entry of `e` after an accepted `xchg` step is `xchgEntry` of its entry before; the handles
    issued do not change -/
theorem xchg_entry (ops : List Op3) (p : Path) (e : Ent) (add : List Comp) (vals : Comps)
    (rem : List Comp) (rels : Rels) {en : Entry}
    (hg : guardXchg (reach3 run cap rel ops) p e add rels = true)
    (hf : find (reach3 run cap rel ops).ss.ents e = some en)
    (hok : XchgOK (reach3 run cap rel ops).ss en add rem rels) :
    find (reach3 run cap rel (ops ++ [.xchg p e add vals rem rels])).ss.ents e =
      some (xchgEntry (reach3 run cap rel ops).ss.zst add vals rem rels en) ∧
    (reach3 run cap rel (ops ++ [.xchg p e add vals rem rels])).issued =
      (reach3 run cap rel ops).issued := by
  rw [reach3_snoc]
  simp only [step3, if_pos hg, specXchg, hf, if_pos hok]
  exact ⟨find_upd_self _ hf, trivial⟩

/-- **frame**: an `xchg` step on `e` never changes the entry of another entity -/
theorem xchg_others (ops : List Op3) (p : Path) (e : Ent) (add : List Comp) (vals : Comps)
    (rem : List Comp) (rels : Rels) {x : Ent} (hx : x ≠ e) :
    find (reach3 run cap rel (ops ++ [.xchg p e add vals rem rels])).ss.ents x =
      find (reach3 run cap rel ops).ss.ents x := by
  rw [reach3_snoc]
  simp only [step3]
  split
  · simp only [specXchg]
    cases hf : find (reach3 run cap rel ops).ss.ents e with
    | none => rfl
    | some en =>
      simp only
      split
      · exact find_upd_ne _ _ hx
      · rfl
  · rfl

/-- **the effect of an accepted `Exchange`, over histories**: after a history `ops`,
    an `xchg` step whose precondition holds on the entry `en` of `e`: afterwards `e` is alive, has
    exactly the components `(keys en.comps \ rem) ∪ add`; every component holds the value of
    `xchgEntry` (kept: the old value overwritten by the last write; added: the last write, zero if
    none); every relation component has the target of `xchgEntry` (kept: the old target; added: the
    target given) -/
theorem xchg_effect (ops : List Op3) (hlen : ops.length + 1 < 2 ^ 16)
    (p : Path) (e : Ent) (add : List Comp) (vals : Comps)
    (rem : List Comp) (rels : Rels) {en : Entry}
    (hg : guardXchg (reach3 run cap rel ops) p e add rels = true)
    (hf : find (reach3 run cap rel ops).ss.ents e = some en)
    (hok : XchgOK (reach3 run cap rel ops).ss en add rem rels) :
    let s' := reach3 run cap rel (ops ++ [.xchg p e add vals rem rels])
    let en' := xchgEntry (reach3 run cap rel ops).ss.zst add vals rem rels en
    s'.w.alive e = true ∧
    compsOf s'.w e.id = some (sortedIds s'.w.kinds.length
      (((keys en.comps).filter fun c => decide (c ∉ rem)) ++ add)) ∧
    (∀ cv ∈ en'.comps, valOf s'.w e.id cv.1 = some cv.2) ∧
    (∀ r ∈ en'.rels, targetOf s'.w e.id r.comp = some r.target) := by
  intro s' en'
  have hent := (xchg_entry run cap rel ops p e add vals rem rels hg hf hok).1
  have hm := find_some_mem hent
  have hlen' : (ops ++ [Op3.xchg p e add vals rem rels]).length < 2 ^ 16 := by
    rw [List.length_append, List.length_singleton]; exact hlen
  obtain ⟨h1, h2, h3, h4, _⟩ := refines3 run cap rel _ hlen' e _ hm
  refine ⟨h1, ?_, h3, h4⟩
  rw [h2]
  have hk : keys en'.comps = ((keys en.comps).filter fun c => decide (c ∉ rem)) ++ add := by
    show keys (writeComps (reach3 run cap rel ops).ss.zst vals
      ((en.comps.filter fun cv => decide (cv.1 ∉ rem)) ++ zeros add)) = _
    rw [Refine.keys_writeComps, Refine.keys_append, Refine.keys_zeros, keys_filter_eq]
  rw [hk]

/-! ## C05 at every reachable state of the extended machine -/

/-- **C05 with relations and `Exchange`** — the headline of `Ark.RelRefine2` at every state
    reachable by a history that may contain `Exchange` and `Reset`: for every registered filter
    object and any admissible per-call relations the cached table list has the members of the
    uncached walk, and the cached and the uncached iteration visit the same entities -/
theorem reach3_cached_agrees (ops : List Op3)
    (hlen : ops.length < 2 ^ 16)
    {f : Nat} {fo : FilterObj} {id : Nat}
    (hfind : AL.find? (reach3 run cap rel ops).w.filters f = some fo) (hc : fo.cache = some id)
    {extra : List RelID} (hx : ExtraAdmissible (reach3 run cap rel ops).w fo extra) :
    ∃ (ce : CacheEntry), (reach3 run cap rel ops).w.cacheEntry? id = some ce ∧
      ce.filter = fo.filter ∧ ce.rels = fo.rels ∧
      (∃ (ts : List Nat), (reach3 run cap rel ops).w.getCacheTables fo.filter fo.rels = some ts ∧
        ts.Nodup ∧ ce.tables.tables.Nodup ∧ ∀ (t : Nat), t ∈ ce.tables.tables ↔ t ∈ ts) ∧
      ∃ (l1 l2 : Lock) (q qu : QueryObj) (visits visitsU : List Visit),
        drain fo extra (reach3 run cap rel ops).w =
          .ok visits ((reach3 run cap rel ops).w.withLocks l2) ∧
        drain { fo with cache := none } extra (reach3 run cap rel ops).w =
          .ok visitsU ((reach3 run cap rel ops).w.withLocks l2) ∧
        Observed (reach3 run cap rel ops).w fo extra ((reach3 run cap rel ops).w.withLocks l1) q
          visits ∧
        Observed (reach3 run cap rel ops).w { fo with cache := none } extra
          ((reach3 run cap rel ops).w.withLocks l1) qu visitsU ∧
        (visits.map (·.e)).Perm (visitsU.map (·.e)) := by
  obtain ⟨fl, H⟩ := reach3_inv run cap rel ops hlen
  exact H.cached_agrees hfind hc hx

theorem reach3_cacheInv (ops : List Op3)
    (hlen : ops.length < 2 ^ 16) :
    CacheInv (reach3 run cap rel ops).w := by
  obtain ⟨fl, H⟩ := reach3_inv run cap rel ops hlen
  exact H.cacheInv

end RelRefine3
end Ark
