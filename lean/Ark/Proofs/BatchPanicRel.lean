/-
  Ark.Proofs.BatchPanicRel — C07 + C10 for the batch operations, part 2: **a rejected
  `SetRelationsBatch` leaves the lock state as it was and changes no entity** (worlds with
  relations: the invariant `TInv`).

  Since the repair of defect D27 `setRelationsBatch` takes the world lock only AFTER the lookup
  loop (`prepLoop`: `prepareRelationsMove` — `getExchangeTargets`, `getTable`, `createTable` — for
  every non-empty selected table), immediately before the first callback round.

  * `getExchangeTargets_ok_inv` — when `getExchangeTargets` returns, every relation named a relation
    column of the table and no component was named twice (the converse of
    `getExchangeTargets_spec`);
  * `relGet_panic_state` — `getOrCreate` on the relation list read off edited targets of a
    non-free table: when it panics (a target that is neither zero nor alive, …) the world is
    unchanged;
  * `PrepKeep rels w0 w1` — what the lookup loop keeps, WHATEVER the arguments: the structural
    invariants (`RelInv`, `IdxInv`, `FreeEmpty`; the flag invariant up to the targets of `rels`:
    a table created for a later move holds targets that `registerTargets` has not flagged yet),
    entity index, pool, flags, lock, observers; every non-free table of the start world; every
    entity reads the same components, values and relation targets;
  * `prepStep_any`, `prepLoop_any` — one iteration / the loop, whatever the outcome;
  * `setRelationsBatch_panic_frame`, `opSetRelationsBatch_panic_unlocked` — on an unlocked world
    satisfying `TInv`, without observers, for an uncached filter, with or without callback: if the
    call panics the world is NOT locked, the lock state is the one before the call, every entity
    has the components, values and targets it had, every handle is as alive as it was.

  **Finding** (`FlagsOKUpTo`, not `FlagsOK`): the tables the lookup loop created before it failed
  remain, and the targets they hold have not been flagged (`registerTargets` runs after the loop —
  in the Go code as in the model), so the full invariant `TInv` (its field `flags`) need NOT hold
  after a rejected batch; see the example in Ark/Props/C07Batch.lean.  Before the repair of D27
  the same world was reached, but locked for ever.

  Kernel-only proofs, core Lean only.
-/
import Ark.Proofs.BatchRelSetSpec

set_option autoImplicit false

namespace Ark

open World Ark.Props.C01World QueryRel

namespace World

/-! ## 1. `getExchangeTargets`: success means the relations were well-formed for the table -/

theorem getExchangeTargets_go_ok_inv (T : Table) (w : World) : ∀ (rels : List RelID)
    (ts : List Ent) (ch : Bool) (cm : Mask) (seen : List Comp) {x : List Ent × Bool × Mask}
    {w' : World}, getExchangeTargets.go T w ts ch cm seen rels = .ok x w' →
    (∀ (r : RelID), r ∈ rels → ∃ (i : Nat), T.colIdx r.comp = some i ∧
      T.isRel.getD i false = true) ∧
    (rels.map (·.comp)).Nodup ∧ ∀ (r : RelID), r ∈ rels → r.comp ∉ seen
  | [], _, _, _, _, _, _, _ =>
    ⟨fun _ h => absurd h List.not_mem_nil, List.nodup_nil, fun _ h => absurd h List.not_mem_nil⟩
  | r :: rest, ts, ch, cm, seen, x, w', h => by
    simp only [getExchangeTargets.go] at h
    cases hs : seen.contains r.comp with
    | true => rw [hs] at h; simp only [if_true] at h; cases h
    | false =>
      rw [hs] at h
      simp only [Bool.false_eq_true, if_false] at h
      have hns : r.comp ∉ seen := fun hm => by
        rw [List.contains_iff_mem.2 hm] at hs; cases hs
      cases hc : T.colIdx r.comp with
      | none => rw [hc] at h; cases h
      | some i =>
        rw [hc] at h
        simp only at h
        cases hr : T.isRel.getD i false with
        | false => rw [hr] at h; simp only [Bool.not_false, if_true] at h; cases h
        | true =>
          rw [hr] at h
          simp only [Bool.not_true, Bool.false_eq_true, if_false] at h
          have key : ∀ {ts' : List Ent} {ch' : Bool} {cm' : Mask},
              getExchangeTargets.go T w ts' ch' cm' (r.comp :: seen) rest = .ok x w' →
              (∀ (r' : RelID), r' ∈ r :: rest → ∃ (i : Nat), T.colIdx r'.comp = some i ∧
                T.isRel.getD i false = true) ∧
              ((r :: rest).map (·.comp)).Nodup ∧ ∀ (r' : RelID), r' ∈ r :: rest → r'.comp ∉ seen := by
            intro ts' ch' cm' h'
            obtain ⟨a, b, c⟩ := getExchangeTargets_go_ok_inv T w rest ts' ch' cm' (r.comp :: seen) h'
            refine ⟨?_, ?_, ?_⟩
            · intro r' hr'
              rcases List.mem_cons.1 hr' with rfl | hm
              · exact ⟨i, hc, hr⟩
              · exact a r' hm
            · rw [List.map_cons, List.nodup_cons]
              refine ⟨?_, b⟩
              intro hm
              obtain ⟨r', hr', he⟩ := List.mem_map.1 hm
              exact c r' hr' (by rw [he]; exact List.mem_cons_self)
            · intro r' hr'
              rcases List.mem_cons.1 hr' with rfl | hm
              · exact hns
              · exact fun hin => c r' hm (List.mem_cons_of_mem _ hin)
          split at h
          · exact key h
          · exact key h

/-- **when `getExchangeTargets` returns**, every relation names a relation column of the table and
    no component is named twice -/
theorem getExchangeTargets_ok_inv {T : Table} {rels : List RelID} {w w' : World}
    {x : List RelID × Bool × Mask} (h : getExchangeTargets T rels w = .ok x w') :
    (∀ (r : RelID), r ∈ rels → ∃ (i : Nat), T.colIdx r.comp = some i ∧
      T.isRel.getD i false = true) ∧ (rels.map (·.comp)).Nodup := by
  unfold getExchangeTargets at h
  cases hg : getExchangeTargets.go T w T.targets false Mask.empty [] rels with
  | panic k s => rw [hg] at h; cases h
  | ok y s =>
    obtain ⟨a, b, _⟩ := getExchangeTargets_go_ok_inv T w rels T.targets false Mask.empty [] hg
    exact ⟨a, b⟩

end World

/-! ## 2. `getOrCreate` for edited targets: a panic leaves the world unchanged -/

/-- **`getOrCreate` on the relation list read off edited targets `ts'`** of the table `tid`
    (archetype `a`, with relation columns): when it panics, the world is unchanged — the lookup
    `getTable` never changes the world, and `createTable` fails only in its argument checks (here:
    a target that is neither zero nor alive), before it touches the storage -/
theorem relGet_panic_state {w w1 : World} {a tid : Nat} {ts' : List Ent} {k : PanicKind}
    (hR : RelInv w) (hlt : tid < w.tables.length) (hTa : (w.tbl tid).arch = a)
    (hrelA : (w.arch a).hasRelations = true) (hl : ts'.length = (w.tbl tid).ids.length)
    (hp : getOrCreate a (colRels (w.tbl tid).ids ts' (w.tbl tid).isRel) w = .panic k w1) :
    w1 = w := by
  have hS := hR.sinv.toSInvMid
  have hT := get_of_lt hlt
  obtain ⟨A, hA, i1, i2, i3, _⟩ := hS.tblArch tid _ hT
  rw [hTa] at hA
  have hAe : w.arch a = A := arch_of_get hA
  have halt := alt_of_get hA
  have hnd := hS.ids_nodup hT
  have hrl := hS.isRel_len hT
  obtain ⟨f1, f2, f3, f4⟩ := colRels_facts (ts := ts') hnd hl hrl
  have hnum : A.numRel = (colRels (w.tbl tid).ids ts' (w.tbl tid).isRel).length := by
    rw [f2, (hS.astruct a A hA).numRelEq, i2]
  generalize hL : colRels (w.tbl tid).ids ts' (w.tbl tid).isRel = L at hp f1 f3 hnum
  have hst := getTable_state a L w
  simp only [getOrCreate, bind, M.bind] at hp
  cases hg : getTable a L w with
  | panic k1 s =>
    rw [hg] at hp hst
    simp only [Res.state] at hst
    injection hp with _ hw
    rw [← hw, hst]
  | ok r s =>
    rw [hg] at hp hst
    simp only [Res.state] at hst
    subst hst
    cases r with
    | some t => simp only [pure, M.pure] at hp; cases hp
    | none =>
      simp only at hp
      have hcols : ∀ (r : RelID), r ∈ L → ((s.arch a).colIdx r.comp).isSome = true := by
        intro r hr
        obtain ⟨i, a1, _, _⟩ := f3 r hr
        rw [hAe, ← colIdx_fun_eq i1, Table.colIdx_of_get hnd a1]; rfl
      have hlenA : (s.arch a).numRel ≤ L.length := by rw [hAe, hnum]; exact Nat.le_refl _
      by_cases hv : RelsValid s L
      · obtain ⟨nt, w2, hct, _⟩ := hS.createTable_total hR.aux.cacheRels halt
          (fun hf => by rw [hrelA] at hf; cases hf) hlenA hcols f1 hv
        rw [hct] at hp
        cases hp
      · rw [createTable_eq] at hp
        split at hp
        · injection hp with _ hw; exact hw.symm
        · split at hp
          · injection hp with _ hw; exact hw.symm
          · injection hp with _ hw; exact hw.symm

/-! ## 3. the lookup loop of `setRelationsBatch`, whatever its outcome -/

/-- what the lookup loop of `setRelationsBatch` keeps, whatever the arguments: `w0` = the world
    the loop started in, `w1` = the current world -/
structure PrepKeep (rels : List RelID) (w0 w1 : World) : Prop where
  rel : RelInv w1
  idx : IdxInv w1
  flags : FlagsOKUpTo w1 rels
  freeEmpty : FreeEmpty w1
  qk : QKeep w0 w1
  entities : w1.entities = w0.entities
  pool : w1.pool = w0.pool
  isTarget : w1.isTarget = w0.isTarget
  kinds : w1.kinds = w0.kinds
  obs : w1.obs = w0.obs
  locks : w1.locks = w0.locks
  log : w1.log = w0.log
  maxComps : w1.maxComps = w0.maxComps
  /-- the non-free tables of the start world are untouched -/
  keepT : ∀ (t : Nat), t < w0.tables.length → (w0.tbl t).isFree = false →
    w1.tables[t]? = w0.tables[t]?
  tablesLe : w0.tables.length ≤ w1.tables.length
  frame : ∀ (j : Nat), SameEnt w0 w1 j ∧ ∀ (c : Comp), targetOf w1 j c = targetOf w0 j c

theorem PrepKeep.init {w : World} {fl : List Nat} (h : TInv w fl) (rels : List RelID) :
    PrepKeep rels w w :=
  { rel := h.rel, idx := h.link.idx, flags := h.flags.upTo rels, freeEmpty := h.freeEmpty
    qk := QKeep.refl _, entities := rfl, pool := rfl, isTarget := rfl, kinds := rfl, obs := rfl
    locks := rfl, log := rfl, maxComps := rfl, keepT := fun _ _ _ => rfl, tablesLe := Nat.le_refl _
    frame := fun _ => ⟨⟨fun _ => rfl, rfl⟩, fun _ => rfl⟩ }

theorem getOrCreate_log {a : Nat} {rels : List RelID} {w w1 : World} {nt : Nat}
    (h : getOrCreate a rels w = .ok nt w1) : w1.log = w.log := by
  have := ((frames_getOrCreate a rels).state_frame w).2.1
  rw [h] at this
  exact this

/-- **one iteration of the lookup loop, whatever the arguments**: `prepareRelationsMove` on a
    non-empty table either returns and keeps `PrepKeep`, or panics with the world unchanged -/
theorem prepStep_any {rels : List RelID} {w0 w1 : World} (hI : PrepKeep rels w0 w1) {t : Nat}
    (hrows : (w1.tbl t).len ≠ 0) (n : Nat) :
    (∃ (o : Option RelMove) (w2 : World),
      prepareRelationsMove t n rels w1 = .ok o w2 ∧ PrepKeep rels w0 w2) ∨
    (∃ (k : PanicKind), prepareRelationsMove t n rels w1 = .panic k w1) := by
  have hS := hI.rel.sinv.toSInvMid
  have hlt1 : t < w1.tables.length := tbl_len_pos_lt (r := 0) (by omega)
  have hT1 := get_of_lt hlt1
  have hTf1 : (w1.tbl t).isFree = false := by
    cases hf : (w1.tbl t).isFree with
    | false => rfl
    | true => exact absurd (hI.freeEmpty t _ hT1 hf) hrows
  have hTex := hI.rel.aux.rels t _ hT1 hTf1
  rw [prepareRelationsMove_eq]
  have hst := getExchangeTargets_state (w1.tbl t) rels w1
  cases hx : getExchangeTargets (w1.tbl t) rels w1 with
  | panic k s =>
    rw [hx] at hst
    simp only [Res.state] at hst
    subst hst
    exact Or.inr ⟨k, rfl⟩
  | ok y s =>
    rw [hx] at hst
    simp only [Res.state] at hst
    subst hst
    obtain ⟨hcols1, hnd⟩ := getExchangeTargets_ok_inv hx
    obtain ⟨ch, cm, hx', hfalse, htrue⟩ := getExchangeTargets_spec (s.tbl t) rels s hcols1 hnd
    rw [hx'] at hx
    injection hx with hy _
    subst hy
    cases ch with
    | false => exact Or.inl ⟨none, s, by simp, hI⟩
    | true =>
      simp only [if_true]
      obtain ⟨r1, hr1, i1, hi1, hne1⟩ := htrue rfl
      have hi1r : (s.tbl t).isRel.getD i1 false = true := by
        obtain ⟨i, hi, hir⟩ := hcols1 r1 hr1
        rw [hi1] at hi
        obtain rfl := Option.some.inj hi
        exact hir
      have hrelA : (s.arch (s.tbl t).arch).hasRelations = true := by
        obtain ⟨A, hA, _, e2, _⟩ := hS.tblArch t _ hT1
        rw [arch_of_get hA]
        exact (hS.astruct _ A hA).hasRelations_of_rel (by rw [← e2]; exact hi1r)
      have hlen' : (setTargets (s.tbl t).colIdx rels (s.tbl t).targets).length =
          (s.tbl t).ids.length := by rw [setTargets_length, hTex.tlen]
      have hts1 : ∀ (r : RelID), r ∈ rels → ∀ (i : Nat), (s.tbl t).colIdx r.comp = some i →
          (setTargets (s.tbl t).colIdx rels (s.tbl t).targets).getD i Ent.zero = r.target :=
        fun r hr i hi => editT_named hTex.tlen hnd hr hi
      cases hgo : getOrCreate (s.tbl t).arch
          (colRels (s.tbl t).ids (setTargets (s.tbl t).colIdx rels (s.tbl t).targets)
            (s.tbl t).isRel) s with
      | panic k w2 =>
        have := relGet_panic_state hI.rel hlt1 rfl hrelA hlen' hgo
        subst this
        exact Or.inr ⟨k, rfl⟩
      | ok nt w2 =>
        left
        obtain ⟨rel2, hI2, hF2, hE2, cg, _⟩ := relGet_of_ok (rels0 := rels) hI.rel hI.idx hI.flags
          hI.freeEmpty hlt1 rfl hTf1 hrelA hlen'
          ⟨i1, hi1r, by rw [hts1 r1 hr1 i1 hi1]; exact hne1⟩
          (by
            intro i hi hz
            rcases setTargets_getD_cases (s.tbl t).colIdx i Ent.zero rels (s.tbl t).targets
              with k | ⟨r, hr, k⟩
            · rw [k] at hz ⊢
              rcases hI.flags t _ hT1 hTf1 i hi hz with h1 | h1
              · exact Or.inl h1
              · exact Or.inr h1
            · exact Or.inr ⟨r, hr, k.symm⟩) hgo
        refine ⟨some ⟨t, nt, n, 0, cm⟩, w2, rfl, ?_⟩
        have hkeep12 : ∀ (t0 : Nat), t0 < s.tables.length → (s.tbl t0).isFree = false →
            w2.tables[t0]? = s.tables[t0]? := by
          intro t0 h1 h2
          by_cases e : t0 = nt
          · subst e
            rcases cg.ntKeep h1 with k | k
            · exact k
            · rw [h2] at k; cases k
          · exact cg.others t0 e
        have hf1 : ∀ (j : Nat), SameEnt s w2 j ∧ ∀ (c : Comp), targetOf w2 j c = targetOf s j c := by
          apply frame_of_rows hI.idx cg.entities
          intro t0 Tt hTt hpos
          by_cases e0 : t0 = nt
          · subst e0
            rcases cg.ntKeep (lt_of_get hTt) with k | k
            · exact ⟨Tt, by rw [k]; exact hTt, rfl, rfl, rfl, rfl⟩
            · have := hI.freeEmpty t0 Tt hTt (by rw [← tbl_of_get hTt]; exact k)
              omega
          · exact ⟨Tt, by rw [cg.others t0 e0]; exact hTt, rfl, rfl, rfl, rfl⟩
        exact
          { rel := rel2, idx := hI2, flags := hF2, freeEmpty := hE2
            qk := hI.qk.trans (getOrCreate_qkeep hgo)
            entities := cg.entities.trans hI.entities
            pool := cg.pool.trans hI.pool
            isTarget := cg.isTarget.trans hI.isTarget
            kinds := cg.kinds.trans hI.kinds
            obs := cg.obs.trans hI.obs
            locks := cg.locks.trans hI.locks
            log := (getOrCreate_log hgo).trans hI.log
            maxComps := cg.maxComps.trans hI.maxComps
            keepT := by
              intro t0 h1 h2
              have k1 := hI.keepT t0 h1 h2
              rw [← k1]
              exact hkeep12 t0 (Nat.lt_of_lt_of_le h1 hI.tablesLe) (by rw [tbl_eq_of_get k1]; exact h2)
            tablesLe := Nat.le_trans hI.tablesLe cg.tablesLe
            frame := fun j => ⟨(hI.frame j).1.trans (hf1 j).1, fun c => by
              rw [(hf1 j).2 c, (hI.frame j).2 c]⟩ }

/-- **the lookup loop, whatever its outcome**: the state it ends in — after the last table, or
    where `prepareRelationsMove` failed — satisfies `PrepKeep` -/
theorem prepLoop_any {rels : List RelID} {w0 : World} : ∀ (ts : List Nat) (s : List RelMove)
    (w1 : World), PrepKeep rels w0 w1 → PrepKeep rels w0 (prepLoop rels ts s w1).state
  | [], _, _, hI => hI
  | t :: ts, s, w1, hI => by
    simp only [prepLoop]
    split
    · exact prepLoop_any ts s w1 hI
    · rename_i hlen
      have hrows : (w1.tbl t).len ≠ 0 := by simpa using hlen
      rcases prepStep_any hI hrows (w1.tbl t).len with ⟨o, w2, hok, hI2⟩ | ⟨k, hk⟩
      · rw [hok]
        cases o with
        | none => exact prepLoop_any ts s w2 hI2
        | some mv => exact prepLoop_any ts (s ++ [mv]) w2 hI2
      · rw [hk]
        exact hI

/-! ## 4. the batch -/

namespace World

/-- one iteration of the move loop of `setRelationsBatch`, with or without the callback -/
def moveStepRF (withFn : Bool) (w : World) (mv : RelMove) : World :=
  if withFn = true then
    batchFnW (moveEntitiesW w mv.oldT mv.newT mv.len) mv.newT (w.tbl mv.newT).len mv.len []
  else moveEntitiesW w mv.oldT mv.newT mv.len

theorem moveStepRF_obs (withFn : Bool) (w : World) (mv : RelMove) :
    (moveStepRF withFn w mv).obs = w.obs := by
  unfold moveStepRF
  split
  · rw [batchFnW_obs]; exact (moveEntitiesW_fields w mv.oldT mv.newT mv.len).2.2.2.2.2.2.1
  · exact (moveEntitiesW_fields w mv.oldT mv.newT mv.len).2.2.2.2.2.2.1

theorem moveStepRF_locks (withFn : Bool) (w : World) (mv : RelMove) :
    (moveStepRF withFn w mv).locks = w.locks := by
  unfold moveStepRF
  split
  · rw [batchFnW_locks]; exact (moveEntitiesW_fields w mv.oldT mv.newT mv.len).2.2.2.2.2.2.2.1
  · exact (moveEntitiesW_fields w mv.oldT mv.newT mv.len).2.2.2.2.2.2.2.1

theorem foldl_moveStepRF_obs (withFn : Bool) : ∀ (l : List RelMove) (w : World),
    (l.foldl (moveStepRF withFn) w).obs = w.obs
  | [], _ => rfl
  | mv :: l, w => by rw [List.foldl_cons, foldl_moveStepRF_obs withFn l, moveStepRF_obs]

theorem foldl_moveStepRF_locks (withFn : Bool) : ∀ (l : List RelMove) (w : World),
    (l.foldl (moveStepRF withFn) w).locks = w.locks
  | [], _ => rfl
  | mv :: l, w => by rw [List.foldl_cons, foldl_moveStepRF_locks withFn l, moveStepRF_locks]

/-- **`setRelationsBatch` once the lookup loop has passed** (no observers; with or without
    callback): `Lock`, the move loop (a pure function), `registerTargets`, `Unlock` -/
theorem setRelationsBatch_after_prep (run : ProbeRunner) (fo : FilterObj) (extra : List RelID)
    (rels : List RelID) (withFn : Bool) (w : World) (hl : w.isLocked = false)
    (hne : rels.isEmpty = false) {ts : List Nat} (hts : getBatchTables fo extra w = .ok ts w)
    {moves : List RelMove} {w1 : World} (hprep : prepLoop rels ts [] w = .ok moves w1)
    {l' : Lock} {b : Nat} (hlk : w1.locks.lock = some (l', b))
    (hno : ∀ (evt : Nat), w1.obs.hasObservers evt = false) :
    setRelationsBatch run fo extra rels withFn w =
      unlock b (registerW (moves.foldl (moveStepRF withFn) { w1 with locks := l' }) rels) := by
  have hno1 : ∀ (evt : Nat), ({ w1 with locks := l' } : World).obs.hasObservers evt = false := hno
  have hno2 : ∀ (evt : Nat),
      (registerW (moves.foldl (moveStepRF withFn) { w1 with locks := l' }) rels).obs.hasObservers evt
        = false := by
    intro evt
    show (moves.foldl (moveStepRF withFn) { w1 with locks := l' }).obs.hasObservers evt = false
    rw [foldl_moveStepRF_obs]; exact hno evt
  unfold setRelationsBatch
  simp only [M.bind_apply, checkLocked_unlocked w hl, M.assert_apply, hne, Bool.not_false, if_true,
    hts, M.get_apply]
  rw [forIn_prepLoop rels _ ?_, hprep]
  · simp only [lock_ok hlk, hno1, Bool.false_eq_true, if_false, M.bind_apply]
    rw [forIn_foldSt (fun _ => True) (moveStepRF withFn)
      (fun (s : List RelMove) W mv => s ++ [({ mv with start := (W.tbl mv.newT).len } : RelMove)])
      _ ?_ (fun _ _ _ => trivial) moves [] { w1 with locks := l' } trivial]
    · simp only [registerTargets_eq, M.get_apply, hno2, Bool.false_eq_true, if_false]
    · intro mv s W _
      cases withFn with
      | false =>
        simp only [M.bind_apply, M.get_apply, moveEntities_eq, M.pure_apply, moveStepRF,
          Bool.false_eq_true, if_false]
      | true =>
        simp only [M.bind_apply, M.get_apply, moveEntities_eq, M.pure_apply, moveStepRF,
          if_true, batchFn_eq]
  · intro t s W
    simp only [M.bind_apply, M.get_apply]
    cases h0 : ((W.tbl t).len == 0) with
    | true => rfl
    | false =>
      simp only [Bool.false_eq_true, if_false, M.bind_apply]
      cases hp : prepareRelationsMove t (W.tbl t).len rels W with
      | panic k w' => rfl
      | ok x w' =>
        cases x with
        | none => rfl
        | some mv => rfl

end World

/-- **a rejected `SetRelationsBatch`** (with or without callback) on an unlocked world satisfying
    `TInv`, without observers, uncached filter: whatever makes `setRelationsBatch` panic, the world
    it leaves satisfies `PrepKeep` — in particular the LOCK is the one before the call (the repair
    of defect D27), observers and log are the same (no callback ran), every entity reads the same
    components, values and relation targets, pool and flags are unchanged, the structural
    invariants hold.  (The tables the lookup loop created before it failed remain, their targets
    not flagged: `FlagsOKUpTo`.) -/
theorem setRelationsBatch_panic_frame (run : ProbeRunner) {w : World} {fl : List Nat}
    (h : TInv w fl) (hl : w.isLocked = false) (hL : LockFree w.locks)
    (hno : ∀ (evt : Nat), w.obs.hasObservers evt = false) (fo : FilterObj) (extra : List RelID)
    (hc : fo.cache = none) (rels : List RelID) (withFn : Bool) {k : PanicKind} {w' : World}
    (hp : setRelationsBatch run fo extra rels withFn w = .panic k w') : PrepKeep rels w w' := by
  have hinit := PrepKeep.init h rels
  cases hne : rels.isEmpty with
  | true =>
    have : setRelationsBatch run fo extra rels withFn w = .panic .noRelations w := by
      unfold setRelationsBatch
      simp only [M.bind_apply, checkLocked_unlocked w hl, M.assert_apply, hne, Bool.not_true,
        Bool.false_eq_true, if_false]
    rw [this] at hp
    injection hp with _ hw
    subst hw
    exact hinit
  | false =>
    have e1 := getBatchTables_uncached fo extra w hc
    cases hx : w.getCacheTables fo.filter (fo.rels ++ extra) with
    | none =>
      rw [hx] at e1
      have : setRelationsBatch run fo extra rels withFn w = .panic .runtime w := by
        unfold setRelationsBatch
        simp only [M.bind_apply, checkLocked_unlocked w hl, M.assert_apply, hne, Bool.not_false,
          if_true, e1]
      rw [this] at hp
      injection hp with _ hw
      subst hw
      exact hinit
    | some ts =>
      rw [hx] at e1
      have hany := prepLoop_any ts [] w hinit
      cases hf : prepLoop rels ts [] w with
      | panic k1 w1 =>
        rw [setRelationsBatch_prepLoop_panic run fo extra rels withFn w hl hne e1 hf] at hp
        injection hp with _ hw
        subst hw
        rw [hf] at hany
        exact hany
      | ok moves w1 =>
        exfalso
        rw [hf] at hany
        simp only [Res.state] at hany
        obtain ⟨l', b, l'', k1, _, k3, _, _⟩ := hL.cycle
        have hlk1 : w1.locks.lock = some (l', b) := by rw [hany.locks]; exact k1
        have hno1 : ∀ (evt : Nat), w1.obs.hasObservers evt = false := by
          intro evt; rw [hany.obs]; exact hno evt
        rw [setRelationsBatch_after_prep run fo extra rels withFn w hl hne e1 hf hlk1 hno1,
          unlock_ok (by
            show (moves.foldl (moveStepRF withFn) { w1 with locks := l' }).locks.unlock b = some l''
            rw [foldl_moveStepRF_locks]; exact k3)] at hp
        cases hp

/-- **C07 + C10 for `SetRelationsBatch` / `SetRelationsBatchFn`** (worlds with relations: `TInv`;
    no observers; uncached filter): if the call panics — in the pre-validation of the arguments,
    in the entry checks, or in the lookup loop (a relation component the table lacks or that is
    no relation, a component named twice, a dead target found late, …) — then the world is NOT
    locked, its lock state is exactly the one before the call, every entity has the components,
    values and relation targets it had, every handle is as alive as it was; pool, flags, observers
    and log are the same. -/
theorem opSetRelationsBatch_panic_unlocked (run : ProbeRunner) (p : Path) {w : World}
    {fl : List Nat} (h : TInv w fl) (hl : w.isLocked = false) (hL : LockFree w.locks)
    (hno : ∀ (evt : Nat), w.obs.hasObservers evt = false) (fo : FilterObj) (extra : List RelID)
    (hc : fo.cache = none) (mapperIds : List Comp) (rels : List RelID) (withFn : Bool)
    {k : PanicKind} {w' : World}
    (hp : opSetRelationsBatch run p fo extra mapperIds rels withFn w = .panic k w') :
    w'.isLocked = false ∧ w'.locks = w.locks ∧
    (∀ (j : Nat), SameEnt w w' j ∧ ∀ (c : Comp), targetOf w' j c = targetOf w j c) ∧
    (∀ (x : Ent), w'.alive x = w.alive x) ∧ PrepKeep rels w w' := by
  have key : PrepKeep rels w w' := by
    unfold opSetRelationsBatch at hp
    simp only [bind, M.bind] at hp
    rw [preCheck_eq] at hp
    cases hv : relsVerdict w (checkMask p mapperIds) rels with
    | none =>
      rw [hv] at hp
      exact setRelationsBatch_panic_frame run h hl hL hno fo extra hc rels withFn hp
    | some k1 =>
      rw [hv] at hp
      injection hp with _ hw
      subst hw
      exact PrepKeep.init h rels
  refine ⟨?_, key.locks, key.frame, fun x => by simp only [World.alive, key.pool], key⟩
  show w'.locks.isLocked = false
  rw [key.locks]; exact hl

end Ark
