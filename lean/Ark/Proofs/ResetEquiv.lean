/-
  Ark.Proofs.ResetEquiv — C16, second sentence, for the history machine `Ark.Refine`
  (non-relation, observer-free fragment with components):

    "From then on [after Reset] every history has the same outcome as on a new world with the same
     component types registered in the same order."

  * `step_desc` — one step of the machine described by the specification alone (from
    `exec_facts`, Ark/Proofs/ResetEquivOut.lean);
  * `Sim s1 s2` — the simulation relation between two machine states: equal specification, equal
    issued handles, equal registry (`kinds`), pools with the same core (`ents`, `next`,
    `available`; the memory behind the slice, `stale`, may differ);
  * `stepOut`, `trace` — what the client sees of a history: per operation, "not expressible"
    (`none`), the returned handle, or the panic class;
  * `sim_step`, `sim_run` — `Sim` is kept by every step, and the traces agree;
  * `regsOf`, `regs_run`, `Reserved2`, `reach_reserved`, `sim_reset_regs` — `pre ++ [reset]` and
    the registrations of `pre` alone lead to states related by `Sim`;
  * `reset_equiv` — the main theorem; `reset_equiv_prefix` for every prefix of `post`;
  * `Sim.observe` — what `Sim` (with the invariants on both sides) implies for the model worlds:
    `compsOf`/`valOf` agree for EVERY entity ID, `alive` agrees for every handle whose generation
    is not the sentinel `maxU32`;
  * `Sim.queries`, `Sim.queries_cached` — the same query (uncached, or through a cache entry
    registered on both sides) visits the same SET of entities on both sides, the same number of
    them, and the cells the visits point to hold the same values;
  * `reset_equiv_worlds`, `reset_equiv_cached` — all of this for the two reached worlds.

  Kernel-only proofs, core Lean only.
-/
import Ark.Proofs.ResetEquivOut
import Ark.Proofs.DumpLoad
import Ark.Proofs.QueryHist

set_option autoImplicit false

namespace Ark

open World Ark.Props.C01World

namespace Refine

/-! ## 1. one step, described by the specification -/

/-- the issued handles after an ACCEPTED operation (`fresh` = the pool's next handle) -/
def issuedSpec (issued : List Ent) (fresh : Ent) (op : Op) : List Ent :=
  if op.isReset = true then [] else
  match retSpec fresh op with
  | some e => e :: issued
  | none => issued

/-- what the client sees of one operation: `none` if it is not expressible (`guard`), otherwise
    the returned handle or the panic class -/
def stepOut (run : ProbeRunner) (s : St) (op : Op) : Option Outcome :=
  if guard s op = true then some (outcome (exec run s.w op)) else none

/-- what the client sees of a history -/
def trace (run : ProbeRunner) : St → List Op → List (Option Outcome)
  | _, [] => []
  | s, op :: ops => stepOut run s op :: trace run (step run s op) ops

theorem trace_length (run : ProbeRunner) (ops : List Op) : ∀ s : St, (trace run s ops).length = ops.length := by
  induction ops with
  | nil => intro s; rfl
  | cons op ops ih => intro s; simp only [trace, List.length_cons, ih]

/-- the `n`-th entry of the trace is what the client sees of the `n`-th operation, executed on
    the state reached by the first `n` operations -/
theorem trace_get (run : ProbeRunner) (ops : List Op) : ∀ (s : St) (n : Nat),
    (trace run s ops)[n]? = (ops[n]?).map fun op => stepOut run (runOps run s (ops.take n)) op := by
  induction ops with
  | nil => intro s n; rfl
  | cons op ops ih =>
    intro s n
    cases n with
    | zero => rfl
    | succ n =>
      simp only [trace, List.getElem?_cons_succ, List.take_succ_cons]
      rw [ih (step run s op) n]
      rfl

/-- **one step of the machine, from the specification**: an accepted operation moves the
    specification by `specStep` with the pool's next handle, the issued handles by `issuedSpec`,
    the pool by `poolAfter`, the registry by `kindsAfter`, and the client sees `retSpec`; a
    rejected one leaves the whole machine state unchanged and the client sees `rejKind` -/
theorem step_desc (run : ProbeRunner) {s : St} {fl : List Nat} (H : HInv s fl)
    (hfew : s.w.tables.length < maxU32) (hent : s.w.entities.length + 1 < 2 ^ 32) (op : Op)
    (hg : guard s op = true) :
    (pre s.ss op →
      (step run s op).ss = specStep s.ss ((retSpec (s.w.pool.get).2 op).getD default) op ∧
      (step run s op).issued = issuedSpec s.issued (s.w.pool.get).2 op ∧
      (step run s op).w.pool = poolAfter s.w.pool op ∧
      (step run s op).w.kinds = kindsAfter s.w.kinds op ∧
      stepOut run s op = some (.ok (retSpec (s.w.pool.get).2 op))) ∧
    (¬ pre s.ss op → step run s op = s ∧ stepOut run s op = some (.panic (rejKind s.ss op))) := by
  have F := exec_facts run H hfew hent op hg
  constructor
  · intro hp
    obtain ⟨w', hex, hpool, hk⟩ := F.acc hp
    rw [step_of_guard hg, stepOut, if_pos hg, hex]
    refine ⟨rfl, ?_, hpool, hk, rfl⟩
    rfl
  · intro hnp
    have hex := F.rej hnp
    rw [step_of_guard hg, stepOut, if_pos hg, hex]
    refine ⟨?_, rfl⟩
    simp only [Res.state, retOf, issuedAfter, specStep_of_not_pre s.ss _ op hnp]

/-- a property of machine states kept by every expressible step (under the invariant and the size
    bounds) holds along every history -/
theorem run_pres (run : ProbeRunner) (P : St → Prop)
    (hstep : ∀ (s : St) (fl : List Nat) (op : Op), HInv s fl → s.w.tables.length < maxU32 →
      s.w.entities.length + 1 < 2 ^ 32 → guard s op = true → P s → P (step run s op)) :
    ∀ (ops : List Op) (s : St) (fl : List Nat), HInv s fl →
      s.w.tables.length + ops.length ≤ maxU32 → s.w.entities.length + ops.length < 2 ^ 32 →
      P s → P (runOps run s ops) := by
  intro ops
  induction ops with
  | nil => intro s fl _ _ _ hp; exact hp
  | cons op ops ih =>
    intro s fl h hb1 hb2 hp
    simp only [List.length_cons] at hb1 hb2
    have hf : s.w.tables.length < maxU32 := by omega
    have he : s.w.entities.length + 1 < 2 ^ 32 := by omega
    obtain ⟨⟨fl1, h1⟩, g1, g2, _, _, _⟩ := step_goal run h hf he op
    have hp1 : P (step run s op) := by
      by_cases hg : guard s op = true
      · exact hstep s fl op h hf he hg hp
      · have : step run s op = s := by rw [step, if_neg hg]
        rw [this]; exact hp
    exact ih (step run s op) fl1 h1 (by omega) (by omega) hp1

theorem runOps_append (run : ProbeRunner) (s : St) (a b : List Op) :
    runOps run s (a ++ b) = runOps run (runOps run s a) b := by
  simp only [runOps, List.foldl_append]

theorem reach_append (run : ProbeRunner) (cap rel : Nat) (a b : List Op) :
    reach run cap rel (a ++ b) = runOps run (reach run cap rel a) b := by
  simp only [reach, runOps_append]

/-! ## 2. the simulation relation -/

/-- **the simulation relation**: the two machine states agree on everything later operations
    depend on — the specification (entities, component sets, values, registry flags), the handles
    the client holds, the registry, and the core of the entity pool.  The worlds themselves may
    differ (archetypes, tables, capacities, the memory behind the pool slice). -/
structure Sim (s1 s2 : St) : Prop where
  ss : s1.ss = s2.ss
  issued : s1.issued = s2.issued
  kinds : s1.w.kinds = s2.w.kinds
  core : s1.w.pool.Core = s2.w.pool.Core

theorem Sim.refl (s : St) : Sim s s := ⟨rfl, rfl, rfl, rfl⟩

theorem Sim.symm {s1 s2 : St} (h : Sim s1 s2) : Sim s2 s1 :=
  ⟨h.ss.symm, h.issued.symm, h.kinds.symm, h.core.symm⟩

theorem guard_congr {s1 s2 : St} (S : Sim s1 s2) (op : Op) : guard s1 op = guard s2 op := by
  cases op <;> simp only [guard, S.ss, S.issued]

theorem poolAfter_core {p q : Pool} (h : p.Core = q.Core) (op : Op) :
    (poolAfter p op).Core = (poolAfter q op).Core := by
  cases op with
  | new _ _ _ => exact (Pool.get_core h).2
  | new0 => exact (Pool.get_core h).2
  | copy _ => exact (Pool.get_core h).2
  | del e => exact Pool.recycle_core h e
  | reset =>
    obtain ⟨he, _, _⟩ := Pool.core_eq_iff.mp h
    simp only [poolAfter, Pool.reset, Pool.Core, he]
  | reg _ _ => exact h
  | add _ _ _ _ => exact h
  | rem _ _ _ => exact h
  | xchg _ _ _ _ _ => exact h
  | set _ _ => exact h
  | shrink _ => exact h

/-- **`Sim` is kept by every step, and the client sees the same**: the same operation is
    expressible on both sides, is accepted on both or rejected on both with the same panic class,
    and a creation returns the same handle -/
theorem sim_step (run1 run2 : ProbeRunner) {s1 s2 : St} {fl1 fl2 : List Nat} (H1 : HInv s1 fl1)
    (H2 : HInv s2 fl2) (hf1 : s1.w.tables.length < maxU32)
    (he1 : s1.w.entities.length + 1 < 2 ^ 32) (hf2 : s2.w.tables.length < maxU32)
    (he2 : s2.w.entities.length + 1 < 2 ^ 32) (S : Sim s1 s2) (op : Op) :
    Sim (step run1 s1 op) (step run2 s2 op) ∧ stepOut run1 s1 op = stepOut run2 s2 op := by
  have hgc := guard_congr S op
  by_cases hg : guard s1 op = true
  · have hg2 : guard s2 op = true := by rw [← hgc]; exact hg
    obtain ⟨a1, r1⟩ := step_desc run1 H1 hf1 he1 op hg
    obtain ⟨a2, r2⟩ := step_desc run2 H2 hf2 he2 op hg2
    have hfresh : (s1.w.pool.get).2 = (s2.w.pool.get).2 := (Pool.get_core S.core).1
    by_cases hp : pre s1.ss op
    · have hp2 : pre s2.ss op := by rw [← S.ss]; exact hp
      obtain ⟨b1, b2, b3, b4, b5⟩ := a1 hp
      obtain ⟨c1, c2, c3, c4, c5⟩ := a2 hp2
      refine ⟨⟨?_, ?_, ?_, ?_⟩, ?_⟩
      · rw [b1, c1, S.ss, hfresh]
      · rw [b2, c2, S.issued, hfresh]
      · rw [b4, c4, S.kinds]
      · rw [b3, c3]; exact poolAfter_core S.core op
      · rw [b5, c5, hfresh]
    · have hp2 : ¬ pre s2.ss op := by rw [← S.ss]; exact hp
      obtain ⟨b1, b2⟩ := r1 hp
      obtain ⟨c1, c2⟩ := r2 hp2
      rw [b1, c1, b2, c2, S.ss]
      exact ⟨S, rfl⟩
  · have hg2 : ¬ guard s2 op = true := by rw [← hgc]; exact hg
    have e1 : step run1 s1 op = s1 := by rw [step, if_neg hg]
    have e2 : step run2 s2 op = s2 := by rw [step, if_neg hg2]
    rw [e1, e2, stepOut, stepOut, if_neg hg, if_neg hg2]
    exact ⟨S, rfl⟩

/-- **`Sim` along histories**: from related states the same history leads to related states, and
    the client sees the same trace (returned handles, accept/reject decisions, panic classes) -/
theorem sim_run (run1 run2 : ProbeRunner) (ops : List Op) : ∀ (s1 s2 : St) (fl1 fl2 : List Nat),
    HInv s1 fl1 → HInv s2 fl2 →
    s1.w.tables.length + ops.length ≤ maxU32 → s1.w.entities.length + ops.length < 2 ^ 32 →
    s2.w.tables.length + ops.length ≤ maxU32 → s2.w.entities.length + ops.length < 2 ^ 32 →
    Sim s1 s2 →
    Sim (runOps run1 s1 ops) (runOps run2 s2 ops) ∧ trace run1 s1 ops = trace run2 s2 ops := by
  induction ops with
  | nil => intro s1 s2 _ _ _ _ _ _ _ _ S; exact ⟨S, rfl⟩
  | cons op ops ih =>
    intro s1 s2 fl1 fl2 H1 H2 a1 a2 b1 b2 S
    simp only [List.length_cons] at a1 a2 b1 b2
    have hf1 : s1.w.tables.length < maxU32 := by omega
    have he1 : s1.w.entities.length + 1 < 2 ^ 32 := by omega
    have hf2 : s2.w.tables.length < maxU32 := by omega
    have he2 : s2.w.entities.length + 1 < 2 ^ 32 := by omega
    obtain ⟨⟨fl1', H1'⟩, g1, g2, _⟩ := step_goal run1 H1 hf1 he1 op
    obtain ⟨⟨fl2', H2'⟩, k1, k2, _⟩ := step_goal run2 H2 hf2 he2 op
    obtain ⟨S', hout⟩ := sim_step run1 run2 H1 H2 hf1 he1 hf2 he2 S op
    obtain ⟨S'', htr⟩ := ih (step run1 s1 op) (step run2 s2 op) fl1' fl2' H1' H2'
      (by omega) (by omega) (by omega) (by omega) S'
    exact ⟨S'', by simp only [trace, hout, htr]⟩

/-! ## 3. the registrations of a history -/

def Op.isReg : Op → Bool
  | .reg _ _ => true
  | _ => false

/-- the registration operations of a history, in order -/
def regsOf (ops : List Op) : List Op := ops.filter Op.isReg

theorem regsOf_length_le (ops : List Op) : (regsOf ops).length ≤ ops.length :=
  List.length_filter_le _ _

/-- only `reg` changes the registry flags of the specification -/
theorem specStep_zst (ss : SS) (fresh : Ent) (op : Op) (h : op.isReg = false) :
    (specStep ss fresh op).zst = ss.zst := by
  cases op with
  | reg _ _ => cases h
  | new p ids vals => simp only [specStep]; split <;> rfl
  | new0 => rfl
  | add p e ids vals =>
    simp only [specStep]
    cases find ss.ents e with
    | none => rfl
    | some cs => simp only; split <;> rfl
  | rem p e ids =>
    simp only [specStep]
    cases find ss.ents e with
    | none => rfl
    | some cs => simp only; split <;> rfl
  | xchg p e add rem vals =>
    simp only [specStep]
    cases find ss.ents e with
    | none => rfl
    | some cs => simp only; split <;> rfl
  | set e vals =>
    simp only [specStep]
    cases find ss.ents e with
    | none => rfl
    | some cs => simp only; split <;> rfl
  | del e =>
    simp only [specStep]
    cases find ss.ents e <;> rfl
  | copy e =>
    simp only [specStep]
    cases find ss.ents e <;> rfl
  | shrink _ => rfl
  | reset => rfl

/-- a step that is not a registration keeps the registry (specification flags and `kinds`) -/
theorem step_keeps_registry (run : ProbeRunner) {s : St} {fl : List Nat} (H : HInv s fl)
    (hfew : s.w.tables.length < maxU32) (hent : s.w.entities.length + 1 < 2 ^ 32) (op : Op)
    (h : op.isReg = false) :
    (step run s op).ss.zst = s.ss.zst ∧ (step run s op).w.kinds = s.w.kinds := by
  by_cases hg : guard s op = true
  · obtain ⟨a, r⟩ := step_desc run H hfew hent op hg
    by_cases hp : pre s.ss op
    · obtain ⟨b1, _, _, b4, _⟩ := a hp
      refine ⟨by rw [b1]; exact specStep_zst _ _ op h, ?_⟩
      rw [b4]
      cases op with
      | reg _ _ => cases h
      | _ => rfl
    · rw [(r hp).1]; exact ⟨rfl, rfl⟩
  · have : step run s op = s := by rw [step, if_neg hg]
    rw [this]; exact ⟨rfl, rfl⟩

/-- what the registrations-only run keeps: no entity, no handle, the pool of a new world -/
structure Fresh (s : St) : Prop where
  ents : s.ss.ents = []
  issued : s.issued = []
  pool : s.w.pool = Pool.init

/-- a registration step: the registry of two states with the same registry moves the same way,
    and `Fresh` is kept -/
theorem reg_step (run1 run2 : ProbeRunner) {s1 s2 : St} {fl1 fl2 : List Nat} (H1 : HInv s1 fl1)
    (H2 : HInv s2 fl2) (hf1 : s1.w.tables.length < maxU32)
    (he1 : s1.w.entities.length + 1 < 2 ^ 32) (hf2 : s2.w.tables.length < maxU32)
    (he2 : s2.w.entities.length + 1 < 2 ^ 32) (hz : s1.ss.zst = s2.ss.zst)
    (hk : s1.w.kinds = s2.w.kinds) (size : Nat) (z : Bool) :
    (step run1 s1 (.reg size z)).ss.zst = (step run2 s2 (.reg size z)).ss.zst ∧
    (step run1 s1 (.reg size z)).w.kinds = (step run2 s2 (.reg size z)).w.kinds ∧
    (Fresh s2 → Fresh (step run2 s2 (.reg size z))) := by
  obtain ⟨a1, r1⟩ := step_desc run1 H1 hf1 he1 (.reg size z) rfl
  obtain ⟨a2, r2⟩ := step_desc run2 H2 hf2 he2 (.reg size z) rfl
  by_cases hp : pre s1.ss (.reg size z)
  · have hp2 : pre s2.ss (.reg size z) := by
      show s2.ss.zst.length < 256
      rw [← hz]; exact hp
    obtain ⟨b1, _, _, b4, _⟩ := a1 hp
    obtain ⟨c1, c2, c3, c4, _⟩ := a2 hp2
    have hp' : s1.ss.zst.length < 256 := hp
    have hp2' : s2.ss.zst.length < 256 := hp2
    refine ⟨?_, by rw [b4, c4, hk], ?_⟩
    · rw [b1, c1]
      simp only [specStep, if_pos hp2', hz]
    · intro F
      refine ⟨?_, ?_, ?_⟩
      · rw [c1]; simp only [specStep, if_pos hp2']; exact F.ents
      · rw [c2]; exact F.issued
      · rw [c3]; exact F.pool
  · have hp2 : ¬ pre s2.ss (.reg size z) := by
      show ¬ s2.ss.zst.length < 256
      rw [← hz]; exact hp
    rw [(r1 hp).1, (r2 hp2).1]
    exact ⟨hz, hk, fun F => F⟩

/-- **the registrations alone**: running a history `ops` from `s1` and only its registrations
    from `s2` (same registry at the start) leads to the same registry; the second run creates no
    entity and does not touch the pool -/
theorem regs_run (run1 run2 : ProbeRunner) (ops : List Op) : ∀ (s1 s2 : St) (fl1 fl2 : List Nat),
    HInv s1 fl1 → HInv s2 fl2 →
    s1.w.tables.length + ops.length ≤ maxU32 → s1.w.entities.length + ops.length < 2 ^ 32 →
    s2.w.tables.length + ops.length ≤ maxU32 → s2.w.entities.length + ops.length < 2 ^ 32 →
    s1.ss.zst = s2.ss.zst → s1.w.kinds = s2.w.kinds → Fresh s2 →
    (runOps run1 s1 ops).ss.zst = (runOps run2 s2 (regsOf ops)).ss.zst ∧
    (runOps run1 s1 ops).w.kinds = (runOps run2 s2 (regsOf ops)).w.kinds ∧
    Fresh (runOps run2 s2 (regsOf ops)) := by
  induction ops with
  | nil => intro s1 s2 _ _ _ _ _ _ _ _ hz hk F; exact ⟨hz, hk, F⟩
  | cons op ops ih =>
    intro s1 s2 fl1 fl2 H1 H2 a1 a2 b1 b2 hz hk F
    simp only [List.length_cons] at a1 a2 b1 b2
    have hf1 : s1.w.tables.length < maxU32 := by omega
    have he1 : s1.w.entities.length + 1 < 2 ^ 32 := by omega
    have hf2 : s2.w.tables.length < maxU32 := by omega
    have he2 : s2.w.entities.length + 1 < 2 ^ 32 := by omega
    obtain ⟨⟨fl1', H1'⟩, g1, g2, _⟩ := step_goal run1 H1 hf1 he1 op
    cases hr : op.isReg with
    | false =>
      have hreg : regsOf (op :: ops) = regsOf ops := by
        simp only [regsOf, List.filter_cons, hr, Bool.false_eq_true, if_false]
      obtain ⟨k1, k2⟩ := step_keeps_registry run1 H1 hf1 he1 op hr
      rw [hreg]
      exact ih (step run1 s1 op) s2 fl1' fl2 H1' H2 (by omega) (by omega) (by omega) (by omega)
        (k1.trans hz) (k2.trans hk) F
    | true =>
      have hreg : regsOf (op :: ops) = op :: regsOf ops := by
        simp only [regsOf, List.filter_cons, hr, if_true]
      rw [hreg]
      obtain ⟨⟨fl2', H2'⟩, k1, k2, _⟩ := step_goal run2 H2 hf2 he2 op
      cases op with
      | reg size z =>
        obtain ⟨q1, q2, q3⟩ := reg_step run1 run2 H1 H2 hf1 he1 hf2 he2 hz hk size z
        exact ih (step run1 s1 (.reg size z)) (step run2 s2 (.reg size z)) fl1' fl2' H1' H2'
          (by omega) (by omega) (by omega) (by omega) q1 q2 (q3 F)
      | new _ _ _ => cases hr
      | new0 => cases hr
      | add _ _ _ _ => cases hr
      | rem _ _ _ => cases hr
      | xchg _ _ _ _ _ => cases hr
      | set _ _ => cases hr
      | del _ => cases hr
      | copy _ => cases hr
      | shrink _ => cases hr
      | reset => cases hr

/-! ## 4. the reserved pool slots -/

/-- the two reserved pool slots hold the handles `0.maxU32` and `1.maxU32` -/
def Reserved2 (p : Pool) : Prop :=
  p.ents[0]? = some ⟨0, maxU32⟩ ∧ p.ents[1]? = some ⟨1, maxU32⟩

theorem reserved2_init : Reserved2 Pool.init := ⟨rfl, rfl⟩

theorem Reserved2.take {p : Pool} (h : Reserved2 p) : p.ents.take 2 = Pool.init.ents := by
  obtain ⟨h0, h1⟩ := h
  match hp : p.ents with
  | [] => rw [hp] at h0; cases h0
  | [a] => rw [hp] at h1; cases h1
  | a :: b :: rest =>
    rw [hp] at h0 h1
    simp only [List.getElem?_cons_zero, List.getElem?_cons_succ, Option.some.injEq] at h0 h1
    subst h0; subst h1
    rfl

/-- the pool after `Reset` has the core of the pool of a new world -/
theorem Reserved2.reset_core {p : Pool} (h : Reserved2 p) : p.reset.Core = Pool.init.Core := by
  simp only [Pool.reset, Pool.Core, Pool.reserved, h.take]
  rfl

theorem Reserved2.get {p : Pool} {fl : List Nat} (h : Reserved2 p) (hp : Pool.PInv p fl) :
    Reserved2 (p.get).1 := by
  have g := Pool.get_spec p fl hp
  have h2 := g.ge2
  exact ⟨by rw [g.other 0 (by omega)]; exact h.1, by rw [g.other 1 (by omega)]; exact h.2⟩

theorem Reserved2.recycle {p : Pool} (h : Reserved2 p) {e : Ent} (h2 : 2 ≤ e.id) :
    Reserved2 (p.recycle e) := by
  refine ⟨?_, ?_⟩
  · show (p.ents.set e.id _)[0]? = _
    rw [List.getElem?_set_ne (by omega)]; exact h.1
  · show (p.ents.set e.id _)[1]? = _
    rw [List.getElem?_set_ne (by omega)]; exact h.2

theorem Reserved2.reset {p : Pool} (h : Reserved2 p) : Reserved2 p.reset := by
  have := h.take
  show (p.ents.take 2)[0]? = _ ∧ (p.ents.take 2)[1]? = _
  rw [this]; exact ⟨rfl, rfl⟩

theorem reserved2_step (run : ProbeRunner) {s : St} {fl : List Nat} (H : HInv s fl)
    (hfew : s.w.tables.length < maxU32) (hent : s.w.entities.length + 1 < 2 ^ 32) (op : Op)
    (hg : guard s op = true) (h : Reserved2 s.w.pool) : Reserved2 (step run s op).w.pool := by
  obtain ⟨a, r⟩ := step_desc run H hfew hent op hg
  by_cases hp : pre s.ss op
  · rw [(a hp).2.2.1]
    cases op with
    | new _ _ _ => exact h.get H.cinv.pool
    | new0 => exact h.get H.cinv.pool
    | copy _ => exact h.get H.cinv.pool
    | del e =>
      obtain ⟨cs, hf⟩ := hp
      obtain ⟨_, _, h2, _⟩ := H.live_facts (find_some_mem hf)
      exact h.recycle h2
    | reset => exact h.reset
    | reg _ _ => exact h
    | add _ _ _ _ => exact h
    | rem _ _ _ => exact h
    | xchg _ _ _ _ _ => exact h
    | set _ _ => exact h
    | shrink _ => exact h
  · rw [(r hp).1]; exact h

/-- after every history the reserved pool slots are as in a new world -/
theorem reach_reserved (run : ProbeRunner) (cap rel : Nat) (ops : List Op)
    (hlen : ops.length < 2 ^ 32 - 2) : Reserved2 (reach run cap rel ops).w.pool :=
  run_pres run (fun s => Reserved2 s.w.pool)
    (fun s fl op H hf he hg h => reserved2_step run H hf he op hg h)
    ops _ [] (hinv_init cap rel)
    (by show 1 + ops.length ≤ maxU32; simp only [maxU32]; omega)
    (by show 2 + ops.length < 2 ^ 32; omega) reserved2_init

/-! ## 5. `pre ++ [reset]` against the registrations of `pre` -/

/-- **right after `Reset`**: the state reached by `pre ++ [reset]` and the state reached by the
    registrations of `pre` on a new world (any capacities) are related by `Sim` -/
theorem sim_reset_regs (run1 run2 : ProbeRunner) (cap rel cap' rel' : Nat) (pre : List Op)
    (hlen : pre.length + 1 < 2 ^ 32 - 2) :
    Sim (reach run1 cap rel (pre ++ [.reset])) (reach run2 cap' rel' (regsOf pre)) := by
  obtain ⟨fl, H⟩ := reach_hinv run1 cap rel pre (by omega)
  have hb := reach_bounds run1 cap rel pre (by omega)
  have hf : (reach run1 cap rel pre).w.tables.length < maxU32 := by simp only [maxU32]; omega
  have he : (reach run1 cap rel pre).w.entities.length + 1 < 2 ^ 32 := by omega
  obtain ⟨hz, hk, F⟩ := regs_run run1 run2 pre (St.init cap rel) (St.init cap' rel') [] []
    (hinv_init cap rel) (hinv_init cap' rel')
    (by show 1 + pre.length ≤ maxU32; simp only [maxU32]; omega)
    (by show 2 + pre.length < 2 ^ 32; omega)
    (by show 1 + pre.length ≤ maxU32; simp only [maxU32]; omega)
    (by show 2 + pre.length < 2 ^ 32; omega) rfl rfl ⟨rfl, rfl, rfl⟩
  obtain ⟨a, _⟩ := step_desc run1 H hf he .reset rfl
  obtain ⟨b1, b2, b3, b4, _⟩ := a trivial
  have hres := reach_reserved run1 cap rel pre (by omega)
  rw [reach_snoc]
  refine ⟨?_, ?_, ?_, ?_⟩
  · rw [b1]
    show (⟨[], (reach run1 cap rel pre).ss.zst⟩ : SS) = _
    have hz' : (reach run1 cap rel pre).ss.zst = (reach run2 cap' rel' (regsOf pre)).ss.zst := hz
    have he' : (reach run2 cap' rel' (regsOf pre)).ss.ents = [] := F.ents
    rw [hz']
    cases hss : (reach run2 cap' rel' (regsOf pre)).ss with
    | mk ents zst =>
      rw [hss] at he'
      simp only at he' ⊢
      rw [he']
  · rw [b2]
    have : (reach run2 cap' rel' (regsOf pre)).issued = [] := F.issued
    rw [this]; rfl
  · rw [b4]; exact hk
  · rw [b3]
    have : (reach run2 cap' rel' (regsOf pre)).w.pool = Pool.init := F.pool
    rw [this]
    exact hres.reset_core

/-- **C16, every later history**: let `pre` and `post` be histories of the machine (within the
    bound) and `regsOf pre` the registrations of `pre`, in order.  Running `post` after
    `pre ++ [reset]` and running `post` after `regsOf pre` on a new world
    * gives the same trace — for every operation of `post`: expressible on both sides or on
      neither, accepted on both or rejected on both with the same panic class, and a creation
      returns the SAME handle (ID and generation) —, and
    * ends in states related by `Sim`: same specification (alive handles ↦ components ↦ values,
      registry flags), same issued handles, same registry, same pool core. -/
theorem reset_equiv (run1 run2 : ProbeRunner) (cap rel cap' rel' : Nat) (pre post : List Op)
    (hlen : pre.length + 1 + post.length < 2 ^ 32 - 2) :
    trace run1 (reach run1 cap rel (pre ++ [.reset])) post =
      trace run2 (reach run2 cap' rel' (regsOf pre)) post ∧
    Sim (reach run1 cap rel (pre ++ [.reset] ++ post)) (reach run2 cap' rel' (regsOf pre ++ post)) := by
  have hl1 : (pre ++ [Op.reset]).length = pre.length + 1 := by simp
  have hl2 := regsOf_length_le pre
  obtain ⟨fl1, H1⟩ := reach_hinv run1 cap rel (pre ++ [.reset]) (by omega)
  obtain ⟨fl2, H2⟩ := reach_hinv run2 cap' rel' (regsOf pre) (by omega)
  have hb1 := reach_bounds run1 cap rel (pre ++ [.reset]) (by omega)
  have hb2 := reach_bounds run2 cap' rel' (regsOf pre) (by omega)
  have S := sim_reset_regs run1 run2 cap rel cap' rel' pre (by omega)
  obtain ⟨S', htr⟩ := sim_run run1 run2 post _ _ fl1 fl2 H1 H2
    (by simp only [maxU32]; omega) (by omega) (by simp only [maxU32]; omega) (by omega) S
  have e1 : reach run1 cap rel (pre ++ [.reset] ++ post) =
      runOps run1 (reach run1 cap rel (pre ++ [.reset])) post := reach_append run1 cap rel _ post
  have e2 : reach run2 cap' rel' (regsOf pre ++ post) =
      runOps run2 (reach run2 cap' rel' (regsOf pre)) post := reach_append run2 cap' rel' _ post
  rw [e1, e2]
  exact ⟨htr, S'⟩

/-- … and the two runs are related after every prefix of `post` -/
theorem reset_equiv_prefix (run1 run2 : ProbeRunner) (cap rel cap' rel' : Nat) (pre post : List Op)
    (hlen : pre.length + 1 + post.length < 2 ^ 32 - 2) (n : Nat) :
    Sim (reach run1 cap rel (pre ++ [.reset] ++ post.take n))
      (reach run2 cap' rel' (regsOf pre ++ post.take n)) := by
  have : (post.take n).length ≤ post.length := by
    rw [List.length_take]; exact Nat.min_le_right _ _
  exact (reset_equiv run1 run2 cap rel cap' rel' pre (post.take n) (by omega)).2

/-! ## 6. what `Sim` means for the worlds -/

theorem PInv.of_core {p q : Pool} {fl : List Nat} (h : Pool.PInv p fl) (hc : p.Core = q.Core) :
    Pool.PInv q fl := by
  obtain ⟨he, hn, ha⟩ := Pool.core_eq_iff.mp hc
  exact ⟨by rw [← he, ← hn, ← ha]; exact h.ch, h.nodup, by rw [← he]; exact h.res,
    by rw [← he]; exact h.self, by rw [← he]; exact h.len2⟩

theorem compsOf_unindexed {w : World} {i r : Nat} (h : w.entities[i]? = some (maxU32, r)) :
    compsOf w i = none ∧ ∀ c : Comp, valOf w i c = none := by
  refine ⟨?_, fun c => ?_⟩
  · simp only [compsOf, h, if_true]
  · simp only [valOf, h, if_true]

theorem compsOf_beyond {w : World} {i : Nat} (h : w.entities.length ≤ i) :
    compsOf w i = none ∧ ∀ c : Comp, valOf w i c = none := by
  refine ⟨?_, fun c => ?_⟩
  · simp only [compsOf, List.getElem?_eq_none h]
  · simp only [valOf, List.getElem?_eq_none h]

/-- what one state says about one ID, in terms of the specification, the pool core and the free
    list only -/
theorem HInv.observe_id {s : St} {fl : List Nat} (H : HInv s fl) (i : Nat) :
    ((i < 2 ∨ s.w.pool.ents.length ≤ i ∨ i ∈ fl) →
      compsOf s.w i = none ∧ ∀ c : Comp, valOf s.w i c = none) ∧
    (2 ≤ i → i < s.w.pool.ents.length → i ∉ fl →
      ∃ e cs, s.w.pool.ents[i]? = some e ∧ e.id = i ∧ (e, cs) ∈ s.ss.ents) := by
  constructor
  · rintro (h | h | h)
    · obtain ⟨r, hr⟩ := H.cinv.reservedUnindexed i h
      exact compsOf_unindexed hr
    · exact compsOf_beyond (by rw [H.cinv.lenEq]; exact h)
    · obtain ⟨r, hr⟩ := H.cinv.freeUnindexed i h
      exact compsOf_unindexed hr
  · intro h2 hlt hnf
    have hsl : s.w.pool.ents[i]? = some (s.w.pool.ents[i]'hlt) := List.getElem?_eq_getElem hlt
    have hid := H.cinv.pool.self i _ hsl hnf
    have hl : (s.w.pool.ents[i]'hlt) ∈ s.ps.live :=
      (H.ginv.live_iff _).mpr ⟨by rw [hid]; exact h2, by rw [hid]; exact hnf, by rw [hid]; exact hsl⟩
    obtain ⟨x, hx, hxe⟩ := List.mem_map.mp hl
    exact ⟨_, x.2, hsl, hid, by rw [← hxe]; exact hx⟩

/-- **`Sim` on the model worlds**: two states related by `Sim` that satisfy the invariant agree
    * on the component set and on every component value of EVERY entity ID (through the entity
      index: `compsOf`, `valOf`),
    * on `Alive` of every handle whose generation is not the sentinel `maxU32` (in particular of
      every issued handle), and of every handle whose ID lies inside the pool slice,
    * on the free list, the number of index slots and the next handle. -/
theorem Sim.observe {s1 s2 : St} {fl1 fl2 : List Nat} (S : Sim s1 s2) (H1 : HInv s1 fl1)
    (H2 : HInv s2 fl2) :
    fl1 = fl2 ∧ s1.w.entities.length = s2.w.entities.length ∧
    (s1.w.pool.get).2 = (s2.w.pool.get).2 ∧
    (∀ i : Nat, compsOf s1.w i = compsOf s2.w i ∧ ∀ c : Comp, valOf s1.w i c = valOf s2.w i c) ∧
    (∀ h : Ent, h.gen ≠ maxU32 ∨ h.id < s1.w.pool.ents.length → s1.w.alive h = s2.w.alive h) := by
  obtain ⟨hents, _, _⟩ := Pool.core_eq_iff.mp S.core
  have hfl : fl1 = fl2 := (PInv.of_core H1.cinv.pool S.core).unique H2.cinv.pool
  subst hfl
  have hlen : s1.w.entities.length = s2.w.entities.length := by
    rw [H1.cinv.lenEq, H2.cinv.lenEq, hents]
  refine ⟨rfl, hlen, (Pool.get_core S.core).1, ?_, ?_⟩
  · intro i
    obtain ⟨n1, l1⟩ := H1.observe_id i
    obtain ⟨n2, l2⟩ := H2.observe_id i
    by_cases hc : i < 2 ∨ s1.w.pool.ents.length ≤ i ∨ i ∈ fl1
    · obtain ⟨a1, b1⟩ := n1 hc
      obtain ⟨a2, b2⟩ := n2 (by rw [← hents]; exact hc)
      exact ⟨a1.trans a2.symm, fun c => (b1 c).trans (b2 c).symm⟩
    · have h2 : 2 ≤ i := by omega
      have hlt : i < s1.w.pool.ents.length := by omega
      have hnf : i ∉ fl1 := fun h => hc (Or.inr (Or.inr h))
      obtain ⟨e, cs, hsl, hid, hm⟩ := l1 h2 hlt hnf
      have hm2 : (e, cs) ∈ s2.ss.ents := by rw [← S.ss]; exact hm
      have ok1 := H1.ok e cs hm
      have ok2 := H2.ok e cs hm2
      have c1 := ok1.comps
      have c2 := ok2.comps
      rw [hid] at c1 c2
      rw [← S.kinds] at c2
      refine ⟨c1.trans c2.symm, fun c => ?_⟩
      by_cases hk : c ∈ keys cs
      · obtain ⟨cv, hcv, rfl⟩ := List.mem_map.mp hk
        have v1 := ok1.vals cv hcv
        have v2 := ok2.vals cv hcv
        rw [hid] at v1 v2
        exact v1.trans v2.symm
      · have hn : c ∉ sortedIds s1.w.kinds.length (keys cs) := fun hh => hk (mem_sortedIds.mp hh).2
        rw [valOf_none_of_comps c1 hn, valOf_none_of_comps c2 hn]
  · intro h hh
    by_cases hlt : h.id < s1.w.pool.ents.length
    · exact Pool.alive_core S.core h hlt
    · have hg : h.gen ≠ maxU32 := by
        rcases hh with hg | hlt'
        · exact hg
        · exact absurd hlt' hlt
      have dead : ∀ {w : World} {fl : List Nat}, CInv w fl → w.pool.ents.length ≤ h.id →
          w.alive h = false := by
        intro w fl C hle
        show w.pool.alive h = false
        simp only [Pool.alive]
        rw [List.getElem?_append_right hle]
        cases hs : w.pool.stale[h.id - w.pool.ents.length]? with
        | none => rfl
        | some x =>
          have := C.stale x (List.mem_of_getElem? hs)
          simp only [this]
          exact beq_false_of_ne (fun hh' => hg hh'.symm)
      rw [dead H1.cinv (by omega), dead H2.cinv (by rw [← hents]; omega)]

/-! ## 7. queries -/

open QueryExact

/-- **the same query on both sides**: on two states related by `Sim` (invariants on both sides) two
    queries built from filter objects with the same filter visit the same SET of entities, the
    same number of them (`Count` agrees), and for every entity visited on both sides the cells
    the two visits point to hold the same values (iteration order and table/row may differ). -/
theorem Sim.queries {s1 s2 : St} {fl1 fl2 : List Nat} (S : Sim s1 s2) (H1 : HInv s1 fl1)
    (H2 : HInv s2 fl2) {fo1 fo2 : FilterObj} (hfo : fo1.filter = fo2.filter)
    {w1 w1' w2 w2' : World} {q1 q2 : QueryObj}
    {v1 v2 : List Visit} (M1 : QueryMeetsSpec s1 fo1 w1 q1 v1 w1')
    (M2 : QueryMeetsSpec s2 fo2 w2 q2 v2 w2') :
    (∀ e : Ent, e ∈ v1.map (·.e) ↔ e ∈ v2.map (·.e)) ∧
    v1.length = v2.length ∧ qCount w1 q1 = qCount w2 q2 ∧
    ∀ a ∈ v1, ∀ b ∈ v2, a.e = b.e → ∀ c : Comp,
      (s1.w.tbl a.table).getComp c a.row = (s2.w.tbl b.table).getComp c b.row := by
  have hmem : ∀ e : Ent, e ∈ v1.map (·.e) ↔ e ∈ v2.map (·.e) := by
    intro e
    rw [M1.exact e, M2.exact e, S.ss, hfo]
  have hlen : v1.length = v2.length := by
    have := length_eq_of_nodup_mem M1.nodup M2.nodup hmem
    simpa only [List.length_map] using this
  refine ⟨hmem, hlen, by rw [M1.count, M2.count, hlen], ?_⟩
  intro a ha b hb hab c
  obtain ⟨_, _, _, hobs, _⟩ := S.observe H1 H2
  rw [← (M1.data a ha).1 c, ← (M2.data b hb).1 c, hab]
  exact (hobs b.e.id).2 c

/-- registering a filter in the cache of a state of the machine: it succeeds, only the cache
    changes, the invariant is kept (what `query_meets_spec_cached` uses internally) -/
theorem HInv.cacheRegister {s : St} {fl : List Nat} (H : HInv s fl) (X : XInv s.w) (f : Filter)
    (rels : List RelID) :
    ∃ (id : Nat) (w' : World), cacheRegister f rels s.w = .ok id w' ∧
      HInv ⟨w', s.issued, s.ss⟩ fl ∧ w'.kinds = s.w.kinds ∧ w'.pool = s.w.pool ∧
      ∀ fo : FilterObj, fo.cache = some id → fo.filter = f →
        ∃ q visits, QueryMeetsSpec ⟨w', s.issued, s.ss⟩ fo (w'.withLocks lockDuringQuery) q visits
          (w'.withLocks lockAfterQuery) := by
  obtain ⟨w', ce, hreg, hc', hC', _, hce, hcf, _, he, ht, _, hk, hp, hl, _⟩ :=
    cacheRegister_exact H.cinv X.rinv X.cache.cacheInv f rels (by rw [X.cache.1]; rfl)
  have hm : w'.maxComps = s.w.maxComps := by
    have heq := hreg
    unfold World.cacheRegister at heq
    simp only at heq
    split at heq
    · cases heq
    · injection heq with _ hw; subst hw; rfl
  have H' : HInv ⟨w', s.issued, s.ss⟩ fl := H.of_cache hc' he ht hk hp hl hm
  refine ⟨_, w', hreg, H', hk, hp, ?_⟩
  intro fo hfc hff
  have hrows' : RowsAlive w' := X.rows.lookup (LookupKeeps.of_tables hp ht)
  have hL : LockCycle w'.locks lockDuringQuery 0 lockAfterQuery := by
    rw [hl, X.locks]; exact lockCycle_default
  obtain ⟨q, visits, Q⟩ := drain_exact_cached hc' hC' fo hfc hce (hcf.trans hff.symm) hL
  exact ⟨q, visits, meets_of_exactOn (s := ⟨w', s.issued, s.ss⟩) H' hrows' Q⟩

/-- **the same query through the filter cache**: on two states related by `Sim`, registering the
    same filter succeeds on both sides (the cache IDs may differ), and the queries through the two
    cache entries visit the same set of entities, count the same and read the same values -/
theorem Sim.queries_cached {s1 s2 : St} {fl1 fl2 : List Nat} (S : Sim s1 s2) (H1 : HInv s1 fl1)
    (H2 : HInv s2 fl2) (X1 : XInv s1.w) (X2 : XInv s2.w) (f : Filter) (rels : List RelID) :
    ∃ (id1 id2 : Nat) (w1 w2 : World),
      cacheRegister f rels s1.w = .ok id1 w1 ∧ cacheRegister f rels s2.w = .ok id2 w2 ∧
      ∀ fo1 fo2 : FilterObj, fo1.cache = some id1 → fo1.filter = f → fo2.cache = some id2 →
        fo2.filter = f →
        ∃ q1 v1 q2 v2,
          QueryMeetsSpec ⟨w1, s1.issued, s1.ss⟩ fo1 (w1.withLocks lockDuringQuery) q1 v1
            (w1.withLocks lockAfterQuery) ∧
          QueryMeetsSpec ⟨w2, s2.issued, s2.ss⟩ fo2 (w2.withLocks lockDuringQuery) q2 v2
            (w2.withLocks lockAfterQuery) ∧
          (∀ e : Ent, e ∈ v1.map (·.e) ↔ e ∈ v2.map (·.e)) ∧ v1.length = v2.length ∧
          qCount (w1.withLocks lockDuringQuery) q1 = qCount (w2.withLocks lockDuringQuery) q2 ∧
          ∀ a ∈ v1, ∀ b ∈ v2, a.e = b.e → ∀ c : Comp,
            (w1.tbl a.table).getComp c a.row = (w2.tbl b.table).getComp c b.row := by
  obtain ⟨id1, w1, r1, H1', k1, p1, Q1⟩ := H1.cacheRegister X1 f rels
  obtain ⟨id2, w2, r2, H2', k2, p2, Q2⟩ := H2.cacheRegister X2 f rels
  have S' : Sim ⟨w1, s1.issued, s1.ss⟩ ⟨w2, s2.issued, s2.ss⟩ :=
    ⟨S.ss, S.issued, by show w1.kinds = w2.kinds; rw [k1, k2]; exact S.kinds,
      by show w1.pool.Core = w2.pool.Core; rw [p1, p2]; exact S.core⟩
  refine ⟨id1, id2, w1, w2, r1, r2, ?_⟩
  intro fo1 fo2 c1 f1 c2 f2
  obtain ⟨q1, v1, M1⟩ := Q1 fo1 c1 f1
  obtain ⟨q2, v2, M2⟩ := Q2 fo2 c2 f2
  exact ⟨q1, v1, q2, v2, M1, M2, S'.queries H1' H2' (f1.trans f2.symm) M1 M2⟩

/-! ## 8. the main theorem, on the worlds -/

/-- **C16 on the model worlds**: with `A` the state after `pre ++ [reset] ++ post` and `B` the state
    after `regsOf pre ++ post` on a new world,
    * the specification, the issued handles and the registry are equal;
    * the next handle a creation would return is the same;
    * for EVERY entity ID the component set and all component values agree;
    * `Alive` agrees for every issued handle, and for every handle whatsoever whose generation is
      not the sentinel `maxU32`;
    * every query from an unregistered filter object (whose mask requires its type parameters)
      succeeds on both sides, visits the same SET of entities — exactly the specified entities the
      filter matches —, counts the same, and the cells visited for the same entity hold the same
      values. -/
theorem reset_equiv_worlds (run1 run2 : ProbeRunner) (cap rel cap' rel' : Nat) (pre post : List Op)
    (hlen : pre.length + 1 + post.length < 2 ^ 32 - 2) :
    (reach run1 cap rel (pre ++ [.reset] ++ post)).ss =
      (reach run2 cap' rel' (regsOf pre ++ post)).ss ∧
    (reach run1 cap rel (pre ++ [.reset] ++ post)).issued =
      (reach run2 cap' rel' (regsOf pre ++ post)).issued ∧
    (reach run1 cap rel (pre ++ [.reset] ++ post)).w.kinds =
      (reach run2 cap' rel' (regsOf pre ++ post)).w.kinds ∧
    ((reach run1 cap rel (pre ++ [.reset] ++ post)).w.pool.get).2 =
      ((reach run2 cap' rel' (regsOf pre ++ post)).w.pool.get).2 ∧
    (∀ i : Nat,
      compsOf (reach run1 cap rel (pre ++ [.reset] ++ post)).w i =
        compsOf (reach run2 cap' rel' (regsOf pre ++ post)).w i ∧
      ∀ c : Comp, valOf (reach run1 cap rel (pre ++ [.reset] ++ post)).w i c =
        valOf (reach run2 cap' rel' (regsOf pre ++ post)).w i c) ∧
    (∀ h ∈ (reach run1 cap rel (pre ++ [.reset] ++ post)).issued,
      (reach run1 cap rel (pre ++ [.reset] ++ post)).w.alive h =
        (reach run2 cap' rel' (regsOf pre ++ post)).w.alive h) ∧
    (∀ h : Ent, h.gen ≠ maxU32 →
      (reach run1 cap rel (pre ++ [.reset] ++ post)).w.alive h =
        (reach run2 cap' rel' (regsOf pre ++ post)).w.alive h) ∧
    ∀ fo : FilterObj, fo.cache = none → FilterOK fo →
      ∃ q1 v1 q2 v2,
        QueryMeetsSpec (reach run1 cap rel (pre ++ [.reset] ++ post)) fo
          ((reach run1 cap rel (pre ++ [.reset] ++ post)).w.withLocks lockDuringQuery) q1 v1
          ((reach run1 cap rel (pre ++ [.reset] ++ post)).w.withLocks lockAfterQuery) ∧
        QueryMeetsSpec (reach run2 cap' rel' (regsOf pre ++ post)) fo
          ((reach run2 cap' rel' (regsOf pre ++ post)).w.withLocks lockDuringQuery) q2 v2
          ((reach run2 cap' rel' (regsOf pre ++ post)).w.withLocks lockAfterQuery) ∧
        (∀ e : Ent, e ∈ v1.map (·.e) ↔ e ∈ v2.map (·.e)) ∧ v1.length = v2.length ∧
        qCount ((reach run1 cap rel (pre ++ [.reset] ++ post)).w.withLocks lockDuringQuery) q1 =
          qCount ((reach run2 cap' rel' (regsOf pre ++ post)).w.withLocks lockDuringQuery) q2 ∧
        ∀ a ∈ v1, ∀ b ∈ v2, a.e = b.e → ∀ c : Comp,
          ((reach run1 cap rel (pre ++ [.reset] ++ post)).w.tbl a.table).getComp c a.row =
            ((reach run2 cap' rel' (regsOf pre ++ post)).w.tbl b.table).getComp c b.row := by
  have hl1 : (pre ++ [Op.reset] ++ post).length = pre.length + 1 + post.length := by
    simp only [List.length_append, List.length_singleton]
  have hl2 : (regsOf pre ++ post).length ≤ pre.length + post.length := by
    have := regsOf_length_le pre
    simp only [List.length_append]; omega
  obtain ⟨fl1, H1⟩ := reach_hinv run1 cap rel (pre ++ [.reset] ++ post) (by omega)
  obtain ⟨fl2, H2⟩ := reach_hinv run2 cap' rel' (regsOf pre ++ post) (by omega)
  have S := (reset_equiv run1 run2 cap rel cap' rel' pre post hlen).2
  obtain ⟨_, _, hnext, hobs, hal⟩ := S.observe H1 H2
  refine ⟨S.ss, S.issued, S.kinds, hnext, hobs, ?_, fun h hg => hal h (Or.inl hg), ?_⟩
  · intro h hi
    obtain ⟨_, sl, hsl, _⟩ := H1.ginv.issued_bound h hi
    exact hal h (Or.inr (List.getElem?_eq_some_iff.mp hsl).1)
  · intro fo hc hok
    obtain ⟨q1, v1, M1⟩ := query_exact run1 cap rel (pre ++ [.reset] ++ post) (by omega) fo hc hok
    obtain ⟨q2, v2, M2⟩ := query_exact run2 cap' rel' (regsOf pre ++ post) (by omega) fo hc hok
    exact ⟨q1, v1, q2, v2, M1, M2, S.queries H1 H2 rfl M1 M2⟩

/-- **C16, queries through the filter cache**: after `pre ++ [reset] ++ post` and after
    `regsOf pre ++ post`, registering the same filter succeeds on both sides, and the queries
    through the two cache entries visit the same set of entities, count the same and read the
    same values -/
theorem reset_equiv_cached (run1 run2 : ProbeRunner) (cap rel cap' rel' : Nat) (pre post : List Op)
    (hlen : pre.length + 1 + post.length < 2 ^ 32 - 2) (f : Filter) (rels : List RelID) :
    ∃ (id1 id2 : Nat) (w1 w2 : World),
      cacheRegister f rels (reach run1 cap rel (pre ++ [.reset] ++ post)).w = .ok id1 w1 ∧
      cacheRegister f rels (reach run2 cap' rel' (regsOf pre ++ post)).w = .ok id2 w2 ∧
      ∀ fo1 fo2 : FilterObj, fo1.cache = some id1 → fo1.filter = f → fo2.cache = some id2 →
        fo2.filter = f →
        ∃ q1 v1 q2 v2,
          QueryMeetsSpec ⟨w1, (reach run1 cap rel (pre ++ [.reset] ++ post)).issued,
            (reach run1 cap rel (pre ++ [.reset] ++ post)).ss⟩ fo1
            (w1.withLocks lockDuringQuery) q1 v1 (w1.withLocks lockAfterQuery) ∧
          QueryMeetsSpec ⟨w2, (reach run2 cap' rel' (regsOf pre ++ post)).issued,
            (reach run2 cap' rel' (regsOf pre ++ post)).ss⟩ fo2
            (w2.withLocks lockDuringQuery) q2 v2 (w2.withLocks lockAfterQuery) ∧
          (∀ e : Ent, e ∈ v1.map (·.e) ↔ e ∈ v2.map (·.e)) ∧ v1.length = v2.length ∧
          qCount (w1.withLocks lockDuringQuery) q1 = qCount (w2.withLocks lockDuringQuery) q2 ∧
          ∀ a ∈ v1, ∀ b ∈ v2, a.e = b.e → ∀ c : Comp,
            (w1.tbl a.table).getComp c a.row = (w2.tbl b.table).getComp c b.row := by
  have hl1 : (pre ++ [Op.reset] ++ post).length = pre.length + 1 + post.length := by
    simp only [List.length_append, List.length_singleton]
  have hl2 : (regsOf pre ++ post).length ≤ pre.length + post.length := by
    have := regsOf_length_le pre
    simp only [List.length_append]; omega
  obtain ⟨fl1, H1⟩ := reach_hinv run1 cap rel (pre ++ [.reset] ++ post) (by omega)
  obtain ⟨fl2, H2⟩ := reach_hinv run2 cap' rel' (regsOf pre ++ post) (by omega)
  have S := (reset_equiv run1 run2 cap rel cap' rel' pre post hlen).2
  exact S.queries_cached H1 H2 (reach_xinv run1 cap rel _ (by omega))
    (reach_xinv run2 cap' rel' _ (by omega)) f rels

end Refine

end Ark
