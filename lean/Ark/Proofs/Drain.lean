/-
  Ark.Proofs.Drain — property C03, iteration part: the cursor machine of `Query.Next`
  (`qNext` / `qNextTable` / `qNextArchetype`) visits exactly the rows of the tables selected by
  the counting walk (`qSelected`, which `Count` and `EntityAt` use), in the same order.
-/
import Ark.Model.Ops

namespace Ark
namespace Drain
open World

/-! ## Definitions -/

/-- the rows of table `t`, in order -/
def rowsOf (w : World) (t : Nat) : List (Nat × Nat) :=
  (List.range (w.tbl t).len).map (fun r => (t, r))

/-- the (table,row) pairs a query is expected to visit: the rows of the tables selected by the
    counting walk -/
def expected (w : World) (q : QueryObj) : Option (List (Nat × Nat)) :=
  (qSelected w q).map (fun ts => ts.flatMap (rowsOf w))

/-- `qNext` without its effect on the world (the final `qClose`): `none` = panic. -/
def qNextPure (w : World) (q : QueryObj) : Option (QueryObj × Bool) :=
  if q.table < -1 then none else
  if (q.index : Int) < q.maxIndex then some ({ q with index := q.index + 1 }, true) else
  match q.cacheTables with
  | some ts => qNextTable w q ts
  | none =>
    match (if q.archetype ≥ 0 then qNextTable w q q.tables else some (q, false)) with
    | none => none
    | some (q, true) => some (q, true)
    | some (q, false) => qNextArchetype w q

/-- iterate the pure step; result: final cursor, whether the end was reported (`Next` returned
    `false`), and the (table,row) pairs seen after each successful step. -/
def drainPureAux (w : World) (q : QueryObj) : Nat → Option (QueryObj × Bool × List (Nat × Nat))
  | 0 => some (q, false, [])
  | fuel + 1 =>
    match qNextPure w q with
    | none => none
    | some (q', false) => some (q', true, [])
    | some (q', true) =>
      (drainPureAux w q' fuel).map fun r => (r.1, r.2.1, (q'.cur.getD 0, q'.index) :: r.2.2)

/-- the visited (table,row) pairs -/
def drainPure (w : World) (q : QueryObj) (fuel : Nat) : Option (List (Nat × Nat)) :=
  (drainPureAux w q fuel).map (·.2.2)

/-- a freshly opened query -/
structure Fresh (q : QueryObj) : Prop where
  archetype : q.archetype = -1
  table : q.table = -1
  index : q.index = 0
  maxIndex : q.maxIndex = -1
  tables : q.tables = []
  cur : q.cur = none

/-! ## Denotation of the cursor state -/

/-- rows of the current table still to come -/
def curRows (q : QueryObj) : List (Nat × Nat) :=
  (List.range' (q.index + 1) ((q.maxIndex + 1).toNat - (q.index + 1))).map
    (fun r => (q.cur.getD 0, r))

/-- what the cursor yields from a list of tables (`nextTable` skips empty tables before
    looking at the relation targets) -/
def scanRows (w : World) (rels : List RelID) : List Nat → Option (List (Nat × Nat))
  | [] => some []
  | t :: rest =>
    if (w.tbl t).len == 0 then scanRows w rels rest else
    match (w.tbl t).matchesRels rels with
    | none => none
    | some false => scanRows w rels rest
    | some true => (scanRows w rels rest).map (rowsOf w t ++ ·)

/-- what the cursor yields from a list of archetypes -/
def archRows (w : World) (f : Filter) (rels : List RelID) : List Nat → Option (List (Nat × Nat))
  | [] => some []
  | a :: rest =>
    if !f.matchesMask (w.arch a).mask then archRows w f rels rest
    else if !(w.arch a).hasRelations then
      (archRows w f rels rest).map (rowsOf w ((w.arch a).tables.tables.getD 0 0) ++ ·)
    else
      match (w.arch a).getTables rels with
      | none => none
      | some ts =>
        match scanRows w rels ts with
        | none => none
        | some r1 => (archRows w f rels rest).map (r1 ++ ·)

/-- everything the cursor still yields from state `q` -/
def remaining (w : World) (q : QueryObj) : Option (List (Nat × Nat)) :=
  match q.cacheTables with
  | some ts => (scanRows w q.rels (ts.drop (q.table + 1).toNat)).map (curRows q ++ ·)
  | none =>
    match scanRows w q.rels (q.tables.drop (q.table + 1).toNat),
          archRows w q.filter q.rels ((w.archList q.rare).drop (q.archetype + 1).toNat) with
    | some r1, some r2 => some (curRows q ++ (r1 ++ r2))
    | _, _ => none

/-- fields no step changes -/
structure Frame (q q' : QueryObj) : Prop where
  filter : q'.filter = q.filter
  rels : q'.rels = q.rels
  cacheTables : q'.cacheTables = q.cacheTables
  rare : q'.rare = q.rare
  lockBit : q'.lockBit = q.lockBit

theorem Frame.refl (q : QueryObj) : Frame q q := ⟨rfl, rfl, rfl, rfl, rfl⟩

theorem Frame.trans {a b c : QueryObj} (h1 : Frame a b) (h2 : Frame b c) : Frame a c :=
  ⟨h2.filter.trans h1.filter, h2.rels.trans h1.rels, h2.cacheTables.trans h1.cacheTables,
   h2.rare.trans h1.rare, h2.lockBit.trans h1.lockBit⟩

/-- loop invariant of the cursor between two `Next` calls -/
structure Inv (q : QueryObj) : Prop where
  table_ge : -1 ≤ q.table
  arch_ge : -1 ≤ q.archetype
  fresh_tables : q.archetype < 0 → q.tables = []
  cur_ok : 0 ≤ q.maxIndex → (∃ t, q.cur = some t) ∧ 0 ≤ q.table

/-! ## Small list facts -/

theorem rowsOf_eq (w : World) (t : Nat) :
    rowsOf w t = (List.range' 0 (w.tbl t).len).map (fun r => (t, r)) := by
  simp [rowsOf, List.range_eq_range']

theorem rowsOf_length (w : World) (t : Nat) : (rowsOf w t).length = (w.tbl t).len := by
  simp [rowsOf]

theorem rowsOf_empty (w : World) (t : Nat) (h : (w.tbl t).len = 0) : rowsOf w t = [] := by
  simp [rowsOf, h]

/-- `q'` differs from `q` only in cursor fields below the archetype level -/
structure Keep (q q' : QueryObj) : Prop extends Frame q q' where
  archetype : q'.archetype = q.archetype
  tables : q'.tables = q.tables

/-- outcome of `nextTable` relative to the rows its table list still yields -/
def TblOut (w : World) (tables : List Nat) (q : QueryObj) (res : Option (QueryObj × Bool)) :
    List (Nat × Nat) → Prop
  | [] => ∃ q', res = some (q', false) ∧ Keep q q' ∧ -1 ≤ q'.table
  | r :: rs => ∃ q', res = some (q', true) ∧ Keep q q' ∧ 0 ≤ q'.table ∧ 0 ≤ q'.maxIndex ∧
      q'.cur = some r.1 ∧ q'.index = r.2 ∧
      ∃ r1, scanRows w q.rels (tables.drop (q'.table + 1).toNat) = some r1 ∧ rs = curRows q' ++ r1

theorem Keep.refl (q : QueryObj) : Keep q q := ⟨Frame.refl q, rfl, rfl⟩

theorem Keep.trans {a b c : QueryObj} (h1 : Keep a b) (h2 : Keep b c) : Keep a c :=
  ⟨h1.toFrame.trans h2.toFrame, h2.archetype.trans h1.archetype, h2.tables.trans h1.tables⟩

theorem TblOut.of_keep {w : World} {tables : List Nat} {q0 q : QueryObj}
    {res : Option (QueryObj × Bool)} {rows : List (Nat × Nat)} (hk : Keep q0 q)
    (h : TblOut w tables q res rows) : TblOut w tables q0 res rows := by
  cases rows with
  | nil =>
    obtain ⟨q', h1, h2, h3⟩ := h
    exact ⟨q', h1, hk.trans h2, h3⟩
  | cons r rs =>
    obtain ⟨q', h1, h2, h3, h4, h5, h6, r1, h7, h8⟩ := h
    exact ⟨q', h1, hk.trans h2, h3, h4, h5, h6, r1, hk.rels ▸ h7, h8⟩

theorem rowsOf_cons (w : World) (t : Nat) (h : (w.tbl t).len ≠ 0) :
    rowsOf w t = (t, 0) :: (List.range' 1 ((w.tbl t).len - 1)).map (fun r => (t, r)) := by
  rw [rowsOf_eq]
  obtain ⟨n, hn⟩ : ∃ n, (w.tbl t).len = n + 1 := ⟨(w.tbl t).len - 1, by omega⟩
  rw [hn]; simp [List.range'_succ]

theorem curRows_setTable (w : World) (q : QueryObj) (k : Int) (t : Nat) :
    curRows (qSetTable w q k t) = (List.range' 1 ((w.tbl t).len - 1)).map (fun r => (t, r)) := by
  simp only [curRows, qSetTable, Option.getD_some]
  congr 2
  omega

/-- `nextTable`'s loop: skips empty and non-matching tables, stops at the first non-empty
    matching one; the internal fuel `suf.length` is enough. -/
theorem nextTable_go (w : World) (tables : List Nat) :
    ∀ (suf : List Nat) (q : QueryObj) (fuel : Nat) (rows : List (Nat × Nat)),
      -1 ≤ q.table → tables.drop (q.table + 1).toNat = suf → suf.length ≤ fuel →
      scanRows w q.rels suf = some rows →
      TblOut w tables q (qNextTable.go w tables q fuel) rows := by
  intro suf
  induction suf with
  | nil =>
    intro q fuel rows hge hdrop _ hscan
    simp only [scanRows, Option.some.injEq] at hscan
    subst hscan
    have hlen : tables.length ≤ (q.table + 1).toNat := List.drop_eq_nil_iff.mp hdrop
    have hres : qNextTable.go w tables q fuel = some (q, false) := by
      cases fuel with
      | zero => rfl
      | succ f =>
        rw [qNextTable.go.eq_2]
        have : ¬ q.table < (tables.length : Int) - 1 := by omega
        simp [this]
    exact ⟨q, hres, ⟨Frame.refl q, rfl, rfl⟩, hge⟩
  | cons t rest ih =>
    intro q fuel rows hge hdrop hfuel hscan
    have hlen : (q.table + 1).toNat < tables.length := by
      apply Nat.lt_of_not_le
      intro h
      rw [List.drop_eq_nil_iff.mpr h] at hdrop
      cases hdrop
    rw [List.drop_eq_getElem_cons hlen] at hdrop
    injection hdrop with ht hrest
    obtain ⟨f, rfl⟩ : ∃ f, fuel = f + 1 := ⟨fuel - 1, by simp at hfuel; omega⟩
    have hcond : q.table < (tables.length : Int) - 1 := by omega
    have hget : tables.getD (q.table + 1).toNat 0 = t := by
      simp [List.getD_eq_getElem?_getD, hlen, ht]
    have hrest' : tables.drop ((q.table + 1) + 1).toNat = rest := by
      rw [← hrest]; congr 1; omega
    have hf : rest.length ≤ f := by simp at hfuel; omega
    rw [qNextTable.go.eq_2]
    simp only [hcond, if_true, hget]
    simp only [scanRows] at hscan
    -- the stepped cursor
    have step := fun rows hs =>
      ih { q with table := q.table + 1 } f rows (by show -1 ≤ q.table + 1; omega) hrest' hf hs
    by_cases hl : (w.tbl t).len = 0
    · simp only [hl, beq_self_eq_true, if_true] at hscan ⊢
      exact TblOut.of_keep (q := { q with table := q.table + 1 }) ⟨⟨rfl, rfl, rfl, rfl, rfl⟩, rfl, rfl⟩
            (step rows hscan)
    · have hl' : ((w.tbl t).len == 0) = false := by simp [hl]
      simp only [hl', Bool.false_eq_true, if_false] at hscan ⊢
      cases hm : (w.tbl t).matchesRels q.rels with
      | none => simp [hm] at hscan
      | some b =>
        cases b with
        | false =>
          simp only [hm] at hscan ⊢
          exact TblOut.of_keep (q := { q with table := q.table + 1 }) ⟨⟨rfl, rfl, rfl, rfl, rfl⟩, rfl, rfl⟩
            (step rows hscan)
        | true =>
          simp only [hm, Option.map_eq_some_iff] at hscan ⊢
          obtain ⟨r1, hr1, rfl⟩ := hscan
          rw [rowsOf_cons w t hl]
          refine ⟨_, rfl, ⟨⟨rfl, rfl, rfl, rfl, rfl⟩, rfl, rfl⟩, ?_, ?_, rfl, rfl, r1, ?_, ?_⟩
          · show 0 ≤ q.table + 1; omega
          · show 0 ≤ ((w.tbl t).len : Int) - 1; omega
          · show scanRows w q.rels (tables.drop ((q.table + 1) + 1).toNat) = some r1
            rw [hrest']; exact hr1
          · rw [curRows_setTable]; rfl

/-- `nextTable(tables)`: its internal fuel `tables.length + 1` is always sufficient. -/
theorem nextTable_out (w : World) (tables : List Nat) (q : QueryObj) (rows : List (Nat × Nat))
    (hge : -1 ≤ q.table)
    (hscan : scanRows w q.rels (tables.drop (q.table + 1).toNat) = some rows) :
    TblOut w tables q (qNextTable w q tables) rows := by
  show TblOut w tables q (qNextTable.go w tables q (tables.length + 1)) rows
  exact nextTable_go w tables _ q _ rows hge rfl (by simp; omega) hscan

theorem scanRows_nil_drop (w : World) (rels : List RelID) :
    ∀ (ts : List Nat) (k : Nat), scanRows w rels ts = some [] → scanRows w rels (ts.drop k) = some [] := by
  intro ts
  induction ts with
  | nil => intro k h; simpa using h
  | cons t rest ih =>
    intro k h
    cases k with
    | zero => simpa using h
    | succ k =>
      simp only [List.drop_succ_cons]
      apply ih
      simp only [scanRows] at h
      by_cases hl : (w.tbl t).len = 0
      · simpa [hl] using h
      · have hl' : ((w.tbl t).len == 0) = false := by simp [hl]
        simp only [hl', Bool.false_eq_true, if_false] at h
        cases hm : (w.tbl t).matchesRels rels with
        | none => simp [hm] at h
        | some b =>
          cases b with
          | false => simpa [hm] using h
          | true =>
            simp only [hm, Option.map_eq_some_iff] at h
            obtain ⟨r1, _, h2⟩ := h
            rw [rowsOf_cons w t hl] at h2
            cases h2

/-- outcome of `nextArchetype` relative to the rows its archetype list still yields -/
def ArchOut (w : World) (archs : List Nat) (q : QueryObj) (res : Option (QueryObj × Bool)) :
    List (Nat × Nat) → Prop
  | [] => ∃ q', res = some (q', false) ∧ Frame q q' ∧ -1 ≤ q'.table
  | r :: rs => ∃ q', res = some (q', true) ∧ Frame q q' ∧ 0 ≤ q'.table ∧ 0 ≤ q'.archetype ∧
      0 ≤ q'.maxIndex ∧ q'.cur = some r.1 ∧ q'.index = r.2 ∧
      ∃ r1 r2, scanRows w q.rels (q'.tables.drop (q'.table + 1).toNat) = some r1 ∧
        archRows w q.filter q.rels (archs.drop (q'.archetype + 1).toNat) = some r2 ∧
        rs = curRows q' ++ (r1 ++ r2)

theorem ArchOut.of_frame {w : World} {archs : List Nat} {q0 q : QueryObj}
    {res : Option (QueryObj × Bool)} {rows : List (Nat × Nat)} (hk : Frame q0 q)
    (h : ArchOut w archs q res rows) : ArchOut w archs q0 res rows := by
  cases rows with
  | nil =>
    obtain ⟨q', h1, h2, h3⟩ := h
    exact ⟨q', h1, hk.trans h2, h3⟩
  | cons r rs =>
    obtain ⟨q', h1, h2, h3, h4, h5, h6, h7, r1, r2, h8, h9, h10⟩ := h
    exact ⟨q', h1, hk.trans h2, h3, h4, h5, h6, h7, r1, r2, hk.rels ▸ h8,
      hk.rels ▸ hk.filter ▸ h9, h10⟩

/-- `nextArchetype`'s loop: skips archetypes whose mask does not match; takes the single table
    of a non-relation archetype if it is non-empty; delegates to `nextTable` on
    `GetTables(relations)` for a relation archetype.  Fuel `suf.length` is enough.  `q.tables`
    may be a stale list of a previous relation archetype: all its tables were rejected. -/
theorem nextArchetype_go (w : World) (archs : List Nat) :
    ∀ (suf : List Nat) (q : QueryObj) (fuel : Nat) (rows : List (Nat × Nat)),
      -1 ≤ q.archetype → -1 ≤ q.table → scanRows w q.rels q.tables = some [] →
      archs.drop (q.archetype + 1).toNat = suf → suf.length ≤ fuel →
      archRows w q.filter q.rels suf = some rows →
      ArchOut w archs q (qNextArchetype.go w archs q fuel) rows := by
  intro suf
  induction suf with
  | nil =>
    intro q fuel rows hge htab _ hdrop _ hscan
    simp only [archRows, Option.some.injEq] at hscan
    subst hscan
    have hlen : archs.length ≤ (q.archetype + 1).toNat := List.drop_eq_nil_iff.mp hdrop
    have hres : qNextArchetype.go w archs q fuel = some (q, false) := by
      cases fuel with
      | zero => rfl
      | succ f =>
        rw [qNextArchetype.go.eq_2]
        have : ¬ q.archetype < (archs.length : Int) - 1 := by omega
        simp [this]
    exact ⟨q, hres, Frame.refl q, htab⟩
  | cons a rest ih =>
    intro q fuel rows hge htab hstale hdrop hfuel hscan
    have hlen : (q.archetype + 1).toNat < archs.length := by
      apply Nat.lt_of_not_le
      intro h
      rw [List.drop_eq_nil_iff.mpr h] at hdrop
      cases hdrop
    rw [List.drop_eq_getElem_cons hlen] at hdrop
    injection hdrop with ha hrest
    obtain ⟨f, rfl⟩ : ∃ f, fuel = f + 1 := ⟨fuel - 1, by simp at hfuel; omega⟩
    have hcond : q.archetype < (archs.length : Int) - 1 := by omega
    have hget : archs.getD (q.archetype + 1).toNat 0 = a := by
      simp [List.getD_eq_getElem?_getD, hlen, ha]
    have hrest' : archs.drop ((q.archetype + 1) + 1).toNat = rest := by
      rw [← hrest]; congr 1; omega
    have hf : rest.length ≤ f := by simp at hfuel; omega
    have hge1 : (-1 : Int) ≤ q.archetype + 1 := by omega
    rw [qNextArchetype.go.eq_2]
    simp only [hcond, if_true, hget]
    simp only [archRows] at hscan
    have fr1 : Frame q { q with archetype := q.archetype + 1 } := ⟨rfl, rfl, rfl, rfl, rfl⟩
    by_cases hmask : q.filter.matchesMask (w.arch a).mask = true
    · simp only [hmask, Bool.not_true, Bool.false_eq_true, if_false] at hscan ⊢
      by_cases hrel : (w.arch a).hasRelations = true
      · simp only [hrel, Bool.not_true, Bool.false_eq_true, if_false] at hscan ⊢
        cases hgt : (w.arch a).getTables q.rels with
        | none => simp [hgt] at hscan
        | some ts =>
          simp only [hgt] at hscan ⊢
          cases hsc : scanRows w q.rels ts with
          | none => simp [hsc] at hscan
          | some rA =>
            simp only [hsc, Option.map_eq_some_iff] at hscan
            obtain ⟨r2, hr2, rfl⟩ := hscan
            have nt := nextTable_out w ts
              { q with archetype := q.archetype + 1, tables := ts, table := -1 } rA
              (by show (-1 : Int) ≤ -1; omega) (by simpa using hsc)
            cases rA with
            | nil =>
              obtain ⟨q3, h3, hk3, ht3⟩ := nt
              simp only [h3, List.nil_append]
              refine ArchOut.of_frame (q := q3) ⟨hk3.filter, hk3.rels, hk3.cacheTables, hk3.rare, hk3.lockBit⟩ ?_
              have e1 : q3.rels = q.rels := hk3.rels
              have e2 : q3.filter = q.filter := hk3.filter
              have e3 : q3.archetype = q.archetype + 1 := hk3.archetype
              have e4 : q3.tables = ts := hk3.tables
              apply ih q3 f r2 (by rw [e3]; exact hge1) ht3 (by rw [e1, e4]; exact hsc)
                (by rw [e3]; exact hrest') hf (by rw [e1, e2]; exact hr2)
            | cons r rs =>
              obtain ⟨q3, h3, hk3, ht3, hm3, hc3, hi3, r1, hr1, hrs⟩ := nt
              simp only [h3, List.cons_append]
              have e3 : q3.archetype = q.archetype + 1 := hk3.archetype
              have e4 : q3.tables = ts := hk3.tables
              refine ⟨q3, rfl, ⟨hk3.filter, hk3.rels, hk3.cacheTables, hk3.rare, hk3.lockBit⟩, ht3, by omega, hm3, hc3, hi3, r1, r2,
                by rw [e4]; exact hr1, by rw [e3, hrest']; exact hr2, ?_⟩
              rw [hrs, List.append_assoc]
      · have hrel' : (w.arch a).hasRelations = false := by simpa using hrel
        simp only [hrel', Bool.not_false, if_true, Option.map_eq_some_iff] at hscan ⊢
        obtain ⟨r2, hr2, rfl⟩ := hscan
        by_cases hl : (w.tbl ((w.arch a).tables.tables.getD 0 0)).len = 0
        · have : ¬ (w.tbl ((w.arch a).tables.tables.getD 0 0)).len > 0 := by omega
          simp only [this, if_false, rowsOf_empty w _ hl, List.nil_append]
          exact ArchOut.of_frame (q := { q with archetype := q.archetype + 1 }) fr1
            (ih _ f r2 hge1 htab hstale hrest' hf hr2)
        · have : (w.tbl ((w.arch a).tables.tables.getD 0 0)).len > 0 := by omega
          simp only [this, if_true, rowsOf_cons w _ hl, List.cons_append]
          refine ⟨_, rfl, ⟨rfl, rfl, rfl, rfl, rfl⟩, ?_, ?_, ?_, rfl, rfl, [], r2, ?_, ?_, ?_⟩
          · show (0 : Int) ≤ 0; omega
          · show 0 ≤ q.archetype + 1; omega
          · show 0 ≤ ((w.tbl ((w.arch a).tables.tables.getD 0 0)).len : Int) - 1; omega
          · exact scanRows_nil_drop w q.rels q.tables _ hstale
          · show archRows w q.filter q.rels (archs.drop ((q.archetype + 1) + 1).toNat) = some r2
            rw [hrest']; exact hr2
          · rw [curRows_setTable]; rfl
    · have hmask' : q.filter.matchesMask (w.arch a).mask = false := by simpa using hmask
      simp only [hmask', Bool.not_false, if_true] at hscan ⊢
      exact ArchOut.of_frame (q := { q with archetype := q.archetype + 1 }) fr1
        (ih _ f rows hge1 htab hstale hrest' hf hscan)

/-- `nextArchetype`: its internal fuel `archs.length + 1` is always sufficient. -/
theorem nextArchetype_out (w : World) (q : QueryObj) (rows : List (Nat × Nat))
    (hge : -1 ≤ q.archetype) (htab : -1 ≤ q.table)
    (hscan : archRows w q.filter q.rels ((w.archList q.rare).drop (q.archetype + 1).toNat)
      = some rows) :
    ArchOut w (w.archList q.rare) q (qNextArchetype w q) rows := by
  show ArchOut w (w.archList q.rare) q (qNextArchetype.go w (w.archList q.rare)
    { q with tables := [] } ((w.archList q.rare).length + 1)) rows
  exact ArchOut.of_frame (q := { q with tables := [] }) ⟨rfl, rfl, rfl, rfl, rfl⟩
    (nextArchetype_go w _ _ { q with tables := [] } _ rows hge htab rfl rfl (by simp; omega) hscan)

/-! ## One `Next` step -/

theorem curRows_step (q : QueryObj) (h : (q.index : Int) < q.maxIndex) :
    curRows q = (q.cur.getD 0, q.index + 1) :: curRows { q with index := q.index + 1 } := by
  simp only [curRows]
  obtain ⟨k, hk⟩ : ∃ k, (q.maxIndex + 1).toNat - (q.index + 1) = k + 1 :=
    ⟨(q.maxIndex + 1).toNat - (q.index + 1) - 1, by omega⟩
  have hk2 : (q.maxIndex + 1).toNat - (q.index + 1 + 1) = k := by omega
  rw [hk, hk2, List.range'_succ]
  rfl

theorem curRows_done (q : QueryObj) (h : ¬ (q.index : Int) < q.maxIndex) : curRows q = [] := by
  simp only [curRows]
  have : (q.maxIndex + 1).toNat - (q.index + 1) = 0 := by omega
  rw [this]; rfl

/-- outcome of one `Next` relative to the rows still to come -/
def StepOut (w : World) (q : QueryObj) (res : Option (QueryObj × Bool)) :
    List (Nat × Nat) → Prop
  | [] => ∃ q', res = some (q', false) ∧ Frame q q' ∧ -1 ≤ q'.table
  | r :: rs => ∃ q', res = some (q', true) ∧ Frame q q' ∧ Inv q' ∧ 0 ≤ q'.table ∧
      q'.cur = some r.1 ∧ q'.index = r.2 ∧ remaining w q' = some rs

theorem StepOut.of_frame {w : World} {q0 q : QueryObj}
    {res : Option (QueryObj × Bool)} {rows : List (Nat × Nat)} (hk : Frame q0 q)
    (h : StepOut w q res rows) : StepOut w q0 res rows := by
  cases rows with
  | nil =>
    obtain ⟨q', h1, h2, h3⟩ := h
    exact ⟨q', h1, hk.trans h2, h3⟩
  | cons r rs =>
    obtain ⟨q', h1, h2, h3⟩ := h
    exact ⟨q', h1, hk.trans h2, h3⟩

theorem StepOut.of_arch {w : World} {q : QueryObj} {res : Option (QueryObj × Bool)}
    {rows : List (Nat × Nat)} (hc : q.cacheTables = none)
    (h : ArchOut w (w.archList q.rare) q res rows) : StepOut w q res rows := by
  cases rows with
  | nil => exact h
  | cons r rs =>
    obtain ⟨q', h1, h2, h3, h4, h5, h6, h7, r1, r2, h8, h9, h10⟩ := h
    refine ⟨q', h1, h2, ⟨by omega, by omega, fun hh => by omega, fun _ => ⟨⟨_, h6⟩, h3⟩⟩,
      h3, h6, h7, ?_⟩
    simp only [remaining, h2.cacheTables, hc, h2.rels, h2.filter, h2.rare, h8, h9, h10]

/-- one `Next` call from a state satisfying the invariant yields the head of the remaining
    rows (or reports the end when there are none) and re-establishes the invariant -/
theorem step (w : World) (q : QueryObj) (rows : List (Nat × Nat)) (hinv : Inv q)
    (hrem : remaining w q = some rows) : StepOut w q (qNextPure w q) rows := by
  have hlt : ¬ q.table < -1 := by have := hinv.table_ge; omega
  by_cases hidx : (q.index : Int) < q.maxIndex
  · -- next row of the current table
    have hres : qNextPure w q = some ({ q with index := q.index + 1 }, true) := by
      simp [qNextPure, hlt, hidx]
    obtain ⟨⟨t, ht⟩, htab⟩ := hinv.cur_ok (by omega)
    rw [hres]
    have key : ∃ rs, rows = (q.cur.getD 0, q.index + 1) :: rs ∧
        remaining w { q with index := q.index + 1 } = some rs := by
      simp only [remaining] at hrem ⊢
      rw [curRows_step q hidx] at hrem
      cases hc : q.cacheTables with
      | some ts =>
        simp only [hc, Option.map_eq_some_iff] at hrem ⊢
        obtain ⟨x, hx, rfl⟩ := hrem
        exact ⟨_, rfl, x, hx, rfl⟩
      | none =>
        simp only [hc] at hrem ⊢
        split at hrem
        · next r1 r2 h1 h2 =>
          simp only [Option.some.injEq] at hrem
          subst hrem
          exact ⟨_, rfl, rfl⟩
        · cases hrem
    obtain ⟨rs, rfl, hrs⟩ := key
    exact ⟨_, rfl, ⟨rfl, rfl, rfl, rfl, rfl⟩,
      ⟨hinv.table_ge, hinv.arch_ge, hinv.fresh_tables, hinv.cur_ok⟩, htab, by simp [ht], rfl, hrs⟩
  · have hcr := curRows_done q hidx
    cases hc : q.cacheTables with
    | some ts =>
      have hres : qNextPure w q = qNextTable w q ts := by
        simp [qNextPure, hlt, hidx, hc]
      simp only [remaining, hc, hcr, List.nil_append, Option.map_id'] at hrem
      have nt := nextTable_out w ts q rows hinv.table_ge hrem
      rw [hres]
      cases rows with
      | nil =>
        obtain ⟨q', h1, h2, h3⟩ := nt
        exact ⟨q', h1, h2.toFrame, h3⟩
      | cons r rs =>
        obtain ⟨q', h1, h2, h3, h4, h5, h6, r1, h7, h8⟩ := nt
        refine ⟨q', h1, h2.toFrame, ⟨by omega, by rw [h2.archetype]; exact hinv.arch_ge,
          fun hh => by rw [h2.tables]; exact hinv.fresh_tables (by rw [← h2.archetype]; exact hh),
          fun _ => ⟨⟨_, h5⟩, h3⟩⟩, h3, h5, h6, ?_⟩
        simp only [remaining, h2.cacheTables, hc, h2.rels, h7, h8, Option.map_some]
    | none =>
      simp only [remaining, hc, hcr, List.nil_append] at hrem
      split at hrem
      · next r1 r2 h1 h2 =>
        simp only [Option.some.injEq] at hrem
        subst hrem
        by_cases ha : q.archetype ≥ 0
        · have hres : qNextPure w q =
              match qNextTable w q q.tables with
              | none => none
              | some (q, true) => some (q, true)
              | some (q, false) => qNextArchetype w q := by
            simp [qNextPure, hlt, hidx, hc, ha]
          have nt := nextTable_out w q.tables q r1 hinv.table_ge h1
          rw [hres]
          cases r1 with
          | nil =>
            obtain ⟨q', h3, hk, h4⟩ := nt
            simp only [h3, List.nil_append]
            refine StepOut.of_frame hk.toFrame (StepOut.of_arch (hk.cacheTables.trans hc) ?_)
            apply nextArchetype_out w q' r2 (by rw [hk.archetype]; exact hinv.arch_ge) h4
            rw [hk.filter, hk.rels, hk.rare, hk.archetype]; exact h2
          | cons r rs =>
            obtain ⟨q', h3, hk, h4, h5, h6, h7, r1', h8, h9⟩ := nt
            simp only [h3, List.cons_append]
            refine ⟨q', rfl, hk.toFrame, ⟨by omega, by rw [hk.archetype]; exact hinv.arch_ge,
              fun hh => by rw [hk.tables]; exact hinv.fresh_tables (by rw [← hk.archetype]; exact hh),
              fun _ => ⟨⟨_, h6⟩, h4⟩⟩, h4, h6, h7, ?_⟩
            simp only [remaining, hk.cacheTables, hc, hk.rels, hk.filter, hk.rare, hk.tables,
              hk.archetype, h8, h2, h9, List.append_assoc]
        · have hres : qNextPure w q = qNextArchetype w q := by
            simp [qNextPure, hlt, hidx, hc, ha]
          have ht : q.tables = [] := hinv.fresh_tables (by omega)
          rw [ht] at h1
          simp only [List.drop_nil, scanRows, Option.some.injEq] at h1
          subst h1
          rw [hres]
          exact StepOut.of_arch hc (nextArchetype_out w q _ hinv.arch_ge hinv.table_ge h2)
      · cases hrem

/-! ## Draining -/

theorem drainAux_of_remaining (w : World) :
    ∀ (rows : List (Nat × Nat)) (q : QueryObj) (fuel : Nat), Inv q → remaining w q = some rows →
      rows.length < fuel →
      ∃ qf, drainPureAux w q fuel = some (qf, true, rows) ∧ Frame q qf ∧ -1 ≤ qf.table := by
  intro rows
  induction rows with
  | nil =>
    intro q fuel hinv hrem hfuel
    obtain ⟨f, rfl⟩ : ∃ f, fuel = f + 1 := ⟨fuel - 1, by simp at hfuel; omega⟩
    obtain ⟨q', h1, h2, h3⟩ := step w q [] hinv hrem
    exact ⟨q', by simp [drainPureAux, h1], h2, h3⟩
  | cons r rs ih =>
    intro q fuel hinv hrem hfuel
    obtain ⟨f, rfl⟩ : ∃ f, fuel = f + 1 := ⟨fuel - 1, by simp at hfuel; omega⟩
    obtain ⟨q', h1, h2, h3, _, h5, h6, h7⟩ := step w q (r :: rs) hinv hrem
    obtain ⟨qf, g1, g2, g3⟩ := ih q' f h3 h7 (by simp at hfuel; omega)
    refine ⟨qf, ?_, h2.trans g2, g3⟩
    simp [drainPureAux, h1, g1, h5, h6]

/-! ## The counting walk, recursively -/

/-- step of the cached counting walk -/
def selC (w : World) (rels : List RelID) (acc : Option (List Nat)) (t : Nat) : Option (List Nat) :=
  match acc with
  | none => none
  | some acc =>
    let T := w.tbl t
    if T.len == 0 then some acc else
    match T.matchesRels rels with
    | none => none
    | some true => some (acc ++ [t])
    | some false => some acc

/-- inner step of the uncached counting walk (tables of a relation archetype) -/
def selT (w : World) (rels : List RelID) (acc : Option (List Nat)) (t : Nat) : Option (List Nat) :=
  match acc with
  | none => none
  | some acc =>
    match (w.tbl t).matchesRels rels with
    | none => none
    | some true => some (acc ++ [t])
    | some false => some acc

/-- outer step of the uncached counting walk -/
def selA (w : World) (f : Filter) (rels : List RelID) (acc : Option (List Nat)) (a : Nat) :
    Option (List Nat) :=
  match acc with
  | none => none
  | some acc =>
    let A := w.arch a
    if !f.matchesMask A.mask then some acc
    else if !A.hasRelations then some (acc ++ [A.tables.tables.getD 0 0])
    else match A.getTables rels with
      | none => none
      | some ts => ts.foldl (selT w rels) (some acc)

theorem qSelected_eq (w : World) (q : QueryObj) :
    qSelected w q = match q.cacheTables with
      | some ts => ts.foldl (selC w q.rels) (some [])
      | none => (w.archList q.rare).foldl (selA w q.filter q.rels) (some []) := rfl

theorem foldl_selC_none (w : World) (rels : List RelID) (ts : List Nat) :
    ts.foldl (selC w rels) none = none := by
  induction ts with
  | nil => rfl
  | cons t rest ih => simpa [selC] using ih

theorem foldl_selT_none (w : World) (rels : List RelID) (ts : List Nat) :
    ts.foldl (selT w rels) none = none := by
  induction ts with
  | nil => rfl
  | cons t rest ih => simpa [selT] using ih

theorem foldl_selA_none (w : World) (f : Filter) (rels : List RelID) (as : List Nat) :
    as.foldl (selA w f rels) none = none := by
  induction as with
  | nil => rfl
  | cons t rest ih => simpa [selA] using ih

theorem selC_spec (w : World) (rels : List RelID) :
    ∀ (ts : List Nat) (acc res : List Nat), ts.foldl (selC w rels) (some acc) = some res →
      ∃ sel, res = acc ++ sel ∧ scanRows w rels ts = some (sel.flatMap (rowsOf w)) := by
  intro ts
  induction ts with
  | nil =>
    intro acc res h
    simp only [List.foldl_nil, Option.some.injEq] at h
    exact ⟨[], by simp [h], rfl⟩
  | cons t rest ih =>
    intro acc res h
    simp only [List.foldl_cons] at h
    simp only [scanRows]
    by_cases hl : (w.tbl t).len = 0
    · have e : selC w rels (some acc) t = some acc := by simp [selC, hl]
      rw [e] at h
      simpa [hl] using ih acc res h
    · have hl' : ((w.tbl t).len == 0) = false := by simp [hl]
      simp only [hl', Bool.false_eq_true, if_false]
      cases hm : (w.tbl t).matchesRels rels with
      | none =>
        have e : selC w rels (some acc) t = none := by simp [selC, hl, hm]
        rw [e, foldl_selC_none] at h
        cases h
      | some b =>
        cases b with
        | false =>
          have e : selC w rels (some acc) t = some acc := by simp [selC, hl, hm]
          rw [e] at h
          simpa using ih acc res h
        | true =>
          have e : selC w rels (some acc) t = some (acc ++ [t]) := by simp [selC, hl, hm]
          rw [e] at h
          obtain ⟨sel, h1, h2⟩ := ih _ res h
          exact ⟨t :: sel, by simp [h1], by simp [h2]⟩

theorem selT_spec (w : World) (rels : List RelID) :
    ∀ (ts : List Nat) (acc res : List Nat), ts.foldl (selT w rels) (some acc) = some res →
      ∃ sel, res = acc ++ sel ∧ scanRows w rels ts = some (sel.flatMap (rowsOf w)) := by
  intro ts
  induction ts with
  | nil =>
    intro acc res h
    simp only [List.foldl_nil, Option.some.injEq] at h
    exact ⟨[], by simp [h], rfl⟩
  | cons t rest ih =>
    intro acc res h
    simp only [List.foldl_cons] at h
    simp only [scanRows]
    cases hm : (w.tbl t).matchesRels rels with
    | none =>
      have e : selT w rels (some acc) t = none := by simp [selT, hm]
      rw [e, foldl_selT_none] at h
      cases h
    | some b =>
      cases b with
      | false =>
        have e : selT w rels (some acc) t = some acc := by simp [selT, hm]
        rw [e] at h
        obtain ⟨sel, h1, h2⟩ := ih acc res h
        exact ⟨sel, h1, by simp [h2]⟩
      | true =>
        have e : selT w rels (some acc) t = some (acc ++ [t]) := by simp [selT, hm]
        rw [e] at h
        obtain ⟨sel, h1, h2⟩ := ih _ res h
        refine ⟨t :: sel, by simp [h1], ?_⟩
        by_cases hl : (w.tbl t).len = 0
        · simp [hl, h2, rowsOf_empty w t hl]
        · simp [hl, h2]

theorem selA_spec (w : World) (f : Filter) (rels : List RelID) :
    ∀ (as : List Nat) (acc res : List Nat), as.foldl (selA w f rels) (some acc) = some res →
      ∃ sel, res = acc ++ sel ∧ archRows w f rels as = some (sel.flatMap (rowsOf w)) := by
  intro as
  induction as with
  | nil =>
    intro acc res h
    simp only [List.foldl_nil, Option.some.injEq] at h
    exact ⟨[], by simp [h], rfl⟩
  | cons a rest ih =>
    intro acc res h
    simp only [List.foldl_cons] at h
    cases hx : selA w f rels (some acc) a with
    | none => rw [hx, foldl_selA_none] at h; cases h
    | some acc' =>
      rw [hx] at h
      obtain ⟨sel', h1, h2⟩ := ih acc' res h
      simp only [archRows]
      simp only [selA] at hx
      by_cases hmask : f.matchesMask (w.arch a).mask = true
      · simp only [hmask, Bool.not_true, Bool.false_eq_true, if_false] at hx ⊢
        by_cases hrel : (w.arch a).hasRelations = true
        · simp only [hrel, Bool.not_true, Bool.false_eq_true, if_false] at hx ⊢
          cases hgt : (w.arch a).getTables rels with
          | none => simp [hgt] at hx
          | some ts =>
            simp only [hgt] at hx ⊢
            obtain ⟨selA', g1, g2⟩ := selT_spec w rels ts acc acc' hx
            exact ⟨selA' ++ sel', by simp [h1, g1], by simp [g2, h2]⟩
        · have hrel' : (w.arch a).hasRelations = false := by simpa using hrel
          simp only [hrel', Bool.not_false, if_true, Option.some.injEq] at hx ⊢
          exact ⟨(w.arch a).tables.tables.getD 0 0 :: sel', by simp [h1, ← hx], by simp [h2]⟩
      · have hmask' : f.matchesMask (w.arch a).mask = false := by simpa using hmask
        simp only [hmask', Bool.not_false, if_true, Option.some.injEq] at hx ⊢
        exact ⟨sel', by simp [h1, ← hx], h2⟩

/-! ## Main theorem, pure level -/

theorem Fresh.inv {q : QueryObj} (hf : Fresh q) : Inv q :=
  ⟨by rw [hf.table]; omega, by rw [hf.archetype]; omega, fun _ => hf.tables,
   fun h => by rw [hf.maxIndex] at h; omega⟩

/-- the rows a freshly opened query still yields are the rows of the selected tables -/
theorem remaining_fresh (w : World) (q : QueryObj) (ts : List Nat) (hf : Fresh q)
    (hsel : qSelected w q = some ts) : remaining w q = some (ts.flatMap (rowsOf w)) := by
  have hcr : curRows q = [] := curRows_done q (by rw [hf.index, hf.maxIndex]; omega)
  rw [qSelected_eq] at hsel
  simp only [remaining, hcr, hf.table, hf.archetype, hf.tables]
  cases hc : q.cacheTables with
  | some ts0 =>
    simp only [hc] at hsel ⊢
    obtain ⟨sel, h1, h2⟩ := selC_spec w q.rels ts0 [] ts hsel
    simp only [List.nil_append] at h1
    subst h1
    simpa using h2
  | none =>
    simp only [hc] at hsel ⊢
    obtain ⟨sel, h1, h2⟩ := selA_spec w q.filter q.rels _ [] ts hsel
    simp only [List.nil_append] at h1
    subst h1
    simp [scanRows, h2]

/-- **drain_rows**, full form: from a freshly opened query, on an unchanged world, if the
    counting walk selects `ts` (no runtime panic), then iterating `Next` yields exactly the rows
    of `ts` in order (empty tables contribute nothing), then reports `false`; the final cursor
    differs from `q` only in cursor fields and is not yet closed.  Any fuel exceeding the number
    of rows is enough. -/
theorem drain_rows_aux (w : World) (q : QueryObj) (ts : List Nat) (fuel : Nat) (hf : Fresh q)
    (hsel : qSelected w q = some ts) (hfuel : (ts.flatMap (rowsOf w)).length < fuel) :
    ∃ qf, drainPureAux w q fuel = some (qf, true, ts.flatMap (rowsOf w)) ∧ Frame q qf ∧
      -1 ≤ qf.table :=
  drainAux_of_remaining w _ q fuel hf.inv (remaining_fresh w q ts hf hsel) hfuel

theorem drain_rows_of_fuel (w : World) (q : QueryObj) (ts : List Nat) (fuel : Nat) (hf : Fresh q)
    (hsel : qSelected w q = some ts) (hfuel : (ts.flatMap (rowsOf w)).length < fuel) :
    drainPure w q fuel = expected w q := by
  obtain ⟨qf, h, _⟩ := drain_rows_aux w q ts fuel hf hsel hfuel
  simp [drainPure, expected, h, hsel]

/-! ## Fuel: `drainFuel w` is enough when the selected tables are pairwise distinct -/

theorem foldl_add_eq_sum (l : List Nat) : l.foldl (· + ·) 0 = l.sum := List.sum_eq_foldl.symm

theorem flatMap_rowsOf_length (w : World) (ts : List Nat) :
    (ts.flatMap (rowsOf w)).length = (ts.map fun t => (w.tbl t).len).sum := by
  simp [List.length_flatMap, rowsOf_length]

theorem sum_set_zero : ∀ (L : List Nat) (t : Nat), (L.set t 0).sum + L.getD t 0 = L.sum := by
  intro L
  induction L with
  | nil => intro t; simp
  | cons x L ih =>
    intro t
    cases t with
    | zero => simp; omega
    | succ t =>
      have := ih t
      simp only [List.set_cons_succ, List.sum_cons, List.getD_cons_succ]
      omega

theorem sum_getD_le_of_nodup : ∀ (ts : List Nat) (L : List Nat), ts.Nodup →
    (ts.map fun t => L.getD t 0).sum ≤ L.sum := by
  intro ts
  induction ts with
  | nil => intro L _; simp
  | cons t ts ih =>
    intro L hnd
    obtain ⟨hnot, hnd'⟩ := List.nodup_cons.mp hnd
    have h1 := ih (L.set t 0) hnd'
    have h2 : (ts.map fun s => (L.set t 0).getD s 0) = ts.map fun s => L.getD s 0 := by
      apply List.map_congr_left
      intro s hs
      have : t ≠ s := fun e => hnot (e ▸ hs)
      simp [List.getD_eq_getElem?_getD, List.getElem?_set_ne this]
    rw [h2] at h1
    have h3 := sum_set_zero L t
    simp only [List.map_cons, List.sum_cons]
    omega

theorem rows_lt_drainFuel (w : World) (ts : List Nat) (hnd : ts.Nodup) :
    (ts.flatMap (rowsOf w)).length < drainFuel w := by
  rw [flatMap_rowsOf_length]
  have h := sum_getD_le_of_nodup ts (w.tables.map (·.len)) hnd
  have e : (ts.map fun t => (w.tables.map (·.len)).getD t 0) = ts.map fun t => (w.tbl t).len := by
    apply List.map_congr_left
    intro t _
    simp only [World.tbl, List.getD_eq_getElem?_getD, List.getElem?_map]
    cases w.tables[t]? <;> rfl
  rw [e] at h
  simp only [drainFuel, foldl_add_eq_sum]
  omega

/-- **drain_rows** with the model's fuel.  The statement with `fuel ≥ drainFuel w` alone is
    false for arbitrary worlds (a table list with repetitions yields more rows than
    `drainFuel w` allows, see `drainFuel_counterexample` in `Ark.Props.C03Drain`); it holds when
    the selected tables are pairwise distinct. -/
theorem drain_rows_partial (w : World) (q : QueryObj) (ts : List Nat) (fuel : Nat) (hf : Fresh q)
    (hsel : qSelected w q = some ts) (hnd : ts.Nodup) (hfuel : drainFuel w ≤ fuel) :
    drainPure w q fuel = expected w q :=
  drain_rows_of_fuel w q ts fuel hf hsel (Nat.lt_of_lt_of_le (rows_lt_drainFuel w ts hnd) hfuel)

/-! ## `Count` and `EntityAt` -/

/-- `Count` equals the number of rows visited -/
theorem count_eq_visits (w : World) (q : QueryObj) (n : Nat) (h : qCount w q = some n) :
    ∃ rows, expected w q = some rows ∧ rows.length = n := by
  simp only [qCount, Option.map_eq_some_iff] at h
  obtain ⟨ts, hts, rfl⟩ := h
  exact ⟨ts.flatMap (rowsOf w), by simp [expected, hts],
    by rw [flatMap_rowsOf_length, foldl_add_eq_sum]⟩

theorem entityAt_go (w : World) (i : Nat) : ∀ (ts : List Nat) (count : Nat), count ≤ i →
    qEntityAt.go w i count ts =
      ((ts.flatMap (rowsOf w))[i - count]?).map (fun p => (w.tbl p.1).getEntity p.2) := by
  intro ts
  induction ts with
  | nil => intro count _; simp [qEntityAt.go]
  | cons t rest ih =>
    intro count hle
    simp only [qEntityAt.go, List.flatMap_cons]
    by_cases h : count + (w.tbl t).len > i
    · have hlt : i - count < (rowsOf w t).length := by rw [rowsOf_length]; omega
      simp only [h, if_true]
      rw [List.getElem?_append_left hlt]
      have hlt' : i - count < (w.tbl t).len := by omega
      simp [rowsOf, hlt']
    · have hge : (rowsOf w t).length ≤ i - count := by rw [rowsOf_length]; omega
      simp only [h, if_false]
      rw [ih _ (by omega), List.getElem?_append_right hge, rowsOf_length]
      congr 2
      omega

/-- `EntityAt(i)` is the entity at the `i`-th visited row, and the out-of-bounds panic
    (`some none`) when there is no such row -/
theorem entityAt_eq (w : World) (q : QueryObj) (i : Nat) :
    qEntityAt w q i =
      (expected w q).map fun rows => (rows[i]?).map fun p => (w.tbl p.1).getEntity p.2 := by
  simp only [qEntityAt, expected, Option.map_map]
  congr 1
  funext ts
  simpa using entityAt_go w i ts 0 (Nat.zero_le _)

theorem entityAt_eq_visit (w : World) (q : QueryObj) (rows : List (Nat × Nat)) (i : Nat)
    (hrows : expected w q = some rows) :
    (∀ (h : i < rows.length),
        qEntityAt w q i = some (some ((w.tbl rows[i].1).getEntity rows[i].2))) ∧
    (rows.length ≤ i → qEntityAt w q i = some none) := by
  rw [entityAt_eq, hrows]
  constructor
  · intro h; simp [h]
  · intro h; simp [h]

/-! ## Monadic level: `qNext`, `drainFrom` -/


theorem qNext_eq (q : QueryObj) (w : World) :
    qNext q w = match qNextPure w q with
      | none => if q.table < -1 then .panic .queryDone w else .panic .runtime w
      | some (q', true) => .ok (q', true) w
      | some (q', false) =>
        match qClose q' w with
        | .ok q'' w' => .ok (q'', false) w'
        | .panic k w' => .panic k w' := by
  unfold qNext qNextPure
  by_cases h1 : q.table < -1
  · simp [h1]
  · by_cases h2 : (q.index : Int) < q.maxIndex
    · simp [h1, h2]
    · simp only [h1, h2, if_false, M.bind_apply, M.get_apply]
      cases q.cacheTables with
      | some ts =>
        simp only []
        rcases w.qNextTable q ts with _ | ⟨q1, _ | _⟩ <;> simp
        cases qClose q1 w <;> rfl
      | none =>
        simp only []
        generalize (if q.archetype ≥ 0 then w.qNextTable q q.tables else some (q, false)) = r1
        rcases r1 with _ | ⟨q1, _ | _⟩
        · simp
        · simp only []
          rcases w.qNextArchetype q1 with _ | ⟨q2, _ | _⟩ <;> simp
          cases qClose q2 w <;> rfl
        · simp

/-- the cursor after `Close` -/
def closed (q : QueryObj) : QueryObj :=
  { q with archetype := -2, table := -2, tables := [], cur := none, cacheTables := none }

theorem qClose_ok (q : QueryObj) (w : World) (l' : Lock) (h : -1 ≤ q.table)
    (hl : w.locks.unlock q.lockBit = some l') :
    qClose q w = .ok (closed q) { w with locks := l' } := by
  have h1 : ¬ q.table < -1 := by omega
  simp [qClose, h1, unlock, hl, closed]

theorem drainFrom_true (q q' : QueryObj) (w : World) (fuel : Nat)
    (h : qNext q w = .ok (q', true) w) :
    drainFrom q (fuel + 1) w =
      match drainFrom q' fuel w with
      | .ok (qf, rest) w' =>
        .ok (qf, { e := (qEntity w q').getD Ent.zero, table := q'.cur.getD 0, row := q'.index } :: rest) w'
      | .panic k w' => .panic k w' := by
  simp [drainFrom, h]
  cases drainFrom q' fuel w <;> rfl

theorem drainFrom_false (q q' : QueryObj) (w w' : World) (fuel : Nat)
    (h : qNext q w = .ok (q', false) w') :
    drainFrom q (fuel + 1) w = .ok (q', []) w' := by
  simp [drainFrom, h]

theorem qEntity_at (w : World) (q : QueryObj) (t : Nat) (h1 : 0 ≤ q.table) (h2 : q.cur = some t) :
    qEntity w q = some ((w.tbl t).getEntity q.index) := by
  have : ¬ q.table < 0 := by omega
  simp [qEntity, this, h2]

theorem drainFrom_of_remaining (w : World) (l' : Lock) :
    ∀ (rows : List (Nat × Nat)) (q : QueryObj) (fuel : Nat), Inv q → remaining w q = some rows →
      rows.length < fuel → w.locks.unlock q.lockBit = some l' →
      ∃ qf visits, drainFrom q fuel w = .ok (closed qf, visits) { w with locks := l' } ∧
        Frame q qf ∧ visits.map (fun v => (v.table, v.row)) = rows ∧
        visits.map (·.e) = rows.map (fun p => (w.tbl p.1).getEntity p.2) := by
  intro rows
  induction rows with
  | nil =>
    intro q fuel hinv hrem hfuel hl
    obtain ⟨f, rfl⟩ : ∃ f, fuel = f + 1 := ⟨fuel - 1, by simp at hfuel; omega⟩
    obtain ⟨q', h1, h2, h3⟩ := step w q [] hinv hrem
    have hn : qNext q w = .ok (closed q', false) { w with locks := l' } := by
      rw [qNext_eq, h1]
      simp only []
      rw [qClose_ok q' w l' h3 (by rw [h2.lockBit]; exact hl)]
    exact ⟨q', [], drainFrom_false q _ w _ f hn, h2, rfl, rfl⟩
  | cons r rs ih =>
    intro q fuel hinv hrem hfuel hl
    obtain ⟨f, rfl⟩ : ∃ f, fuel = f + 1 := ⟨fuel - 1, by simp at hfuel; omega⟩
    obtain ⟨q', h1, h2, h3, h4, h5, h6, h7⟩ := step w q (r :: rs) hinv hrem
    have hn : qNext q w = .ok (q', true) w := by rw [qNext_eq, h1]
    obtain ⟨qf, visits, g1, g2, g3, g4⟩ :=
      ih q' f h3 h7 (by simp at hfuel; omega) (by rw [h2.lockBit]; exact hl)
    refine ⟨qf, { e := (qEntity w q').getD Ent.zero, table := q'.cur.getD 0, row := q'.index }
      :: visits, ?_, h2.trans g2, ?_, ?_⟩
    · rw [drainFrom_true q q' w f hn, g1]
    · simp [g3, h5, h6]
    · simp [g4, qEntity_at w q' r.1 h4 h5, h6]

/-- **Monadic drain**: on a world where the query's lock bit is held (so the final `Close`
    succeeds), iterating the model's `Next` to exhaustion visits exactly the expected rows, reports
    the entities stored there, and changes nothing in the world but the lock. -/
theorem drainFrom_rows_of_fuel (w : World) (q : QueryObj) (ts : List Nat) (l' : Lock) (fuel : Nat)
    (hf : Fresh q) (hsel : qSelected w q = some ts)
    (hl : w.locks.unlock q.lockBit = some l')
    (hfuel : (ts.flatMap (rowsOf w)).length < fuel) :
    ∃ qf visits, drainFrom q fuel w = .ok (closed qf, visits) { w with locks := l' } ∧
      Frame q qf ∧
      visits.map (fun v => (v.table, v.row)) = ts.flatMap (rowsOf w) ∧
      visits.map (·.e) = (ts.flatMap (rowsOf w)).map (fun p => (w.tbl p.1).getEntity p.2) :=
  drainFrom_of_remaining w l' _ q fuel hf.inv (remaining_fresh w q ts hf hsel) hfuel hl

/-- the same with the model's fuel `drainFuel w`, for pairwise distinct selected tables -/
theorem drainFrom_rows (w : World) (q : QueryObj) (ts : List Nat) (l' : Lock)
    (hf : Fresh q) (hsel : qSelected w q = some ts) (hnd : ts.Nodup)
    (hl : w.locks.unlock q.lockBit = some l') :
    ∃ qf visits, drainFrom q (drainFuel w) w = .ok (closed qf, visits) { w with locks := l' } ∧
      Frame q qf ∧
      visits.map (fun v => (v.table, v.row)) = ts.flatMap (rowsOf w) ∧
      visits.map (·.e) = (ts.flatMap (rowsOf w)).map (fun p => (w.tbl p.1).getEntity p.2) :=
  drainFrom_rows_of_fuel w q ts l' _ hf hsel hl (rows_lt_drainFuel w ts hnd)

/-! ## Every row exactly once -/

theorem rows_nodup (w : World) (ts : List Nat) (hnd : ts.Nodup) :
    (ts.flatMap (rowsOf w)).Nodup := by
  induction ts with
  | nil => simp
  | cons t rest ih =>
    obtain ⟨hnot, hnd'⟩ := List.nodup_cons.mp hnd
    rw [List.flatMap_cons, List.nodup_append]
    refine ⟨?_, ih hnd', ?_⟩
    · unfold rowsOf
      refine List.Pairwise.map _ ?_ (List.nodup_range (n := (w.tbl t).len))
      intro a b hab h
      exact hab (by injection h)
    · intro a ha b hb hab
      subst hab
      simp only [rowsOf, List.mem_map, List.mem_flatMap] at ha hb
      obtain ⟨_, _, rfl⟩ := ha
      obtain ⟨t', ht', _, _, h⟩ := hb
      injection h with h1 _
      exact hnot (h1 ▸ ht')

/-! ## `drain` = open + iterate + close -/


theorem lock_tail (f : Nat → QueryObj) (hf : ∀ b, Fresh (f b)) (s w1 : World) (q : QueryObj)
    (h : (lock >>= fun b => (pure (f b) : W QueryObj)) s = .ok q w1) : Fresh q := by
  simp only [M.bind_apply, M.pure_apply, lock] at h
  cases hl : s.locks.lock with
  | none => simp [hl] at h
  | some p =>
    obtain ⟨l, b⟩ := p
    simp only [hl, Res.ok.injEq] at h
    exact h.1 ▸ hf b

theorem qOpen_fresh (fo : FilterObj) (extra : List RelID) (w w1 : World) (q : QueryObj)
    (h : qOpen fo extra w = .ok q w1) : Fresh q := by
  have tail : ∀ (ct : Option (List Nat)) (rare : Option Comp) (s : World),
      (lock >>= fun b => (pure
        { filter := fo.filter, rels := effRels fo extra, cacheTables := ct, rare := rare, lockBit := b } :
          W QueryObj)) s = .ok q w1 → Fresh q :=
    fun ct rare s hh => lock_tail _ (fun b => ⟨rfl, rfl, rfl, rfl, rfl, rfl⟩) s w1 q hh
  unfold qOpen at h
  cases ht : fo.typed with
  | false =>
    simp only [ht, Bool.false_eq_true, if_false, M.bind_apply, M.get_apply] at h
    cases hc : fo.cache with
    | none =>
      simp only [hc] at h
      exact tail _ _ _ h
    | some id =>
      simp only [hc] at h
      cases hce : w.cacheEntry? id with
      | none => simp [hce] at h
      | some ce =>
        simp only [hce] at h
        exact tail _ _ _ h
  | true =>
    simp only [ht, if_true, M.bind_apply, M.get_apply] at h
    cases hp : preCheckTyped fo.filter.mask extra w with
    | panic k s => simp [hp] at h
    | ok u s =>
      simp only [hp] at h
      cases hc : fo.cache with
      | none =>
        simp only [hc] at h
        exact tail _ _ _ h
      | some id =>
        simp only [hc] at h
        cases hce : s.cacheEntry? id with
        | none => simp [hce] at h
        | some ce =>
          simp only [hce] at h
          exact tail _ _ _ h

/-- **Monadic drain, complete operation**: if opening succeeds (yielding `q` on the locked world
    `w1`), the counting walk selects pairwise distinct tables `ts` and the lock bit taken by
    `qOpen` can be released, then `drain` returns exactly the rows of `ts` with their entities,
    and the only difference between `w1` and the final world is the lock. -/
theorem drain_rows_monadic (fo : FilterObj) (extra : List RelID) (w w1 : World) (q : QueryObj)
    (ts : List Nat) (l' : Lock) (ho : qOpen fo extra w = .ok q w1)
    (hsel : qSelected w1 q = some ts) (hnd : ts.Nodup)
    (hl : w1.locks.unlock q.lockBit = some l') :
    ∃ visits, drain fo extra w = .ok visits { w1 with locks := l' } ∧
      visits.map (fun v => (v.table, v.row)) = ts.flatMap (rowsOf w1) ∧
      visits.map (·.e) = (ts.flatMap (rowsOf w1)).map (fun p => (w1.tbl p.1).getEntity p.2) := by
  obtain ⟨qf, visits, h1, _, h3, h4⟩ :=
    drainFrom_rows w1 q ts l' (qOpen_fresh fo extra w w1 q ho) hsel hnd hl
  exact ⟨visits, by simp [drain, ho, h1], h3, h4⟩

end Drain
end Ark
