/-
  Ark.Proofs.RowsAlive — Layer B of the task, world-transformer level: **the handle stored in a
  row is the alive handle of that ID**.

  `CInv` relates table rows and the entity index through IDs only ("the index knows IDs only",
  see `CInv.row_live_id`).  A query reports the HANDLE stored in the entity column, so C03 needs

  * `RowsAlive w` — every handle stored in a row in use (`r < T.len`) is alive;
    under `CInv` this says that the stored handle is the one in the pool slot of its ID
    (`RowsAlive.slot`), i.e. it carries the current generation.

  It is preserved by
  * the table lookups (`findOrCreateTableAdd`, `findOrCreateTableRemove`, `findOrCreateTable`):
    `LookupKeeps` (pool unchanged, rows in use unchanged) via the generic principle
    `lookup_induct` of `Ark.Proofs.Lookups`;
  * `placedW` (`placeNew`: the handle just taken from the pool is alive afterwards and no other
    row holds its ID), `addMove` (`Table.add e` of an alive `e` + swap-remove in the old table),
    `removeRowOf` (swap-remove + `Pool.recycle e`, which changes `Alive` only for handles with
    the ID of `e`, and the only row with that ID is the removed one), `writeValsW`.

  Kernel-only proofs, core Lean only.
-/
import Ark.Proofs.Lookups

set_option autoImplicit false

namespace Ark

open World

/-! ## 1. definition -/

/-- every handle stored in a row in use is alive -/
def RowsAlive (w : World) : Prop :=
  ∀ (t : Nat) (T : Table) (r : Nat), w.tables[t]? = some T → r < T.len →
    w.alive (T.getEntity r) = true

theorem World.tbl_len_pos_lt {w : World} {t r : Nat} (hr : r < (w.tbl t).len) :
    t < w.tables.length := by
  rcases Nat.lt_or_ge t w.tables.length with h | h
  · exact h
  · have : w.tbl t = default := by
      simp [tbl, List.getD_eq_getElem?_getD, List.getElem?_eq_none h]
    rw [this] at hr
    exact absurd hr (Nat.not_lt_zero r)

theorem RowsAlive.tbl {w : World} (h : RowsAlive w) {t r : Nat} (hr : r < (w.tbl t).len) :
    w.alive ((w.tbl t).getEntity r) = true :=
  h t _ r (get_of_lt (tbl_len_pos_lt hr)) hr

theorem rowsAlive_of_tbl {w : World}
    (h : ∀ t r : Nat, r < (w.tbl t).len → w.alive ((w.tbl t).getEntity r) = true) :
    RowsAlive w := by
  intro t T r hT hr
  have := tbl_of_get hT
  subst this
  exact h t r hr

/-- under `CInv`: the handle in a row is the handle in the pool slot of its ID -/
theorem RowsAlive.slot {w : World} {fl : List Nat} (h : RowsAlive w) (hc : CInv w fl) {t r : Nat}
    (hr : r < (w.tbl t).len) :
    w.pool.ents[((w.tbl t).getEntity r).id]? = some ((w.tbl t).getEntity r) := by
  obtain ⟨_, hnf, hlt, _⟩ := hc.row_live_id (tbl_len_pos_lt hr) hr
  exact (hc.aliveIff _ hnf (by rw [← hc.lenEq]; exact hlt)).mp (h.tbl hr)

/-- the formulation through the pool slots -/
theorem rowsAlive_iff_slot {w : World} {fl : List Nat} (hc : CInv w fl) :
    RowsAlive w ↔ ∀ t r : Nat, r < (w.tbl t).len →
      w.pool.ents[((w.tbl t).getEntity r).id]? = some ((w.tbl t).getEntity r) := by
  constructor
  · intro h t r hr; exact h.slot hc hr
  · intro h
    apply rowsAlive_of_tbl
    intro t r hr
    obtain ⟨_, hnf, hlt, _⟩ := hc.row_live_id (tbl_len_pos_lt hr) hr
    exact (hc.aliveIff _ hnf (by rw [← hc.lenEq]; exact hlt)).mpr (h t r hr)

theorem RowsAlive.init (cap rel : Nat) (maxComps : Nat := 256) :
    RowsAlive (World.init cap rel maxComps) := by
  intro t T r hT hr
  have hlt : t < 1 := lt_of_get hT
  have ht0 : t = 0 := by omega
  subst ht0
  have : T = Table.new 0 0 [] [] [] cap [] [] := by
    have h0 : (World.init cap rel maxComps).tables[0]? = some (Table.new 0 0 [] [] [] cap [] []) := rfl
    rw [h0] at hT; exact (Option.some.inj hT).symm
  subst this
  exact absurd hr (Nat.not_lt_zero r)

/-! ## 2. the table lookups -/

/-- what a table lookup keeps: the pool, and the rows in use of every table (a table created by
    the lookup is empty, a recycled one keeps its rows) -/
structure LookupKeeps (w w' : World) : Prop where
  pool : w'.pool = w.pool
  rows : ∀ t r : Nat, r < (w'.tbl t).len →
    r < (w.tbl t).len ∧ (w'.tbl t).getEntity r = (w.tbl t).getEntity r

theorem LookupKeeps.refl (w : World) : LookupKeeps w w := ⟨rfl, fun _ _ h => ⟨h, rfl⟩⟩

theorem LookupKeeps.trans {a b c : World} (h1 : LookupKeeps a b) (h2 : LookupKeeps b c) :
    LookupKeeps a c :=
  ⟨h2.pool.trans h1.pool, fun t r hr => by
    obtain ⟨x1, x2⟩ := h2.rows t r hr
    obtain ⟨y1, y2⟩ := h1.rows t r x1
    exact ⟨y1, x2.trans y2⟩⟩

theorem LookupKeeps.of_tables {w w' : World} (hp : w'.pool = w.pool) (ht : w'.tables = w.tables) :
    LookupKeeps w w' :=
  ⟨hp, fun t r hr => by
    have : w'.tbl t = w.tbl t := by simp only [tbl, ht]
    rw [this] at hr ⊢; exact ⟨hr, rfl⟩⟩

namespace World

theorem modTbl_tbl (w : World) (t : Nat) (f : Table → Table) (t' : Nat) :
    (w.modTbl t f).tbl t' = if t' = t ∧ t < w.tables.length then f (w.tbl t) else w.tbl t' := by
  by_cases ht : t' = t
  · subst ht
    rcases Nat.lt_or_ge t' w.tables.length with hlt | hge
    · rw [if_pos ⟨rfl, hlt⟩]; exact modTbl_tbl_self f hlt
    · rw [if_neg (fun hh => Nat.not_lt.mpr hge hh.2)]
      simp only [tbl, modTbl, setTbl, List.getD_eq_getElem?_getD, List.getElem?_set,
        Nat.not_lt.mpr hge, if_true, if_false]
      rw [List.getElem?_eq_none hge]
  · rw [if_neg (fun hh => ht hh.1)]
    exact modTbl_tbl_ne w f (fun hh => ht hh.symm)

theorem createTableS_keeps (w : World) (a : Nat) (rels : List RelID) :
    LookupKeeps w (createTableS w a rels).1 := by
  unfold createTableS
  split
  · rename_i A' t hf
    refine ⟨rfl, ?_⟩
    intro t' r hr
    have : (((w.setArch a A').modTbl t fun T => T.recycle (ctTargets (w.arch a) rels) rels).modArch a
        fun A => A.addTable t (ctTargets (w.arch a) rels)).tbl t' =
        ((w.setArch a A').modTbl t fun T => T.recycle (ctTargets (w.arch a) rels) rels).tbl t' := rfl
    rw [this, modTbl_tbl] at hr ⊢
    split at hr
    · rename_i hc
      rw [if_pos hc]
      obtain ⟨rfl, _⟩ := hc
      exact ⟨hr, rfl⟩
    · rename_i hc
      rw [if_neg hc]
      exact ⟨hr, rfl⟩
  · refine ⟨rfl, ?_⟩
    intro t' r hr
    have hT : ∀ x : Table, (({ w with tables := w.tables ++ [x] } : World).modArch a
        fun A => A.addTable w.tables.length (ctTargets (w.arch a) rels)).tbl t' =
        (w.tables ++ [x]).getD t' default := fun _ => rfl
    rw [hT] at hr ⊢
    rcases Nat.lt_or_ge t' w.tables.length with hlt | hge
    · have : (w.tables ++ [Table.new w.tables.length a (w.arch a).comps (w.arch a).isRel (w.arch a).zst
          (if (w.arch a).hasRelations then w.initCapRel else w.initCap)
          (ctTargets (w.arch a) rels) rels]).getD t' default = w.tbl t' := by
        simp only [tbl, List.getD_eq_getElem?_getD, List.getElem?_append_left hlt]
      rw [this] at hr ⊢
      exact ⟨hr, rfl⟩
    · exfalso
      simp only [List.getD_eq_getElem?_getD, List.getElem?_append_right hge] at hr
      cases hd : t' - w.tables.length with
      | zero => rw [hd] at hr; simp [Table.new] at hr
      | succ n =>
        rw [hd] at hr
        simp only [List.getElem?_cons_succ, List.getElem?_nil, Option.getD_none] at hr
        exact absurd hr (Nat.not_lt_zero r)

theorem createTable_keeps {a : Nat} {rels : List RelID} {w w' : World} {t : Nat}
    (h : createTable a rels w = .ok t w') : LookupKeeps w w' := by
  obtain ⟨_, _, _, _, h5⟩ := createTable_ok h
  obtain ⟨_, ht, _, _, hp⟩ := cacheAddTable_frame h5
  exact (createTableS_keeps w a rels).trans (LookupKeeps.of_tables hp ht)

theorem findOrCreateArch_keeps {mask : Mask} {w w' : World} {a : Nat}
    (h : findOrCreateArch mask w = .ok a w') : LookupKeeps w w' := by
  refine LookupKeeps.of_tables ?_ (findOrCreateArch_tables h)
  unfold findOrCreateArch at h
  split at h
  · injection h with _ h2; subst h2; rfl
  · rw [createArchetype_eq] at h
    injection h with _ h2; subst h2
    exact createArchetypeW_proj (·.pool) (fun _ _ _ => rfl) (fun _ _ => rfl) w mask

theorem findOrCreateTableAdd_keeps {oldT : Nat} {startMask : Mask} {add : List Comp}
    {rels : List RelID} {w w' : World} {r : Nat × Nat × Mask}
    (h : findOrCreateTableAdd oldT startMask add rels w = .ok r w') : LookupKeeps w w' :=
  (lookup_induct LookupKeeps LookupKeeps.trans findOrCreateArch_keeps createTable_keeps).1 h

theorem findOrCreateTableRemove_keeps {oldT : Nat} {startMask : Mask} {rem : List Comp}
    {w w' : World} {r : Nat × Nat × Mask × Bool}
    (h : findOrCreateTableRemove oldT startMask rem w = .ok r w') : LookupKeeps w w' :=
  (lookup_induct LookupKeeps LookupKeeps.trans findOrCreateArch_keeps createTable_keeps).2.1 h

theorem findOrCreateTable_keeps {oldT : Nat} {startMask : Mask} {add rem : List Comp}
    {rels : List RelID} {w w' : World} {r : Nat × Nat × Mask × Bool}
    (h : findOrCreateTable oldT startMask add rem rels w = .ok r w') : LookupKeeps w w' :=
  (lookup_induct LookupKeeps LookupKeeps.trans findOrCreateArch_keeps createTable_keeps).2.2 h

end World

theorem RowsAlive.lookup {w w' : World} (h : RowsAlive w) (k : LookupKeeps w w') : RowsAlive w' := by
  apply rowsAlive_of_tbl
  intro t r hr
  obtain ⟨h1, h2⟩ := k.rows t r hr
  rw [h2]
  simp only [World.alive, k.pool]
  exact h.tbl h1

/-! ## 3. writes -/

namespace Table

theorem setComp_len_ents (T : Table) (c : Comp) (row : Nat) (v : Val) :
    (T.setComp c row v).len = T.len ∧ (T.setComp c row v).ents = T.ents := by
  simp only [setComp]
  split
  · simp only [setCell]
    split <;> exact ⟨rfl, rfl⟩
  · exact ⟨rfl, rfl⟩

theorem writeFold_len_ents (row : Nat) : ∀ (vals : List (Comp × Val)) (T : Table),
    (vals.foldl (fun T (cv : Comp × Val) => T.setComp cv.1 row cv.2) T).len = T.len ∧
    (vals.foldl (fun T (cv : Comp × Val) => T.setComp cv.1 row cv.2) T).ents = T.ents
  | [], _ => ⟨rfl, rfl⟩
  | cv :: vals, T => by
    rw [List.foldl_cons]
    obtain ⟨h1, h2⟩ := writeFold_len_ents row vals (T.setComp cv.1 row cv.2)
    obtain ⟨g1, g2⟩ := setComp_len_ents T cv.1 row cv.2
    exact ⟨h1.trans g1, h2.trans g2⟩

end Table

theorem RowsAlive.writeVals {w : World} (h : RowsAlive w) (e : Ent) (vals : List (Comp × Val)) :
    RowsAlive (writeValsW w e vals) := by
  apply rowsAlive_of_tbl
  intro t r hr
  have hp : (writeValsW w e vals).alive = w.alive := rfl
  rw [hp]
  simp only [writeValsW, modTbl_tbl] at hr ⊢
  split at hr
  · rename_i hc
    rw [if_pos hc]
    obtain ⟨rfl, _⟩ := hc
    obtain ⟨h1, h2⟩ := Table.writeFold_len_ents (w.index e.id).2 vals (w.tbl (w.index e.id).1)
    rw [h1] at hr
    simp only [Table.getEntity, h2]
    exact h.tbl hr
  · rename_i hc
    rw [if_neg hc]
    exact h.tbl hr

/-! ## 4. `placeNew` -/

theorem RowsAlive.placed {w : World} {fl : List Nat} (h : RowsAlive w) (hc : CInv w fl) {t : Nat}
    (hlt : t < w.tables.length) (rt : Bool) (hb : (w.tbl t).len + 1 < 2 ^ 32) :
    RowsAlive (placedW w t rt) := by
  have pp := hc.placed hlt rt hb
  have hTab : (placedW w t rt).tables = w.tables.set t ((w.tbl t).add (w.pool.get).2).1 := by
    rw [(placedW_place w t rt).2, place_tables]
  have hS := hc.idx.shape t _ (get_of_lt hlt)
  -- a handle stored in a row of `w` has another ID than the new handle
  have hne : ∀ t1 r : Nat, r < (w.tbl t1).len → ((w.tbl t1).getEntity r).id ≠ (w.pool.get).2.id := by
    intro t1 r hr heq
    obtain ⟨_, hnf, hlt', _⟩ := hc.row_live_id (tbl_len_pos_lt hr) hr
    rcases pp.unused with ⟨a, _, _⟩ | ⟨_, b⟩
    · omega
    · apply hnf; rw [heq, b]; exact List.mem_cons_self
  intro t1 T1 r hT1 hr
  rw [hTab] at hT1
  rcases setTbl_get w t t1 _ T1 (by simpa only [setTbl] using hT1) with ⟨a, b, _⟩ | ⟨a, b⟩
  · subst a; subst b
    rw [Table.add_fst_len] at hr
    by_cases hrl : r < (w.tbl t1).len
    · rw [Table.add_getEntity_lt _ _ r hrl, pp.aliveFrame _ (hne t1 r hrl)]
      exact h.tbl hrl
    · have hre : r = (w.tbl t1).len := by omega
      have := Table.add_getEntity_new hS (w.pool.get).2 hb
      rw [Table.add_snd] at this
      rw [hre, this]; exact pp.alive
  · have := tbl_of_get b
    subst this
    rw [pp.aliveFrame _ (hne t1 r hr)]
    exact h.tbl hr

/-! ## 5. `add` + `moveRow` -/

theorem copyRow_len_ents (O : Table) (row newIndex : Nat) (keep : Mask) (N : Table) :
    (copyRow O row newIndex keep N).len = N.len ∧ (copyRow O row newIndex keep N).ents = N.ents := by
  unfold copyRow
  generalize O.ids = ids
  induction ids generalizing N with
  | nil => exact ⟨rfl, rfl⟩
  | cons c cs ih =>
    rw [List.foldl_cons]
    split
    · split
      · obtain ⟨h1, h2⟩ := ih (N.setComp c newIndex _)
        obtain ⟨g1, g2⟩ := Table.setComp_len_ents N c newIndex (by assumption)
        exact ⟨h1.trans g1, h2.trans g2⟩
      · exact ih N
    · exact ih N

/-- moving the alive handle `e` from row `row` of `oldT` to a new row of `newT` -/
theorem RowsAlive.moved {w : World} (h : RowsAlive w) (hI : IdxInv w) {e : Ent}
    {oldT row newT : Nat} (keep : Mask) (ha : w.alive e = true)
    (he : w.entities[e.id]? = some (oldT, row)) (ht : oldT ≠ maxU32) (hne : oldT ≠ newT)
    (hnl : newT < w.tables.length) (hb : (w.tbl newT).len + 1 < 2 ^ 32) :
    RowsAlive (addMove w e oldT row newT keep) := by
  obtain ⟨hTo, hrow, _⟩ := hI.indexed he ht
  have hol := lt_of_get hTo
  have hel : e.id < w.entities.length := (List.getElem?_eq_some_iff.mp he).1
  obtain ⟨_, tOld, tNew, tOther⟩ := addMove_tbl w e oldT row newT keep hne hnl hol hel
  have hSo := hI.shape oldT _ hTo
  have hSn := hI.shape newT _ (get_of_lt hnl)
  have hal : (addMove w e oldT row newT keep).alive = w.alive := by
    funext x; simp only [World.alive, (addMove_fields w e oldT row newT keep).1]
  apply rowsAlive_of_tbl
  intro t r hr
  rw [hal]
  by_cases h1 : t = oldT
  · subst h1
    rw [tOld] at hr ⊢
    rw [Table.remove_len] at hr
    rw [Table.remove_getEntity hSo row hrow r hr]
    split
    · exact h.tbl (by omega)
    · exact h.tbl (by omega)
  · by_cases h2 : t = newT
    · subst h2
      rw [tNew] at hr ⊢
      obtain ⟨c1, c2⟩ := copyRow_len_ents (w.tbl oldT) row (w.tbl t).len keep ((w.tbl t).add e).1
      rw [c1, Table.add_fst_len] at hr
      have hge : (copyRow (w.tbl oldT) row (w.tbl t).len keep ((w.tbl t).add e).1).getEntity r =
          ((w.tbl t).add e).1.getEntity r := by simp only [Table.getEntity, c2]
      rw [hge]
      by_cases hrl : r < (w.tbl t).len
      · rw [Table.add_getEntity_lt _ _ r hrl]; exact h.tbl hrl
      · have hre : r = (w.tbl t).len := by omega
        have := Table.add_getEntity_new hSn e hb
        rw [Table.add_snd] at this
        rw [hre, this]; exact ha
    · rw [tOther t h1 h2] at hr ⊢
      exact h.tbl hr

/-! ## 6. `RemoveEntity` -/

theorem RowsAlive.removed {w : World} {fl : List Nat} (h : RowsAlive w) (hc : CInv w fl) {e : Ent}
    (h2 : 2 ≤ e.id) (hnf : e.id ∉ fl) (ha : w.alive e = true) (hin : e.id < w.pool.ents.length)
    {t row : Nat} (hix : w.index e.id = (t, row)) : RowsAlive (removeRowOf w e t row) := by
  obtain ⟨t', row', hix', rp⟩ := hc.removed h2 hnf ha hin
  rw [hix] at hix'
  obtain ⟨rfl, rfl⟩ := Prod.mk.inj hix'
  obtain ⟨t1, r1, he, ht, _⟩ := hc.live_entry h2 hnf ha hin
  have := index_of_get he
  rw [hix] at this
  obtain ⟨rfl, rfl⟩ := Prod.mk.inj this
  obtain ⟨hTt, hrow, hid⟩ := hc.idx.indexed he ht
  have hlt := lt_of_get hTt
  have hS := hc.idx.shape t _ hTt
  have hTab : (removeRowOf w e t row).tables = w.tables.set t ((w.tbl t).remove row).1 := by
    rw [removeRowOf_tables, unplace_tables]
  -- a row of `w` other than `(t, row)` holds another ID than `e`
  have hne : ∀ t1 r : Nat, r < (w.tbl t1).len → (t1 = t → r ≠ row) →
      ((w.tbl t1).getEntity r).id ≠ e.id := by
    intro t1 r hr hdiff heq
    have hx := hc.idx.rowIdx t1 _ r (get_of_lt (tbl_len_pos_lt hr)) hr
    rw [heq, he] at hx
    obtain ⟨rfl, rfl⟩ := Prod.mk.inj (Option.some.inj hx)
    exact hdiff rfl rfl
  intro t1 T1 r hT1 hr
  rw [hTab] at hT1
  rcases setTbl_get w t t1 _ T1 (by simpa only [setTbl] using hT1) with ⟨a, b, _⟩ | ⟨a, b⟩
  · subst a; subst b
    rw [Table.remove_len] at hr
    rw [Table.remove_getEntity hS row hrow r hr]
    split
    · rename_i hrr
      have hl : (w.tbl t1).len - 1 < (w.tbl t1).len := by omega
      rw [rp.aliveFrame _ (hne t1 _ hl (fun _ => by omega))]
      exact h.tbl hl
    · rename_i hrr
      have hl : r < (w.tbl t1).len := by omega
      rw [rp.aliveFrame _ (hne t1 r hl (fun _ => hrr))]
      exact h.tbl hl
  · have := tbl_of_get b
    subst this
    rw [rp.aliveFrame _ (hne t1 r hr (fun hh => absurd hh a))]
    exact h.tbl hr

end Ark
