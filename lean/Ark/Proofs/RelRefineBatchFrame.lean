/-
  Ark.Proofs.RelRefineBatchFrame — frame statements for the relation refinement machine with
  batch steps.

  * `hinv_read` — components, values and relation targets of a specified entity, read off its
    entry (state level);
  * `same_entry`, `same_comps` — two states that realise the same entry (the same component part
    of an entry) for `x` agree on `x`;
  * `entry_kept_base` — a single operation other than `del` that does not name `x` keeps the entry
    of `x`;
  * `entry_after_delb`, `entry_after_setrelb` — the entry of an entity the filter does not match
    after a batch: its targets among the removed entities zeroed (`delb`), unchanged (`setrelb`);
  * `entry_after_xchgb`, `entry_after_xchg` — … after an exchange batch / a single `Exchange` on
    another entity: unchanged;
  * `detachAll_of_no_target` — … unchanged if none of its targets is removed.

  Kernel-only proofs, core Lean only.
-/
import Ark.Proofs.RelRefineBatchHist
import Ark.Proofs.RelRefineHist

set_option autoImplicit false

namespace Ark

open World Ark.Props.C01World QueryRel

namespace RelRefineB

open RelRefine
open RelRefine3 (XchgOK xchgEntry specXchg preXchg guardXchg)
open Refine (Comps keys sortedIds writeComps zeros)

/-! ## reading an entity off its entry -/

/-- reading components, values and targets of a specified entity off its entry -/
theorem hinv_read {s : St} {fl : List Nat} (H : HInv s fl) {x : Ent} {en : Entry}
    (hm : (x, en) ∈ s.ss.ents) :
    compsOf s.w x.id = some (sortedIds s.w.kinds.length (keys en.comps)) ∧
    (∀ c : Comp, valOf s.w x.id c = (en.comps.find? (fun cv => cv.1 == c)).map (·.2)) ∧
    (∀ c : Comp, targetOf s.w x.id c = (en.rels.find? (fun r => r.comp == c)).map (·.target)) := by
  have ok := H.ok x en hm
  refine ⟨ok.comps, fun c => ?_, fun c => ?_⟩
  · cases hfc : en.comps.find? (fun cv => cv.1 == c) with
    | none =>
      have hnk : c ∉ keys en.comps := by
        intro hk
        obtain ⟨cv, hcv, rfl⟩ := List.mem_map.mp hk
        have := List.find?_eq_none.mp hfc cv hcv
        simp at this
      exact valOf_none_of_comps ok.comps (fun hh => hnk (Refine.mem_sortedIds.mp hh).2)
    | some cv =>
      have h1 := List.find?_some hfc
      simp only [beq_iff_eq] at h1
      rw [← h1, ok.vals cv (List.mem_of_find?_eq_some hfc)]; rfl
  · cases hfc : en.rels.find? (fun r => r.comp == c) with
    | none =>
      have hnk : c ∉ en.rels.map (·.comp) := by
        intro hk
        obtain ⟨r, hr, rfl⟩ := List.mem_map.mp hk
        have := List.find?_eq_none.mp hfc r hr
        simp at this
      cases ht : targetOf s.w x.id c with
      | none => rfl
      | some t =>
        exact absurd ((H.target_isSome_iff hm c).mp (by rw [ht]; rfl)) hnk
    | some r =>
      have h1 := List.find?_some hfc
      simp only [beq_iff_eq] at h1
      rw [← h1, ok.tgts r (List.mem_of_find?_eq_some hfc)]; rfl

/-- two states that realise entries with the same component part for `x` agree on the component
    set and the values of `x` -/
theorem same_comps {s s' : St} {fl fl' : List Nat} (H : HInv s fl) (H' : HInv s' fl') {x : Ent}
    {en en' : Entry} (hm : (x, en) ∈ s.ss.ents) (hm' : (x, en') ∈ s'.ss.ents)
    (hc : en'.comps = en.comps) :
    compsOf s'.w x.id = compsOf s.w x.id ∧ ∀ c : Comp, valOf s'.w x.id c = valOf s.w x.id c := by
  obtain ⟨c1, v1, _⟩ := hinv_read H hm
  obtain ⟨c2, v2, _⟩ := hinv_read H' hm'
  have r1 := (H.ok x en hm).reg
  have r2 := (H'.ok x en' hm').reg
  rw [hc] at c2 v2 r2
  exact ⟨by rw [c1, c2, Refine.sortedIds_eq_of_bound r1 r2], fun c => by rw [v1, v2]⟩

/-- two states that realise the same entry for `x` agree on `x`: component set, values, targets -/
theorem same_entry {s s' : St} {fl fl' : List Nat} (H : HInv s fl) (H' : HInv s' fl') {x : Ent}
    {en : Entry} (hm : (x, en) ∈ s.ss.ents) (hm' : (x, en) ∈ s'.ss.ents) :
    compsOf s'.w x.id = compsOf s.w x.id ∧ (∀ c : Comp, valOf s'.w x.id c = valOf s.w x.id c) ∧
    ∀ c : Comp, targetOf s'.w x.id c = targetOf s.w x.id c := by
  obtain ⟨a, b⟩ := same_comps H H' hm hm' rfl
  obtain ⟨_, _, t1⟩ := hinv_read H hm
  obtain ⟨_, _, t2⟩ := hinv_read H' hm'
  exact ⟨a, b, fun c => by rw [t1, t2]⟩

/-! ## single operations inside mixed histories -/

/-- the entry of a specified entity `x` that a single operation other than `del` does not name:
    unchanged -/
theorem entry_kept_base (run : ProbeRunner) {s : St} {fl : List Nat} (H : HInvRB s fl) (op : Op)
    (hroom : Room s (.base op)) {x : Ent} {en : Entry} (hm : (x, en) ∈ s.ss.ents)
    (hd : op.isDel = false) (hx : subject op ≠ some x) :
    (x, en) ∈ (step run s op).ss.ents := by
  obtain ⟨hi, _, h2, _, hf, _⟩ := H.hinv.live_facts hm
  by_cases hg : guard s op = true
  · rw [step_of_guard hg]
    apply find_some_mem
    show find (specStep s.ss ((retOf (exec run s.w op)).getD default) op).ents x = some en
    rw [specStep_frame _ _ op x hd ?_]; exact hf
    cases op with
    | new p ids vals rels =>
      intro hh
      simp only [target, Option.some.injEq] at hh
      -- the handle returned is new, or the default handle
      obtain ⟨⟨fl', H'⟩, _⟩ := step_goal run H.hinv hroom.1 hroom.2 (.new p ids vals rels)
      have hnd := H'.nodup
      rw [step_of_guard hg] at hnd
      simp only [issuedAfter] at hnd
      cases hr : retOf (exec run s.w (.new p ids vals rels)) with
      | none =>
        rw [hr] at hh
        simp only [Option.getD_none] at hh
        rw [← hh] at h2
        exact absurd h2 (by decide)
      | some e =>
        rw [hr] at hh hnd
        simp only [Option.getD_some] at hh
        exact (List.nodup_cons.mp hnd).1 (hh ▸ hi)
    | reg _ _ _ => intro hh; cases hh
    | add _ e _ _ _ => exact hx
    | rem _ e _ => exact hx
    | setrel _ e _ => exact hx
    | set e _ => exact hx
    | del e => exact hx
  · rw [step, if_neg hg]; exact hm

/-! ## batches: the entries of the entities that are not selected -/

/-- an entry none of whose targets is removed is not changed by the removal -/
theorem detachAll_of_no_target {es : List Ent} {en : Entry} (h : ∀ r ∈ en.rels, r.target ∉ es) :
    detachAll es en = en := by
  simp only [detachAll]
  have : en.rels.map (zeroInRel es) = en.rels := by
    rw [List.map_congr_left (g := id) (fun r hr => by
      simp only [zeroInRel, zeroIn_of_not_mem (h r hr), id]), List.map_id]
  rw [this]

/-- **frame** (specification, `delb`): a specified entity the filter does not match keeps its
    entry, with every target among the selected entities zeroed -/
theorem entry_after_delb {ss : SS} (hnd : (ss.ents.map (·.1)).Nodup) (f : Filter) (frels : Rels)
    {x : Ent} {en : Entry} (hm : (x, en) ∈ ss.ents) (hnm : entryMatches f frels en = false) :
    (x, detachAll (matching ss f frels) en) ∈ (specStepRB ss [] (.delb f frels)).ents := by
  show (x, _) ∈ (specDelAll ss (matching ss f frels)).ents
  rw [mem_specDelAll hnd (fun e he => matching_sub he) (matching_nodup hnd f frels)]
  refine ⟨en, hm, ?_, rfl⟩
  intro hmem
  have := (mem_matching_of_mem hnd f frels hm).mp hmem
  rw [hnm] at this; cases this

/-- **frame** (specification, `setrelb`): a specified entity the filter does not match keeps its
    entry -/
theorem entry_after_setrelb {ss : SS} (hnd : (ss.ents.map (·.1)).Nodup) (p : Path) (f : Filter)
    (frels rels : Rels) {x : Ent} {en : Entry} (hm : (x, en) ∈ ss.ents)
    (hnm : entryMatches f frels en = false) :
    (x, en) ∈ (specStepRB ss [] (.setrelb p f frels rels)).ents := by
  apply find_some_mem
  show find (specSetRelAll ss p rels (matching ss f frels)).ents x = some en
  rw [specSetRelAll_frame p rels x _ ss ?_]
  · exact find_of_mem hnd hm
  · intro hmem
    have := (mem_matching_of_mem hnd f frels hm).mp hmem
    rw [hnm] at this; cases this

/-- **frame** (specification, `xchgb`): a specified entity the filter does not match keeps its
    entry -/
theorem entry_after_xchgb {ss : SS} (hnd : (ss.ents.map (·.1)).Nodup) (p : Path) (f : Filter)
    (frels : Rels) (add rem : List Comp) (rels : Rels) {x : Ent} {en : Entry}
    (hm : (x, en) ∈ ss.ents) (hnm : entryMatches f frels en = false) :
    (x, en) ∈ (specStepRB ss [] (.xchgb p f frels add rem rels)).ents := by
  apply find_some_mem
  show find (specXchgAll ss add rem rels (matching ss f frels)).ents x = some en
  rw [specXchgAll_frame add rem rels x _ ss ?_]
  · exact find_of_mem hnd hm
  · intro hmem
    have := (mem_matching_of_mem hnd f frels hm).mp hmem
    rw [hnm] at this; cases this

/-- **frame** (specification, the single `xchg`): the entry of another entity is kept -/
theorem entry_after_xchg {ss : SS} (hnd : (ss.ents.map (·.1)).Nodup) (p : Path) (e : Ent)
    (add : List Comp) (vals : Comps) (rem : List Comp) (rels : Rels) {x : Ent} {en : Entry}
    (hm : (x, en) ∈ ss.ents) (hne : x ≠ e) :
    (x, en) ∈ (specStepRB ss [] (.xchg p e add vals rem rels)).ents := by
  apply find_some_mem
  show find (specXchg ss e add vals rem rels).ents x = some en
  have hf := find_of_mem hnd hm
  simp only [specXchg]
  cases hfe : find ss.ents e with
  | none => exact hf
  | some en' =>
    by_cases hok : XchgOK ss en' add rem rels
    · simp only [if_pos hok]; rw [find_upd_ne _ _ hne]; exact hf
    · simp only [if_neg hok]; exact hf

end RelRefineB

end Ark
