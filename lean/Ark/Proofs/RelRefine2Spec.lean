/-
  Ark.Proofs.RelRefine2Spec — property C01 (faithful store) over the histories of the machine of
  `Ark.Proofs.RelRefine2Machine`: entity operations WITH relation components interleaved with
  `Shrink`, `Reset`, filter definitions / registrations / unregistrations and queries.

  * `refines2` — after every history (`Reset` anywhere in it) every entry of the specification is
    realised by the world (alive, component set, values, relation targets);
  * `reset_effect2` — `Reset` ends the epoch: the specification is empty, nothing counts as issued,
    no ID is indexed to a table, no handle of the ended epoch is alive;
  * `alive_iff_specified2` — a handle the client holds is alive iff the specification has it;
  * `Op2.isQuiet`, `quiet_spec`, `quiet_invisible` — `Shrink`, `fdef`, `freg`, `funreg` and `query`
    leave the specification and the ghost history alone, and no entity's components, values or
    relation targets change (C15 over histories with relations: Shrink is invisible).
  Kernel-only proofs, core Lean only.
-/
import Ark.Proofs.RelRefine2Gen

set_option autoImplicit false

namespace Ark
namespace RelRefine2

open World Ark.Props.C01World QueryRel QueryExact RelRefine
open Refine (Comps keys sortedIds)

variable (run : ProbeRunner) (cap rel : Nat)

/-- **refines** — after every history of the machine (`Reset` included), for every entry `(e, en)` of
    the specification: `e` is alive, its component set is the sorted list of the keys of
    `en.comps`, every component holds the recorded value, every relation component has the
    recorded target, and the recorded relations are exactly the relation components among the
    keys -/
theorem refines2 (ops : List Op2) (hlen : ops.length < 2 ^ 16) (e : Ent) (en : Entry)
    (hm : (e, en) ∈ (reach2 run cap rel ops).ss.ents) :
    (reach2 run cap rel ops).w.alive e = true ∧
    compsOf (reach2 run cap rel ops).w e.id =
      some (sortedIds (reach2 run cap rel ops).w.kinds.length (keys en.comps)) ∧
    (∀ cv ∈ en.comps, valOf (reach2 run cap rel ops).w e.id cv.1 = some cv.2) ∧
    (∀ r ∈ en.rels, targetOf (reach2 run cap rel ops).w e.id r.comp = some r.target) ∧
    (keys en.comps).Nodup ∧ (en.rels.map (·.comp)).Nodup ∧
    (∀ c : Comp, c ∈ en.rels.map (·.comp) ↔
      c ∈ keys en.comps ∧ (reach2 run cap rel ops).w.isRelComp c = true) := by
  obtain ⟨fl, H⟩ := reach2_inv run cap rel ops hlen
  obtain ⟨_, ha, _⟩ := H.base.live_facts hm
  have ok := H.base.ok e en hm
  exact ⟨ha, ok.comps, ok.vals, ok.tgts, ok.nodup, ok.relNodup,
    fun c => by rw [ok.relKeys c, H.base.rget]⟩

/-- a handle the client holds is alive iff the specification has an entry for it -/
theorem alive_iff_specified2 (ops : List Op2) (hlen : ops.length < 2 ^ 16) (h : Ent)
    (hi : h ∈ (reach2 run cap rel ops).issued) :
    (reach2 run cap rel ops).w.alive h = true ↔
      (find (reach2 run cap rel ops).ss.ents h).isSome = true := by
  obtain ⟨fl, H⟩ := reach2_inv run cap rel ops hlen
  constructor
  · intro ha
    obtain ⟨en, hf, _⟩ := H.base.find_of_alive hi ha
    rw [hf]; rfl
  · exact H.base.alive_of_find

/-- **`Reset` ends the epoch** — `reset` always succeeds; afterwards the specification has no
    entity, the registry is kept, no ID is indexed to a table any more (no component set, value or
    relation target can be read), the cache is empty and every filter object unregistered, and
    the epoch of handles ends: nothing counts as issued, and every handle issued before is dead.
    (`Reset` re-issues the very same handles — ID and generation — to later `new`s by design,
    which is why the ghost history starts afresh.  `Reset` writes the sentinel generation `maxU32`
    into the retained memory; within the history bound no issued handle carries it:
    `reach2_issued_gen`.) -/
theorem reset_effect2 (ops : List Op2) (hlen : ops.length + 1 < 2 ^ 16) :
    (reach2 run cap rel (ops ++ [.reset])).ss.ents = [] ∧
    (reach2 run cap rel (ops ++ [.reset])).ss.zst = (reach2 run cap rel ops).ss.zst ∧
    (reach2 run cap rel (ops ++ [.reset])).ss.isRel = (reach2 run cap rel ops).ss.isRel ∧
    (reach2 run cap rel (ops ++ [.reset])).issued = [] ∧
    (reach2 run cap rel (ops ++ [.reset])).w.kinds = (reach2 run cap rel ops).w.kinds ∧
    (∀ (i : Nat), compsOf (reach2 run cap rel (ops ++ [.reset])).w i = none ∧
      (∀ (c : Comp), valOf (reach2 run cap rel (ops ++ [.reset])).w i c = none) ∧
      ∀ (c : Comp), targetOf (reach2 run cap rel (ops ++ [.reset])).w i c = none) ∧
    ((reach2 run cap rel (ops ++ [.reset])).w.cache.indices = [] ∧
      (reach2 run cap rel (ops ++ [.reset])).w.cache.filters = []) ∧
    (∀ (f : Nat) (fo : FilterObj),
      AL.find? (reach2 run cap rel (ops ++ [.reset])).w.filters f = some fo → fo.cache = none) ∧
    ∀ (h : Ent), h ∈ (reach2 run cap rel ops).issued →
      (reach2 run cap rel (ops ++ [.reset])).w.alive h = false := by
  obtain ⟨fl, H⟩ := reach2_inv run cap rel ops (by omega)
  have post := step2_reset_spec run H
  rw [reach2_snoc]
  refine ⟨by rw [post.state], by rw [post.state], by rw [post.state], by rw [post.state],
    by rw [post.state]; exact resetW_kinds _, post.unindexed, post.cacheEmpty, post.unregistered,
    fun h hi => ?_⟩
  obtain ⟨h2, _⟩ := H.base.ginv.issued_bound h hi
  exact post.dead h h2 (reach2_issued_gen run cap rel ops (by omega) h hi).2

/-- the operations that are not about entities: `Shrink`, the filter operations, queries -/
def Op2.isQuiet : Op2 → Bool
  | .base _ => false
  | .copy _ => false
  | .reset => false
  | _ => true

/-- they leave the specification and the handles issued alone -/
theorem quiet_spec (s : St) (op : Op2) (hq : op.isQuiet = true) :
    (step2 run s op).ss = s.ss ∧ (step2 run s op).issued = s.issued := by
  cases op with
  | base op => cases hq
  | copy e => cases hq
  | reset => cases hq
  | shrink b => exact ⟨rfl, rfl⟩
  | fdef f fo => simp only [step2]; split <;> exact ⟨rfl, rfl⟩
  | freg f => exact ⟨rfl, rfl⟩
  | funreg f => exact ⟨rfl, rfl⟩
  | query f extra => simp only [step2]; split <;> exact ⟨rfl, rfl⟩

/-- every entity keeps components, values and relation targets in a world with the same entity
    index and tables -/
theorem same_of_tables {w w' : World} (he : w'.entities = w.entities) (ht : w'.tables = w.tables)
    (j : Nat) : SameEnt w w' j ∧ ∀ (c : Comp), targetOf w' j c = targetOf w j c :=
  ⟨⟨fun c => valOf_congr he ht j c, compsOf_congr he ht j⟩,
    fun c => by simp only [targetOf, he, ht]⟩

/-- **`Shrink`, the filter operations and queries are invisible to the entities**: in a state
    satisfying the invariant, no entity (alive or not) changes components, values or relation
    targets, and aliveness of every handle is unchanged -/
theorem quiet_invisible {s : St} {fl : List Nat} (H : HInv2 s fl)
    (hent : 2 * s.w.entities.length < 2 ^ 32) (op : Op2) (hq : op.isQuiet = true) (j : Nat) :
    (SameEnt s.w (step2 run s op).w j ∧
      ∀ (c : Comp), targetOf (step2 run s op).w j c = targetOf s.w j c) ∧
    ∀ (h : Ent), (step2 run s op).w.alive h = s.w.alive h := by
  have cf : ∀ {w' : World}, SameButCF s.w w' →
      (SameEnt s.w w' j ∧ ∀ (c : Comp), targetOf w' j c = targetOf s.w j c) ∧
      ∀ (h : Ent), w'.alive h = s.w.alive h := by
    intro w' hs
    obtain ⟨h1, h2, _, _, _, _, h7, _⟩ := sameButCF_fields hs
    exact ⟨same_of_tables h2 h1 j, fun h => by simp only [World.alive, h7]⟩
  cases op with
  | base op => cases hq
  | copy e => cases hq
  | reset => cases hq
  | shrink bounded =>
    have hl := H.base.unlocked
    have ht := H.base.tinv
    have hb : RowsBounded s.w := fun t => by have := ht.link.idx.rows_le t; omega
    obtain ⟨_, hrel⟩ := shrinkPure_rel ht.link.idx hb bounded
    have hstep : step2 run s (.shrink bounded) = ⟨(shrinkPure s.w bounded).1, s.issued, s.ss⟩ := by
      simp only [step2, opShrink_eq bounded s.w hl, Res.state]
    rw [hstep]
    exact ⟨⟨⟨fun c => hrel.valOf j c, hrel.compsOf j⟩, fun c => shrinkRel_targetOf hrel j c⟩,
      fun h => hrel.alive h⟩
  | fdef f fo =>
    simp only [step2]
    split
    · exact cf (defFilter_sameButCF f fo s.w).1
    · exact cf (SameButCF.refl _)
  | freg f => exact cf (H.finv.filterRegister H.base.tinv f).2.1
  | funreg f => exact cf (H.finv.filterUnregister H.base.tinv f).2.1
  | query f extra =>
    -- the step keeps the invariant; the world afterwards is the world before up to the lock
    simp only [step2]
    split
    · rename_i hg
      obtain ⟨hrt, hfok⟩ := foAt_facts H.finv.heap f
      by_cases hx : ExtraAdmissible s.w (foAt s.w f) extra
      · obtain ⟨l1, l2, b, hL, _⟩ := H.qgood.lockCycle
        obtain ⟨d1, d2⟩ := H.drain_both hrt hfok hx hL
        have hdr : ∃ (visits : List Visit),
            drain (foAt s.w f) extra s.w = .ok visits (s.w.withLocks l2) := by
          cases hc : (foAt s.w f).cache with
          | none =>
            obtain ⟨q, visits, Q⟩ := d1 hc
            exact ⟨visits, Q.drained⟩
          | some id =>
            cases hfind : AL.find? s.w.filters f with
            | none => simp only [foAt, hfind] at hc; cases hc
            | some fo =>
              have hfo : foAt s.w f = fo := by simp only [foAt, hfind]; rfl
              obtain ⟨e, he, h1, h2, h3⟩ := H.finv.heap.reg f fo id hfind (by rw [← hfo]; exact hc)
              have hlook := lookup_of_mem H.finv.cache he
              rw [h1] at hlook
              obtain ⟨q, visits, Q⟩ := d2 id e hc hlook (by rw [hfo]; exact h2)
                (by rw [hfo]; exact h3)
              exact ⟨visits, Q.drained⟩
        obtain ⟨visits, hd⟩ := hdr
        rw [hd]
        exact ⟨same_of_tables rfl rfl j, fun _ => rfl⟩
      · have ht : (foAt s.w f).typed = true := by
          cases htt : (foAt s.w f).typed with
          | true => rfl
          | false =>
            exfalso
            apply hx
            refine ⟨fun h => (by rw [htt] at h; cases h), fun _ r hr => ?_⟩
            simp only [guardQ, htt, Bool.false_or, List.all_eq_true, Bool.and_eq_true] at hg
            exact hg r hr
        have hbad : ¬ ExtraOK s.w (foAt s.w f).filter.mask extra :=
          fun h => hx ⟨fun _ => h, fun h' => by rw [ht] at h'; cases h'⟩
        obtain ⟨k, _, hd⟩ := drain_rejected (foAt s.w f) extra s.w ht hbad
        rw [hd]
        exact ⟨same_of_tables rfl rfl j, fun _ => rfl⟩
    · exact ⟨same_of_tables rfl rfl j, fun _ => rfl⟩

/-! ## `CopyEntity` -/

/-- **`copy e` assigns**: for a handle the client holds whose entry is `en`, `CopyEntity`
    succeeds and returns the pool's next handle; the specification gets `en` a second time under
    that handle; in the world the copy has exactly the components, values and relation targets
    `e` had, and no other entity (`e` among them) changes -/
theorem copy_assigns {s : St} {fl : List Nat} (H : HInv2 s fl)
    (hent : 2 * s.w.entities.length < 2 ^ 32) {e : Ent} {en : Entry} (hi : e ∈ s.issued)
    (hf : find s.ss.ents e = some en) :
    (step2 run s (.copy e)).ss.ents = ((s.w.pool.get).2, en) :: s.ss.ents ∧
    (step2 run s (.copy e)).issued = (s.w.pool.get).2 :: s.issued ∧
    opCopyEntity run e s.w = .ok (s.w.pool.get).2 (step2 run s (.copy e)).w ∧
    compsOf (step2 run s (.copy e)).w (s.w.pool.get).2.id = compsOf s.w e.id ∧
    (∀ (c : Comp), valOf (step2 run s (.copy e)).w (s.w.pool.get).2.id c = valOf s.w e.id c) ∧
    (∀ (c : Comp), targetOf (step2 run s (.copy e)).w (s.w.pool.get).2.id c = targetOf s.w e.id c) ∧
    ∀ (j : Nat), j ≠ (s.w.pool.get).2.id →
      SameEnt s.w (step2 run s (.copy e)).w j ∧
      ∀ (c : Comp), targetOf (step2 run s (.copy e)).w j c = targetOf s.w j c := by
  have hm := find_some_mem hf
  obtain ⟨_, ha, h2, hnf, _, _⟩ := H.base.live_facts hm
  obtain ⟨w', hop, post⟩ := opCopyEntity_rel_spec run H.base.tinv H.base.unlocked H.base.noObs h2
    hnf ha (H.base.issued_in hi) (by omega)
  have hstep : step2 run s (.copy e) =
      ⟨w', (s.w.pool.get).2 :: s.issued,
        ⟨((s.w.pool.get).2, en) :: s.ss.ents, s.ss.zst, s.ss.isRel⟩⟩ := by
    simp only [step2, decide_eq_true_eq, if_pos hi, hop, hf]
  rw [hstep]
  exact ⟨rfl, rfl, hop, post.comps, post.vals, post.targets, post.frame⟩

/-- `copy e` on a handle that is not alive is rejected without effect -/
theorem copy_rejected {s : St} {fl : List Nat} (H : HInv2 s fl) {e : Ent}
    (ha : s.w.alive e = false) : step2 run s (.copy e) = s := by
  by_cases hi : e ∈ s.issued
  · simp only [step2, decide_eq_true_eq, if_pos hi,
      opCopyEntity_dead run s.w H.base.unlocked e ha]
  · simp only [step2, decide_eq_true_eq, if_neg hi]

end RelRefine2
end Ark
