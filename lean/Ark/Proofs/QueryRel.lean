/-
  Ark.Proofs.QueryRel — property C03 with RELATION TARGETS, part 1: which tables a query with
  relations selects, on a world satisfying the structural part `RelInv` (`SInv ∧ RInv ∧ RelAux`) of
  the joint invariant `TInv` of `Ark.Proofs.TargetsInv`.

  * `tablesInv_of_rel` — the storage facts `TablesInv` of `Ark.Proofs.CacheInv` hold in relation
    worlds (`hasRelations_eq`: a non-free table "has relations" iff its archetype does — this
    needs the exact relation lists `RelListsOK`);
  * `RelsTyped w f rels` — every relation names a relation component the filter's mask requires
    (what the typed API enforces); `relsOK_of_typed` — then `GetTables` / `Matches` cannot hit a
    nil dereference (`RelsOK`);
  * `matchesRels_iff_targets`, `selected_iff_match` — `Matches(relations)` / `Selected`, read off
    the columns: `TblMatch w f rels t` (archetype mask matches, `targetAt c = some tgt` for every
    relation `⟨c, tgt⟩`);
  * `relSel`, `qSelected_rel` — the uncached counting walk selects, archetype by archetype, the
    tables `GetTables` hands out (per-target lookup by the FIRST relation's target ID, or all
    tables) filtered by `Matches`; `mem_relSel_iff_selected`, `relSel_nodup`;
  * `RelTablesOK w f rels ts` — what a selected table list must satisfy; `RelTablesOK.of_archs`
    (uncached, from a good archetype list `ArchsOK`), `cachedSel`, `qSelected_cached`,
    `RelTablesOK.of_cached` (the entry of a registered filter lists `Selected` for the FIXED
    relations, the cursor matches the per-call ones).
  Kernel-only proofs, core Lean only.
-/
import Ark.Proofs.TargetsInv
import Ark.Proofs.CacheInv
import Ark.Proofs.QueryExact
import Ark.Proofs.CompIndex

set_option autoImplicit false

namespace Ark
namespace QueryRel

open World Drain Ark.Props.C01World QueryExact

/-! ## 1. the storage facts of `CacheInv.lean` hold in relation worlds -/

/-- a Boolean list with a `true` entry -/
theorem exists_true_of_filter_pos : ∀ (l : List Bool), 0 < (l.filter fun b => b).length →
    ∃ (i : Nat), l.getD i false = true
  | [], h => by simp at h
  | true :: _, _ => ⟨0, rfl⟩
  | false :: rest, h => by
    obtain ⟨i, hi⟩ := exists_true_of_filter_pos rest (by simpa using h)
    exact ⟨i + 1, by simpa using hi⟩

theorem getD_true_lt {l : List Bool} {i : Nat} (h : l.getD i false = true) : i < l.length := by
  rcases Nat.lt_or_ge i l.length with h1 | h1
  · exact h1
  · rw [List.getD_eq_getElem?_getD, List.getElem?_eq_none h1] at h; cases h

/-- a non-free table of a world with exact relation lists "has relations" exactly when its
    archetype does -/
theorem hasRelations_eq {w : World} (h : RelInv w) {t : Nat} {T : Table}
    (hT : w.tables[t]? = some T) (hf : T.isFree = false) :
    T.hasRelations = (w.arch T.arch).hasRelations := by
  have hex := h.aux.rels t T hT hf
  have hil := h.sinv.toSInvMid.isRel_len hT
  have hnum := h.sinv.toSInvMid.numRel_eq hT
  have hle := hex.length_le hil
  simp only [Table.hasRelations, Archetype.hasRelations, hnum]
  cases hr : T.relIDs with
  | cons r rest =>
    rw [hr] at hle
    simp only [List.length_cons] at hle
    simp only [List.isEmpty_cons, Bool.not_false]
    exact (decide_eq_true (by omega)).symm
  | nil =>
    simp only [List.isEmpty_nil, Bool.not_true]
    apply Eq.symm
    apply decide_eq_false
    intro hpos
    obtain ⟨i, hi⟩ := exists_true_of_filter_pos T.isRel hpos
    have hlt : i < T.ids.length := by rw [← hil]; exact getD_true_lt hi
    have := hex.complete i T.ids[i] (List.getElem?_eq_getElem hlt) hi
    rw [hr] at this; cases this

theorem tablesInv_of_rel {w : World} (h : RelInv w) : TablesInv w where
  index := h.rinv
  arch := by
    intro a A hA t ht
    obtain ⟨T, hT, hTa⟩ := h.sinv.owned a A t hA (Or.inl ht)
    rw [tbl_of_get hT]; exact hTa
  ids := by
    intro a A hA t ht
    obtain ⟨T, hT, hTa⟩ := h.sinv.owned a A t hA (Or.inl ht)
    obtain ⟨A', hA', e1, _⟩ := h.sinv.tblArch t T hT
    rw [hTa, hA] at hA'
    rw [tbl_of_get hT, e1, ← Option.some.inj hA']
  hasRel := by
    intro a A hA t ht
    obtain ⟨T, hT, hTa⟩ := h.sinv.owned a A t hA (Or.inl ht)
    have hf : T.isFree = false := by
      apply (h.sinv.member t T hT).1.mpr
      rw [hTa, arch_of_get hA]; exact ht
    rw [tbl_of_get hT, hasRelations_eq h hT hf, hTa, arch_of_get hA]
  single := fun a A hA hr => h.sinv.settled a A hA hr

/-! ## 2. the relations of a query -/

/-- **what the typed API guarantees of the relations of a query** (`fo.rels` from
    `.Relations(…)`, `extra` from `.Query(rel…)`; `ToRelations` / `preCheckTyped`): every relation
    names a relation component that the filter's mask requires -/
def RelsTyped (w : World) (f : Filter) (rels : List RelID) : Prop :=
  ∀ (r : RelID), r ∈ rels → w.isRelComp r.comp = true ∧ f.mask.get r.comp = true

theorem RelsTyped.append {w : World} {f : Filter} {r1 r2 : List RelID} (h1 : RelsTyped w f r1)
    (h2 : RelsTyped w f r2) : RelsTyped w f (r1 ++ r2) := by
  intro r hr
  rcases List.mem_append.mp hr with h | h
  · exact h1 r h
  · exact h2 r h

theorem RelsTyped.nil (w : World) (f : Filter) : RelsTyped w f [] := fun _ h => by cases h

/-- a component the filter requires is a column of every table of a matching archetype, and the
    column's relation flag is the registry's -/
theorem col_of_required {w : World} (h : SInvMid w) {t : Nat} {T : Table}
    (hT : w.tables[t]? = some T) {f : Filter} (hm : f.matchesMask (w.arch T.arch).mask = true)
    {c : Comp} (hc : f.mask.get c = true) :
    ∃ (i : Nat), T.colIdx c = some i ∧ T.isRel.getD i false = w.isRelComp c := by
  obtain ⟨A, hA, e1, e2, _⟩ := h.tblArch t T hT
  rw [arch_of_get hA] at hm
  have hg := ((Filter.matchesMask_iff f _).mp hm).1 c hc
  have hreg := h.maskReg _ A hA c hg
  have hmem : c ∈ T.ids := by
    rw [e1, (h.comps _ A hA).1]; exact (Mask.mem_toList _ _ _).mpr ⟨hreg, hg⟩
  have hlt : T.ids.idxOf c < T.ids.length := List.idxOf_lt_length_of_mem hmem
  have hci : T.colIdx c = some (T.ids.idxOf c) := by simp [Table.colIdx, hlt]
  refine ⟨_, hci, ?_⟩
  have hget := Table.colIdx_get hci
  rw [e1] at hget
  rw [e2, e1]
  exact (h.kindsOf _ A _ c hA hget).1

/-- the same for the archetype -/
theorem acol_of_required {w : World} (h : SInvMid w) {a : Nat} {A : Archetype}
    (hA : w.archetypes[a]? = some A) {f : Filter} (hm : f.matchesMask A.mask = true)
    {c : Comp} (hc : f.mask.get c = true) :
    ∃ (i : Nat), A.colIdx c = some i ∧ A.isRel.getD i false = w.isRelComp c := by
  have hg := ((Filter.matchesMask_iff f _).mp hm).1 c hc
  have hreg := h.maskReg _ A hA c hg
  have hmem : c ∈ A.comps := by
    rw [(h.comps _ A hA).1]; exact (Mask.mem_toList _ _ _).mpr ⟨hreg, hg⟩
  have hlt : A.comps.idxOf c < A.comps.length := List.idxOf_lt_length_of_mem hmem
  have hci : A.colIdx c = some (A.comps.idxOf c) := by simp [Archetype.colIdx, hlt]
  exact ⟨_, hci, (h.kindsOf _ A _ c hA (Archetype.colIdx_get hci)).1⟩

/-- **panic-freedom**: with typed relations neither `GetTables` nor `Matches` can hit a nil
    dereference -/
theorem relsOK_of_typed {w : World} (h : SInvMid w) {f : Filter} {rels : List RelID}
    (hr : RelsTyped w f rels) : RelsOK w f rels := by
  intro a A hA hm _
  refine ⟨?_, ?_⟩
  · intro r hrm
    obtain ⟨i, hi, _⟩ := acol_of_required h hA hm (hr r hrm).2
    rw [hi]; rfl
  · intro r hhead
    have hrm : r ∈ rels := by
      cases rels with
      | nil => cases hhead
      | cons x xs => simp only [List.head?_cons, Option.some.injEq] at hhead; subst hhead; exact List.mem_cons_self
    obtain ⟨i, hi, hi2⟩ := acol_of_required h hA hm (hr r hrm).2
    exact ⟨i, hi, by rw [hi2]; exact (hr r hrm).1⟩

/-! ## 3. what "selected" means for the entities of a table -/

/-- table `t` (of an archetype the filter matches) stores, for every relation of the query, the
    relation's target -/
def TblMatch (w : World) (f : Filter) (rels : List RelID) (t : Nat) : Prop :=
  f.matchesMask (w.arch (w.tbl t).arch).mask = true ∧
  ∀ (r : RelID), r ∈ rels → (w.tbl t).targetAt r.comp = some r.target

/-- **`Matches(relations)` read off the columns**: on a non-free table of an archetype the filter
    matches, with typed relations, `Matches` answers (no nil dereference), and answers yes exactly
    when every relation column asked for holds the target asked for -/
theorem matchesRels_iff_targets {w : World} (h : RelInv w) {f : Filter} {rels : List RelID}
    (hr : RelsTyped w f rels) {t : Nat} {T : Table} (hT : w.tables[t]? = some T)
    (hf : T.isFree = false) (hm : f.matchesMask (w.arch T.arch).mask = true) :
    T.matchesRels rels ≠ none ∧
    (T.matchesRels rels = some true ↔
      ∀ (r : RelID), r ∈ rels → T.targetAt r.comp = some r.target) := by
  have hS := h.sinv.toSInvMid
  refine ⟨?_, ?_⟩
  · apply Table.matchesRels_ne_none
    intro r hrm
    obtain ⟨i, hi, _⟩ := col_of_required hS hT hm (hr r hrm).2
    rw [hi]; rfl
  cases hrels : rels with
  | nil => simp [Table.matchesRels_nil]
  | cons r0 rest =>
    rw [← hrels]
    have hr0 : r0 ∈ rels := by rw [hrels]; exact List.mem_cons_self
    obtain ⟨i0, hi0, hi0r⟩ := col_of_required hS hT hm (hr r0 hr0).2
    rw [(hr r0 hr0).1] at hi0r
    have hAr : (w.arch T.arch).hasRelations = true := by
      obtain ⟨A, hA, _, e2, _⟩ := hS.tblArch t T hT
      rw [arch_of_get hA]
      exact (hS.astruct _ A hA).hasRelations_of_rel (by rw [← e2]; exact hi0r)
    have hTr : T.hasRelations = true := by rw [hasRelations_eq h hT hf]; exact hAr
    have hgo : T.matchesRels rels = Table.matchesRels.go T rels := by
      rw [hrels]; exact Table.matchesRels_eq_go T hTr r0 rest
    rw [hgo, Table.go_eq_true_iff]
    constructor
    · intro hall r hrm
      obtain ⟨i, hi, hti⟩ := hall r hrm
      obtain ⟨j, hj, hjr⟩ := col_of_required hS hT hm (hr r hrm).2
      rw [hi] at hj; obtain rfl := Option.some.inj hj
      rw [(hr r hrm).1] at hjr
      simp only [Table.targetAt, hi, Option.bind_some, hjr, if_true, hti]
    · intro hall r hrm
      have := hall r hrm
      obtain ⟨j, hj, hjr⟩ := col_of_required hS hT hm (hr r hrm).2
      rw [(hr r hrm).1] at hjr
      simp only [Table.targetAt, hj, Option.bind_some, hjr, if_true, Option.some.injEq] at this
      exact ⟨j, hj, this.symm⟩

/-- **selection, read off the table**: under the invariant and with typed relations, `Selected`
    (active table of a matching archetype on which `Matches(relations)` answers yes) says that
    the table exists, is not free, its archetype's mask matches and its relation columns hold
    the targets asked for -/
theorem selected_iff_match {w : World} (h : RelInv w) {f : Filter} {rels : List RelID}
    (hr : RelsTyped w f rels) (t : Nat) :
    Selected w f rels t ↔
      t < w.tables.length ∧ (w.tbl t).isFree = false ∧ TblMatch w f rels t := by
  have hS := h.sinv.toSInvMid
  constructor
  · rintro ⟨a, A, hA, hmem, hm, hmr⟩
    obtain ⟨T, hT, hTa⟩ := hS.owned a A t hA (Or.inl hmem)
    have hf : T.isFree = false := by
      apply (hS.member t T hT).1.mpr
      rw [hTa, arch_of_get hA]; exact hmem
    have hm' : f.matchesMask (w.arch T.arch).mask = true := by rw [hTa, arch_of_get hA]; exact hm
    rw [tbl_of_get hT] at hmr
    refine ⟨lt_of_get hT, by rw [tbl_of_get hT]; exact hf, ?_, ?_⟩
    · rw [tbl_of_get hT]; exact hm'
    · rw [tbl_of_get hT]; exact (matchesRels_iff_targets h hr hT hf hm').2.mp hmr
  · rintro ⟨hlt, hf, hm, hall⟩
    have hT := get_of_lt hlt
    obtain ⟨A, hA, _⟩ := hS.tblArch t _ hT
    refine ⟨_, A, hA, ?_, ?_, ?_⟩
    · have := (hS.member t _ hT).1.mp hf
      rw [arch_of_get hA] at this; exact this
    · rw [← arch_of_get hA]; exact hm
    · exact (matchesRels_iff_targets h hr hT hf hm).2.mpr hall

theorem tblMatch_append {w : World} {f : Filter} {r1 r2 : List RelID} {t : Nat} :
    TblMatch w f (r1 ++ r2) t ↔
      TblMatch w f r1 t ∧ ∀ (r : RelID), r ∈ r2 → (w.tbl t).targetAt r.comp = some r.target := by
  simp only [TblMatch, List.mem_append]
  constructor
  · rintro ⟨h1, h2⟩
    exact ⟨⟨h1, fun r hr => h2 r (Or.inl hr)⟩, fun r hr => h2 r (Or.inr hr)⟩
  · rintro ⟨⟨h1, h2⟩, h3⟩
    exact ⟨h1, fun r hr => hr.elim (h2 r) (h3 r)⟩

/-! ## 4. the counting walk of an uncached query -/

/-- the tables the uncached counting walk selects from the archetype list `as` -/
def relSel (w : World) (f : Filter) (rels : List RelID) (as : List Nat) : List Nat :=
  as.flatMap fun a => w.archSel f rels (w.arch a)

/-- one archetype of the walk -/
theorem selA_rel {w : World} (H : TablesInv w) {f : Filter} {rels : List RelID}
    (hok : RelsOK w f rels) {a : Nat} (ha : a < w.archetypes.length) (acc : List Nat) :
    selA w f rels (some acc) a = some (acc ++ w.archSel f rels (w.arch a)) := by
  obtain ⟨_, _, h3⟩ := archSel_spec H hok (aget_of_lt ha)
  simp only [selA, archSel]
  by_cases hm : f.matchesMask (w.arch a).mask = true
  case neg => simp [hm]
  by_cases hr : (w.arch a).hasRelations = true
  case neg => simp [hm, hr]
  obtain ⟨ts, hts, hnone⟩ := h3 hm hr
  simp only [hm, hr, Bool.not_true, Bool.false_eq_true, if_false, hts, Option.getD_some]
  exact innerFold w rels ts hnone acc

theorem foldl_selA_rel {w : World} (H : TablesInv w) {f : Filter} {rels : List RelID}
    (hok : RelsOK w f rels) : ∀ (as : List Nat) (acc : List Nat),
      (∀ (a : Nat), a ∈ as → a < w.archetypes.length) →
      as.foldl (selA w f rels) (some acc) = some (acc ++ relSel w f rels as) := by
  intro as
  induction as with
  | nil => intro acc _; simp [relSel]
  | cons a rest ih =>
    intro acc hlt
    rw [List.foldl_cons, selA_rel H hok (hlt a List.mem_cons_self),
      ih _ (fun x hx => hlt x (List.mem_cons_of_mem _ hx))]
    simp [relSel]

/-- **the counting walk of an uncached query, with relations** -/
theorem qSelected_rel {w : World} (H : TablesInv w) (q : QueryObj) (hc : q.cacheTables = none)
    (hok : RelsOK w q.filter q.rels)
    (hlt : ∀ (a : Nat), a ∈ w.archList q.rare → a < w.archetypes.length) :
    qSelected w q = some (relSel w q.filter q.rels (w.archList q.rare)) := by
  rw [qSelected_eq, hc]
  simpa using foldl_selA_rel H hok _ [] hlt

theorem mem_relSel {w : World} (H : TablesInv w) {f : Filter} {rels : List RelID}
    (hok : RelsOK w f rels) {as : List Nat} (hlt : ∀ (a : Nat), a ∈ as → a < w.archetypes.length)
    {t : Nat} :
    t ∈ relSel w f rels as ↔ ∃ (a : Nat), a ∈ as ∧ t ∈ (w.arch a).tables.tables ∧
      f.matchesMask (w.arch a).mask = true ∧ (w.tbl t).matchesRels rels = some true := by
  simp only [relSel, List.mem_flatMap]
  constructor
  · rintro ⟨a, ha, ht⟩
    exact ⟨a, ha, ((archSel_spec H hok (aget_of_lt (hlt a ha))).2.1 t).mp ht⟩
  · rintro ⟨a, ha, ht⟩
    exact ⟨a, ha, ((archSel_spec H hok (aget_of_lt (hlt a ha))).2.1 t).mpr ht⟩

theorem relSel_nodup {w : World} (H : TablesInv w) {f : Filter} {rels : List RelID}
    (hok : RelsOK w f rels) {as : List Nat} (hnd : as.Nodup)
    (hlt : ∀ (a : Nat), a ∈ as → a < w.archetypes.length) : (relSel w f rels as).Nodup := by
  unfold relSel List.Nodup
  rw [List.pairwise_flatMap]
  refine ⟨fun a ha => (archSel_spec H hok (aget_of_lt (hlt a ha))).1, ?_⟩
  refine List.Pairwise.imp_of_mem ?_ hnd
  intro a b ha hb hab x hx y hy hxy
  have h1 := ((archSel_spec H hok (aget_of_lt (hlt a ha))).2.1 x).mp hx
  have h2 := ((archSel_spec H hok (aget_of_lt (hlt b hb))).2.1 y).mp hy
  have e1 := H.arch a _ (aget_of_lt (hlt a ha)) x h1.1
  have e2 := H.arch b _ (aget_of_lt (hlt b hb)) y h2.1
  rw [hxy] at e1
  exact hab (e1.symm.trans e2)

/-- from a good archetype list: membership in the walk's result is `Selected` -/
theorem mem_relSel_iff_selected {w : World} (H : TablesInv w) {f : Filter} {rels : List RelID}
    (hok : RelsOK w f rels) {as : List Nat} (harchs : ArchsOK w f as) {t : Nat} :
    t ∈ relSel w f rels as ↔ Selected w f rels t := by
  rw [mem_relSel H hok harchs.lt]
  constructor
  · rintro ⟨a, ha, h1, h2, h3⟩
    exact ⟨a, _, aget_of_lt (harchs.lt a ha), h1, h2, h3⟩
  · rintro ⟨a, A, hA, h1, h2, h3⟩
    have := arch_of_get hA
    subst this
    exact ⟨a, harchs.complete a (alt_of_get hA) h2, h1, h2, h3⟩

/-! ## 5. the table lists a relation query may iterate -/

/-- what the selected table list of a query with relations `rels` must satisfy: duplicate-free,
    existing tables that match (`TblMatch`), and every NON-EMPTY matching table -/
structure RelTablesOK (w : World) (f : Filter) (rels : List RelID) (ts : List Nat) : Prop where
  nodup : ts.Nodup
  sound : ∀ (t : Nat), t ∈ ts → t < w.tables.length ∧ TblMatch w f rels t
  complete : ∀ (t : Nat), t < w.tables.length → (w.tbl t).len ≠ 0 → TblMatch w f rels t → t ∈ ts

/-- a table with rows is not free -/
theorem notFree_of_rows {w : World} (hfe : FreeEmpty w) {t : Nat} (ht : t < w.tables.length)
    (hl : (w.tbl t).len ≠ 0) : (w.tbl t).isFree = false := by
  cases hf : (w.tbl t).isFree with
  | false => rfl
  | true => exact absurd (hfe t _ (get_of_lt ht) hf) hl

/-- the tables the uncached walk selects from a good archetype list -/
theorem RelTablesOK.of_archs {w : World} (h : RelInv w) (hfe : FreeEmpty w) {f : Filter}
    {rels : List RelID} (hr : RelsTyped w f rels) {as : List Nat} (harchs : ArchsOK w f as) :
    RelTablesOK w f rels (relSel w f rels as) := by
  have H := tablesInv_of_rel h
  have hok := relsOK_of_typed h.sinv.toSInvMid hr
  refine ⟨relSel_nodup H hok harchs.nodup harchs.lt, ?_, ?_⟩
  · intro t ht
    have := (selected_iff_match h hr t).mp ((mem_relSel_iff_selected H hok harchs).mp ht)
    exact ⟨this.1, this.2.2⟩
  · intro t ht hl hm
    exact (mem_relSel_iff_selected H hok harchs).mpr
      ((selected_iff_match h hr t).mpr ⟨ht, notFree_of_rows hfe ht hl, hm⟩)

/-! ## 6. the counting walk of a cached query -/

/-- what the cached counting walk keeps of the entry's table list: the non-empty tables on which
    `Matches(per-call relations)` answers yes -/
def cachedSel (w : World) (rels : List RelID) (ts : List Nat) : List Nat :=
  ts.filter fun t => (w.tbl t).len != 0 && (w.tbl t).matchesRels rels == some true

theorem foldl_selC_rel (w : World) (rels : List RelID) : ∀ (ts : List Nat) (acc : List Nat),
    (∀ (t : Nat), t ∈ ts → (w.tbl t).len ≠ 0 → (w.tbl t).matchesRels rels ≠ none) →
    ts.foldl (selC w rels) (some acc) = some (acc ++ cachedSel w rels ts) := by
  intro ts
  induction ts with
  | nil => intro acc _; simp [cachedSel]
  | cons t rest ih =>
    intro acc h
    have ih' := fun acc' => ih acc' (fun x hx => h x (List.mem_cons_of_mem _ hx))
    rw [List.foldl_cons]
    by_cases hl : (w.tbl t).len = 0
    · have e : selC w rels (some acc) t = some acc := by simp [selC, hl]
      rw [e, ih']
      simp [cachedSel, hl]
    · cases hm : (w.tbl t).matchesRels rels with
      | none => exact absurd hm (h t List.mem_cons_self hl)
      | some b =>
        cases b with
        | false =>
          have e : selC w rels (some acc) t = some acc := by simp [selC, hl, hm]
          rw [e, ih']
          simp [cachedSel, hm]
        | true =>
          have e : selC w rels (some acc) t = some (acc ++ [t]) := by simp [selC, hl, hm]
          rw [e, ih']
          simp [cachedSel, hl, hm]

/-- **the counting walk of a cached query** -/
theorem qSelected_cached (w : World) (q : QueryObj) (ts : List Nat)
    (hc : q.cacheTables = some ts)
    (h : ∀ (t : Nat), t ∈ ts → (w.tbl t).len ≠ 0 → (w.tbl t).matchesRels q.rels ≠ none) :
    qSelected w q = some (cachedSel w q.rels ts) := by
  rw [qSelected_eq, hc]
  simpa using foldl_selC_rel w q.rels ts [] h

/-- the tables the cached walk selects from the table list of a cache entry registered for the
    filter and its fixed relations, with per-call relations `extra` -/
theorem RelTablesOK.of_cached {w : World} (h : RelInv w) (hfe : FreeEmpty w) (hC : CacheInv w)
    {ce : CacheEntry} (hmem : ce ∈ w.cache.filters) {extra : List RelID}
    (hr : RelsTyped w ce.filter (ce.rels ++ extra)) :
    (∀ (t : Nat), t ∈ ce.tables.tables → (w.tbl t).matchesRels extra ≠ none) ∧
    RelTablesOK w ce.filter (ce.rels ++ extra) (cachedSel w extra ce.tables.tables) := by
  obtain ⟨hwf, hsel⟩ := hC.entries ce hmem
  have hr1 : RelsTyped w ce.filter ce.rels := fun r hrm => hr r (List.mem_append_left _ hrm)
  have hr2 : RelsTyped w ce.filter extra := fun r hrm => hr r (List.mem_append_right _ hrm)
  have hfacts : ∀ (t : Nat), t ∈ ce.tables.tables →
      t < w.tables.length ∧ (w.tbl t).isFree = false ∧ TblMatch w ce.filter ce.rels t :=
    fun t ht => (selected_iff_match h hr1 t).mp ((hsel t).mp ht)
  have hex : ∀ (t : Nat), t < w.tables.length → (w.tbl t).isFree = false →
      ce.filter.matchesMask (w.arch (w.tbl t).arch).mask = true →
      (w.tbl t).matchesRels extra ≠ none ∧
      ((w.tbl t).matchesRels extra = some true ↔
        ∀ (r : RelID), r ∈ extra → (w.tbl t).targetAt r.comp = some r.target) :=
    fun t hlt hf hm => matchesRels_iff_targets h hr2 (get_of_lt hlt) hf hm
  refine ⟨?_, List.Pairwise.filter _ hwf.nodup, ?_, ?_⟩
  · intro t ht
    obtain ⟨h1, h2, h3, _⟩ := hfacts t ht
    exact (hex t h1 h2 h3).1
  · intro t ht
    simp only [cachedSel, List.mem_filter, Bool.and_eq_true, beq_iff_eq] at ht
    obtain ⟨ht1, _, ht3⟩ := ht
    obtain ⟨h1, h2, h3⟩ := hfacts t ht1
    exact ⟨h1, tblMatch_append.mpr ⟨h3, (hex t h1 h2 h3.1).2.mp ht3⟩⟩
  · intro t hlt hl hm
    obtain ⟨hm1, hm2⟩ := tblMatch_append.mp hm
    have hf := notFree_of_rows hfe hlt hl
    have hin : t ∈ ce.tables.tables :=
      (hsel t).mpr ((selected_iff_match h hr1 t).mpr ⟨hlt, hf, hm1⟩)
    simp only [cachedSel, List.mem_filter, Bool.and_eq_true, beq_iff_eq, bne_iff_ne, ne_eq]
    exact ⟨hin, hl, (hex t hlt hf hm1.1).2.mpr hm2⟩

end QueryRel
end Ark
