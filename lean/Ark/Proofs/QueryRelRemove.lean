/-
  Ark.Proofs.QueryRelRemove — property C03 with RELATION TARGETS, part 5: `QGood` is kept by
  `RemoveEntity`, including the removal of a relation TARGET with its `cleanupArchetypes`
  (`QGood.removeEntity`).

  `QKeep w w'` (of `QueryRelCreate`: `RowsAlive`, `CIdx`, `CacheEmpty` carry over) is shown for
  the steps of the cleanup (`getOrCreate`, `moveEntities`, the freeing block, `RemoveTarget`) and
  pushed through the two loops with the loop invariants of `Ark.Proofs.TargetsLoops`
  (`cleanTable_step_q`, `innerLoop_spec_q`, `cleanArch_spec_q`, `cleanupArchetypes_spec_q`);
  `opRemoveEntity_qkeep`; `rowsAlive_removed` — the `CInv`-free form of `RowsAlive.removed`.
  Kernel-only proofs, core Lean only.
-/
import Ark.Proofs.QueryRelCreate

set_option autoImplicit false

namespace Ark
namespace QueryRel

open World Drain Ark.Props.C01World QueryExact

/-! ### the steps of the cleanup -/

theorem getOrCreate_qkeep {a : Nat} {rels : List RelID} {w w1 : World} {nt : Nat}
    (h : getOrCreate a rels w = .ok nt w1) : QKeep w w1 := by
  simp only [getOrCreate, bind, M.bind] at h
  have hst := getTable_state a rels w
  cases hg : getTable a rels w with
  | panic k s => rw [hg] at h; cases h
  | ok r s =>
    rw [hg] at h hst
    have hs : s = w := hst
    subst hs
    cases r with
    | some t =>
      simp only [pure, M.pure] at h
      injection h with _ h2
      subst h2
      exact QKeep.refl _
    | none =>
      simp only at h
      exact ⟨fun hr => hr.lookup (createTable_keeps h), fun hc => hc.createTable h,
        fun he => createTable_cacheEmpty h he⟩

/-- `moveEntities src dst (len src)`: the rows of `src` are appended to `dst` -/
theorem moved_qkeep {w : World} (hI : IdxInv w) {src dst : Nat} (hne : src ≠ dst)
    (hs : src < w.tables.length) (hd : dst < w.tables.length)
    (hb : (w.tbl dst).len + (w.tbl src).len < 2 ^ 32) :
    QKeep w (moveEntitiesW w src dst (w.tbl src).len) := by
  obtain ⟨hTS, _⟩ := moveEntitiesW_spec w src dst (w.tbl src).len hne hd
  obtain ⟨fa, fk, _, fc, fp, _⟩ := moveEntitiesW_fields w src dst (w.tbl src).len
  refine ⟨?_, fun hc => hc.of_frame ⟨?_, fk, by rw [fa], fun b => by simp only [arch, fa]⟩,
    fun he => he.of_eq fc⟩
  · intro hr
    have hSs := hI.shape src _ (get_of_lt hs)
    have hDs := hI.shape dst _ (get_of_lt hd)
    have hal : ∀ (e : Ent), (moveEntitiesW w src dst (w.tbl src).len).alive e = w.alive e :=
      fun e => by simp only [World.alive, fp]
    intro t T r hT hrl
    rw [hal]
    rw [hTS] at hT
    by_cases h1 : t = src
    · subst h1
      rw [List.getElem?_set_self (by rw [List.length_set]; exact hs)] at hT
      obtain rfl := Option.some.inj hT
      rw [Table.reset_len] at hrl; exact absurd hrl (Nat.not_lt_zero _)
    · rw [List.getElem?_set_ne (Ne.symm h1)] at hT
      by_cases h2 : t = dst
      · subst h2
        rw [List.getElem?_set_self hd] at hT
        obtain rfl := Option.some.inj hT
        rw [Table.addAll_len] at hrl
        rw [Table.addAll_getEntity hDs hSs _ (Nat.le_refl _) hb r hrl]
        split
        · rename_i hlt; exact hr.tbl hlt
        · rename_i hge; exact hr.tbl (by omega)
      · rw [List.getElem?_set_ne (Ne.symm h2)] at hT
        exact hr t T r hT hrl
  · exact moveEntitiesW_keep (·.componentIndex) (fun _ _ _ => rfl) (fun _ _ _ _ => rfl) w src dst _

theorem freeTable_mask (A : Archetype) (tid : Nat) : (A.freeTable tid).mask = A.mask := by
  simp only [Archetype.freeTable]
  split <;> rfl

theorem freeW_qkeep (w : World) (a tid : Nat) : QKeep w (freeW w a tid) := by
  have hf : CIFrame w (freeW w a tid) :=
    ((modArch_ciFrame w a _ (fun A => freeTable_mask A tid)).trans
      (modTbl_ciFrame _ tid (fun T => { T with isFree := true }))).trans
      (c := freeW w a tid) ⟨rfl, rfl, rfl, fun _ => rfl⟩
  refine ⟨fun hr => ?_, fun hc => hc.of_frame hf, fun he => ?_⟩
  case refine_2 =>
    obtain ⟨h1, h2⟩ := he
    refine ⟨h1, ?_⟩
    show (w.cache.filters.map _) = []
    rw [h2]; rfl
  have hal : ∀ (e : Ent), (freeW w a tid).alive e = w.alive e := fun _ => rfl
  have htb : ∀ (t : Nat), (freeW w a tid).tbl t =
      ((w.modArch a fun A => A.freeTable tid).modTbl tid fun T => { T with isFree := true }).tbl t :=
    fun _ => rfl
  apply rowsAlive_of_tbl
  intro t r hrl
  rw [hal]
  rw [htb, modTbl_tbl] at hrl ⊢
  have hbase : ∀ (t' : Nat), (w.modArch a fun A => A.freeTable tid).tbl t' = w.tbl t' := fun _ => rfl
  split at hrl
  · rename_i hc
    rw [if_pos hc]
    rw [hbase] at hrl ⊢
    exact hr.tbl hrl
  · rename_i hc
    rw [if_neg hc]
    rw [hbase] at hrl ⊢
    exact hr.tbl hrl

theorem removeTarget_qkeep (w : World) (a : Nat) (g : Ent) :
    QKeep w (w.modArch a fun A => A.removeTarget g) :=
  ⟨fun hr => hr, fun hc => hc.of_frame (modArch_ciFrame w a _ (fun _ => rfl)), fun he => he⟩

/-! ### one table of the cleanup -/

/-- `cleanTable_step` of `Ark.Proofs.TargetsStep`, with `QKeep` -/
theorem cleanTable_step_q {g : Ent} {a tid : Nat} {w : World} (hB : CleanBase g w)
    (hX : RInvExcept w a g.id) (hg0 : g.id ≠ 0) (ha : a < w.archetypes.length)
    (hact : tid ∈ (w.arch a).tables.tables)
    (htg : ∃ (i0 : Nat), (w.arch a).isRel.getD i0 false = true ∧
      ((w.tbl tid).targets.getD i0 Ent.zero).id = g.id)
    (hfew : w.tables.length + 1 ≤ maxU32) (hrows : 2 * w.entities.length < 2 ^ 32) :
    ∃ (w' : World), cleanTable g a tid w = .ok () w' ∧ CleanStep g a tid w w' ∧ QKeep w w' := by
  obtain ⟨w', hok, st⟩ := cleanTable_step hB hX hg0 ha hact htg hfew hrows
  refine ⟨w', hok, st, ?_⟩
  have hS := hB.sinv.toSInvMid
  have hA := aget_of_lt ha
  obtain ⟨T, hT, hTa⟩ := hS.owned a _ tid hA (Or.inl hact)
  have hTe := tbl_of_get hT
  have hlt := lt_of_get hT
  have hTa' : (w.tbl tid).arch = a := by rw [hTe]; exact hTa
  have hmem := hS.member tid T hT
  rw [hTa] at hmem
  have hTf : (w.tbl tid).isFree = false := by rw [hTe]; exact hmem.1.2 hact
  obtain ⟨A', hA', i1, i2, i3, _⟩ := hS.tblArch tid _ (get_of_lt hlt)
  rw [hTa', hA] at hA'
  obtain rfl := Option.some.inj hA'
  have hnd := hS.ids_nodup (get_of_lt hlt)
  have hrl := hS.isRel_len (get_of_lt hlt)
  have hTex := hB.rels tid _ (get_of_lt hlt) hTf
  have hokt : ∀ (i : Nat), (w.tbl tid).isRel.getD i false = true →
      OKT w g ((w.tbl tid).targets.getD i Ent.zero) :=
    fun i hi => hB.tgts tid _ (get_of_lt hlt) hTf i hi
  obtain ⟨i0, hi0, hid0⟩ := htg
  have hi0' : (w.tbl tid).isRel.getD i0 false = true := by rw [i2]; exact hi0
  have hg0t : (w.tbl tid).targets.getD i0 Ent.zero = g := (hokt i0 hi0').eq_of_id hg0 hid0
  obtain ⟨c1, c2, c3⟩ := cleanRels_spec hTex hnd hrl hokt hg0
  rw [cleanTable_eq] at hok
  by_cases hlen : (w.tbl tid).len > 0
  · rw [if_pos hlen, getExchangeTargetsUnchecked_eq _ _ c1] at hok
    obtain ⟨nt, w1, hgo, hB1, _, cg⟩ := cleanGet hB hX hg0 hlt hTa' hTf ⟨i0, hi0', hg0t⟩ c2 c3
    simp only [hgo] at hok
    injection hok with _ hw
    subst hw
    have htid1 : w1.tables[tid]? = w.tables[tid]? := cg.others tid (Ne.symm cg.ntNe)
    have htbl1 : w1.tbl tid = w.tbl tid := by simp only [tbl, List.getD_eq_getElem?_getD, htid1]
    have hlt1 : tid < w1.tables.length := Nat.lt_of_lt_of_le hlt cg.tablesLe
    have hI1 := hB1.idx
    have hrowsB : (w1.tbl nt).len + (w1.tbl tid).len < 2 ^ 32 := by
      have h1 := hI1.rows_le nt
      have h2 := hI1.rows_le tid
      rw [cg.entities] at h1 h2
      omega
    have mv := moved_qkeep hI1 (src := tid) (dst := nt) (Ne.symm cg.ntNe) hlt1 cg.ntLt hrowsB
    rw [htbl1] at mv
    exact ((getOrCreate_qkeep hgo).trans mv).trans (freeW_qkeep _ a tid)
  · rw [if_neg hlen] at hok
    injection hok with _ hw
    subst hw
    exact freeW_qkeep w a tid

/-! ### the loops -/

/-- `innerLoop_spec` of `Ark.Proofs.TargetsLoops`, with `QKeep` -/
theorem innerLoop_spec_q {g : Ent} {a N : Nat} {w0 : World} (hg0 : g.id ≠ 0) (hN : N + 2 ≤ maxU32)
    (hrows : 2 * w0.entities.length < 2 ^ 32) :
    ∀ (rest : List Nat) (w : World), InnerInv g a N w0 rest w ∧ QKeep w0 w →
      ∃ (w' : World), M.forM' rest (cleanTable g a) w = .ok () w' ∧
        (InnerInv g a N w0 [] w' ∧ QKeep w0 w') := by
  apply forM'_hoare (I := fun rest w => InnerInv g a N w0 rest w ∧ QKeep w0 w)
  intro tid rest w ⟨hI, hQ⟩
  obtain ⟨hs1, hs2⟩ := hI.sound tid List.mem_cons_self
  obtain ⟨w', hok, st, hq⟩ := cleanTable_step_q hI.base hI.exc hg0 hI.alt hs1 hs2
    (by have := hI.len1; omega) (by rw [hI.frame.idxSame.len]; exact hrows)
  refine ⟨w', hok, ?_, hQ.trans hq⟩
  have hnd := List.nodup_cons.1 hI.nodup
  refine
    { base := st.base, exc := st.exc
      frame := hI.frame.trans (ent_ne_zero hg0) st.frame
      alt := by rw [st.frame.archLen]; exact hI.alt
      nodup := hnd.2
      sound := ?_, complete := ?_
      others := fun b hb => by rw [st.otherArchs b hb]; exact hI.others b hb
      len1 := ?_
      len0 := fun h => absurd h st.hasFree }
  · intro t ht
    have hne : t ≠ tid := fun e => hnd.1 (e ▸ ht)
    obtain ⟨k1, i0, k2, k3⟩ := hI.sound t (List.mem_cons_of_mem _ ht)
    obtain ⟨m1, m2⟩ := st.keep t k1 hne
    exact ⟨m1, i0, by rw [st.isRel]; exact k2, by rw [m2]; exact k3⟩
  · intro t ht ⟨i, hi, hid⟩
    rw [st.isRel] at hi
    rcases st.act t ht with ⟨k1, k2, k3⟩ | k
    · have := hI.complete t k1 ⟨i, hi, by rw [← k3]; exact hid⟩
      rcases List.mem_cons.1 this with e | e
      · exact absurd e k2
      · exact e
    · exact absurd hid (k i hi)
  · by_cases hf : w'.tables.length = w.tables.length + 1
    · have := hI.len0 (st.lenFresh hf); omega
    · have := st.lenB; have := hI.len1; omega

/-- `cleanArch_spec` of `Ark.Proofs.TargetsLoops`, with `QKeep` -/
theorem cleanArch_spec_q {g : Ent} {a : Nat} {w : World} (hB : CleanBase g w) (hR : RInv w)
    (hg0 : g.id ≠ 0) (hfew : w.tables.length + 2 ≤ maxU32)
    (hrows : 2 * w.entities.length < 2 ^ 32) :
    ∃ (w' : World), cleanArch g a w = .ok () w' ∧ CleanedArch g a w w' ∧ QKeep w w' := by
  obtain ⟨w', hok, ca⟩ := cleanArch_spec (a := a) hB hR hg0 hfew hrows
  refine ⟨w', hok, ca, ?_⟩
  rw [cleanArch_eq] at hok
  cases hf : AL.find? (w.arch a).targetTables g.id with
  | none =>
    rw [hf] at hok
    injection hok with _ hw
    subst hw
    exact QKeep.refl _
  | some ts =>
    rw [hf] at hok
    have ha : a < w.archetypes.length := by
      rcases Nat.lt_or_ge a w.archetypes.length with h1 | h1
      · exact h1
      · have : w.arch a = default := by
          simp [arch, List.getD_eq_getElem?_getD, List.getElem?_eq_none h1]
        rw [this, default_arch_targetTables] at hf
        cases hf
    have hA := aget_of_lt ha
    have hI := hR a _ hA
    have hlisted := hI.targetListed hf
    have hinit : InnerInv g a w.tables.length w ts.tables.reverse w := by
      refine
        { base := hB, exc := hR.toExcept a g.id, frame := CleanFrame.refl g w, alt := ha
          nodup := (List.reverse_perm ts.tables).nodup_iff.2 (hI.target.wf g.id ts hf).nodup
          sound := ?_, complete := ?_
          others := fun _ _ => rfl
          len1 := Nat.le_succ _
          len0 := fun _ => Nat.le_refl _ }
      · intro t ht
        exact (hlisted t).1 (List.mem_reverse.1 ht)
      · intro t ht hex
        exact List.mem_reverse.2 ((hlisted t).2 ⟨ht, hex⟩)
    obtain ⟨w1, hok1, _, hq1⟩ := innerLoop_spec_q hg0 hfew hrows _ _ ⟨hinit, QKeep.refl w⟩
    simp only [hok1] at hok
    injection hok with _ hw
    subst hw
    exact hq1.trans (removeTarget_qkeep w1 a g)

/-- `cleanupArchetypes_spec` of `Ark.Proofs.TargetsLoops`, with `QKeep` -/
theorem cleanupArchetypes_spec_q {g : Ent} {w : World} (hB : CleanBase g w) (hR : RInv w)
    (hg0 : g.id ≠ 0) (hfew : w.tables.length + w.relationArchetypes.length + 1 ≤ maxU32)
    (hrows : 2 * w.entities.length < 2 ^ 32) :
    ∃ (w' : World), cleanupArchetypes g w = .ok () w' ∧ Cleaned g w w' ∧ QKeep w w' := by
  obtain ⟨w', hok, cl⟩ := cleanupArchetypes_spec hB hR hg0 hfew hrows
  refine ⟨w', hok, cl, ?_⟩
  rw [cleanupArchetypes_eq] at hok
  have hloop : ∀ (rest : List Nat) (w1 : World),
      OuterInv g (w.tables.length + w.relationArchetypes.length) w rest w1 ∧ QKeep w w1 →
      ∃ (w' : World), M.forM' rest (cleanArch g) w1 = .ok () w' ∧
        (OuterInv g (w.tables.length + w.relationArchetypes.length) w [] w' ∧ QKeep w w') := by
    apply forM'_hoare (I := fun rest w1 =>
      OuterInv g (w.tables.length + w.relationArchetypes.length) w rest w1 ∧ QKeep w w1)
    intro a rest w1 ⟨hI, hQ⟩
    have hlen := hI.len
    simp only [List.length_cons] at hlen
    obtain ⟨w', hok', ca, hq⟩ := cleanArch_spec_q (a := a) hI.base hI.rinv hg0 (by omega)
      (by rw [hI.frame.idxSame.len]; exact hrows)
    refine ⟨w', hok', ?_, hQ.trans hq⟩
    refine
      { base := ca.base, rinv := ca.rinv
        frame := hI.frame.trans (ent_ne_zero hg0) ca.frame
        len := by have := ca.lenB; omega
        done := ?_ }
    intro b B hB' hrel
    by_cases e : b = a
    · subst e
      right
      rw [← arch_of_get hB']; exact ca.noKey
    · rw [ca.others b e] at hB'
      rcases hI.done b B hB' hrel with h1 | h1
      · rcases List.mem_cons.1 h1 with h2 | h2
        · exact absurd h2 e
        · exact Or.inl h2
      · exact Or.inr h1
  obtain ⟨w'', hok'', _, hq⟩ := hloop w.relationArchetypes w
    ⟨{ base := hB, rinv := hR, frame := CleanFrame.refl g w, len := Nat.le_refl _
       done := fun b B hB' hrel => Or.inl (hB.relArchs b B hB' hrel) }, QKeep.refl w⟩
  rw [hok] at hok''
  injection hok'' with _ hw
  rw [hw]; exact hq

/-! ### `RemoveEntity` -/

/-- the removal block under the pool link (the `CInv`-free form of `RowsAlive.removed`) -/
theorem rowsAlive_removed {w : World} {fl : List Nat} (h : RowsAlive w) (L : PLink w fl) {e : Ent}
    {t row : Nat} (rl : RemovedLink w fl e t row (removeRowOf w e t row)) :
    RowsAlive (removeRowOf w e t row) := by
  have he := rl.entry
  have ht := rl.tne
  obtain ⟨hTt, hrow, _⟩ := L.idx.indexed he ht
  have hS := L.idx.shape t _ hTt
  have hTab := rl.tables
  have hne : ∀ t1 r : Nat, r < (w.tbl t1).len → (t1 = t → r ≠ row) →
      ((w.tbl t1).getEntity r).id ≠ e.id := by
    intro t1 r hr hdiff heq
    have hx := L.idx.rowIdx t1 _ r (get_of_lt (tbl_len_pos_lt hr)) hr
    rw [heq, he] at hx
    obtain ⟨rfl, rfl⟩ := Prod.mk.inj (Option.some.inj hx)
    exact hdiff rfl rfl
  intro t1 T1 r hT1 hr
  rw [hTab] at hT1
  rcases setTbl_get w t t1 _ T1 (by simpa only [setTbl] using hT1) with ⟨a, b, _⟩ | ⟨a, b⟩
  · subst a; subst b
    rw [Table.remove_len] at hr
    rw [Table.remove_getEntity hS row hrow r hr]
    split
    · rename_i hrr
      have hl : (w.tbl t1).len - 1 < (w.tbl t1).len := by omega
      rw [rl.aliveFrame _ (hne t1 _ hl (fun _ => by omega))]
      exact h.tbl hl
    · rename_i hrr
      have hl : r < (w.tbl t1).len := by omega
      rw [rl.aliveFrame _ (hne t1 r hl (fun _ => hrr))]
      exact h.tbl hl
  · have := tbl_of_get b
    subst this
    rw [rl.aliveFrame _ (hne t1 r hr (fun hh => absurd hh a))]
    exact h.tbl hr

/-- `RemoveEntity g` of a live entity — relation target or not — on success -/
theorem opRemoveEntity_qkeep (run : ProbeRunner) {w : World} {fl : List Nat} (h : TInv w fl)
    (hl : w.isLocked = false) (hno : ∀ (evt : Nat), w.obs.hasObservers evt = false) {g : Ent}
    (h2 : 2 ≤ g.id) (hnf : g.id ∉ fl) (ha : w.alive g = true) (hsl : g.id < w.pool.ents.length)
    (hfew : w.tables.length + w.relationArchetypes.length + 1 ≤ maxU32)
    (hrows : 2 * w.entities.length < 2 ^ 32) :
    ∃ (w3 : World), opRemoveEntity run g w = .ok () w3 ∧ QKeep w w3 ∧ w3.locks = w.locks := by
  have hg0 : g.id ≠ 0 := by omega
  obtain ⟨t, row, hix, rl⟩ := h.link.removed h2 hnf ha hsl
  obtain ⟨fk, fa, fm⟩ := removeRowOf_fields w g t row
  obtain ⟨fra, fc⟩ := removeRowOf_more w g t row
  have hTt := get_of_lt (lt_of_get (h.link.idx.indexed rl.entry rl.tne).1)
  have q1 : QKeep w (removeRowOf w g t row) :=
    ⟨fun hr => rowsAlive_removed hr h.link rl, fun hc => hc.of_frame (removeRowOf_ciFrame w g t row),
     fun he => he.of_eq fc⟩
  by_cases hfl : w.isTarget.getD g.id false = true
  · have ms1 : MetaStep w (removeRowOf w g t row) :=
      MetaStep.of_set fa fk fra fc rl.tables (fun _ => Table.remove_sameMeta _ _)
    have hal1 : ∀ (x : Ent), w.alive x = true → x ≠ g →
        (removeRowOf w g t row).alive x = true ∧ x.id ≠ g.id := by
      intro x hx hne
      have hid : x.id ≠ g.id := fun e => hne (h.link.alive_inj hx ha e)
      exact ⟨by rw [rl.aliveFrame x hid]; exact hx, hid⟩
    have hfree1 : FreeEmpty (removeRowOf w g t row) :=
      h.freeEmpty.of_set rl.tables (fun hf => by
        have := h.freeEmpty t _ hTt (by rw [← (Table.remove_sameMeta _ _).isFree]; exact hf)
        rw [Table.remove_len, this])
    have hB1 : CleanBase g (removeRowOf w g t row) := by
      refine
        { idx := rl.link.idx
          sinv := h.rel.sinv.of_sameMeta ms1.archetypes ms1.kinds ms1.len ms1.tmeta
          tgts := ?_
          rels := h.rel.aux.rels.of_sameMeta ms1.len ms1.tmeta
          cacheRels := by intro e he; rw [fc] at he; exact h.rel.aux.cacheRels e he
          flags := h.flags.of_metaStep ms1 (fun i hi => by rw [removeRowOf_isTarget]; exact hi)
          freeEmpty := hfree1
          relArchs := by
            intro b B hB' hrel; rw [fa] at hB'; rw [fra]; exact h.rel.aux.relArchs b B hB' hrel }
      have hsat : TargetsSat (fun x => x.isZero = true ∨ w.alive x = true)
          (removeRowOf w g t row) :=
        ((targetsOK_iff w).1 h.rel.aux.targets).of_metaStep ms1
      refine hsat.mono ?_
      intro x hx
      rcases hx with h1 | h1
      · exact Or.inl h1
      · by_cases e : x = g
        · exact Or.inr (Or.inr e)
        · exact Or.inr (Or.inl (hal1 x h1 e))
    have hR1 : RInv (removeRowOf w g t row) :=
      h.rel.rinv.of_sameMeta ms1.archetypes ms1.len ms1.tmeta
    have hE1 : (removeRowOf w g t row).entities.length = w.entities.length := by
      rw [removeRowOf_entities, unplace_entities]; split <;> simp only [List.length_modify]
    have hfew1 : (removeRowOf w g t row).tables.length +
        (removeRowOf w g t row).relationArchetypes.length + 1 ≤ maxU32 := by
      rw [ms1.len, fra]; exact hfew
    obtain ⟨w2, hok, cl, q2⟩ :=
      cleanupArchetypes_spec_q hB1 hR1 hg0 hfew1 (by rw [hE1]; exact hrows)
    refine ⟨unflagW w2 g, ?_, (q1.trans q2).trans ⟨fun hr => hr, fun hc =>
      hc.of_frame ⟨rfl, rfl, rfl, fun _ => rfl⟩, fun he => he⟩, ?_⟩
    · rw [opRemoveEntity_eq_target run w g hl ha hix hno hfl]
      simp only [hok]
    · show w2.locks = w.locks
      rw [cl.frame.locks, removeRowOf_locks]
  · have hnt : w.isTarget.getD g.id false = false := by simpa using hfl
    exact ⟨removeRowOf w g t row, opRemoveEntity_eq run w g hl ha hix hno hnt, q1,
      removeRowOf_locks w g t row⟩

/-- **`RemoveEntity` keeps `QGood`** — also when the entity is a relation target and its
    removal runs `cleanupArchetypes` (hypotheses of `Good.removeEntity`) -/
theorem QGood.removeEntity (run : ProbeRunner) {w : World} (q : QGood w) {g : Ent}
    (ha : w.alive g = true) (hidx : (w.index g.id).1 ≠ maxU32) (hlt : g.id < w.entities.length)
    (hfew : w.tables.length + w.relationArchetypes.length + 1 ≤ maxU32)
    (hrows : 2 * w.entities.length < 2 ^ 32) :
    panicOf (opRemoveEntity run g w) = none ∧ QGood (opRemoveEntity run g w).state := by
  obtain ⟨hnp, good'⟩ := q.good.removeEntity run ha hidx hlt hfew hrows
  refine ⟨hnp, ?_⟩
  obtain ⟨fl, h, hl, hno⟩ := q.good
  have hent : w.entities[g.id]? = some ((w.index g.id).1, (w.index g.id).2) := by
    simp only [World.index, List.getD_eq_getElem?_getD, List.getElem?_eq_getElem hlt,
      Option.getD_some]
  obtain ⟨h2, hnf⟩ := h.link.indexed_live hent hidx
  obtain ⟨w3, hst, q3, hlk⟩ := opRemoveEntity_qkeep run h hl hno h2 hnf ha
    (by rw [← h.link.lenEq]; exact hlt) hfew hrows
  rw [hst] at good' ⊢
  exact ⟨good', q3.cidx q.cidx, q3.rows q.rows, by
    show ∃ (lf : List Nat), Lock.LInv ⟨w3.locks, []⟩ lf
    rw [hlk]; exact q.lock⟩

end QueryRel
end Ark
