/-
  Ark.Proofs.CallbacksRel — C08/C09 at world level for RELATION events, part 1:
  `World.setRelations` (`setRelationsCore` / `opSetRelations`) with observers and a read-only
  callback runner.

  * `TInv.reframe`, `TInvObs` — the joint invariant `TInv` of the relation fragment
    (Ark/Proofs/TargetsInv.lean) reads neither observers, log nor lock; `TInvObs w fl` is `TInv`
    of the world without its observers together with the observer setting `ObsOK`.
  * `frames_getOrCreate`, `getExchangeTargets_any` — the structural steps of `setRelations` before
    the events neither read nor write observers, log and lock.
  * `changedComps`, `getExchangeTargets_mask` — the change mask handed to `FireSetRelations` is the
    set of the relation components named whose target DIFFERS from the one stored.
  * `setRelationsCore_obs_eq` — the equation: an accepted call that changes some target is the
    observer-free state change (`registerW (addMove …)`) with the log extended, in this order, by
    the notifications of the `OnRemoveRelations` observers the documented rule selects (run on the
    LOCKED world before the move) and of the `OnAddRelations` observers (run on the world after
    it), and the lock's bit pool after one `Lock()`/`Unlock()` cycle.
  * `setRelationsCore_transfer_panic` / `_transfer_ok`, `opSetRelations_transfer_panic` / `_ok` —
    whatever the observer-free call does (any panic, success) the call with observers does, on
    the reframed world (no invariant of the world needed).

  Kernel-only proofs, core Lean only.
-/
import Ark.Proofs.CallbacksOps
import Ark.Proofs.TargetsSetRel

set_option autoImplicit false

namespace Ark

open World Spec Ark.Props.C01World QueryExact

/-! ## 0. the joint invariant of the relation fragment does not read the frame -/

/-- `TInv` reads neither observers, log nor lock -/
theorem TInv.reframe {w : World} {fl : List Nat} (h : TInv w fl) (o : ObsMgr) (lg : List LogEv)
    (lk : Lock) : TInv (w.reframe o lg lk) fl where
  rel :=
    { sinv := h.rel.sinv.congr rfl rfl rfl
      rinv := h.rel.rinv
      aux := ⟨h.rel.aux.targets, h.rel.aux.rels, h.rel.aux.relArchs, h.rel.aux.cacheRels⟩ }
  flags := h.flags
  freeEmpty := h.freeEmpty
  link :=
    { idx := h.link.idx.congr rfl rfl
      pool := h.link.pool
      stale := h.link.stale
      lenEq := h.link.lenEq
      tgtLen := h.link.tgtLen
      freeUnindexed := h.link.freeUnindexed
      reservedUnindexed := h.link.reservedUnindexed
      liveIndexed := h.link.liveIndexed
      fewTables := h.link.fewTables }
  kindsLe := h.kindsLe

theorem TInv.of_reframe {w : World} {fl : List Nat} {o : ObsMgr} {lg : List LogEv} {lk : Lock}
    (h : TInv (w.reframe o lg lk) fl) : TInv w fl := by
  have := h.reframe w.obs w.log w.locks
  rwa [reframe_reframe, reframe_self] at this

/-- **the joint invariant of the relation fragment WITH observers**: `TInv` (which says nothing
    about observers) of the world without its observers, and the observer setting `ObsOK` -/
structure TInvObs (w : World) (fl : List Nat) : Prop where
  tinv : TInv w.noObs fl
  obs : ObsOK w.obs

theorem tinvObs_iff (w : World) (fl : List Nat) : TInvObs w fl ↔ TInv w fl ∧ ObsOK w.obs :=
  ⟨fun h => ⟨by have := h.tinv; rw [noObs_eq_reframe] at this; exact this.of_reframe, h.obs⟩,
   fun h => ⟨by rw [noObs_eq_reframe]; exact h.1.reframe _ _ _, h.2⟩⟩

theorem TInvObs.toTInv {w : World} {fl : List Nat} (h : TInvObs w fl) : TInv w fl :=
  ((tinvObs_iff w fl).1 h).1

theorem tinvObs_init (cap rel : Nat) : TInvObs (World.init cap rel) [] :=
  ⟨tinv_init cap rel, obsOK_init⟩

/-- `TInvObs` is kept when the observer-free part is replaced by one that has the invariant -/
theorem TInvObs.frame {w w0 : World} {fl fl' : List Nat} (h : TInvObs w fl) (h0 : TInv w0 fl')
    (lg : List LogEv) (lk : Lock) : TInvObs (w0.reframe w.obs lg lk) fl' :=
  ⟨h0.reframe _ _ _, h.obs⟩

/-! ## 1. the structural steps before the events -/

namespace World

theorem noObs_hasObservers (w : World) (evt : Nat) : w.noObs.obs.hasObservers evt = false := rfl


/-! ## 2. the change mask -/

/-- whether the relation `r` names a relation column of `T` whose stored target differs -/
def relDiffers (T : Table) (r : RelID) : Bool :=
  match T.colIdx r.comp with
  | some i => !(r.target == T.targets.getD i Ent.zero)
  | none => false

/-- the relation components named by `rels` whose target differs from the one stored in `T` -/
def changedComps (T : Table) (rels : List RelID) : List Comp :=
  (rels.filter (relDiffers T)).map (·.comp)

theorem getExchangeTargets_go_mask (T : Table) (w : World) : ∀ (rels : List RelID) (ts : List Ent)
    (ch : Bool) (cm : Mask) (seen : List Comp) {ts' : List Ent} {ch' : Bool} {cm' : Mask} {s : World},
    (∀ (c c' : Comp) (i : Nat), T.colIdx c = some i → T.colIdx c' = some i → c = c') →
    (rels.map (·.comp)).Nodup →
    (∀ (r : RelID), r ∈ rels → ∀ (i : Nat), T.colIdx r.comp = some i →
      ts.getD i Ent.zero = T.targets.getD i Ent.zero) →
    getExchangeTargets.go T w ts ch cm seen rels = .ok (ts', ch', cm') s →
    cm' = (changedComps T rels).foldl Mask.set cm ∧
    ch' = (ch || !(changedComps T rels).isEmpty)
  | [], ts, ch, cm, seen, ts', ch', cm', s, _, _, _, hok => by
    simp only [getExchangeTargets.go] at hok
    injection hok with h1 _
    obtain ⟨_, h2, h3⟩ := Prod.mk.inj h1 |>.imp id Prod.mk.inj
    subst h2; subst h3
    simp [changedComps]
  | r :: rest, ts, ch, cm, seen, ts', ch', cm', s, hinj, hnd, hts, hok => by
    rw [List.map_cons, List.nodup_cons] at hnd
    simp only [getExchangeTargets.go] at hok
    split at hok
    · cases hok
    · split at hok
      · cases hok
      · rename_i i hc
        split at hok
        · cases hok
        · have hti := hts r List.mem_cons_self i hc
          split at hok
          · -- the same target: nothing recorded
            rename_i heq
            have hrest : ∀ (r' : RelID), r' ∈ rest → ∀ (j : Nat), T.colIdx r'.comp = some j →
                ts.getD j Ent.zero = T.targets.getD j Ent.zero :=
              fun r' hr' j hj => hts r' (List.mem_cons_of_mem _ hr') j hj
            obtain ⟨e1, e2⟩ := getExchangeTargets_go_mask T w rest ts ch cm _ hinj hnd.2 hrest hok
            have hd : relDiffers T r = false := by
              simp only [relDiffers, hc, ← hti, heq, Bool.not_true]
            simp only [changedComps, List.filter_cons, hd, Bool.false_eq_true, if_false]
            exact ⟨e1, e2⟩
          · rename_i hneq
            have hrest : ∀ (r' : RelID), r' ∈ rest → ∀ (j : Nat), T.colIdx r'.comp = some j →
                (ts.set i r.target).getD j Ent.zero = T.targets.getD j Ent.zero := by
              intro r' hr' j hj
              have hji : i ≠ j := by
                intro hij
                subst hij
                have := hinj _ _ _ hc hj
                exact hnd.1 (List.mem_map.2 ⟨r', hr', this.symm⟩)
              rw [List.getD_eq_getElem?_getD, List.getElem?_set_ne hji, ← List.getD_eq_getElem?_getD]
              exact hts r' (List.mem_cons_of_mem _ hr') j hj
            obtain ⟨e1, e2⟩ := getExchangeTargets_go_mask T w rest _ true (cm.set r.comp) _ hinj
              hnd.2 hrest hok
            have hd : relDiffers T r = true := by
              simp only [relDiffers, hc, ← hti]
              cases hb : (r.target == ts.getD i Ent.zero) with
              | true => exact absurd hb hneq
              | false => rfl
            simp only [changedComps, List.filter_cons, hd, if_true, List.map_cons, List.foldl_cons,
              List.isEmpty_cons, Bool.not_false, Bool.or_true]
            exact ⟨e1, by rw [e2]; rfl⟩

/-- **the change mask** of an accepted scan: the set of the relation components named whose
    target differs from the one stored; `changed` says whether there is any -/
theorem getExchangeTargets_mask (T : Table) (rels : List RelID) (w : World)
    (hinj : ∀ (c c' : Comp) (i : Nat), T.colIdx c = some i → T.colIdx c' = some i → c = c')
    (hnd : (rels.map (·.comp)).Nodup) {newRels : List RelID} {ch : Bool} {cm : Mask} {s : World}
    (hok : getExchangeTargets T rels w = .ok (newRels, ch, cm) s) :
    cm = Mask.ofList (changedComps T rels) ∧ ch = !(changedComps T rels).isEmpty := by
  unfold getExchangeTargets at hok
  cases hg : getExchangeTargets.go T w T.targets false Mask.empty [] rels with
  | panic k s' => rw [hg] at hok; cases hok
  | ok r s' =>
    obtain ⟨ts, ch0, cm0⟩ := r
    rw [hg] at hok
    obtain ⟨e1, e2⟩ := getExchangeTargets_go_mask T w rels T.targets false Mask.empty [] hinj hnd
      (fun _ _ _ _ => rfl) hg
    simp only [Bool.false_or] at e2
    cases hch : ch0 with
    | false =>
      simp only [hch, Bool.not_false, if_true] at hok
      injection hok with h1 _
      obtain ⟨_, h2, h3⟩ := Prod.mk.inj h1 |>.imp id Prod.mk.inj
      subst h2; subst h3
      exact ⟨e1, by rw [← e2, hch]⟩
    | true =>
      simp only [hch, Bool.not_true, Bool.false_eq_true, if_false] at hok
      injection hok with h1 _
      obtain ⟨_, h2, h3⟩ := Prod.mk.inj h1 |>.imp id Prod.mk.inj
      subst h2; subst h3
      exact ⟨e1, by rw [← e2, hch]⟩

/-! ## 3. `World.setRelations` with observers: the equation -/

/-- the part of `World.setRelations` after the destination table is known (verbatim) -/
def setRelTail (run : ProbeRunner) (e : Ent) (rels : List RelID) (oldT row newT a : Nat)
    (cm : Mask) : W Unit := do
  let w ← M.get
  if w.obs.hasObservers Ev.onRemoveRelations then
    let l ← lock
    let _ ← fireSet run Ev.onRemoveRelations e cm (w.arch a).mask true
    unlock l
  let newIndex ← (fun w => let (N, i) := (w.tbl newT).add e; Res.ok i (w.setTbl newT N) : W Nat)
  moveRow e oldT row newT newIndex (w.arch a).mask
  registerTargets rels
  let w ← M.get
  if w.obs.hasObservers Ev.onAddRelations then
    let _ ← fireSet run Ev.onAddRelations e cm (w.arch a).mask true

theorem setRelationsCore_split (run : ProbeRunner) (e : Ent) (rels : List RelID) (w : World)
    (hl : w.isLocked = false) (ha : w.alive e = true) (hne : rels.isEmpty = false)
    {oldT row : Nat} (hix : w.index e.id = (oldT, row)) {newRels : List RelID} {cm : Mask}
    (hx : getExchangeTargets (w.tbl oldT) rels w = .ok (newRels, true, cm) w) {nt : Nat} {w1 : World}
    (hgo : getOrCreate (w.tbl oldT).arch newRels w = .ok nt w1) :
    setRelationsCore run e rels w = setRelTail run e rels oldT row nt (w.tbl oldT).arch cm w1 := by
  simp only [setRelationsCore, bind, M.bind, checkLocked_unlocked w hl, M.get, M.assert, ha, hne,
    if_true, Bool.not_false, hix, hx, Bool.not_true, Bool.false_eq_true, if_false]
  simp only [getOrCreate, bind, M.bind] at hgo
  cases hg : getTable (w.tbl oldT).arch newRels w with
  | panic k s => rw [hg] at hgo; cases hgo
  | ok r s =>
    rw [hg] at hgo
    cases r with
    | some t =>
      simp only [pure, M.pure] at hgo
      injection hgo with e1 e2
      subst e1; subst e2
      simp only [pure, M.pure, M.bind, setRelTail, bind, M.get]
    | none =>
      simp only at hgo
      simp only [M.bind, hgo, setRelTail, bind, M.get]

end World

section Ops

variable {run : ProbeRunner} {S : Probe → Prop} {rec : World → Nat → Ent → Probe → List LogEv}

/-- what the `OnRemoveRelations` round of `SetRelations` appends to the log: the observers the
    documented rule selects for (changed components `cm`, entity mask `mask`), run on `seen` -/
def relRemLog (rec : World → Nat → Ent → Probe → List LogEv) (m : ObsMgr) (e : Ent) (cm mask : Mask)
    (seen : World) : List LogEv :=
  notifyAll rec e (firing m Ev.onRemoveRelations (.set cm mask)) seen

/-- … and the `OnAddRelations` round -/
def relAddLog (rec : World → Nat → Ent → Probe → List LogEv) (m : ObsMgr) (e : Ent) (cm mask : Mask)
    (seen : World) : List LogEv :=
  notifyAll rec e (firing m Ev.onAddRelations (.set cm mask)) seen

/-- **the tail of `World.setRelations` with observers**: on a world `w1` (after the table
    lookup) whose lock hands out a bit: the `OnRemoveRelations` observers the documented rule
    selects are notified on the LOCKED world `w1.withLocks l1` (the entity still in its old row),
    the lock is released, the row is moved and the targets are flagged (`w2`), then the
    `OnAddRelations` observers are notified on that world. -/
theorem setRelTail_obs_eq (hro : ReadOnly run S rec) (e : Ent) (rels : List RelID)
    (oldT row nt a : Nat) (cm : Mask) (w1 : World) (hs : ScriptsIn w1.obs S) (hok : ObsOK w1.obs)
    {l1 l2 : Lock} {b : Nat} (hL : LockCycle w1.locks l1 b l2) :
    setRelTail run e rels oldT row nt a cm w1 = .ok ()
      (((registerW (addMove w1 e oldT row nt (w1.arch a).mask) rels).reframe w1.obs
          (relRemLog rec w1.obs e cm (w1.arch a).mask (w1.withLocks l1) ++ w1.log)
          (lockAfter w1 Ev.onRemoveRelations l2)).addLog
        (relAddLog rec w1.obs e cm (w1.arch a).mask
          ((registerW (addMove w1 e oldT row nt (w1.arch a).mask) rels).reframe w1.obs
            (relRemLog rec w1.obs e cm (w1.arch a).mask (w1.withLocks l1) ++ w1.log)
            (lockAfter w1 Ev.onRemoveRelations l2)))) := by
  have hmask : ((registerW (addMove w1 e oldT row nt (w1.arch a).mask) rels).arch a).mask
      = (w1.arch a).mask := by
    show ((addMove w1 e oldT row nt (w1.arch a).mask).archetypes.getD a default).mask = _
    rw [(addMove_fields w1 e oldT row nt (w1.arch a).mask).2.2.1]
    rfl
  have hobsZ : (registerW (addMove w1 e oldT row nt (w1.arch a).mask) rels).obs = w1.obs :=
    (addMove_fields w1 e oldT row nt (w1.arch a).mask).2.2.2.obs
  -- the part after the removal block, on `w1` with another log and lock
  have hblock : ∀ (lg : List LogEv) (lk : Lock),
      (M.bind (fun w => Res.ok ((w.tbl nt).add e).snd (w.setTbl nt ((w.tbl nt).add e).fst))
        fun newIndex =>
        M.bind (moveRow e oldT row nt newIndex (w1.arch a).mask) fun _ =>
          M.bind (registerTargets rels) fun _ =>
            M.get.bind fun (w_2 : World) =>
              if w_2.obs.hasObservers Ev.onAddRelations = true then
                M.bind (fireSet run Ev.onAddRelations e cm (w_2.arch a).mask true)
                  fun _ => (pure () : W Unit)
              else pure ()) (w1.reframe w1.obs lg lk) =
      .ok () (((registerW (addMove w1 e oldT row nt (w1.arch a).mask) rels).reframe w1.obs lg lk).addLog
        (relAddLog rec w1.obs e cm (w1.arch a).mask
          ((registerW (addMove w1 e oldT row nt (w1.arch a).mask) rels).reframe w1.obs lg lk))) := by
    intro lg lk
    have hreg : registerW (moveRowW ((w1.reframe w1.obs lg lk).setTbl nt
          (((w1.reframe w1.obs lg lk).tbl nt).add e).fst) e oldT row nt
        (((w1.reframe w1.obs lg lk).tbl nt).add e).snd (w1.arch a).mask) rels =
        (registerW (addMove w1 e oldT row nt (w1.arch a).mask) rels).reframe w1.obs lg lk := by
      show registerW (addMove (w1.reframe w1.obs lg lk) e oldT row nt (w1.arch a).mask) rels = _
      rw [addMove_reframe]
      rfl
    simp only [M.bind, M.get, moveRow_eq, registerTargets_eq, hreg]
    have hm2 : (((registerW (addMove w1 e oldT row nt (w1.arch a).mask) rels).reframe w1.obs lg lk).arch
        a).mask = (w1.arch a).mask := hmask
    rw [hm2]
    cases hh : w1.obs.hasObservers Ev.onAddRelations with
    | false =>
      have hh' : ((registerW (addMove w1 e oldT row nt (w1.arch a).mask) rels).reframe w1.obs lg
          lk).obs.hasObservers Ev.onAddRelations = false := hh
      simp only [hh', Bool.false_eq_true, if_false, relAddLog,
        firing_nil_of_no_observers (hok.agg _) hh, notifyAll, addLog_nil]
      rfl
    | true =>
      have hh' : ((registerW (addMove w1 e oldT row nt (w1.arch a).mask) rels).reframe w1.obs lg
          lk).obs.hasObservers Ev.onAddRelations = true := hh
      have hfire := fireSet_readOnly hro
        ((registerW (addMove w1 e oldT row nt (w1.arch a).mask) rels).reframe w1.obs lg lk) hs hok
        Ev.onAddRelations (by decide) e cm (w1.arch a).mask true
      simp only [hh', if_true, M.bind, hfire, relAddLog]
      rfl
  unfold lockAfter relRemLog
  cases hh : w1.obs.hasObservers Ev.onRemoveRelations with
  | false =>
    rw [firing_nil_of_no_observers (hok.agg _) hh]
    simp only [setRelTail, bind, M.bind, M.get, hh, Bool.false_eq_true, if_false, notifyAll,
      List.nil_append]
    exact hblock w1.log w1.locks
  | true =>
    have hfire := fireSet_readOnly hro (w1.withLocks l1) hs hok Ev.onRemoveRelations (by decide) e cm
      (w1.arch a).mask true
    have hun : ∀ lg, World.unlock b ((w1.withLocks l1).addLog lg)
        = .ok () (((w1.withLocks l1).addLog lg).withLocks l2) :=
      fun lg => unlock_of_cycle hL rfl
    simp only [setRelTail, bind, M.bind, M.get, hh, if_true, lock_of_cycle hL, hfire, hun]
    exact hblock _ l2

/-- **`World.setRelations` with observers** (equation, an accepted call that changes some
    target): after the table lookup (`w1`; it may have created or recycled the destination table)
    the `OnRemoveRelations` observers the documented rule selects for (changed components `cm`,
    entity mask) are notified on the LOCKED world `w1.withLocks l1` — the entity still in its old
    row, with its old targets —, the lock is released, the row is moved and the targets are flagged,
    then the `OnAddRelations` observers are notified on that world (unlocked). -/
theorem setRelationsCore_obs_eq (hro : ReadOnly run S rec) (e : Ent) (rels : List RelID) (w : World)
    (hs : ScriptsIn w.obs S) (hok : ObsOK w.obs)
    (hl : w.isLocked = false) (ha : w.alive e = true) (hne : rels.isEmpty = false)
    {oldT row : Nat} (hix : w.index e.id = (oldT, row)) {newRels : List RelID} {cm : Mask}
    (hx : getExchangeTargets (w.tbl oldT) rels w = .ok (newRels, true, cm) w) {nt : Nat} {w1 : World}
    (hgo : getOrCreate (w.tbl oldT).arch newRels w = .ok nt w1)
    {l1 l2 : Lock} {b : Nat} (hL : LockCycle w.locks l1 b l2) :
    setRelationsCore run e rels w = .ok ()
      (((registerW (addMove w1 e oldT row nt (w1.arch (w.tbl oldT).arch).mask) rels).reframe w.obs
          (relRemLog rec w.obs e cm (w1.arch (w.tbl oldT).arch).mask (w1.withLocks l1) ++ w.log)
          (lockAfter w Ev.onRemoveRelations l2)).addLog
        (relAddLog rec w.obs e cm (w1.arch (w.tbl oldT).arch).mask
          ((registerW (addMove w1 e oldT row nt (w1.arch (w.tbl oldT).arch).mask) rels).reframe w.obs
            (relRemLog rec w.obs e cm (w1.arch (w.tbl oldT).arch).mask (w1.withLocks l1) ++ w.log)
            (lockAfter w Ev.onRemoveRelations l2)))) := by
  obtain ⟨hobs, hlog, hlocks⟩ : w1.obs = w.obs ∧ w1.log = w.log ∧ w1.locks = w.locks := by
    have := (frames_getOrCreate (w.tbl oldT).arch newRels).state_frame w
    rw [hgo] at this; exact this
  have hL1 : LockCycle w1.locks l1 b l2 := by rw [hlocks]; exact hL
  have hs1 : ScriptsIn w1.obs S := by rw [hobs]; exact hs
  have hok1 : ObsOK w1.obs := by rw [hobs]; exact hok
  rw [setRelationsCore_split run e rels w hl ha hne hix hx hgo,
    setRelTail_obs_eq hro e rels oldT row nt _ cm w1 hs1 hok1 hL1]
  unfold lockAfter
  rw [hobs, hlog, hlocks]

/-- the result of `World.setRelations` with observers, given the observer-free result `w0`, the
    world `w1` after the table lookup, the change mask and the entity's mask -/
def setRelResult (rec : World → Nat → Ent → Probe → List LogEv) (w w1 w0 : World) (e : Ent)
    (cm mask : Mask) (l1 l2 : Lock) : World :=
  (w0.reframe w.obs
      (relRemLog rec w.obs e cm mask (w1.reframe w.obs w.log l1) ++ w.log)
      (lockAfter w Ev.onRemoveRelations l2)).addLog
    (relAddLog rec w.obs e cm mask
      (w0.reframe w.obs
        (relRemLog rec w.obs e cm mask (w1.reframe w.obs w.log l1) ++ w.log)
        (lockAfter w Ev.onRemoveRelations l2)))

/-! ## 4. transfer from the observer-free call -/

theorem setRelationsCore_dead (run : ProbeRunner) (e : Ent) (rels : List RelID) (w : World)
    (hl : w.isLocked = false) (ha : w.alive e = false) :
    setRelationsCore run e rels w = .panic .deadEntity w := by
  simp only [setRelationsCore, bind, M.bind, checkLocked_unlocked w hl, M.get, M.assert, ha,
    Bool.false_eq_true, if_false]

theorem setRelationsCore_empty (run : ProbeRunner) (e : Ent) (rels : List RelID) (w : World)
    (hl : w.isLocked = false) (ha : w.alive e = true) (hne : rels.isEmpty = true) :
    setRelationsCore run e rels w = .panic .noRelations w := by
  simp only [setRelationsCore, bind, M.bind, checkLocked_unlocked w hl, M.get, M.assert, ha, hne,
    if_true, Bool.not_true, Bool.false_eq_true, if_false]

/-- the scan on the world with observers, from the scan on the world without -/
theorem getExchangeTargets_of_noObs (T : Table) (rels : List RelID) (w : World) :
    getExchangeTargets T rels w
      = (getExchangeTargets T rels w.noObs).mapS fun s => s.reframe w.obs w.log w.locks := by
  rw [getExchangeTargets_any T rels w.noObs w]
  have := getExchangeTargets_state T rels w.noObs
  cases hr : getExchangeTargets T rels w.noObs with
  | ok a s => rw [hr] at this; simp only [Res.state] at this; subst this; rfl
  | panic k s => rw [hr] at this; simp only [Res.state] at this; subst this; rfl

theorem getOrCreate_of_noObs (a : Nat) (rels : List RelID) (w : World) :
    getOrCreate a rels w
      = (getOrCreate a rels w.noObs).mapS fun s => s.reframe w.obs w.log w.locks :=
  frames_getOrCreate a rels w.noObs w.obs w.log w.locks

/-- **every rejection of the observer-free `World.setRelations` is a rejection with observers**,
    with the same panic, on the same world (observers, log and lock put back): all checks precede
    the events -/
theorem setRelationsCore_transfer_panic (run run0 : ProbeRunner) (e : Ent) (rels : List RelID)
    (w : World) {k : PanicKind} {s : World}
    (h0 : setRelationsCore run0 e rels w.noObs = .panic k s) :
    setRelationsCore run e rels w = .panic k (s.reframe w.obs w.log w.locks) := by
  cases hl : w.isLocked with
  | true =>
    rw [setRelationsCore_locked run0 w.noObs hl] at h0
    injection h0 with e1 e2; subst e1; subst e2
    exact setRelationsCore_locked run w hl e rels
  | false =>
  cases ha : w.alive e with
  | false =>
    rw [setRelationsCore_dead run0 e rels w.noObs hl ha] at h0
    injection h0 with e1 e2; subst e1; subst e2
    exact setRelationsCore_dead run e rels w hl ha
  | true =>
  cases hne : rels.isEmpty with
  | true =>
    rw [setRelationsCore_empty run0 e rels w.noObs hl ha hne] at h0
    injection h0 with e1 e2; subst e1; subst e2
    exact setRelationsCore_empty run e rels w hl ha hne
  | false =>
  cases hix : w.index e.id with
  | mk oldT row =>
  have hxw := getExchangeTargets_of_noObs (w.tbl oldT) rels w
  have hst := getExchangeTargets_state (w.tbl oldT) rels w.noObs
  cases hx : getExchangeTargets (w.tbl oldT) rels w.noObs with
  | panic k' s' =>
    rw [hx] at hst hxw
    simp only [Res.state] at hst
    subst hst
    rw [setRelationsCore_panic_x run0 e rels w.noObs hl ha hne hix hx] at h0
    injection h0 with e1 e2; subst e1; subst e2
    exact setRelationsCore_panic_x run e rels w hl ha hne hix hxw
  | ok r s' =>
    rw [hx] at hst hxw
    simp only [Res.state] at hst
    subst hst
    obtain ⟨newRels, ch, cm⟩ := r
    cases ch with
    | false =>
      rw [setRelationsCore_unchanged run0 e rels w.noObs hl ha hne hix hx] at h0
      cases h0
    | true =>
      have hgw := getOrCreate_of_noObs (w.tbl oldT).arch newRels w
      cases hg : getOrCreate (w.tbl oldT).arch newRels w.noObs with
      | panic k' s' =>
        rw [hg] at hgw
        rw [setRelationsCore_panic_get run0 e rels w.noObs hl ha hne hix hx hg] at h0
        injection h0 with e1 e2; subst e1; subst e2
        exact setRelationsCore_panic_get run e rels w hl ha hne hix hxw hgw
      | ok nt w1 =>
        have hno1 : ∀ (evt : Nat), w1.obs.hasObservers evt = false := by
          have := ((frames_getOrCreate (w.tbl oldT).arch newRels).state_frame w.noObs).1
          rw [hg] at this
          simp only [Res.state] at this
          intro evt; rw [this]; rfl
        rw [setRelationsCore_changed run0 e rels w.noObs hl ha hne hix hx hg hno1] at h0
        cases h0

/-- **every accepted observer-free `World.setRelations` is accepted with observers** (given a
    lock that hands out a bit).  Either no target differs — then nothing at all happens, no
    observer is notified —, or some does: then, with `w1` the world (without observers) after the
    table lookup, the result is the observer-free result `w0` with the observers of `w` put back
    and the log extended as `setRelResult` says: the `OnRemoveRelations` observers the documented
    rule selects for (the set of relation components whose target differs, the entity's mask), on
    `w1` LOCKED; then the `OnAddRelations` observers likewise, on the result. -/
theorem setRelationsCore_transfer_ok (hro : ReadOnly run S rec) (run0 : ProbeRunner) (e : Ent)
    (rels : List RelID) (w : World) (hs : ScriptsIn w.obs S) (hok : ObsOK w.obs)
    {l1 l2 : Lock} {b : Nat} (hL : LockCycle w.locks l1 b l2) {w0 : World}
    (h0 : setRelationsCore run0 e rels w.noObs = .ok () w0) :
    (changedComps (w.tbl (w.index e.id).1) rels = [] ∧ w0 = w.noObs ∧
      setRelationsCore run e rels w = .ok () w) ∨
    (changedComps (w.tbl (w.index e.id).1) rels ≠ [] ∧
      ∃ (newRels : List RelID) (nt : Nat) (w1 : World),
        getOrCreate (w.tbl (w.index e.id).1).arch newRels w.noObs = .ok nt w1 ∧
        w0 = registerW (addMove w1 e (w.index e.id).1 (w.index e.id).2 nt
          (w1.arch (w.tbl (w.index e.id).1).arch).mask) rels ∧
        setRelationsCore run e rels w = .ok ()
          (setRelResult rec w w1 w0 e (Mask.ofList (changedComps (w.tbl (w.index e.id).1) rels))
            (w1.arch (w.tbl (w.index e.id).1).arch).mask l1 l2)) := by
  cases hl : w.isLocked with
  | true => rw [setRelationsCore_locked run0 w.noObs hl] at h0; cases h0
  | false =>
  cases ha : w.alive e with
  | false => rw [setRelationsCore_dead run0 e rels w.noObs hl ha] at h0; cases h0
  | true =>
  cases hne : rels.isEmpty with
  | true => rw [setRelationsCore_empty run0 e rels w.noObs hl ha hne] at h0; cases h0
  | false =>
  cases hix : w.index e.id with
  | mk oldT row =>
  simp only []
  have hxw := getExchangeTargets_of_noObs (w.tbl oldT) rels w
  have hst := getExchangeTargets_state (w.tbl oldT) rels w.noObs
  cases hx : getExchangeTargets (w.tbl oldT) rels w.noObs with
  | panic k' s' =>
    rw [setRelationsCore_panic_x run0 e rels w.noObs hl ha hne hix hx] at h0; cases h0
  | ok r s' =>
    rw [hx] at hst hxw
    simp only [Res.state] at hst
    subst hst
    obtain ⟨newRels, ch, cm⟩ := r
    have hnd : (rels.map (·.comp)).Nodup := by
      apply Classical.byContradiction
      intro hnn
      obtain ⟨k, hk⟩ := getExchangeTargets_not_nodup (w.tbl oldT) rels w.noObs hnn
      rw [hk] at hx; cases hx
    have hinj : ∀ (c c' : Comp) (i : Nat), (w.tbl oldT).colIdx c = some i →
        (w.tbl oldT).colIdx c' = some i → c = c' := by
      intro c c' i h1 h2
      have g1 := Table.colIdx_get h1
      have g2 := Table.colIdx_get h2
      rw [g1] at g2
      exact Option.some.inj g2
    obtain ⟨hcm, hch⟩ := getExchangeTargets_mask (w.tbl oldT) rels w.noObs hinj hnd hx
    cases ch with
    | false =>
      left
      rw [setRelationsCore_unchanged run0 e rels w.noObs hl ha hne hix hx] at h0
      injection h0 with _ e2
      refine ⟨?_, e2.symm, setRelationsCore_unchanged run e rels w hl ha hne hix hxw⟩
      cases hcc : changedComps (w.tbl oldT) rels with
      | nil => rfl
      | cons x xs => rw [hcc] at hch; cases hch
    | true =>
      right
      have hgw := getOrCreate_of_noObs (w.tbl oldT).arch newRels w
      cases hg : getOrCreate (w.tbl oldT).arch newRels w.noObs with
      | panic k' s' =>
        rw [setRelationsCore_panic_get run0 e rels w.noObs hl ha hne hix hx hg] at h0; cases h0
      | ok nt w1 =>
        have hno1 : ∀ (evt : Nat), w1.obs.hasObservers evt = false := by
          have := ((frames_getOrCreate (w.tbl oldT).arch newRels).state_frame w.noObs).1
          rw [hg] at this
          simp only [Res.state] at this
          intro evt; rw [this]; rfl
        rw [setRelationsCore_changed run0 e rels w.noObs hl ha hne hix hx hg hno1] at h0
        injection h0 with _ e2
        rw [hg, Res.mapS_ok] at hgw
        refine ⟨?_, newRels, nt, w1, hg, e2.symm, ?_⟩
        · intro hcc; rw [hcc] at hch; cases hch
        · rw [setRelationsCore_obs_eq hro e rels w hs hok hl ha hne hix hxw hgw hL, ← hcm, ← e2]
          unfold setRelResult
          rw [addMove_reframe]
          rfl

/-! ### `SetRelations` through any path -/

theorem forM'_any {α : Type} (f : α → W Unit) (w w' : World)
    (hf : ∀ (x : α), f x w' = (f x w).mapS fun _ => w')
    (hc : ∀ (x : α), f x w = .ok () w ∨ ∃ (k : PanicKind), f x w = .panic k w) :
    ∀ (xs : List α), M.forM' xs f w' = (M.forM' xs f w).mapS fun _ => w'
  | [] => rfl
  | x :: rest => by
    simp only [M.forM', M.bind_apply]
    rw [hf x]
    rcases hc x with h | ⟨k, h⟩
    · rw [h]; exact forM'_any f w w' hf hc rest
    · rw [h]; rfl

/-- the pre-validation (of every path) reads the registry and the pool only -/
theorem preCheck_any (p : Path) (ids : List Comp) (rels : List RelID) (w w' : World)
    (hk : w'.kinds = w.kinds) (hp : w'.pool = w.pool) :
    preCheck p ids rels w' = (preCheck p ids rels w).mapS fun _ => w' := by
  have h1 : ∀ (c : Comp), w'.isRelComp c = w.isRelComp c := fun c => by simp only [isRelComp, hk]
  have h2 : ∀ (t : Ent), w'.alive t = w.alive t := fun t => by simp only [World.alive, hp]
  cases p with
  | unsafe_ =>
    refine forM'_any _ w w' (fun r => ?_) (fun r => ?_) rels
    · simp only [bind, M.bind, checkRelationTarget, checkRelationComponent, M.assert, h2]
      by_cases c1 : (!r.target.isZero && !w.alive r.target) = true
      · simp only [c1, if_true]; rfl
      · simp only [c1, Bool.false_eq_true, if_false, h1]
        by_cases c2 : w.isRelComp r.comp = true
        · simp only [c2, if_true]
          by_cases c3 : (Mask.ofList ids).get r.comp = true
          · simp only [c3, if_true]; rfl
          · simp only [c3, Bool.false_eq_true, if_false]; rfl
        · simp only [c2, Bool.false_eq_true, if_false]; rfl
    · simp only [bind, M.bind]
      rcases checkRelationTarget_cases r.target w with h | h
      · rcases checkRelationComponent_cases r.comp w with h2 | h2
        · simp only [h, h2, M.assert]
          split
          · exact Or.inl rfl
          · exact Or.inr ⟨_, rfl⟩
        · simp only [h, h2]; exact Or.inr ⟨_, rfl⟩
      · simp only [h]; exact Or.inr ⟨_, rfl⟩
  | map1 =>
    refine forM'_any _ w w' (fun r => ?_) (fun r => ?_) rels
    · simp only [bind, M.bind, checkRelationTarget, checkRelationComponent, h2]
      by_cases c1 : (!r.target.isZero && !w.alive r.target) = true
      · simp only [c1, if_true]; rfl
      · simp only [c1, Bool.false_eq_true, if_false, h1]
        by_cases c2 : w.isRelComp r.comp = true
        · simp only [c2, if_true]; rfl
        · simp only [c2, Bool.false_eq_true, if_false]; rfl
    · simp only [bind, M.bind]
      rcases checkRelationTarget_cases r.target w with h | h
      · rw [h]
        rcases checkRelationComponent_cases r.comp w with h2 | h2
        · exact Or.inl h2
        · exact Or.inr ⟨_, h2⟩
      · rw [h]; exact Or.inr ⟨_, rfl⟩
  | typed =>
    refine forM'_any _ w w' (fun r => ?_) (fun r => ?_) rels
    · simp only [bind, M.bind, checkRelationTarget, checkRelationComponent, M.assert, h2]
      by_cases c1 : (!r.target.isZero && !w.alive r.target) = true
      · simp only [c1, if_true]; rfl
      · simp only [c1, Bool.false_eq_true, if_false, h1]
        by_cases c2 : w.isRelComp r.comp = true
        · simp only [c2, if_true]
          by_cases c3 : (Mask.ofList ids).get r.comp = true
          · simp only [c3, if_true]; rfl
          · simp only [c3, Bool.false_eq_true, if_false]; rfl
        · simp only [c2, Bool.false_eq_true, if_false]; rfl
    · simp only [bind, M.bind]
      rcases checkRelationTarget_cases r.target w with h | h
      · rcases checkRelationComponent_cases r.comp w with h2 | h2
        · simp only [h, h2, M.assert]
          split
          · exact Or.inl rfl
          · exact Or.inr ⟨_, rfl⟩
        · simp only [h, h2]; exact Or.inr ⟨_, rfl⟩
      · simp only [h]; exact Or.inr ⟨_, rfl⟩

theorem preCheck_of_noObs (p : Path) (ids : List Comp) (rels : List RelID) (w : World) :
    (preCheck p ids rels w.noObs = .ok () w.noObs ∧ preCheck p ids rels w = .ok () w) ∨
    ∃ (k : PanicKind), preCheck p ids rels w.noObs = .panic k w.noObs ∧
      preCheck p ids rels w = .panic k w := by
  have := preCheck_any p ids rels w.noObs w rfl rfl
  rcases preCheck_cases p ids rels w.noObs with h | ⟨k, h⟩
  · rw [h] at this; exact Or.inl ⟨h, this⟩
  · rw [h] at this; exact Or.inr ⟨k, h, this⟩

/-- **every rejection of the observer-free `SetRelations` is a rejection with observers** -/
theorem opSetRelations_transfer_panic (run run0 : ProbeRunner) (p : Path) (e : Ent)
    (mapperIds : List Comp) (rels : List RelID) (w : World) {k : PanicKind} {s : World}
    (h0 : opSetRelations run0 p e mapperIds rels w.noObs = .panic k s) :
    opSetRelations run p e mapperIds rels w = .panic k (s.reframe w.obs w.log w.locks) := by
  rcases preCheck_of_noObs p.setRelCheck mapperIds rels w with ⟨h1, h2⟩ | ⟨k', h1, h2⟩
  · simp only [opSetRelations, bind, M.bind, h1] at h0
    simp only [opSetRelations, bind, M.bind, h2]
    exact setRelationsCore_transfer_panic run run0 e rels w h0
  · simp only [opSetRelations, bind, M.bind, h1] at h0
    simp only [opSetRelations, bind, M.bind, h2]
    injection h0 with e1 e2
    subst e1; subst e2
    rfl

/-- **every accepted observer-free `SetRelations` is accepted with observers**, with the result
    `setRelationsCore_transfer_ok` describes -/
theorem opSetRelations_transfer_ok (hro : ReadOnly run S rec) (run0 : ProbeRunner) (p : Path)
    (e : Ent) (mapperIds : List Comp) (rels : List RelID) (w : World) (hs : ScriptsIn w.obs S)
    (hok : ObsOK w.obs) {l1 l2 : Lock} {b : Nat} (hL : LockCycle w.locks l1 b l2) {w0 : World}
    (h0 : opSetRelations run0 p e mapperIds rels w.noObs = .ok () w0) :
    setRelationsCore run0 e rels w.noObs = .ok () w0 ∧
    ((changedComps (w.tbl (w.index e.id).1) rels = [] ∧ w0 = w.noObs ∧
      opSetRelations run p e mapperIds rels w = .ok () w) ∨
    (changedComps (w.tbl (w.index e.id).1) rels ≠ [] ∧
      ∃ (newRels : List RelID) (nt : Nat) (w1 : World),
        getOrCreate (w.tbl (w.index e.id).1).arch newRels w.noObs = .ok nt w1 ∧
        w0 = registerW (addMove w1 e (w.index e.id).1 (w.index e.id).2 nt
          (w1.arch (w.tbl (w.index e.id).1).arch).mask) rels ∧
        opSetRelations run p e mapperIds rels w = .ok ()
          (setRelResult rec w w1 w0 e (Mask.ofList (changedComps (w.tbl (w.index e.id).1) rels))
            (w1.arch (w.tbl (w.index e.id).1).arch).mask l1 l2))) := by
  rcases preCheck_of_noObs p.setRelCheck mapperIds rels w with ⟨h1, h2⟩ | ⟨k', h1, h2⟩
  · simp only [opSetRelations, bind, M.bind, h1] at h0
    simp only [opSetRelations, bind, M.bind, h2]
    exact ⟨h0, setRelationsCore_transfer_ok hro run0 e rels w hs hok hL h0⟩
  · simp only [opSetRelations, bind, M.bind, h1] at h0
    cases h0

end Ops

end Ark
