/-
  Ark.Proofs.RelRefine2Shrink — `Shrink` as a step of the relation machine (properties C01 / C15
  over histories WITH relation components; C05: `Shrink` never makes cache and walk diverge).

  `Ark.Proofs.ShrinkInv` gives the world-level facts (`ShrinkRel`: tables as in `TblRel`,
  archetypes as in `ArchRel`, cache keys kept; `IdxInv`, `SInv`, `RInv`, `CacheInv` preserved).
  Here the remaining components of the joint invariant `TInv` are carried over — `Shrink` frees
  only EMPTY relation tables, so targets / relation lists / flags of the non-free tables are those
  of before and a freshly freed table has no rows — (`tinv_shrink`), then `RelRefine.HInv` with the
  specification UNCHANGED (`hinv_shrink`: every entity keeps components, values and relation
  targets) and the filter-side invariant (`kept_shrink`); `step2_shrink`.
  Kernel-only proofs, core Lean only.
-/
import Ark.Proofs.RelRefine2Machine

set_option autoImplicit false

namespace Ark
namespace RelRefine2

open World Ark.Props.C01World QueryRel QueryExact RelRefine

/-- the tables after `Shrink`, seen from a table handle -/
theorem shrinkRel_get {w w' : World} (r : ShrinkRel w w') {t : Nat} {T' : Table}
    (hT : w'.tables[t]? = some T') :
    t < w.tables.length ∧ w.tables[t]? = some (w.tbl t) ∧ TblRel (w.tbl t) T' := by
  have hlt : t < w.tables.length := by rw [← r.tlen]; exact lt_of_get hT
  refine ⟨hlt, get_of_lt hlt, ?_⟩
  have := r.tbl t
  rw [tbl_of_get hT] at this
  exact this

/-- a table that is not free after `Shrink` was not free before -/
theorem tblRel_notFree {T T' : Table} (h : TblRel T T') (hf : T'.isFree = false) :
    T.isFree = false := by
  cases hT : T.isFree with
  | false => rfl
  | true => rw [h.free_mono hT] at hf; cases hf

/-- **`Shrink` keeps the joint invariant** of the relation fragment -/
theorem tinv_shrink {w w' : World} {fl : List Nat} (h : TInv w fl) (r : ShrinkRel w w')
    (hI : IdxInv w') (hS : SInv w') (hR : RInv w') : TInv w' fl where
  rel :=
    { sinv := hS
      rinv := hR
      aux :=
        { targets := by
            intro t T' hT hf i hi
            obtain ⟨_, hT0, tr⟩ := shrinkRel_get r hT
            have := h.rel.aux.targets t _ hT0 (tblRel_notFree tr hf) i (by rw [← tr.isRel]; exact hi)
            rw [tr.targets, r.alive]
            exact this
          rels := by
            intro t T' hT hf
            obtain ⟨_, hT0, tr⟩ := shrinkRel_get r hT
            have hex := h.rel.aux.rels t _ hT0 (tblRel_notFree tr hf)
            exact
              { tlen := by rw [tr.targets, tr.ids]; exact hex.tlen
                sound := by rw [tr.relIDs, tr.ids, tr.isRel, tr.targets]; exact hex.sound
                complete := by rw [tr.relIDs, tr.ids, tr.isRel, tr.targets]; exact hex.complete
                nodup := by rw [tr.relIDs]; exact hex.nodup }
          relArchs := by
            intro a A' hA' hrel
            rw [r.frame.relationArchetypes]
            have hlt : a < w.archetypes.length := by rw [← r.alen]; exact alt_of_get hA'
            have hr := r.arch a
            rw [arch_of_get hA'] at hr
            exact h.rel.aux.relArchs a _ (aget_of_lt hlt) (by rw [← hr.hasRelations]; exact hrel)
          cacheRels := by
            intro e' he' x hx
            have hk : (e'.id, e'.filter, e'.rels) ∈ w.cacheKeys := by
              rw [← r.cacheKeys]; exact List.mem_map.mpr ⟨e', he', rfl⟩
            obtain ⟨e, he, heq⟩ := List.mem_map.mp hk
            injection heq with _ g23
            injection g23 with g2 g3
            rw [← g2]
            exact h.rel.aux.cacheRels e he x (by rw [g3]; exact hx) } }
  flags := by
    intro t T' hT hf i hi hz
    obtain ⟨_, hT0, tr⟩ := shrinkRel_get r hT
    rw [tr.targets] at hz ⊢
    rw [r.frame.isTarget]
    exact h.flags t _ hT0 (tblRel_notFree tr hf) i (by rw [← tr.isRel]; exact hi) hz
  freeEmpty := by
    intro t T' hT hf
    obtain ⟨_, hT0, tr⟩ := shrinkRel_get r hT
    rw [tr.len]
    rcases tr.free with e | ⟨f1, _⟩
    · exact h.freeEmpty t _ hT0 (by rw [← e]; exact hf)
    · simp only [freeable, Bool.and_eq_true, beq_iff_eq] at f1
      exact f1.2
  link := h.link.transfer hI r.frame.pool (IdxSame.of_eq r.frame.entities)
    (by rw [r.frame.isTarget]) (by rw [r.tlen]; exact h.link.fewTables)
  kindsLe := by
    obtain ⟨ts, as, c, heq⟩ := r.frame
    rw [heq]; exact h.kindsLe

/-- `Shrink` is invisible to the relation targets read through the index -/
theorem shrinkRel_targetOf {w w' : World} (r : ShrinkRel w w') (i : Nat) (c : Comp) :
    targetOf w' i c = targetOf w i c := by
  simp only [Ark.targetOf, r.frame.entities]
  cases hx : w.entities[i]? with
  | none => rfl
  | some p =>
    obtain ⟨t, row⟩ := p
    simp only
    by_cases ht : t = maxU32
    · simp only [ht, if_true]
    · simp only [ht, if_false]
      rcases Nat.lt_or_ge t w.tables.length with hlt | hge
      · rw [get_of_lt hlt, get_of_lt (w := w') (by rw [r.tlen]; exact hlt)]
        simp only [Option.bind_some, Table.targetAt, (r.tbl t).colIdx, (r.tbl t).isRel,
          (r.tbl t).targets]
      · rw [List.getElem?_eq_none hge, List.getElem?_eq_none (by rw [r.tlen]; exact hge)]

/-- **`Shrink` as a step of the relation machine: the specification is unchanged** -/
theorem hinv_shrink {s : St} {fl : List Nat} (H : HInv s fl) {w' : World} (r : ShrinkRel s.w w')
    (hI : IdxInv w') (hS : SInv w') (hR : RInv w') : HInv ⟨w', s.issued, s.ss⟩ fl where
  tinv := tinv_shrink H.tinv r hI hS hR
  ginv := by
    have : (⟨w', s.issued, s.ss⟩ : St).ps = s.ps := by simp only [St.ps, r.frame.pool]
    rw [this]; exact H.ginv
  unlocked := by show w'.isLocked = false; rw [r.frame.isLocked]; exact H.unlocked
  noObs := fun evt => by show w'.obs.hasObservers evt = false; rw [r.frame.obs]; exact H.noObs evt
  nodup := H.nodup
  zstEq := by show s.ss.zst = w'.kinds.map (·.zst); rw [r.frame.kinds]; exact H.zstEq
  relEq := by show s.ss.isRel = w'.kinds.map (·.isRel); rw [r.frame.kinds]; exact H.relEq
  maxc := by
    obtain ⟨ts, as, c, heq⟩ := r.frame
    show w'.maxComps = 256
    rw [heq]; exact H.maxc
  ok := by
    intro e en hm
    show EntOK w' w'.kinds.length s.ss.isRel e en
    rw [r.frame.kinds]
    exact (H.ok e en hm).frame ⟨fun c => r.valOf e.id c, r.compsOf e.id⟩ (fun c => shrinkRel_targetOf r e.id c)
  tgtsOK := H.tgtsOK

/-- **`Shrink` keeps the filter-side state**: freed tables leave the cache entries
    (`cache.removeTable`), nothing else of the cache, the heap or the lock changes -/
theorem kept_shrink {w w' : World} (r : ShrinkRel w w') (hc : CacheInv w → CacheInv w') :
    Kept w w' where
  q :=
    { rows := by
        intro hr t T' row hT hrow
        obtain ⟨_, hT0, tr⟩ := shrinkRel_get r hT
        rw [tr.len] at hrow
        rw [tr.ent row hrow, r.alive]
        exact hr t _ row hT0 hrow
      cidx := fun hx => hx.of_frame ⟨r.frame.componentIndex, r.frame.kinds, r.alen,
        fun a => (r.arch a).mask⟩
      cache := by
        rintro ⟨h1, h2⟩
        refine ⟨by rw [r.cacheIdx]; exact h1, ?_⟩
        have hk := r.cacheKeys
        simp only [cacheKeys, h2, List.map_nil] at hk
        exact List.map_eq_nil_iff.mp hk }
  c := ⟨hc, r.cacheKeys, r.cacheIdx, r.cachePool, r.frame.filters⟩
  locks := r.frame.locks
  relComp := fun c hcc => by simp only [World.isRelComp, r.frame.kinds]; exact hcc

theorem step2_shrink (run : ProbeRunner) {s : St} {fl : List Nat} (H : HInv2 s fl)
    (hent : 2 * s.w.entities.length < 2 ^ 32) (bounded : Bool) :
    (∃ fl', HInv2 (step2 run s (.shrink bounded)) fl') ∧ Grows s (step2 run s (.shrink bounded)) := by
  have hl := H.base.unlocked
  have ht := H.base.tinv
  have hb : RowsBounded s.w := fun t => by have := ht.link.idx.rows_le t; omega
  obtain ⟨hI, hrel⟩ := shrinkPure_rel ht.link.idx hb bounded
  obtain ⟨hS, hR⟩ := shrinkPure_sinv ht.rel.sinv ht.rel.rinv bounded
  have hc : CacheInv s.w → CacheInv (shrinkPure s.w bounded).1 := fun hcc =>
    (shrinkPure_induct (fun w' => SInv w' ∧ RInv w' ∧ CacheInv w')
      (fun _ t ⟨a, b, c⟩ => shrinkStep_struct a b c t) bounded s.w
        ⟨ht.rel.sinv, ht.rel.rinv, hcc⟩).2.2
  have hstep : step2 run s (.shrink bounded) = ⟨(shrinkPure s.w bounded).1, s.issued, s.ss⟩ := by
    simp only [step2, opShrink_eq bounded s.w hl, Res.state]
  rw [hstep]
  refine ⟨⟨fl, hinv_shrink H.base hrel hI hS hR, H.finv.kept (kept_shrink hrel hc)⟩, ?_⟩
  exact ⟨by show (shrinkPure s.w bounded).1.tables.length ≤ _; rw [hrel.tlen]; omega,
    by show (shrinkPure s.w bounded).1.relationArchetypes.length ≤ _
       rw [hrel.frame.relationArchetypes]; exact Nat.le_succ _,
    by show (shrinkPure s.w bounded).1.entities.length ≤ _
       rw [hrel.frame.entities]; exact Nat.le_succ _⟩

end RelRefine2
end Ark
