/-
  Ark.Proofs.TargetsHist — C04 at world level, part 8: iterating the theorems.
  `Good w` ("the invariant for some free list, unlocked, no observers") is established by
  `World.init` and preserved by `registerComponent`, by an accepted `NewEntity(ids…, rels…)` and
  by `RemoveEntity` of an entity that sits in a table — with side conditions that are decidable
  on a concrete world, so that `TInv` of a world built by running model operations follows by
  chaining these lemmas.
  Kernel-only proofs, core Lean only.
-/
import Ark.Proofs.TargetsRemove

set_option autoImplicit false

namespace Ark

open World Ark.Props.C01World

/-- **registerComponent** (any kind, also a relation component) keeps the invariant -/
theorem TInv.registerComponent {w w' : World} {fl : List Nat} (h : TInv w fl) {k : CompKind}
    {n : Nat} (hr : World.registerComponent k w = .ok n w') :
    TInv w' fl ∧ w'.obs = w.obs ∧ w'.locks = w.locks := by
  obtain ⟨_, hks, harch, htab, hent, hpool, hcache⟩ := registerComponent_ok hr
  have hfields : w'.obs = w.obs ∧ w'.locks = w.locks ∧ w'.isTarget = w.isTarget ∧
      w'.maxComps = w.maxComps ∧ w.kinds.length < w.maxComps ∧
      w'.relationArchetypes = w.relationArchetypes := by
    unfold World.registerComponent at hr
    simp only at hr
    split at hr
    · cases hr
    · rename_i hlt
      split at hr
      · cases hr
      · injection hr with _ h2; subst h2
        exact ⟨rfl, rfl, rfl, rfl, by omega, rfl⟩
  obtain ⟨fo, fl', ft, fm, hlt, fra⟩ := hfields
  refine ⟨?_, fo, fl'⟩
  have hal : ∀ (x : Ent), w'.alive x = w.alive x := fun x => by simp only [World.alive, hpool]
  exact
    { rel :=
        { sinv := h.rel.sinv.registerComponent hr
          rinv := h.rel.rinv.registerComponent hr
          aux :=
            { targets := by
                intro t T hT hf i hi
                rw [htab] at hT
                rw [hal]; exact h.rel.aux.targets t T hT hf i hi
              rels := by rw [RelListsOK, htab]; exact h.rel.aux.rels
              relArchs := by rw [RelArchsOK, harch, fra]; exact h.rel.aux.relArchs
              cacheRels := by intro e he; rw [hcache] at he; exact h.rel.aux.cacheRels e he } }
      flags := by rw [FlagsOK, htab, ft]; exact h.flags
      freeEmpty := by rw [FreeEmpty, htab]; exact h.freeEmpty
      link := h.link.congr (h.link.idx.registerComponent hr) hpool hent (by rw [ft]) (by rw [htab])
      kindsLe := by
        rw [hks, fm]
        simp only [List.length_append, List.length_singleton]
        exact ⟨by omega, h.kindsLe.2⟩ }

/-- an entity that sits in a table has a live ID -/
theorem PLink.indexed_live {w : World} {fl : List Nat} (h : PLink w fl) {i t r : Nat}
    (hi : w.entities[i]? = some (t, r)) (ht : t ≠ maxU32) : 2 ≤ i ∧ i ∉ fl := by
  constructor
  · rcases Nat.lt_or_ge i 2 with h1 | h1
    · obtain ⟨r', hr'⟩ := h.reservedUnindexed i h1
      rw [hr'] at hi
      exact absurd (Prod.mk.inj (Option.some.inj hi)).1 (fun e => ht e.symm)
    · exact h1
  · intro hm
    obtain ⟨r', hr'⟩ := h.freeUnindexed i hm
    rw [hr'] at hi
    exact absurd (Prod.mk.inj (Option.some.inj hi)).1 (fun e => ht e.symm)

/-- the class of a panic (`none` = the call returned) -/
def panicOf {α : Type} (r : Res World α) : Option PanicKind :=
  match r with
  | .ok _ _ => none
  | .panic k _ => some k

theorem ok_of_panicOf {α : Type} {r : Res World α} (h : panicOf r = none) :
    ∃ (a : α), r = .ok a r.state := by
  cases r with
  | ok a s => exact ⟨a, rfl⟩
  | panic k s => cases h

/-- **Good** — the invariant holds for some free list, the world is unlocked and no observer is
    registered: the states in which the C04 theorems apply, closed under them. -/
def Good (w : World) : Prop :=
  ∃ (fl : List Nat), TInv w fl ∧ w.isLocked = false ∧ ∀ (evt : Nat), w.obs.hasObservers evt = false

theorem good_init (cap rel : Nat) : Good (World.init cap rel) :=
  ⟨[], tinv_init cap rel, rfl, fun _ => rfl⟩

theorem Good.registerComponent {w : World} (h : Good w) (k : CompKind)
    (hnp : panicOf (World.registerComponent k w) = none) :
    Good (World.registerComponent k w).state := by
  obtain ⟨fl, ht, hl, hno⟩ := h
  obtain ⟨n, hr⟩ := ok_of_panicOf hnp
  obtain ⟨ht', fo, fl'⟩ := ht.registerComponent hr
  exact ⟨fl, ht', by show (World.registerComponent k w).state.locks.isLocked = false
                     rw [fl']; exact hl, fun evt => by rw [fo]; exact hno evt⟩

theorem Good.newEntity (run : ProbeRunner) (p : Path) {w : World} (h : Good w) {ids : List Comp}
    {vals : List (Comp × Val)} {rels : List RelID}
    (hreg : ∀ (c : Comp), c ∈ ids → c < w.kinds.length)
    (hnd : (rels.map (·.comp)).Nodup) (hin : ∀ (r : RelID), r ∈ rels → r.comp ∈ ids)
    (hrc : ∀ (r : RelID), r ∈ rels → w.isRelComp r.comp = true)
    (htin : ∀ (r : RelID), r ∈ rels → r.target.id < w.pool.ents.length)
    (hfew : w.tables.length < maxU32) (hrows : w.entities.length + 1 < 2 ^ 32)
    (hnp : panicOf (opNewEntity run p ids vals rels w) = none) :
    Good (opNewEntity run p ids vals rels w).state := by
  obtain ⟨fl, ht, hl, hno⟩ := h
  obtain ⟨e, hr⟩ := ok_of_panicOf hnp
  have post := opNewEntity_rel_spec run p ht hl hno hreg hnd hin hrc htin hfew hrows hr
  exact ⟨fl.tail, post.tinv, by show (opNewEntity run p ids vals rels w).state.locks.isLocked = false
                                rw [post.locks]; exact hl,
    fun evt => by rw [post.obs]; exact hno evt⟩

theorem Good.removeEntity (run : ProbeRunner) {w : World} (h : Good w) {g : Ent}
    (ha : w.alive g = true) (hidx : (w.index g.id).1 ≠ maxU32) (hlt : g.id < w.entities.length)
    (hfew : w.tables.length + w.relationArchetypes.length + 1 ≤ maxU32)
    (hrows : 2 * w.entities.length < 2 ^ 32) :
    panicOf (opRemoveEntity run g w) = none ∧ Good (opRemoveEntity run g w).state := by
  obtain ⟨fl, ht, hl, hno⟩ := h
  have hent : w.entities[g.id]? = some ((w.index g.id).1, (w.index g.id).2) := by
    simp only [World.index, List.getD_eq_getElem?_getD, List.getElem?_eq_getElem hlt,
      Option.getD_some]
  obtain ⟨h2, hnf⟩ := ht.link.indexed_live hent hidx
  obtain ⟨w', hok, post⟩ := opRemoveEntity_rel_spec run ht hl hno h2 hnf ha
    (by rw [← ht.link.lenEq]; exact hlt) hfew hrows
  rw [hok]
  exact ⟨rfl, g.id :: fl, post.tinv, by show w'.locks.isLocked = false
                                        rw [post.locks]; exact hl,
    fun evt => by show w'.obs.hasObservers evt = false
                  rw [post.obs]; exact hno evt⟩

end Ark
