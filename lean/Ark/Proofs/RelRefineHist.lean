/-
  Ark.Proofs.RelRefineHist — the refinement machine for the fragment WITH relation components,
  part 3: the theorems over histories of any length (`ops.length < 2^16`, see
  `Ark/Proofs/RelRefineSteps.lean` for the bound): `refines`, `refines_absent`,
  `alive_iff_specified`, `targets_zero_or_alive`, `rejected`, `accepted`, `frame_world`,
  `del_detaches`, `target_stays`, `new_assigns`, `add_assigns`, `setrel_assigns`,
  `dead_target_not_accepted_*`.  They are restated in `Ark/Props/C04Hist.lean`.
  Kernel-only proofs, core Lean only.
-/
import Ark.Proofs.RelRefineSteps

set_option autoImplicit false

namespace Ark

open World Ark.Props.C01World

namespace RelRefine

open Refine (Comps keys sortedIds writeComps zeros)

variable (run : ProbeRunner) (cap rel : Nat)

/-! ## refinement -/

/-- **refines** — after every history, for every entry `(e, en)` of the specification: `e` is
    alive, its component set is the sorted list of the keys of `en.comps`, every component holds
    the recorded value, and every relation component has the recorded target; the recorded
    relations are exactly the relation components among the keys -/
theorem refines (ops : List Op) (hlen : ops.length < 2 ^ 16) (e : Ent) (en : Entry)
    (hm : (e, en) ∈ (reach run cap rel ops).ss.ents) :
    (reach run cap rel ops).w.alive e = true ∧
    compsOf (reach run cap rel ops).w e.id =
      some (sortedIds (reach run cap rel ops).w.kinds.length (keys en.comps)) ∧
    (∀ cv ∈ en.comps, valOf (reach run cap rel ops).w e.id cv.1 = some cv.2) ∧
    (∀ r ∈ en.rels, targetOf (reach run cap rel ops).w e.id r.comp = some r.target) ∧
    (keys en.comps).Nodup ∧ (∀ c ∈ keys en.comps, c < (reach run cap rel ops).w.kinds.length) ∧
    (en.rels.map (·.comp)).Nodup ∧
    (∀ c : Comp, c ∈ en.rels.map (·.comp) ↔
      c ∈ keys en.comps ∧ (reach run cap rel ops).w.isRelComp c = true) := by
  obtain ⟨fl, h⟩ := reach_hinv run cap rel ops hlen
  obtain ⟨_, ha, _⟩ := h.live_facts hm
  have ok := h.ok e en hm
  exact ⟨ha, ok.comps, ok.vals, ok.tgts, ok.nodup, ok.reg, ok.relNodup,
    fun c => by rw [ok.relKeys c, h.rget]⟩

/-- … a component that is not a key of the entry is absent, and a component for which the entry
    records no relation carries no target -/
theorem refines_absent (ops : List Op) (hlen : ops.length < 2 ^ 16) (e : Ent) (en : Entry)
    (hm : (e, en) ∈ (reach run cap rel ops).ss.ents) (c : Comp) :
    (c ∉ keys en.comps → valOf (reach run cap rel ops).w e.id c = none) ∧
    (c ∉ en.rels.map (·.comp) → targetOf (reach run cap rel ops).w e.id c = none) := by
  obtain ⟨fl, h⟩ := reach_hinv run cap rel ops hlen
  have ok := h.ok e en hm
  constructor
  · intro hc
    exact valOf_none_of_comps ok.comps (fun hh => hc (Refine.mem_sortedIds.mp hh).2)
  · intro hc
    cases ht : targetOf (reach run cap rel ops).w e.id c with
    | none => rfl
    | some x =>
      exact absurd ((h.target_isSome_iff hm c).mp (by rw [ht]; rfl)) hc

/-- the world-level invariant `TInv` of `Ark/Proofs/TargetsInv.lean` holds after every history -/
theorem reach_tinv (ops : List Op) (hlen : ops.length < 2 ^ 16) :
    ∃ fl, TInv (reach run cap rel ops).w fl := by
  obtain ⟨fl, h⟩ := reach_hinv run cap rel ops hlen
  exact ⟨fl, h.tinv⟩

/-- the specification's registry is the model's -/
theorem registry_agrees (ops : List Op) (hlen : ops.length < 2 ^ 16) :
    (reach run cap rel ops).ss.zst = (reach run cap rel ops).w.kinds.map (·.zst) ∧
    (reach run cap rel ops).ss.isRel = (reach run cap rel ops).w.kinds.map (·.isRel) := by
  obtain ⟨fl, h⟩ := reach_hinv run cap rel ops hlen
  exact ⟨h.zstEq, h.relEq⟩

/-- **exactly the alive entities are specified** -/
theorem alive_iff_specified (ops : List Op) (hlen : ops.length < 2 ^ 16) (h : Ent)
    (hi : h ∈ (reach run cap rel ops).issued) :
    (reach run cap rel ops).w.alive h = true ↔ h ∈ (reach run cap rel ops).ss.ents.map (·.1) := by
  obtain ⟨fl, hinv⟩ := reach_hinv run cap rel ops hlen
  exact Pool.alive_iff_live _ fl hinv.ginv h hi

theorem spec_handles_nodup (ops : List Op) (hlen : ops.length < 2 ^ 16) :
    ((reach run cap rel ops).ss.ents.map (·.1)).Nodup ∧
    (∀ h ∈ (reach run cap rel ops).ss.ents.map (·.1), h ∈ (reach run cap rel ops).issued) ∧
    (reach run cap rel ops).issued.Nodup := by
  obtain ⟨fl, hinv⟩ := reach_hinv run cap rel ops hlen
  exact ⟨hinv.ginv.live_nodup, hinv.ginv.live_issued, hinv.nodup⟩

/-! ## targets are the zero entity or alive -/

/-- **targets_zero_or_alive** (specification): every target the specification records is the
    zero entity or has an entry itself -/
theorem targets_zero_or_alive (ops : List Op) (hlen : ops.length < 2 ^ 16) (e : Ent) (en : Entry)
    (hm : (e, en) ∈ (reach run cap rel ops).ss.ents) (r : RelID) (hr : r ∈ en.rels) :
    r.target.isZero = true ∨ r.target ∈ (reach run cap rel ops).ss.ents.map (·.1) := by
  obtain ⟨fl, h⟩ := reach_hinv run cap rel ops hlen
  rcases h.tgtsOK e en hm r hr with k | k
  · exact Or.inl k
  · exact Or.inr (find_isSome_iff.mp k)

/-- **targets_zero_or_alive** (model): every relation target read through the index — of any
    ID, specified or not — is the zero entity or alive -/
theorem targets_zero_or_alive_world (ops : List Op) (hlen : ops.length < 2 ^ 16) (j : Nat)
    (c : Comp) (x : Ent) (ht : targetOf (reach run cap rel ops).w j c = some x) :
    x.isZero = true ∨ (reach run cap rel ops).w.alive x = true := by
  obtain ⟨fl, h⟩ := reach_hinv run cap rel ops hlen
  have hT := h.tinv
  simp only [targetOf] at ht
  cases hx : (reach run cap rel ops).w.entities[j]? with
  | none => rw [hx] at ht; cases ht
  | some pr =>
    obtain ⟨tj, r⟩ := pr
    rw [hx] at ht
    simp only at ht
    by_cases hmx : tj = maxU32
    · rw [if_pos hmx] at ht; cases ht
    · rw [if_neg hmx] at ht
      obtain ⟨T, hTt, hr, _⟩ := hT.link.idx.idxRow j tj r hx hmx
      rw [hTt] at ht
      simp only [Option.bind_some, Table.targetAt] at ht
      have hfree : T.isFree = false := by
        cases hf : T.isFree with
        | false => rfl
        | true => have := hT.freeEmpty tj T hTt hf; omega
      cases hc : T.colIdx c with
      | none => rw [hc] at ht; cases ht
      | some k =>
        rw [hc] at ht
        simp only [Option.bind_some] at ht
        split at ht
        · rename_i hk
          have := hT.rel.aux.targets tj T hTt hfree k hk
          rw [Option.some.inj ht] at this
          exact this
        · cases ht

/-! ## invalid operations are rejected without effect, valid ones succeed -/

/-- **rejected** — a step of the machine (`guard`) whose precondition (`pre`, a statement about
    the specification only) fails: the model panics with the world unchanged, and the whole
    machine state is unchanged.  This includes a dead target named through any path (`Unsafe`
    too, since the repair of its relation validation). -/
theorem rejected (ops : List Op) (op : Op) (hlen : ops.length + 1 < 2 ^ 16)
    (hg : guard (reach run cap rel ops) op = true) (hnp : ¬ pre (reach run cap rel ops).ss op) :
    (∃ k, exec run (reach run cap rel ops).w op = .panic k (reach run cap rel ops).w) ∧
    (∀ fresh, specStep (reach run cap rel ops).ss fresh op = (reach run cap rel ops).ss) ∧
    reach run cap rel (ops ++ [op]) = reach run cap rel ops := by
  obtain ⟨fl, h⟩ := reach_hinv run cap rel ops (by omega)
  obtain ⟨hfew, hent⟩ := reach_fits run cap rel ops hlen
  obtain ⟨_, _, _, _, hrej, _⟩ := step_goal run h hfew hent op
  obtain ⟨k, hk⟩ := hrej hg hnp
  have hspec : ∀ fresh, specStep (reach run cap rel ops).ss fresh op = (reach run cap rel ops).ss :=
    fun fresh => specStep_of_not_pre _ fresh op hnp
  refine ⟨⟨k, hk⟩, hspec, ?_⟩
  rw [reach_snoc, step_of_guard hg, hk]
  simp only [Res.state, retOf, issuedAfter, hspec]

/-- **accepted** — a step of the machine whose precondition holds succeeds (all six operations,
    any access path) -/
theorem accepted (ops : List Op) (op : Op) (hlen : ops.length + 1 < 2 ^ 16)
    (hg : guard (reach run cap rel ops) op = true) (hp : pre (reach run cap rel ops).ss op) :
    ∃ r w', exec run (reach run cap rel ops).w op = .ok r w' := by
  obtain ⟨fl, h⟩ := reach_hinv run cap rel ops (by omega)
  obtain ⟨hfew, hent⟩ := reach_fits run cap rel ops hlen
  obtain ⟨_, _, _, _, _, hacc⟩ := step_goal run h hfew hent op
  exact hacc hg hp

/-- the machine state after a step that is not taken or is rejected -/
theorem reach_snoc_same (ops : List Op) (op : Op) (hlen : ops.length + 1 < 2 ^ 16)
    (h : ¬ (guard (reach run cap rel ops) op = true ∧ pre (reach run cap rel ops).ss op)) :
    reach run cap rel (ops ++ [op]) = reach run cap rel ops := by
  by_cases hg : guard (reach run cap rel ops) op = true
  · exact (rejected run cap rel ops op hlen hg (fun hp => h ⟨hg, hp⟩)).2.2
  · rw [reach_snoc, step, if_neg hg]

/-! ## what a step does to the specification -/

/-- the entity an operation is about (`fresh` = the handle a successful `new` returns) -/
def target (fresh : Ent) : Op → Option Ent
  | .reg _ _ _ => none
  | .new _ _ _ _ => some fresh
  | .add _ e _ _ _ => some e
  | .rem _ e _ => some e
  | .setrel _ e _ => some e
  | .set e _ => some e
  | .del e => some e

def Op.isDel : Op → Bool
  | .del _ => true
  | _ => false

/-- **frame** (specification): the step for an operation on `e` other than `del` changes only
    `e`'s entry -/
theorem specStep_frame (ss : SS) (fresh : Ent) (op : Op) (x : Ent) (hd : op.isDel = false)
    (hx : target fresh op ≠ some x) : find (specStep ss fresh op).ents x = find ss.ents x := by
  cases op with
  | reg size z ir => simp only [specStep]; split <;> rfl
  | new p ids vals rels =>
    have hne : fresh ≠ x := fun hh => hx (by rw [hh]; rfl)
    simp only [specStep]
    split
    · simp only [find, if_neg hne]
    · rfl
  | add p e ids vals rels =>
    have hne : x ≠ e := fun hh => hx (by rw [hh]; rfl)
    simp only [specStep]
    cases find ss.ents e with
    | none => rfl
    | some en =>
      simp only
      split
      · dsimp only
        exact find_upd_ne ss.ents _ hne
      · rfl
  | rem p e ids =>
    have hne : x ≠ e := fun hh => hx (by rw [hh]; rfl)
    simp only [specStep]
    cases find ss.ents e with
    | none => rfl
    | some en =>
      simp only
      split
      · dsimp only
        exact find_upd_ne ss.ents _ hne
      · rfl
  | setrel p e rels =>
    have hne : x ≠ e := fun hh => hx (by rw [hh]; rfl)
    simp only [specStep]
    cases find ss.ents e with
    | none => rfl
    | some en =>
      simp only
      split
      · dsimp only
        exact find_upd_ne ss.ents _ hne
      · rfl
  | set e vals =>
    have hne : x ≠ e := fun hh => hx (by rw [hh]; rfl)
    simp only [specStep]
    cases find ss.ents e with
    | none => rfl
    | some en =>
      simp only
      split
      · dsimp only
        exact find_upd_ne ss.ents _ hne
      · rfl
  | del e => cases hd

/-- **frame** (specification, `del`): a valid `del g` drops `g`'s entry; every other entry keeps
    its components and values, and exactly its targets equal to `g` become the zero entity -/
theorem specStep_del (ss : SS) (fresh : Ent) (g : Ent) {eng : Entry}
    (hg : find ss.ents g = some eng) (x : Ent) (hx : x ≠ g) :
    find (specStep ss fresh (.del g)).ents x = (find ss.ents x).map (Entry.detach g) := by
  simp only [specStep, hg]
  rw [find_detach, find_del_ne _ hx]

/-! ## frame: an operation on one entity never changes another one -/

/-- the entry of a specified entity after a step, as a function of the step's specification -/
theorem entry_after (ops : List Op) (op : Op) {x : Ent} {en' : Entry}
    (hf : ∀ fresh, find (specStep (reach run cap rel ops).ss fresh op).ents x = some en')
    (hf0 : find (reach run cap rel ops).ss.ents x = some en') :
    (x, en') ∈ (reach run cap rel (ops ++ [op])).ss.ents := by
  by_cases hg : guard (reach run cap rel ops) op = true
  · rw [reach_snoc, step_of_guard hg]
    exact find_some_mem (hf _)
  · rw [reach_snoc, step, if_neg hg]
    exact find_some_mem hf0

/-- reading components, values and targets of a specified entity off its entry -/
theorem read_entry (ops : List Op) (hlen : ops.length < 2 ^ 16) {x : Ent} {en : Entry}
    (hm : (x, en) ∈ (reach run cap rel ops).ss.ents) :
    compsOf (reach run cap rel ops).w x.id =
      some (sortedIds (reach run cap rel ops).w.kinds.length (keys en.comps)) ∧
    (∀ c : Comp, valOf (reach run cap rel ops).w x.id c =
      (en.comps.find? (fun cv => cv.1 == c)).map (·.2)) ∧
    (∀ c : Comp, targetOf (reach run cap rel ops).w x.id c =
      (en.rels.find? (fun r => r.comp == c)).map (·.target)) := by
  obtain ⟨_, hc, hv, ht, hnd, _, hrnd, _⟩ := refines run cap rel ops hlen x en hm
  refine ⟨hc, fun c => ?_, fun c => ?_⟩
  · cases hfc : en.comps.find? (fun cv => cv.1 == c) with
    | none =>
      have hnk : c ∉ keys en.comps := by
        intro hk
        obtain ⟨cv, hcv, rfl⟩ := List.mem_map.mp hk
        have := List.find?_eq_none.mp hfc cv hcv
        simp at this
      exact (refines_absent run cap rel ops hlen x en hm c).1 hnk
    | some cv =>
      have h1 := List.find?_some hfc
      simp only [beq_iff_eq] at h1
      rw [← h1, hv cv (List.mem_of_find?_eq_some hfc)]; rfl
  · cases hfc : en.rels.find? (fun r => r.comp == c) with
    | none =>
      have hnk : c ∉ en.rels.map (·.comp) := by
        intro hk
        obtain ⟨r, hr, rfl⟩ := List.mem_map.mp hk
        have := List.find?_eq_none.mp hfc r hr
        simp at this
      exact (refines_absent run cap rel ops hlen x en hm c).2 hnk
    | some r =>
      have h1 := List.find?_some hfc
      simp only [beq_iff_eq] at h1
      rw [← h1, ht r (List.mem_of_find?_eq_some hfc)]; rfl

/-- the entity an operation names (`reg` and `new` name none) -/
def subject : Op → Option Ent
  | .reg _ _ _ => none
  | .new _ _ _ _ => none
  | .add _ e _ _ _ => some e
  | .rem _ e _ => some e
  | .setrel _ e _ => some e
  | .set e _ => some e
  | .del e => some e

/-- the handles held after a call that returned `r` -/
def consOpt (r : Option Ent) (l : List Ent) : List Ent :=
  match r with
  | some e => e :: l
  | none => l

/-- a step that is taken and accepted: the model returns, the machine moves to the world
    returned, the specification makes its step, and a returned handle was never issued before -/
theorem step_spec (ops : List Op) (op : Op) (hlen : ops.length + 1 < 2 ^ 16)
    (hg : guard (reach run cap rel ops) op = true) (hp : pre (reach run cap rel ops).ss op) :
    ∃ (r : Option Ent) (w' : World), exec run (reach run cap rel ops).w op = .ok r w' ∧
      reach run cap rel (ops ++ [op]) =
        ⟨w', consOpt r (reach run cap rel ops).issued,
          specStep (reach run cap rel ops).ss (r.getD default) op⟩ ∧
      (∀ e, r = some e → e ∉ (reach run cap rel ops).issued) := by
  obtain ⟨r, w', hex⟩ := accepted run cap rel ops op hlen hg hp
  have hst : reach run cap rel (ops ++ [op]) =
      ⟨w', consOpt r (reach run cap rel ops).issued,
        specStep (reach run cap rel ops).ss (r.getD default) op⟩ := by
    rw [reach_snoc, step_of_guard hg, hex]
    rfl
  refine ⟨r, w', hex, hst, ?_⟩
  intro e he
  subst he
  have hlen' : (ops ++ [op]).length < 2 ^ 16 := by
    simp only [List.length_append, List.length_singleton]; exact hlen
  have hnd := (spec_handles_nodup run cap rel (ops ++ [op]) hlen').2.2
  rw [hst] at hnd
  exact (List.nodup_cons.mp hnd).1

/-- the handle a valid `new` returns -/
theorem exec_new_ret {w : World} {p : Path} {ids : List Comp} {vals : Comps} {rels : Rels}
    {r : Option Ent} {w' : World} (h : exec run w (.new p ids vals rels) = .ok r w') :
    ∃ e, r = some e := by
  simp only [exec] at h
  cases hc : opNewEntity run p ids vals rels w with
  | panic k w1 => rw [hc] at h; cases h
  | ok e1 w1 => rw [hc] at h; injection h with h1 _; exact ⟨e1, h1.symm⟩

/-- the entry of a specified entity `x` that the operation does not name, after a step other than
    `del`: unchanged -/
theorem entry_kept (ops : List Op) (op : Op) (hlen : ops.length + 1 < 2 ^ 16) (x : Ent)
    (en : Entry) (hm : (x, en) ∈ (reach run cap rel ops).ss.ents)
    (hd : op.isDel = false) (hx : subject op ≠ some x) :
    (x, en) ∈ (reach run cap rel (ops ++ [op])).ss.ents := by
  obtain ⟨fl, h⟩ := reach_hinv run cap rel ops (by omega)
  have hf : find (reach run cap rel ops).ss.ents x = some en := find_of_mem h.ginv.live_nodup hm
  by_cases hgp : guard (reach run cap rel ops) op = true ∧ pre (reach run cap rel ops).ss op
  · obtain ⟨r, w', hex, hst, hfresh⟩ := step_spec run cap rel ops op hlen hgp.1 hgp.2
    rw [hst]
    apply find_some_mem
    show find (specStep _ _ op).ents x = some en
    rw [specStep_frame _ _ op x hd ?_]; exact hf
    cases op with
    | new p ids vals rels =>
      obtain ⟨e, rfl⟩ := exec_new_ret run hex
      intro hh
      simp only [target, Option.getD_some, Option.some.injEq] at hh
      exact hfresh e rfl (hh ▸ (h.live_facts hm).1)
    | reg _ _ _ => intro hh; cases hh
    | add _ e _ _ _ => exact hx
    | rem _ e _ => exact hx
    | setrel _ e _ => exact hx
    | set e _ => exact hx
    | del e => exact hx
  · rw [reach_snoc_same run cap rel ops op hlen hgp]; exact hm

/-- **frame_world** — an operation other than `del` that does not name `x` (`subject`): the
    specified entity `x` has the same component set, the same values and the same targets before
    and after.  (For `del g` see `del_detaches`.) -/
theorem frame_world (ops : List Op) (op : Op) (hlen : ops.length + 1 < 2 ^ 16) (x : Ent)
    (en : Entry) (hm : (x, en) ∈ (reach run cap rel ops).ss.ents)
    (hd : op.isDel = false) (hx : subject op ≠ some x) :
    compsOf (reach run cap rel (ops ++ [op])).w x.id = compsOf (reach run cap rel ops).w x.id ∧
    (∀ c : Comp, valOf (reach run cap rel (ops ++ [op])).w x.id c =
      valOf (reach run cap rel ops).w x.id c) ∧
    (∀ c : Comp, targetOf (reach run cap rel (ops ++ [op])).w x.id c =
      targetOf (reach run cap rel ops).w x.id c) := by
  have hm' := entry_kept run cap rel ops op hlen x en hm hd hx
  have hlen' : (ops ++ [op]).length < 2 ^ 16 := by
    simp only [List.length_append, List.length_singleton]; exact hlen
  obtain ⟨c1, v1, t1⟩ := read_entry run cap rel ops (by omega) hm
  obtain ⟨c2, v2, t2⟩ := read_entry run cap rel (ops ++ [op]) hlen' hm'
  obtain ⟨_, _, _, _, _, r1, _⟩ := refines run cap rel ops (by omega) x en hm
  obtain ⟨_, _, _, _, _, r2, _⟩ := refines run cap rel (ops ++ [op]) hlen' x en hm'
  refine ⟨by rw [c1, c2, Refine.sortedIds_eq_of_bound r1 r2], fun c => by rw [v1, v2],
    fun c => by rw [t1, t2]⟩

/-- **del_detaches** — a valid `del g` (C04: "until that target is removed from the world, at
    which point it becomes the zero entity while the entity keeps all its components and values"):
    `g` is dead and unspecified; every other specified entity keeps its component set and its
    values, and each of its targets reads the zero entity if it was `g`, and is unchanged
    otherwise -/
theorem del_detaches (ops : List Op) (g : Ent) (hlen : ops.length + 1 < 2 ^ 16) (eng : Entry)
    (hg : (g, eng) ∈ (reach run cap rel ops).ss.ents) :
    (reach run cap rel (ops ++ [.del g])).w.alive g = false ∧
    find (reach run cap rel (ops ++ [.del g])).ss.ents g = none ∧
    ∀ (x : Ent) (en : Entry), (x, en) ∈ (reach run cap rel ops).ss.ents → x ≠ g →
      (x, en.detach g) ∈ (reach run cap rel (ops ++ [.del g])).ss.ents ∧
      compsOf (reach run cap rel (ops ++ [.del g])).w x.id =
        compsOf (reach run cap rel ops).w x.id ∧
      (∀ c : Comp, valOf (reach run cap rel (ops ++ [.del g])).w x.id c =
        valOf (reach run cap rel ops).w x.id c) ∧
      (∀ c : Comp, targetOf (reach run cap rel (ops ++ [.del g])).w x.id c =
        if targetOf (reach run cap rel ops).w x.id c = some g then some Ent.zero
        else targetOf (reach run cap rel ops).w x.id c) := by
  obtain ⟨fl, h⟩ := reach_hinv run cap rel ops (by omega)
  obtain ⟨hi, ha, h2, hnf, hfg, _⟩ := h.live_facts hg
  have hgd : guard (reach run cap rel ops) (.del g) = true := by
    simp only [guard, decide_eq_true_eq]; exact hi
  have hlen' : (ops ++ [Op.del g]).length < 2 ^ 16 := by
    simp only [List.length_append, List.length_singleton]; exact hlen
  have hss : (reach run cap rel (ops ++ [.del g])).ss.ents =
      detach g (del (reach run cap rel ops).ss.ents g) := by
    rw [reach_snoc, step_of_guard hgd]
    simp only [specStep, hfg]
  have hnone : find (reach run cap rel (ops ++ [.del g])).ss.ents g = none := by
    rw [hss, find_detach, find_del_self h.ginv.live_nodup]; rfl
  obtain ⟨hnd', hiss', _⟩ := spec_handles_nodup run cap rel (ops ++ [.del g]) hlen'
  have hiss : g ∈ (reach run cap rel (ops ++ [.del g])).issued := by
    rw [reach_snoc, step_of_guard hgd]
    obtain ⟨r, w', hex⟩ := accepted run cap rel ops (.del g) hlen hgd ⟨eng, hfg⟩
    have hr : r = none := by
      simp only [exec] at hex
      cases hc : opRemoveEntity run g (reach run cap rel ops).w with
      | panic k w1 => rw [hc] at hex; cases hex
      | ok u w1 => rw [hc] at hex; injection hex with h1 _; exact h1.symm
    subst hr
    rw [hex]
    simp only [issuedAfter, retOf]
    exact hi
  refine ⟨?_, hnone, ?_⟩
  · cases hal : (reach run cap rel (ops ++ [.del g])).w.alive g with
    | false => rfl
    | true =>
      have := (alive_iff_specified run cap rel (ops ++ [.del g]) hlen' g hiss).mp hal
      exact absurd this (find_none_iff.mp hnone)
  · intro x en hx hne
    have hfx : find (reach run cap rel ops).ss.ents x = some en := find_of_mem h.ginv.live_nodup hx
    have hm' : (x, en.detach g) ∈ (reach run cap rel (ops ++ [.del g])).ss.ents := by
      apply find_some_mem
      rw [hss, find_detach, find_del_ne _ hne, hfx]; rfl
    obtain ⟨c1, v1, t1⟩ := read_entry run cap rel ops (by omega) hx
    obtain ⟨c2, v2, t2⟩ := read_entry run cap rel (ops ++ [.del g]) hlen' hm'
    obtain ⟨_, _, _, _, _, r1, _⟩ := refines run cap rel ops (by omega) x en hx
    obtain ⟨_, _, _, _, _, r2, _⟩ := refines run cap rel (ops ++ [.del g]) hlen' x _ hm'
    refine ⟨hm', ?_, fun c => ?_, fun c => ?_⟩
    · rw [c1, c2]
      exact congrArg some (Refine.sortedIds_eq_of_bound r1 r2)
    · rw [v1, v2]; rfl
    · rw [t1, t2]
      show ((en.rels.map (zeroRel g)).find? (fun r => r.comp == c)).map (·.target) = _
      rw [List.find?_map]
      have hfun : ((fun r : RelID => r.comp == c) ∘ zeroRel g) = fun r : RelID => r.comp == c := by
        funext r; simp only [Function.comp, zeroRel_comp]
      rw [hfun]
      cases hfc : en.rels.find? (fun r => r.comp == c) with
      | none => simp
      | some r =>
        simp only [Option.map_some, zeroRel_target]
        by_cases hrt : r.target = g
        · rw [if_pos hrt, if_pos (by rw [hrt])]
        · rw [if_neg hrt, if_neg (fun hh => hrt (Option.some.inj hh))]

/-! ## the target last assigned -/

/-- **new_assigns** — a valid `new p ids vals rels` returns a handle `e'` never returned before;
    the new entity is alive, has exactly the components `ids`, every component reads the last
    value written to it (zero if none; a zero-size component always zero), and every relation
    component has the target given -/
theorem new_assigns (ops : List Op) (p : Path) (ids : List Comp) (vals : Comps) (rels : Rels)
    (hlen : ops.length + 1 < 2 ^ 16)
    (hg : guard (reach run cap rel ops) (.new p ids vals rels) = true)
    (hp : NewOK (reach run cap rel ops).ss ids rels) :
    ∃ e' : Ent, e' ∉ (reach run cap rel ops).issued ∧
      (reach run cap rel (ops ++ [.new p ids vals rels])).issued = e' :: (reach run cap rel ops).issued ∧
      (reach run cap rel (ops ++ [.new p ids vals rels])).ss.ents =
        (e', ⟨writeComps (reach run cap rel ops).ss.zst vals (zeros ids), rels⟩) ::
          (reach run cap rel ops).ss.ents ∧
      (reach run cap rel (ops ++ [.new p ids vals rels])).w.alive e' = true ∧
      compsOf (reach run cap rel (ops ++ [.new p ids vals rels])).w e'.id =
        some (sortedIds (reach run cap rel (ops ++ [.new p ids vals rels])).w.kinds.length ids) ∧
      (∀ c ∈ ids, valOf (reach run cap rel (ops ++ [.new p ids vals rels])).w e'.id c =
        some (if (reach run cap rel ops).ss.zst.getD c false = true then 0
              else (lastVal vals c).getD 0)) ∧
      (∀ r ∈ rels, targetOf (reach run cap rel (ops ++ [.new p ids vals rels])).w e'.id r.comp =
        some r.target) := by
  obtain ⟨r, w', hex, hst, hfresh⟩ := step_spec run cap rel ops (.new p ids vals rels) hlen hg hp
  obtain ⟨e', rfl⟩ := exec_new_ret run hex
  have hst' : reach run cap rel (ops ++ [.new p ids vals rels]) =
      ⟨w', e' :: (reach run cap rel ops).issued,
        ⟨(e', ⟨writeComps (reach run cap rel ops).ss.zst vals (zeros ids), rels⟩) ::
          (reach run cap rel ops).ss.ents, (reach run cap rel ops).ss.zst,
          (reach run cap rel ops).ss.isRel⟩⟩ := by
    rw [hst]
    simp only [consOpt, specStep, if_pos hp, Option.getD_some]
  have hlen' : (ops ++ [Op.new p ids vals rels]).length < 2 ^ 16 := by
    simp only [List.length_append, List.length_singleton]; exact hlen
  have hm1 : (e', ⟨writeComps (reach run cap rel ops).ss.zst vals (zeros ids), rels⟩) ∈
      (reach run cap rel (ops ++ [.new p ids vals rels])).ss.ents := by
    rw [hst']; exact List.mem_cons_self
  obtain ⟨a1, c1, v1, t1, _⟩ := refines run cap rel _ hlen' e' _ hm1
  have hk : keys (writeComps (reach run cap rel ops).ss.zst vals (zeros ids)) = ids := by
    rw [Refine.keys_writeComps, Refine.keys_zeros]
  refine ⟨e', hfresh e' rfl, by rw [hst'], by rw [hst'], a1, by rw [c1, hk], ?_, t1⟩
  intro c hc
  have := v1 (c, if (reach run cap rel ops).ss.zst.getD c false = true then 0
      else applyVals 0 vals c)
    (List.mem_map.mpr ⟨(c, 0), List.mem_map.mpr ⟨c, hc, rfl⟩, rfl⟩)
  rw [this, applyVals_eq_lastVal]

/-- **add_assigns** — after a valid `add p e ids vals rels`: every relation component added has
    the target given, every relation component `e` had keeps its target; the component set is the
    old one with `ids`; an added component reads the last value written to it (zero if none), an
    old one the last value written to it, else its old value -/
theorem add_assigns (ops : List Op) (p : Path) (e : Ent) (ids : List Comp) (vals : Comps)
    (rels : Rels) (hlen : ops.length + 1 < 2 ^ 16) (en : Entry)
    (hm : (e, en) ∈ (reach run cap rel ops).ss.ents)
    (hg : guard (reach run cap rel ops) (.add p e ids vals rels) = true)
    (hp : AddOK (reach run cap rel ops).ss en ids rels) :
    (e, ⟨writeComps (reach run cap rel ops).ss.zst vals (en.comps ++ zeros ids), en.rels ++ rels⟩) ∈
      (reach run cap rel (ops ++ [.add p e ids vals rels])).ss.ents ∧
    (∀ r ∈ rels, targetOf (reach run cap rel (ops ++ [.add p e ids vals rels])).w e.id r.comp =
      some r.target) ∧
    (∀ r ∈ en.rels, targetOf (reach run cap rel (ops ++ [.add p e ids vals rels])).w e.id r.comp =
      some r.target) ∧
    compsOf (reach run cap rel (ops ++ [.add p e ids vals rels])).w e.id =
      some (sortedIds (reach run cap rel (ops ++ [.add p e ids vals rels])).w.kinds.length
        (keys en.comps ++ ids)) ∧
    (∀ c ∈ ids, valOf (reach run cap rel (ops ++ [.add p e ids vals rels])).w e.id c =
      some (if (reach run cap rel ops).ss.zst.getD c false = true then 0
            else (lastVal vals c).getD 0)) ∧
    (∀ (c : Comp) (v : Val), (c, v) ∈ en.comps →
      valOf (reach run cap rel (ops ++ [.add p e ids vals rels])).w e.id c =
        some (if (reach run cap rel ops).ss.zst.getD c false = true then v
              else (lastVal vals c).getD v)) := by
  obtain ⟨fl, h⟩ := reach_hinv run cap rel ops (by omega)
  have hf : find (reach run cap rel ops).ss.ents e = some en := find_of_mem h.ginv.live_nodup hm
  obtain ⟨r, w', hex, hst, _⟩ := step_spec run cap rel ops (.add p e ids vals rels) hlen hg
    ⟨en, hf, hp⟩
  have hlen' : (ops ++ [Op.add p e ids vals rels]).length < 2 ^ 16 := by
    simp only [List.length_append, List.length_singleton]; exact hlen
  have hm' : (e, ⟨writeComps (reach run cap rel ops).ss.zst vals (en.comps ++ zeros ids),
      en.rels ++ rels⟩) ∈ (reach run cap rel (ops ++ [.add p e ids vals rels])).ss.ents := by
    rw [hst]
    apply find_some_mem
    simp only [specStep, hf, if_pos hp]
    exact find_upd_self _ hf
  obtain ⟨_, c2, v2, t2, _⟩ := refines run cap rel _ hlen' e _ hm'
  have hk : keys (writeComps (reach run cap rel ops).ss.zst vals (en.comps ++ zeros ids)) =
      keys en.comps ++ ids := by
    rw [Refine.keys_writeComps, Refine.keys_append, Refine.keys_zeros]
  refine ⟨hm', fun r hr => t2 r (List.mem_append_right _ hr),
    fun r hr => t2 r (List.mem_append_left _ hr), by rw [c2, hk], ?_, ?_⟩
  · intro c hc
    have := v2 (c, if (reach run cap rel ops).ss.zst.getD c false = true then 0
        else applyVals 0 vals c)
      (List.mem_map.mpr ⟨(c, 0), List.mem_append_right _ (List.mem_map.mpr ⟨c, hc, rfl⟩), rfl⟩)
    rw [this, applyVals_eq_lastVal]
  · intro c v hc
    have := v2 (c, if (reach run cap rel ops).ss.zst.getD c false = true then v
        else applyVals v vals c)
      (List.mem_map.mpr ⟨(c, v), List.mem_append_left _ hc, rfl⟩)
    rw [this, applyVals_eq_lastVal]

/-- **setrel_assigns** — after a valid `setrel p e rels`: every relation component named has the
    target given, every other relation component of `e` keeps its target, and `e` keeps its
    component set and all its values -/
theorem setrel_assigns (ops : List Op) (p : Path) (e : Ent) (rels : Rels)
    (hlen : ops.length + 1 < 2 ^ 16) (en : Entry)
    (hm : (e, en) ∈ (reach run cap rel ops).ss.ents)
    (hg : guard (reach run cap rel ops) (.setrel p e rels) = true)
    (hp : SetRelOK (reach run cap rel ops).ss en rels) :
    (e, { en with rels := setRels en.rels rels }) ∈
      (reach run cap rel (ops ++ [.setrel p e rels])).ss.ents ∧
    (∀ r ∈ rels, targetOf (reach run cap rel (ops ++ [.setrel p e rels])).w e.id r.comp =
      some r.target) ∧
    (∀ r ∈ en.rels, (∀ r' ∈ rels, r'.comp ≠ r.comp) →
      targetOf (reach run cap rel (ops ++ [.setrel p e rels])).w e.id r.comp = some r.target) ∧
    compsOf (reach run cap rel (ops ++ [.setrel p e rels])).w e.id =
      compsOf (reach run cap rel ops).w e.id ∧
    (∀ c : Comp, valOf (reach run cap rel (ops ++ [.setrel p e rels])).w e.id c =
      valOf (reach run cap rel ops).w e.id c) := by
  obtain ⟨fl, h⟩ := reach_hinv run cap rel ops (by omega)
  have hf : find (reach run cap rel ops).ss.ents e = some en := find_of_mem h.ginv.live_nodup hm
  obtain ⟨r, w', hex, hst, _⟩ := step_spec run cap rel ops (.setrel p e rels) hlen hg ⟨en, hf, hp⟩
  have hlen' : (ops ++ [Op.setrel p e rels]).length < 2 ^ 16 := by
    simp only [List.length_append, List.length_singleton]; exact hlen
  have hm' : (e, { en with rels := setRels en.rels rels }) ∈
      (reach run cap rel (ops ++ [.setrel p e rels])).ss.ents := by
    rw [hst]
    apply find_some_mem
    simp only [specStep, hf, if_pos hp]
    exact find_upd_self _ hf
  obtain ⟨_, _, _, t2, _⟩ := refines run cap rel _ hlen' e _ hm'
  obtain ⟨c1, v1, _⟩ := read_entry run cap rel ops (by omega) hm
  obtain ⟨c2, v2, _⟩ := read_entry run cap rel _ hlen' hm'
  obtain ⟨_, _, _, _, _, r1, _⟩ := refines run cap rel ops (by omega) e en hm
  obtain ⟨_, _, _, _, _, r2, _⟩ := refines run cap rel _ hlen' e _ hm'
  refine ⟨hm', fun r hr => t2 r (setRels_mem_new hp.2.1 hr (hp.2.2.1 r hr)), ?_, ?_,
    fun c => by rw [v1, v2]⟩
  · intro r hr hnot
    apply t2 r
    show r ∈ setRels en.rels rels
    simp only [setRels, List.mem_map]
    refine ⟨r, hr, ?_⟩
    have : rels.find? (fun r' => r'.comp == r.comp) = none := by
      apply List.find?_eq_none.mpr
      intro r' hr'
      simp only [beq_iff_eq]
      exact hnot r' hr'
    rw [this]
  · rw [c1, c2]
    exact congrArg some (Refine.sortedIds_eq_of_bound r1 r2)

/-- **rem_effect** — after a valid `rem p e ids` (`ids` non-empty, distinct, all of them
    components of `e`; relation components or not): the removed components are gone, with their
    targets; every component that stays keeps its value and — a relation component — its target;
    the component set is the old one without `ids` -/
theorem rem_effect (ops : List Op) (p : Path) (e : Ent) (ids : List Comp)
    (hlen : ops.length + 1 < 2 ^ 16) (en : Entry)
    (hm : (e, en) ∈ (reach run cap rel ops).ss.ents)
    (hv : ids ≠ [] ∧ ids.Nodup ∧ ∀ c ∈ ids, c ∈ keys en.comps) :
    (∀ c ∈ ids, valOf (reach run cap rel (ops ++ [.rem p e ids])).w e.id c = none ∧
      targetOf (reach run cap rel (ops ++ [.rem p e ids])).w e.id c = none) ∧
    (∀ (c : Comp) (v : Val), (c, v) ∈ en.comps → c ∉ ids →
      valOf (reach run cap rel (ops ++ [.rem p e ids])).w e.id c = some v) ∧
    (∀ r ∈ en.rels, r.comp ∉ ids →
      targetOf (reach run cap rel (ops ++ [.rem p e ids])).w e.id r.comp = some r.target) ∧
    compsOf (reach run cap rel (ops ++ [.rem p e ids])).w e.id =
      some (sortedIds (reach run cap rel (ops ++ [.rem p e ids])).w.kinds.length
        (keys (en.comps.filter fun cv => decide (cv.1 ∉ ids)))) := by
  obtain ⟨fl, h⟩ := reach_hinv run cap rel ops (by omega)
  obtain ⟨hi, _, _, _, hf, _⟩ := h.live_facts hm
  have hg : guard (reach run cap rel ops) (.rem p e ids) = true := by
    simp only [guard, decide_eq_true_eq]; exact hi
  obtain ⟨r, w', hex, hst, _⟩ := step_spec run cap rel ops (.rem p e ids) hlen hg ⟨en, hf, hv⟩
  have hlen' : (ops ++ [Op.rem p e ids]).length < 2 ^ 16 := by
    simp only [List.length_append, List.length_singleton]; exact hlen
  have hm' : (e, ⟨en.comps.filter fun cv => decide (cv.1 ∉ ids),
      en.rels.filter fun r => decide (r.comp ∉ ids)⟩) ∈
      (reach run cap rel (ops ++ [.rem p e ids])).ss.ents := by
    rw [hst]
    apply find_some_mem
    simp only [specStep, hf, if_pos hv]
    exact find_upd_self _ hf
  obtain ⟨_, c2, v2, t2, _⟩ := refines run cap rel _ hlen' e _ hm'
  refine ⟨?_, ?_, ?_, c2⟩
  · intro c hc
    obtain ⟨a1, a2⟩ := refines_absent run cap rel _ hlen' e _ hm' c
    constructor
    · apply a1
      intro hk
      exact (Refine.mem_keys_filter.mp hk).2 hc
    · apply a2
      intro hk
      obtain ⟨r, hr, hrc⟩ := List.mem_map.mp hk
      have := (List.mem_filter.mp hr).2
      simp only [decide_eq_true_eq] at this
      exact this (hrc ▸ hc)
  · intro c v hc hnot
    exact v2 (c, v) (List.mem_filter.mpr ⟨hc, by simpa using hnot⟩)
  · intro r hr hnot
    exact t2 r (List.mem_filter.mpr ⟨hr, by simpa using hnot⟩)

/-- **set_writes** — after a valid `set e vals`: every component of `e` reads the LAST value
    `vals` gives it, its previous value if `vals` does not mention it (a zero-size component is not
    written); the component set and all targets of `e` are kept -/
theorem set_writes (ops : List Op) (e : Ent) (vals : Comps) (hlen : ops.length + 1 < 2 ^ 16)
    (en : Entry) (hm : (e, en) ∈ (reach run cap rel ops).ss.ents)
    (hv : ∀ cv ∈ vals, cv.1 ∈ keys en.comps) :
    (∀ (c : Comp) (v : Val), (c, v) ∈ en.comps →
      valOf (reach run cap rel (ops ++ [.set e vals])).w e.id c =
        some (if (reach run cap rel ops).ss.zst.getD c false = true then v
              else (lastVal vals c).getD v)) ∧
    compsOf (reach run cap rel (ops ++ [.set e vals])).w e.id =
      compsOf (reach run cap rel ops).w e.id ∧
    (∀ c : Comp, targetOf (reach run cap rel (ops ++ [.set e vals])).w e.id c =
      targetOf (reach run cap rel ops).w e.id c) := by
  obtain ⟨fl, h⟩ := reach_hinv run cap rel ops (by omega)
  obtain ⟨hi, _, _, _, hf, _⟩ := h.live_facts hm
  have hg : guard (reach run cap rel ops) (.set e vals) = true := by
    simp only [guard, decide_eq_true_eq]; exact hi
  obtain ⟨r, w', hex, hst, _⟩ := step_spec run cap rel ops (.set e vals) hlen hg ⟨en, hf, hv⟩
  have hlen' : (ops ++ [Op.set e vals]).length < 2 ^ 16 := by
    simp only [List.length_append, List.length_singleton]; exact hlen
  have hm' : (e, { en with comps := writeComps (reach run cap rel ops).ss.zst vals en.comps }) ∈
      (reach run cap rel (ops ++ [.set e vals])).ss.ents := by
    rw [hst]
    apply find_some_mem
    simp only [specStep, hf, if_pos hv]
    exact find_upd_self _ hf
  obtain ⟨_, _, v2, _, _⟩ := refines run cap rel _ hlen' e _ hm'
  obtain ⟨c1, _, t1⟩ := read_entry run cap rel ops (by omega) hm
  obtain ⟨c2, _, t2⟩ := read_entry run cap rel _ hlen' hm'
  obtain ⟨_, _, _, _, _, r1, _⟩ := refines run cap rel ops (by omega) e en hm
  obtain ⟨_, _, _, _, _, r2, _⟩ := refines run cap rel _ hlen' e _ hm'
  refine ⟨?_, ?_, fun c => by rw [t1, t2]⟩
  · intro c v hc
    have := v2 (c, if (reach run cap rel ops).ss.zst.getD c false = true then v
        else applyVals v vals c) (List.mem_map.mpr ⟨(c, v), hc, rfl⟩)
    rw [this, applyVals_eq_lastVal]
  · rw [c1, c2]
    show some (sortedIds _ (keys (writeComps _ vals en.comps))) = _
    rw [Refine.keys_writeComps]
    have r2' : ∀ c ∈ keys en.comps, c < (reach run cap rel (ops ++ [.set e vals])).w.kinds.length := by
      intro c hc
      apply r2
      show c ∈ keys (writeComps _ vals en.comps)
      rw [Refine.keys_writeComps]; exact hc
    exact congrArg some (Refine.sortedIds_eq_of_bound r1 r2')

/-- the relation `r` of `x`'s entry survives the specification step of any operation other than
    `del` that does not re-assign its component (`fresh ≠ x`: the handle returned is new) -/
theorem specStep_keeps_rel (ss : SS) (fresh : Ent) (op : Op) {x : Ent} {en : Entry} {r : RelID}
    (hf : find ss.ents x = some en) (hr : r ∈ en.rels) (hd : op.isDel = false)
    (hs : ∀ p rels', op = .setrel p x rels' → ∀ r' ∈ rels', r'.comp ≠ r.comp)
    (hrm : ∀ p ids', op = .rem p x ids' → r.comp ∉ ids')
    (hfr : ∀ p ids vals rels, op = .new p ids vals rels → fresh ≠ x) :
    ∃ en', find (specStep ss fresh op).ents x = some en' ∧ r ∈ en'.rels := by
  cases op with
  | reg size z ir => simp only [specStep]; split <;> exact ⟨en, hf, hr⟩
  | new p ids vals rels =>
    simp only [specStep]
    split
    · exact ⟨en, by simp only [find, if_neg (hfr p ids vals rels rfl)]; exact hf, hr⟩
    · exact ⟨en, hf, hr⟩
  | add p e ids vals rels =>
    simp only [specStep]
    cases hfe : find ss.ents e with
    | none => exact ⟨en, hf, hr⟩
    | some en0 =>
      simp only
      split
      · by_cases hxe : x = e
        · subst hxe
          rw [hf] at hfe
          obtain rfl := Option.some.inj hfe
          exact ⟨_, find_upd_self (fun en =>
            ⟨writeComps ss.zst vals (en.comps ++ zeros ids), en.rels ++ rels⟩) hf,
            List.mem_append_left _ hr⟩
        · exact ⟨en, by dsimp only; rw [find_upd_ne _ _ hxe]; exact hf, hr⟩
      · exact ⟨en, hf, hr⟩
  | rem p e ids =>
    simp only [specStep]
    cases hfe : find ss.ents e with
    | none => exact ⟨en, hf, hr⟩
    | some en0 =>
      simp only
      split
      · by_cases hxe : x = e
        · subst hxe
          rw [hf] at hfe
          obtain rfl := Option.some.inj hfe
          exact ⟨_, find_upd_self (fun en =>
            ⟨en.comps.filter fun cv => decide (cv.1 ∉ ids),
              en.rels.filter fun r => decide (r.comp ∉ ids)⟩) hf,
            List.mem_filter.mpr ⟨hr, by simpa using hrm p ids rfl⟩⟩
        · exact ⟨en, by dsimp only; rw [find_upd_ne _ _ hxe]; exact hf, hr⟩
      · exact ⟨en, hf, hr⟩
  | setrel p e rels =>
    simp only [specStep]
    cases hfe : find ss.ents e with
    | none => exact ⟨en, hf, hr⟩
    | some en0 =>
      simp only
      split
      · by_cases hxe : x = e
        · subst hxe
          rw [hf] at hfe
          obtain rfl := Option.some.inj hfe
          refine ⟨_, find_upd_self (fun en => { en with rels := setRels en.rels rels }) hf, ?_⟩
          show r ∈ setRels en.rels rels
          simp only [setRels, List.mem_map]
          refine ⟨r, hr, ?_⟩
          have : rels.find? (fun r' => r'.comp == r.comp) = none := by
            apply List.find?_eq_none.mpr
            intro r' hr'
            simp only [beq_iff_eq]
            exact hs p rels rfl r' hr'
          rw [this]
        · exact ⟨en, by dsimp only; rw [find_upd_ne _ _ hxe]; exact hf, hr⟩
      · exact ⟨en, hf, hr⟩
  | set e vals =>
    simp only [specStep]
    cases hfe : find ss.ents e with
    | none => exact ⟨en, hf, hr⟩
    | some en0 =>
      simp only
      split
      · by_cases hxe : x = e
        · subst hxe
          rw [hf] at hfe
          obtain rfl := Option.some.inj hfe
          exact ⟨_, find_upd_self (fun en =>
            { en with comps := writeComps ss.zst vals en.comps }) hf, hr⟩
        · exact ⟨en, by dsimp only; rw [find_upd_ne _ _ hxe]; exact hf, hr⟩
      · exact ⟨en, hf, hr⟩
  | del e => cases hd

/-- **target_stays** — "it is the target last assigned, until that target is removed": a target
    the specification records for `x` is still read after any operation that is not a `del`, not
    a `setrel` on `x` naming that relation component and not a `rem` on `x` removing it — whatever
    entity the operation is about, also `x` itself (`set`, `add`, `setrel` / `rem` of other
    components), valid or rejected -/
theorem target_stays (ops : List Op) (op : Op) (hlen : ops.length + 1 < 2 ^ 16) (x : Ent)
    (en : Entry) (hm : (x, en) ∈ (reach run cap rel ops).ss.ents) (r : RelID) (hr : r ∈ en.rels)
    (hd : op.isDel = false)
    (hs : ∀ p rels', op = .setrel p x rels' → ∀ r' ∈ rels', r'.comp ≠ r.comp)
    (hrm : ∀ p ids', op = .rem p x ids' → r.comp ∉ ids') :
    targetOf (reach run cap rel (ops ++ [op])).w x.id r.comp = some r.target := by
  obtain ⟨fl, h⟩ := reach_hinv run cap rel ops (by omega)
  have hf : find (reach run cap rel ops).ss.ents x = some en := find_of_mem h.ginv.live_nodup hm
  have hlen' : (ops ++ [op]).length < 2 ^ 16 := by
    simp only [List.length_append, List.length_singleton]; exact hlen
  by_cases hgp : guard (reach run cap rel ops) op = true ∧ pre (reach run cap rel ops).ss op
  · obtain ⟨ret, w', hex, hst, hfresh⟩ := step_spec run cap rel ops op hlen hgp.1 hgp.2
    obtain ⟨en', hf', hr'⟩ := specStep_keeps_rel (reach run cap rel ops).ss (ret.getD default) op
      hf hr hd hs hrm (by
        intro p ids vals rels hop
        subst hop
        obtain ⟨e, rfl⟩ := exec_new_ret run hex
        intro hh
        simp only [Option.getD_some] at hh
        exact hfresh e rfl (hh ▸ (h.live_facts hm).1))
    have hm' : (x, en') ∈ (reach run cap rel (ops ++ [op])).ss.ents := by
      rw [hst]; exact find_some_mem hf'
    exact (refines run cap rel _ hlen' x en' hm').2.2.2.1 r hr'
  · rw [reach_snoc_same run cap rel ops op hlen hgp]
    exact (refines run cap rel ops (by omega) x en hm).2.2.2.1 r hr

/-! ## a dead target is never accepted -/

/-- a handle that was issued and has no entry is dead -/
theorem dead_of_unspecified (ops : List Op) (hlen : ops.length < 2 ^ 16) (h : Ent)
    (hi : h ∈ (reach run cap rel ops).issued)
    (hn : find (reach run cap rel ops).ss.ents h = none) :
    (reach run cap rel ops).w.alive h = false := by
  cases ha : (reach run cap rel ops).w.alive h with
  | false => rfl
  | true =>
    exact absurd ((alive_iff_specified run cap rel ops hlen h hi).mp ha) (find_none_iff.mp hn)

/-- **dead target, `NewEntity`** — in every reachable state, through ANY path, whether or not
    the target is a handle the client was given: a `NewEntity` with well-formed relation
    arguments that names a dead target is not accepted -/
theorem dead_target_not_accepted_new (ops : List Op) (hlen : ops.length + 1 < 2 ^ 16) (p : Path)
    (ids : List Comp) (vals : Comps) (rels : Rels)
    (hreg : ∀ c ∈ ids, c < (reach run cap rel ops).ss.zst.length)
    (hwf : RelsWF (reach run cap rel ops).ss.isRel ids rels)
    (hd : ∃ r ∈ rels, r.target.isZero = false ∧ (reach run cap rel ops).w.alive r.target = false)
    (e : Ent) (w' : World) :
    opNewEntity run p ids vals rels (reach run cap rel ops).w ≠ .ok e w' := by
  obtain ⟨fl, h⟩ := reach_hinv run cap rel ops (by omega)
  obtain ⟨hfew, hent⟩ := reach_fits run cap rel ops hlen
  intro hok
  obtain ⟨r, hr, h1, h2⟩ := hd
  have post := opNewEntity_rel_valid run p h.tinv h.unlocked h.noObs
    (fun c hc => by rw [← h.zlen]; exact hreg c hc) hwf.1 (fun r hr => (hwf.2.1 r hr).1)
    (fun r hr => by rw [← h.rget]; exact (hwf.2.1 r hr).2) (by omega) (by omega) hok
  rcases post r hr with h3 | h3
  · rw [h1] at h3; cases h3
  · rw [h2] at h3; cases h3

/-- **dead target, `Add`** -/
theorem dead_target_not_accepted_add (ops : List Op) (hlen : ops.length + 1 < 2 ^ 16) (p : Path)
    (x : Ent) (en : Entry) (hm : (x, en) ∈ (reach run cap rel ops).ss.ents)
    (ids : List Comp) (vals : Comps) (rels : Rels)
    (hreg : ∀ c ∈ ids, c < (reach run cap rel ops).ss.zst.length)
    (hwf : RelsWF (reach run cap rel ops).ss.isRel ids rels)
    (hd : ∃ r ∈ rels, r.target.isZero = false ∧ (reach run cap rel ops).w.alive r.target = false)
    (w' : World) :
    opAdd run p x ids vals rels (reach run cap rel ops).w ≠ .ok () w' := by
  obtain ⟨fl, h⟩ := reach_hinv run cap rel ops (by omega)
  obtain ⟨hfew, hent⟩ := reach_fits run cap rel ops hlen
  obtain ⟨_, ha, h2', hnf, _, hsl⟩ := h.live_facts hm
  intro hok
  obtain ⟨r, hr, h1, h2⟩ := hd
  have post := opAdd_rel_valid run p h.tinv h.unlocked h.noObs h2' hnf ha (Pool.lt_of_slot hsl)
    (fun c hc => by rw [← h.zlen]; exact hreg c hc) hwf.1 (fun r hr => (hwf.2.1 r hr).1)
    (fun r hr => by rw [← h.rget]; exact (hwf.2.1 r hr).2) (by omega) (by omega) hok
  rcases post r hr with h3 | h3
  · rw [h1] at h3; cases h3
  · rw [h2] at h3; cases h3

/-- **dead target, `SetRelations`** -/
theorem dead_target_not_accepted_setrel (ops : List Op) (hlen : ops.length + 1 < 2 ^ 16) (p : Path)
    (x : Ent) (en : Entry) (hm : (x, en) ∈ (reach run cap rel ops).ss.ents)
    (mapperIds : List Comp) (rels : Rels) (hne : rels ≠ []) (hnd : (rels.map (·.comp)).Nodup)
    (hhas : ∀ r ∈ rels, r.comp ∈ en.rels.map (·.comp))
    (hd : ∃ r ∈ rels, r.target.isZero = false ∧ (reach run cap rel ops).w.alive r.target = false)
    (w' : World) :
    opSetRelations run p x mapperIds rels (reach run cap rel ops).w ≠ .ok () w' := by
  obtain ⟨fl, h⟩ := reach_hinv run cap rel ops (by omega)
  obtain ⟨hfew, hent⟩ := reach_fits run cap rel ops hlen
  obtain ⟨_, ha, h2', hnf, _, hsl⟩ := h.live_facts hm
  intro hok
  obtain ⟨r, hr, h1, h2⟩ := hd
  have hemp : rels.isEmpty = false := by
    cases rels with
    | nil => exact absurd rfl hne
    | cons _ _ => rfl
  have post := opSetRelations_valid run p h.tinv h.unlocked h.noObs h2' hnf ha (Pool.lt_of_slot hsl)
    hemp hnd (fun r hr => (h.target_isSome_iff hm r.comp).mpr (hhas r hr)) (by omega) (by omega) hok
  rcases post r hr with h3 | h3
  · rw [h1] at h3; cases h3
  · rw [h2] at h3; cases h3

/-! ## through any access path -/

/-- the same operation through the access path `q` (operations without a path are unchanged) -/
def Op.withPath (q : Path) : Op → Op
  | .new _ ids vals rels => .new q ids vals rels
  | .add _ e ids vals rels => .add q e ids vals rels
  | .rem _ e ids => .rem q e ids
  | .setrel _ e rels => .setrel q e rels
  | op => op

/-- **any access path** — a valid step gives the same result (world, returned handle) through
    `Unsafe…`, `Map…` and `MapN…`, it is a step through each of them, and the machine reaches the
    same state: all the theorems hold whichever path each valid operation of a history takes.
    (Rejected calls differ in the class of the panic only.) -/
theorem any_access_path (ops : List Op) (op : Op) (q : Path) (hlen : ops.length + 1 < 2 ^ 16)
    (hg : guard (reach run cap rel ops) op = true) (hp : pre (reach run cap rel ops).ss op) :
    guard (reach run cap rel ops) (op.withPath q) = true ∧
    exec run (reach run cap rel ops).w (op.withPath q) = exec run (reach run cap rel ops).w op ∧
    reach run cap rel (ops ++ [op.withPath q]) = reach run cap rel (ops ++ [op]) := by
  obtain ⟨fl, H⟩ := reach_hinv run cap rel ops (by omega)
  have key : guard (reach run cap rel ops) (op.withPath q) = true ∧
      exec run (reach run cap rel ops).w (op.withPath q) = exec run (reach run cap rel ops).w op := by
    cases op with
    | reg size z ir => exact ⟨hg, rfl⟩
    | set e vals => exact ⟨hg, rfl⟩
    | del e => exact ⟨hg, rfl⟩
    | new p ids vals rels =>
      have hg' : ((∀ c ∈ ids, c < (reach run cap rel ops).ss.zst.length) ∧
          RelsStep (reach run cap rel ops).ss.isRel p ids rels) ∧
          tgtsExpr (reach run cap rel ops) rels = true := by
        simpa only [guard, Bool.and_eq_true, List.all_eq_true, decide_eq_true_eq] using hg
      obtain ⟨⟨hreg, _⟩, hx⟩ := hg'
      obtain ⟨hnd, _, hwf, hv⟩ := hp
      refine ⟨?_, ?_⟩
      · simp only [Op.withPath, guard, Bool.and_eq_true, List.all_eq_true, decide_eq_true_eq]
        exact ⟨⟨hreg, hwf.relsStep q⟩, hx⟩
      · simp only [Op.withPath, exec]
        rw [opNewEntity_rel_path_indep run q p H.tinv H.unlocked H.noObs hnd
          (fun c hc => by rw [← H.zlen]; exact hreg c hc) hwf.1 (fun r hr => (hwf.2.1 r hr).1)
          (fun r hr => by rw [← H.rget]; exact (hwf.2.1 r hr).2)
          (fun c hc hr => hwf.2.2 c hc (by rw [H.rget]; exact hr)) (H.targets_alive hv)]
    | add p e ids vals rels =>
      have hg' : ((e ∈ (reach run cap rel ops).issued ∧
          ∀ c ∈ ids, c < (reach run cap rel ops).ss.zst.length) ∧
          RelsStep (reach run cap rel ops).ss.isRel p ids rels) ∧
          tgtsExpr (reach run cap rel ops) rels = true := by
        simpa only [guard, Bool.and_eq_true, List.all_eq_true, decide_eq_true_eq] using hg
      obtain ⟨⟨⟨hi, hreg⟩, _⟩, hx⟩ := hg'
      obtain ⟨en, hf, ⟨hne, hnd, hall⟩, hwf, hv⟩ := hp
      have hm := find_some_mem hf
      obtain ⟨_, ha, h2, hnf, _, hsl0⟩ := H.live_facts hm
      have hsl := Pool.lt_of_slot hsl0
      have ok := H.ok e en hm
      refine ⟨?_, ?_⟩
      · simp only [Op.withPath, guard, Bool.and_eq_true, List.all_eq_true, decide_eq_true_eq]
        exact ⟨⟨⟨hi, hreg⟩, hwf.relsStep q⟩, hx⟩
      · simp only [Op.withPath, exec]
        rw [opAdd_rel_path_indep run q p H.tinv H.unlocked H.noObs h2 hnf ha hsl hne hnd
          (fun c hc => by rw [← H.zlen]; exact hreg c hc)
          (fun c hc => by
            cases hgc : ((reach run cap rel ops).w.maskOf e).get c with
            | false => rfl
            | true =>
              exact absurd ((H.comps_iff hm c).mp
                ((H.tinv.mask_iff_comps h2 hnf ha hsl ok.comps c).mp hgc)) (hall c hc).2)
          hwf.1 (fun r hr => (hwf.2.1 r hr).1)
          (fun r hr => by rw [← H.rget]; exact (hwf.2.1 r hr).2)
          (fun c hc hr => hwf.2.2 c hc (by rw [H.rget]; exact hr)) (H.targets_alive hv)]
    | rem p e ids =>
      obtain ⟨en, hf, _⟩ := hp
      obtain ⟨_, ha, _⟩ := H.live_facts (find_some_mem hf)
      refine ⟨hg, ?_⟩
      simp only [Op.withPath, exec]
      rw [opRemove_eq run q e ids _ ha, opRemove_eq run p e ids _ ha]
    | setrel p e rels =>
      obtain ⟨en, hf, _, _, hhas, hv⟩ := hp
      have hm := find_some_mem hf
      have ok := H.ok e en hm
      refine ⟨hg, ?_⟩
      simp only [Op.withPath, exec]
      rw [opSetRelations_path_indep run q p e (H.targets_alive hv) (fun r hr => by
        obtain ⟨h1, h3⟩ := (ok.relKeys r.comp).mp (hhas r hr)
        exact ⟨by rw [← H.rget]; exact h3, H.reg256 (ok.reg r.comp h1)⟩)]
  refine ⟨key.1, key.2, ?_⟩
  have hsp : ∀ fresh, specStep (reach run cap rel ops).ss fresh (op.withPath q) =
      specStep (reach run cap rel ops).ss fresh op := by
    intro fresh; cases op <;> rfl
  rw [reach_snoc, reach_snoc, step_of_guard key.1, step_of_guard hg, key.2]
  simp only [hsp]

end RelRefine

end Ark
