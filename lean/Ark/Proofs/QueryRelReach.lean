/-
  Ark.Proofs.QueryRelReach — property C03 with RELATION TARGETS, part 7: over histories.

  `Reach run w` — the world `w` is reached from `NewWorld` by accepted calls of
  `registerComponent`, `NewEntity(ids…, rels…)`, `RemoveEntity` (of relation targets too),
  `SetRelations`, `Add(ids…, rels…)` (the operations of `Ark.Props.C04World`, under the hypotheses
  of their `Good.*` theorems — among them: the relation targets named have IDs inside the pool
  slice, which every handle a world issued has) and complete iterations of queries with relation
  targets.

  `reach_qgood` — every such world is `QGood` and has no registered filter; hence
  `reach_query` (an unregistered filter visits exactly the alive matching entities) and
  `reach_query_cached` (so does a filter registered in that world, through the cache).
  Kernel-only proofs, core Lean only.
-/
import Ark.Proofs.QueryRelAssign

set_option autoImplicit false

namespace Ark
namespace QueryRel

open World Drain Ark.Props.C01World QueryExact

/-- the side conditions of a query: unregistered filter object whose mask requires its type
    parameters, per-call relations accepted by `preCheckTyped` when the filter is typed, all
    relations name relation components required by the mask -/
structure QueryOK (w : World) (fo : FilterObj) (extra : List RelID) : Prop where
  uncached : fo.cache = none
  filterOK : FilterOK fo
  extraOK : fo.typed = true → ExtraOK w fo.filter.mask extra
  relsTyped : RelsTyped w fo.filter (fo.rels ++ extra)

/-- **the worlds reached by histories** of the operations with relation targets and queries
    (`run` = the callback runner; no observer is ever registered, so it is not consulted) -/
inductive Reach (run : ProbeRunner) : World → Prop
  | init (cap rel : Nat) : Reach run (World.init cap rel)
  | reg {w : World} (k : CompKind) : Reach run w →
      panicOf (World.registerComponent k w) = none →
      Reach run (World.registerComponent k w).state
  | new {w : World} (p : Path) (ids : List Comp) (vals : List (Comp × Val)) (rels : List RelID) :
      Reach run w →
      (∀ (c : Comp), c ∈ ids → c < w.kinds.length) →
      (rels.map (·.comp)).Nodup → (∀ (r : RelID), r ∈ rels → r.comp ∈ ids) →
      (∀ (r : RelID), r ∈ rels → w.isRelComp r.comp = true) →
      (∀ (r : RelID), r ∈ rels → r.target.id < w.pool.ents.length) →
      w.tables.length < maxU32 → w.entities.length + 1 < 2 ^ 32 →
      panicOf (opNewEntity run p ids vals rels w) = none →
      Reach run (opNewEntity run p ids vals rels w).state
  | del {w : World} (g : Ent) : Reach run w →
      w.alive g = true → (w.index g.id).1 ≠ maxU32 → g.id < w.entities.length →
      w.tables.length + w.relationArchetypes.length + 1 ≤ maxU32 →
      2 * w.entities.length < 2 ^ 32 →
      Reach run (opRemoveEntity run g w).state
  | setRel {w : World} (p : Path) (e : Ent) (mapperIds : List Comp) (rels : List RelID) :
      Reach run w →
      w.alive e = true → (w.index e.id).1 ≠ maxU32 → e.id < w.entities.length →
      rels.isEmpty = false → (rels.map (·.comp)).Nodup →
      (∀ (r : RelID), r ∈ rels → (targetOf w e.id r.comp).isSome = true) →
      (∀ (r : RelID), r ∈ rels → r.target.id < w.pool.ents.length) →
      w.tables.length < maxU32 → w.entities.length + 1 < 2 ^ 32 →
      panicOf (opSetRelations run p e mapperIds rels w) = none →
      Reach run (opSetRelations run p e mapperIds rels w).state
  | add {w : World} (p : Path) (e : Ent) (ids : List Comp) (vals : List (Comp × Val))
      (rels : List RelID) : Reach run w →
      w.alive e = true → (w.index e.id).1 ≠ maxU32 → e.id < w.entities.length →
      (∀ (c : Comp), c ∈ ids → c < w.kinds.length) →
      (rels.map (·.comp)).Nodup → (∀ (r : RelID), r ∈ rels → r.comp ∈ ids) →
      (∀ (r : RelID), r ∈ rels → w.isRelComp r.comp = true) →
      (∀ (r : RelID), r ∈ rels → r.target.id < w.pool.ents.length) →
      w.tables.length < maxU32 → w.entities.length + 1 < 2 ^ 32 →
      panicOf (opAdd run p e ids vals rels w) = none →
      Reach run (opAdd run p e ids vals rels w).state
  | query {w : World} (fo : FilterObj) (extra : List RelID) : Reach run w →
      QueryOK w fo extra → Reach run (drain fo extra w).state

/-- the live ID behind an indexed handle (as in `Good.removeEntity`) -/
theorem live_of_indexed {w : World} {fl : List Nat} (ht : TInv w fl) {e : Ent}
    (hidx : (w.index e.id).1 ≠ maxU32) (hlt : e.id < w.entities.length) : 2 ≤ e.id ∧ e.id ∉ fl := by
  have hent : w.entities[e.id]? = some ((w.index e.id).1, (w.index e.id).2) := by
    simp only [World.index, List.getD_eq_getElem?_getD, List.getElem?_eq_getElem hlt,
      Option.getD_some]
  exact ht.link.indexed_live hent hidx

/-- **every reached world is `QGood` and has no registered filter** -/
theorem reach_qgood (run : ProbeRunner) {w : World} (r : Reach run w) : QGood w ∧ CacheEmpty w := by
  induction r with
  | init cap rel => exact ⟨qgood_init cap rel, rfl, rfl⟩
  | @reg w k _ hnp ih =>
    obtain ⟨g, he⟩ := ih
    refine ⟨g.registerComponent k hnp, ?_⟩
    obtain ⟨n, hr⟩ := ok_of_panicOf hnp
    obtain ⟨fl, ht, _, _⟩ := g.good
    exact (registerComponent_qkeep ht hr).cache he
  | @new w p ids vals rels _ hreg hnd hin hrc htin hfew hrows hnp ih =>
    obtain ⟨g, he⟩ := ih
    refine ⟨g.newEntity run p hreg hnd hin hrc htin hfew hrows hnp, ?_⟩
    obtain ⟨e, hok⟩ := ok_of_panicOf hnp
    obtain ⟨fl, ht, hl, hno⟩ := g.good
    exact (opNewEntity_qkeep run p ht hl hno hreg hnd hin hfew hrows hok).1.cache he
  | @del w e _ ha hidx hlt hfew hrows ih =>
    obtain ⟨g, he⟩ := ih
    refine ⟨(g.removeEntity run ha hidx hlt hfew hrows).2, ?_⟩
    obtain ⟨fl, ht, hl, hno⟩ := g.good
    obtain ⟨h2, hnf⟩ := live_of_indexed ht hidx hlt
    obtain ⟨w3, hst, q3, _⟩ := opRemoveEntity_qkeep run ht hl hno h2 hnf ha
      (by rw [← ht.link.lenEq]; exact hlt) hfew hrows
    rw [hst]; exact q3.cache he
  | @setRel w p e mids rels _ ha hidx hlt hne hnd hhas htin hfew hrows hnp ih =>
    obtain ⟨g, he⟩ := ih
    refine ⟨g.setRelations run p ha hidx hlt hne hnd hhas htin hfew hrows hnp, ?_⟩
    obtain ⟨u, hok⟩ := ok_of_panicOf hnp
    obtain ⟨fl, ht, hl, hno⟩ := g.good
    obtain ⟨h2, hnf⟩ := live_of_indexed ht hidx hlt
    exact (opSetRelations_qkeep run p ht hl hno h2 hnf ha
      (by rw [← ht.link.lenEq]; exact hlt) hne hnd hhas hrows hok).cache he
  | @add w p e ids vals rels _ ha hidx hlt hreg hnd hin hrc htin hfew hrows hnp ih =>
    obtain ⟨g, he⟩ := ih
    refine ⟨g.add run p ha hidx hlt hreg hnd hin hrc htin hfew hrows hnp, ?_⟩
    obtain ⟨u, hok⟩ := ok_of_panicOf hnp
    obtain ⟨fl, ht, hl, hno⟩ := g.good
    obtain ⟨h2, hnf⟩ := live_of_indexed ht hidx hlt
    exact (opAdd_qkeep run p ht hl hno h2 hnf ha
      (by rw [← ht.link.lenEq]; exact hlt) hreg hnd hin hrows hok).cache he
  | @query w fo extra _ hq ih =>
    obtain ⟨g, he⟩ := ih
    obtain ⟨l1, l2, q, visits, hd, g2, _⟩ :=
      g.query fo extra hq.uncached hq.filterOK hq.extraOK hq.relsTyped
    rw [hd]
    exact ⟨g2, he⟩

/-- **C03 with relation targets, over histories — unregistered filters**: after every history a
    query visits exactly the alive entities that match its filter and its relation targets, each
    once; the data and targets yielded are the entities' own; `Count` and `EntityAt` agree with
    the iteration; the world is unchanged up to the lock's bit pool. -/
theorem reach_query (run : ProbeRunner) {w : World} (r : Reach run w) (fo : FilterObj)
    (extra : List RelID) (hq : QueryOK w fo extra) :
    ∃ (l1 l2 : Lock) (q : QueryObj) (visits : List Visit),
      drain fo extra w = .ok visits (w.withLocks l2) ∧
      Observed w fo extra (w.withLocks l1) q visits := by
  obtain ⟨l1, l2, q, visits, hd, _, ob⟩ := (reach_qgood run r).1.query fo extra hq.uncached
    hq.filterOK hq.extraOK hq.relsTyped
  exact ⟨l1, l2, q, visits, hd, ob⟩

/-- **the same through the filter cache**: in a reached world, register a filter with fixed
    relations (whose ID the cache's ID pool hands out: ID 0, nothing is registered), then query
    through the entry with further per-call relations. -/
theorem reach_query_cached (run : ProbeRunner) {w : World} (r : Reach run w) (f : Filter)
    (rels : List RelID) (hr : RelsTyped w f rels) :
    ∃ (id : Nat) (w' : World), cacheRegister f rels w = .ok id w' ∧
      ∀ (fo : FilterObj) (extra : List RelID), fo.cache = some id → fo.filter = f →
        fo.rels = rels → (fo.typed = true → ExtraOK w' fo.filter.mask extra) →
        RelsTyped w' fo.filter (fo.rels ++ extra) →
        ∃ (l1 l2 : Lock) (q : QueryObj) (visits : List Visit),
          drain fo extra w' = .ok visits (w'.withLocks l2) ∧
          Observed w' fo extra (w'.withLocks l1) q visits := by
  obtain ⟨g, he⟩ := reach_qgood run r
  obtain ⟨w', ce, h1, g', hC', h4, h5, h6, _⟩ :=
    g.cacheRegister he.cacheInv f rels hr (by rw [he.1]; rfl)
  refine ⟨_, w', h1, ?_⟩
  intro fo extra hc hf hrl hpre hrt
  obtain ⟨l1, l2, q, visits, hd, _, _, ob⟩ :=
    g'.query_cached hC' fo extra hc h4 (by rw [h5, hf]) (by rw [h6, hrl]) hpre hrt
  exact ⟨l1, l2, q, visits, hd, ob⟩

end QueryRel
end Ark
