/-
  Ark.Proofs.RelExchange — C01 + C04 at world level: `Exchange(e, add, rem, rels)` in a world WITH
  relation components (`exchangeCore` / `opExchange`), part 1: normal forms.

  * `xchgRels` / `xchgRelRemoved` — the relation list `findOrCreateTable` hands to `GetTable` /
    `createTable` and its `relationRemoved` flag; `xchgRels_eq` (under the invariant: the relations of
    the old table on components that stay, then the given ones);
  * `findOrCreateTable_eq_add_rel` — `findOrCreateTable` (exchange) is the mask walk `graph.Find`
    followed by the lookup tail of `findOrCreateTableAdd` started at the root table with that list
    (so the building blocks of `Add` / `Remove` — `RelInv.lookup_total`,
    `RelInv.findOrCreateTableAdd'`, `movedTail` — apply);
  * `exchangeCore_rel_eq`, `opExchange_rel_eq` — `World.exchange` / `Exchange` without observers in
    normal form: lookup, move, flag the targets, write;
  * `exchangeCore_rel_panic`, `opExchange_rel_panic` — a panic of the lookup is the panic of the call.

  The specification is in `Ark/Proofs/RelExchangeSpec.lean`.
  Kernel-only proofs, core Lean only.
-/
import Ark.Proofs.RelRemove

set_option autoImplicit false

namespace Ark

open World Ark.Props.C01World

namespace World

/-- the relation list `findOrCreateTable` (exchange) hands to `GetTable` / `createTable`: `old` the
    entity's table, `m` the mask after the walk -/
def xchgRels (old : Table) (m : Mask) (rem : List Comp) (rels : List RelID) : List RelID :=
  if !rem.isEmpty then (old.relIDs.filter fun r => m.get r.comp) ++ rels else relsForAdd old rels

/-- the `relationRemoved` flag of `findOrCreateTable` -/
def xchgRelRemoved (old : Table) (m : Mask) (rem : List Comp) : Bool :=
  if !rem.isEmpty then old.relIDs.any fun r => !m.get r.comp else false

/-- when every listed relation of the old table stays unless something is removed, the list is:
    the old relations on components that stay, then the given ones -/
theorem xchgRels_eq (old : Table) (m : Mask) (rem : List Comp) (rels : List RelID)
    (h : rem = [] → ∀ (r : RelID), r ∈ old.relIDs → m.get r.comp = true) :
    xchgRels old m rem rels = (old.relIDs.filter fun r => m.get r.comp) ++ rels := by
  unfold xchgRels
  cases rem with
  | cons c rest => rfl
  | nil =>
    simp only [List.isEmpty_nil, Bool.not_true, Bool.false_eq_true, if_false]
    rw [relsForAdd_eq]
    congr 1
    symm
    apply List.filter_eq_self.2
    intro r hr
    exact h rfl r hr

/-- `findOrCreateTable` (exchange) = the mask walk, then the lookup tail of `findOrCreateTableAdd`
    from the root table (which lists no relation) with the list `xchgRels` -/
theorem findOrCreateTable_eq_add_rel (oldT : Nat) (startMask m : Mask) (add rem : List Comp)
    (rels : List RelID) (w : World)
    (hg : graphFind startMask startMask add rem w = .ok m w)
    (hroot : (w.tbl 0).relIDs = []) :
    findOrCreateTable oldT startMask add rem rels w =
      match findOrCreateTableAdd 0 m [] (xchgRels (w.tbl oldT) m rem rels) w with
      | .ok r w' => .ok (r.1, r.2.1, r.2.2, xchgRelRemoved (w.tbl oldT) m rem) w'
      | .panic k w' => .panic k w' := by
  obtain ⟨a, w1, ha⟩ := findOrCreateArch_never_panics m w
  have ht : ∀ (t : Nat), w1.tbl t = w.tbl t := fun t => by
    simp only [tbl, findOrCreateArch_tables ha]
  have hrf : relsForAdd (w.tbl 0) (xchgRels (w.tbl oldT) m rem rels) =
      xchgRels (w.tbl oldT) m rem rels := by
    rw [relsForAdd_eq, hroot, List.nil_append]
  cases hre : rem.isEmpty with
  | true =>
    have hx : xchgRels (w.tbl oldT) m rem rels = relsForAdd (w.tbl oldT) rels := by
      simp only [xchgRels, hre, Bool.not_true, Bool.false_eq_true, if_false]
    have hr : xchgRelRemoved (w.tbl oldT) m rem = false := by
      simp only [xchgRelRemoved, hre, Bool.not_true, Bool.false_eq_true, if_false]
    simp only [findOrCreateTable, findOrCreateTableAdd, bind, M.bind, hg, graphFindAdd,
      graphFindAdd.go, ha, M.get, ht, hrf, hre, Bool.not_true, Bool.false_eq_true, if_false]
    rw [hx, hr]
    cases hgt : getTable a (relsForAdd (w.tbl oldT) rels) w1 with
    | panic k s => rfl
    | ok r s =>
      cases r with
      | some t => rfl
      | none =>
        simp only
        cases hct : createTable a (relsForAdd (w.tbl oldT) rels) s with
        | panic k s2 => simp only [M.bind, hct]
        | ok t s2 => simp only [M.bind, hct, pure, M.pure]
  | false =>
    have hx : xchgRels (w.tbl oldT) m rem rels =
        ((w.tbl oldT).relIDs.filter fun r => m.get r.comp) ++ rels := by
      simp only [xchgRels, hre, Bool.not_false, if_true]
    have hr : xchgRelRemoved (w.tbl oldT) m rem = (w.tbl oldT).relIDs.any fun r => !m.get r.comp := by
      simp only [xchgRelRemoved, hre, Bool.not_false, if_true]
    simp only [findOrCreateTable, findOrCreateTableAdd, bind, M.bind, hg, graphFindAdd,
      graphFindAdd.go, ha, M.get, ht, hrf, hre, Bool.not_false, if_true]
    rw [hx, hr]
    cases hgt : getTable a (((w.tbl oldT).relIDs.filter fun r => m.get r.comp) ++ rels) w1 with
    | panic k s => rfl
    | ok r s =>
      cases r with
      | some t => rfl
      | none =>
        simp only
        cases hct : createTable a (((w.tbl oldT).relIDs.filter fun r => m.get r.comp) ++ rels) s with
        | panic k s2 => simp only [M.bind, hct]
        | ok t s2 => simp only [M.bind, hct, pure, M.pure]

/-! ## `World.exchange` / `Exchange` in normal form -/

theorem isEmpty_and_false {add rem : List Comp} (hne : ¬ (add = [] ∧ rem = [])) :
    (add.isEmpty && rem.isEmpty) = false := by
  cases add with
  | nil =>
    cases rem with
    | nil => exact absurd ⟨rfl, rfl⟩ hne
    | cons _ _ => rfl
  | cons _ _ => rfl

/-- without observers, `World.exchange` is: lookup, move the row, flag the targets -/
theorem exchangeCore_rel_eq (run : ProbeRunner) (e : Ent) (add rem : List Comp) (rels : List RelID)
    (w : World) (hl : w.isLocked = false) (ha : w.alive e = true) (hne : ¬ (add = [] ∧ rem = []))
    {oldT row : Nat} (hix : w.index e.id = (oldT, row)) {t a : Nat} {m : Mask} {rr : Bool}
    {w1 : World}
    (hfoc : findOrCreateTable oldT (w.arch (w.tbl oldT).arch).mask add rem rels w =
      .ok (t, a, m, rr) w1)
    (hno : ∀ (evt : Nat), w1.obs.hasObservers evt = false) :
    exchangeCore run e add rem rels w =
      .ok ((w.arch (w.tbl oldT).arch).mask,
          ((registerW (addMove w1 e oldT row t m) rels).arch a).mask)
        (registerW (addMove w1 e oldT row t m) rels) := by
  have hemp := isEmpty_and_false hne
  cases hre : rem.isEmpty with
  | false =>
    simp only [exchangeCore, bind, M.bind, checkLocked_unlocked w hl, M.get, M.assert, ha, if_true,
      hre, Bool.not_false, hix, hfoc, hno, Bool.and_false, Bool.or_false,
      Bool.false_eq_true, if_false, moveRow_eq, registerTargets_eq, pure, M.pure]
    rfl
  | true =>
    have hae : add.isEmpty = false := by rw [hre, Bool.and_true] at hemp; exact hemp
    simp only [exchangeCore, bind, M.bind, checkLocked_unlocked w hl, M.get, M.assert, ha, if_true,
      hre, hae, Bool.not_false, Bool.not_true, hix, hfoc, Bool.and_true,
      Bool.false_eq_true, if_false, moveRow_eq, registerTargets_eq, pure, M.pure]
    rfl

/-- a panic of the lookup is the panic of `World.exchange` (same state) -/
theorem exchangeCore_rel_panic (run : ProbeRunner) (e : Ent) (add rem : List Comp)
    (rels : List RelID) (w : World) (hl : w.isLocked = false) (ha : w.alive e = true)
    (hne : ¬ (add = [] ∧ rem = [])) {oldT row : Nat} (hix : w.index e.id = (oldT, row))
    {k : PanicKind} {s : World}
    (hfoc : findOrCreateTable oldT (w.arch (w.tbl oldT).arch).mask add rem rels w = .panic k s) :
    exchangeCore run e add rem rels w = .panic k s := by
  have hemp := isEmpty_and_false hne
  simp only [exchangeCore, bind, M.bind, checkLocked_unlocked w hl, M.get, M.assert, ha, if_true,
    hemp, Bool.not_false, hix, hfoc]

/-- without observers, `Exchange` through any path is the pre-validation, `World.exchange` and the
    writes -/
theorem opExchange_rel_eq (run : ProbeRunner) (p : Path) (e : Ent) (add : List Comp)
    (vals : List (Comp × Val)) (rem : List Comp) (rels : List RelID) (w : World)
    (ha : w.alive e = true) (hpre : preCheck p add rels w = .ok () w) {old new : Mask} {w2 : World}
    (hcore : exchangeCore run e add rem rels w = .ok (old, new) w2)
    (hno : ∀ (evt : Nat), w2.obs.hasObservers evt = false) :
    opExchange run p e add vals rem rels w = .ok () (writeValsW w2 e vals) := by
  have hno2 : ∀ (evt : Nat), (writeValsW w2 e vals).obs.hasObservers evt = false := hno
  cases hre : rels.isEmpty <;> cases hae : add.isEmpty <;> cases p <;>
  simp [opExchange, hpre, bind, M.bind, M.get, M.assert, ha, hcore, writeVals_eq, fireAddIfHas_none,
    hno, hno2, hre, hae, pure, M.pure]

/-- a panic of `World.exchange` after a passed pre-validation is the panic of `Exchange` -/
theorem opExchange_rel_panic (run : ProbeRunner) (p : Path) (e : Ent) (add : List Comp)
    (vals : List (Comp × Val)) (rem : List Comp) (rels : List RelID) (w : World)
    (ha : w.alive e = true) (hpre : preCheck p add rels w = .ok () w) {k : PanicKind} {s : World}
    (hcore : exchangeCore run e add rem rels w = .panic k s) :
    opExchange run p e add vals rem rels w = .panic k s := by
  cases p <;> simp [opExchange, hpre, bind, M.bind, M.get, M.assert, ha, hcore]

/-- a refused pre-validation is the panic of `Exchange` on a live entity (world unchanged) -/
theorem opExchange_rel_prePanic (run : ProbeRunner) (p : Path) (e : Ent) (add : List Comp)
    (vals : List (Comp × Val)) (rem : List Comp) (rels : List RelID) (w : World)
    (ha : w.alive e = true) {k : PanicKind} (hpre : preCheck p add rels w = .panic k w) :
    opExchange run p e add vals rem rels w = .panic k w := by
  cases p <;> simp [opExchange, hpre, bind, M.bind, M.get, M.assert, ha]

end World

end Ark
