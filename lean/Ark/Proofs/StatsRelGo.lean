/-
  Ark.Proofs.StatsRelGo — property C19 for worlds WITH relation tables, part 1b: the per-table
  list of `archetype.UpdateStats`, loop by loop on the RE-USED slice.

  The model's `archStatsUpdate` writes the new table list as `upd ++ app` where both parts are
  computed from the archetype's active tables; the Go code works on the re-used slice
  `stats.Tables` itself:

      cntOld := len(stats.Tables); cntNew := len(tables)
      if cntNew < cntOld { stats.Tables = stats.Tables[:cntNew]; cntOld = cntNew }
      for i := range cntOld       { tables[i].UpdateStats(mpe, &stats.Tables[i]) }   // in place
      for i = cntOld; i < cntNew; i++ { stats.Tables = append(stats.Tables, tables[i].Stats(mpe)) }

  * `tablesGo truncate w A s` — these loops, literally, on the stored list `s.tables`
    (`truncate = true`: the code above; `truncate = false`: the same with the truncation line
    dropped and `cntOld := min(cntOld, cntNew)`, which keeps all indices in range);
  * `tablesGo_true` — **the loops with truncation compute the model's list** (`= (archStatsUpdate
    w A s).tables`, for every stored entry: fewer, more or as many entries as active tables);
  * `tablesGo_false` — without the truncation the result is the model's list followed by the
    stale tail `s.tables.drop cntNew`; `tablesGo_false_eq_iff` — it is right iff the stored entry
    has at most as many table entries as the archetype has active tables now.  So the truncation
    is needed exactly in the situation that only relation archetypes produce: fewer active
    tables than at the previous call.

  Core Lean only.
-/
import Ark.Proofs.StatsRel

set_option autoImplicit false

namespace Ark
namespace World

/-- the first loop: entries `0 … k-1` of the re-used slice are overwritten in place -/
def updLoop (g : Nat → TableStats) (k : Nat) (old : List TableStats) : List TableStats :=
  (List.range k).foldl (fun ts i => ts.set i (g i)) old

/-- the second loop: entries `lo … hi-1` are appended -/
def appLoop (g : Nat → TableStats) (lo hi : Nat) (ts : List TableStats) : List TableStats :=
  (List.range (hi - lo)).foldl (fun ts k => ts ++ [g (lo + k)]) ts

/-- `archetype.UpdateStats`, the per-table list, on the re-used slice `s.tables` -/
def tablesGo (truncate : Bool) (w : World) (A : Archetype) (s : ArchStats) : List TableStats :=
  let tables := A.tables.tables
  let g : Nat → TableStats := fun i => tableStats (w.tbl (tables.getD i 0)) s.memoryPerEntity
  let cntNew := tables.length
  let old := if cntNew < s.tables.length ∧ truncate = true then s.tables.take cntNew else s.tables
  let cntOld := min s.tables.length cntNew
  appLoop g cntOld cntNew (updLoop g cntOld old)

theorem updLoop_eq (g : Nat → TableStats) : ∀ (k : Nat) (old : List TableStats), k ≤ old.length →
    updLoop g k old = (List.range k).map g ++ old.drop k := by
  intro k
  induction k with
  | zero => intro old _; simp [updLoop]
  | succ k ih =>
    intro old hk
    have ih' := ih old (by omega)
    unfold updLoop at ih' ⊢
    rw [List.range_succ, List.foldl_append, List.foldl_cons, List.foldl_nil, ih']
    have hlen : ((List.range k).map g).length = k := by simp
    rw [List.set_append_right _ _ (by rw [hlen]; exact Nat.le_refl _), hlen, Nat.sub_self]
    have hd : old.drop k = old[k] :: old.drop (k + 1) := by
      rw [List.drop_eq_getElem_cons (by omega)]
    rw [hd, List.set_cons_zero, List.map_append, List.map_cons, List.map_nil,
      List.append_assoc, List.singleton_append]

theorem appLoop_eq (g : Nat → TableStats) (lo : Nat) : ∀ (n : Nat) (ts : List TableStats),
    (List.range n).foldl (fun ts k => ts ++ [g (lo + k)]) ts =
      ts ++ (List.range n).map fun k => g (lo + k) := by
  intro n
  induction n with
  | zero => intro ts; simp
  | succ n ih =>
    intro ts
    rw [List.range_succ, List.foldl_append, List.foldl_cons, List.foldl_nil, ih,
      List.map_append, List.map_cons, List.map_nil, List.append_assoc]

theorem range_map_getD (f : Nat → TableStats) (l : List Nat) :
    ((List.range l.length).map fun i => f (l.getD i 0)) = l.map f := by
  apply List.ext_getElem
  · simp
  · intro i h1 h2
    have hi : i < l.length := by simpa using h1
    simp [List.getD_eq_getElem?_getD, List.getElem?_eq_getElem hi]

/-- both loops together, for a re-used slice `old` with at least `k ≤ n` entries: the first `k`
    entries are rewritten, what lay behind them STAYS, the entries `k … n-1` are appended -/
theorem loops_eq (g : Nat → TableStats) (k n : Nat) (old : List TableStats) (hk : k ≤ old.length) :
    appLoop g k n (updLoop g k old) = (List.range k).map g ++ old.drop k ++
      (List.range (n - k)).map fun j => g (k + j) := by
  unfold appLoop
  rw [appLoop_eq, updLoop_eq g k old hk]

theorem range_split (g : Nat → TableStats) (k n : Nat) (hkn : k ≤ n) :
    (List.range k).map g ++ ((List.range (n - k)).map fun j => g (k + j)) = (List.range n).map g := by
  apply List.ext_getElem
  · simp; omega
  · intro i h1 h2
    have hi : i < n := by simpa using h2
    by_cases hik : i < k
    · rw [List.getElem_append_left (by simpa using hik)]
      simp
    · rw [List.getElem_append_right (by simpa using hik)]
      simp only [List.length_map, List.length_range, List.getElem_map, List.getElem_range]
      congr 1
      omega

/-- the result of the loops, with and without truncation: the model's list, followed — when the
    truncation is dropped — by the stale tail of the stored list -/
theorem tablesGo_eq (truncate : Bool) (w : World) (A : Archetype) (s : ArchStats) :
    tablesGo truncate w A s = (w.archStatsUpdate A s).tables ++
      (if truncate = true then [] else s.tables.drop A.tables.tables.length) := by
  rw [archStatsUpdate_tables]
  unfold tablesGo
  simp only
  have hmap := range_map_getD (fun t => tableStats (w.tbl t) s.memoryPerEntity) A.tables.tables
  rcases Nat.lt_or_ge A.tables.tables.length s.tables.length with hlt | hge
  · -- fewer active tables than stored entries
    have hmin : min s.tables.length A.tables.tables.length = A.tables.tables.length :=
      Nat.min_eq_right (Nat.le_of_lt hlt)
    rw [hmin]
    cases truncate with
    | true =>
      simp only [hlt, and_self, if_true]
      rw [loops_eq _ _ _ _ (by rw [List.length_take]; omega), Nat.sub_self]
      have : (List.take A.tables.tables.length s.tables).drop A.tables.tables.length = [] := by
        rw [List.drop_eq_nil_iff, List.length_take]; omega
      rw [this, hmap]; simp
    | false =>
      simp only [Bool.false_eq_true, and_false, if_false]
      rw [loops_eq _ _ _ _ (Nat.le_of_lt hlt), Nat.sub_self, hmap]; simp
  · -- at least as many active tables as stored entries
    have hmin : min s.tables.length A.tables.tables.length = s.tables.length :=
      Nat.min_eq_left hge
    rw [hmin]
    have hnot : ¬ (A.tables.tables.length < s.tables.length ∧ truncate = true) :=
      fun h => absurd h.1 (by omega)
    rw [if_neg hnot, loops_eq _ _ _ _ (Nat.le_refl _)]
    have h1 : s.tables.drop s.tables.length = [] := List.drop_length
    have h2 : s.tables.drop A.tables.tables.length = [] := by
      rw [List.drop_eq_nil_iff]; exact hge
    rw [h1, List.append_nil, range_split _ _ _ hge, hmap, h2]
    cases truncate <;> simp

/-- **the loops with the truncation compute the model's per-table list**, for every stored entry -/
theorem tablesGo_true (w : World) (A : Archetype) (s : ArchStats) :
    tablesGo true w A s = (w.archStatsUpdate A s).tables := by
  rw [tablesGo_eq]; simp

/-- … and so, when the stored entry `StatAgrees`, the fresh list -/
theorem tablesGo_true_fresh (w : World) (A : Archetype) (s : ArchStats) (h : StatAgrees w s A) :
    tablesGo true w A s = (w.archStatsFresh A).tables := by
  rw [tablesGo_true, archStatsUpdate_eq_fresh w A s h]

/-- without the truncation the stale tail of the stored list survives -/
theorem tablesGo_false (w : World) (A : Archetype) (s : ArchStats) :
    tablesGo false w A s =
      (w.archStatsUpdate A s).tables ++ s.tables.drop A.tables.tables.length := by
  rw [tablesGo_eq]; simp

/-- **the truncation is needed exactly when the archetype has fewer active tables than at the
    previous call** -/
theorem tablesGo_false_eq_iff (w : World) (A : Archetype) (s : ArchStats) :
    tablesGo false w A s = (w.archStatsUpdate A s).tables ↔
      s.tables.length ≤ A.tables.tables.length := by
  rw [tablesGo_false]
  constructor
  · intro h
    have := congrArg List.length h
    rw [List.length_append, List.length_drop] at this
    omega
  · intro h
    rw [List.drop_eq_nil_iff.mpr h, List.append_nil]

/-- without the truncation: as many entries as there were before, when there were more -/
theorem tablesGo_false_length (w : World) (A : Archetype) (s : ArchStats) :
    (tablesGo false w A s).length = max s.tables.length A.tables.tables.length := by
  rw [tablesGo_false, List.length_append, archStatsUpdate_tables_length, List.length_drop]
  omega


/-! ## a finding about the model

`World.archStatsUpdate` (Ark/Model/Stats.lean) computes `upd ++ app` from the archetype's
active tables alone; the stored list enters only through its LENGTH.  So the model's
definition with the truncation branch removed computes the same list: no theorem about
`archStatsUpdate` can notice that the truncation is missing — `tablesGo` above can. -/

/-- the per-table list of the model's `archStatsUpdate` with `old := st.tables` instead of
    `if cntNew < st.tables.length then st.tables.take cntNew else st.tables` -/
def modelTablesNoTrunc (w : World) (A : Archetype) (st : ArchStats) : List TableStats :=
  let tables := A.tables.tables
  let cntOld := st.tables.length
  (tables.take cntOld).map (fun t => tableStats (w.tbl t) st.memoryPerEntity) ++
    (tables.drop cntOld).map (fun t => tableStats (w.tbl t) st.memoryPerEntity)

/-- **finding**: the model is blind to the truncation of the re-used slice -/
theorem modelTablesNoTrunc_eq (w : World) (A : Archetype) (st : ArchStats) :
    modelTablesNoTrunc w A st = (w.archStatsUpdate A st).tables := by
  rw [archStatsUpdate_tables]
  simp only [modelTablesNoTrunc, map_take_append_map_drop]

end World
end Ark
