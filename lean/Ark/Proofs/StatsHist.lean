/-
  Ark.Proofs.StatsHist — property C19 over whole histories, part 1: what an entity operation
  does to the part of the world `World.Stats()` relies on.

  `World.Stats()` (`opStats`) updates ONE re-used object `w.stats` in place and never recomputes
  `componentIDs`, `numRelations`, `memoryPerEntity` of an archetype entry.  That is sound only if
  between two calls (a) nobody touches `w.stats`, (b) archetypes are only appended and the existing
  ones keep their component list and relation count, (c) registered component sizes do not change
  (`Mono` of `Ark.Proofs.Stats`).

  * `SStep w w'` — (a)+(b)+(c): `Mono w w'` and `w'.stats = w.stats`; reflexive, transitive.
  * `SStep.lookups` — kept by `findOrCreateTableAdd` / `findOrCreateTableRemove` /
    `findOrCreateTable` (through `lookup_induct`: `createArchetype` appends, `createTable` changes
    only the table lists of one archetype);
  * `SStep.registerComponent`, `SStep.shrink`, `SStep.reset`, the row-level steps;
  * `exec_sstep` — **every successful operation of the machine `Ark.Refine`** (all eleven) is an
    `SStep`; `step_sstep` — every step of that machine is (a rejected call leaves the world alone).
  * `Compatible.sstep` — hence "`w.stats` is compatible with `w`" is kept by every step.

  Kernel-only proofs, core Lean only.
-/
import Ark.Proofs.Stats
import Ark.Proofs.CacheHistOps
import Ark.Proofs.Lookups

set_option autoImplicit false

namespace Ark

open World

/-! ## 1. the relation -/

/-- what `Stats()` relies on between two calls: archetypes only appended, the existing ones keep
    component list and relation count, registered sizes unchanged (`Mono`), and the re-used
    statistics object is not touched -/
structure SStep (w w' : World) : Prop where
  mono : Mono w w'
  stats : w'.stats = w.stats
  /-- no observer is registered by the step (the machine has no observer operations; `Reset`
      unregisters all) -/
  obs0 : w.obs.totalCount = 0 → w'.obs.totalCount = 0

namespace SStep

theorem refl (w : World) : SStep w w := ⟨Mono.refl w, rfl, id⟩

theorem trans {a b c : World} (h1 : SStep a b) (h2 : SStep b c) : SStep a c :=
  ⟨h1.mono.trans h2.mono, h2.stats.trans h1.stats, fun h => h2.obs0 (h1.obs0 h)⟩

/-- a step that leaves archetypes, registry and observers alone -/
theorem of_eq {w w' : World} (ha : w'.archetypes = w.archetypes) (hk : w'.kinds = w.kinds)
    (hs : w'.stats = w.stats) (ho : w'.obs = w.obs) : SStep w w' :=
  ⟨mono_of_eq w w' ha hk, hs, fun h => by rw [ho]; exact h⟩

theorem of_quiet {w w' : World} (q : Quiet w w') (hs : w'.stats = w.stats) : SStep w w' :=
  of_eq q.archetypes q.kinds hs q.obs

end SStep

/-- a compatible statistics object stays compatible along an `SStep` -/
theorem World.Compatible.sstep {w w' : World} (h : Compatible w.stats w) (s : SStep w w') :
    Compatible w'.stats w' := by
  rw [s.stats]; exact h.mono s.mono

/-! ## 2. row-level steps do not touch the statistics object -/

namespace World

theorem placedW_stats (w : World) (t : Nat) (rt : Bool) : (placedW w t rt).stats = w.stats := by
  simp only [placedW]; split <;> rfl

theorem writeValsW_stats (w : World) (e : Ent) (vals : List (Comp × Val)) :
    (writeValsW w e vals).stats = w.stats := rfl

theorem addMove_stats (w : World) (e : Ent) (oldT row newT : Nat) (keep : Mask) :
    (addMove w e oldT row newT keep).stats = w.stats := by
  simp only [addMove, moveRowW]; split <;> rfl

theorem removeRowOf_stats (w : World) (e : Ent) (t row : Nat) :
    (removeRowOf w e t row).stats = w.stats := by
  simp only [removeRowOf]; split <;> rfl

theorem copiedW_stats (w : World) (t row idx : Nat) : (copiedW w t row idx).stats = w.stats := rfl

end World

namespace SStep

theorem placedW (w : World) (t : Nat) (rt : Bool) : SStep w (placedW w t rt) :=
  of_quiet (Quiet.placedW w t rt) (placedW_stats w t rt)

theorem writeValsW (w : World) (e : Ent) (vals : List (Comp × Val)) :
    SStep w (writeValsW w e vals) :=
  of_quiet (Quiet.writeValsW w e vals) rfl

theorem addMove (w : World) (e : Ent) (oldT row newT : Nat) (keep : Mask) :
    SStep w (addMove w e oldT row newT keep) :=
  of_quiet (Quiet.addMove w e oldT row newT keep) (addMove_stats w e oldT row newT keep)

theorem removeRowOf (w : World) (e : Ent) (t row : Nat) : SStep w (removeRowOf w e t row) :=
  of_quiet (Quiet.removeRowOf w e t row) (removeRowOf_stats w e t row)

theorem copiedW (w : World) (t row idx : Nat) : SStep w (copiedW w t row idx) :=
  of_quiet (copiedW_quiet w t row idx) rfl

end SStep

/-! ## 3. the table lookups -/

namespace World

theorem cacheAddTable_stats {w w' : World} {T : Table} (h : w.cacheAddTable T = some w') :
    w'.stats = w.stats := by
  unfold cacheAddTable at h
  simp only at h
  split at h
  · cases h
  · injection h with h; subst h; rfl

theorem getFreeTable_fixed {A A' : Archetype} {t : Nat} (h : A.getFreeTable = some (A', t)) :
    A'.comps = A.comps ∧ A'.numRel = A.numRel := by
  unfold Archetype.getFreeTable at h
  split at h
  · cases h
  · injection h with h; injection h with h1 _; subst h1; exact ⟨rfl, rfl⟩

end World

namespace SStep

/-- overwrite one archetype keeping its component list and relation count -/
theorem setArch (w : World) (a : Nat) (A' : Archetype) (hc : A'.comps = (w.arch a).comps)
    (hn : A'.numRel = (w.arch a).numRel) : SStep w (w.setArch a A') :=
  ⟨mono_setArch w a A' hc hn, rfl, id⟩

theorem modArch (w : World) (a : Nat) (f : Archetype → Archetype)
    (hc : (f (w.arch a)).comps = (w.arch a).comps)
    (hn : (f (w.arch a)).numRel = (w.arch a).numRel) : SStep w (w.modArch a f) :=
  setArch w a _ hc hn

theorem createTableS (w : World) (a : Nat) (rels : List RelID) :
    SStep w (createTableS w a rels).1 := by
  unfold World.createTableS
  split
  · rename_i A' t hf
    obtain ⟨c1, c2⟩ := getFreeTable_fixed hf
    show SStep w (((w.setArch a A').modTbl t fun T => T.recycle (ctTargets (w.arch a) rels) rels).modArch
      a fun A => A.addTable t (ctTargets (w.arch a) rels))
    have h1 : SStep w ((w.setArch a A').modTbl t fun T => T.recycle (ctTargets (w.arch a) rels) rels) :=
      (setArch w a A' c1 c2).trans (of_eq rfl rfl rfl rfl)
    exact h1.trans
      (modArch _ a _ (Archetype.addTable_comps _ _ _) (Archetype.addTable_numRel _ _ _))
  · have h1 : SStep w ({ w with tables := w.tables ++
        [Table.new w.tables.length a (w.arch a).comps (w.arch a).isRel (w.arch a).zst
          (if (w.arch a).hasRelations then w.initCapRel else w.initCap)
          (ctTargets (w.arch a) rels) rels] } : World) := of_eq rfl rfl rfl rfl
    show SStep w (World.modArch _ a fun A => A.addTable w.tables.length (ctTargets (w.arch a) rels))
    exact h1.trans
      (modArch _ a _ (Archetype.addTable_comps _ _ _) (Archetype.addTable_numRel _ _ _))

theorem createTable {a : Nat} {rels : List RelID} {w w' : World} {t : Nat}
    (h : World.createTable a rels w = .ok t w') : SStep w w' := by
  obtain ⟨_, _, _, _, h5⟩ := createTable_ok h
  obtain ⟨ha, _, hk, _, _⟩ := cacheAddTable_frame h5
  exact (createTableS w a rels).trans
    (of_eq ha hk (cacheAddTable_stats h5) (cacheAddTable_untouched h5).obs)

theorem createArchetypeW (w : World) (mask : Mask) : SStep w (createArchetypeW w mask) :=
  ⟨mono_append_archetypes w _ [newArch w mask]
      (createArchetypeW_proj (·.archetypes) (fun _ _ _ => rfl) (fun _ _ => rfl) w mask)
      (createArchetypeW_proj (·.kinds) (fun _ _ _ => rfl) (fun _ _ => rfl) w mask),
    createArchetypeW_proj (·.stats) (fun _ _ _ => rfl) (fun _ _ => rfl) w mask,
    fun h => by rw [(createArchetypeW_untouched w mask).obs]; exact h⟩

theorem findOrCreateArch {mask : Mask} {w w' : World} {a : Nat}
    (h : World.findOrCreateArch mask w = .ok a w') : SStep w w' := by
  unfold World.findOrCreateArch at h
  split at h
  · injection h with _ h2; subst h2; exact refl _
  · rw [createArchetype_eq] at h
    injection h with _ h2; subst h2
    exact createArchetypeW w mask

/-- **the three table lookups** append at most one archetype, change at most the table lists of
    one archetype, and do not touch the statistics object -/
theorem lookups :
    (∀ {oldT : Nat} {startMask : Mask} {add : List Comp} {rels : List RelID} {w w' : World}
        {r : Nat × Nat × Mask},
        World.findOrCreateTableAdd oldT startMask add rels w = .ok r w' → SStep w w') ∧
    (∀ {oldT : Nat} {startMask : Mask} {rem : List Comp} {w w' : World}
        {r : Nat × Nat × Mask × Bool},
        World.findOrCreateTableRemove oldT startMask rem w = .ok r w' → SStep w w') ∧
    (∀ {oldT : Nat} {startMask : Mask} {add rem : List Comp} {rels : List RelID} {w w' : World}
        {r : Nat × Nat × Mask × Bool},
        World.findOrCreateTable oldT startMask add rem rels w = .ok r w' → SStep w w') :=
  lookup_induct SStep SStep.trans SStep.findOrCreateArch SStep.createTable

end SStep

/-! ## 4. `registerComponent`, `Shrink`, `Reset` -/

/-- the components of an archetype are registered -/
theorem SInvMid.comps_lt {w : World} (h : SInvMid w) {A : Archetype} (hA : A ∈ w.archetypes)
    {c : Comp} (hc : c ∈ A.comps) : c < w.kinds.length := by
  obtain ⟨a, ha⟩ := List.getElem?_of_mem hA
  rw [(h.comps a A ha).1] at hc
  exact ((Mask.mem_toList _ _ _).mp hc).1

namespace World

theorem registerComponent_stats {k : CompKind} {w w' : World} {n : Nat}
    (h : registerComponent k w = .ok n w') : w'.stats = w.stats := by
  unfold registerComponent at h
  simp only at h
  split at h
  · cases h
  · split at h
    · cases h
    · injection h with _ h2; subst h2; rfl

theorem registerComponent_obs {k : CompKind} {w w' : World} {n : Nat}
    (h : registerComponent k w = .ok n w') : w'.obs = w.obs := by
  unfold registerComponent at h
  simp only at h
  split at h
  · cases h
  · split at h
    · cases h
    · injection h with _ h2; subst h2; rfl

theorem obs_reset_count (m : ObsMgr) (h : m.totalCount = 0) : m.reset.totalCount = 0 := by
  unfold ObsMgr.reset
  split
  · exact h
  · rfl

theorem cacheReset_stats (w : World) : w.cacheReset.stats = w.stats := by
  unfold cacheReset
  split <;> rfl

theorem resetPre_stats (w : World) : (resetPre w).stats = w.stats := by
  show (World.cacheReset _).stats = w.stats
  rw [cacheReset_stats]

theorem resetW_stats (w : World) : (resetW w).stats = w.stats :=
  (resetW_proj (·.stats) (fun _ _ _ => rfl) (fun _ _ _ => rfl) (fun _ _ => rfl) w).trans
    (resetPre_stats w)

theorem SameFrame.stats {w w' : World} (h : SameFrame w w') : w'.stats = w.stats := by
  obtain ⟨_, _, _, rfl⟩ := h; rfl

end World

namespace SStep

/-- registering a component appends to the registry; the sizes of the components of the existing
    archetypes are those registered before (`SInvMid.comps_lt`) -/
theorem registerComponent {w w' : World} (hS : SInvMid w) {k : CompKind} {n : Nat}
    (h : World.registerComponent k w = .ok n w') : SStep w w' := by
  obtain ⟨_, hk, ha, _⟩ := registerComponent_ok h
  exact ⟨mono_append_kinds w w' [k] ha hk (fun A hA c hc => hS.comps_lt hA hc),
    registerComponent_stats h, fun h0 => by rw [registerComponent_obs h]; exact h0⟩

/-- `Shrink` changes table lists and capacities only -/
theorem shrink {w w' : World} (r : ShrinkRel w w') : SStep w w' := by
  refine ⟨⟨by rw [r.alen]; exact Nat.le_refl _, ?_⟩, r.frame.stats,
    fun h => by rw [r.frame.obs]; exact h⟩
  intro i A A' hA hA'
  have h1 : w.arch i = A := arch_of_get hA
  have h2 : w'.arch i = A' := arch_of_get hA'
  have ar := r.arch i
  rw [h1, h2] at ar
  exact ⟨ar.comps, ar.numRel, fun c _ => by rw [r.frame.kinds]⟩

/-- `Reset` keeps archetypes (up to their table lists) and registry -/
theorem reset {w : World} (hS : SInv w) : SStep w (resetW w) := by
  refine ⟨⟨by rw [resetW_archetypes hS, List.length_map]; exact Nat.le_refl _, ?_⟩, resetW_stats w,
    fun h => by rw [resetW_obs]; exact obs_reset_count _ h⟩
  intro i A A' hA hA'
  rw [resetW_archetypes hS, List.getElem?_map, hA] at hA'
  cases hA'
  exact ⟨resetArchOf_comps A, resetArchOf_numRel A, fun c _ => by rw [resetW_kinds]⟩

/-- one iteration of the loop of `storage.Shrink` -/
theorem shrinkStep (w : World) (t : Nat) : SStep w (World.shrinkStep w t).1 := by
  refine ⟨⟨?_, ?_⟩, (shrinkStep_sameFrame w t).stats,
    fun h => by rw [(shrinkStep_sameFrame w t).obs]; exact h⟩
  · rw [shrinkStep_eq]; split
    · simp only [freeStep_archetypes, List.length_set]; exact Nat.le_refl _
    · exact Nat.le_refl _
  · intro i A A' hA hA'
    have ar : Archetype.ArchRel (w.arch i) ((World.shrinkStep w t).1.arch i) := by
      rw [shrinkStep_eq]; split
      · exact freeStep_archRel _ _ _ _
      · exact Archetype.ArchRel.refl _
    rw [arch_of_get hA, arch_of_get hA'] at ar
    exact ⟨ar.comps, ar.numRel, fun c _ => by rw [(shrinkStep_sameFrame w t).kinds]⟩

/-- `storage.Shrink` (no hypothesis on the world) -/
theorem shrinkPure (w : World) (bounded : Bool) : SStep w (World.shrinkPure w bounded).1 :=
  shrinkPure_induct (fun w' => SStep w w') (fun w' t h => h.trans (shrinkStep w' t)) bounded w
    (refl w)

end SStep

/-! ## 5. every successful operation of the entity machine -/

open Refine in
/-- **Every successful entity operation** of the machine of `Ark.Proofs.Refine` (all eleven:
    `reg`, `new p`, `new0`, `add p`, `rem p`, `xchg p`, `set`, `del`, `copy`, `shrink`, `reset`)
    only appends archetypes, keeps component list, relation count and registered component sizes
    of the existing ones, and does not touch the statistics object. -/
theorem exec_sstep (run : ProbeRunner) {s : Refine.St} {fl : List Nat} (H : Refine.HInv s fl)
    {op : Refine.Op} (hg : Refine.guard s op = true) {r : Option Ent} {w' : World}
    (hex : Refine.exec run s.w op = .ok r w') : SStep s.w w' := by
  have hl := H.unlocked
  have hc := H.cinv
  -- facts about a live issued handle
  have live : ∀ (e : Ent), e ∈ s.issued → s.w.alive e = true →
      ∃ (oldT row : Nat), s.w.index e.id = (oldT, row) ∧ oldT < s.w.tables.length ∧
        (s.w.tbl oldT).arch < s.w.archetypes.length := by
    intro e hi ha
    obtain ⟨cs, _, hm⟩ := H.find_of_alive hi ha
    obtain ⟨_, _, h2, hnf, _, hsl⟩ := H.live_facts hm
    obtain ⟨oldT, row, hentry, htm, _⟩ :=
      hc.live_entry h2 hnf ha (List.getElem?_eq_some_iff.mp hsl).1
    obtain ⟨hTlt, _, _, halt, _, _⟩ := hc.table_of_entry hentry htm
    exact ⟨oldT, row, index_of_get hentry, hTlt, halt⟩
  cases op with
  | reg size z =>
    cases hr : World.registerComponent { isRel := false, zst := z, size := size } s.w with
    | panic k w1 => simp only [exec, hr] at hex; cases hex
    | ok n w1 =>
      simp only [exec, hr] at hex
      injection hex with _ h2
      subst h2
      exact SStep.registerComponent hc.sinv.toSInvMid hr
  | new p ids vals =>
    cases hfoc : findOrCreateTableAdd 0 Mask.empty ids [] s.w with
    | panic k w1 =>
      simp only [exec, opNewEntity_foc_panic run p ids vals s.w hl hfoc] at hex; cases hex
    | ok r1 w1 =>
      obtain ⟨t, a, m⟩ := r1
      have hu := findOrCreateTableAdd_untouched hfoc
      have heq := opNewEntity_eq run p ids vals s.w hl hfoc
        (by rw [hu.obs]; exact hc.noObs)
      simp only [exec, heq] at hex
      injection hex with _ h2
      subst h2
      exact (SStep.lookups.1 hfoc).trans ((SStep.placedW w1 t false).trans (SStep.writeValsW _ _ _))
  | new0 =>
    simp only [exec, opNewEntity0_eq run s.w hl (hc.noObs _)] at hex
    injection hex with _ h2
    subst h2
    exact SStep.placedW _ _ _
  | add p e ids vals =>
    have hg' : e ∈ s.issued ∧ ∀ c ∈ ids, c < s.ss.zst.length := by
      simpa only [Refine.guard, Bool.and_eq_true, List.all_eq_true, decide_eq_true_eq] using hg
    obtain ⟨hi, _⟩ := hg'
    cases ha : s.w.alive e with
    | false =>
      simp only [exec, opAdd_dead_any run p e ids vals s.w hl ha] at hex; cases hex
    | true =>
      obtain ⟨oldT, row, hix, _, halt⟩ := live e hi ha
      cases hcore : addCore e ids [] s.w with
      | panic k w1 =>
        simp only [exec, opAdd_panic run p e ids vals s.w ha hcore] at hex; cases hex
      | ok r1 w2 =>
        obtain ⟨old, new⟩ := r1
        by_cases hne : ids = []
        · subst hne
          rw [addCore_noComponents s.w hl e ha []] at hcore; cases hcore
        · cases hfoc : findOrCreateTableAdd oldT (s.w.arch (s.w.tbl oldT).arch).mask ids [] s.w with
          | panic k w1 =>
            rw [addCore_foc_panic e ids s.w hl ha hne hix hfoc] at hcore; cases hcore
          | ok r2 w1 =>
            obtain ⟨t, a, m⟩ := r2
            have hu := findOrCreateTableAdd_untouched hfoc
            have hcore' := hcore
            rw [addCore_eq e ids s.w hl ha hne hix hfoc] at hcore
            injection hcore with _ h2
            have hq : Quiet w1 w2 := by rw [← h2]; exact Quiet.addMove w1 e oldT row t m
            have hs2 : SStep w1 w2 := by rw [← h2]; exact SStep.addMove w1 e oldT row t m
            have heq := opAdd_eq run p e ids vals s.w ha hcore'
              (by rw [hq.obs, hu.obs]; exact hc.noObs)
            simp only [exec, heq] at hex
            injection hex with _ h3
            subst h3
            exact (SStep.lookups.1 hfoc).trans (hs2.trans (SStep.writeValsW _ _ _))
  | rem p e ids =>
    have hi : e ∈ s.issued := by simpa only [Refine.guard, decide_eq_true_eq] using hg
    cases ha : s.w.alive e with
    | false =>
      simp only [exec, opRemove_dead_any run p e ids s.w hl ha] at hex; cases hex
    | true =>
      obtain ⟨oldT, row, hix, hTlt, halt⟩ := live e hi ha
      simp only [exec, opRemove_eq run p e ids s.w ha] at hex
      by_cases hne : ids = []
      · subst hne
        rw [removeCore_noComponents run s.w hl e ha] at hex; cases hex
      · cases hfoc : findOrCreateTableRemove oldT (s.w.arch (s.w.tbl oldT).arch).mask ids s.w with
        | panic k w1 =>
          rw [removeCore_foc_panic run e ids s.w hl ha hne hix hfoc] at hex; cases hex
        | ok r2 w1 =>
          obtain ⟨t, a, m, rr⟩ := r2
          have hu : Untouched s.w w1 := by
            by_cases hgood : ids.Nodup ∧
                ∀ (c : Comp), c ∈ ids → (s.w.arch (s.w.tbl oldT).arch).mask.get c = true
            · have hgr := graphFindRemove_ok _ ids s.w hgood.2 hgood.1
              have hrel0 : (s.w.tbl oldT).relIDs = [] := hc.relIDs_nil hTlt
              have hfoc2 := hfoc
              rw [findOrCreateTableRemove_eq_add oldT _ _ ids s.w hgr hrel0] at hfoc2
              cases hadd : findOrCreateTableAdd oldT
                  (ids.foldl Mask.clear (s.w.arch (s.w.tbl oldT).arch).mask) [] [] s.w with
              | panic k w3 => rw [hadd] at hfoc2; cases hfoc2
              | ok r3 w3 =>
                rw [hadd] at hfoc2
                injection hfoc2 with _ h3
                subst h3
                exact findOrCreateTableAdd_untouched hadd
            · rw [findOrCreateTableRemove_reject oldT _ ids s.w hgood] at hfoc; cases hfoc
          rw [removeCore_eq run e ids s.w hl ha hne hix hfoc
            (by rw [hu.obs]; exact hc.noObs)] at hex
          injection hex with _ h4
          subst h4
          exact (SStep.lookups.2.1 hfoc).trans (SStep.addMove _ _ _ _ _ _)
  | xchg p e add rem vals =>
    have hg' : e ∈ s.issued ∧ ∀ c ∈ add, c < s.ss.zst.length := by
      simpa only [Refine.guard, Bool.and_eq_true, List.all_eq_true, decide_eq_true_eq] using hg
    obtain ⟨hi, hreg⟩ := hg'
    have hreg' : ∀ (c : Comp), c ∈ add → c < s.w.kinds.length := by rw [← H.zlen]; exact hreg
    have hb256 : ∀ (c : Comp), c ∈ add → c < 256 := fun c hcc => hc.reg_lt_256 (hreg' c hcc)
    cases ha : s.w.alive e with
    | false =>
      simp only [exec, opExchange_dead_any run p e add vals rem s.w hl ha] at hex; cases hex
    | true =>
      obtain ⟨oldT, row, hix, hTlt, halt⟩ := live e hi ha
      cases hcore : exchangeCore run e add rem [] s.w with
      | panic k w1 =>
        simp only [exec, opExchange_panic run p e add vals rem s.w ha hcore] at hex; cases hex
      | ok r1 w2 =>
        obtain ⟨old, new⟩ := r1
        by_cases hne : add = [] ∧ rem = []
        · obtain ⟨h1, h2⟩ := hne
          subst h1; subst h2
          rw [exchangeCore_noComponents run s.w hl e ha []] at hcore; cases hcore
        · cases hfoc : findOrCreateTable oldT (s.w.arch (s.w.tbl oldT).arch).mask add rem [] s.w with
          | panic k w1 =>
            rw [exchangeCore_foc_panic run e add rem s.w hl ha hne hix hfoc] at hcore; cases hcore
          | ok r2 w1 =>
            obtain ⟨t, a, m, rr⟩ := r2
            have hu : Untouched s.w w1 := by
              by_cases hgood : rem.Nodup ∧
                  (∀ (c : Comp), c ∈ rem → (s.w.arch (s.w.tbl oldT).arch).mask.get c = true) ∧
                  add.Nodup ∧
                  ∀ (c : Comp), c ∈ add → (s.w.arch (s.w.tbl oldT).arch).mask.get c = false
              · have hgr := graphFind_ok _ add rem s.w hb256 hgood.1 hgood.2.1 hgood.2.2.1
                  hgood.2.2.2
                have hrel0 : (s.w.tbl oldT).relIDs = [] := hc.relIDs_nil hTlt
                have hfoc2 := hfoc
                rw [findOrCreateTable_eq_add oldT _ _ add rem s.w hgr hrel0] at hfoc2
                cases hadd : findOrCreateTableAdd oldT
                    (add.foldl Mask.set (rem.foldl Mask.clear (s.w.arch (s.w.tbl oldT).arch).mask))
                    [] [] s.w with
                | panic k w3 => rw [hadd] at hfoc2; cases hfoc2
                | ok r3 w3 =>
                  rw [hadd] at hfoc2
                  injection hfoc2 with _ h3
                  subst h3
                  exact findOrCreateTableAdd_untouched hadd
              · obtain ⟨k, _, hbad⟩ := graphFind_bad _ add rem s.w hb256 hgood
                simp only [findOrCreateTable, bind, M.bind, hbad] at hfoc
                cases hfoc
            have hcore' := hcore
            rw [exchangeCore_eq run e add rem s.w hl ha hne hix hfoc
              (by rw [hu.obs]; exact hc.noObs)] at hcore
            injection hcore with _ h2
            have hq : Quiet w1 w2 := by rw [← h2]; exact Quiet.addMove _ _ _ _ _ _
            have hs2 : SStep w1 w2 := by rw [← h2]; exact SStep.addMove _ _ _ _ _ _
            have heq := opExchange_eq run p e add vals rem s.w ha hcore'
              (by rw [hq.obs, hu.obs]; exact hc.noObs)
            simp only [exec, heq] at hex
            injection hex with _ h4
            subst h4
            exact (SStep.lookups.2.2 hfoc).trans (hs2.trans (SStep.writeValsW _ _ _))
  | set e vals =>
    cases ha : s.w.alive e with
    | false =>
      simp only [exec, World.opSet_dead run s.w e ha (keys vals) vals] at hex; cases hex
    | true =>
      cases hhas : ((keys vals).all fun c => (s.w.tbl (s.w.index e.id).1).has c) with
      | false =>
        simp only [exec, opSet_missing run s.w e (keys vals) vals ha hhas] at hex; cases hex
      | true =>
        simp only [exec, opSet_eq run s.w e (keys vals) vals ha hhas (hc.noObs _)] at hex
        injection hex with _ h2
        subst h2
        exact SStep.writeValsW _ _ _
  | del e =>
    have hi : e ∈ s.issued := by simpa only [Refine.guard, decide_eq_true_eq] using hg
    cases ha : s.w.alive e with
    | false =>
      simp only [exec, opRemoveEntity_dead run s.w hl e ha] at hex; cases hex
    | true =>
      obtain ⟨t, row, hix, _, _⟩ := live e hi ha
      simp only [exec, opRemoveEntity_eq run s.w e hl ha hix hc.noObs (hc.noTargets _)] at hex
      injection hex with _ h3
      subst h3
      exact SStep.removeRowOf _ _ _ _
  | copy e =>
    have hi : e ∈ s.issued := by simpa only [Refine.guard, decide_eq_true_eq] using hg
    cases ha : s.w.alive e with
    | false =>
      simp only [exec, opCopyEntity_dead run s.w hl e ha] at hex; cases hex
    | true =>
      obtain ⟨t, row, hix, _, _⟩ := live e hi ha
      simp only [exec, opCopyEntity_eq run s.w e hl ha hix hc.noObs] at hex
      injection hex with _ h3
      subst h3
      exact (SStep.placedW _ _ _).trans (SStep.copiedW _ _ _ _)
  | shrink bounded =>
    simp only [exec, opShrink_eq bounded s.w hl] at hex
    injection hex with _ h3
    subst h3
    exact SStep.shrinkPure _ _
  | reset =>
    simp only [exec, opReset_eq s.w hl] at hex
    injection hex with _ h3
    subst h3
    exact SStep.reset hc.sinv

open Refine in
/-- **every step of the entity machine** (guard failing, call rejected, call succeeding) -/
theorem step_sstep (run : ProbeRunner) {s : Refine.St} {fl : List Nat} (H : Refine.HInv s fl)
    (hfew : s.w.tables.length < maxU32) (hent : s.w.entities.length + 1 < 2 ^ 32)
    (op : Refine.Op) : SStep s.w (Refine.step run s op).w := by
  obtain ⟨_, _, _, g4, g5, _⟩ := step_goal run H hfew hent op
  by_cases hg : Refine.guard s op = true
  case neg =>
    have : Refine.step run s op = s := by rw [Refine.step, if_neg hg]
    rw [this]; exact SStep.refl _
  have hw : (Refine.step run s op).w = (exec run s.w op).state := by rw [step_of_guard hg]
  rcases Classical.em (pre s.ss op) with hp | hnp
  · obtain ⟨r, w', hex⟩ := g5 hg hp
    have hw' : (Refine.step run s op).w = w' := by rw [hw, hex]; rfl
    rw [hw']; exact exec_sstep run H hg hex
  · obtain ⟨k, hex⟩ := g4 hg hnp
    have hw' : (Refine.step run s op).w = s.w := by rw [hw, hex]; rfl
    rw [hw']; exact SStep.refl _

/-! ## 6. the invariants do not read the statistics object -/

open Ark.Props.C01World in
theorem Refine.HInv.setStats {s : Refine.St} {fl : List Nat} (H : Refine.HInv s fl)
    (st : WorldStats) : Refine.HInv ⟨{ s.w with stats := st }, s.issued, s.ss⟩ fl where
  cinv :=
    { idx := H.cinv.idx.congr rfl rfl
      sinv := H.cinv.sinv.congr rfl rfl rfl
      pool := H.cinv.pool
      stale := H.cinv.stale
      lenEq := H.cinv.lenEq
      tgtLen := H.cinv.tgtLen
      freeUnindexed := H.cinv.freeUnindexed
      reservedUnindexed := H.cinv.reservedUnindexed
      liveIndexed := H.cinv.liveIndexed
      fewTables := H.cinv.fewTables
      noRelKinds := H.cinv.noRelKinds
      kindsLe := H.cinv.kindsLe
      noTargets := H.cinv.noTargets
      noObs := H.cinv.noObs }
  ginv := H.ginv
  unlocked := H.unlocked
  nodup := H.nodup
  zstEq := H.zstEq
  maxc := H.maxc
  ok := fun e cs hm =>
    (H.ok e cs hm).frame ⟨fun c => valOf_congr rfl rfl _ c, compsOf_congr rfl rfl _⟩

theorem FInv.setStats {w : World} (h : FInv w) (st : WorldStats) :
    FInv { w with stats := st } where
  cache := ⟨h.cache.uniq, h.cache.index, fun e he => ⟨(h.cache.entries e he).1, fun t =>
    ((h.cache.entries e he).2 t).trans (Selected_congr rfl rfl _ _ _).symm⟩⟩
  rinv := h.rinv.congr rfl rfl
  heap := ⟨h.heap.reg, h.heap.inj, h.heap.typed⟩
  cidx := h.cidx.congr rfl rfl rfl (fun _ _ => rfl)
  lock := h.lock
  pool := ⟨h.pool.avail, h.pool.bound⟩

/-! ## 7. the history machine with `Stats()` calls -/

namespace StatsHist

open Refine CacheHist

/-- the operations: those of the machine with filters (`base op`, `fdef`, `freg`, `funreg`), plus
    `World.Stats()` -/
inductive Op3
  | op (o : CacheHist.Op2)
  /-- `World.Stats()`: updates the re-used object `w.stats` in place and returns it -/
  | stats
  deriving Repr

/-- one step; `Stats()` leaves the ghost history and the specification alone -/
def step3 (run : ProbeRunner) (s : St) : Op3 → St
  | .op o => step2 run s o
  | .stats => { s with w := (opStats s.w).state }

def runOps3 (run : ProbeRunner) (s : St) (ops : List Op3) : St := ops.foldl (step3 run) s

/-- the state reached from `NewWorld(cap, rel)` by the history `ops` -/
def reach3 (run : ProbeRunner) (cap rel : Nat) (ops : List Op3) : St :=
  runOps3 run (St.init cap rel) ops

/-- **the inductive invariant**: that of the machine with filters, and: the re-used statistics
    object is compatible with the world (what `incremental_eq_fresh` needs) -/
structure HInv3 (s : St) (fl : List Nat) : Prop where
  base : HInv2 s fl
  compat : Compatible s.w.stats s.w
  /-- the machine registers no observers -/
  obs0 : s.w.obs.totalCount = 0

theorem hinv3_init (cap rel : Nat) : HInv3 (St.init cap rel) [] :=
  ⟨hinv2_init cap rel, compatible_empty _, rfl⟩

theorem SameButCF.sstep {w w' : World} (h : SameButCF w w') : SStep w w' := by
  unfold SameButCF at h
  exact SStep.of_eq (by rw [h]) (by rw [h]) (by rw [h]) (by rw [h])

/-- every step of the machine with filters is an `SStep` -/
theorem step2_sstep (run : ProbeRunner) {s : St} {fl : List Nat} (H : HInv2 s fl)
    (hfew : s.w.tables.length < maxU32) (hent : s.w.entities.length + 1 < 2 ^ 32) (op : Op2) :
    SStep s.w (step2 run s op).w := by
  cases op with
  | base op => exact step_sstep run H.base hfew hent op
  | fdef f fo =>
    by_cases hg : guardF s.w fo = true
    · simp only [step2, if_pos hg]
      rcases defFilter_cases f fo s.w with he | he
      · rw [he]; exact SStep.refl _
      · rw [he]; exact SStep.of_eq rfl rfl rfl rfl
    · simp only [step2, if_neg hg]; exact SStep.refl _
  | freg f => exact SameButCF.sstep (H.finv.filterRegister H.noRelW f).2
  | funreg f => exact SameButCF.sstep (H.finv.filterUnregister f).2

/-- `Stats()` on a world whose object is compatible -/
theorem step3_stats_w (run : ProbeRunner) {s : St} (hc : Compatible s.w.stats s.w) :
    (step3 run s .stats).w = { s.w with stats := statsFresh s.w } := by
  show (opStats s.w).state = _
  rw [opStats_eq s.w hc]; rfl

/-- **one step keeps the invariant**; at most one table and one index slot are created -/
theorem step3_inv (run : ProbeRunner) {s : St} {fl : List Nat} (H : HInv3 s fl)
    (hfew : s.w.tables.length < maxU32) (hent : s.w.entities.length + 1 < 2 ^ 32) (op : Op3) :
    (∃ fl', HInv3 (step3 run s op) fl') ∧
    (step3 run s op).w.tables.length ≤ s.w.tables.length + 1 ∧
    (step3 run s op).w.entities.length ≤ s.w.entities.length + 1 := by
  cases op with
  | op o =>
    obtain ⟨⟨fl1, h1⟩, g1, g2⟩ := step2_inv run H.base hfew hent o
    have ss := step2_sstep run H.base hfew hent o
    exact ⟨⟨fl1, h1, H.compat.sstep ss, ss.obs0 H.obs0⟩, g1, g2⟩
  | stats =>
    have hw := step3_stats_w run H.compat
    have hs : step3 run s .stats = ⟨{ s.w with stats := statsFresh s.w }, s.issued, s.ss⟩ := by
      show ({ s with w := (opStats s.w).state } : St) = _
      rw [opStats_eq s.w H.compat]; rfl
    rw [hs]
    exact ⟨⟨fl, ⟨H.base.base.setStats _, H.base.finv.setStats _⟩, compatible_fresh_self s.w,
      H.obs0⟩,
      Nat.le_succ _, Nat.le_succ _⟩

/-- the invariant holds after every history that stays within the size bounds -/
theorem run3_inv (run : ProbeRunner) (ops : List Op3) : ∀ (s : St) (fl : List Nat), HInv3 s fl →
    s.w.tables.length + ops.length ≤ maxU32 → s.w.entities.length + ops.length < 2 ^ 32 →
    ∃ fl', HInv3 (runOps3 run s ops) fl' := by
  induction ops with
  | nil => intro s fl h _ _; exact ⟨fl, h⟩
  | cons op ops ih =>
    intro s fl h hb1 hb2
    simp only [List.length_cons] at hb1 hb2
    obtain ⟨⟨fl1, h1⟩, g1, g2⟩ := step3_inv run h (by omega) (by omega) op
    exact ih _ fl1 h1 (by omega) (by omega)

/-- **the invariant holds at every reachable state** (same length bound as `reach_hinv`) -/
theorem reach3_inv (run : ProbeRunner) (cap rel : Nat) (ops : List Op3)
    (hlen : ops.length < 2 ^ 32 - 2) : ∃ fl, HInv3 (reach3 run cap rel ops) fl :=
  run3_inv run ops _ [] (hinv3_init cap rel)
    (by show 1 + ops.length ≤ maxU32; simp only [maxU32]; omega)
    (by show 2 + ops.length < 2 ^ 32; omega)

theorem reach3_snoc (run : ProbeRunner) (cap rel : Nat) (ops : List Op3) (op : Op3) :
    reach3 run cap rel (ops ++ [op]) = step3 run (reach3 run cap rel ops) op := by
  simp only [reach3, runOps3, List.foldl_append, List.foldl_cons, List.foldl_nil]

/-- **incremental = fresh at every `Stats()` call of every history**: whatever entity and filter
    operations and earlier `Stats()` calls came before, the call returns (and stores) the
    statistics a world asked for the first time would report -/
theorem reach3_opStats (run : ProbeRunner) (cap rel : Nat) (ops : List Op3)
    (hlen : ops.length < 2 ^ 32 - 2) :
    opStats (reach3 run cap rel ops).w =
      .ok (statsFresh (reach3 run cap rel ops).w)
        { (reach3 run cap rel ops).w with stats := statsFresh (reach3 run cap rel ops).w } := by
  obtain ⟨fl, H⟩ := reach3_inv run cap rel ops hlen
  exact opStats_eq _ H.compat

end StatsHist

end Ark
