/-
  Ark.Proofs.TargetsRemove — C04 at world level, part 7: `RemoveEntity` of a live entity,
  relation target or not (`opRemoveEntity_rel_spec`).
  Kernel-only proofs, core Lean only.
-/
import Ark.Proofs.TargetsLoops

set_option autoImplicit false

namespace Ark

open World Ark.Props.C01World

namespace World

/-- the state `RemoveEntity` ends with after the cleanup: the target flag is reset -/
def unflagW (w : World) (e : Ent) : World := { w with isTarget := w.isTarget.set e.id false }

/-- without observers, `RemoveEntity` of an alive handle flagged as a relation target, on an
    unlocked world, is the removal block followed by `cleanupArchetypes` and the reset of the
    flag -/
theorem opRemoveEntity_eq_target (run : ProbeRunner) (w : World) (e : Ent) (hl : w.isLocked = false)
    (ha : w.alive e = true) {t row : Nat} (hix : w.index e.id = (t, row))
    (hno : ∀ (evt : Nat), w.obs.hasObservers evt = false)
    (hfl : w.isTarget.getD e.id false = true) :
    opRemoveEntity run e w =
      match cleanupArchetypes e (removeRowOf w e t row) with
      | .panic k s => .panic k s
      | .ok _ s => .ok () (unflagW s e) := by
  cases hsw : ((w.tbl t).remove row).2 <;>
  · simp only [opRemoveEntity, bind, M.bind, checkLocked_unlocked w hl, M.get, M.assert, ha, if_true,
      hno, Bool.and_false, Bool.or_false, Bool.false_eq_true, if_false, hix, M.modify, hsw,
      removeRowOf, setTbl, hfl]
    split <;> (rename_i heq; simp only [heq, unflagW])

theorem removeRowOf_more (w : World) (e : Ent) (t row : Nat) :
    (removeRowOf w e t row).relationArchetypes = w.relationArchetypes ∧
    (removeRowOf w e t row).cache = w.cache := by
  constructor <;>
  · simp only [removeRowOf]
    split <;> rfl

end World

/-- under the invariants, a target read through the index is never an entity whose ID no
    non-free table targets -/
theorem targetOf_ne_of_noTarget {w : World} {g : Ent} (hI : IdxInv w) (hE : FreeEmpty w)
    (hN : NoTarget w g.id) (j : Nat) (c : Comp) : targetOf w j c ≠ some g := by
  intro hh
  simp only [targetOf] at hh
  cases hx : w.entities[j]? with
  | none => rw [hx] at hh; cases hh
  | some p =>
    obtain ⟨tj, r⟩ := p
    rw [hx] at hh
    simp only at hh
    by_cases ht : tj = maxU32
    · rw [if_pos ht] at hh; cases hh
    · rw [if_neg ht] at hh
      obtain ⟨T, hT, hr, _⟩ := hI.idxRow j tj r hx ht
      rw [hT] at hh
      simp only [Option.bind_some, Table.targetAt] at hh
      have hfree : T.isFree = false := by
        cases hf : T.isFree with
        | false => rfl
        | true => have := hE tj T hT hf; omega
      cases hc : T.colIdx c with
      | none => rw [hc] at hh; cases hh
      | some k =>
        rw [hc] at hh
        simp only [Option.bind_some] at hh
        split at hh
        · rename_i hk
          have := hN tj T hT hfree k hk
          rw [Option.some.inj hh] at this
          exact this rfl
        · cases hh

/-- What `RemoveEntity` of a live entity `g` guarantees (`w` before, `w'` after). -/
structure RemovedRelPost (w : World) (fl : List Nat) (g : Ent) (w' : World) : Prop where
  /-- all invariants are kept; the ID is pushed on the free list -/
  tinv : TInv w' (g.id :: fl)
  dead : w'.alive g = false
  aliveFrame : ∀ (h : Ent), h.id ≠ g.id → w'.alive h = w.alive h
  /-- every other entity keeps components and values; a target that was `g` reads as the zero
      entity, every other target is kept -/
  frame : ∀ (j : Nat), j ≠ g.id → SameEnt w w' j ∧
    ∀ (c : Comp), targetOf w' j c = zeroed g (targetOf w j c)
  /-- the removed ID points at no table any more -/
  unindexed : (∀ (c : Comp), valOf w' g.id c = none) ∧ compsOf w' g.id = none ∧
    ∀ (c : Comp), targetOf w' g.id c = none
  /-- no non-free table targets the removed ID -/
  noTarget : NoTarget w' g.id
  obs : w'.obs = w.obs
  locks : w'.locks = w.locks
  kinds : w'.kinds = w.kinds
  tablesLen : w'.tables.length ≤ w.tables.length + w.relationArchetypes.length
  entitiesLen : w'.entities.length = w.entities.length

/-- **C04, removal of a target**: `RemoveEntity g` for a live `g` (relation target or not), no
    observers registered: it never panics, all invariants are preserved, `g` is dead, every
    other entity keeps its components and values, and its targets are kept except that `g` is
    replaced by the zero entity. -/
theorem opRemoveEntity_rel_spec (run : ProbeRunner) {w : World} {fl : List Nat} (h : TInv w fl)
    (hl : w.isLocked = false) (hno : ∀ (evt : Nat), w.obs.hasObservers evt = false) {g : Ent}
    (h2 : 2 ≤ g.id) (hnf : g.id ∉ fl) (ha : w.alive g = true) (hin : g.id < w.pool.ents.length)
    (hfew : w.tables.length + w.relationArchetypes.length + 1 ≤ maxU32)
    (hrows : 2 * w.entities.length < 2 ^ 32) :
    ∃ (w' : World), opRemoveEntity run g w = .ok () w' ∧ RemovedRelPost w fl g w' := by
  have hg0 : g.id ≠ 0 := by omega
  obtain ⟨t, row, hix, rl⟩ := h.link.removed h2 hnf ha hin
  obtain ⟨fk, fa, fm⟩ := removeRowOf_fields w g t row
  obtain ⟨fra, fc⟩ := removeRowOf_more w g t row
  have hTt := get_of_lt (lt_of_get (h.link.idx.indexed rl.entry rl.tne).1)
  have ms1 : MetaStep w (removeRowOf w g t row) :=
    MetaStep.of_set fa fk fra fc rl.tables (fun _ => Table.remove_sameMeta _ _)
  have hal1 : ∀ (x : Ent), w.alive x = true → x ≠ g →
      (removeRowOf w g t row).alive x = true ∧ x.id ≠ g.id := by
    intro x hx hne
    have hid : x.id ≠ g.id := fun e => hne (h.link.alive_inj hx ha e)
    exact ⟨by rw [rl.aliveFrame x hid]; exact hx, hid⟩
  have hfree1 : FreeEmpty (removeRowOf w g t row) :=
    h.freeEmpty.of_set rl.tables (fun hf => by
      have := h.freeEmpty t _ hTt (by rw [← (Table.remove_sameMeta _ _).isFree]; exact hf)
      rw [Table.remove_len, this])
  have hB1 : CleanBase g (removeRowOf w g t row) := by
    refine
      { idx := rl.link.idx
        sinv := h.rel.sinv.of_sameMeta ms1.archetypes ms1.kinds ms1.len ms1.tmeta
        tgts := ?_
        rels := h.rel.aux.rels.of_sameMeta ms1.len ms1.tmeta
        cacheRels := by intro e he; rw [fc] at he; exact h.rel.aux.cacheRels e he
        flags := h.flags.of_metaStep ms1 (fun i hi => by rw [removeRowOf_isTarget]; exact hi)
        freeEmpty := hfree1
        relArchs := by
          intro b B hB' hrel; rw [fa] at hB'; rw [fra]; exact h.rel.aux.relArchs b B hB' hrel }
    have hsat : TargetsSat (fun x => x.isZero = true ∨ w.alive x = true) (removeRowOf w g t row) :=
      ((targetsOK_iff w).1 h.rel.aux.targets).of_metaStep ms1
    refine hsat.mono ?_
    intro x hx
    rcases hx with h1 | h1
    · exact Or.inl h1
    · by_cases e : x = g
      · exact Or.inr (Or.inr e)
      · exact Or.inr (Or.inl (hal1 x h1 e))
  have hR1 : RInv (removeRowOf w g t row) :=
    h.rel.rinv.of_sameMeta ms1.archetypes ms1.len ms1.tmeta
  have hE1 : (removeRowOf w g t row).entities.length = w.entities.length := by
    rw [removeRowOf_entities, unplace_entities]; split <;> simp only [List.length_modify]
  -- targets of the other entities across the removal block
  have htg1 : ∀ (j : Nat), j ≠ g.id → ∀ (c : Comp),
      targetOf (removeRowOf w g t row) j c = targetOf w j c := by
    intro j hj c
    rcases rl.lookup j hj with ⟨k1, k2⟩ | k
    · have hT1 : (removeRowOf w g t row).tables[t]? = some ((w.tbl t).remove row).1 := by
        rw [rl.tables]; exact List.getElem?_set_self (lt_of_get hTt)
      rw [targetOf_of_entry k1 rl.tne hT1, targetOf_of_entry k2 rl.tne hTt]
      exact Table.targetAt_sameMeta (Table.remove_sameMeta _ _) c
    · exact ms1.targetOf k c
  -- the common ending of the two cases
  have key : ∀ (w2 w3 : World), CleanBase g w2 → RInv w2 →
      CleanFrame g (removeRowOf w g t row) w2 → NoTarget w2 g.id → w2.tables.length ≤ maxU32 →
      w2.tables.length ≤ w.tables.length + w.relationArchetypes.length →
      w3.tables = w2.tables → w3.entities = w2.entities → w3.archetypes = w2.archetypes →
      w3.kinds = w2.kinds → w3.pool = w2.pool → w3.cache = w2.cache →
      w3.relationArchetypes = w2.relationArchetypes → w3.maxComps = w2.maxComps →
      w3.obs = w2.obs → w3.locks = w2.locks →
      w3.isTarget.length = w2.isTarget.length →
      (∀ (i : Nat), i ≠ g.id → w3.isTarget.getD i false = w2.isTarget.getD i false) →
      RemovedRelPost w fl g w3 := by
    intro w2 w3 hB2 hR2 fr hnt hlen hlen' e1 e2 e3 e4 e5 e6 e7 e8 e9 e10 hitl hit
    have hal3 : ∀ (x : Ent), w3.alive x = (removeRowOf w g t row).alive x := fun x => by
      simp only [World.alive, e5, fr.pool]
    have hidx3 : IdxInv w3 := hB2.idx.congr e2 e1
    have hnt3 : NoTarget w3 g.id := by rw [NoTarget, e1]; exact hnt
    have hfe3 : FreeEmpty w3 := by rw [FreeEmpty, e1]; exact hB2.freeEmpty
    have htof3 : ∀ (j : Nat) (c : Comp), targetOf w3 j c = targetOf w2 j c := fun j c => by
      simp only [targetOf, e1, e2]
    have hentry : w3.entities[g.id]? = some (maxU32, row) := by
      rw [e2]
      rcases fr.idxSame.entry g.id with k | ⟨t0, r0, _, _, k1, k2, _⟩
      · rw [k]; exact rl.unindexed
      · rw [rl.unindexed] at k1
        exact absurd (Prod.mk.inj (Option.some.inj k1)).1.symm k2
    refine
      { tinv :=
          { rel :=
              { sinv := hB2.sinv.congr e3 e1 e4
                rinv := hR2.congr e3 e1
                aux :=
                  { targets := ?_
                    rels := by rw [RelListsOK, e1]; exact hB2.rels
                    relArchs := by rw [RelArchsOK, e3, e7]; exact hB2.relArchs
                    cacheRels := by intro e he; rw [e6] at he; exact hB2.cacheRels e he } }
            flags := ?_
            freeEmpty := hfe3
            link := rl.link.transfer hidx3 (by rw [e5, fr.pool])
              (fr.idxSame.trans (IdxSame.of_eq e2)) (by rw [hitl, fr.isTarget]) (by rw [e1]; exact hlen)
            kindsLe := by rw [e4, e8, fr.kinds, fr.maxComps, fk, fm]; exact h.kindsLe }
        dead := by rw [hal3]; exact rl.dead
        aliveFrame := fun x hx => by rw [hal3]; exact rl.aliveFrame x hx
        frame := ?_
        unindexed := ⟨fun c => by simp only [valOf, hentry, if_true],
          by simp only [compsOf, hentry, if_true], fun c => by simp only [targetOf, hentry, if_true]⟩
        noTarget := hnt3
        obs := by rw [e9, fr.obs, removeRowOf_obs]
        locks := by rw [e10, fr.locks, removeRowOf_locks]
        kinds := by rw [e4, fr.kinds, fk]
        tablesLen := by rw [e1]; exact hlen'
        entitiesLen := by rw [e2, fr.idxSame.len]; exact hE1 }
    · intro t0 T0 hT0 hf i hi
      rw [e1] at hT0
      rcases hB2.tgts t0 T0 hT0 hf i hi with h1 | ⟨h1, _⟩ | h1
      · exact Or.inl h1
      · right
        rw [hal3]
        simp only [World.alive, fr.pool] at h1 ⊢
        exact h1
      · exact absurd (by rw [h1]) (hnt t0 T0 hT0 hf i hi)
    · intro t0 T0 hT0 hf i hi hz
      rw [e1] at hT0
      rw [hit _ (hnt t0 T0 hT0 hf i hi)]
      exact hB2.flags t0 T0 hT0 hf i hi hz
    · intro j hj
      refine ⟨(((rl.frame j hj).trans (fr.same j))).congr e2 e1, fun c => ?_⟩
      rw [htof3, ← htg1 j hj c]
      have hne : targetOf w2 j c ≠ some g := targetOf_ne_of_noTarget hB2.idx hB2.freeEmpty hnt j c
      rcases fr.tgt j c with k | k
      · rw [k] at hne ⊢
        rw [zeroed, if_neg hne]
      · exact k
  by_cases hfl : w.isTarget.getD g.id false = true
  · -- a relation target: clean up
    rw [opRemoveEntity_eq_target run w g hl ha hix hno hfl]
    have hfew1 : (removeRowOf w g t row).tables.length +
        (removeRowOf w g t row).relationArchetypes.length + 1 ≤ maxU32 := by
      rw [ms1.len, fra]; exact hfew
    obtain ⟨w2, hok, cl⟩ := cleanupArchetypes_spec hB1 hR1 hg0 hfew1 (by rw [hE1]; exact hrows)
    simp only [hok]
    refine ⟨_, rfl, ?_⟩
    have hl2 : w2.tables.length ≤ w.tables.length + w.relationArchetypes.length := by
      have := cl.len; rw [ms1.len, fra] at this; exact this
    apply key w2 (unflagW w2 g) cl.base cl.rinv cl.frame cl.noTarget (by omega) hl2
      rfl rfl rfl rfl rfl rfl rfl rfl rfl rfl
    · simp [unflagW]
    · intro i hi
      simp only [unflagW, List.getD_eq_getElem?_getD, List.getElem?_set_ne (fun x => hi x.symm)]
  · -- not a target: no table targets `g`
    have hnt : w.isTarget.getD g.id false = false := by simpa using hfl
    rw [opRemoveEntity_eq run w g hl ha hix hno hnt]
    refine ⟨_, rfl, ?_⟩
    have hno1 : NoTarget (removeRowOf w g t row) g.id := by
      intro t0 T0 hT0 hf i hi hid
      have hx := hB1.tgts t0 T0 hT0 hf i hi
      have heq := hx.eq_of_id hg0 hid
      have hz : (T0.targets.getD i Ent.zero).isZero = false := by
        rw [heq]; simp only [Ent.isZero, beq_eq_false_iff_ne]; exact hg0
      have := hB1.flags t0 T0 hT0 hf i hi hz
      rw [heq, removeRowOf_isTarget, hnt] at this
      cases this
    apply key _ _ hB1 hR1 (CleanFrame.refl g _) hno1 (by rw [ms1.len]; omega)
      (by rw [ms1.len]; omega) rfl rfl rfl rfl rfl rfl rfl rfl rfl rfl rfl (fun _ _ => rfl)

end Ark
