/-
  Ark.Proofs.QueryRelCreate — property C03 with RELATION TARGETS, part 4: `QGood` (the states in
  which the C03 theorems apply) is kept by component registration and by entity creation WITH
  relation targets (`QGood.registerComponent`, `QGood.newEntity`).

  `QKeep w w'` — `RowsAlive`, `CIdx` and "no filter is registered" (`CacheEmpty`) carry over from
  `w` to `w'`; one lemma `…_qkeep` per operation (here `registerComponent_qkeep`,
  `opNewEntity_qkeep`; removal in `QueryRelRemove`, `SetRelations` / `Add` in `QueryRelAssign`).
  `rowsAlive_placed` — the `CInv`-free form of `RowsAlive.placed`.
  Kernel-only proofs, core Lean only.
-/
import Ark.Proofs.QueryRelHist
import Ark.Proofs.QueryOps

set_option autoImplicit false

namespace Ark
namespace QueryRel

open World Drain Ark.Props.C01World QueryExact

/-- **`RowsAlive`, `CIdx` and "no filter is registered" carry over** from `w` to `w'` -/
structure QKeep (w w' : World) : Prop where
  rows : RowsAlive w → RowsAlive w'
  cidx : CIdx w → CIdx w'
  cache : CacheEmpty w → CacheEmpty w'

theorem QKeep.refl (w : World) : QKeep w w := ⟨id, id, id⟩

theorem QKeep.trans {a b c : World} (h1 : QKeep a b) (h2 : QKeep b c) : QKeep a c :=
  ⟨fun h => h2.rows (h1.rows h), fun h => h2.cidx (h1.cidx h), fun h => h2.cache (h1.cache h)⟩

theorem registerW_qkeep (w : World) (rels : List RelID) : QKeep w (registerW w rels) :=
  ⟨fun hr => hr, fun hc => hc.of_frame ⟨rfl, rfl, rfl, fun _ => rfl⟩, fun he => he⟩

theorem writeValsW_qkeep (w : World) (e : Ent) (vals : List (Comp × Val)) :
    QKeep w (writeValsW w e vals) :=
  ⟨fun hr => hr.writeVals e vals, fun hc => hc.of_frame (writeValsW_ciFrame w e vals),
   fun he => he⟩

/-- `placeNew` under the pool link (the `CInv`-free form of `RowsAlive.placed`) -/
theorem rowsAlive_placed {w : World} {fl : List Nat} (h : RowsAlive w) (L : PLink w fl) {t : Nat}
    (hlt : t < w.tables.length) (rt : Bool) (hb : (w.tbl t).len + 1 < 2 ^ 32) :
    RowsAlive (placedW w t rt) := by
  have pp := L.placed hlt rt hb
  have hTab : (placedW w t rt).tables = w.tables.set t ((w.tbl t).add (w.pool.get).2).1 := pp.tables
  have hS := L.idx.shape t _ (get_of_lt hlt)
  have hne : ∀ t1 r : Nat, r < (w.tbl t1).len → ((w.tbl t1).getEntity r).id ≠ (w.pool.get).2.id := by
    intro t1 r hr heq
    obtain ⟨_, hnf, hx⟩ := L.row_live_id (tbl_len_pos_lt hr) hr
    have hlt' := (List.getElem?_eq_some_iff.mp hx).1
    rcases pp.unused with ⟨a, _, _⟩ | ⟨_, b⟩
    · omega
    · apply hnf; rw [heq, b]; exact List.mem_cons_self
  intro t1 T1 r hT1 hr
  rw [hTab] at hT1
  rcases setTbl_get w t t1 _ T1 (by simpa only [setTbl] using hT1) with ⟨a, b, _⟩ | ⟨a, b⟩
  · subst a; subst b
    rw [Table.add_fst_len] at hr
    by_cases hrl : r < (w.tbl t1).len
    · rw [Table.add_getEntity_lt _ _ r hrl, pp.aliveFrame _ (hne t1 r hrl)]
      exact h.tbl hrl
    · have hre : r = (w.tbl t1).len := by omega
      have := Table.add_getEntity_new hS (w.pool.get).2 hb
      rw [Table.add_snd] at this
      rw [hre, this]; exact pp.alive
  · have := tbl_of_get b
    subst this
    rw [pp.aliveFrame _ (hne t1 r hr)]
    exact h.tbl hr

theorem registerComponent_locks {k : CompKind} {w w' : World} {n : Nat}
    (h : World.registerComponent k w = .ok n w') : w'.locks = w.locks := by
  unfold World.registerComponent at h
  simp only at h
  split at h
  · cases h
  · split at h
    · cases h
    · injection h with _ h2; subst h2; rfl

theorem registerComponent_qkeep {k : CompKind} {w w' : World} {n : Nat} {fl : List Nat}
    (ht : TInv w fl) (hr : World.registerComponent k w = .ok n w') : QKeep w w' := by
  obtain ⟨_, _, _, htab, _, hp, hc⟩ := registerComponent_ok hr
  exact ⟨fun h => h.lookup (LookupKeeps.of_tables hp htab),
    fun h => h.registerComponent ht.rel.sinv.maskReg hr, fun h => h.of_eq hc⟩

/-- component registration keeps `QGood` -/
theorem QGood.registerComponent {w : World} (g : QGood w) (k : CompKind)
    (hnp : panicOf (World.registerComponent k w) = none) :
    QGood (World.registerComponent k w).state := by
  obtain ⟨n, hr⟩ := ok_of_panicOf hnp
  obtain ⟨fl, ht, _, _⟩ := g.good
  have qk := registerComponent_qkeep ht hr
  exact ⟨g.good.registerComponent k hnp, qk.cidx g.cidx, qk.rows g.rows,
    by rw [registerComponent_locks hr]; exact g.lock⟩

/-- `NewEntity(ids…, rels…)` on success (hypotheses of `opNewEntity_rel_spec`) -/
theorem opNewEntity_qkeep (run : ProbeRunner) (p : Path) {w : World} {fl : List Nat}
    (h : TInv w fl) (hl : w.isLocked = false) (hno : ∀ (evt : Nat), w.obs.hasObservers evt = false)
    {ids : List Comp} {vals : List (Comp × Val)} {rels : List RelID}
    (hreg : ∀ (c : Comp), c ∈ ids → c < w.kinds.length)
    (hnd : (rels.map (·.comp)).Nodup) (hin : ∀ (r : RelID), r ∈ rels → r.comp ∈ ids)
    (hfew : w.tables.length < maxU32) (hrows : w.entities.length + 1 < 2 ^ 32)
    {e : Ent} {w' : World} (hok : opNewEntity run p ids vals rels w = .ok e w') :
    QKeep w w' ∧ w'.locks = w.locks := by
  have hpre : preCheck p ids rels w = .ok () w := by
    rcases preCheck_cases p ids rels w with h1 | ⟨k, h1⟩
    · exact h1
    · simp [opNewEntity, bind, M.bind, h1] at hok
  cases hf : findOrCreateTableAdd 0 Mask.empty ids rels w with
  | panic k s =>
    simp [opNewEntity, newEntityCore, bind, M.bind, hpre, checkLocked_unlocked w hl, hf] at hok
  | ok res w1 =>
    obtain ⟨t, a, m⟩ := res
    have hS := h.rel.sinv
    have hrel0 : (w.tbl 0).relIDs = [] :=
      hS.toSInvMid.relIDs_nil (get_of_lt hS.root.1) (by rw [hS.root.2.1]; exact hS.toSInvMid.root_noRel)
    obtain ⟨_, ar⟩ := h.rel.findOrCreateTableAdd h.flags h.freeEmpty
      (fun c hc => by simp at hc) hreg hS.root.1 hS.toSInvMid.root_notFree
      (fun r hr => by rw [hrel0] at hr; cases hr) hnd hin hf
    have foc := ar.foc
    have hu := ar.untouched
    have hno1 : ∀ (evt : Nat), w1.obs.hasObservers evt = false := by
      intro evt; rw [hu.obs]; exact hno evt
    have heq := opNewEntity_rel_eq run p ids vals rels w hl hpre hf hno1
    rw [heq] at hok
    injection hok with _ hw
    subst hw
    have hI1 : IdxInv w1 := foc.idx h.link.idx
    have hfew1 : w1.tables.length ≤ maxU32 := by have := ar.tablesLen; omega
    have link1 : PLink w1 fl :=
      h.link.transfer hI1 foc.pool (IdxSame.of_eq foc.entities) (by rw [hu.isTarget]) hfew1
    have hb : (w1.tbl t).len + 1 < 2 ^ 32 := by
      have := hI1.rows_le t
      rw [foc.entities] at this; omega
    have q1 : QKeep w w1 :=
      ⟨fun hr => hr.lookup (findOrCreateTableAdd_keeps hf), fun hc => hc.findOrCreateTableAdd hf,
       fun he => findOrCreateTable_cacheEmpty.1 hf he⟩
    have q2 : QKeep w1 (placedW w1 t false) :=
      ⟨fun hr => rowsAlive_placed hr link1 foc.tblLt false hb,
       fun hc => hc.of_frame (placedW_ciFrame w1 t false),
       fun he => he.of_eq (placedW_cache w1 t false)⟩
    refine ⟨((q1.trans q2).trans (registerW_qkeep _ rels)).trans (writeValsW_qkeep _ _ vals), ?_⟩
    show (placedW w1 t false).locks = w.locks
    rw [placedW_locks, hu.locks]

/-- **entity creation with relation targets keeps `QGood`** (`NewEntity(ids…, rels…)`, any path,
    hypotheses of `Good.newEntity`) -/
theorem QGood.newEntity (run : ProbeRunner) (p : Path) {w : World} (g : QGood w) {ids : List Comp}
    {vals : List (Comp × Val)} {rels : List RelID}
    (hreg : ∀ (c : Comp), c ∈ ids → c < w.kinds.length)
    (hnd : (rels.map (·.comp)).Nodup) (hin : ∀ (r : RelID), r ∈ rels → r.comp ∈ ids)
    (hrc : ∀ (r : RelID), r ∈ rels → w.isRelComp r.comp = true)
    (htin : ∀ (r : RelID), r ∈ rels → r.target.id < w.pool.ents.length)
    (hfew : w.tables.length < maxU32) (hrows : w.entities.length + 1 < 2 ^ 32)
    (hnp : panicOf (opNewEntity run p ids vals rels w) = none) :
    QGood (opNewEntity run p ids vals rels w).state := by
  have good' := g.good.newEntity run p hreg hnd hin hrc htin hfew hrows hnp
  obtain ⟨fl, h, hl, hno⟩ := g.good
  obtain ⟨e, hok⟩ := ok_of_panicOf hnp
  generalize (opNewEntity run p ids vals rels w).state = w' at hok good' ⊢
  obtain ⟨qk, hlk⟩ := opNewEntity_qkeep run p h hl hno hreg hnd hin hfew hrows hok
  exact ⟨good', qk.cidx g.cidx, qk.rows g.rows, by rw [hlk]; exact g.lock⟩

end QueryRel
end Ark
