/-
  Ark.Proofs.RelRefine2Gen — generations along the histories of the machine of
  `Ark.Proofs.RelRefine2Machine` (entity operations WITH relation components, `CopyEntity`,
  `Shrink`, `Reset`, filter operations, queries): what `Ark.Refine.reach_genBound` is for the
  relation-free machine.

  * `exec_poolStep`, `step_poolStep`, `step2_poolStep` — every step of the machine makes at most
    one move of the entity pool (`Ark.Refine.PoolStep`: nothing, one `Get`, one `Recycle` of a
    handle sitting in its slot, or `Reset`);
  * `run2_genBound`, `reach2_genBound` — after a history of `n` operations no generation of a
    non-reserved pool slot exceeds `n`; hence, within the history bound, **no handle that was
    issued carries the sentinel generation `maxU32`** (`reach2_issued_gen`), the generation
    `Reset` writes into the memory it keeps behind the pool slice.
  Kernel-only proofs, core Lean only.
-/
import Ark.Proofs.RelRefine2Reach

set_option autoImplicit false

namespace Ark
namespace RelRefine2

open World Ark.Props.C01World QueryRel QueryExact RelRefine
open Refine (PoolStep GenBound)

/-! ## 1. one move of the pool per step -/

/-- **an accepted operation of the relation machine makes at most one move of the pool** -/
theorem exec_poolStep (run : ProbeRunner) {s : St} {fl : List Nat} (H : HInv s fl)
    (hfew : s.w.tables.length + s.w.relationArchetypes.length + 1 ≤ maxU32)
    (hent : 2 * s.w.entities.length < 2 ^ 32) {op : Op} (hg : guard s op = true)
    (hp : pre s.ss op) {r : Option Ent} {w' : World} (hex : exec run s.w op = .ok r w') :
    PoolStep s.w.pool w'.pool := by
  have hfew' : s.w.tables.length < maxU32 := by omega
  have hent' : s.w.entities.length + 1 < 2 ^ 32 := by omega
  cases op with
  | reg size z ir =>
    cases hr : World.registerComponent { isRel := ir, zst := z, size := size } s.w with
    | panic k w1 => simp only [exec, hr] at hex; cases hex
    | ok n w1 =>
      simp only [exec, hr] at hex
      injection hex with _ hw
      subst hw
      obtain ⟨_, _, _, _, _, hpool, _⟩ := registerComponent_ok hr
      exact Or.inl hpool
  | new p ids vals rels =>
    obtain ⟨hnd, hreg, ⟨hrnd, hrin, hrall⟩, hv⟩ := hp
    have hreg' : ∀ (c : Comp), c ∈ ids → c < s.w.kinds.length := by rw [← H.zlen]; exact hreg
    have hin : ∀ (r : RelID), r ∈ rels → r.comp ∈ ids := fun r hr => (hrin r hr).1
    cases hop : opNewEntity run p ids vals rels s.w with
    | panic k w1 => simp only [exec, hop] at hex; cases hex
    | ok e w1 =>
      simp only [exec, hop] at hex
      injection hex with _ hw
      subst hw
      have more := opNewEntity_rel_more run p H.tinv H.unlocked H.noObs hreg' hrnd hin hfew' hent'
        hop
      exact Or.inr (Or.inl more.pool)
  | add p e ids vals rels =>
    obtain ⟨en, hf, ⟨hne, hnd, hall⟩, ⟨hrnd, hrin, hrall⟩, hv⟩ := hp
    have hm := find_some_mem hf
    obtain ⟨_, ha, h2, hnf, _, hsl0⟩ := H.live_facts hm
    have hsl := Pool.lt_of_slot hsl0
    have hg' : ((e ∈ s.issued ∧ ∀ c ∈ ids, c < s.ss.zst.length) ∧ RelsStep s.ss.isRel p ids rels) ∧
        tgtsExpr s rels = true := by
      simpa only [RelRefine.guard, Bool.and_eq_true, List.all_eq_true, decide_eq_true_eq] using hg
    have hreg' : ∀ (c : Comp), c ∈ ids → c < s.w.kinds.length := by
      rw [← H.zlen]; exact hg'.1.1.2
    have hin : ∀ (r : RelID), r ∈ rels → r.comp ∈ ids := fun r hr => (hrin r hr).1
    have hrc : ∀ (r : RelID), r ∈ rels → s.w.isRelComp r.comp = true :=
      fun r hr => by rw [← H.rget]; exact (hrin r hr).2
    cases hop : opAdd run p e ids vals rels s.w with
    | panic k w1 => simp only [exec, hop] at hex; cases hex
    | ok u w1 =>
      simp only [exec, hop] at hex
      injection hex with _ hw
      subst hw
      have more := opAdd_rel_more run p H.tinv H.unlocked H.noObs h2 hnf ha hsl hreg' hrnd hin hrc
        (H.targets_in hv) hfew' hent' hop
      exact Or.inl more.pool
  | rem p e ids =>
    obtain ⟨en, hf, hne, hnd, hall⟩ := hp
    have hm := find_some_mem hf
    obtain ⟨_, ha, h2, hnf, _, hsl0⟩ := H.live_facts hm
    have hsl := Pool.lt_of_slot hsl0
    have ok := H.ok e en hm
    have hmask : ∀ (c : Comp), (s.w.maskOf e).get c = true ↔ c ∈ Refine.keys en.comps := fun c => by
      rw [H.tinv.mask_iff_comps h2 hnf ha hsl ok.comps c, H.comps_iff hm c]
    obtain ⟨w1, hop, post⟩ := opRemove_rel_spec run p H.tinv H.unlocked H.noObs h2 hnf ha hsl hne hnd
      (fun c hc => (hmask c).mpr (hall c hc)) hfew' hent'
    simp only [exec, hop] at hex
    injection hex with _ hw
    subst hw
    exact Or.inl post.pool
  | setrel p e rels =>
    obtain ⟨en, hf, hne, hrnd, hhas, hv⟩ := hp
    have hm := find_some_mem hf
    obtain ⟨_, ha, h2, hnf, _, hsl0⟩ := H.live_facts hm
    have hsl := Pool.lt_of_slot hsl0
    have hemp : rels.isEmpty = false := by
      cases rels with
      | nil => exact absurd rfl hne
      | cons _ _ => rfl
    have hhas' : ∀ (r : RelID), r ∈ rels → (targetOf s.w e.id r.comp).isSome = true :=
      fun r hr => (H.target_isSome_iff hm r.comp).mpr (hhas r hr)
    cases hop : opSetRelations run p e (rels.map (·.comp)) rels s.w with
    | panic k w1 => simp only [exec, hop] at hex; cases hex
    | ok u w1 =>
      simp only [exec, hop] at hex
      injection hex with _ hw
      subst hw
      have more := opSetRelations_more run p H.tinv H.unlocked H.noObs h2 hnf ha hsl hemp hrnd hhas'
        hop
      exact Or.inl more.pool
  | set e vals =>
    obtain ⟨en, hf, hv⟩ := hp
    have hm := find_some_mem hf
    obtain ⟨_, ha, h2, hnf, _, hsl0⟩ := H.live_facts hm
    have hsl := Pool.lt_of_slot hsl0
    have ok := H.ok e en hm
    obtain ⟨w1, hop, post⟩ := opSet_rel_spec run H.tinv H.noObs h2 hnf ha hsl ok.comps
      (ids := Refine.keys vals) (by
        intro c hc
        obtain ⟨cv, hcv, rfl⟩ := List.mem_map.mp hc
        exact (H.comps_iff hm cv.1).mpr (hv cv hcv)) vals
    simp only [exec, hop] at hex
    injection hex with _ hw
    subst hw
    exact Or.inl post.pool
  | del e =>
    obtain ⟨en, hf⟩ := hp
    have hm := find_some_mem hf
    obtain ⟨_, ha, h2, hnf, _, hsl0⟩ := H.live_facts hm
    have hsl := Pool.lt_of_slot hsl0
    cases hop : opRemoveEntity run e s.w with
    | panic k w1 => simp only [exec, hop] at hex; cases hex
    | ok u w1 =>
      simp only [exec, hop] at hex
      injection hex with _ hw
      subst hw
      have more := opRemoveEntity_rel_more run H.tinv H.unlocked H.noObs h2 hnf ha hsl hfew hent hop
      exact Or.inr (Or.inr (Or.inl ⟨e, hsl0, more.pool⟩))

/-- a step of the relation machine makes at most one move of the pool -/
theorem step_poolStep (run : ProbeRunner) {s : St} {fl : List Nat} (H : HInv s fl)
    (hfew : s.w.tables.length + s.w.relationArchetypes.length + 1 ≤ maxU32)
    (hent : 2 * s.w.entities.length < 2 ^ 32) (op : Op) :
    PoolStep s.w.pool (RelRefine.step run s op).w.pool := by
  obtain ⟨_, _, _, _, g4, g5⟩ := step_goal run H hfew hent op
  by_cases hg : guard s op = true
  case neg =>
    have : RelRefine.step run s op = s := by rw [RelRefine.step, if_neg hg]
    rw [this]; exact Or.inl rfl
  have hw : (RelRefine.step run s op).w = (exec run s.w op).state := by rw [step_of_guard hg]
  rcases Classical.em (pre s.ss op) with hp | hnp
  · obtain ⟨r, w', hex⟩ := g5 hg hp
    have hw' : (RelRefine.step run s op).w = w' := by rw [hw, hex]; rfl
    rw [hw']
    exact exec_poolStep run H hfew hent hg hp hex
  · obtain ⟨k, hex⟩ := g4 hg hnp
    have hw' : (RelRefine.step run s op).w = s.w := by rw [hw, hex]; rfl
    rw [hw']; exact Or.inl rfl

/-- a query (complete iteration, or rejected by a typed filter) does not touch the pool -/
theorem step2_query_pool (run : ProbeRunner) {s : St} {fl : List Nat} (H : HInv2 s fl) (f : Nat)
    (extra : List RelID) : (step2 run s (.query f extra)).w.pool = s.w.pool := by
  by_cases hg : guardQ s.w (foAt s.w f) extra = true
  case neg => simp only [step2, if_neg hg]
  simp only [step2, if_pos hg]
  obtain ⟨hrt, hfok⟩ := foAt_facts H.finv.heap f
  by_cases hx : ExtraAdmissible s.w (foAt s.w f) extra
  case neg =>
    have ht : (foAt s.w f).typed = true := by
      cases htt : (foAt s.w f).typed with
      | true => rfl
      | false =>
        exfalso
        apply hx
        refine ⟨fun h => (by rw [htt] at h; cases h), fun _ r hr => ?_⟩
        simp only [guardQ, htt, Bool.false_or, List.all_eq_true, Bool.and_eq_true] at hg
        exact hg r hr
    have hbad : ¬ ExtraOK s.w (foAt s.w f).filter.mask extra :=
      fun h => hx ⟨fun _ => h, fun h' => by rw [ht] at h'; cases h'⟩
    obtain ⟨k, _, hd⟩ := drain_rejected (foAt s.w f) extra s.w ht hbad
    rw [hd]; rfl
  obtain ⟨l1, l2, b, hL, _⟩ := H.qgood.lockCycle
  obtain ⟨d1, d2⟩ := H.drain_both hrt hfok hx hL
  have hdr : ∃ (visits : List Visit),
      drain (foAt s.w f) extra s.w = .ok visits (s.w.withLocks l2) := by
    cases hc : (foAt s.w f).cache with
    | none =>
      obtain ⟨q, visits, Q⟩ := d1 hc
      exact ⟨visits, Q.drained⟩
    | some id =>
      cases hfind : AL.find? s.w.filters f with
      | none => simp only [foAt, hfind] at hc; cases hc
      | some fo =>
        have hfo : foAt s.w f = fo := by simp only [foAt, hfind]; rfl
        obtain ⟨e, he, h1, h2, h3⟩ := H.finv.heap.reg f fo id hfind (by rw [← hfo]; exact hc)
        have hlook := lookup_of_mem H.finv.cache he
        rw [h1] at hlook
        obtain ⟨q, visits, Q⟩ := d2 id e hc hlook (by rw [hfo]; exact h2) (by rw [hfo]; exact h3)
        exact ⟨visits, Q.drained⟩
  obtain ⟨visits, hd⟩ := hdr
  rw [hd]; rfl

/-- **every step of the machine makes at most one move of the pool** -/
theorem step2_poolStep (run : ProbeRunner) {s : St} {fl : List Nat} (H : HInv2 s fl)
    (hfew : s.w.tables.length + s.w.relationArchetypes.length + 1 ≤ maxU32)
    (hent : 2 * s.w.entities.length < 2 ^ 32) (op : Op2) :
    PoolStep s.w.pool (step2 run s op).w.pool := by
  have cf : ∀ {w' : World}, SameButCF s.w w' → PoolStep s.w.pool w'.pool := by
    intro w' hs
    obtain ⟨_, _, _, _, _, _, h7, _⟩ := sameButCF_fields hs
    exact Or.inl h7
  cases op with
  | base op => exact step_poolStep run H.base hfew hent op
  | copy e =>
    by_cases hi : e ∈ s.issued
    case neg =>
      simp only [step2, decide_eq_true_eq, if_neg hi]
      exact Or.inl rfl
    simp only [step2, decide_eq_true_eq, if_pos hi]
    cases ha : s.w.alive e with
    | false =>
      rw [opCopyEntity_dead run s.w H.base.unlocked e ha]
      exact Or.inl rfl
    | true =>
      obtain ⟨en, hf, hm⟩ := H.base.find_of_alive hi ha
      obtain ⟨_, _, h2, hnf, _, _⟩ := H.base.live_facts hm
      obtain ⟨w', hop, post⟩ := opCopyEntity_rel_spec run H.base.tinv H.base.unlocked H.base.noObs h2
        hnf ha (H.base.issued_in hi) (by omega)
      rw [hop]
      exact Or.inr (Or.inl post.pool)
  | shrink bounded =>
    have hl := H.base.unlocked
    have ht := H.base.tinv
    have hb : RowsBounded s.w := fun t => by have := ht.link.idx.rows_le t; omega
    obtain ⟨_, hrel⟩ := shrinkPure_rel ht.link.idx hb bounded
    have hstep : step2 run s (.shrink bounded) = ⟨(shrinkPure s.w bounded).1, s.issued, s.ss⟩ := by
      simp only [step2, opShrink_eq bounded s.w hl, Res.state]
    rw [hstep]
    exact Or.inl hrel.frame.pool
  | reset =>
    have post := step2_reset_spec run H
    rw [post.state]
    exact Or.inr (Or.inr (Or.inr (resetW_pool s.w)))
  | fdef f fo =>
    simp only [step2]
    split
    · exact cf (defFilter_sameButCF f fo s.w).1
    · exact Or.inl rfl
  | freg f => exact cf (H.finv.filterRegister H.base.tinv f).2.1
  | funreg f => exact cf (H.finv.filterUnregister H.base.tinv f).2.1
  | query f extra =>
    exact Or.inl (step2_query_pool run H f extra)

/-! ## 2. generations are bounded by the length of the history -/

/-- the generation bound along the prefixes of a history -/
theorem reach2_genBound_take (run : ProbeRunner) (cap rel : Nat) (ops : List Op2)
    (hlen : ops.length < 2 ^ 16) : ∀ (n : Nat), n ≤ ops.length →
    GenBound n (reach2 run cap rel (ops.take n)).w.pool
  | 0, _ => by
    intro i e he h2
    have he' : ([⟨0, maxU32⟩, ⟨1, maxU32⟩] : List Ent)[i]? = some e := he
    have := (List.getElem?_eq_some_iff.mp he').1
    simp only [List.length_cons, List.length_nil] at this
    omega
  | n + 1, hn => by
    have ih := reach2_genBound_take run cap rel ops hlen n (by omega)
    have hlt : n < ops.length := by omega
    have htake : ops.take (n + 1) = ops.take n ++ [ops[n]] := by
      rw [List.take_add_one, List.getElem?_eq_getElem hlt]; rfl
    have hl : (ops.take n).length = n := by rw [List.length_take]; omega
    obtain ⟨fl, H⟩ := reach2_inv run cap rel (ops.take n) (by rw [hl]; omega)
    obtain ⟨hfew, hent⟩ := reach2_fits run cap rel (ops.take n) (by rw [hl]; omega)
    rw [htake, reach2_snoc]
    exact ih.step (step2_poolStep run H hfew hent _)

/-- **after a history of `n` operations no generation of a non-reserved pool slot exceeds `n`** -/
theorem reach2_genBound (run : ProbeRunner) (cap rel : Nat) (ops : List Op2)
    (hlen : ops.length < 2 ^ 16) : GenBound ops.length (reach2 run cap rel ops).w.pool := by
  have := reach2_genBound_take run cap rel ops hlen ops.length (Nat.le_refl _)
  rwa [List.take_length] at this

/-- **no handle that was issued carries the sentinel generation**: the generation of an issued
    handle is bounded by the length of the history, hence is not `maxU32` -/
theorem reach2_issued_gen (run : ProbeRunner) (cap rel : Nat) (ops : List Op2)
    (hlen : ops.length < 2 ^ 16) :
    ∀ (h : Ent), h ∈ (reach2 run cap rel ops).issued → h.gen ≤ ops.length ∧ h.gen ≠ maxU32 := by
  intro h hi
  have hb := reach2_genBound run cap rel ops hlen
  obtain ⟨fl, H⟩ := reach2_inv run cap rel ops hlen
  obtain ⟨h2, sl, hsl, hle, _⟩ := H.base.ginv.issued_bound h hi
  have := hb h.id sl hsl h2
  have hle' : h.gen ≤ ops.length := Nat.le_trans hle this
  refine ⟨hle', ?_⟩
  simp only [maxU32]
  omega

end RelRefine2
end Ark
