/-
  Ark.Proofs.RefineOps — world-level specifications of further operations for the non-relation,
  observer-free fragment (under the joint invariant `CInv` of Ark/Proofs/RefineCore.lean), used as
  steps of the history machine in Ark/Proofs/Refine.lean:

  1. the three access paths (`Path.unsafe_`, `.map1`, `.typed`) reject a dead handle in the same
     way (`opAdd_dead_any`, `opRemove_dead_any`; `opExchange_dead_any` in §3);
  2. `graph.Find` (exchange) as a decision procedure: `graphFind_ok`, `graphFind_bad` (panic
     `missing` / `alreadyHas` / `addedAndRemoved`, state unchanged), `findOrCreateTable_eq_add`;
  3. `Exchange`: `exchangeCore_eq`, `exchangeCore_reject`, `exchangeCore_spec` (`ExchangePost`),
     `opExchange_eq`, `opExchange_panic`, `opExchange_spec` (`OpExchangePost`);
  4. `CopyEntity`: `Table.copyCells_spec` (the copy loop), `copiedW`, `opCopyEntity_eq`,
     `CInv.copied`, `opCopyEntity_spec` (`CopyPost`);
  5. `Shrink`: `shrinkStep_sinv_noRel` (the structural invariant without the relation-index
     invariant `RInv`), `opShrink_spec` (`ShrinkPost`: invariant kept, every entity unchanged);
  6. `Reset`: `Pool.PInv.reset`, `Pool.reset_dead`, `opReset_spec` (`ResetPostC`: the invariant is
     re-established with the empty free list; the handles of the ended epoch are dead);
  7. the access paths agree altogether: `opNewEntity_path_indep`, `opAdd_path_indep`,
     `opRemove_path_indep`, `opExchange_path_indep` (via `findOrCreateTable_untouched`,
     `addCore_untouched`, `exchangeCore_untouched`).

  Kernel-only proofs, core Lean only.
-/
import Ark.Proofs.RefineCore
import Ark.Proofs.ShrinkInv
import Ark.Proofs.ResetInv

set_option autoImplicit false

namespace Ark

open World Ark.Props.C01World

/-! ## 1. the access paths agree on dead handles -/

namespace World

/-- **rejection**: `Add` on a dead handle, through any path: `Unsafe.Add` and `Map.Add` check
    `Alive` first, `MapN.Add` leaves it to `World.add`; without relations nothing happens in
    between, so the result is the same -/
theorem opAdd_dead_any (run : ProbeRunner) (p : Path) (e : Ent) (ids : List Comp)
    (vals : List (Comp × Val)) (w : World) (hl : w.isLocked = false) (hd : w.alive e = false) :
    opAdd run p e ids vals [] w = .panic .deadEntity w := by
  have hcore := addCore_dead w hl e hd ids []
  cases p <;>
  simp [opAdd, preCheck_nil, bind, M.bind, M.get, M.assert, hd,
    hcore, pure, M.pure]

/-- **rejection**: `Remove` on a dead handle, through any path -/
theorem opRemove_dead_any (run : ProbeRunner) (p : Path) (e : Ent) (ids : List Comp) (w : World)
    (hl : w.isLocked = false) (hd : w.alive e = false) :
    opRemove run p e ids w = .panic .deadEntity w := by
  have hcore := removeCore_dead run w hl e hd ids
  cases p <;> simp [opRemove, bind, M.bind, M.get, M.assert, hd, hcore]

end World

/-! ## 2. `graph.Find` (exchange) as a decision procedure -/

namespace World

theorem graphFind_go_ok (start : Mask) (w : World) : ∀ (add : List Comp) (m : Mask),
    (∀ (c : Comp), c ∈ add → c < 256) → add.Nodup →
    (∀ (c : Comp), c ∈ add → m.get c = false ∧ start.get c = false) →
    graphFind.go start w m add = .ok (add.foldl Mask.set m) w
  | [], _, _, _, _ => rfl
  | c :: rest, m, hb, hnd, hp => by
    obtain ⟨h1, h2⟩ := hp c List.mem_cons_self
    simp only [graphFind.go, h1, h2, Bool.false_eq_true, if_false, List.foldl_cons]
    apply graphFind_go_ok start w rest (m.set c) (fun c' hc' => hb c' (List.mem_cons_of_mem _ hc'))
      (List.nodup_cons.1 hnd).2
    intro c' hc'
    obtain ⟨a, b⟩ := hp c' (List.mem_cons_of_mem _ hc')
    refine ⟨?_, b⟩
    have hne : c' ≠ c := by
      rintro rfl
      exact (List.nodup_cons.1 hnd).1 hc'
    rw [Mask.get_set, a]
    simp [hne]

theorem graphFind_go_bad (start : Mask) (w : World) : ∀ (add : List Comp) (m : Mask),
    (∀ (c : Comp), c ∈ add → c < 256) →
    ¬ (add.Nodup ∧ ∀ (c : Comp), c ∈ add → m.get c = false ∧ start.get c = false) →
    graphFind.go start w m add = .panic .alreadyHas w ∨
    graphFind.go start w m add = .panic .addedAndRemoved w
  | [], _, _, h => absurd ⟨List.nodup_nil, fun _ hc => by cases hc⟩ h
  | c :: rest, m, hb, h => by
    simp only [graphFind.go]
    cases hc : m.get c with
    | true => left; rfl
    | false =>
      simp only [Bool.false_eq_true, if_false]
      cases hs : start.get c with
      | true => right; rfl
      | false =>
        simp only [Bool.false_eq_true, if_false]
        apply graphFind_go_bad start w rest (m.set c)
          (fun c' hc' => hb c' (List.mem_cons_of_mem _ hc'))
        rintro ⟨hnd, hall⟩
        apply h
        have hne : ∀ c' ∈ rest, c' ≠ c ∧ m.get c' = false := by
          intro c' hc'
          have := (hall c' hc').1
          rw [Mask.get_set] at this
          have hlt : c' < 256 := hb c' (List.mem_cons_of_mem _ hc')
          by_cases he : c' = c
          · subst he; simp [hlt] at this
          · exact ⟨he, by simpa [he] using this⟩
        refine ⟨List.nodup_cons.2 ⟨fun hm => (hne c hm).1 rfl, hnd⟩, ?_⟩
        intro c' hc'
        rcases List.mem_cons.1 hc' with rfl | hm
        · exact ⟨hc, hs⟩
        · exact ⟨(hne c' hm).2, (hall c' hm).2⟩

/-- `graph.Find` succeeds when the removed components are distinct and present and the added ones
    are distinct and absent from the start mask -/
theorem graphFind_ok (start : Mask) (add rem : List Comp) (w : World)
    (hb : ∀ (c : Comp), c ∈ add → c < 256) (hrnd : rem.Nodup)
    (hpres : ∀ (c : Comp), c ∈ rem → start.get c = true) (hand : add.Nodup)
    (hnew : ∀ (c : Comp), c ∈ add → start.get c = false) :
    graphFind start start add rem w =
      .ok (add.foldl Mask.set (rem.foldl Mask.clear start)) w := by
  simp only [graphFind, graphFindRemove_ok start rem w hpres hrnd]
  apply graphFind_go_ok start w add _ hb hand
  intro c hc
  refine ⟨?_, hnew c hc⟩
  rw [Mask.get_foldl_clear, hnew c hc]; rfl

/-- **rejection** of `graph.Find`: a removed component that is absent (or listed twice) is refused
    with `missing`; an added component that is present after the removal (or listed twice) with
    `alreadyHas`; one that is both removed and added with `addedAndRemoved` — state unchanged -/
theorem graphFind_bad (start : Mask) (add rem : List Comp) (w : World)
    (hb : ∀ (c : Comp), c ∈ add → c < 256)
    (h : ¬ (rem.Nodup ∧ (∀ (c : Comp), c ∈ rem → start.get c = true) ∧ add.Nodup ∧
      ∀ (c : Comp), c ∈ add → start.get c = false)) :
    ∃ k, (k = .missing ∨ k = .alreadyHas ∨ k = .addedAndRemoved) ∧
      graphFind start start add rem w = .panic k w := by
  by_cases hr : rem.Nodup ∧ ∀ (c : Comp), c ∈ rem → start.get c = true
  · simp only [graphFind, graphFindRemove_ok start rem w hr.2 hr.1]
    have hbad : ¬ (add.Nodup ∧ ∀ (c : Comp), c ∈ add →
        (rem.foldl Mask.clear start).get c = false ∧ start.get c = false) :=
      fun hh => h ⟨hr.1, hr.2, hh.1, fun c hc => (hh.2 c hc).2⟩
    rcases graphFind_go_bad start w add _ hb hbad with hk | hk
    · exact ⟨_, Or.inr (Or.inl rfl), hk⟩
    · exact ⟨_, Or.inr (Or.inr rfl), hk⟩
  · refine ⟨_, Or.inl rfl, ?_⟩
    simp only [graphFind, graphFindRemove_bad start rem w hr]

/-- when the old table lists no relation, `findOrCreateTable` (exchange) is the mask walk followed
    by the tail of `findOrCreateTableAdd` for the resulting mask -/
theorem findOrCreateTable_eq_add (oldT : Nat) (startMask m : Mask) (add rem : List Comp)
    (w : World) (hg : graphFind startMask startMask add rem w = .ok m w)
    (hrel0 : (w.tbl oldT).relIDs = []) :
    findOrCreateTable oldT startMask add rem [] w =
      match findOrCreateTableAdd oldT m [] [] w with
      | .ok r w' => .ok (r.1, r.2.1, r.2.2, false) w'
      | .panic k w' => .panic k w' := by
  obtain ⟨a, w1, ha⟩ := findOrCreateArch_never_panics m w
  have ht : w1.tbl oldT = w.tbl oldT := by simp only [tbl, findOrCreateArch_tables ha]
  have hall : (if (!rem.isEmpty) = true then
        ((List.filter (fun (r : RelID) => m.get r.comp) []) ++ ([] : List RelID),
          ([] : List RelID).any fun r => !m.get r.comp)
      else (([] : List RelID), false)) = (([] : List RelID), false) := by
    split <;> rfl
  simp only [findOrCreateTable, findOrCreateTableAdd, bind, M.bind, hg, graphFindAdd,
    graphFindAdd.go, ha, M.get, ht, hrel0, relsForAdd, List.isEmpty_nil, if_true, hall]
  cases hgt : getTable a [] w1 with
  | panic k s => rfl
  | ok r s =>
    cases r with
    | some t => rfl
    | none =>
      simp only
      cases hct : createTable a [] s with
      | panic k s2 => simp only [M.bind, hct]
      | ok t s2 => simp only [M.bind, hct, pure, M.pure]

end World

/-! ## 3. `World.exchange` / `Exchange` -/

namespace World

theorem exchangeCore_eq (run : ProbeRunner) (e : Ent) (add rem : List Comp) (w : World)
    (hl : w.isLocked = false) (ha : w.alive e = true) (hne : ¬ (add = [] ∧ rem = []))
    {oldT row : Nat} (hix : w.index e.id = (oldT, row)) {t a : Nat} {m : Mask} {rr : Bool}
    {w1 : World}
    (hfoc : findOrCreateTable oldT (w.arch (w.tbl oldT).arch).mask add rem [] w =
      .ok (t, a, m, rr) w1)
    (hno : ∀ evt : Nat, w1.obs.hasObservers evt = false) :
    exchangeCore run e add rem [] w =
      .ok ((w.arch (w.tbl oldT).arch).mask, ((addMove w1 e oldT row t m).arch a).mask)
        (addMove w1 e oldT row t m) := by
  have hemp : (add.isEmpty && rem.isEmpty) = false := by
    cases add with
    | nil =>
      cases rem with
      | nil => exact absurd ⟨rfl, rfl⟩ hne
      | cons _ _ => rfl
    | cons _ _ => rfl
  cases hre : rem.isEmpty with
  | false =>
    simp only [exchangeCore, bind, M.bind, checkLocked_unlocked w hl, M.get, M.assert, ha, if_true,
      hre, Bool.not_false, hix, hfoc, hno, Bool.and_false, Bool.or_false,
      Bool.false_eq_true, if_false, moveRow_eq, registerTargets, M.modify, List.foldl_nil, pure,
      M.pure]
    rfl
  | true =>
    have hae : add.isEmpty = false := by rw [hre, Bool.and_true] at hemp; exact hemp
    simp only [exchangeCore, bind, M.bind, checkLocked_unlocked w hl, M.get, M.assert, ha, if_true,
      hre, hae, Bool.not_false, Bool.not_true, hix, hfoc, Bool.and_true,
      Bool.false_eq_true, if_false, moveRow_eq, registerTargets, M.modify,
      List.foldl_nil, pure, M.pure]
    rfl

/-- **rejection**: an `exchange` whose component lists do not fit the entity's mask panics with
    the state unchanged -/
theorem exchangeCore_reject (run : ProbeRunner) (e : Ent) (add rem : List Comp) (rels : List RelID)
    (w : World) (hl : w.isLocked = false) (ha : w.alive e = true) (hne : ¬ (add = [] ∧ rem = []))
    (hb : ∀ (c : Comp), c ∈ add → c < 256)
    (h : ¬ (rem.Nodup ∧ (∀ (c : Comp), c ∈ rem → (w.maskOf e).get c = true) ∧ add.Nodup ∧
      ∀ (c : Comp), c ∈ add → (w.maskOf e).get c = false)) :
    ∃ k, (k = .missing ∨ k = .alreadyHas ∨ k = .addedAndRemoved) ∧
      exchangeCore run e add rem rels w = .panic k w := by
  have hemp : (add.isEmpty && rem.isEmpty) = false := by
    cases add with
    | nil =>
      cases rem with
      | nil => exact absurd ⟨rfl, rfl⟩ hne
      | cons _ _ => rfl
    | cons _ _ => rfl
  cases hix : w.index e.id with
  | mk oldT row =>
    have hm : w.maskOf e = (w.arch (w.tbl oldT).arch).mask := by simp only [maskOf, hix]
    rw [hm] at h
    obtain ⟨k, hk, hg⟩ := graphFind_bad _ add rem w hb h
    refine ⟨k, hk, ?_⟩
    simp only [exchangeCore, bind, M.bind, checkLocked_unlocked w hl, M.get, M.assert, ha, if_true,
      hemp, Bool.not_false, hix, findOrCreateTable, hg]

end World

/-- what `World.exchange(e, add, rem)` guarantees -/
structure ExchangePost (w : World) (fl : List Nat) (e : Ent) (add rem : List Comp) (w' : World) :
    Prop where
  /-- the invariant is kept, with the same free list -/
  cinv : CInv w' fl
  unlocked : w'.isLocked = w.isLocked
  kinds : w'.kinds = w.kinds
  pool : w'.pool = w.pool
  maxComps : w'.maxComps = w.maxComps
  aliveSame : ∀ x : Ent, w'.alive x = w.alive x
  /-- the component set is the mask with `rem` cleared and `add` set -/
  comps : compsOf w' e.id =
    some ((add.foldl Mask.set (rem.foldl Mask.clear (w.maskOf e))).toList w.kinds.length)
  /-- the components that stay keep their values -/
  kept : ∀ c : Comp, (w.maskOf e).get c = true → c ∉ rem → valOf w' e.id c = valOf w e.id c
  /-- the removed components are gone -/
  gone : ∀ c : Comp, c ∈ rem → valOf w' e.id c = none
  /-- the added components read the zero value -/
  added : ∀ c : Comp, c ∈ add → valOf w' e.id c = some 0
  /-- every other entity is unchanged -/
  frame : ∀ j : Nat, j ≠ e.id → SameEnt w w' j
  tablesLen : w'.tables.length ≤ w.tables.length + 1
  entitiesLen : w'.entities.length = w.entities.length

/-- **exchangeCore_spec** — `World.exchange(e, add, rem)` for a live handle; not both lists empty;
    `rem` distinct and all in the entity's mask; `add` distinct, registered, none of them in the
    entity's mask (no observers: the event block is skipped) -/
theorem exchangeCore_spec (run : ProbeRunner) {w : World} {fl : List Nat} (h : CInv w fl)
    (hl : w.isLocked = false) {e : Ent} (h2 : 2 ≤ e.id) (hnf : e.id ∉ fl) (ha : w.alive e = true)
    (hin : e.id < w.pool.ents.length)
    {add rem : List Comp} (hne : ¬ (add = [] ∧ rem = [])) (hrnd : rem.Nodup)
    (hpres : ∀ (c : Comp), c ∈ rem → (w.maskOf e).get c = true) (hand : add.Nodup)
    (hreg : ∀ (c : Comp), c ∈ add → c < w.kinds.length)
    (hnew : ∀ (c : Comp), c ∈ add → (w.maskOf e).get c = false)
    (hfew : w.tables.length < maxU32) (hrows : ∀ t : Nat, (w.tbl t).len + 1 < 2 ^ 32) :
    ∃ w', exchangeCore run e add rem [] w =
        .ok (w.maskOf e, add.foldl Mask.set (rem.foldl Mask.clear (w.maskOf e))) w' ∧
      ExchangePost w fl e add rem w' := by
  obtain ⟨oldT, row, he, ht, _⟩ := h.live_entry h2 hnf ha hin
  have hix := index_of_get he
  have hm : w.maskOf e = (w.arch (w.tbl oldT).arch).mask := by simp only [maskOf, hix]
  obtain ⟨holdlt, _, _, halt, _, _⟩ := h.table_of_entry he ht
  have hb256 : ∀ (c : Comp), c ∈ add → c < 256 := fun c hc => h.reg_lt_256 (hreg c hc)
  have hrel0 : (w.tbl oldT).relIDs = [] := h.relIDs_nil holdlt
  have hg := graphFind_ok (w.maskOf e) add rem w hb256 hrnd hpres hand hnew
  -- the new mask
  have hget : ∀ c : Nat, (add.foldl Mask.set (rem.foldl Mask.clear (w.maskOf e))).get c =
      (((w.maskOf e).get c && !decide (c ∈ rem)) || decide (c < 256) && decide (c ∈ add)) := by
    intro c; rw [Mask.get_ofList_foldl, Mask.get_foldl_clear]
  have hregM : ∀ c : Nat,
      (add.foldl Mask.set (rem.foldl Mask.clear (w.maskOf e))).get c = true → c < w.kinds.length := by
    intro c hc
    rw [hget] at hc
    cases hs : (w.maskOf e).get c with
    | true => exact (h.comps_of_live h2 hnf ha hin).2 c hs
    | false =>
      rw [hs] at hc
      simp at hc
      exact hreg c hc.2
  obtain ⟨t, a, w1, hok, fc, _, hsame⟩ := h.sinv.foc_nil_spec h.idx h.noRelKinds hrel0 hregM
  have hu := findOrCreateTableAdd_untouched hok
  have hlen1 := findOrCreateTableAdd_tables_len hok
  have hfoc : findOrCreateTable oldT (w.maskOf e) add rem [] w =
      .ok (t, a, add.foldl Mask.set (rem.foldl Mask.clear (w.maskOf e)), false) w1 := by
    rw [findOrCreateTable_eq_add oldT _ _ add rem w hg hrel0, hok]
  have hneT : t ≠ oldT := by
    apply fc.ne_old h.sinv holdlt
    rw [← hm]
    intro heq
    have hgc := fun c => congrArg (fun m => Mask.get m c) heq
    simp only [hget] at hgc
    cases add with
    | cons c rest =>
      have := hgc c
      rw [hnew c List.mem_cons_self] at this
      simp [hb256 c List.mem_cons_self] at this
    | nil =>
      cases rem with
      | nil => exact hne ⟨rfl, rfl⟩
      | cons c rest =>
        have := hgc c
        rw [hpres c List.mem_cons_self] at this
        simp at this
  obtain ⟨mp, hma⟩ := h.move_spec he ht fc hu hsame hneT hlen1 hfew hrows
  have hfoc' := hfoc
  rw [hm] at hfoc'
  have heq := exchangeCore_eq run e add rem w hl ha hne hix hfoc' (by rw [hu.obs]; exact h.noObs)
  rw [← hm] at heq
  rw [hma] at heq
  refine ⟨_, heq, ?_⟩
  rw [← hm] at mp
  exact
    { cinv := mp.cinv
      unlocked := mp.unlocked
      kinds := mp.kinds
      pool := mp.pool
      maxComps := mp.maxComps
      aliveSame := mp.aliveSame
      comps := mp.comps
      kept := by
        intro c hc hnr
        have hlt := (h.comps_of_live h2 hnf ha hin).2 c hc
        have hn : (add.foldl Mask.set (rem.foldl Mask.clear (w.maskOf e))).get c = true := by
          rw [hget, hc]; simp [hnr]
        rw [mp.vals c hlt hn, if_pos hc]
      gone := by
        intro c hc
        apply valOf_none_of_comps mp.comps
        rw [Mask.mem_toList, hget]
        have hna : c ∉ add := fun hca => by
          have := hnew c hca
          rw [hpres c hc] at this; cases this
        simp [hc, hna]
      added := by
        intro c hc
        have hn : (add.foldl Mask.set (rem.foldl Mask.clear (w.maskOf e))).get c = true := by
          rw [hget]; simp [hb256 c hc, hc]
        rw [mp.vals c (hreg c hc) hn, if_neg (by rw [hnew c hc]; simp)]
      frame := mp.frame
      tablesLen := mp.tablesLen
      entitiesLen := mp.entitiesLen }

namespace World

/-- without observers, `Exchange` through any path is `World.exchange` followed by the writes -/
theorem opExchange_eq (run : ProbeRunner) (p : Path) (e : Ent) (add : List Comp)
    (vals : List (Comp × Val)) (rem : List Comp) (w : World) (ha : w.alive e = true)
    {old new : Mask} {w' : World}
    (hcore : exchangeCore run e add rem [] w = .ok (old, new) w')
    (hno : ∀ evt : Nat, w'.obs.hasObservers evt = false) :
    opExchange run p e add vals rem [] w = .ok () (writeValsW w' e vals) := by
  have hno2 : ∀ evt : Nat, (writeValsW w' e vals).obs.hasObservers evt = false := hno
  cases p <;> cases hae : add.isEmpty <;>
  simp [opExchange, preCheck, preCheckMap, preCheckTyped, M.forM', bind, M.bind, M.get, M.assert,
    ha, hae, hcore, writeVals_eq, fireAddIfHas_none, hno, hno2, pure, M.pure]

/-- a panic of `World.exchange` is the panic of `Exchange` (same state) -/
theorem opExchange_panic (run : ProbeRunner) (p : Path) (e : Ent) (add : List Comp)
    (vals : List (Comp × Val)) (rem : List Comp) (w : World) (ha : w.alive e = true)
    {k : PanicKind} {w' : World} (hcore : exchangeCore run e add rem [] w = .panic k w') :
    opExchange run p e add vals rem [] w = .panic k w' := by
  cases p <;>
  simp [opExchange, preCheck, preCheckMap, preCheckTyped, M.forM', bind, M.bind, M.get, M.assert,
    ha, hcore, pure, M.pure]

/-- **rejection**: `Exchange` on a dead handle, through any path (`Unsafe.Exchange` checks `Alive`
    first, `ExchangeN.Exchange` leaves it to `World.exchange`) -/
theorem opExchange_dead_any (run : ProbeRunner) (p : Path) (e : Ent) (add : List Comp)
    (vals : List (Comp × Val)) (rem : List Comp) (w : World) (hl : w.isLocked = false)
    (hd : w.alive e = false) :
    opExchange run p e add vals rem [] w = .panic .deadEntity w := by
  have hcore := exchangeCore_dead run w hl e hd add rem []
  cases p <;>
  simp [opExchange, preCheck, preCheckMap, preCheckTyped, M.forM', bind, M.bind, M.get, M.assert,
    hd, hcore, pure, M.pure]

end World

/-- what `Exchange(e, add, rem)` with the values `vals` guarantees -/
structure OpExchangePost (w : World) (fl : List Nat) (e : Ent) (add rem : List Comp)
    (vals : List (Comp × Val)) (w' : World) : Prop where
  cinv : CInv w' fl
  unlocked : w'.isLocked = w.isLocked
  kinds : w'.kinds = w.kinds
  pool : w'.pool = w.pool
  maxComps : w'.maxComps = w.maxComps
  aliveSame : ∀ x : Ent, w'.alive x = w.alive x
  comps : compsOf w' e.id =
    some ((add.foldl Mask.set (rem.foldl Mask.clear (w.maskOf e))).toList w.kinds.length)
  /-- a component that stays: its old value, overwritten by the last write to it (if any) -/
  kept : ∀ (c : Comp) (v : Val), (w.maskOf e).get c = true → c ∉ rem → valOf w e.id c = some v →
    valOf w' e.id c = some (if (w.kinds.getD c {}).zst = true then v else applyVals v vals c)
  /-- a removed component is gone (a write to it has no effect) -/
  gone : ∀ c : Comp, c ∈ rem → valOf w' e.id c = none
  /-- an added component: the last value written to it, zero if none (always zero if zero-size) -/
  added : ∀ c : Comp, c ∈ add →
    valOf w' e.id c = some (if (w.kinds.getD c {}).zst = true then 0 else applyVals 0 vals c)
  frame : ∀ j : Nat, j ≠ e.id → SameEnt w w' j
  tablesLen : w'.tables.length ≤ w.tables.length + 1
  entitiesLen : w'.entities.length = w.entities.length

/-- **opExchange_spec** — `Exchange` through any of the paths (no relations, no observers):
    `World.exchange`, then the values are written -/
theorem opExchange_spec (run : ProbeRunner) (p : Path) {w : World} {fl : List Nat} (h : CInv w fl)
    (hl : w.isLocked = false) {e : Ent} (h2 : 2 ≤ e.id) (hnf : e.id ∉ fl) (ha : w.alive e = true)
    (hin : e.id < w.pool.ents.length)
    {add rem : List Comp} (hne : ¬ (add = [] ∧ rem = [])) (hrnd : rem.Nodup)
    (hpres : ∀ (c : Comp), c ∈ rem → (w.maskOf e).get c = true) (hand : add.Nodup)
    (hreg : ∀ (c : Comp), c ∈ add → c < w.kinds.length)
    (hnew : ∀ (c : Comp), c ∈ add → (w.maskOf e).get c = false) (vals : List (Comp × Val))
    (hfew : w.tables.length < maxU32) (hrows : ∀ t : Nat, (w.tbl t).len + 1 < 2 ^ 32) :
    ∃ w', opExchange run p e add vals rem [] w = .ok () w' ∧
      OpExchangePost w fl e add rem vals w' := by
  obtain ⟨w1, hcore, ep⟩ :=
    exchangeCore_spec run h hl h2 hnf ha hin hne hrnd hpres hand hreg hnew hfew hrows
  have ha1 : w1.alive e = true := by rw [ep.aliveSame]; exact ha
  have wp := ep.cinv.writeVals h2 hnf ha1 (by rw [ep.pool]; exact hin) vals
  refine ⟨_, opExchange_eq run p e add vals rem w ha hcore ep.cinv.noObs, ?_⟩
  exact
    { cinv := wp.cinv
      unlocked := wp.unlocked.trans ep.unlocked
      kinds := wp.kinds.trans ep.kinds
      pool := wp.pool.trans ep.pool
      maxComps := wp.maxComps.trans ep.maxComps
      aliveSame := fun x => (wp.aliveSame x).trans (ep.aliveSame x)
      comps := wp.comps.trans ep.comps
      kept := by
        intro c v hc hnr hv
        rw [wp.vals c v (by rw [ep.kept c hc hnr]; exact hv), ep.kinds]
      gone := fun c hc => wp.absent c (ep.gone c hc)
      added := by
        intro c hc
        rw [wp.vals c 0 (ep.added c hc), ep.kinds]
      frame := fun j hj => (ep.frame j hj).trans (wp.frame j hj)
      tablesLen := by rw [wp.tablesLen]; exact ep.tablesLen
      entitiesLen := wp.entitiesLen.trans ep.entitiesLen }

/-! ## 4. `CopyEntity` -/

namespace Table

/-- the copy loop of `CopyEntity` over the columns `l`: cell `(i, row)` into cell `(i, idx)` -/
theorem copyCells_spec (row idx : Nat) (hne : row ≠ idx) : ∀ (l : List Nat) (T : Table),
    T.Shape → idx < T.len →
    (∀ i ∈ l, i < T.ids.length) →
    WriteRel idx T (l.foldl (fun T i => T.setCell i idx (T.cell i row)) T) ∧
    ∀ j ∈ l, (l.foldl (fun T i => T.setCell i idx (T.cell i row)) T).cell j idx = T.cell j row
  | [], T, _, _, _ => ⟨WriteRel.refl idx T, fun _ hj => by cases hj⟩
  | i :: rest, T, hS, hidx, hl => by
    have hw1 := setCell_writeRel T i idx (T.cell i row) hidx
    have hS1 := hw1.shape hS
    obtain ⟨hw2, hc2⟩ := copyCells_spec row idx hne rest (T.setCell i idx (T.cell i row)) hS1
      (by rw [hw1.len]; exact hidx)
      (fun k hk => by rw [hw1.ids]; exact hl k (List.mem_cons_of_mem _ hk))
    simp only [List.foldl_cons]
    refine ⟨hw1.trans hw2, fun j hj => ?_⟩
    by_cases hjr : j ∈ rest
    · rw [hc2 j hjr]; exact hw1.other j row hne
    · have hji : j = i := by
        rcases List.mem_cons.mp hj with h1 | h1
        · exact h1
        · exact absurd h1 hjr
      subst hji
      -- the cell is not touched by the rest of the loop
      have hkeep : ∀ (l : List Nat) (U : Table), j ∉ l →
          (l.foldl (fun T i => T.setCell i idx (T.cell i row)) U).cell j idx = U.cell j idx := by
        intro l
        induction l with
        | nil => intro U _; rfl
        | cons k l ih =>
          intro U hk
          simp only [List.foldl_cons]
          rw [ih _ (fun hh => hk (List.mem_cons_of_mem _ hh))]
          exact setCell_cell_ne U k idx _ j idx
            (Or.inl (fun hh => hk (by rw [hh]; exact List.mem_cons_self)))
      rw [hkeep rest _ hjr]
      cases hz : T.zst.getD j false with
      | true =>
        rw [setCell_zst T j idx _ hz, hS.zst_zero j hz idx, hS.zst_zero j hz row]
      | false =>
        exact setCell_cell_self hS j idx _ (hl j List.mem_cons_self) hz
          (Nat.lt_of_lt_of_le hidx hS.len_le)

end Table

namespace World

/-- the state change of the copy loop of `CopyEntity` (a verbatim copy of the `M.modify`
    argument) -/
def copiedW (w : World) (t row idx : Nat) : World :=
  w.modTbl t fun T =>
    (List.range T.ids.length).foldl (fun T i => T.setCell i idx (T.cell i row)) T

/-- without observers, `CopyEntity` of a live handle on an unlocked world is `placeNew` into the
    source's table followed by the copy loop; the callback runner is not consulted -/
theorem opCopyEntity_eq (run : ProbeRunner) (w : World) (src : Ent) (hl : w.isLocked = false)
    (ha : w.alive src = true) {t row : Nat} (hix : w.index src.id = (t, row))
    (hno : ∀ evt : Nat, w.obs.hasObservers evt = false) :
    opCopyEntity run src w =
      .ok (w.pool.get).2 (copiedW (placedW w t false) t row (w.tbl t).len) := by
  have hno2 : ∀ evt : Nat,
      (copiedW (placedW w t false) t row (w.tbl t).len).obs.hasObservers evt = false := by
    intro evt
    show (placedW w t false).obs.hasObservers evt = false
    rw [placedW_obs]; exact hno evt
  have hrel : ∀ (e : Ent) (m : Mask),
      fireCreateEntityRelIfHas run e m (copiedW (placedW w t false) t row (w.tbl t).len) =
        .ok () (copiedW (placedW w t false) t row (w.tbl t).len) := by
    intro e m
    simp only [fireCreateEntityRelIfHas, bind, M.bind, M.get, hno2, Bool.false_eq_true, if_false,
      pure, M.pure]
  simp only [copiedW] at hno2 hrel ⊢
  simp only [opCopyEntity, bind, M.bind, checkLocked_unlocked w hl, M.get, M.assert, ha, if_true,
    hix, placeNew_eq, M.modify, fireCreateEntityIfHas_none run _ _ _ (hno2 _), pure]
  split <;> simp only [M.bind, hrel, M.pure]

end World

/-- what `CopyEntity(src)` guarantees: `e` is the new handle -/
structure CopyPost (w : World) (fl : List Nat) (src e : Ent) (w' : World) : Prop where
  /-- the invariant is kept; the free list loses its head (if any) -/
  cinv : CInv w' fl.tail
  unlocked : w'.isLocked = w.isLocked
  kinds : w'.kinds = w.kinds
  maxComps : w'.maxComps = w.maxComps
  pool : w'.pool = (w.pool.get).1
  ge2 : 2 ≤ e.id
  /-- the ID was not in use: a brand-new slot, or the head of the free list -/
  unused : (e.id = w.entities.length ∧ fl = [] ∧ e.gen = 0) ∨
    (e.id < w.entities.length ∧ fl = e.id :: fl.tail)
  notin : e.id ∉ fl.tail
  alive : w'.alive e = true
  inPool : w'.pool.ents[e.id]? = some e
  aliveFrame : ∀ h : Ent, h.id ≠ e.id → w'.alive h = w.alive h
  frame : ∀ j : Nat, j ≠ e.id → SameEnt w w' j
  /-- every previously alive handle (the source among them) is another entity, stays alive and
      keeps everything -/
  live : ∀ h : Ent, h.id ∉ fl → w.alive h = true → h.id < w.pool.ents.length →
    h ≠ e ∧ h.id ≠ e.id ∧ w'.alive h = true ∧ SameEnt w w' h.id
  /-- the copy has the component set of the source … -/
  comps : compsOf w' e.id = compsOf w src.id
  /-- … and the value of every component of the source (as it was before the call) -/
  vals : ∀ c : Comp, valOf w' e.id c = valOf w src.id c
  tablesLen : w'.tables.length = w.tables.length
  entitiesLen : w'.entities.length ≤ w.entities.length + 1

/-- **the copy**: placement of a fresh handle in the table of the live entity `src`, then the copy
    loop -/
theorem CInv.copied {w : World} {fl : List Nat} (h : CInv w fl) {src : Ent} (h2 : 2 ≤ src.id)
    (hnf : src.id ∉ fl) (ha : w.alive src = true) (hin : src.id < w.pool.ents.length)
    (hrows : ∀ t : Nat, (w.tbl t).len + 1 < 2 ^ 32) :
    ∃ t row, w.index src.id = (t, row) ∧
      CopyPost w fl src (w.pool.get).2 (copiedW (placedW w t false) t row (w.tbl t).len) := by
  obtain ⟨t, row, he, ht, _⟩ := h.live_entry h2 hnf ha hin
  refine ⟨t, row, index_of_get he, ?_⟩
  obtain ⟨hTt, hrow, hid⟩ := h.idx.indexed he ht
  have hlt := lt_of_get hTt
  have pp := h.placed hlt false (hrows t)
  -- the placed world
  have hlt1 : t < (placedW w t false).tables.length := by rw [pp.tablesLen]; exact hlt
  have hT1 : (placedW w t false).tbl t = ((w.tbl t).add (w.pool.get).2).1 := by
    apply tbl_of_get
    rw [(placedW_place w t false).2, place_tables]
    exact List.getElem?_set_self hlt
  have hSt := h.idx.shape t _ hTt
  have hS1 : ((w.tbl t).add (w.pool.get).2).1.Shape := Table.add_shape hSt _ (hrows t)
  have hne : row ≠ (w.tbl t).len := by omega
  have hidx1 : (w.tbl t).len < ((w.tbl t).add (w.pool.get).2).1.len := by
    rw [Table.add_fst_len]; omega
  obtain ⟨hw, hcells⟩ := Table.copyCells_spec row (w.tbl t).len hne
    (List.range ((w.tbl t).add (w.pool.get).2).1.ids.length) _ hS1 hidx1
    (fun i hi => List.mem_range.mp hi)
  have hCW : copiedW (placedW w t false) t row (w.tbl t).len =
      (placedW w t false).setTbl t
        ((List.range ((w.tbl t).add (w.pool.get).2).1.ids.length).foldl
          (fun T i => T.setCell i (w.tbl t).len (T.cell i row))
          ((w.tbl t).add (w.pool.get).2).1) := by
    simp only [copiedW, modTbl, hT1]
  -- the new entity's entry
  have hge := Pool.get_spec w.pool fl h.pool
  have hle : (w.pool.get).2.id ≤ w.entities.length := by
    rw [h.lenEq]; rcases hge.cases with ⟨a, _⟩ | ⟨a, _⟩ <;> omega
  have hentE : (placedW w t false).entities[(w.pool.get).2.id]? = some (t, (w.tbl t).len) := by
    rw [(placedW_place w t false).1, place_lookup w _ t hle, if_pos rfl]
  have hnewRow : (((placedW w t false).tbl t).getEntity (w.tbl t).len).id = (w.pool.get).2.id := by
    rw [hT1]
    have := Table.add_getEntity_new hSt (w.pool.get).2 (hrows t)
    rw [Table.add_snd] at this
    rw [this]
  rw [← hT1] at hw
  have hI2 : IdxInv (copiedW (placedW w t false) t row (w.tbl t).len) := by
    rw [hCW, ← hT1]
    exact pp.cinv.idx.of_same_rows t _ (hw.shape (by rw [hT1]; exact hS1)) hw.id hw.len
      (fun r _ => hw.getEntity r)
  have hlen2 : (copiedW (placedW w t false) t row (w.tbl t).len).tables.length =
      (placedW w t false).tables.length := by
    rw [hCW, setTbl_tables, List.length_set]
  have htbl2 : (copiedW (placedW w t false) t row (w.tbl t).len).tbl t =
      (List.range ((w.tbl t).add (w.pool.get).2).1.ids.length).foldl
          (fun T i => T.setCell i (w.tbl t).len (T.cell i row))
          ((w.tbl t).add (w.pool.get).2).1 := by
    rw [hCW, setTbl_tbl_self _ hlt1]
  have hS2 : SInv (copiedW (placedW w t false) t row (w.tbl t).len) := by
    refine pp.cinv.sinv.of_sameMeta (w' := copiedW (placedW w t false) t row (w.tbl t).len)
      rfl rfl hlen2 ?_
    intro t' _
    by_cases htt : t' = t
    · subst htt
      rw [htbl2, hT1]
      exact Table.foldl_sameMeta _ (fun T i => Table.setCell_sameMeta T i _ _) _ _
    · rw [hCW, setTbl_tbl_ne _ _ (Ne.symm htt)]
      exact Table.SameMeta.refl _
  have hC2 : CInv (copiedW (placedW w t false) t row (w.tbl t).len) fl.tail :=
    pp.cinv.transfer hI2 hS2 rfl ⟨rfl, fun _ => Or.inl rfl⟩ rfl ⟨rfl, rfl, rfl, rfl⟩
      (by rw [hlen2]; exact pp.cinv.fewTables)
  have hFr2 : ∀ j : Nat, j ≠ (w.pool.get).2.id →
      SameEnt (placedW w t false) (copiedW (placedW w t false) t row (w.tbl t).len) j := by
    intro j hj
    rw [hCW, ← hT1]
    exact same_write pp.cinv.idx hw (by rw [hnewRow]; exact fun hh => hj hh.symm)
  have htm : t ≠ maxU32 := ht
  have hent2 : (copiedW (placedW w t false) t row (w.tbl t).len).entities[(w.pool.get).2.id]? =
      some (t, (w.tbl t).len) := hentE
  have htab2 : (copiedW (placedW w t false) t row (w.tbl t).len).tables[t]? =
      some ((copiedW (placedW w t false) t row (w.tbl t).len).tbl t) :=
    get_of_lt (by rw [hlen2]; exact hlt1)
  have hids2 : ((copiedW (placedW w t false) t row (w.tbl t).len).tbl t).ids = (w.tbl t).ids := by
    rw [htbl2, ← hT1, hw.ids, hT1, Table.add_ids]
  exact
    { cinv := hC2
      unlocked := pp.unlocked
      kinds := pp.kinds
      maxComps := pp.maxComps
      pool := pp.pool
      ge2 := pp.ge2
      unused := pp.unused
      notin := pp.notin
      alive := pp.alive
      inPool := pp.inPool
      aliveFrame := pp.aliveFrame
      frame := fun j hj => (pp.frame j hj).trans (hFr2 j hj)
      live := by
        intro x hxf hxa hxin
        obtain ⟨a1, a2, a3, a4⟩ := pp.live x hxf hxa hxin
        exact ⟨a1, a2, a3, a4.trans (hFr2 x.id a2)⟩
      comps := by
        simp only [compsOf, hent2, htm, if_false, htab2, Option.map_some, hids2, he, hTt]
      vals := by
        intro c
        simp only [valOf, hent2, htm, if_false, htab2, Option.bind_some, he, hTt, Table.getComp,
          Table.colIdx, hids2]
        split
        · rename_i hj
          simp only [Option.map_some, Option.some.injEq]
          rw [htbl2, hcells _ (List.mem_range.mpr (by rw [Table.add_ids]; exact hj)),
            Table.add_cell_lt _ _ _ _ hrow]
        · rfl
      tablesLen := by rw [hlen2]; exact pp.tablesLen
      entitiesLen := pp.entitiesLen }

/-- **opCopyEntity_spec** — `CopyEntity` of a live handle under `CInv` -/
theorem opCopyEntity_spec (run : ProbeRunner) {w : World} {fl : List Nat} (h : CInv w fl)
    (hl : w.isLocked = false) {src : Ent} (h2 : 2 ≤ src.id) (hnf : src.id ∉ fl)
    (ha : w.alive src = true) (hin : src.id < w.pool.ents.length)
    (hrows : ∀ t : Nat, (w.tbl t).len + 1 < 2 ^ 32) :
    ∃ w', opCopyEntity run src w = .ok (w.pool.get).2 w' ∧ CopyPost w fl src (w.pool.get).2 w' := by
  obtain ⟨t, row, hix, cp⟩ := h.copied h2 hnf ha hin hrows
  exact ⟨_, opCopyEntity_eq run w src hl ha hix h.noObs, cp⟩

/-! ## 5. `Shrink` -/

namespace World

/-- in the relation-free fragment every loop step of `storage.Shrink` only replaces a table by
    its shrunk version: the structural invariant is kept (the relation-index invariant `RInv`,
    which the general theorem `shrinkStep_sinv` needs, is not consulted) -/
theorem shrinkStep_sinv_noRel {w : World} (h : SInv w)
    (hk : ∀ c : Comp, (w.kinds.getD c {}).isRel = false) (t : Nat) :
    SInv (shrinkStep w t).1 ∧ (shrinkStep w t).1.kinds = w.kinds := by
  refine shrinkStep_cases (fun w' => SInv w' ∧ w'.kinds = w.kinds) w t ⟨h, rfl⟩ ?_
  intro hl
  have hT := get_of_lt hl
  obtain ⟨A, hA, _⟩ := h.tblArch t _ hT
  have hnr : (w.arch (w.tbl t).arch).hasRelations = false := by
    rw [arch_of_get hA]; exact h.toSInvMid.hasRelations_false_of_kinds hA (fun c _ => hk c)
  have hrel0 : (w.tbl t).relIDs = [] := h.toSInvMid.relIDs_nil hT hnr
  have hhr : (w.tbl t).hasRelations = false := by simp [Table.hasRelations, hrel0]
  have heq : (shrinkStep w t).1 = w.setTbl t ((w.tbl t).shrink w.initCap).1 := by
    simp only [shrinkStep, hhr, Bool.not_false, if_true]
  rw [heq]
  refine ⟨?_, rfl⟩
  refine h.of_sameMeta (w' := w.setTbl t ((w.tbl t).shrink w.initCap).1) rfl rfl
    (by rw [setTbl_tables, List.length_set]) ?_
  intro t' _
  by_cases htt : t' = t
  · subst htt
    rw [setTbl_tbl_self _ hl]
    exact ⟨Table.shrink_id _ _, Table.shrink_arch _ _, Table.shrink_ids _ _, Table.shrink_isRel _ _,
      Table.shrink_zst _ _, Table.shrink_relIDs _ _, Table.shrink_isFree _ _,
      Table.shrink_targets _ _⟩
  · rw [setTbl_tbl_ne _ _ (Ne.symm htt)]
    exact Table.SameMeta.refl _

theorem SameFrame.untouched {w w' : World} (h : SameFrame w w') :
    Untouched w w' ∧ w'.maxComps = w.maxComps := by
  obtain ⟨ts, as, c, rfl⟩ := h
  exact ⟨⟨rfl, rfl, rfl, rfl⟩, rfl⟩

end World

/-- what `Shrink` guarantees in the fragment -/
structure ShrinkPost (w : World) (fl : List Nat) (w' : World) : Prop where
  cinv : CInv w' fl
  unlocked : w'.isLocked = w.isLocked
  kinds : w'.kinds = w.kinds
  pool : w'.pool = w.pool
  maxComps : w'.maxComps = w.maxComps
  entities : w'.entities = w.entities
  /-- every entity keeps its component set and all its values -/
  same : ∀ j : Nat, SameEnt w w' j
  tablesLen : w'.tables.length = w.tables.length

/-- **opShrink_spec** — `Shrink` (bounded or not) on an unlocked world of the fragment succeeds,
    keeps the joint invariant (same free list) and is invisible for every entity -/
theorem opShrink_spec {w : World} {fl : List Nat} (h : CInv w fl) (hl : w.isLocked = false)
    (hrows : ∀ t : Nat, (w.tbl t).len + 1 < 2 ^ 32) (bounded : Bool) :
    ∃ (b : Bool) (w' : World), opShrink bounded w = .ok b w' ∧ ShrinkPost w fl w' := by
  have hb : RowsBounded w := fun t => by have := hrows t; omega
  obtain ⟨hI, hrel⟩ := shrinkPure_rel h.idx hb bounded
  have hS := shrinkPure_induct (fun w' => SInv w' ∧ w'.kinds = w.kinds)
    (fun w' t ⟨a, b⟩ =>
      ⟨(shrinkStep_sinv_noRel a (by rw [b]; exact h.noRelKinds) t).1,
        (shrinkStep_sinv_noRel a (by rw [b]; exact h.noRelKinds) t).2.trans b⟩)
    bounded w ⟨h.sinv, rfl⟩
  obtain ⟨hu, hmax⟩ := hrel.frame.untouched
  refine ⟨_, _, opShrink_eq bounded w hl, ?_⟩
  exact
    { cinv := h.transfer hI hS.1 hrel.frame.pool
        ⟨by rw [hrel.frame.entities], fun i => Or.inl (by rw [hrel.frame.entities])⟩
        hrel.frame.kinds hu (by rw [hrel.tlen]; exact h.fewTables)
      unlocked := hrel.frame.isLocked
      kinds := hrel.frame.kinds
      pool := hrel.frame.pool
      maxComps := hmax
      entities := hrel.frame.entities
      same := fun j => ⟨fun c => hrel.valOf j c, hrel.compsOf j⟩
      tablesLen := hrel.tlen }

/-! ## 6. `Reset` -/

namespace Pool

/-- the pool invariant after `Reset`, with the empty free list -/
theorem PInv.reset {p : Pool} {fl : List Nat} (h : PInv p fl) : PInv p.reset [] := by
  have hl : (p.ents.take reserved).length = 2 := by
    rw [List.length_take]; have := h.len2; show min 2 _ = 2; omega
  refine ⟨rfl, List.nodup_nil, (fun i hi => by cases hi), ?_,
    (by show 2 ≤ (p.ents.take reserved).length; omega)⟩
  intro i e he _
  have he' : (p.ents.take reserved)[i]? = some e := he
  have hi : i < 2 := by
    have := (List.getElem?_eq_some_iff.mp he').1; omega
  rw [List.getElem?_take_of_lt (by show i < 2; exact hi)] at he'
  exact h.self i e he' (fun hm => by have := (h.res i hm).1; omega)

/-- a handle of the ended epoch — slot inside the old slice, generation not the sentinel — is not
    alive after `Reset` -/
theorem reset_dead (p : Pool) (e : Ent) (h2 : 2 ≤ e.id) (hlt : e.id < p.ents.length)
    (hg : e.gen ≠ maxU32) : p.reset.alive e = false := by
  have hl : (p.ents.take reserved).length = 2 := by
    rw [List.length_take]; show min 2 _ = 2; omega
  have hd : e.id - 2 < (p.ents.drop reserved).length := by
    rw [List.length_drop]; show e.id - 2 < _ - 2; omega
  simp only [alive, Pool.reset]
  rw [List.getElem?_append_right (by rw [hl]; exact h2), hl,
    List.getElem?_append_left (by rw [List.length_map]; exact hd), List.getElem?_map,
    List.getElem?_eq_getElem hd]
  simp only [Option.map_some, beq_eq_false_iff_ne, ne_eq]
  exact fun hh => hg hh.symm

end Pool

/-- what `Reset` guarantees in the fragment -/
structure ResetPostC (w : World) (w' : World) : Prop where
  /-- the joint invariant holds again, with the empty free list -/
  cinv : CInv w' []
  unlocked : w'.isLocked = false
  kinds : w'.kinds = w.kinds
  maxComps : w'.maxComps = w.maxComps
  pool : w'.pool = w.pool.reset
  /-- only the two reserved index entries are left -/
  entitiesLen : w'.entities.length = 2
  tablesLen : w'.tables.length = w.tables.length
  /-- no ID is indexed to a table -/
  unindexed : ∀ i : Nat, compsOf w' i = none ∧ ∀ c : Comp, valOf w' i c = none
  /-- the handles of the ended epoch are dead (until `NewEntity` re-issues them) -/
  dead : ∀ h : Ent, 2 ≤ h.id → h.id < w.pool.ents.length → h.gen ≠ maxU32 → w'.alive h = false

/-- **opReset_spec** — `Reset` on an unlocked world of the fragment succeeds and re-establishes
    the joint invariant for the empty world (registry, archetypes and tables are kept) -/
theorem opReset_spec {w : World} {fl : List Nat} (h : CInv w fl) (hl : w.isLocked = false) :
    ∃ w', opReset w = .ok () w' ∧ ResetPostC w w' := by
  refine ⟨resetW w, opReset_eq w hl, ?_⟩
  have hS := h.sinv
  have hlenP : 2 ≤ w.pool.ents.length := h.pool.len2
  have hEl : (resetW w).entities.length = 2 := by
    rw [resetW_entities, List.length_take, h.lenEq]; omega
  -- no table is on a free list
  have hFE : ∀ (t : Nat) (T : Table), w.tables[t]? = some T → T.isFree = true → T.len = 0 := by
    intro t T hT hf
    exfalso
    obtain ⟨A, hA, _⟩ := hS.tblArch t T hT
    have hnr : A.hasRelations = false := h.noRelArch hA
    have := ((hS.member t T hT).2).1 hf
    rw [arch_of_get hA, (hS.nonRelLe _ A hA hnr).2] at this
    cases this
  have hres : ∀ i : Nat, i < 2 → ∃ r, (resetW w).entities[i]? = some (maxU32, r) := by
    intro i hi
    obtain ⟨r, hr⟩ := h.reservedUnindexed i hi
    exact ⟨r, by rw [resetW_entities, List.getElem?_take_of_lt hi]; exact hr⟩
  have hnone : ∀ (i t r : Nat), (resetW w).entities[i]? = some (t, r) → t = maxU32 := by
    intro i t r hi
    rcases Nat.lt_or_ge i 2 with h1 | h1
    · obtain ⟨r', hr'⟩ := hres i h1
      rw [hr'] at hi
      exact (Prod.mk.inj (Option.some.inj hi)).1.symm
    · rw [List.getElem?_eq_none (by rw [hEl]; exact h1)] at hi; cases hi
  have hI : IdxInv (resetW w) := by
    refine ⟨?_, ?_, ?_, ?_⟩
    · intro t T' hT'
      obtain ⟨T, hT, rfl⟩ := resetW_tget hS hT'
      exact resetTblOf_shape w (h.idx.shape t T hT)
    · intro t T' hT'
      obtain ⟨T, hT, rfl⟩ := resetW_tget hS hT'
      rw [resetTblOf_id]; exact h.idx.tid t T hT
    · intro t T' r hT' hr
      obtain ⟨T, hT, rfl⟩ := resetW_tget hS hT'
      rw [(resetTblOf_zero w (h.idx.shape t T hT) (hFE t T hT)).1] at hr
      exact absurd hr (Nat.not_lt_zero _)
    · intro i t r hi ht
      exact absurd (hnone i t r hi) ht
  have hobs : ∀ evt : Nat, (resetW w).obs.hasObservers evt = false := by
    intro evt
    show ((resetW w).obs.evt evt).hasObservers = false
    rw [resetW_obs]; exact ObsMgr.reset_noObs h.noObs evt
  have hC : CInv (resetW w) [] :=
    { idx := hI
      sinv := SInv.resetW hS
      pool := by rw [resetW_pool]; exact h.pool.reset
      stale := by rw [resetW_pool]; exact pool_reset_stale _ h.stale
      lenEq := by
        rw [hEl, resetW_pool]
        show 2 = (w.pool.ents.take 2).length
        rw [List.length_take]; omega
      tgtLen := by rw [hEl, resetW_isTarget, List.length_take, h.tgtLen, h.lenEq]; omega
      freeUnindexed := fun i hi => by cases hi
      reservedUnindexed := hres
      liveIndexed := by intro i h2 hlt _; rw [hEl] at hlt; omega
      fewTables := by rw [resetW_tables hS, List.length_map]; exact h.fewTables
      noRelKinds := by rw [resetW_kinds]; exact h.noRelKinds
      kindsLe := by rw [resetW_kinds, (resetW_caps w).2.2]; exact h.kindsLe
      noTargets := by
        intro i
        rw [resetW_isTarget, List.getD_eq_getElem?_getD, List.getElem?_take]
        split
        · have := h.noTargets i
          rw [List.getD_eq_getElem?_getD] at this; exact this
        · rfl
      noObs := hobs }
  exact
    { cinv := hC
      unlocked := by
        show (resetW w).locks.isLocked = false
        rw [resetW_locks]; rfl
      kinds := resetW_kinds w
      maxComps := (resetW_caps w).2.2
      pool := resetW_pool w
      entitiesLen := hEl
      tablesLen := by rw [resetW_tables hS, List.length_map]
      unindexed := by
        intro i
        constructor
        · simp only [compsOf]
          cases hx : (resetW w).entities[i]? with
          | none => rfl
          | some p => obtain ⟨t, r⟩ := p; simp only [hnone i t r hx, if_true]
        · intro c
          simp only [valOf]
          cases hx : (resetW w).entities[i]? with
          | none => rfl
          | some p => obtain ⟨t, r⟩ := p; simp only [hnone i t r hx, if_true]
      dead := by
        intro x h2 hlt hg
        show (resetW w).pool.alive x = false
        rw [resetW_pool]; exact Pool.reset_dead w.pool x h2 hlt hg }

/-! ## 7. the access paths agree (no relations, no observers) -/

namespace World

theorem graphFindRemove_go_state (w : World) : ∀ (rem : List Comp) (m r : Mask) (w0 : World),
    graphFindRemove.go w m rem = .ok r w0 → w0 = w
  | [], _, _, _, h => by injection h with _ h; exact h.symm
  | c :: rest, m, r, w0, h => by
    simp only [graphFindRemove.go] at h
    split at h
    · cases h
    · exact graphFindRemove_go_state w rest _ r w0 h

theorem graphFind_go_state (start : Mask) (w : World) : ∀ (add : List Comp) (m r : Mask) (w0 : World),
    graphFind.go start w m add = .ok r w0 → w0 = w
  | [], _, _, _, h => by injection h with _ h; exact h.symm
  | c :: rest, m, r, w0, h => by
    simp only [graphFind.go] at h
    split at h
    · cases h
    · split at h
      · cases h
      · exact graphFind_go_state start w rest _ r w0 h

theorem graphFind_ok_state {start mask r : Mask} {add rem : List Comp} {w w0 : World}
    (h : graphFind start mask add rem w = .ok r w0) : w0 = w := by
  simp only [graphFind] at h
  cases hr : graphFindRemove mask rem w with
  | panic k w1 => rw [hr] at h; cases h
  | ok m w1 =>
    rw [hr] at h
    have h1 : w1 = w := graphFindRemove_go_state w rem mask m w1 hr
    subst h1
    exact graphFind_go_state start w1 add m r w0 h

/-- `findOrCreateTable` (on success) touches neither observers, locks, target flags nor the
    registry bound -/
theorem findOrCreateTable_untouched {oldT : Nat} {startMask : Mask} {add rem : List Comp}
    {rels : List RelID} {w w' : World} {r : Nat × Nat × Mask × Bool}
    (hok : findOrCreateTable oldT startMask add rem rels w = .ok r w') : Untouched w w' := by
  simp only [findOrCreateTable, bind, M.bind] at hok
  cases hg : graphFind startMask startMask add rem w with
  | panic k w0 => rw [hg] at hok; cases hok
  | ok m w0 =>
    have h0 := graphFind_ok_state hg
    subst h0
    rw [hg] at hok
    simp only at hok
    cases ha : findOrCreateArch m w0 with
    | panic k w1 => rw [ha] at hok; cases hok
    | ok a w1 =>
      rw [ha] at hok
      simp only [M.get] at hok
      have u1 := findOrCreateArch_untouched ha
      generalize (if (!rem.isEmpty) = true then
          (List.filter (fun r => m.get r.comp) (w1.tbl oldT).relIDs ++ rels,
            (w1.tbl oldT).relIDs.any fun r => !m.get r.comp)
        else (relsForAdd (w1.tbl oldT) rels, false)) = pr at hok
      obtain ⟨all, rr⟩ := pr
      simp only at hok
      cases hgt : getTable a all w1 with
      | panic k s => rw [hgt] at hok; cases hok
      | ok ot s =>
        have hs := getTable_ok_state hgt
        subst hs
        rw [hgt] at hok
        cases ot with
        | some t =>
          simp only [pure, M.pure] at hok
          injection hok with _ h2
          subst h2
          exact u1
        | none =>
          simp only at hok
          cases hct : createTable a all s with
          | panic k s2 => simp only [M.bind, hct] at hok; cases hok
          | ok t s2 =>
            simp only [M.bind, hct, pure, M.pure] at hok
            injection hok with _ h2
            subst h2
            exact u1.trans (createTable_untouched hct)

/-- `World.add` (on success, without relations) touches neither observers nor locks -/
theorem addCore_untouched {e : Ent} {add : List Comp} {w w' : World} {r : Mask × Mask}
    (hok : addCore e add [] w = .ok r w') : Untouched w w' := by
  cases hl : w.isLocked with
  | true => rw [addCore_locked w hl] at hok; cases hok
  | false =>
    cases ha : w.alive e with
    | false => rw [addCore_dead w hl e ha] at hok; cases hok
    | true =>
      by_cases hne : add = []
      · subst hne; rw [addCore_noComponents w hl e ha] at hok; cases hok
      · cases hix : w.index e.id with
        | mk oldT row =>
          cases hfoc : findOrCreateTableAdd oldT (w.arch (w.tbl oldT).arch).mask add [] w with
          | panic k w1 =>
            have hemp : add.isEmpty = false := by
              cases add with
              | nil => exact absurd rfl hne
              | cons _ _ => rfl
            simp only [addCore, bind, M.bind, checkLocked_unlocked w hl, M.get, M.assert, ha,
              if_true, hemp, Bool.not_false, hix, hfoc] at hok
            cases hok
          | ok r1 w1 =>
            obtain ⟨t, a, m⟩ := r1
            rw [addCore_eq e add w hl ha hne hix hfoc] at hok
            injection hok with _ h2
            subst h2
            exact (findOrCreateTableAdd_untouched hfoc).trans (addMove_fields w1 e oldT row t m).2.2.2

/-- `World.exchange` (on success, without relations, on a world without observers) touches
    neither observers nor locks -/
theorem exchangeCore_untouched (run : ProbeRunner) {e : Ent} {add rem : List Comp} {w w' : World}
    {r : Mask × Mask} (hno : ∀ evt : Nat, w.obs.hasObservers evt = false)
    (hok : exchangeCore run e add rem [] w = .ok r w') : Untouched w w' := by
  cases hl : w.isLocked with
  | true => rw [exchangeCore_locked run w hl] at hok; cases hok
  | false =>
    cases ha : w.alive e with
    | false => rw [exchangeCore_dead run w hl e ha] at hok; cases hok
    | true =>
      by_cases hne : add = [] ∧ rem = []
      · obtain ⟨rfl, rfl⟩ := hne
        rw [exchangeCore_noComponents run w hl e ha] at hok; cases hok
      · cases hix : w.index e.id with
        | mk oldT row =>
          cases hfoc : findOrCreateTable oldT (w.arch (w.tbl oldT).arch).mask add rem [] w with
          | panic k w1 =>
            have hemp : (add.isEmpty && rem.isEmpty) = false := by
              cases add with
              | nil =>
                cases rem with
                | nil => exact absurd ⟨rfl, rfl⟩ hne
                | cons _ _ => rfl
              | cons _ _ => rfl
            simp only [exchangeCore, bind, M.bind, checkLocked_unlocked w hl, M.get, M.assert, ha,
              if_true, hemp, Bool.not_false, hix, hfoc] at hok
            cases hok
          | ok r1 w1 =>
            obtain ⟨t, a, m, rr⟩ := r1
            have u1 := findOrCreateTable_untouched hfoc
            rw [exchangeCore_eq run e add rem w hl ha hne hix hfoc
              (by rw [u1.obs]; exact hno)] at hok
            injection hok with _ h2
            subst h2
            exact u1.trans (addMove_fields w1 e oldT row t m).2.2.2

/-- **any access path** — without relations and observers, `NewEntity` gives the same result
    through `Unsafe.NewEntity` + writes, `Map.NewEntity` and `MapN.NewEntity` (the typed paths
    write the values before the events fire, `Unsafe` afterwards) -/
theorem opNewEntity_path_indep (run : ProbeRunner) (p p' : Path) (ids : List Comp)
    (vals : List (Comp × Val)) (w : World) (hno : ∀ evt : Nat, w.obs.hasObservers evt = false) :
    opNewEntity run p ids vals [] w = opNewEntity run p' ids vals [] w := by
  cases hl : w.isLocked with
  | true =>
    have hc := newEntityCore_locked w hl ids []
    have : ∀ q : Path, opNewEntity run q ids vals [] w = .panic .locked w := by
      intro q
      cases q <;>
      simp [opNewEntity, preCheck, preCheckMap, preCheckTyped, M.forM', bind, M.bind, hc, pure,
        M.pure]
    rw [this p, this p']
  | false =>
    cases hfoc : findOrCreateTableAdd 0 Mask.empty ids [] w with
    | panic k w1 =>
      have : ∀ q : Path, opNewEntity run q ids vals [] w = .panic k w1 := by
        intro q
        cases q <;>
        simp [opNewEntity, newEntityCore, preCheck, preCheckMap, preCheckTyped, M.forM', bind,
          M.bind, checkLocked_unlocked w hl, hfoc, pure, M.pure]
      rw [this p, this p']
    | ok r1 w1 =>
      obtain ⟨t, a, m⟩ := r1
      have hno1 : ∀ evt : Nat, w1.obs.hasObservers evt = false := by
        rw [(findOrCreateTableAdd_untouched hfoc).obs]; exact hno
      rw [opNewEntity_eq run p ids vals w hl hfoc hno1, opNewEntity_eq run p' ids vals w hl hfoc hno1]

/-- **any access path** — `Add` (the dead-handle check sits in different places, see `opAdd`) -/
theorem opAdd_path_indep (run : ProbeRunner) (p p' : Path) (e : Ent) (ids : List Comp)
    (vals : List (Comp × Val)) (w : World) (hl : w.isLocked = false)
    (hno : ∀ evt : Nat, w.obs.hasObservers evt = false) :
    opAdd run p e ids vals [] w = opAdd run p' e ids vals [] w := by
  cases ha : w.alive e with
  | false => rw [opAdd_dead_any run p e ids vals w hl ha, opAdd_dead_any run p' e ids vals w hl ha]
  | true =>
    cases hcore : addCore e ids [] w with
    | panic k w1 => rw [opAdd_panic run p e ids vals w ha hcore, opAdd_panic run p' e ids vals w ha hcore]
    | ok r1 w1 =>
      obtain ⟨old, new⟩ := r1
      have hno1 : ∀ evt : Nat, w1.obs.hasObservers evt = false := by
        rw [(addCore_untouched hcore).obs]; exact hno
      rw [opAdd_eq run p e ids vals w ha hcore hno1, opAdd_eq run p' e ids vals w ha hcore hno1]

/-- **any access path** — `Remove` -/
theorem opRemove_path_indep (run : ProbeRunner) (p p' : Path) (e : Ent) (ids : List Comp)
    (w : World) (hl : w.isLocked = false) :
    opRemove run p e ids w = opRemove run p' e ids w := by
  cases ha : w.alive e with
  | false => rw [opRemove_dead_any run p e ids w hl ha, opRemove_dead_any run p' e ids w hl ha]
  | true => rw [opRemove_eq run p e ids w ha, opRemove_eq run p' e ids w ha]

/-- **any access path** — `Exchange` (`Unsafe.Exchange` + writes, `ExchangeN.Exchange`) -/
theorem opExchange_path_indep (run : ProbeRunner) (p p' : Path) (e : Ent) (add : List Comp)
    (vals : List (Comp × Val)) (rem : List Comp) (w : World) (hl : w.isLocked = false)
    (hno : ∀ evt : Nat, w.obs.hasObservers evt = false) :
    opExchange run p e add vals rem [] w = opExchange run p' e add vals rem [] w := by
  cases ha : w.alive e with
  | false =>
    rw [opExchange_dead_any run p e add vals rem w hl ha,
      opExchange_dead_any run p' e add vals rem w hl ha]
  | true =>
    cases hcore : exchangeCore run e add rem [] w with
    | panic k w1 =>
      rw [opExchange_panic run p e add vals rem w ha hcore,
        opExchange_panic run p' e add vals rem w ha hcore]
    | ok r1 w1 =>
      obtain ⟨old, new⟩ := r1
      have hno1 : ∀ evt : Nat, w1.obs.hasObservers evt = false := by
        rw [(exchangeCore_untouched run hno hcore).obs]; exact hno
      rw [opExchange_eq run p e add vals rem w ha hcore hno1,
        opExchange_eq run p' e add vals rem w ha hcore hno1]

end World

end Ark
