/-
  Ark.Proofs.BatchPanic — C07 + C10 for the batch operations, part 1: **a rejected add / remove /
  exchange batch leaves the lock state as it was and changes no entity** (the non-relation
  fragment `CInv`).

  Since the repair of defect D27 `exchangeBatch` takes the world lock only AFTER the lookup loop
  (`findLoop`: `findOrCreateTable` for every non-empty selected table), immediately before the
  first callback round.  Every panic of the operation that is not a callback's own comes from
  before that point: the entry checks (`checkLocked`, "at least one component"), the table
  selection, the lookup loop.

  * `findOrCreateTable_any` — one lookup on a world of the fragment, WHATEVER the arguments (the
    added components registered): either it fails in the mask walk, the world unchanged, or it
    succeeds and the world is extended by at most one archetype and one table (`Ext`), `CInv` kept;
  * `findLoop_any` — the lookup loop, whatever its outcome: the final state satisfies `CInv` and
    extends the start world;
  * `exchangeBatch_panic_frame` — on an unlocked world of the fragment, without observers (part of
    `CInv`), for an uncached filter, with or without callback: if `exchangeBatch` panics, the final
    world satisfies `CInv` with the same free list and extends the start world (`Ext`: same lock,
    same observers, same log — no callback ran —, same entity index, same pool, every old table
    unchanged; archetypes and tables may have been added);
  * `opExchangeBatch_panic_unlocked` — hence: not locked, lock state equal to the one before the
    call, every entity `SameEnt` (components and values), same liveness of every handle.

  Kernel-only proofs, core Lean only.
-/
import Ark.Proofs.BatchExchangeFn
import Ark.Proofs.RowsAlive

set_option autoImplicit false

namespace Ark

open World Ark.Props.C01World

namespace World

/-- `findOrCreateTable` fails where its mask walk fails, the world unchanged -/
theorem findOrCreateTable_graphFind_panic {t : Nat} {m : Mask} {add rem : List Comp}
    {rels : List RelID} {w : World} {k : PanicKind}
    (h : graphFind m m add rem w = .panic k w) :
    findOrCreateTable t m add rem rels w = .panic k w := by
  simp only [findOrCreateTable, bind, M.bind, h]

/-- **one table lookup of the batch, whatever the arguments**: it fails in the mask walk with the
    world unchanged (the precondition of `Exchange(add, rem)` does not hold on the table's mask), or
    it succeeds, keeps the invariant and extends the world by at most one table -/
theorem findOrCreateTable_any {w : World} {fl : List Nat} (h : CInv w fl) {t : Nat}
    (ht : t < w.tables.length) {add rem : List Comp} (hne : ¬ (add = [] ∧ rem = []))
    (hreg : ∀ (c : Comp), c ∈ add → c < w.kinds.length) (hfew : w.tables.length < maxU32) :
    (∃ (x : Nat × Nat × Mask × Bool) (w' : World),
      findOrCreateTable t (tmask w t) add rem [] w = .ok x w' ∧ CInv w' fl ∧ Ext w w' ∧
      w'.tables.length ≤ w.tables.length + 1) ∨
    (∃ (k : PanicKind), findOrCreateTable t (tmask w t) add rem [] w = .panic k w ∧
      ¬ ExchOK w.kinds.length add rem (tmask w t)) := by
  by_cases hc : rem.Nodup ∧ (∀ (c : Comp), c ∈ rem → (tmask w t).get c = true) ∧ add.Nodup ∧
      ∀ (c : Comp), c ∈ add → (tmask w t).get c = false
  · left
    have ok : ExchOK w.kinds.length add rem (tmask w t) := ⟨hc.1, hc.2.1, hc.2.2.1, hreg, hc.2.2.2⟩
    obtain ⟨d, a, w', hfoc, h', e', _, _, _, hl'⟩ := findOrCreateTable_step h ht hne ok hfew
    exact ⟨_, w', hfoc, h', e', hl'⟩
  · right
    obtain ⟨k, _, hk⟩ := graphFind_bad (tmask w t) add rem w (fun c hc' => h.reg_lt_256 (hreg c hc')) hc
    exact ⟨k, findOrCreateTable_graphFind_panic hk,
      fun ok => hc ⟨ok.remNodup, ok.pres, ok.addNodup, ok.new⟩⟩

/-- **the lookup loop, whatever its outcome**: the state it ends in — after the last lookup, or
    where a lookup failed — satisfies the invariant and extends the start world -/
theorem findLoop_any {fl : List Nat} {add rem : List Comp} (hne : ¬ (add = [] ∧ rem = [])) :
    ∀ (ts : List Nat) (s : Bool × List BatchTable) (w : World), CInv w fl →
    (∀ (c : Comp), c ∈ add → c < w.kinds.length) →
    w.tables.length + ts.length < maxU32 →
    CInv (findLoop add rem ts s w).state fl ∧ Ext w (findLoop add rem ts s w).state
  | [], _, w, h, _, _ => ⟨h, Ext.refl w⟩
  | t :: ts, s, w, h, hreg, hfew => by
    simp only [List.length_cons] at hfew
    simp only [findLoop]
    split
    · exact findLoop_any hne ts s w h hreg (by omega)
    · rename_i hlen
      have ht : t < w.tables.length := by
        apply tbl_len_pos_lt (r := 0)
        have : (w.tbl t).len ≠ 0 := by simpa using hlen
        omega
      rcases findOrCreateTable_any h ht hne hreg (by omega) with ⟨x, w', hfoc, h', e', hl'⟩ | ⟨k, hk, _⟩
      · have hfoc' : findOrCreateTable t (w.arch (w.tbl t).arch).mask add rem [] w = .ok x w' := hfoc
        rw [hfoc']
        simp only
        have ih := findLoop_any hne ts
          (if x.2.2.2 = true then (true, s.2 ++ [{ oldT := t, newT := x.1, len := (w.tbl t).len }])
            else (s.1, s.2 ++ [{ oldT := t, newT := x.1, len := (w.tbl t).len }])) w' h'
          (fun c hc => by rw [e'.kinds]; exact hreg c hc) (by omega)
        exact ⟨ih.1, e'.trans ih.2⟩
      · have hk' : findOrCreateTable t (w.arch (w.tbl t).arch).mask add rem [] w = .panic k w := hk
        rw [hk']
        exact ⟨h, Ext.refl w⟩

/-- a lock on which `Lock()` succeeds — what `LockFree` guarantees — keeps doing so in a world
    with the same lock -/
theorem lockFree_cycle_of_eq {w w1 : World} (hL : LockFree w.locks) (he : w1.locks = w.locks) :
    ∃ (l' : Lock) (b : Nat) (l'' : Lock), w1.locks.lock = some (l', b) ∧
      l'.unlock b = some l'' := by
  obtain ⟨l', b, l'', k1, _, k3, _, _⟩ := hL.cycle
  exact ⟨l', b, l'', by rw [he]; exact k1, k3⟩

/-- **a rejected add / remove / exchange batch** (with or without callback) on an unlocked world
    of the fragment, uncached filter, the added components registered: whatever makes
    `exchangeBatch` panic, the world it leaves satisfies the invariant with the same free list and
    extends the start world — in particular the LOCK is the one before the call (the repair of
    defect D27), observers and log are the same (no callback ran), the entity index, the pool and
    every table that existed are unchanged.  (The archetypes and tables the lookup loop created
    before it failed remain.) -/
theorem exchangeBatch_panic_frame (run : ProbeRunner) {w : World} {fl : List Nat} (h : CInv w fl)
    (hl : w.isLocked = false) (hL : LockFree w.locks) (fo : FilterObj) (extra : List RelID)
    (hc : fo.cache = none) {add rem : List Comp}
    (hreg : ∀ (c : Comp), c ∈ add → c < w.kinds.length)
    (hfew : w.tables.length + (selTables w fo.filter).length < maxU32)
    (vals : Option (List (Comp × Val))) {k : PanicKind} {w' : World}
    (hp : exchangeBatch run fo extra add rem [] vals w = .panic k w') :
    CInv w' fl ∧ Ext w w' := by
  by_cases hne : add = [] ∧ rem = []
  · -- "at least one component required": rejected by the entry check
    obtain ⟨rfl, rfl⟩ := hne
    have : exchangeBatch run fo extra [] [] [] vals w = .panic .noComponents w := by
      unfold exchangeBatch
      simp only [M.bind_apply, checkLocked_unlocked w hl, M.assert_apply, List.isEmpty_nil,
        Bool.and_self, Bool.not_true, Bool.false_eq_true, if_false]
    rw [this] at hp
    injection hp with _ hw
    subst hw
    exact ⟨h, Ext.refl w⟩
  · have hneB : (add.isEmpty && rem.isEmpty) = false := by
      cases add with
      | cons _ _ => rfl
      | nil =>
        cases rem with
        | cons _ _ => rfl
        | nil => exact absurd ⟨rfl, rfl⟩ hne
    have hts := getBatchTables_frag h fo extra hc
    have hany := findLoop_any (fl := fl) hne (selTables w fo.filter) (false, []) w h hreg hfew
    cases hf : findLoop add rem (selTables w fo.filter) (false, []) w with
    | panic k1 w1 =>
      rw [exchangeBatch_findLoop_panic run fo extra add rem vals w hl hneB hts hf] at hp
      injection hp with _ hw
      subst hw
      rw [hf] at hany
      exact hany
    | ok x w1 =>
      exfalso
      obtain ⟨rr, bts⟩ := x
      rw [hf] at hany
      obtain ⟨h1, e1⟩ := hany
      simp only [Res.state] at h1 e1
      obtain ⟨l', b, l'', k1, k3⟩ := lockFree_cycle_of_eq (w1 := w1) hL e1.untouched.locks
      have hno1 : ∀ (evt : Nat), w1.obs.hasObservers evt = false := by
        intro evt; rw [e1.untouched.obs]; exact h.noObs evt
      rw [exchangeBatch_eq_planFirst run fo extra add rem vals w hl hneB hts hf k1 hno1,
        unlock_ok (by rw [foldl_moveStep_locks]; exact k3)] at hp
      cases hp

/-- **C07 + C10 for `AddBatch` / `RemoveBatch` / `ExchangeBatch` and their `…Fn` forms** (no
    relations, no observers — the fragment `CInv`; uncached filter; the added components
    registered): if the call panics, then the world is NOT locked, its lock state is exactly the
    one before the call, every entity has the components and values it had, every handle is as
    alive as it was, pool and log are the same, and the invariant still holds — the call was
    rejected without effect on any entity, and every specification of the fragment applies to the
    world it leaves. -/
theorem opExchangeBatch_panic_unlocked (run : ProbeRunner) (p : Path) {w : World} {fl : List Nat}
    (h : CInv w fl) (hl : w.isLocked = false) (hL : LockFree w.locks) (fo : FilterObj)
    (extra : List RelID) (hc : fo.cache = none) {add rem : List Comp}
    (hreg : ∀ (c : Comp), c ∈ add → c < w.kinds.length)
    (hfew : w.tables.length + (selTables w fo.filter).length < maxU32)
    (vals : Option (List (Comp × Val))) {k : PanicKind} {w' : World}
    (hp : opExchangeBatch run p fo extra add rem [] vals w = .panic k w') :
    w'.isLocked = false ∧ w'.locks = w.locks ∧ LockFree w'.locks ∧
    (∀ (j : Nat), SameEnt w w' j) ∧ (∀ (x : Ent), w'.alive x = w.alive x) ∧
    w'.pool = w.pool ∧ w'.entities = w.entities ∧ w'.log = w.log ∧ w'.obs = w.obs ∧
    (∀ (t : Nat), t < w.tables.length → w'.tbl t = w.tbl t) ∧ CInv w' fl := by
  rw [opExchangeBatch_eq_exchangeBatch] at hp
  obtain ⟨h', e⟩ := exchangeBatch_panic_frame run h hl hL fo extra hc hreg hfew vals hp
  have hlk : w'.locks = w.locks := e.untouched.locks
  refine ⟨?_, hlk, by rw [hlk]; exact hL, fun j => same_of_prefix h.idx e.entities e.tables j,
    fun x => by simp only [World.alive, e.pool], e.pool, e.entities, e.log, e.untouched.obs,
    fun t ht => e.tbl ht, h'⟩
  show w'.locks.isLocked = false
  rw [hlk]; exact hl

end World

end Ark
