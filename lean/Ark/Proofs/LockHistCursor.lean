/-
  Ark.Proofs.LockHistCursor — property C07 over whole histories, part 3: an open query sees a
  frozen world.

  * `Frozen w w'` — `w'` has the archetypes, component index, entity index, entity pool and
    registry of `w`, and every table has the same metadata, length and entity column: nothing a
    query walks over has changed (component values may have).
  * `stepQ_frozen` — while some query is open, every step of the machine of
    `Ark.Proofs.LockHistQ` leaves the world `Frozen`: the only changes are to the lock and
    `Set`'s writes into component columns.
  * `stepQ_closed_stays`, `runQ_closed_stays` — a query that has finished or been closed is
    never open again (names are not re-used).
  * `step_span`, `run_span` — **if the query `q` is open before and after a history, the world is
    `Frozen` across it, `q` kept its lock bit, and the rows `q` had to visit before are rows it
    has visited in between followed by the rows it still has to visit.**
  * `opened_remaining` — right after `Query()` the rows to visit are `Drain.expected`: the rows
    of the tables the counting walk (`Count`) selects.

  Kernel-only proofs, core Lean only.
-/
import Ark.Proofs.LockHistQ

set_option autoImplicit false

namespace Ark

open World Ark.Props.C01World Refine

namespace LockHist

/-! ## 1. the frozen world -/

/-- nothing a query walks over has changed between `w` and `w'` -/
structure Frozen (w w' : World) : Prop where
  archetypes : w'.archetypes = w.archetypes
  componentIndex : w'.componentIndex = w.componentIndex
  entities : w'.entities = w.entities
  pool : w'.pool = w.pool
  kinds : w'.kinds = w.kinds
  tablesLen : w'.tables.length = w.tables.length
  sameMeta : ∀ (t : Nat), Table.SameMeta (w.tbl t) (w'.tbl t)
  len : ∀ (t : Nat), (w'.tbl t).len = (w.tbl t).len
  ents : ∀ (t : Nat), (w'.tbl t).ents = (w.tbl t).ents

namespace Frozen

theorem refl (w : World) : Frozen w w :=
  ⟨rfl, rfl, rfl, rfl, rfl, rfl, fun _ => Table.SameMeta.refl _, fun _ => rfl, fun _ => rfl⟩

theorem trans {a b c : World} (h1 : Frozen a b) (h2 : Frozen b c) : Frozen a c :=
  ⟨h2.archetypes.trans h1.archetypes, h2.componentIndex.trans h1.componentIndex,
    h2.entities.trans h1.entities, h2.pool.trans h1.pool, h2.kinds.trans h1.kinds,
    h2.tablesLen.trans h1.tablesLen, fun t => (h1.sameMeta t).trans (h2.sameMeta t),
    fun t => (h2.len t).trans (h1.len t), fun t => (h2.ents t).trans (h1.ents t)⟩

theorem withLocks (w : World) (l : Lock) : Frozen w (w.withLocks l) :=
  ⟨rfl, rfl, rfl, rfl, rfl, rfl, fun _ => Table.SameMeta.refl _, fun _ => rfl, fun _ => rfl⟩

theorem writeVals (w : World) (e : Ent) (vals : List (Comp × Val)) :
    Frozen w (writeValsW w e vals) := by
  refine ⟨rfl, rfl, rfl, rfl, rfl, ?_, ?_, ?_, ?_⟩
  · simp only [writeValsW, modTbl, setTbl, List.length_set]
  · intro t
    simp only [writeValsW, modTbl_tbl]
    split
    · rename_i hc; rw [hc.1]; exact writeFold_sameMeta _ vals _
    · exact Table.SameMeta.refl _
  · intro t
    simp only [writeValsW, modTbl_tbl]
    split
    · rename_i hc; rw [hc.1]; exact (Table.writeFold_len_ents _ vals _).1
    · rfl
  · intro t
    simp only [writeValsW, modTbl_tbl]
    split
    · rename_i hc; rw [hc.1]; exact (Table.writeFold_len_ents _ vals _).2
    · rfl

variable {w w' : World}

/-- the rows a cursor still has to visit are the same -/
theorem remaining (h : Frozen w w') (c : QueryObj) : Drain.remaining w' c = Drain.remaining w c :=
  Drain.remaining_congr h.archetypes h.componentIndex h.len
    (fun t rels => Table.matchesRels_congr (h.sameMeta t) rels) c

/-- every row holds the same entity -/
theorem getEntity (h : Frozen w w') (t row : Nat) :
    (w'.tbl t).getEntity row = (w.tbl t).getEntity row := by
  simp only [Table.getEntity, h.ents]

/-- the same entities are alive -/
theorem alive (h : Frozen w w') (e : Ent) : w'.alive e = w.alive e := by
  simp only [World.alive, h.pool]

/-- every entity has the same components (and sits in the same row) -/
theorem index (h : Frozen w w') (i : Nat) : w'.index i = w.index i := by
  simp only [World.index, h.entities]

end Frozen

/-! ## 2. a finished or closed query is never open again -/

theorem isSome_find?_insert (cs : AL QueryObj) (q q' : Nat) (c : QueryObj)
    (hk : (AL.find? cs q).isSome = true) : (AL.find? (AL.insert cs q' c) q).isSome = true := by
  rw [AL.find?_insert]
  split
  · rfl
  · exact hk

/-- the client keeps every query object it was given -/
theorem stepQ_known (run : ProbeRunner) (s : QSt) (op : OpQ) {q : Nat}
    (hk : (AL.find? s.cursors q).isSome = true) :
    (AL.find? (stepQ run s op).cursors q).isSome = true := by
  cases op with
  | base op =>
    simp only [stepQ]
    split
    · split <;> exact hk
    · exact hk
  | qopen q' fo =>
    simp only [stepQ]
    split
    · split
      · exact isSome_find?_insert _ _ _ _ hk
      · exact hk
    · exact hk
  | qnext q' =>
    simp only [stepQ]
    split
    · exact hk
    · split
      · exact isSome_find?_insert _ _ _ _ hk
      · exact hk
  | qclose q' =>
    simp only [stepQ]
    split
    · exact hk
    · split
      · exact isSome_find?_insert _ _ _ _ hk
      · exact hk
  | emit evt comps e => exact hk

/-- a query that is known and not open is not open after the step: names are not re-used, and
    only `Query()` opens a query -/
theorem stepQ_closed_stays (run : ProbeRunner) (s : QSt) (op : OpQ) {q : Nat}
    (hk : (AL.find? s.cursors q).isSome = true) (hq : q ∉ s.openQ) :
    q ∉ (stepQ run s op).openQ := by
  cases op with
  | base op =>
    simp only [stepQ]
    split
    · split <;> exact hq
    · exact hq
  | qopen q' fo =>
    simp only [stepQ]
    split
    · rename_i hg
      simp only [guardQ, Bool.and_eq_true, Option.isNone_iff_eq_none] at hg
      have hne : q ≠ q' := by
        intro h; subst h
        rw [hg.1] at hk; cases hk
      split
      · show q ∉ q' :: s.openQ
        simp only [List.mem_cons, not_or]
        exact ⟨hne, hq⟩
      · exact hq
    · exact hq
  | qnext q' =>
    simp only [stepQ]
    split
    · exact hq
    · split
      · rename_i c' more w' _
        show q ∉ (if more = true then s.openQ else s.openQ.erase q')
        split
        · exact hq
        · exact fun h => hq (List.mem_of_mem_erase h)
      · exact hq
  | qclose q' =>
    simp only [stepQ]
    split
    · exact hq
    · split
      · exact fun h => hq (List.mem_of_mem_erase h)
      · exact hq
  | emit evt comps e => exact hq

theorem runQ_closed_stays (run : ProbeRunner) (ops : List OpQ) : ∀ (s : QSt) {q : Nat},
    (AL.find? s.cursors q).isSome = true → q ∉ s.openQ → q ∉ (runQ run s ops).openQ := by
  induction ops with
  | nil => intro s q _ hq; exact hq
  | cons op ops ih =>
    intro s q hk hq
    exact ih (stepQ run s op) (stepQ_known run s op hk) (stepQ_closed_stays run s op hk hq)

/-! ## 3. the world is frozen while a query is open -/

/-- **while some query is open every step leaves the world frozen** -/
theorem stepQ_frozen (run : ProbeRunner) {s : QSt} {fl lfl : List Nat} (H : HInvQ s fl lfl)
    (h1 : s.openQ ≠ []) (op : OpQ) : Frozen s.w (stepQ run s op).w := by
  by_cases hg : guardQ s op = true
  case neg => rw [stepQ_no_guard run s op hg]; exact Frozen.refl _
  cases op with
  | base op =>
    cases hs : op.structural with
    | true => rw [(step_base_locked run H h1 op hs).2]; exact Frozen.refl _
    | false =>
      cases op <;> try (cases hs)
      rename_i e vals
      have hstep : stepQ run s (.base (.set e vals)) =
          { s with base := Refine.step run s.base (.set e vals) } := by
        simp only [stepQ, Op.structural, Bool.false_eq_true, and_false, if_false]
      rw [hstep]
      show Frozen s.base.w (Refine.step run s.base (.set e vals)).w
      rcases step_set_w run s.base (H.hinv.cinv.noObs _) e vals with h | h <;> rw [h]
      · exact Frozen.refl _
      · exact Frozen.writeVals _ e vals
  | qopen q fo =>
    rcases step_qopen run H q fo hg with ⟨_, _, h⟩ | ⟨_, l, b, _, _, _, _, h, _⟩ <;> rw [h]
    · exact Frozen.refl _
    · exact Frozen.withLocks _ l
  | qnext q =>
    obtain ⟨c, hc⟩ : ∃ c, AL.find? s.cursors q = some c := Option.isSome_iff_exists.mp hg
    by_cases hq : q ∈ s.openQ
    · rcases step_qnext_open run H hc hq with ⟨c', _, _, _, h, _⟩ | ⟨c', l', _, _, _, h, _⟩ <;> rw [h]
      · exact Frozen.refl _
      · exact Frozen.withLocks _ l'
    · rw [(step_qnext_closed run H hc hq).2]; exact Frozen.refl _
  | qclose q =>
    obtain ⟨c, hc⟩ : ∃ c, AL.find? s.cursors q = some c := Option.isSome_iff_exists.mp hg
    by_cases hq : q ∈ s.openQ
    · obtain ⟨l', _, _, h, _⟩ := step_qclose_open run H hc hq
      rw [h]; exact Frozen.withLocks _ l'
    · rw [(step_qclose_closed run H hc hq).2]; exact Frozen.refl _
  | emit evt comps e => rw [(step_emit run H evt comps e).2]; exact Frozen.refl _

/-! ## 4. an open query across a history -/

/-- **one step of an open query**: if `q` is open before and after the step, the query object
    after the step has the same lock bit, and the rows `q` had to visit before are at most one
    visited row (`q.Next()` returned `true` for it) followed by the rows it still has to visit -/
theorem step_span (run : ProbeRunner) {s : QSt} {fl lfl : List Nat} (H : HInvQ s fl lfl) (op : OpQ)
    {q : Nat} {c : QueryObj} (hc : AL.find? s.cursors q = some c) (hq : q ∈ s.openQ)
    (hq' : q ∈ (stepQ run s op).openQ) :
    ∃ (c' : QueryObj) (pre rest : List (Nat × Nat)),
      AL.find? (stepQ run s op).cursors q = some c' ∧ c'.lockBit = c.lockBit ∧
      Drain.remaining s.w c = some (pre ++ rest) ∧
      Drain.remaining (stepQ run s op).w c' = some rest ∧
      (pre = [] ∨ (op = .qnext q ∧ pre = [(c'.cur.getD 0, c'.index)])) := by
  have h1 : s.openQ ≠ [] := fun h => by rw [h] at hq; cases hq
  obtain ⟨x, hx, hxt⟩ := (H.open_iff q).mp hq
  rw [hc] at hx; cases hx
  obtain ⟨rows, hrem⟩ := (H.cur q c hc hxt).rem
  have hfz := stepQ_frozen run H h1 op
  -- the query object of `q` is untouched
  have keep : AL.find? (stepQ run s op).cursors q = some c →
      ∃ (c' : QueryObj) (pre rest : List (Nat × Nat)),
        AL.find? (stepQ run s op).cursors q = some c' ∧ c'.lockBit = c.lockBit ∧
        Drain.remaining s.w c = some (pre ++ rest) ∧
        Drain.remaining (stepQ run s op).w c' = some rest ∧
        (pre = [] ∨ (op = .qnext q ∧ pre = [(c'.cur.getD 0, c'.index)])) :=
    fun h => ⟨c, [], rows, h, rfl, hrem, by rw [hfz.remaining]; exact hrem, Or.inl rfl⟩
  by_cases hg : guardQ s op = true
  case neg => exact keep (by rw [stepQ_no_guard run s op hg]; exact hc)
  cases op with
  | base op =>
    apply keep
    simp only [stepQ]
    split
    · split <;> exact hc
    · exact hc
  | qopen q2 fo =>
    apply keep
    rcases step_qopen run H q2 fo hg with ⟨_, _, h⟩ | ⟨_, l, b, _, _, _, _, h, _⟩ <;> rw [h]
    · exact hc
    · have hg' := hg
      simp only [guardQ, Bool.and_eq_true, Option.isNone_iff_eq_none] at hg'
      have hne : q ≠ q2 := by
        intro hh; subst hh
        rw [hg'.1] at hc; cases hc
      show AL.find? (AL.insert s.cursors q2 _) q = some c
      rw [AL.find?_insert_ne _ _ _ _ hne]; exact hc
  | qnext q2 =>
    obtain ⟨c2, hc2⟩ : ∃ c, AL.find? s.cursors q2 = some c := Option.isSome_iff_exists.mp hg
    by_cases hq2 : q2 ∈ s.openQ
    · rcases step_qnext_open run H hc2 hq2 with
        ⟨c', r, rs, _, h, hb, _, hr, hcur, hidx, hrs, _⟩ | ⟨c', l', _, _, _, h, _⟩
      · by_cases hne : q = q2
        · subst hne
          rw [hc] at hc2; cases hc2
          refine ⟨c', [r], rs, by rw [h]; exact AL.find?_insert_self _ _ _, hb, hr, ?_, Or.inr ⟨rfl, ?_⟩⟩
          · rw [h]; exact hrs
          · rw [hcur, hidx]; rfl
        · apply keep
          rw [h]
          show AL.find? (AL.insert s.cursors q2 _) q = some c
          rw [AL.find?_insert_ne _ _ _ _ hne]; exact hc
      · by_cases hne : q = q2
        · subst hne
          rw [h] at hq'
          exact absurd hq' (List.Nodup.not_mem_erase H.openNodup)
        · apply keep
          rw [h]
          show AL.find? (AL.insert s.cursors q2 _) q = some c
          rw [AL.find?_insert_ne _ _ _ _ hne]; exact hc
    · apply keep
      rw [(step_qnext_closed run H hc2 hq2).2]; exact hc
  | qclose q2 =>
    obtain ⟨c2, hc2⟩ : ∃ c, AL.find? s.cursors q2 = some c := Option.isSome_iff_exists.mp hg
    by_cases hq2 : q2 ∈ s.openQ
    · obtain ⟨l', _, _, h, _⟩ := step_qclose_open run H hc2 hq2
      by_cases hne : q = q2
      · subst hne
        rw [h] at hq'
        exact absurd hq' (List.Nodup.not_mem_erase H.openNodup)
      · apply keep
        rw [h]
        show AL.find? (AL.insert s.cursors q2 _) q = some c
        rw [AL.find?_insert_ne _ _ _ _ hne]; exact hc
    · apply keep
      rw [(step_qclose_closed run H hc2 hq2).2]; exact hc
  | emit evt comps e =>
    apply keep
    rw [(step_emit run H evt comps e).2]; exact hc

/-- **an open query across a history**: if `q` is open before and after the history `ops`, then
    the world is frozen across it, `q` kept its lock bit, and the rows `q` had to visit before are
    rows it visited in between followed by the rows it still has to visit -/
theorem run_span (run : ProbeRunner) (ops : List OpQ) : ∀ (s : QSt) (fl lfl : List Nat),
    HInvQ s fl lfl → s.w.tables.length + ops.length ≤ maxU32 →
    s.w.entities.length + ops.length < 2 ^ 32 →
    ∀ {q : Nat} {c : QueryObj}, AL.find? s.cursors q = some c → q ∈ s.openQ →
    q ∈ (runQ run s ops).openQ →
    Frozen s.w (runQ run s ops).w ∧
    ∃ (c' : QueryObj) (pre rest : List (Nat × Nat)),
      AL.find? (runQ run s ops).cursors q = some c' ∧ c'.lockBit = c.lockBit ∧
      Drain.remaining s.w c = some (pre ++ rest) ∧
      Drain.remaining (runQ run s ops).w c' = some rest := by
  induction ops with
  | nil =>
    intro s fl lfl H _ _ q c hc hq _
    obtain ⟨x, hx, hxt⟩ := (H.open_iff q).mp hq
    rw [hc] at hx; cases hx
    obtain ⟨rows, hrem⟩ := (H.cur q c hc hxt).rem
    exact ⟨Frozen.refl _, c, [], rows, hc, rfl, hrem, hrem⟩
  | cons op ops ih =>
    intro s fl lfl H hb1 hb2 q c hc hq hq'
    simp only [List.length_cons] at hb1 hb2
    have h1 : s.openQ ≠ [] := fun h => by rw [h] at hq; cases hq
    have hk : (AL.find? s.cursors q).isSome = true := by rw [hc]; rfl
    -- `q` is still open after the first step
    have hq1 : q ∈ (stepQ run s op).openQ := by
      false_or_by_contra
      rename_i hn
      exact runQ_closed_stays run ops (stepQ run s op) (stepQ_known run s op hk) hn hq'
    obtain ⟨⟨fl1, lfl1, H1⟩, g1, g2⟩ := stepQ_inv run H (by omega) (by omega) op
    obtain ⟨c1, pre1, rest1, hc1, hb, hr, hr1, _⟩ := step_span run H op hc hq hq1
    obtain ⟨hfz, c', pre, rest, hc', hb', hr', hrest⟩ :=
      ih (stepQ run s op) fl1 lfl1 H1 (by omega) (by omega) hc1 hq1 hq'
    refine ⟨(stepQ_frozen run H h1 op).trans hfz, c', pre1 ++ pre, rest, hc', hb'.trans hb, ?_, hrest⟩
    rw [hr, List.append_assoc]
    rw [hr1] at hr'
    rw [Option.some.inj hr']

/-! ## 5. from `Query()` on -/

open QueryExact in
/-- right after `Query()` the rows to visit are the rows of the tables the counting walk (`Count`,
    `EntityAt`) selects: `Drain.expected` -/
theorem opened_expected {w : World} {fl : List Nat} (h : CInv w fl) (fo : FilterObj) (b : Nat)
    (l : Lock) :
    ∃ (rows : List (Nat × Nat)),
      Drain.expected (w.withLocks l) (openedQ fo w b) = some rows ∧
      Drain.remaining (w.withLocks l) (openedQ fo w b) = some rows := by
  have hsel := qSelected_noRel (w.withLocks l) (openedQ fo w b) rfl
    (fun a _ => noRel_all (cinv_withLocks h l w.log) a)
  refine ⟨_, ?_, Drain.remaining_fresh (w.withLocks l) _ _ ⟨rfl, rfl, rfl, rfl, rfl, rfl⟩ hsel⟩
  simp only [Drain.expected, hsel, Option.map_some]

open QueryExact in
/-- **the cursor sees a frozen world**: a query opened by `qopen q fo` (fewer than 64 queries
    open) that is still open after the history `ops` has, as rows still to visit, a suffix of
    the rows `Drain.expected` computed in the world right after `Query()`; the world has been
    frozen since; the query kept its lock bit -/
theorem opened_span (run : ProbeRunner) {s : QSt} {fl lfl : List Nat} (H : HInvQ s fl lfl)
    (q : Nat) (fo : FilterObj) (ops : List OpQ)
    (hb1 : s.w.tables.length + ops.length ≤ maxU32) (hb2 : s.w.entities.length + ops.length < 2 ^ 32)
    (hg : guardQ s (.qopen q fo) = true) (hlt : s.openQ.length < 64)
    (hq' : q ∈ (runQ run (stepQ run s (.qopen q fo)) ops).openQ) :
    ∃ (c1 c2 : QueryObj) (pre rest : List (Nat × Nat)),
      AL.find? (stepQ run s (.qopen q fo)).cursors q = some c1 ∧
      AL.find? (runQ run (stepQ run s (.qopen q fo)) ops).cursors q = some c2 ∧
      c2.lockBit = c1.lockBit ∧
      Drain.expected (stepQ run s (.qopen q fo)).w c1 = some (pre ++ rest) ∧
      Drain.remaining (runQ run (stepQ run s (.qopen q fo)) ops).w c2 = some rest ∧
      Frozen (stepQ run s (.qopen q fo)).w (runQ run (stepQ run s (.qopen q fo)) ops).w := by
  rcases step_qopen run H q fo hg with ⟨h64, _⟩ | ⟨_, l, b, _, _, _, _, h, lfl', HI⟩
  · omega
  · rw [h] at hq' ⊢
    have hc1 : AL.find? (AL.insert s.cursors q (openedQ fo s.w b)) q = some (openedQ fo s.w b) :=
      AL.find?_insert_self _ _ _
    obtain ⟨hfz, c2, pre, rest, hc2, hb, hr, hrest⟩ :=
      run_span run ops _ fl lfl' HI hb1 hb2 (q := q) hc1 List.mem_cons_self hq'
    obtain ⟨rows, he, hrem⟩ := opened_expected (w := s.w) H.hinv.cinv fo b l
    refine ⟨_, c2, pre, rest, hc1, hc2, hb, ?_, hrest, hfz⟩
    exact he.trans (hrem.symm.trans hr)

end LockHist

end Ark
