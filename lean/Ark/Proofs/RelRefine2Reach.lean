/-
  Ark.Proofs.RelRefine2Reach — property C05 with relations, part 7: the invariant over histories
  and the headline at every reachable state.

  * `step2_inv` — every step of the machine keeps `HInv2`, `Reset` included
    (`Ark.Proofs.RelRefine2Reset.step2_reset`: the joint invariant `TInv` of the relation fragment
    only demands that the memory `Reset` keeps behind the pool slice holds invalidated handles);
  * `run2_inv`, `reach2_inv` — `HInv2` after every history with `ops.length < 2^16` (the bound
    of `RelRefine.reach_hinv`: a `RemoveEntity` of a relation target may create one table per
    relation archetype), `Reset` anywhere in it;
  * `reach2_cached_agrees` — **the headline**: at every reachable state, for every registered
    filter object (fixed relations allowed) and all admissible per-call relations, the cached
    table list has the members of the uncached walk, and the cached and the uncached iteration
    visit the same entities.
  Kernel-only proofs, core Lean only.
-/
import Ark.Proofs.RelRefine2Reset

set_option autoImplicit false

namespace Ark
namespace RelRefine2

open World Ark.Props.C01World QueryRel QueryExact RelRefine

/-- is the operation `Reset`?  (no theorem of this development needs it any more) -/
def Op2.isReset : Op2 → Bool
  | .reset => true
  | _ => false

/-- **one step keeps the invariant** (every operation, `Reset` included); at most
    `1 + (relation archetypes)` tables, one relation archetype and one index slot are created -/
theorem step2_inv (run : ProbeRunner) {s : St} {fl : List Nat} (H : HInv2 s fl)
    (hfew : s.w.tables.length + s.w.relationArchetypes.length + 1 ≤ maxU32)
    (hent : 2 * s.w.entities.length < 2 ^ 32) (op : Op2) :
    (∃ fl', HInv2 (step2 run s op) fl') ∧ Grows s (step2 run s op) := by
  cases op with
  | base op => exact step2_base run H hfew hent op
  | copy e => exact step2_copy run H hent e
  | shrink bounded => exact step2_shrink run H hent bounded
  | reset => exact step2_reset run H
  | fdef f fo => exact step2_fdef run H f fo
  | freg f => exact step2_freg run H f
  | funreg f => exact step2_funreg run H f
  | query f extra => exact step2_query run H f extra

/-- the invariant holds after every history that stays within the size bounds -/
theorem run2_inv (run : ProbeRunner) (ops : List Op2) : ∀ (s : St) (fl : List Nat), HInv2 s fl →
    s.w.tables.length + ops.length * (s.w.relationArchetypes.length + ops.length) +
      s.w.relationArchetypes.length + ops.length + 1 ≤ maxU32 →
    2 * (s.w.entities.length + ops.length) < 2 ^ 32 →
    ∃ fl', HInv2 (runOps2 run s ops) fl' ∧
      (runOps2 run s ops).w.tables.length ≤
        s.w.tables.length + ops.length * (s.w.relationArchetypes.length + ops.length) ∧
      (runOps2 run s ops).w.relationArchetypes.length ≤ s.w.relationArchetypes.length + ops.length ∧
      (runOps2 run s ops).w.entities.length ≤ s.w.entities.length + ops.length := by
  induction ops with
  | nil =>
    intro s fl h _ _
    exact ⟨fl, h, by simp [runOps2], by simp [runOps2], by simp [runOps2]⟩
  | cons op ops ih =>
    intro s fl h hb1 hb2
    simp only [List.length_cons] at hb1 hb2 ⊢
    have e1 : (ops.length + 1) * (s.w.relationArchetypes.length + (ops.length + 1)) =
        ops.length * (s.w.relationArchetypes.length + 1 + ops.length) +
          (s.w.relationArchetypes.length + 1 + ops.length) := by
      rw [Nat.succ_mul]
      have : s.w.relationArchetypes.length + (ops.length + 1) =
          s.w.relationArchetypes.length + 1 + ops.length := by omega
      rw [this]
    rw [e1] at hb1 ⊢
    obtain ⟨⟨fl1, h1⟩, g⟩ := step2_inv run h (by omega) (by omega) op
    obtain ⟨g1, g2, g3⟩ := g
    have hm : ops.length * ((step2 run s op).w.relationArchetypes.length + ops.length) ≤
        ops.length * (s.w.relationArchetypes.length + 1 + ops.length) :=
      Nat.mul_le_mul_left _ (by omega)
    obtain ⟨fl2, h2, b1, b2, b3⟩ := ih _ fl1 h1 (by omega) (by omega)
    refine ⟨fl2, h2, ?_, ?_, ?_⟩
    · show (runOps2 run (step2 run s op) ops).w.tables.length ≤ _; omega
    · show (runOps2 run (step2 run s op) ops).w.relationArchetypes.length ≤ _; omega
    · show (runOps2 run (step2 run s op) ops).w.entities.length ≤ _; omega

/-- **the invariant holds at every reachable state** — `Reset` anywhere in the history (same
    length bound as `RelRefine.reach_hinv`) -/
theorem reach2_inv (run : ProbeRunner) (cap rel : Nat) (ops : List Op2)
    (hlen : ops.length < 2 ^ 16) :
    ∃ fl, HInv2 (reach2 run cap rel ops) fl := by
  have hsq : ops.length * ops.length ≤ 65535 * 65535 := Nat.mul_le_mul (by omega) (by omega)
  obtain ⟨fl, h, _⟩ := run2_inv run ops _ [] (hinv2_init cap rel)
    (by
      show 1 + ops.length * (0 + ops.length) + 0 + ops.length + 1 ≤ maxU32
      rw [Nat.zero_add]; simp only [maxU32]; omega)
    (by show 2 * (2 + ops.length) < 2 ^ 32; omega)
  exact ⟨fl, h⟩

/-- the size hypotheses of the step lemmas hold in every reachable state (one more operation
    fits) -/
theorem reach2_fits (run : ProbeRunner) (cap rel : Nat) (ops : List Op2)
    (hlen : ops.length + 1 < 2 ^ 16) :
    (reach2 run cap rel ops).w.tables.length + (reach2 run cap rel ops).w.relationArchetypes.length +
      1 ≤ maxU32 ∧ 2 * (reach2 run cap rel ops).w.entities.length < 2 ^ 32 := by
  have hsq : ops.length * ops.length ≤ 65535 * 65535 := Nat.mul_le_mul (by omega) (by omega)
  obtain ⟨fl, _, b1, b2, b3⟩ := run2_inv run ops _ [] (hinv2_init cap rel)
    (by
      show 1 + ops.length * (0 + ops.length) + 0 + ops.length + 1 ≤ maxU32
      rw [Nat.zero_add]; simp only [maxU32]; omega)
    (by show 2 * (2 + ops.length) < 2 ^ 32; omega)
  have b1' : (reach2 run cap rel ops).w.tables.length ≤ 1 + ops.length * (0 + ops.length) := b1
  have b2' : (reach2 run cap rel ops).w.relationArchetypes.length ≤ 0 + ops.length := b2
  have b3' : (reach2 run cap rel ops).w.entities.length ≤ 2 + ops.length := b3
  rw [Nat.zero_add] at b1' b2'
  simp only [maxU32]
  omega

/-- **C05 with relations — the headline.**  After every history of entity operations
    WITH relation components (creation of tables, freeing and recycling of relation tables by
    `RemoveEntity` of a target, `CopyEntity`, `Shrink`, `Reset`), filter definitions, registrations,
    unregistrations and queries: for every filter object registered under an ID (fixed relations allowed) and any
    admissible per-call relations, the cache entry is found, its table list has exactly the
    members of the uncached walk, and the iteration through the cache and the iteration of the
    same filter object unregistered succeed, leave the same world, are both exact and visit the
    same entities. -/
theorem reach2_cached_agrees (run : ProbeRunner) (cap rel : Nat) (ops : List Op2)
    (hlen : ops.length < 2 ^ 16)
    {f : Nat} {fo : FilterObj} {id : Nat}
    (hfind : AL.find? (reach2 run cap rel ops).w.filters f = some fo) (hc : fo.cache = some id)
    {extra : List RelID} (hx : ExtraAdmissible (reach2 run cap rel ops).w fo extra) :
    ∃ (ce : CacheEntry), (reach2 run cap rel ops).w.cacheEntry? id = some ce ∧
      ce.filter = fo.filter ∧ ce.rels = fo.rels ∧
      (∃ (ts : List Nat), (reach2 run cap rel ops).w.getCacheTables fo.filter fo.rels = some ts ∧
        ts.Nodup ∧ ce.tables.tables.Nodup ∧ ∀ (t : Nat), t ∈ ce.tables.tables ↔ t ∈ ts) ∧
      ∃ (l1 l2 : Lock) (q qu : QueryObj) (visits visitsU : List Visit),
        drain fo extra (reach2 run cap rel ops).w =
          .ok visits ((reach2 run cap rel ops).w.withLocks l2) ∧
        drain { fo with cache := none } extra (reach2 run cap rel ops).w =
          .ok visitsU ((reach2 run cap rel ops).w.withLocks l2) ∧
        Observed (reach2 run cap rel ops).w fo extra ((reach2 run cap rel ops).w.withLocks l1) q
          visits ∧
        Observed (reach2 run cap rel ops).w { fo with cache := none } extra
          ((reach2 run cap rel ops).w.withLocks l1) qu visitsU ∧
        (visits.map (·.e)).Perm (visitsU.map (·.e)) := by
  obtain ⟨fl, H⟩ := reach2_inv run cap rel ops hlen
  exact H.cached_agrees hfind hc hx

/-- the cache invariant itself, at every reachable state: every entry's table list is
    well-formed and lists exactly the tables selected by its filter and fixed relations -/
theorem reach2_cacheInv (run : ProbeRunner) (cap rel : Nat) (ops : List Op2)
    (hlen : ops.length < 2 ^ 16) :
    CacheInv (reach2 run cap rel ops).w := by
  obtain ⟨fl, H⟩ := reach2_inv run cap rel ops hlen
  exact H.cacheInv

end RelRefine2
end Ark
