/-
  Ark.Proofs.WInv — the joint world invariant (entity index ↔ table rows ↔ entity pool) and the
  first end-to-end operation-level specifications, for the fragment of the API without
  components, relations and observers: `World.NewEntity()`, `World.RemoveEntity`, `Map.Set`.
  The pool-related hypotheses of `IdxInv.placeNew` are discharged from the pool invariant.
  Kernel-only proofs, core Lean only.
-/
import Ark.Props.C01World
import Ark.Proofs.Rejects
import Ark.Proofs.Pool

set_option autoImplicit false

namespace Ark
namespace Pool

/-- the free list is determined by the pool -/
theorem PInv.unique {p : Pool} {fl fl' : List Nat} (h : PInv p fl) (h' : PInv p fl') : fl = fl' :=
  Option.some.inj (h.ch.symm.trans h'.ch)

/-- pigeonhole: the free list fits into the non-reserved slots -/
theorem PInv.avail_le {p : Pool} {fl : List Nat} (h : PInv p fl) : fl.length + 2 ≤ p.ents.length := by
  have hsub : fl ⊆ List.range' 2 (p.ents.length - 2) := by
    intro i hi
    have := h.res i hi
    exact List.mem_range'_1.mpr ⟨this.1, by omega⟩
  have := List.Nodup.length_le_of_subset h.nodup hsub
  rw [List.length_range'] at this
  have := h.len2
  omega

/-- with no stale memory behind the slice, `Alive` reads the slot -/
theorem alive_eq {p : Pool} (hst : p.stale = []) (e : Ent) :
    p.alive e = match p.ents[e.id]? with
      | some s => s.gen == e.gen
      | none => false := by
  simp only [alive, hst, List.append_nil]
  cases p.ents[e.id]? <;> rfl

theorem alive_congr {p p' : Pool} (hst : p.stale = []) (hst' : p'.stale = []) (e : Ent)
    (h : p'.ents[e.id]? = p.ents[e.id]?) : p'.alive e = p.alive e := by
  rw [alive_eq hst, alive_eq hst', h]

/-- for an ID outside the free list, `Alive` holds exactly for the handle stored in the slot -/
theorem PInv.alive_iff {p : Pool} {fl : List Nat} (h : PInv p fl) (hst : p.stale = []) (e : Ent)
    (hnf : e.id ∉ fl) : p.alive e = true ↔ p.ents[e.id]? = some e := by
  rw [alive_eq hst]
  cases hs : p.ents[e.id]? with
  | none => simp
  | some s =>
    have hid := h.self e.id s hs hnf
    simp only [beq_iff_eq, Option.some.injEq]
    constructor
    · intro hg; cases s; cases e; simp_all
    · intro he; rw [he]

/-- what `Get` does, uniformly for both branches (`r` = the result of `p.get`) -/
structure GetSpec (p : Pool) (fl : List Nat) (r : Pool × Ent) : Prop where
  pinv : PInv r.1 fl.tail
  cases : (r.2.id = p.ents.length ∧ fl = [] ∧ r.2.gen = 0) ∨
    (r.2.id < p.ents.length ∧ fl = r.2.id :: fl.tail ∧
      ∃ s, p.ents[r.2.id]? = some s ∧ s.gen = r.2.gen)
  ge2 : 2 ≤ r.2.id
  notin : r.2.id ∉ fl.tail
  slot : r.1.ents[r.2.id]? = some r.2
  other : ∀ i : Nat, i ≠ r.2.id → r.1.ents[i]? = p.ents[i]?
  length : r.1.ents.length =
    if r.2.id = p.ents.length then p.ents.length + 1 else p.ents.length
  stale : p.stale = [] → r.1.stale = []
  len : r.1.len = p.len + 1

theorem get_spec (p : Pool) (fl : List Nat) (h : PInv p fl) : GetSpec p fl p.get := by
  have hlen2 := h.len2
  by_cases hav : p.available = 0
  · have hget : p.get = p.getNew := by simp [get, hav]
    have hfl0 : fl = [] := by
      have := h.avail; rw [hav] at this
      exact List.length_eq_zero_iff.mp this
    subst hfl0
    obtain ⟨pi, he⟩ := getNew_inv p [] h
    rw [hget]
    have hents : p.getNew.1.ents = p.ents ++ [⟨p.ents.length, 0⟩] := rfl
    refine ⟨pi, Or.inl ⟨by rw [he], rfl, by rw [he]⟩, by rw [he]; exact hlen2, by simp, ?_, ?_, ?_, ?_, ?_⟩
    · rw [he, hents]; exact List.getElem?_concat_length
    · intro i hi
      rw [he] at hi
      rw [hents]
      rcases Nat.lt_or_ge i p.ents.length with h1 | h1
      · exact List.getElem?_append_left h1
      · rw [List.getElem?_eq_none h1, List.getElem?_eq_none]
        simp only [List.length_append, List.length_singleton]
        have : i ≠ p.ents.length := hi
        omega
    · rw [he, hents]; simp
    · intro hs; show p.stale.drop 1 = []; rw [hs]; rfl
    · simp only [Pool.len, hents, List.length_append, List.length_singleton, reserved]
      show _ - p.available = _ - p.available + 1
      rw [hav]; omega
  · have hget : p.get = p.getRecycled := by simp [get, hav]
    obtain ⟨x, fl', hfl⟩ : ∃ x fl', fl = x :: fl' := by
      cases fl with
      | nil => have := h.avail; simp at this; omega
      | cons x fl' => exact ⟨x, fl', rfl⟩
    subst hfl
    obtain ⟨pi, hid, hxfl, e, hex, hgen⟩ := getRecycled_inv p x fl' h
    have hx2 := (h.res x (by simp)).1
    have hxlt := (h.res x (by simp)).2
    have hnext : p.next = x := by
      have hch := h.ch
      have hav' : p.available = fl'.length + 1 := by
        have := h.avail; simp at this; omega
      rw [hav'] at hch
      simp only [chain] at hch
      split at hch
      · contradiction
      · split at hch
        · contradiction
        · injection hch with hch; injection hch
    have hret : p.getRecycled.2 = ⟨x, e.gen⟩ := by
      cases hr : p.getRecycled.2 with
      | mk i gq => rw [hr] at hid hgen; simp at hid hgen; simp [hid, hgen]
    have hents : p.getRecycled.1.ents = p.ents.set x ⟨x, e.gen⟩ := by
      simp only [getRecycled, hnext]
      have : p.ents.getD x default = e := by
        rw [List.getD_eq_getElem?_getD, hex]; rfl
      rw [this]
    rw [hget]
    refine ⟨pi, Or.inr ⟨by rw [hret]; exact hxlt, by rw [hret]; rfl, e, by rw [hret]; exact hex, by rw [hret]⟩,
      by rw [hret]; exact hx2, by rw [hret]; exact hxfl, ?_, ?_, ?_, fun hs => hs, ?_⟩
    · rw [hret, hents]; exact List.getElem?_set_self hxlt
    · intro i hi
      rw [hret] at hi
      rw [hents]; exact List.getElem?_set_ne (Ne.symm hi)
    · rw [hret, hents, List.length_set, if_neg (by show x ≠ _; omega)]
    · have hle := h.avail_le
      have hav' := h.avail
      simp only [List.length_cons] at hle hav'
      simp only [Pool.len, hents, List.length_set, reserved]
      show _ - (p.available - 1) = _
      omega

/-- what `Recycle` does to a live handle -/
theorem recycle_spec (p : Pool) (fl : List Nat) (e : Ent) (h : PInv p fl) (h2 : 2 ≤ e.id)
    (hnf : e.id ∉ fl) (hs : p.ents[e.id]? = some e) :
    PInv (p.recycle e) (e.id :: fl) ∧
    (p.recycle e).ents[e.id]? = some ⟨p.next, e.gen + 1⟩ ∧
    (∀ i : Nat, i ≠ e.id → (p.recycle e).ents[i]? = p.ents[i]?) ∧
    (p.recycle e).ents.length = p.ents.length ∧
    (p.recycle e).stale = p.stale ∧
    (p.recycle e).len + 1 = p.len := by
  have hlt : e.id < p.ents.length := (List.getElem?_eq_some_iff.mp hs).1
  have pi := recycle_inv p fl e h hlt h2 hnf
  have hgetD : p.ents.getD e.id default = e := by
    rw [List.getD_eq_getElem?_getD, hs]; rfl
  refine ⟨pi, ?_, ?_, ?_, rfl, ?_⟩
  · simp only [recycle, hgetD]; exact List.getElem?_set_self hlt
  · intro i hi; simp only [recycle]; exact List.getElem?_set_ne (Ne.symm hi)
  · simp only [recycle, List.length_set]
  · have hle := pi.avail_le
    have hav := h.avail
    have hl : (p.recycle e).ents.length = p.ents.length := by simp only [recycle, List.length_set]
    rw [hl] at hle
    simp only [List.length_cons] at hle
    simp only [Pool.len, hl, reserved]
    show _ - (p.available + 1) + 1 = _
    omega

end Pool
end Ark

namespace Ark

open Ark.Props.C01World

/-- **The joint world invariant** for the fragment without components, relations and
    observers.  `fl` is the (ghost) free list of the entity pool.

    Relative to the first sketch of the invariant:
    * `aliveIff` is not a field but the derived theorem `WInv.aliveIff`, and it is stated for
      IDs *outside* the free list only — for a freed ID the unrestricted statement is false
      (`Alive` compares generations only; see `Ark.Props.C01Hist.forged_alive`);
    * `stale` (no memory behind the pool slice) is added so that `Alive` reads exactly the slot;
    * `tab0` (one table, no columns) is the fragment's table layout; it gives `compsOf = some []`,
      "rows of table 0 = Σ table sizes" and makes `fewTables` redundant (kept for the general
      case). -/
structure WInv (w : World) (fl : List Nat) : Prop where
  /-- I2: entity index ↔ table rows -/
  idx : IdxInv w
  /-- I1: the pool's free list -/
  pool : Pool.PInv w.pool fl
  /-- no memory retained behind the pool slice (no `Reset` in this fragment) -/
  stale : w.pool.stale = []
  /-- index and pool arrays grow together -/
  lenEq : w.entities.length = w.pool.ents.length
  tgtLen : w.isTarget.length = w.entities.length
  /-- freed IDs point at no table -/
  freeUnindexed : ∀ i ∈ fl, ∃ r, w.entities[i]? = some (maxU32, r)
  reservedUnindexed : ∀ i : Nat, i < 2 → ∃ r, w.entities[i]? = some (maxU32, r)
  /-- IDs in use are indexed to a table -/
  liveIndexed : ∀ i : Nat, 2 ≤ i → i < w.entities.length → i ∉ fl →
    ∃ t r, w.entities[i]? = some (t, r) ∧ t ≠ maxU32
  fewTables : w.tables.length ≤ maxU32
  /-- fragment: the only table is table 0 of the empty archetype -/
  tab0 : ∃ T, w.tables = [T] ∧ T.ids = []
  /-- fragment: no relation targets -/
  noTargets : ∀ i : Nat, w.isTarget.getD i false = false
  /-- fragment: no observers registered -/
  noObs : ∀ evt : Nat, w.obs.hasObservers evt = false

namespace WInv

variable {w : World} {fl : List Nat}

/-- liveness is exact for IDs outside the free list: `Alive(e)` iff slot `e.id` holds `e`.
    (For an ID *on* the free list `Alive` compares against the bumped generation, so a handle
    that was never issued can test alive — see `Ark.Props.C01Hist.forged_alive`.) -/
theorem aliveIff (h : WInv w fl) (e : Ent) (hnf : e.id ∉ fl) :
    w.alive e = true ↔ (e.id < w.entities.length ∧ e.id ∉ fl ∧ w.pool.ents[e.id]? = some e) := by
  have := h.pool.alive_iff h.stale e hnf
  simp only [World.alive, this]
  constructor
  · intro hs
    exact ⟨by rw [h.lenEq]; exact (List.getElem?_eq_some_iff.mp hs).1, hnf, hs⟩
  · exact fun hh => hh.2.2

theorem tables_len (h : WInv w fl) : w.tables.length = 1 := by
  obtain ⟨T, hT, _⟩ := h.tab0; rw [hT]; rfl

theorem tab0_get (h : WInv w fl) : w.tables[0]? = some (w.tbl 0) ∧ (w.tbl 0).ids = [] := by
  obtain ⟨T, hT, hids⟩ := h.tab0
  have : w.tables[0]? = some T := by rw [hT]; rfl
  rw [World.tbl_of_get this]; exact ⟨this, hids⟩

/-- an indexed ID sits in table 0 -/
theorem table_zero (h : WInv w fl) {i t r : Nat} (hi : w.entities[i]? = some (t, r))
    (ht : t ≠ maxU32) : t = 0 := by
  obtain ⟨T, hT, _, _⟩ := h.idx.idxRow i t r hi ht
  have := World.lt_of_get hT
  rw [h.tables_len] at this; omega

/-- a live handle: index entry in table 0 -/
theorem live_entry (h : WInv w fl) {e : Ent} (h2 : 2 ≤ e.id) (hnf : e.id ∉ fl)
    (ha : w.alive e = true) :
    ∃ r, w.entities[e.id]? = some (0, r) ∧ w.pool.ents[e.id]? = some e := by
  obtain ⟨hlt, _, hs⟩ := (h.aliveIff e hnf).mp ha
  obtain ⟨t, r, hi, ht⟩ := h.liveIndexed e.id h2 hlt hnf
  have := h.table_zero hi ht
  subst this
  exact ⟨r, hi, hs⟩

end WInv

/-! ### the initial world -/

theorem winv_init (cap rel : Nat) : WInv (World.init cap rel) [] where
  idx := IdxInv.init cap rel 256
  pool := Pool.pinv_init
  stale := rfl
  lenEq := rfl
  tgtLen := rfl
  freeUnindexed := by intro i hi; cases hi
  reservedUnindexed := by
    intro i hi
    match i, hi with
    | 0, _ => exact ⟨0, rfl⟩
    | 1, _ => exact ⟨0, rfl⟩
  liveIndexed := by
    intro i h2 hlt _
    have : (World.init cap rel).entities.length = 2 := rfl
    omega
  fewTables := by
    show 1 ≤ maxU32
    decide
  tab0 := ⟨_, rfl, rfl⟩
  noTargets := by
    intro i
    show [false, false].getD i false = false
    match i with
    | 0 => rfl
    | 1 => rfl
    | n + 2 => rfl
  noObs := fun _ => rfl

/-! ### `World.NewEntity()` -/

namespace World

/-- the state change of `placeNew` (a verbatim copy of its body) -/
def placedW (w : World) (t : Nat) (rt : Bool) : World :=
  let (pool, e) := w.pool.get
  let (T, idx) := (w.tbl t).add e
  let w := { (w.setTbl t T) with pool }
  if e.id == w.entities.length then
      { w with entities := w.entities ++ [(t, idx)], isTarget := w.isTarget ++ [false] }
    else
      { w with entities := w.entities.set e.id (t, idx)
               isTarget := if rt then w.isTarget.set e.id false else w.isTarget }

theorem placeNew_eq (t : Nat) (rt : Bool) (w : World) :
    placeNew t rt w = .ok ((w.pool.get).2, (w.tbl t).len) (placedW w t rt) := by
  simp only [placeNew, placedW]
  split <;> rfl

theorem placedW_obs (w : World) (t : Nat) (rt : Bool) : (placedW w t rt).obs = w.obs := by
  simp only [placedW]; split <;> rfl

theorem placedW_locks (w : World) (t : Nat) (rt : Bool) : (placedW w t rt).locks = w.locks := by
  simp only [placedW]; split <;> rfl

theorem placedW_pool (w : World) (t : Nat) (rt : Bool) : (placedW w t rt).pool = (w.pool.get).1 := by
  simp only [placedW]; split <;> rfl

theorem placedW_place (w : World) (t : Nat) (rt : Bool) :
    (placedW w t rt).entities = (place w (w.pool.get).2 t).entities ∧
    (placedW w t rt).tables = (place w (w.pool.get).2 t).tables := by
  obtain ⟨w', hok, he, ht, _⟩ := placeNew_ok t rt w
  rw [placeNew_eq] at hok
  injection hok with _ hw
  subst hw
  exact ⟨he, ht⟩

theorem placedW_isTarget (w : World) (t : Nat) :
    (placedW w t true).isTarget =
      if (w.pool.get).2.id = w.entities.length then w.isTarget ++ [false]
      else w.isTarget.set (w.pool.get).2.id false := by
  simp only [placedW]
  by_cases hb : (w.pool.get).2.id = w.entities.length
  · simp only [setTbl_entities, hb, beq_self_eq_true, if_true]; rfl
  · have : ((w.pool.get).2.id == w.entities.length) = false := by simpa using hb
    simp only [setTbl_entities, this, hb, if_false, Bool.false_eq_true, if_true]; rfl

theorem fireCreateEntityIfHas_none (run : ProbeRunner) (e : Ent) (mask : Mask) (w : World)
    (h : w.obs.hasObservers Ev.onCreateEntity = false) :
    fireCreateEntityIfHas run e mask w = .ok () w := by
  simp only [fireCreateEntityIfHas, bind, M.bind, M.get, h, Bool.false_eq_true, if_false, pure,
    M.pure]

/-- without `OnCreateEntity` observers, `NewEntity()` on an unlocked world is `placeNew 0 true`;
    the callback runner `run` is not consulted -/
theorem opNewEntity0_eq (run : ProbeRunner) (w : World) (hl : w.isLocked = false)
    (hno : w.obs.hasObservers Ev.onCreateEntity = false) :
    opNewEntity0 run w = .ok (w.pool.get).2 (placedW w 0 true) := by
  have h2 : (placedW w 0 true).obs.hasObservers Ev.onCreateEntity = false := by
    rw [placedW_obs]; exact hno
  simp only [opNewEntity0, bind, M.bind, checkLocked_unlocked w hl, placeNew_eq, M.get,
    fireCreateEntityIfHas_none run _ _ _ h2, pure, M.pure]

end World

theorem getD_false_append {l : List Bool} (h : ∀ i : Nat, l.getD i false = false) (i : Nat) :
    (l ++ [false]).getD i false = false := by
  rcases Nat.lt_or_ge i l.length with h1 | h1
  · have := h i
    simp only [List.getD_eq_getElem?_getD] at this ⊢
    rw [List.getElem?_append_left h1]; exact this
  · simp only [List.getD_eq_getElem?_getD]
    rw [List.getElem?_append_right h1]
    cases i - l.length with
    | zero => rfl
    | succ n => rfl

theorem getD_false_set {l : List Bool} (h : ∀ i : Nat, l.getD i false = false) (k i : Nat) :
    (l.set k false).getD i false = false := by
  have := h i
  simp only [List.getD_eq_getElem?_getD] at this ⊢
  by_cases hk : k = i
  · subst hk
    rcases Nat.lt_or_ge k l.length with h1 | h1
    · rw [List.getElem?_set_self h1]; rfl
    · rw [List.getElem?_eq_none (by rw [List.length_set]; exact h1)]; rfl
  · rw [List.getElem?_set_ne hk]; exact this

open World in
/-- what `World.NewEntity()` guarantees (no components, no observers) -/
structure NewEntity0Post (w : World) (fl : List Nat) (e : Ent) (w' : World) : Prop where
  /-- the invariant is kept; the free list loses its head (if any) -/
  winv : WInv w' fl.tail
  unlocked : w'.isLocked = false
  pool : w'.pool = (w.pool.get).1
  ge2 : 2 ≤ e.id
  /-- the ID was not in use: a brand-new slot, or the head of the free list -/
  unused : (e.id = w.entities.length ∧ fl = [] ∧ e.gen = 0) ∨
    (e.id < w.entities.length ∧ fl = e.id :: fl.tail)
  alive : w'.alive e = true
  /-- a handle with a brand-new ID did not test alive before (for a recycled ID this is false
      in general: see `Ark.Props.C01Hist.forged_alive`) -/
  freshNew : fl = [] → w.alive e = false
  /-- `Alive` is unchanged for every handle with another ID -/
  aliveFrame : ∀ h : Ent, h.id ≠ e.id → w'.alive h = w.alive h
  /-- every other ID keeps its component set and values -/
  frame : ∀ j : Nat, j ≠ e.id → SameEnt w w' j
  /-- every previously alive handle is another entity, stays alive and keeps everything -/
  live : ∀ h : Ent, h.id ∉ fl → w.alive h = true →
    h ≠ e ∧ h.id ≠ e.id ∧ w'.alive h = true ∧ SameEnt w w' h.id
  comps : compsOf w' e.id = some []
  poolLen : w'.pool.len = w.pool.len + 1
  tabLen : (w'.tbl 0).len = (w.tbl 0).len + 1

open World in
/-- **newEntity0_spec** (partial: freshness is `freshNew` + `live`, not `w.alive e = false`).
    On an unlocked world satisfying the invariant, `World.NewEntity()` succeeds, returns the
    handle the pool hands out, and the result is independent of the callback runner. -/
theorem newEntity0_spec_partial (run : ProbeRunner) {w : World} {fl : List Nat} (h : WInv w fl)
    (hl : w.isLocked = false) (hb : (w.tbl 0).len + 1 < 2 ^ 32) :
    ∃ w', opNewEntity0 run w = .ok (w.pool.get).2 w' ∧
      NewEntity0Post w fl (w.pool.get).2 w' := by
  refine ⟨placedW w 0 true, opNewEntity0_eq run w hl (h.noObs _), ?_⟩
  have g := Pool.get_spec w.pool fl h.pool
  obtain ⟨hE, hT⟩ := placedW_place w 0 true
  obtain ⟨hT0, hids0⟩ := h.tab0_get
  have hlt0 : 0 < w.tables.length := lt_of_get hT0
  have hle : (w.pool.get).2.id ≤ w.entities.length := by
    rw [h.lenEq]; rcases g.cases with ⟨a, _⟩ | ⟨a, _⟩ <;> omega
  have hL : ∀ i : Nat, (placedW w 0 true).entities[i]? =
      if i = (w.pool.get).2.id then some (0, (w.tbl 0).len) else w.entities[i]? := by
    intro i; rw [hE]; exact place_lookup w _ 0 hle i
  have hlen : (placedW w 0 true).entities.length =
      if (w.pool.get).2.id = w.entities.length then w.entities.length + 1
      else w.entities.length := by
    rw [hE, place_entities]
    split
    · simp only [List.length_append, List.length_singleton]
    · simp only [List.length_set]
  have hmemfl : (w.pool.get).2.id = w.entities.length ∨ (w.pool.get).2.id ∈ fl := by
    rcases g.cases with ⟨a, _⟩ | ⟨_, b, _⟩
    · left; rw [h.lenEq]; exact a
    · right; rw [b]; exact List.mem_cons_self
  have hfree : ∀ t' r' : Nat, w.entities[(w.pool.get).2.id]? = some (t', r') →
      w.tables.length ≤ t' := by
    intro t' r' hx
    rcases hmemfl with a | a
    · rw [a, List.getElem?_eq_none (Nat.le_refl _)] at hx; cases hx
    · obtain ⟨r, hr⟩ := h.freeUnindexed _ a
      rw [hr] at hx
      obtain ⟨rfl, _⟩ := Prod.mk.inj (Option.some.inj hx)
      exact h.fewTables
  have hidx : IdxInv (placedW w 0 true) :=
    (h.idx.place (w.pool.get).2 hlt0 hb hle (h.idx.fresh_of_free _ hfree)).congr hE hT
  have hTab : (placedW w 0 true).tables = [((w.tbl 0).add (w.pool.get).2).1] := by
    obtain ⟨T, hT1, _⟩ := h.tab0
    rw [hT, place_tables, hT1]; rfl
  have hst' : (placedW w 0 true).pool.stale = [] := by rw [placedW_pool]; exact g.stale h.stale
  have htbl0 : (placedW w 0 true).tbl 0 = ((w.tbl 0).add (w.pool.get).2).1 :=
    tbl_of_get (by rw [hTab]; rfl)
  -- a handle that is alive and not on the free list sits in an old slot ≠ the new ID
  have hliveNe : ∀ x : Ent, x.id ∉ fl → w.alive x = true → x.id ≠ (w.pool.get).2.id := by
    intro x hnf ha heq
    obtain ⟨hlt, _, _⟩ := (h.aliveIff x hnf).mp ha
    rcases hmemfl with a | a
    · omega
    · exact hnf (heq ▸ a)
  have hAF : ∀ x : Ent, x.id ≠ (w.pool.get).2.id → (placedW w 0 true).alive x = w.alive x := by
    intro x hx
    exact Pool.alive_congr h.stale hst' x (by rw [placedW_pool]; exact g.other x.id hx)
  have hFr : ∀ j : Nat, j ≠ (w.pool.get).2.id → SameEnt w (placedW w 0 true) j :=
    fun j hj => (same_place h.idx _ 0 hle hj).congr hE hT
  have hwinv : WInv (placedW w 0 true) fl.tail := by
    refine
      { idx := hidx
        pool := by rw [placedW_pool]; exact g.pinv
        stale := hst'
        lenEq := by rw [hlen, placedW_pool, g.length, h.lenEq]
        tgtLen := ?_
        freeUnindexed := ?_
        reservedUnindexed := ?_
        liveIndexed := ?_
        fewTables := by rw [hTab]; show 1 ≤ maxU32; decide
        tab0 := ⟨_, hTab, by rw [Table.add_ids]; exact hids0⟩
        noTargets := ?_
        noObs := by intro evt; rw [placedW_obs]; exact h.noObs evt }
    · rw [hlen, placedW_isTarget]
      split
      · simp only [List.length_append, List.length_singleton, h.tgtLen]
      · simp only [List.length_set, h.tgtLen]
    · intro i hi
      have hne : i ≠ (w.pool.get).2.id := fun hh => g.notin (hh ▸ hi)
      rw [hL, if_neg hne]
      exact h.freeUnindexed i (List.mem_of_mem_tail hi)
    · intro i hi
      have hne : i ≠ (w.pool.get).2.id := by have := g.ge2; omega
      rw [hL, if_neg hne]
      exact h.reservedUnindexed i hi
    · intro i h2 hlt hnf
      rw [hL]
      by_cases hne : i = (w.pool.get).2.id
      · rw [if_pos hne]
        exact ⟨0, _, rfl, by decide⟩
      · rw [if_neg hne]
        rw [hlen] at hlt
        rcases g.cases with ⟨a, b, _⟩ | ⟨a, b, _⟩
        · rw [h.lenEq.symm] at a
          rw [if_pos a] at hlt
          exact h.liveIndexed i h2 (by omega) (by rw [b]; simp)
        · rw [h.lenEq.symm] at a
          rw [if_neg (by omega)] at hlt
          refine h.liveIndexed i h2 hlt ?_
          rw [b]
          intro hm
          rcases List.mem_cons.mp hm with hm | hm
          · exact hne hm
          · exact hnf hm
    · intro i
      rw [placedW_isTarget]
      split
      · exact getD_false_append h.noTargets i
      · exact getD_false_set h.noTargets _ i
  refine
    { winv := hwinv
      unlocked := by
        show (placedW w 0 true).locks.isLocked = false
        rw [placedW_locks]; exact hl
      pool := placedW_pool w 0 true
      ge2 := g.ge2
      unused := ?_
      alive := ?_
      freshNew := ?_
      aliveFrame := hAF
      frame := hFr
      live := ?_
      comps := ?_
      poolLen := by rw [placedW_pool]; exact g.len
      tabLen := by rw [htbl0]; exact Table.add_fst_len _ _ }
  · rcases g.cases with ⟨a, b, c⟩ | ⟨a, b, _⟩
    · exact Or.inl ⟨by rw [h.lenEq]; exact a, b, c⟩
    · exact Or.inr ⟨by rw [h.lenEq]; exact a, b⟩
  · have := (hwinv.aliveIff (w.pool.get).2 g.notin).mpr
      ⟨by rw [hlen]; split <;> omega, g.notin, by rw [placedW_pool]; exact g.slot⟩
    exact this
  · intro hfl
    rcases g.cases with ⟨a, _, _⟩ | ⟨_, b, _⟩
    · show w.pool.alive _ = false
      rw [Pool.alive_eq h.stale, a, List.getElem?_eq_none (Nat.le_refl _)]
    · rw [hfl] at b; cases b
  · intro x hnf ha
    have hne := hliveNe x hnf ha
    exact ⟨fun hh => hne (by rw [hh]), hne, by rw [hAF x hne]; exact ha, hFr x.id hne⟩
  · simp only [compsOf, hL, if_true, hTab]
    have : (0 : Nat) ≠ maxU32 := by decide
    simp only [this, if_false, List.getElem?_cons_zero, Option.map_some, Table.add_ids, hids0]

/-! ### `World.RemoveEntity` -/

namespace World

theorem removeRowOf_pool (w : World) (e : Ent) (t row : Nat) :
    (removeRowOf w e t row).pool = w.pool.recycle e := by
  simp only [removeRowOf]; split <;> rfl

theorem removeRowOf_isTarget (w : World) (e : Ent) (t row : Nat) :
    (removeRowOf w e t row).isTarget = w.isTarget := by
  simp only [removeRowOf]; split <;> rfl

theorem removeRowOf_obs (w : World) (e : Ent) (t row : Nat) :
    (removeRowOf w e t row).obs = w.obs := by
  simp only [removeRowOf]; split <;> rfl

theorem removeRowOf_locks (w : World) (e : Ent) (t row : Nat) :
    (removeRowOf w e t row).locks = w.locks := by
  simp only [removeRowOf]; split <;> rfl

/-- without observers and for a non-target, `RemoveEntity` of an alive handle on an unlocked
    world is the removal block; the callback runner `run` is not consulted -/
theorem opRemoveEntity_eq (run : ProbeRunner) (w : World) (e : Ent) (hl : w.isLocked = false)
    (ha : w.alive e = true) {t row : Nat} (hix : w.index e.id = (t, row))
    (hno : ∀ evt : Nat, w.obs.hasObservers evt = false)
    (hnt : w.isTarget.getD e.id false = false) :
    opRemoveEntity run e w = .ok () (removeRowOf w e t row) := by
  cases hsw : ((w.tbl t).remove row).2 <;>
  simp only [opRemoveEntity, bind, M.bind, checkLocked_unlocked w hl, M.get, M.assert, ha, if_true,
    hno, Bool.and_false, Bool.or_false, Bool.false_eq_true, if_false, hix, M.modify, hsw,
    removeRowOf, setTbl, hnt, pure, M.pure]

end World

open World in
/-- what `World.RemoveEntity` of a live handle guarantees (no components, no observers) -/
structure RemoveEntityPost (w : World) (fl : List Nat) (e : Ent) (w' : World) : Prop where
  /-- the invariant is kept; the ID is pushed on the free list -/
  winv : WInv w' (e.id :: fl)
  unlocked : w'.isLocked = false
  pool : w'.pool = w.pool.recycle e
  dead : w'.alive e = false
  /-- `Alive` is unchanged for every handle with another ID -/
  aliveFrame : ∀ h : Ent, h.id ≠ e.id → w'.alive h = w.alive h
  /-- every other ID keeps its component set and values -/
  frame : ∀ j : Nat, j ≠ e.id → SameEnt w w' j
  /-- every other alive handle stays alive and keeps everything -/
  live : ∀ h : Ent, h.id ∉ fl → w.alive h = true → h ≠ e →
    h.id ≠ e.id ∧ w'.alive h = true ∧ SameEnt w w' h.id
  /-- the removed ID points at no table any more -/
  unindexed : (∀ c : Comp, valOf w' e.id c = none) ∧ compsOf w' e.id = none
  poolLen : w'.pool.len + 1 = w.pool.len
  tabLen : (w'.tbl 0).len + 1 = (w.tbl 0).len

open World in
/-- **removeEntity_spec** (partial: needs `e.id ∉ fl`, i.e. the handle is genuine; a forged
    handle of a free slot with the bumped generation tests alive — `C01Hist.forged_alive`). -/
theorem removeEntity_spec_partial (run : ProbeRunner) {w : World} {fl : List Nat} (h : WInv w fl)
    (hl : w.isLocked = false) (e : Ent) (h2 : 2 ≤ e.id) (hnf : e.id ∉ fl)
    (ha : w.alive e = true) :
    ∃ w', opRemoveEntity run e w = .ok () w' ∧ RemoveEntityPost w fl e w' := by
  obtain ⟨row, he, hs⟩ := h.live_entry h2 hnf ha
  have ht : (0 : Nat) ≠ maxU32 := by decide
  refine ⟨removeRowOf w e 0 row,
    opRemoveEntity_eq run w e hl ha (index_of_get he) h.noObs (h.noTargets _), ?_⟩
  obtain ⟨hT0, hrow, hid⟩ := h.idx.indexed he ht
  obtain ⟨_, hids0⟩ := h.tab0_get
  obtain ⟨rp, rslot, rother, rlen, rstale, rplen⟩ := Pool.recycle_spec w.pool fl e h.pool h2 hnf hs
  have hE := removeRowOf_entities w e 0 row
  have hT := removeRowOf_tables w e 0 row
  have hP := removeRowOf_pool w e 0 row
  have hse := h.idx.rowIdx 0 _ ((w.tbl 0).len - 1) hT0 (by omega)
  have hL : ∀ i : Nat, i ≠ e.id →
      ((removeRowOf w e 0 row).entities[i]? = some (0, row) ∧
        w.entities[i]? = some (0, (w.tbl 0).len - 1)) ∨
      (removeRowOf w e 0 row).entities[i]? = w.entities[i]? := by
    intro i hi
    rw [hE, unplace_lookup h.idx he ht i, if_neg hi]
    by_cases hc : row ≠ (w.tbl 0).len - 1 ∧ i = ((w.tbl 0).getEntity ((w.tbl 0).len - 1)).id
    · rw [if_pos hc]; left; exact ⟨rfl, by rw [hc.2]; exact hse⟩
    · rw [if_neg hc]; right; rfl
  have hLe : (removeRowOf w e 0 row).entities[e.id]? = some (maxU32, row) := by
    rw [hE, unplace_lookup h.idx he ht e.id, if_pos rfl]
  have hlen : (removeRowOf w e 0 row).entities.length = w.entities.length := by
    rw [hE, unplace_entities]; split <;> simp only [List.length_modify]
  have hTab : (removeRowOf w e 0 row).tables = [((w.tbl 0).remove row).1] := by
    obtain ⟨T, hT1, _⟩ := h.tab0
    rw [hT, unplace_tables, hT1]; rfl
  have htbl0 : (removeRowOf w e 0 row).tbl 0 = ((w.tbl 0).remove row).1 :=
    tbl_of_get (by rw [hTab]; rfl)
  have hst' : (removeRowOf w e 0 row).pool.stale = [] := by rw [hP, rstale]; exact h.stale
  have hAF : ∀ x : Ent, x.id ≠ e.id → (removeRowOf w e 0 row).alive x = w.alive x := by
    intro x hx
    exact Pool.alive_congr h.stale hst' x (by rw [hP]; exact rother x.id hx)
  have hFr : ∀ j : Nat, j ≠ e.id → SameEnt w (removeRowOf w e 0 row) j :=
    fun j hj => remove_frame h.idx he ht hj
  have hwinv : WInv (removeRowOf w e 0 row) (e.id :: fl) := by
    refine
      { idx := h.idx.removeRowOf he ht
        pool := by rw [hP]; exact rp
        stale := hst'
        lenEq := by rw [hlen, hP, rlen]; exact h.lenEq
        tgtLen := by rw [hlen, removeRowOf_isTarget]; exact h.tgtLen
        freeUnindexed := ?_
        reservedUnindexed := ?_
        liveIndexed := ?_
        fewTables := by rw [hTab]; show 1 ≤ maxU32; decide
        tab0 := ⟨_, hTab, by rw [Table.remove_ids]; exact hids0⟩
        noTargets := by intro i; rw [removeRowOf_isTarget]; exact h.noTargets i
        noObs := by intro evt; rw [removeRowOf_obs]; exact h.noObs evt }
    · intro i hi
      rcases List.mem_cons.mp hi with rfl | hi
      · exact ⟨row, hLe⟩
      · have hne : i ≠ e.id := fun hh => hnf (hh ▸ hi)
        obtain ⟨r, hr⟩ := h.freeUnindexed i hi
        rcases hL i hne with ⟨_, b⟩ | b
        · rw [hr] at b
          exact absurd (Prod.mk.inj (Option.some.inj b)).1.symm ht
        · exact ⟨r, by rw [b]; exact hr⟩
    · intro i hi
      have hne : i ≠ e.id := by omega
      obtain ⟨r, hr⟩ := h.reservedUnindexed i hi
      rcases hL i hne with ⟨_, b⟩ | b
      · rw [hr] at b
        exact absurd (Prod.mk.inj (Option.some.inj b)).1.symm ht
      · exact ⟨r, by rw [b]; exact hr⟩
    · intro i hi2 hlt hnf'
      have hne : i ≠ e.id := fun hh => hnf' (by rw [hh]; exact List.mem_cons_self)
      have hnf'' : i ∉ fl := fun hh => hnf' (List.mem_cons_of_mem _ hh)
      rcases hL i hne with ⟨a, _⟩ | b
      · exact ⟨0, row, a, ht⟩
      · rw [b]; exact h.liveIndexed i hi2 (by rw [← hlen]; exact hlt) hnf''
  refine
    { winv := hwinv
      unlocked := by
        show (removeRowOf w e 0 row).locks.isLocked = false
        rw [removeRowOf_locks]; exact hl
      pool := hP
      dead := ?_
      aliveFrame := hAF
      frame := hFr
      live := ?_
      unindexed := ⟨fun c => remove_unindexed h.idx he ht c, ?_⟩
      poolLen := by rw [hP]; exact rplen
      tabLen := by rw [htbl0, Table.remove_len]; omega }
  · show (removeRowOf w e 0 row).pool.alive e = false
    rw [Pool.alive_eq hst', hP, rslot]
    show (e.gen + 1 == e.gen) = false
    simp
  · intro x hxf hxa hxe
    obtain ⟨_, _, hxs⟩ := (h.aliveIff x hxf).mp hxa
    have hne : x.id ≠ e.id := by
      intro heq
      rw [heq, hs] at hxs
      exact hxe (Option.some.inj hxs).symm
    exact ⟨hne, by rw [hAF x hne]; exact hxa, hFr x.id hne⟩
  · simp only [compsOf, hLe, if_true]

/-- `RemoveEntity` of a dead handle is rejected with the state unchanged (restated from
    `Ark.World.opRemoveEntity_dead`) -/
theorem removeEntity_dead (run : World.ProbeRunner) (w : World) (hl : w.isLocked = false) (e : Ent)
    (hd : w.alive e = false) : World.opRemoveEntity run e w = .panic .deadEntity w :=
  World.opRemoveEntity_dead run w hl e hd

/-! ### `Map.Set` / `writeVals` -/

namespace World

theorem writeValsW_entities (w : World) (e : Ent) (vals : List (Comp × Val)) :
    (writeValsW w e vals).entities = w.entities := rfl

theorem writeValsW_pool (w : World) (e : Ent) (vals : List (Comp × Val)) :
    (writeValsW w e vals).pool = w.pool := rfl

/-- `Set` on an alive entity that has all the components, without `OnSetComponents`
    observers: the values are written, nothing else happens (no lock check: `Set` is allowed on
    a locked world) -/
theorem opSet_eq (run : ProbeRunner) (w : World) (e : Ent) (ids : List Comp)
    (vals : List (Comp × Val)) (ha : w.alive e = true)
    (hhas : (ids.all fun c => (w.tbl (w.index e.id).1).has c) = true)
    (hno : w.obs.hasObservers Ev.onSetComponents = false) :
    opSet run e ids vals w = .ok () (writeValsW w e vals) := by
  have h2 : (writeValsW w e vals).obs.hasObservers Ev.onSetComponents = false := hno
  simp only [opSet, bind, M.bind, M.get, M.assert, ha, if_true, hhas, writeVals_eq, h2,
    Bool.false_eq_true, if_false, pure, M.pure]

/-- `Set` naming a component the entity lacks is rejected with the state unchanged -/
theorem opSet_missing (run : ProbeRunner) (w : World) (e : Ent) (ids : List Comp)
    (vals : List (Comp × Val)) (ha : w.alive e = true)
    (hhas : (ids.all fun c => (w.tbl (w.index e.id).1).has c) = false) :
    opSet run e ids vals w = .panic .missing w := by
  simp only [opSet, bind, M.bind, M.get, M.assert, ha, if_true, hhas, Bool.false_eq_true, if_false]

end World

open World in
/-- `writeVals` on a live entity keeps the invariant and changes only that entity's values -/
theorem writeVals_winv {w : World} {fl : List Nat} (h : WInv w fl) (e : Ent) (h2 : 2 ≤ e.id)
    (hnf : e.id ∉ fl) (ha : w.alive e = true) (vals : List (Comp × Val)) :
    WInv (writeValsW w e vals) fl ∧
    (writeValsW w e vals).isLocked = w.isLocked ∧
    (∀ x : Ent, (writeValsW w e vals).alive x = w.alive x) ∧
    (∀ j : Nat, j ≠ e.id → SameEnt w (writeValsW w e vals) j) ∧
    (∀ c : Comp, (∀ cv ∈ vals, cv.1 ≠ c) → valOf (writeValsW w e vals) e.id c = valOf w e.id c) ∧
    compsOf (writeValsW w e vals) e.id = compsOf w e.id := by
  obtain ⟨row, he, _⟩ := h.live_entry h2 hnf ha
  have ht : (0 : Nat) ≠ maxU32 := by decide
  obtain ⟨hT0, hrow, _⟩ := h.idx.indexed he ht
  obtain ⟨_, hids0⟩ := h.tab0_get
  have hix := index_of_get he
  have hw := writeVals_writeRel (w.tbl 0) row vals hrow
  have hWV : writeValsW w e vals = w.setTbl 0
      (vals.foldl (fun T (cv : Comp × Val) => T.setComp cv.1 row cv.2) (w.tbl 0)) := by
    simp only [writeValsW, hix]; rfl
  obtain ⟨f1, f2, f3⟩ := write_frame h.idx e vals he ht
  refine ⟨?_, rfl, fun _ => rfl, f1, f2, f3⟩
  have hTab : (writeValsW w e vals).tables =
      [vals.foldl (fun T (cv : Comp × Val) => T.setComp cv.1 row cv.2) (w.tbl 0)] := by
    obtain ⟨T, hT1, _⟩ := h.tab0
    rw [hWV, setTbl_tables, hT1]; rfl
  exact
    { idx := h.idx.writeVals e vals he ht
      pool := h.pool
      stale := h.stale
      lenEq := h.lenEq
      tgtLen := h.tgtLen
      freeUnindexed := h.freeUnindexed
      reservedUnindexed := h.reservedUnindexed
      liveIndexed := h.liveIndexed
      fewTables := by rw [hTab]; show 1 ≤ maxU32; decide
      tab0 := ⟨_, hTab, by rw [hw.ids]; exact hids0⟩
      noTargets := h.noTargets
      noObs := h.noObs }

open World in
/-- `writeVals` on a live entity keeps the row count of table 0 -/
theorem writeVals_rows {w : World} {fl : List Nat} (h : WInv w fl) (e : Ent) (h2 : 2 ≤ e.id)
    (hnf : e.id ∉ fl) (ha : w.alive e = true) (vals : List (Comp × Val)) :
    ((writeValsW w e vals).tbl 0).len = (w.tbl 0).len := by
  obtain ⟨row, he, _⟩ := h.live_entry h2 hnf ha
  have ht : (0 : Nat) ≠ maxU32 := by decide
  obtain ⟨hT0, hrow, _⟩ := h.idx.indexed he ht
  have hw := writeVals_writeRel (w.tbl 0) row vals hrow
  have hWV : writeValsW w e vals = w.setTbl 0
      (vals.foldl (fun T (cv : Comp × Val) => T.setComp cv.1 row cv.2) (w.tbl 0)) := by
    simp only [writeValsW, index_of_get he]; rfl
  rw [hWV, setTbl_tbl_self _ (lt_of_get hT0)]
  exact hw.len

open World in
/-- **opSet_spec** — `Set` with an empty component list on a live entity succeeds, keeps the
    invariant and changes nothing but (at most) that entity's values; independent of `run` -/
theorem opSet_spec (run : ProbeRunner) {w : World} {fl : List Nat} (h : WInv w fl) (e : Ent)
    (h2 : 2 ≤ e.id) (hnf : e.id ∉ fl) (ha : w.alive e = true) (vals : List (Comp × Val)) :
    ∃ w', opSet run e [] vals w = .ok () w' ∧ WInv w' fl ∧ w'.isLocked = w.isLocked ∧
      (∀ x : Ent, w'.alive x = w.alive x) ∧
      (∀ j : Nat, j ≠ e.id → SameEnt w w' j) ∧
      (∀ c : Comp, (∀ cv ∈ vals, cv.1 ≠ c) → valOf w' e.id c = valOf w e.id c) ∧
      compsOf w' e.id = compsOf w e.id :=
  ⟨writeValsW w e vals, opSet_eq run w e [] vals ha rfl (h.noObs _), writeVals_winv h e h2 hnf ha vals⟩

open World in
/-- in this fragment entities have no components: `Set` with a non-empty component list on a
    live entity panics `missing`, state unchanged -/
theorem opSet_missing_frag (run : ProbeRunner) {w : World} {fl : List Nat} (h : WInv w fl)
    (e : Ent) (h2 : 2 ≤ e.id) (hnf : e.id ∉ fl) (ha : w.alive e = true) (c : Comp)
    (ids : List Comp) (vals : List (Comp × Val)) :
    opSet run e (c :: ids) vals w = .panic .missing w := by
  obtain ⟨row, he, _⟩ := h.live_entry h2 hnf ha
  obtain ⟨_, hids0⟩ := h.tab0_get
  apply opSet_missing run w e (c :: ids) vals ha
  have : (w.tbl (w.index e.id).1).has c = false := by
    rw [index_of_get he]
    simp only [Table.has, Table.colIdx, hids0]
    rfl
  simp only [List.all_cons, this, Bool.false_and]

/-- `Set` on a dead handle is rejected with the state unchanged (restated from
    `Ark.World.opSet_dead`) -/
theorem opSet_dead (run : World.ProbeRunner) (w : World) (e : Ent) (hd : w.alive e = false)
    (ids : List Comp) (vals : List (Comp × Val)) :
    World.opSet run e ids vals w = .panic .deadEntity w :=
  World.opSet_dead run w e hd ids vals

/-! ### independence of the callback runner (no observers are registered) -/

open World in
theorem newEntity0_run_indep (run run' : ProbeRunner) {w : World} {fl : List Nat} (h : WInv w fl)
    (hl : w.isLocked = false) : opNewEntity0 run w = opNewEntity0 run' w := by
  rw [opNewEntity0_eq run w hl (h.noObs _), opNewEntity0_eq run' w hl (h.noObs _)]

open World in
theorem removeEntity_run_indep (run run' : ProbeRunner) {w : World} {fl : List Nat}
    (h : WInv w fl) (hl : w.isLocked = false) (e : Ent)
    (hgen : w.alive e = true → 2 ≤ e.id ∧ e.id ∉ fl) :
    opRemoveEntity run e w = opRemoveEntity run' e w := by
  cases ha : w.alive e with
  | false => rw [opRemoveEntity_dead run w hl e ha, opRemoveEntity_dead run' w hl e ha]
  | true =>
    obtain ⟨h2, hnf⟩ := hgen ha
    obtain ⟨row, he, _⟩ := h.live_entry h2 hnf ha
    rw [opRemoveEntity_eq run w e hl ha (index_of_get he) h.noObs (h.noTargets _),
      opRemoveEntity_eq run' w e hl ha (index_of_get he) h.noObs (h.noTargets _)]

open World in
theorem opSet_run_indep (run run' : ProbeRunner) {w : World} {fl : List Nat} (h : WInv w fl)
    (e : Ent) (ids : List Comp) (vals : List (Comp × Val)) :
    opSet run e ids vals w = opSet run' e ids vals w := by
  cases ha : w.alive e with
  | false => rw [World.opSet_dead run w e ha, World.opSet_dead run' w e ha]
  | true =>
    cases hhas : (ids.all fun c => (w.tbl (w.index e.id).1).has c) with
    | false => rw [opSet_missing run w e ids vals ha hhas, opSet_missing run' w e ids vals ha hhas]
    | true =>
      rw [opSet_eq run w e ids vals ha hhas (h.noObs _),
        opSet_eq run' w e ids vals ha hhas (h.noObs _)]

end Ark
